// Execution of op texts on the real contracts, callee responses, result lines and oracles.

const PROXY_MSGS: [&str; 9] = [
    "Cannot merge",
    "Zero amount",
    "Invalid payments received from Farm",
    "Invalid payment",
    "Invalid locked token ID",
    "Invalid token for energy update",
    "Not an intermediated pair",
    "Not an intermediated farm",
    "Empty token id",
];

#[derive(Default, Clone)]
struct Outs {
    l: Option<(u64, BigUint)>,
    o: BigUint,
    w: Option<(u64, BigUint)>,
    f: Option<(u64, BigUint)>,
    r: Option<(u64, BigUint)>,
}

fn opt_pay(p: &Option<(u64, BigUint)>) -> String {
    match p {
        Some((n, a)) if !a.is_zero() => format!("{n}:{a}"),
        _ => "-".into(),
    }
}
fn nz(n: u64, a: BigUint) -> Option<(u64, BigUint)> {
    if a.is_zero() {
        None
    } else {
        Some((n, a))
    }
}

impl PxWorld {
    fn farm_addr(&self, f: &str) -> Address {
        if f == "L" {
            self.farm_l.address_ref().clone()
        } else {
            self.farm_w.address_ref().clone()
        }
    }

    fn lk_at(&self, k: u64, a: &BigUint) -> String {
        format!("{}:{}@{}", k, a, self.unlock_of(k))
    }

    /// energy contribution amt*(unlock-now), signed
    fn en(&self, k: u64, a: &BigUint) -> BigInt {
        bi(a) * (BigInt::from(self.unlock_of(k)) - BigInt::from(self.epoch))
    }

    fn ensure(&mut self, who: u64, t: &[u8], amount: &BigUint) {
        let a = self.user(who);
        let have = self.b.get_esdt_balance(&a, t, 0);
        if &have < amount {
            self.b.set_esdt_balance(&a, t, amount);
            if t == BASE {
                self.ext += bi(&(amount - &have));
            }
        }
    }

    fn state_line(&self, s: &Snap) -> String {
        let mut cw = Bag::new();
        let mut cf = Bag::new();
        for i in 0..self.users.len() {
            for (k, v) in s.u_w[i].iter() {
                bag_add(&mut cw, *k, v);
            }
            for (k, v) in s.u_f[i].iter() {
                bag_add(&mut cf, *k, v);
            }
        }
        let net = bi(&s.tot_base) + bi(&bag_sum(&s.tot_lk)) - &self.c0 - &self.ext;
        format!(
            "now={} lp={} base={} other={} lk={} fl={} fw={} hw={} cw={} cf={} net={} ed={}",
            self.epoch,
            s.p_lp,
            s.p_base,
            s.p_other,
            show_bag(&s.p_lk),
            show_bag(&s.p_fl),
            show_bag(&s.p_fw),
            show_bag(&s.p_w),
            show_bag(&cw),
            show_bag(&cf),
            net,
            {
                let v: Vec<String> = self.ded.iter().enumerate().filter(|(_, d)| !d.is_zero()).map(|(i, d)| format!("{}:{}", i + 1, d)).collect();
                if v.is_empty() { "-".to_string() } else { v.join(",") }
            }
        )
    }

    /// first nonce of `tok` whose attributes we had not seen before the op
    fn new_nonce(before: u64, after: u64) -> Option<u64> {
        if after > before {
            Some(before + 1)
        } else {
            None
        }
    }

    /// claims of all user-held wrapped tokens on the proxy's holdings (recomputed from the real attributes)
    fn claims(&self, s: &Snap) -> (BigUint, Bag, Bag, Bag, Bag, u64) {
        let mut lp = BigUint::zero();
        let (mut lk, mut fl, mut fw, mut hw) = (Bag::new(), Bag::new(), Bag::new(), Bag::new());
        let mut holdings = 0u64;
        for i in 0..self.users.len() {
            for (n, bal) in s.u_w[i].iter() {
                holdings += 1;
                lp += bal;
                if let Some(a) = self.wattr.get(n) {
                    if let Some(p) = Self::part(&a.locked, &a.total, bal) {
                        bag_add(&mut lk, a.k, &p);
                    }
                }
            }
            for (n, bal) in s.u_f[i].iter() {
                holdings += 2;
                if let Some(a) = self.fattr.get(n) {
                    bag_add(if a.farm == 0 { &mut fl } else { &mut fw }, a.fnonce, bal);
                    if let Some(p) = Self::part(&a.pa, &a.fa, bal) {
                        if a.kind == 0 {
                            bag_add(&mut lk, a.pn, &p);
                        } else {
                            bag_add(&mut hw, a.pn, &p);
                            if let Some(wa) = self.wattr.get(&a.pn) {
                                if let Some(q) = Self::part(&wa.locked, &wa.total, &p) {
                                    bag_add(&mut lk, wa.k, &q);
                                }
                            }
                        }
                    }
                }
            }
        }
        (lp, lk, fl, fw, hw, holdings)
    }

    fn oracle_state(&mut self, tr: &mut Trace, site: &str, s: &Snap) {
        let (lp, lk, fl, fw, hw, holdings) = self.claims(s);
        if s.p_lp < lp {
            tr.fail("C16", "wrapped_lp_backed", site, &format!("proxy LP balance {} < LP recorded in user-held wrapped LP tokens {}", s.p_lp, lp));
        }
        for (k, need) in lk.iter() {
            if &bag_get(&s.p_lk, *k) < need {
                tr.fail("C16", "wrapped_lp_backed", site, &format!("proxy holds {} locked tokens of nonce {} < {} recorded in outstanding wrapped tokens", bag_get(&s.p_lk, *k), k, need));
            }
        }
        for (name, have, need) in [("FARML", &s.p_fl, &fl), ("FARMW", &s.p_fw, &fw)] {
            for (n, x) in need.iter() {
                if &bag_get(have, *n) < x {
                    tr.fail("C16", "wrapped_farm_backed", site, &format!("proxy holds {} of {} nonce {} < {} recorded in outstanding wrapped farm tokens", bag_get(have, *n), name, n, x));
                }
            }
        }
        for (n, x) in hw.iter() {
            if &bag_get(&s.p_w, *n) < x {
                tr.fail("C16", "wrapped_farm_backed", site, &format!("proxy holds {} wrapped LP of nonce {} < {} recorded in outstanding wrapped farm tokens", bag_get(&s.p_w, *n), n, x));
            }
        }
        // pass-through tokens
        if !s.p_base.is_zero() || !s.p_other.is_zero() || !bag_sum(&s.p_f).is_zero() {
            tr.fail("C16", "proxy_keeps_nothing", site, &format!("proxy holds base={} other={} wrappedFarm={}", s.p_base, s.p_other, bag_sum(&s.p_f)));
        }
        let held_all = bag_sum(&s.p_lk);
        // rewards stranded earlier are reported once, at the op that stranded them
        let held = if held_all >= self.stray_total { &held_all - &self.stray_total } else { BigUint::zero() };
        let claimed = bag_sum(&lk);
        let slack = BigUint::from(self.floors + holdings);
        if held > &claimed + &slack {
            tr.fail("C16", "proxy_keeps_nothing", site, &format!("proxy holds {} locked tokens, outstanding wrapped tokens record {} (rounding allowance {})", held, claimed, slack));
        }
        // supply: what the proxy minted and did not burn is exactly the locked tokens it holds
        let net = bi(&s.tot_base) + bi(&bag_sum(&s.tot_lk)) - &self.c0 - &self.ext;
        if net != bi(&held) {
            tr.fail("C16", "round_trip_supply", site, &format!("base+locked supply created through the proxy = {}, locked tokens held by the proxy = {}", net, held));
        }
    }

    fn exec_impl(&mut self, tr: &mut Trace, text_in: &str) {
        let text = text_in.split("->").next().unwrap().trim().to_string();
        let w0: Vec<&str> = text.split_whitespace().collect();
        let site = w0[0].to_string();
        // `<op>Ob <caller> <original caller> <rest>` is `<op> <caller> <rest>` with the endpoint's optional
        // original-caller argument supplied (exitFarmProxy / claimRewardsProxy / enterFarmProxy)
        let (w, orig): (Vec<&str>, Option<u64>) = if w0[0].ends_with("Ob") {
            let mut v = vec![&w0[0][..w0[0].len() - 2], w0[1]];
            v.extend_from_slice(&w0[3..]);
            (v, Some(w0[2].parse().unwrap()))
        } else {
            (w0.clone(), None)
        };
        let oc: Option<Address> = orig.map(|o| self.user(o));
        let zero = rust_biguint!(0);
        // ---- top-ups before the pre-snapshot
        match w[0] {
            "lock" => {
                let who: u64 = w[1].parse().unwrap();
                self.ensure(who, BASE, &big(w[2]));
            }
            "swap" => {
                let who: u64 = w[1].parse().unwrap();
                self.ensure(who, if w[2] == "bo" { BASE } else { OTHER }, &big(w[3]));
            }
            "addLiq" => {
                let who: u64 = w[1].parse().unwrap();
                self.ensure(who, OTHER, &big(w[3]));
            }
            "bad" => {
                let who: u64 = w[2].parse().unwrap_or(1);
                self.ensure(who, OTHER, &BigUint::from(1000u32));
                self.ensure(who, BASE, &BigUint::from(1000u32));
            }
            _ => {}
        }
        let pre = self.snap();
        let (pk, pw, pf) = (self.max_k, self.max_w, self.max_f);
        let _ = pk;
        let mut who: u64 = 0;
        let mut rets: Vec<Pay> = vec![];
        let mut is_proxy_op = true;
        let pair_addr = self.pair.address_ref().clone();
        let res: TxResult = match w[0] {
            "lock" => {
                is_proxy_op = false;
                who = w[1].parse().unwrap();
                let c = self.user(who);
                let opt: u64 = w[3].parse().unwrap();
                self.b.execute_esdt_transfer(&c, &self.fac, BASE, 0, &big(w[2]), |sc| {
                    let p = sc.lock_tokens_endpoint(opt, OptionalValue::None);
                    rets.push(pay_of(&p));
                })
            }
            "advance" => {
                is_proxy_op = false;
                let e: u64 = w[1].parse().unwrap();
                let bl: u64 = w[2].parse().unwrap();
                self.epoch = self.epoch.max(e);
                self.block = self.block.max(bl);
                let (e2, b2) = (self.epoch, self.block);
                self.b.set_block_epoch(e2);
                self.b.set_block_nonce(b2);
                self.b.set_block_round(b2);
                self.b.execute_tx(&self.owner.clone(), &self.fac, &zero, |_sc| {})
            }
            "swap" => {
                is_proxy_op = false;
                who = w[1].parse().unwrap();
                let c = self.user(who);
                let (tin, tout) = if w[2] == "bo" { (BASE, OTHER) } else { (OTHER, BASE) };
                self.b.execute_esdt_transfer(&c, &self.pair, tin, 0, &big(w[3]), |sc| {
                    sc.swap_tokens_fixed_input(managed_token_id!(tout), managed_biguint!(1u64));
                })
            }
            "transfer" => {
                // a user hands wrapped tokens to another user (plain ESDT transfer, no contract involved)
                is_proxy_op = false;
                who = w[1].parse().unwrap();
                let to: u64 = w[2].parse().unwrap();
                let (from_a, to_a) = (self.user(who), self.user(to));
                let tok: &[u8] = if w[3] == "wlp" { WLP } else { WFARM };
                let (n, a) = parse_pays(w[4]).remove(0);
                let have = self.b.get_esdt_balance(&from_a, tok, n);
                if who != to && have >= a && !a.is_zero() {
                    let before_to = self.b.get_esdt_balance(&to_a, tok, n);
                    let attrs: Vec<u8> = self.b.execute_in_managed_environment(|| {
                        self.b.get_nft_attributes::<Vec<u8>>(&from_a, tok, n).unwrap_or_default()
                    });
                    self.b.set_nft_balance(&from_a, tok, n, &(&have - &a), &attrs);
                    self.b.set_nft_balance(&to_a, tok, n, &(&before_to + &a), &attrs);
                    self.b.execute_tx(&self.owner.clone(), &self.fac, &zero, |_sc| {})
                } else {
                    self.b.execute_esdt_transfer(&from_a, &self.fac, OTHER, 0, &pow10(40), |_sc| {})
                }
            }
            "addLiq" => {
                who = w[1].parse().unwrap();
                let c = self.user(who);
                let (k, la) = parse_pays(w[2]).remove(0);
                let oa = big(w[3]);
                let (mb, mo) = (big(w[4]), big(w[5]));
                let lockedp = TxTokenTransfer { token_identifier: LOCKED.to_vec(), nonce: k, value: la };
                let otherp = TxTokenTransfer { token_identifier: OTHER.to_vec(), nonce: 0, value: oa };
                let mut transfers = if self.locked_first { vec![lockedp, otherp] } else { vec![otherp, lockedp] };
                for (n, a) in parse_pays(w[6]) {
                    transfers.push(TxTokenTransfer { token_identifier: WLP.to_vec(), nonce: n, value: a });
                }
                let (m1, m2) = if self.locked_first { (mb, mo) } else { (mo, mb) };
                self.b.execute_esdt_multi_transfer(&c, &self.proxy, &transfers, |sc| {
                    let r = sc.add_liquidity_proxy(managed_address!(&pair_addr), mbig(&m1), mbig(&m2));
                    for p in r.into_iter() {
                        rets.push(pay_of(&p));
                    }
                })
            }
            "removeLiq" => {
                who = w[1].parse().unwrap();
                let c = self.user(who);
                let (n, a) = parse_pays(w[2]).remove(0);
                let (mb, mo) = (big(w[3]), big(w[4]));
                let (m1, m2) = if self.locked_first { (mb, mo) } else { (mo, mb) };
                self.b.execute_esdt_transfer(&c, &self.proxy, WLP, n, &a, |sc| {
                    let r = sc.remove_liquidity_proxy(managed_address!(&pair_addr), mbig(&m1), mbig(&m2));
                    for p in r.into_iter() {
                        rets.push(pay_of(&p));
                    }
                })
            }
            "enterL" | "enterW" => {
                who = w[1].parse().unwrap();
                let c = self.user(who);
                let fa = self.farm_addr(w[2]);
                let (n, a) = parse_pays(w[3]).remove(0);
                let tok: &[u8] = if w[0] == "enterL" { LOCKED } else { WLP };
                let mut transfers = vec![TxTokenTransfer { token_identifier: tok.to_vec(), nonce: n, value: a }];
                for (n, a) in parse_pays(w[4]) {
                    transfers.push(TxTokenTransfer { token_identifier: WFARM.to_vec(), nonce: n, value: a });
                }
                self.b.execute_esdt_multi_transfer(&c, &self.proxy, &transfers, |sc| {
                    let ov = match &oc {
                        Some(a) => OptionalValue::Some(managed_address!(a)),
                        None => OptionalValue::None,
                    };
                    let (x, y) = sc.enter_farm_proxy_endpoint(managed_address!(&fa), ov).into_tuple();
                    rets.push(pay_of(&x));
                    rets.push(pay_of(&y));
                })
            }
            "exit" | "claim" => {
                who = w[1].parse().unwrap();
                let c = self.user(who);
                let fa = self.farm_addr(w[2]);
                let (n, a) = parse_pays(w[3]).remove(0);
                let is_exit = w[0] == "exit";
                self.b.execute_esdt_transfer(&c, &self.proxy, WFARM, n, &a, |sc| {
                    let ov = match &oc {
                        Some(a) => OptionalValue::Some(managed_address!(a)),
                        None => OptionalValue::None,
                    };
                    let (x, y) = if is_exit {
                        sc.exit_farm_proxy(managed_address!(&fa), ov).into_tuple()
                    } else {
                        sc.claim_rewards_proxy(managed_address!(&fa), ov).into_tuple()
                    };
                    rets.push(pay_of(&x));
                    rets.push(pay_of(&y));
                })
            }
            "mergeLp" => {
                who = w[1].parse().unwrap();
                let c = self.user(who);
                let transfers: Vec<TxTokenTransfer> = parse_pays(w[2])
                    .into_iter()
                    .map(|(n, a)| TxTokenTransfer { token_identifier: WLP.to_vec(), nonce: n, value: a })
                    .collect();
                self.b.execute_esdt_multi_transfer(&c, &self.proxy, &transfers, |sc| {
                    let p = sc.merge_wrapped_lp_tokens_endpoint();
                    rets.push(pay_of(&p));
                })
            }
            "mergeFarm" => {
                who = w[1].parse().unwrap();
                let c = self.user(who);
                let fa = self.farm_addr(w[2]);
                let transfers: Vec<TxTokenTransfer> = parse_pays(w[3])
                    .into_iter()
                    .map(|(n, a)| TxTokenTransfer { token_identifier: WFARM.to_vec(), nonce: n, value: a })
                    .collect();
                self.b.execute_esdt_multi_transfer(&c, &self.proxy, &transfers, |sc| {
                    let p = sc.merge_wrapped_farm_tokens_endpoint(managed_address!(&fa));
                    rets.push(pay_of(&p));
                })
            }
            "incLp" | "incFarm" => {
                who = w[1].parse().unwrap();
                let c = self.user(who);
                let (n, a) = parse_pays(w[2]).remove(0);
                let ep: u64 = w[3].parse().unwrap();
                let is_lp = w[0] == "incLp";
                self.b.execute_esdt_transfer(&c, &self.proxy, if is_lp { WLP } else { WFARM }, n, &a, |sc| {
                    let p = if is_lp {
                        sc.increase_proxy_pair_token_energy_endpoint(ep)
                    } else {
                        sc.increase_proxy_farm_token_energy_endpoint(ep)
                    };
                    rets.push(pay_of(&p));
                })
            }
            "bad" => {
                who = w[2].parse().unwrap_or(1);
                let c = self.user(who);
                let fl = self.farm_l.address_ref().clone();
                let one = rust_biguint!(1000);
                match w[1] {
                    "otherToFarm" => {
                        self.ensure(who, OTHER, &one);
                        self.b.execute_esdt_transfer(&c, &self.proxy, OTHER, 0, &one, |sc| {
                            sc.enter_farm_proxy_endpoint(managed_address!(&fl), OptionalValue::None);
                        })
                    }
                    "baseToRemove" => {
                        self.ensure(who, BASE, &one);
                        self.b.execute_esdt_transfer(&c, &self.proxy, BASE, 0, &one, |sc| {
                            sc.remove_liquidity_proxy(managed_address!(&pair_addr), managed_biguint!(1u64), managed_biguint!(1u64));
                        })
                    }
                    "twoUnlocked" => {
                        self.ensure(who, BASE, &one);
                        self.ensure(who, OTHER, &one);
                        let (t1, t2) = if self.locked_first { (BASE, OTHER) } else { (OTHER, BASE) };
                        let transfers = vec![
                            TxTokenTransfer { token_identifier: t1.to_vec(), nonce: 0, value: one.clone() },
                            TxTokenTransfer { token_identifier: t2.to_vec(), nonce: 0, value: one.clone() },
                        ];
                        self.b.execute_esdt_multi_transfer(&c, &self.proxy, &transfers, |sc| {
                            sc.add_liquidity_proxy(managed_address!(&pair_addr), managed_biguint!(1u64), managed_biguint!(1u64));
                        })
                    }
                    "notPair" => {
                        self.ensure(who, OTHER, &one);
                        self.b.execute_esdt_transfer(&c, &self.proxy, OTHER, 0, &one, |sc| {
                            sc.remove_liquidity_proxy(managed_address!(&fl), managed_biguint!(1u64), managed_biguint!(1u64));
                        })
                    }
                    "notFarm" => {
                        self.ensure(who, OTHER, &one);
                        self.b.execute_esdt_transfer(&c, &self.proxy, OTHER, 0, &one, |sc| {
                            sc.exit_farm_proxy(managed_address!(&pair_addr), OptionalValue::None);
                        })
                    }
                    "mergeOne" => {
                        // a merge needs at least two payments
                        let have = pre.u_w[(who - 1) as usize].iter().next().map(|(n, a)| (*n, a.clone()));
                        match have {
                            Some((n, a)) => self.b.execute_esdt_transfer(&c, &self.proxy, WLP, n, &a, |sc| {
                                sc.merge_wrapped_lp_tokens_endpoint();
                            }),
                            None => self.b.execute_esdt_transfer(&c, &self.proxy, OTHER, 0, &one, |sc| {
                                sc.merge_wrapped_lp_tokens_endpoint();
                            }),
                        }
                    }
                    _ => {
                        // wrapped farm token sent to an LP endpoint / wrapped LP sent to a farm endpoint
                        let hf = pre.u_f[(who - 1) as usize].iter().next().map(|(n, a)| (*n, a.clone()));
                        match hf {
                            Some((n, a)) => self.b.execute_esdt_transfer(&c, &self.proxy, WFARM, n, &a, |sc| {
                                sc.remove_liquidity_proxy(managed_address!(&pair_addr), managed_biguint!(1u64), managed_biguint!(1u64));
                            }),
                            None => self.b.execute_esdt_transfer(&c, &self.proxy, OTHER, 0, &one, |sc| {
                                sc.claim_rewards_proxy(managed_address!(&fl), OptionalValue::None);
                            }),
                        }
                    }
                }
            }
            other => panic!("unknown op {other}"),
        };
        let ok = res.result_status == 0;
        let post = self.snap();
        let ui = if who >= 1 && (who as usize) <= self.users.len() { (who - 1) as usize } else { 0 };
        // the account whose energy entry the call is about: the original caller when one is supplied
        let ei = match orig {
            Some(o) if o >= 1 && (o as usize) <= self.users.len() => (o - 1) as usize,
            _ => ui,
        };

        // ------------------------------------------------------------ failed transaction
        if !ok {
            let msg = res.result_message.clone();
            // only the manager is on the proxy's SC whitelist: anybody else naming an original caller is
            // rejected by the proxy's own guard (`get_orig_caller_from_opt`)
            let not_wl = orig.is_some() && ui != self.nplain && msg == "Item not whitelisted";
            let cls = if is_proxy_op && w[0] != "bad" && (not_wl || PROXY_MSGS.iter().any(|m| msg == *m)) { "?" } else { "fail" };
            if orig.is_some() && ui != self.nplain {
                tr.count("branch.orig_caller_by_non_whitelisted");
            }
            let n = tr.op(&format!("{} -> {}", text, cls));
            tr.count(&format!("op.{}", site));
            tr.count(&format!("err.{}", site));
            tr.count(&format!("errmsg.{}.{}", site, msg.replace(' ', "_").chars().take(48).collect::<String>()));
            if pre != post {
                tr.fail("C16", "failed_tx_changes_state", &site, "balances or energy differ after a failed transaction");
            }
            self.oracle_state(tr, &site, &post);
            tr.res_err(n);
            return;
        }

        // ------------------------------------------------------------ successful transaction
        let now = self.epoch;
        let _ = now;
        let mut resp: Vec<String> = vec![];
        let mut outs = Outs::default();
        let mut burned: Option<(u64, BigUint)> = None; // locked tokens burned by the proxy (observed)
        let mut contrib = BigInt::zero(); // energy given / taken by the factory in this tx (recomputed)
        let mut t_contrib = BigInt::zero(); // same for the locked-token total of the entry
        let new_w = Self::new_nonce(pw, self.max_w);
        let new_f = Self::new_nonce(pf, self.max_f);
        let reward_of = |p: &Pay| -> Option<(u64, BigUint)> { if p.0.as_slice() == LOCKED { nz(p.1, p.2.clone()) } else { None } };
        let d_plk = |k: u64| -> BigInt { bi(&bag_get(&post.p_lk, k)) - bi(&bag_get(&pre.p_lk, k)) };
        let supply_drop = |k: u64| -> BigInt { bi(&bag_get(&pre.tot_lk, k)) - bi(&bag_get(&post.tot_lk, k)) };
        let new_farm_tok = |pre_b: &Bag, post_b: &Bag| -> (u64, BigUint) {
            for (n, a) in post_b.iter() {
                let before = bag_get(pre_b, *n);
                if a > &before {
                    return (*n, a - &before);
                }
            }
            (0, BigUint::zero())
        };
        // locked tokens that reached the user during the tx (per nonce: post - pre + what he paid at that nonce):
        // for enter / merge these can only be rewards (the farm's own + what the proxy forwards from the merge call)
        let user_lk_gain = |paid: &[(u64, BigUint)]| -> Option<(u64, BigUint)> {
            let mut best: Option<(u64, BigUint)> = None;
            let keys: std::collections::BTreeSet<u64> = pre.u_lk[ui].keys().chain(post.u_lk[ui].keys()).cloned().collect();
            for k in keys {
                let mut d = bi(&bag_get(&post.u_lk[ui], k)) - bi(&bag_get(&pre.u_lk[ui], k));
                for (pk, pa) in paid.iter() {
                    if *pk == k {
                        d += bi(pa);
                    }
                }
                if d > BigInt::zero() {
                    let a = d.to_biguint().unwrap();
                    match &best {
                        Some((_, b)) if b >= &a => {}
                        _ => best = Some((k, a)),
                    }
                }
            }
            best
        };
        // expected change of the proxy's locked holdings per nonce, used to spot stray tokens
        let mut expect: BTreeMap<u64, BigInt> = BTreeMap::new();
        let exp_add = |m: &mut BTreeMap<u64, BigInt>, k: u64, v: BigInt| {
            *m.entry(k).or_insert_with(BigInt::zero) += v;
        };
        let mut check_stray = false;
        match w[0] {
            "lock" => {
                let p = &rets[0];
                resp.push(format!("k={} unl={}", p.1, self.unlock_of(p.1)));
            }
            "advance" | "swap" | "bad" | "transfer" => resp.push("ok".into()),
            "addLiq" => {
                let (k, la) = parse_pays(w[2]).remove(0);
                let oa = big(w[3]);
                let merge = parse_pays(w[6]);
                let lp = &post.p_lp - &pre.p_lp;
                let ul = &post.pair_base - &pre.pair_base;
                let uo = &post.pair_other - &pre.pair_other;
                resp.push(format!("lp={} ul={} uo={}", lp, ul, uo));
                outs.w = nz(rets[0].1, rets[0].2.clone());
                outs.l = nz(rets[1].1, rets[1].2.clone());
                outs.o = rets[2].2.clone();
                let _ = (&la, &oa);
                if !merge.is_empty() {
                    let a = self.wattr.get(&rets[0].1).cloned().unwrap();
                    resp.push(format!("mk={}", self.lk_at(a.k, &a.locked)));
                    contrib -= self.en(k, &ul);
                    t_contrib -= bi(&ul);
                    for (n, x) in merge.iter() {
                        let at = self.wattr.get(n).cloned().unwrap();
                        let q = Self::part(&at.locked, &at.total, x).unwrap_or_default();
                        contrib -= self.en(at.k, &q);
                        t_contrib -= bi(&q);
                        self.floors += 1;
                    }
                    contrib += self.en(a.k, &a.locked);
                    t_contrib += bi(&a.locked);
                }
            }
            "removeLiq" => {
                let (n, x) = parse_pays(w[2]).remove(0);
                let r = &pre.pair_base - &post.pair_base;
                let q = &pre.pair_other - &post.pair_other;
                resp.push(format!("base={} other={}", r, q));
                let at = self.wattr.get(&n).cloned().unwrap();
                for p in rets.iter() {
                    if p.0.as_slice() == LOCKED {
                        outs.l = nz(p.1, p.2.clone());
                    } else if p.0.as_slice() == OTHER {
                        outs.o = p.2.clone();
                    }
                }
                let sd = supply_drop(at.k);
                if sd > BigInt::zero() {
                    burned = Some((at.k, sd.to_biguint().unwrap()));
                }
                if x != at.total {
                    self.floors += 1;
                }
                // C16 oracles on this exit
                let part = Self::part(&at.locked, &at.total, &x).unwrap_or_default();
                let got_base = &post.u_base[ui] - &pre.u_base[ui];
                let want_base = if r > part { &r - &part } else { BigUint::zero() };
                if got_base != want_base {
                    tr_fail_later(tr, "C16", "base_only_for_surplus", &site, &format!("pool paid {} base for a recorded locked amount {}; user received {} base (expected {})", r, part, got_base, want_base));
                }
                if let Some((k, a)) = &outs.l {
                    if *k != at.k || a > &part || *a != r.clone().min(part.clone()) {
                        tr_fail_later(tr, "C16", "locked_in_locked_out", &site, &format!("returned locked {}:{} but the wrapper records nonce {} amount {} (pool paid {})", k, a, at.k, part, r));
                    }
                } else if !r.is_zero() {
                    tr_fail_later(tr, "C16", "locked_in_locked_out", &site, "no locked tokens returned although the pool paid base asset");
                }
                let want_burn = if part > r { &part - &r } else { BigUint::zero() };
                let got_burn = burned.clone().map(|b| b.1).unwrap_or_default();
                if want_burn != got_burn {
                    tr_fail_later(tr, "C16", "round_trip_supply", &site, &format!("locked tokens burned {} (expected recorded {} - received {})", got_burn, part, r));
                }
            }
            "enterL" | "enterW" => {
                let (n, x) = parse_pays(w[3]).remove(0);
                let merge = parse_pays(w[4]);
                outs.f = nz(rets[0].1, rets[0].2.clone());
                outs.r = reward_of(&rets[1]);
                if !merge.is_empty() {
                    // with a merge the proxy may forward further rewards paid by the farm's merge call
                    let paid: Vec<(u64, BigUint)> = if w[0] == "enterL" { vec![(n, x.clone())] } else { vec![] };
                    let seen = user_lk_gain(&paid);
                    if seen.as_ref().map(|p| p.1.clone()).unwrap_or_default() > outs.r.as_ref().map(|p| p.1.clone()).unwrap_or_default() {
                        tr.count("branch.merge_rewards_forwarded");
                        outs.r = seen;
                    }
                }
                let rew = outs.r.clone();
                let (pre_b, post_b) = if w[2] == "L" { (&pre.p_fl, &post.p_fl) } else { (&pre.p_fw, &post.p_fw) };
                let (fnn, fam) = new_farm_tok(pre_b, post_b);
                let rs = rew.as_ref().map(|(k, a)| self.lk_at(*k, a)).unwrap_or("-".into());
                if let Some((k, a)) = &rew {
                    contrib += self.en(*k, a);
                    t_contrib += bi(a);
                    self.ext += bi(a);
                }
                if merge.is_empty() {
                    resp.push(format!("farm={}:{} rew={}", fnn, fam, rs));
                } else {
                    resp.push(format!("farm=0:0 rew={}", rs));
                    let fa_new = self.fattr.get(&rets[0].1).cloned().unwrap();
                    // locked tokens merged through the factory
                    let (mk, mamt) = if fa_new.kind == 0 {
                        (fa_new.pn, fa_new.pa.clone())
                    } else {
                        let wa = self.wattr.get(&fa_new.pn).cloned().unwrap();
                        (wa.k, wa.locked)
                    };
                    resp.push(format!("mfarm={}:{} mk={}", fa_new.fnonce, fa_new.fa, self.lk_at(mk, &mamt)));
                    // inputs of the factory merge
                    let mut inputs: Vec<(u64, BigUint)> = vec![];
                    if w[0] == "enterL" {
                        inputs.push((n, x.clone()));
                        exp_add(&mut expect, n, bi(&x));
                    } else {
                        let at = self.wattr.get(&n).cloned().unwrap();
                        let q = Self::part(&at.locked, &at.total, &x).unwrap_or_default();
                        inputs.push((at.k, q));
                    }
                    for (fnon, fx) in merge.iter() {
                        let at = self.fattr.get(fnon).cloned().unwrap();
                        let p = Self::part(&at.pa, &at.fa, fx).unwrap_or_default();
                        self.floors += 2;
                        if at.kind == 0 {
                            inputs.push((at.pn, p));
                        } else {
                            let wa = self.wattr.get(&at.pn).cloned().unwrap();
                            inputs.push((wa.k, Self::part(&wa.locked, &wa.total, &p).unwrap_or_default()));
                        }
                    }
                    for (k, a) in inputs.iter() {
                        contrib -= self.en(*k, a);
                        t_contrib -= bi(a);
                        exp_add(&mut expect, *k, -bi(a));
                    }
                    contrib += self.en(mk, &mamt);
                    t_contrib += bi(&mamt);
                    exp_add(&mut expect, mk, bi(&mamt));
                    check_stray = true;
                }
                if w[0] == "enterW" && x != self.wattr.get(&n).map(|a| a.total.clone()).unwrap_or_default() {
                    self.floors += 1;
                }
            }
            "exit" => {
                let (n, x) = parse_pays(w[3]).remove(0);
                let at = self.fattr.get(&n).cloned().unwrap();
                outs.r = reward_of(&rets[1]);
                let rew = outs.r.clone();
                let rs = rew.as_ref().map(|(k, a)| self.lk_at(*k, a)).unwrap_or("-".into());
                if let Some((k, a)) = &rew {
                    contrib += self.en(*k, a);
                    t_contrib += bi(a);
                    self.ext += bi(a);
                }
                let p = Self::part(&at.pa, &at.fa, &x).unwrap_or_default();
                if x != at.fa {
                    self.floors += 2;
                }
                // which locked nonce can be burned here
                let bk = if at.kind == 0 { at.pn } else { self.wattr.get(&at.pn).map(|a| a.k).unwrap_or(0) };
                let mut sd = supply_drop(bk);
                if let Some((k, a)) = &rew {
                    if *k == bk {
                        sd += bi(a);
                    }
                }
                if sd > BigInt::zero() {
                    burned = Some((bk, sd.to_biguint().unwrap()));
                }
                let farming = if at.kind == 0 {
                    let pen = burned.clone().map(|b| b.1).unwrap_or_default();
                    if pen <= x { &x - &pen } else { BigUint::zero() }
                } else {
                    &post.p_lp - &pre.p_lp
                };
                resp.push(format!("farming={} rew={}", farming, rs));
                let pen = if farming <= x { &x - &farming } else { BigUint::zero() };
                if at.farm == 0 {
                    self.ext -= bi(&pen);
                }
                if rets[0].0.as_slice() == LOCKED {
                    outs.l = nz(rets[0].1, rets[0].2.clone());
                } else if rets[0].0.as_slice() == WLP {
                    outs.w = nz(rets[0].1, rets[0].2.clone());
                }
                // C16 oracles
                if at.kind == 0 {
                    match &outs.l {
                        Some((k, a)) => {
                            if *k != at.pn || a > &p {
                                tr_fail_later(tr, "C16", "locked_in_locked_out", &site, &format!("returned locked {}:{} but the wrapper records nonce {} amount {}", k, a, at.pn, p));
                            }
                            if &(a + &pen) != &p {
                                tr_fail_later(tr, "C16", "round_trip_supply", &site, &format!("returned {} + burned {} != recorded {}", a, pen, p));
                            }
                        }
                        None => {
                            if pen != p {
                                tr_fail_later(tr, "C16", "locked_in_locked_out", &site, "nothing returned although the penalty is smaller than the position");
                            }
                        }
                    }
                } else if let Some((wn, wa)) = &outs.w {
                    // the wrapped LP handed back records the same locked nonce and no more than the pro-rata locked amount
                    let old = self.wattr.get(&at.pn).cloned().unwrap();
                    let newa = self.wattr.get(wn).cloned().unwrap_or(old.clone());
                    let old_part = Self::part(&old.locked, &old.total, &p).unwrap_or_default();
                    let new_part = Self::part(&newa.locked, &newa.total, wa).unwrap_or_default();
                    if newa.k != old.k || new_part > old_part || wa > &p {
                        tr_fail_later(tr, "C16", "locked_in_locked_out", &site, &format!("wrapped LP {}:{} returned records locked {}:{}; entry recorded {}:{}", wn, wa, newa.k, new_part, old.k, old_part));
                    }
                    let got_burn = burned.clone().map(|b| b.1).unwrap_or_default();
                    if &new_part + &got_burn != old_part {
                        tr_fail_later(tr, "C16", "round_trip_supply", &site, &format!("locked recorded after exit {} + burned {} != recorded before {}", new_part, got_burn, old_part));
                    }
                }
                if post.u_base[ui] != pre.u_base[ui] {
                    tr_fail_later(tr, "C16", "base_only_for_surplus", &site, "base asset paid to the user on farm exit");
                }
            }
            "claim" => {
                let (n, x) = parse_pays(w[3]).remove(0);
                let at = self.fattr.get(&n).cloned().unwrap();
                outs.f = nz(rets[0].1, rets[0].2.clone());
                outs.r = reward_of(&rets[1]);
                let rew = outs.r.clone();
                let rs = rew.as_ref().map(|(k, a)| self.lk_at(*k, a)).unwrap_or("-".into());
                if let Some((k, a)) = &rew {
                    contrib += self.en(*k, a);
                    t_contrib += bi(a);
                    self.ext += bi(a);
                }
                let (pre_b, post_b) = if at.farm == 0 { (&pre.p_fl, &post.p_fl) } else { (&pre.p_fw, &post.p_fw) };
                let (fnn, fam) = new_farm_tok(pre_b, post_b);
                resp.push(format!("farm={}:{} rew={}", fnn, fam, rs));
                if x != at.fa {
                    self.floors += 2;
                }
            }
            "mergeLp" => {
                outs.w = nz(rets[0].1, rets[0].2.clone());
                let a = self.wattr.get(&rets[0].1).cloned().unwrap();
                resp.push(format!("mk={}", self.lk_at(a.k, &a.locked)));
                for (n, x) in parse_pays(w[2]).iter() {
                    let at = self.wattr.get(n).cloned().unwrap();
                    let q = Self::part(&at.locked, &at.total, x).unwrap_or_default();
                    contrib -= self.en(at.k, &q);
                    t_contrib -= bi(&q);
                    self.floors += 1;
                }
                contrib += self.en(a.k, &a.locked);
                t_contrib += bi(&a.locked);
            }
            "mergeFarm" => {
                outs.f = nz(rets[0].1, rets[0].2.clone());
                let fa_new = self.fattr.get(&rets[0].1).cloned().unwrap();
                let (mk, mamt) = if fa_new.kind == 0 {
                    (fa_new.pn, fa_new.pa.clone())
                } else {
                    let wa = self.wattr.get(&fa_new.pn).cloned().unwrap();
                    (wa.k, wa.locked)
                };
                // boosted rewards the farm paid during the merge and the proxy forwarded to the caller
                outs.r = user_lk_gain(&[]);
                let rs = outs.r.as_ref().map(|(k, a)| self.lk_at(*k, a)).unwrap_or("-".into());
                if let Some((k, a)) = &outs.r {
                    contrib += self.en(*k, a);
                    t_contrib += bi(a);
                    self.ext += bi(a);
                    tr.count("branch.merge_rewards_forwarded");
                }
                resp.push(format!("mfarm={}:{} mk={} rew={}", fa_new.fnonce, fa_new.fa, self.lk_at(mk, &mamt), rs));
                for (fnon, fx) in parse_pays(w[3]).iter() {
                    let at = self.fattr.get(fnon).cloned().unwrap();
                    let p = Self::part(&at.pa, &at.fa, fx).unwrap_or_default();
                    self.floors += 2;
                    let (k, a) = if at.kind == 0 {
                        (at.pn, p)
                    } else {
                        let wa = self.wattr.get(&at.pn).cloned().unwrap();
                        (wa.k, Self::part(&wa.locked, &wa.total, &p).unwrap_or_default())
                    };
                    contrib -= self.en(k, &a);
                    t_contrib -= bi(&a);
                    exp_add(&mut expect, k, -bi(&a));
                }
                contrib += self.en(mk, &mamt);
                t_contrib += bi(&mamt);
                exp_add(&mut expect, mk, bi(&mamt));
                check_stray = true;
            }
            "incLp" | "incFarm" => {
                let (n, x) = parse_pays(w[2]).remove(0);
                let (ok_, oa, nk, na) = if w[0] == "incLp" {
                    outs.w = nz(rets[0].1, rets[0].2.clone());
                    let old = self.wattr.get(&n).cloned().unwrap();
                    let newa = self.wattr.get(&rets[0].1).cloned().unwrap();
                    self.floors += 1;
                    (old.k, Self::part(&old.locked, &old.total, &x).unwrap_or_default(), newa.k, newa.locked)
                } else {
                    outs.f = nz(rets[0].1, rets[0].2.clone());
                    let old = self.fattr.get(&n).cloned().unwrap();
                    let newa = self.fattr.get(&rets[0].1).cloned().unwrap();
                    let p = Self::part(&old.pa, &old.fa, &x).unwrap_or_default();
                    self.floors += 2;
                    if old.kind == 0 {
                        (old.pn, p, newa.pn, newa.pa)
                    } else {
                        let ow = self.wattr.get(&old.pn).cloned().unwrap();
                        let nw = self.wattr.get(&newa.pn).cloned().unwrap();
                        (ow.k, Self::part(&ow.locked, &ow.total, &p).unwrap_or_default(), nw.k, nw.locked)
                    }
                };
                resp.push(format!("nk={}", self.lk_at(nk, &na)));
                contrib -= self.en(ok_, &oa);
                t_contrib -= bi(&oa);
                contrib += self.en(nk, &na);
                t_contrib += bi(&na);
                // the user's own request: never shorter, same amount
                if self.unlock_of(nk) <= self.unlock_of(ok_) || na != oa {
                    tr_fail_later(tr, "C16", "locked_in_locked_out", &site, &format!("extend turned {}:{} (unlock {}) into {}:{} (unlock {})", ok_, oa, self.unlock_of(ok_), nk, na, self.unlock_of(nk)));
                }
            }
            _ => {}
        }
        // stray locked tokens that reached the proxy and belong to nobody's wrapper
        if check_stray {
            let mut stray: Vec<String> = vec![];
            let keys: Vec<u64> = pre.p_lk.keys().chain(post.p_lk.keys()).cloned().collect::<std::collections::BTreeSet<u64>>().into_iter().collect();
            for k in keys {
                let d = d_plk(k) - expect.get(&k).cloned().unwrap_or_else(BigInt::zero);
                if d > BigInt::zero() {
                    let a = d.to_biguint().unwrap();
                    stray.push(self.lk_at(k, &a));
                    contrib += self.en(k, &a);
                    t_contrib += bi(&a);
                    self.ext += bi(&a);
                    self.stray_total += &a;
                    tr.count("branch.stray_rewards_in_proxy");
                    tr_fail_later(tr, "C16", "proxy_keeps_nothing", &site, &format!("{} locked tokens (nonce {}) paid by the farm for the user stayed in the proxy; no wrapped token records them", a, k));
                }
            }
            resp.push(format!("stray={}", if stray.is_empty() { "-".to_string() } else { stray.join(",") }));
        }

        let n = tr.op(&format!("{} -> {}", text, resp.join(" ")));
        tr.count(&format!("op.{}", site));
        tr.count(&format!("ok.{}", site));
        flush_later(tr);

        // ---- energy: observed deduction (on the entry of the ORIGINAL caller when one was supplied)
        let mut e_obs = BigInt::zero();
        let mut to_obs: Vec<String> = vec![];
        let mut ea_obs: Vec<String> = vec![];
        if is_proxy_op && w[0] != "bad" && who >= 1 {
            let whose = if ei == ui { "caller's" } else { "original caller's" };
            e_obs = &pre.energy[ei].0 + &contrib - &post.energy[ei].0;
            let e_want = burned.as_ref().map(|(k, a)| self.en(*k, a)).unwrap_or_else(BigInt::zero);
            if e_obs != e_want {
                tr.fail("C16", "energy_delta_exact", &site, &format!("{} (u{}) energy entry moved by {} beyond the factory's own effects; burned locked tokens account for {}", whose, ei + 1, -&e_obs, -&e_want));
            }
            let t_obs = bi(&pre.energy[ei].1) + &t_contrib - bi(&post.energy[ei].1);
            let t_want = burned.as_ref().map(|(_, a)| bi(a)).unwrap_or_else(BigInt::zero);
            if t_obs != t_want {
                tr.fail("C16", "energy_delta_exact", &site, &format!("locked-token total of the {} (u{}) energy entry dropped by {}, burned {}", whose, ei + 1, t_obs, t_want));
            }
            // nobody else's energy moves (in particular not the direct caller's when he acts for somebody);
            // nobody but the direct caller pays or receives tokens
            for i in 0..self.users.len() {
                if i != ei && pre.energy[i] != post.energy[i] {
                    tr.fail("C16", "no_effect_on_other_users", &site, &format!("energy entry of u{} changed by {} (energy account of this call: u{}, direct caller: u{})", i + 1, &post.energy[i].0 - &pre.energy[i].0, ei + 1, ui + 1));
                }
                let moved = pre.u_base[i] != post.u_base[i] || pre.u_lk[i] != post.u_lk[i] || pre.u_w[i] != post.u_w[i] || pre.u_f[i] != post.u_f[i] || pre.u_other[i] != post.u_other[i];
                if i != ui && moved {
                    tr.fail("C16", "no_effect_on_other_users", &site, &format!("balances of u{} changed (direct caller: u{})", i + 1, ui + 1));
                }
                if i == ui || moved {
                    to_obs.push(format!("{}", i + 1));
                }
                // per-account ledger of what left the real energy entries through the proxy
                let d = &pre.energy[i].0 - &post.energy[i].0 + if i == ei { contrib.clone() } else { BigInt::zero() };
                if !d.is_zero() {
                    ea_obs.push(format!("{}", i + 1));
                    self.ded[i] += d;
                }
            }
            if orig.is_some() {
                tr.count("branch.on_behalf_ok");
                if burned.is_some() && ei != ui {
                    tr.count("branch.on_behalf_penalty_burn");
                }
            }
            if w[0] == "removeLiq" && ui == self.nplain && burned.is_some() {
                tr.count("branch.manager_removeLiq_burn");
            }
            // base asset reaches the user only in removeLiq
            if w[0] != "removeLiq" && post.u_base[ui] != pre.u_base[ui] {
                tr.fail("C16", "base_only_for_surplus", &site, &format!("user base balance moved by {}", bi(&post.u_base[ui]) - bi(&pre.u_base[ui])));
            }
        }
        self.oracle_state(tr, &site, &post);
        if let Some((bk, _)) = &burned {
            tr.count("branch.locked_burned");
            if self.unlock_of(*bk) < self.epoch {
                tr.count("branch.locked_burned_after_unlock_epoch");
            }
        }
        if !parse_pays(w.get(6).unwrap_or(&"-")).is_empty() && w[0] == "addLiq" {
            tr.count("branch.addLiq_with_merge");
        }
        if (w[0] == "enterL" || w[0] == "enterW") && !parse_pays(w.get(4).unwrap_or(&"-")).is_empty() {
            tr.count("branch.enter_with_merge");
        }
        if w[0] == "removeLiq" && post.u_base[ui] > pre.u_base[ui] {
            tr.count("branch.surplus_base_paid");
        }
        if outs.r.is_some() {
            tr.count("branch.rewards");
        }
        if new_w.is_some() && w[0] == "exit" {
            tr.count("branch.exit_penalty_new_wlp");
        }

        let b_out = if is_proxy_op && who >= 1 && post.u_base[ui] >= pre.u_base[ui] { &post.u_base[ui] - &pre.u_base[ui] } else { BigUint::zero() };
        let nw = match new_w {
            Some(nn) if is_proxy_op => self.wattr.get(&nn).map(|a| format!("{}:{},{},{}", nn, a.total, a.k, a.locked)).unwrap_or("-".into()),
            _ => "-".into(),
        };
        let nf = match new_f {
            Some(nn) if is_proxy_op => self.fattr.get(&nn).map(|a| format!("{}:{},{},{},{},{},{}", nn, a.farm, a.fnonce, a.fa, a.kind, a.pn, a.pa)).unwrap_or("-".into()),
            _ => "-".into(),
        };
        let o = format!(
            "b={} l={} o={} w={} f={} r={} bl={} e={} to={} ea={} nw={} nf={}",
            b_out,
            opt_pay(&outs.l),
            outs.o,
            opt_pay(&outs.w),
            opt_pay(&outs.f),
            opt_pay(&outs.r),
            opt_pay(&burned),
            e_obs,
            if to_obs.is_empty() { "-".to_string() } else { to_obs.join(",") },
            if ea_obs.is_empty() { "-".to_string() } else { ea_obs.join(",") },
            nw,
            nf
        );
        let line = self.state_line(&post);
        tr.res_ok(n, &o, &line);
    }
}

// oracle failures found while the op text is still being assembled (their step number is the op's)
thread_local! {
    static LATER: std::cell::RefCell<Vec<(String, String, String, String)>> = std::cell::RefCell::new(vec![]);
}
fn tr_fail_later(_tr: &mut Trace, prop: &str, clause: &str, site: &str, detail: &str) {
    LATER.with(|l| l.borrow_mut().push((prop.into(), clause.into(), site.into(), detail.into())));
}
fn flush_later(tr: &mut Trace) {
    let v: Vec<_> = LATER.with(|l| l.borrow_mut().drain(..).collect());
    for (p, c, s, d) in v {
        tr.fail(&p, &c, &s, &d);
    }
}
