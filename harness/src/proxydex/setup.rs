// Deployment (copied from /repo/locked-asset/proxy_dex/tests/proxy_dex_test_setup) and snapshots.

impl PxWorld {
    fn user(&self, id: u64) -> Address {
        if id >= 1 && (id as usize) <= self.users.len() {
            self.users[(id - 1) as usize].clone()
        } else {
            self.users[0].clone()
        }
    }

    fn setup_farm(
        b: &mut BlockchainStateWrapper,
        owner: &Address,
        fac_addr: &Address,
        farming: &[u8],
        farm_token: &[u8],
        pen: u64,
        minep: u64,
        boost: u64,
        per_block: u64,
    ) -> FarmW {
        let zero = rust_biguint!(0);
        let w: FarmW = b.create_sc_account(&zero, Some(owner), farm_builder as fn() -> FarmObj, "farm-with-locked-rewards.wasm");
        b.execute_tx(owner, &w, &zero, |sc| {
            sc.init(
                managed_token_id!(BASE),
                managed_token_id!(farming),
                managed_biguint!(1_000_000_000_000_000_000u64),
                managed_address!(&Address::zero()),
                managed_address!(owner),
                MultiValueEncoded::new(),
            );
            sc.farm_token().set_token_id(managed_token_id!(farm_token));
            sc.per_block_reward_amount().set(&managed_biguint!(per_block));
            sc.state().set(State::Active);
            sc.produce_rewards_enabled().set(true);
            sc.set_boosted_yields_factors(
                managed_biguint!(10u64),
                managed_biguint!(3u64),
                managed_biguint!(2u64),
                managed_biguint!(1u64),
                managed_biguint!(1u64),
            );
            sc.set_locking_sc_address(managed_address!(fac_addr));
            sc.set_lock_epochs(360);
            sc.energy_factory_address().set(managed_address!(fac_addr));
            sc.set_penalty_percent(pen);
            sc.set_minimum_farming_epochs(minep);
        })
        .assert_ok();
        if boost > 0 {
            b.execute_tx(owner, &w, &zero, |sc| {
                sc.set_boosted_yields_rewards_percentage(boost);
            })
            .assert_ok();
        }
        b.set_esdt_local_roles(
            w.address_ref(),
            farm_token,
            &[EsdtLocalRole::NftCreate, EsdtLocalRole::NftAddQuantity, EsdtLocalRole::NftBurn],
        );
        if farming == BASE {
            b.set_esdt_local_roles(w.address_ref(), BASE, &[EsdtLocalRole::Mint, EsdtLocalRole::Burn]);
        } else {
            b.set_esdt_local_roles(w.address_ref(), farming, &[EsdtLocalRole::Burn]);
            b.set_esdt_local_roles(w.address_ref(), BASE, &[EsdtLocalRole::Mint, EsdtLocalRole::Burn]);
        }
        w
    }

    fn build(header: &str) -> Self {
        let nusers = kv_u64(header, "users", 3);
        let locked_first = kv_u64(header, "order", 0) == 0;
        let pen = kv_u64(header, "pen", 100);
        let minep = kv_u64(header, "minep", 3);
        let boost = kv_u64(header, "boost", 0);
        let per_block = kv_u64(header, "perblock", 5000);
        let fee = kv_u64(header, "fee", 300);
        let epoch0 = kv_u64(header, "epoch", 1);
        let pool: Vec<BigUint> = kv(header, "pool").unwrap_or("1000000000,500000000").split(',').map(big).collect();

        let zero = rust_biguint!(0);
        let mut b = BlockchainStateWrapper::new();
        let owner = b.create_user_account(&zero);
        let mut users = vec![];
        for _ in 0..nusers {
            users.push(b.create_user_account(&zero));
        }
        // the whitelisted contract that acts on behalf of users (a contract account without code of interest)
        let nplain = users.len();
        let mgr: FacW = b.create_sc_account(&zero, Some(&owner), fac_builder as fn() -> FacObj, "position manager");
        let mgr_addr = mgr.address_ref().clone();
        users.push(mgr_addr.clone());
        b.set_block_epoch(epoch0);
        b.set_block_nonce(1);
        b.set_block_round(1);

        // ---- pair
        let pair: PairW = b.create_sc_account(&zero, Some(&owner), pair_builder as fn() -> PairObj, "pair");
        let (t1, t2) = if locked_first { (BASE, OTHER) } else { (OTHER, BASE) };
        b.execute_tx(&owner, &pair, &zero, |sc| {
            sc.init(
                managed_token_id!(t1),
                managed_token_id!(t2),
                managed_address!(&owner),
                managed_address!(&owner),
                fee,
                fee / 6,
                ManagedAddress::<DebugApi>::zero(),
                MultiValueEncoded::<DebugApi, ManagedAddress<DebugApi>>::new(),
            );
            sc.lp_token_identifier().set(&managed_token_id!(LP));
            sc.state().set(State::Active);
        })
        .assert_ok();
        b.set_esdt_local_roles(pair.address_ref(), LP, &[EsdtLocalRole::Mint, EsdtLocalRole::Burn]);

        // ---- energy factory (simple lock energy)
        let fac: FacW = b.create_sc_account(&zero, Some(&owner), fac_builder as fn() -> FacObj, "simple lock energy");
        let dummy: FacW = b.create_sc_account(&zero, Some(&owner), fac_builder as fn() -> FacObj, "dummy sc 1");
        let dummy_addr = dummy.address_ref().clone();
        b.execute_tx(&owner, &fac, &zero, |sc| {
            let mut lock_options = MultiValueEncoded::new();
            for (o, p) in LOCK_OPTIONS.iter() {
                lock_options.push((*o, *p).into());
            }
            sc.init(managed_token_id!(BASE), managed_token_id!(LEGACY), managed_address!(&dummy_addr), 0, lock_options);
            sc.locked_token().set_token_id(managed_token_id!(LOCKED));
            sc.set_paused(false);
        })
        .assert_ok();
        b.set_esdt_local_roles(fac.address_ref(), BASE, &[EsdtLocalRole::Mint, EsdtLocalRole::Burn]);
        b.set_esdt_local_roles(
            fac.address_ref(),
            LOCKED,
            &[EsdtLocalRole::NftCreate, EsdtLocalRole::NftAddQuantity, EsdtLocalRole::NftBurn, EsdtLocalRole::Transfer],
        );
        b.set_esdt_local_roles(fac.address_ref(), LEGACY, &[EsdtLocalRole::NftBurn]);

        // ---- farms
        let fac_addr = fac.address_ref().clone();
        let farm_l = Self::setup_farm(&mut b, &owner, &fac_addr, BASE, FARML, pen, minep, boost, per_block);
        let farm_w = Self::setup_farm(&mut b, &owner, &fac_addr, LP, FARMW, pen, minep, boost, per_block);

        // ---- proxy
        let proxy: ProxyW = b.create_sc_account(&zero, Some(&owner), proxy_builder as fn() -> ProxyObj, "proxy");
        let pair_addr = pair.address_ref().clone();
        let fl_addr = farm_l.address_ref().clone();
        let fw_addr = farm_w.address_ref().clone();
        b.execute_tx(&owner, &proxy, &zero, |sc| {
            sc.init(managed_token_id!(LEGACY), managed_address!(&fac_addr), managed_address!(&fac_addr));
            sc.wrapped_lp_token().set_token_id(managed_token_id!(WLP));
            sc.wrapped_farm_token().set_token_id(managed_token_id!(WFARM));
            sc.intermediated_pairs().insert(managed_address!(&pair_addr));
            sc.intermediated_farms().insert(managed_address!(&fl_addr));
            sc.intermediated_farms().insert(managed_address!(&fw_addr));
            sc.add_sc_address_to_whitelist(managed_address!(&mgr_addr));
        })
        .assert_ok();
        b.set_esdt_local_roles(proxy.address_ref(), BASE, &[EsdtLocalRole::Mint, EsdtLocalRole::Burn]);
        b.set_esdt_local_roles(proxy.address_ref(), LOCKED, &[EsdtLocalRole::NftBurn]);
        for t in [WLP, WFARM] {
            b.set_esdt_local_roles(
                proxy.address_ref(),
                t,
                &[EsdtLocalRole::NftCreate, EsdtLocalRole::NftAddQuantity, EsdtLocalRole::NftBurn],
            );
        }
        let proxy_addr = proxy.address_ref().clone();
        for f in [&farm_l, &farm_w] {
            b.execute_tx(&owner, f, &zero, |sc| {
                sc.add_sc_address_to_whitelist(managed_address!(&proxy_addr));
            })
            .assert_ok();
        }
        b.execute_tx(&owner, &fac, &zero, |sc| {
            sc.add_sc_address_to_whitelist(managed_address!(&proxy_addr));
            sc.add_sc_address_to_whitelist(managed_address!(&fl_addr));
            sc.add_sc_address_to_whitelist(managed_address!(&fw_addr));
            let mut v = MultiValueEncoded::new();
            v.push(managed_address!(&proxy_addr));
            sc.add_to_token_transfer_whitelist(v);
        })
        .assert_ok();
        b.execute_tx(&owner, &proxy, &zero, |sc| {
            sc.set_energy_factory_address(managed_address!(&fac_addr));
        })
        .assert_ok();

        // ---- funds and the initial pool
        let funds = pow10(32);
        for u in users.iter() {
            b.set_esdt_balance(u, BASE, &funds);
            b.set_esdt_balance(u, OTHER, &funds);
        }
        b.set_esdt_balance(&owner, BASE, &funds);
        b.set_esdt_balance(&owner, OTHER, &funds);
        let (a1, a2) = if locked_first { (pool[0].clone(), pool[1].clone()) } else { (pool[1].clone(), pool[0].clone()) };
        let transfers = vec![
            TxTokenTransfer { token_identifier: t1.to_vec(), nonce: 0, value: a1 },
            TxTokenTransfer { token_identifier: t2.to_vec(), nonce: 0, value: a2 },
        ];
        b.execute_esdt_multi_transfer(&owner, &pair, &transfers, |sc| {
            sc.add_liquidity(managed_biguint!(1u64), managed_biguint!(1u64));
        })
        .assert_ok();

        let mut w = PxWorld {
            b,
            owner,
            users,
            proxy,
            pair,
            farm_l,
            farm_w,
            fac,
            epoch: epoch0,
            block: 1,
            locked_first,
            max_k: 0,
            max_w: 0,
            max_f: 0,
            max_fl: 0,
            max_fw: 0,
            unl: BTreeMap::new(),
            wattr: BTreeMap::new(),
            fattr: BTreeMap::new(),
            c0: BigInt::zero(),
            ext: BigInt::zero(),
            floors: 0,
            stray_total: BigUint::zero(),
            pending: vec![],
            nplain,
            ded: vec![BigInt::zero(); nplain + 1],
        };
        let s = w.snap();
        w.c0 = bi(&s.tot_base) + bi(&bag_sum(&s.tot_lk));
        w
    }

    fn accounts(&self) -> Vec<Address> {
        let mut v = vec![
            self.owner.clone(),
            self.proxy.address_ref().clone(),
            self.pair.address_ref().clone(),
            self.farm_l.address_ref().clone(),
            self.farm_w.address_ref().clone(),
            self.fac.address_ref().clone(),
        ];
        v.extend(self.users.iter().cloned());
        v
    }

    /// balances of `addr` for every nonce 1..=max+LOOK of an SFT/meta token; returns the largest non-empty nonce
    fn bag_of(&self, addr: &Address, tok: &[u8], max: u64) -> (Bag, u64) {
        let mut bag = Bag::new();
        let mut top = 0;
        for n in 1..=(max + LOOK) {
            let v = self.b.get_esdt_balance(addr, tok, n);
            if !v.is_zero() {
                bag.insert(n, v);
                top = n;
            }
        }
        (bag, top)
    }

    fn snap(&mut self) -> Snap {
        let mut s = Snap::default();
        let pa = self.proxy.address_ref().clone();
        // iterate to a fixpoint of the nonce bounds (a tx creates only a handful of nonces)
        loop {
            let mut grew = false;
            let mut upd = |cur: &mut u64, top: u64| {
                if top > *cur {
                    *cur = top;
                    grew = true;
                }
            };
            let accts = self.accounts();
            let (mut mk, mut mw, mut mf, mut mfl, mut mfw) = (self.max_k, self.max_w, self.max_f, self.max_fl, self.max_fw);
            for a in accts.iter() {
                upd(&mut mk, self.bag_of(a, LOCKED, self.max_k).1);
                upd(&mut mw, self.bag_of(a, WLP, self.max_w).1);
                upd(&mut mf, self.bag_of(a, WFARM, self.max_f).1);
                upd(&mut mfl, self.bag_of(a, FARML, self.max_fl).1);
                upd(&mut mfw, self.bag_of(a, FARMW, self.max_fw).1);
            }
            self.max_k = mk;
            self.max_w = mw;
            self.max_f = mf;
            self.max_fl = mfl;
            self.max_fw = mfw;
            if !grew {
                break;
            }
        }
        s.p_lp = self.b.get_esdt_balance(&pa, LP, 0);
        s.p_base = self.b.get_esdt_balance(&pa, BASE, 0);
        s.p_other = self.b.get_esdt_balance(&pa, OTHER, 0);
        s.p_lk = self.bag_of(&pa, LOCKED, self.max_k).0;
        s.p_fl = self.bag_of(&pa, FARML, self.max_fl).0;
        s.p_fw = self.bag_of(&pa, FARMW, self.max_fw).0;
        s.p_w = self.bag_of(&pa, WLP, self.max_w).0;
        s.p_f = self.bag_of(&pa, WFARM, self.max_f).0;
        for u in self.users.clone().iter() {
            s.u_base.push(self.b.get_esdt_balance(u, BASE, 0));
            s.u_other.push(self.b.get_esdt_balance(u, OTHER, 0));
            s.u_lp.push(self.b.get_esdt_balance(u, LP, 0));
            s.u_lk.push(self.bag_of(u, LOCKED, self.max_k).0);
            s.u_w.push(self.bag_of(u, WLP, self.max_w).0);
            s.u_f.push(self.bag_of(u, WFARM, self.max_f).0);
        }
        let pair_a = self.pair.address_ref().clone();
        s.pair_base = self.b.get_esdt_balance(&pair_a, BASE, 0);
        s.pair_other = self.b.get_esdt_balance(&pair_a, OTHER, 0);
        for a in self.accounts().iter() {
            s.tot_base += self.b.get_esdt_balance(a, BASE, 0);
            s.tot_lp += self.b.get_esdt_balance(a, LP, 0);
            // the factory keeps one unit of every locked nonce it ever created (so that it can add
            // quantity later); that unit is not part of anybody's supply
            if a != self.fac.address_ref() {
                for (k, v) in self.bag_of(a, LOCKED, self.max_k).0.iter() {
                    bag_add(&mut s.tot_lk, *k, v);
                }
            }
        }
        // energy entries (depleted to the current epoch by the view)
        for u in self.users.clone().iter() {
            let mut e = (BigInt::zero(), BigUint::zero());
            self.b
                .execute_query(&self.fac, |sc| {
                    let en = sc.get_updated_energy_entry_for_user(&managed_address!(u));
                    e = (to_int(en.get_energy_amount_raw()), to_big(en.get_total_locked_tokens()));
                })
                .assert_ok();
            s.energy.push(e);
        }
        self.learn_attrs(&s);
        s
    }

    /// read (once) the attributes of every locked / wrapped nonce that is visible somewhere
    fn learn_attrs(&mut self, s: &Snap) {
        let pa = self.proxy.address_ref().clone();
        let mut holders: Vec<(Address, &Bag, &Bag, &Bag)> = vec![(pa, &s.p_lk, &s.p_w, &s.p_f)];
        for (i, u) in self.users.iter().enumerate() {
            holders.push((u.clone(), &s.u_lk[i], &s.u_w[i], &s.u_f[i]));
        }
        for (addr, lk, w, f) in holders.iter() {
            for k in lk.keys() {
                if !self.unl.contains_key(k) {
                    let e = self.b.execute_in_managed_environment(|| {
                        self.b.get_nft_attributes::<LockedTokenAttributes<DebugApi>>(addr, LOCKED, *k).map(|a| a.unlock_epoch)
                    });
                    if let Some(e) = e {
                        self.unl.insert(*k, e);
                    }
                }
            }
            for n in w.keys() {
                if !self.wattr.contains_key(n) {
                    let a = self.b.execute_in_managed_environment(|| {
                        self.b.get_nft_attributes::<WrappedLpTokenAttributes<DebugApi>>(addr, WLP, *n).map(|a| WlpAttr {
                            total: to_big(&a.lp_token_amount),
                            k: a.locked_tokens.token_nonce,
                            locked: to_big(&a.locked_tokens.amount),
                        })
                    });
                    if let Some(a) = a {
                        self.wattr.insert(*n, a);
                    }
                }
            }
            for n in f.keys() {
                if !self.fattr.contains_key(n) {
                    let a = self.b.execute_in_managed_environment(|| {
                        self.b.get_nft_attributes::<WrappedFarmTokenAttributes<DebugApi>>(addr, WFARM, *n).map(|a| {
                            let ft = a.farm_token.token_identifier.to_boxed_bytes().into_vec();
                            let pt = a.proxy_farming_token.token_identifier.to_boxed_bytes().into_vec();
                            WfAttr {
                                farm: if ft.as_slice() == FARML { 0 } else { 1 },
                                fnonce: a.farm_token.token_nonce,
                                fa: to_big(&a.farm_token.amount),
                                kind: if pt.as_slice() == LOCKED { 0 } else { 1 },
                                pn: a.proxy_farming_token.token_nonce,
                                pa: to_big(&a.proxy_farming_token.amount),
                            }
                        })
                    });
                    if let Some(a) = a {
                        self.fattr.insert(*n, a);
                    }
                }
            }
        }
    }

    /// rule of three of `FixedSupplyToken` (recomputed here for the oracles): None = "Zero amount"
    fn part(full: &BigUint, total: &BigUint, x: &BigUint) -> Option<BigUint> {
        let r = if x == total {
            full.clone()
        } else if total.is_zero() {
            return None;
        } else {
            full * x / total
        };
        if r.is_zero() {
            None
        } else {
            Some(r)
        }
    }

    fn unlock_of(&self, k: u64) -> u64 {
        self.unl.get(&k).cloned().unwrap_or(0)
    }
}
