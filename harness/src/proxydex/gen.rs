// Generator of op texts (looks at the current real state) and the World glue.

impl PxWorld {
    fn amount_of(rng: &mut Rng, have: &BigUint) -> BigUint {
        let one = BigUint::one();
        if have.is_zero() {
            return one;
        }
        match rng.below(10) {
            0 => one,
            1 | 2 | 3 => have.clone(),
            4 => have / 2u32 + &one,
            5 => (have / 3u32).max(one),
            6 => BigUint::from(rng.range(1, 9)).min(have.clone()),
            7 => if have > &one { have - &one } else { one },
            _ => rng.big_range(&one, have),
        }
        .min(have.clone())
    }

    fn pick_from_bag(rng: &mut Rng, b: &Bag) -> Option<(u64, BigUint)> {
        if b.is_empty() {
            return None;
        }
        let i = rng.below(b.len() as u64) as usize;
        b.iter().nth(i).map(|(k, v)| (*k, v.clone()))
    }

    /// a few of the user's wrapped tokens (for merging), each whole or partial
    fn pick_some(rng: &mut Rng, b: &Bag, at_least: usize, filter: &dyn Fn(u64) -> bool) -> Vec<(u64, BigUint)> {
        let cands: Vec<(u64, BigUint)> = b.iter().filter(|(k, _)| filter(**k)).map(|(k, v)| (*k, v.clone())).collect();
        if cands.len() < at_least {
            return vec![];
        }
        let want = (at_least as u64 + rng.below(2)).min(cands.len() as u64) as usize;
        let mut out = vec![];
        let mut idx: Vec<usize> = (0..cands.len()).collect();
        for _ in 0..want {
            let j = rng.below(idx.len() as u64) as usize;
            let (k, v) = cands[idx.remove(j)].clone();
            let a = if rng.chance(2, 3) { v } else { Self::amount_of(rng, &v) };
            out.push((k, a));
        }
        out
    }

    fn gen_impl(&mut self, rng: &mut Rng, step: u64) -> String {
        if let Some(p) = self.pending.pop() {
            return p;
        }
        let s = self.snap();
        let nu = self.nplain as u64;
        let mgr = nu + 1;
        let mi = self.nplain;
        // the manager contract first gets locked tokens (hence an energy entry) of its own
        if step == 0 {
            return format!("lock {} {} {}", mgr, pow10(18) * rng.range(1, 1000), *rng.pick(&[360u64, 720, 1440]));
        }
        let u = rng.range(1, nu);
        let i = (u - 1) as usize;
        let one = BigUint::one();
        let opts = [360u64, 720, 1440];
        let lock_line = |rng: &mut Rng| -> String {
            let a = match rng.below(6) {
                0 => BigUint::from(rng.range(1, 2000)),
                1 => pow10(18) * rng.range(1, 1000),
                _ => rng.magnitude(22),
            };
            format!("lock {} {} {}", u, a, if rng.chance(1, 12) { 100 } else { *rng.pick(&opts) })
        };
        if step < 4 || (s.u_lk[i].is_empty() && rng.chance(2, 3)) {
            return lock_line(rng);
        }
        let weights = [
            4,  // 0 lock
            7,  // 1 advance
            10, // 2 swap
            13, // 3 addLiq
            12, // 4 removeLiq
            8,  // 5 enterL
            9,  // 6 enterW
            11, // 7 exit
            6,  // 8 claim
            4,  // 9 mergeLp
            5,  // 10 mergeFarm
            4,  // 11 incLp
            4,  // 12 incFarm
            4,  // 13 bad
            4,  // 14 transfer
            9,  // 15 a call through the manager contract (original caller supplied) / by it / malformed
        ];
        let k = rng.weighted(&weights);
        let farm_of = |f: u8| if f == 0 { "L" } else { "W" };
        match k {
            0 => lock_line(rng),
            1 => {
                let de = match rng.below(8) {
                    0 => 0,
                    1 | 2 => 1,
                    3 => rng.range(2, 6),
                    4 => rng.range(7, 40),
                    5 => rng.range(300, 800),
                    _ => rng.range(1, 4),
                };
                let db = match rng.below(4) {
                    0 => 0,
                    1 => rng.range(1, 10),
                    _ => rng.range(10, 2000),
                };
                format!("advance {} {}", self.epoch + de, self.block + db)
            }
            2 => {
                let (dir, r) = if rng.chance(1, 2) { ("bo", s.pair_base.clone()) } else { ("ob", s.pair_other.clone()) };
                let a = match rng.below(6) {
                    0 => one.clone(),
                    1 => &r / 100u32 + &one,
                    2 => &r / 3u32 + &one,
                    3 => &r * 2u32,
                    4 => &r * rng.range(3, 30),
                    _ => rng.big_range(&one, &(&r + &one)),
                };
                format!("swap {} {} {}", u, dir, a)
            }
            3 => {
                let (k, have) = match Self::pick_from_bag(rng, &s.u_lk[i]) {
                    Some(x) => x,
                    None => return lock_line(rng),
                };
                let mut la = Self::amount_of(rng, &have);
                // the matching amount of the other token at the current price, sometimes off
                let mut q = if s.pair_base.is_zero() { one.clone() } else { &la * &s.pair_other / &s.pair_base };
                if q.is_zero() && !s.pair_other.is_zero() && rng.chance(5, 6) {
                    la = ((&s.pair_base / &s.pair_other + &one) * rng.range(1, 50)).min(have.clone());
                    q = &la * &s.pair_other / &s.pair_base;
                }
                let oa = match rng.below(12) {
                    0 | 1 => q.clone().max(one.clone()),
                    2 | 3 => &q * 2u32 + &one,
                    4 | 5 => (&q / 2u32).max(one.clone()),
                    6 => one.clone(),
                    _ => (&q + rng.big_range(&BigUint::zero(), &(&q / 10u32 + &one))).max(one.clone()),
                };
                let (mb, mo) = match rng.below(8) {
                    0 => (la.clone(), oa.clone()),
                    1 => (la.clone() + &one, one.clone()),
                    _ => (one.clone(), one.clone()),
                };
                let merge = if rng.chance(1, 3) { Self::pick_some(rng, &s.u_w[i], 1, &|_| true) } else { vec![] };
                format!("addLiq {} {}:{} {} {} {} {}", u, k, la, oa, mb, mo, show_pays(&merge))
            }
            4 => {
                let (n, have) = match Self::pick_from_bag(rng, &s.u_w[i]) {
                    Some(x) => x,
                    None => return self.fallback(rng, &s, u),
                };
                let a = Self::amount_of(rng, &have);
                let (mb, mo) = if rng.chance(1, 10) { (pow10(30), one.clone()) } else { (one.clone(), one.clone()) };
                format!("removeLiq {} {}:{} {} {}", u, n, a, mb, mo)
            }
            5 => {
                let (k, have) = match Self::pick_from_bag(rng, &s.u_lk[i]) {
                    Some(x) => x,
                    None => return lock_line(rng),
                };
                let a = Self::amount_of(rng, &have);
                let f = if rng.chance(1, 12) { "W" } else { "L" };
                let merge = if rng.chance(1, 3) {
                    Self::pick_some(rng, &s.u_f[i], 1, &|n| self.fattr.get(&n).map(|a| a.kind == 0).unwrap_or(false))
                } else {
                    vec![]
                };
                format!("enterL {} {} {}:{} {}", u, f, k, a, show_pays(&merge))
            }
            6 => {
                let (n, have) = match Self::pick_from_bag(rng, &s.u_w[i]) {
                    Some(x) => x,
                    None => return self.fallback(rng, &s, u),
                };
                let a = Self::amount_of(rng, &have);
                let f = if rng.chance(1, 12) { "L" } else { "W" };
                let merge = if rng.chance(1, 3) {
                    Self::pick_some(rng, &s.u_f[i], 1, &|n| self.fattr.get(&n).map(|a| a.kind == 1).unwrap_or(false))
                } else {
                    vec![]
                };
                format!("enterW {} {} {}:{} {}", u, f, n, a, show_pays(&merge))
            }
            7 | 8 => {
                let (n, have) = match Self::pick_from_bag(rng, &s.u_f[i]) {
                    Some(x) => x,
                    None => return self.fallback(rng, &s, u),
                };
                let a = Self::amount_of(rng, &have);
                let f = self.fattr.get(&n).map(|a| a.farm).unwrap_or(0);
                let f = if rng.chance(1, 15) { 1 - f } else { f };
                format!("{} {} {} {}:{}", if k == 7 { "exit" } else { "claim" }, u, farm_of(f), n, a)
            }
            9 => {
                let m = Self::pick_some(rng, &s.u_w[i], 2, &|_| true);
                if m.is_empty() {
                    return self.fallback(rng, &s, u);
                }
                format!("mergeLp {} {}", u, show_pays(&m))
            }
            10 => {
                let kind = rng.below(2) as u8;
                let mixed = rng.chance(1, 8);
                let m = Self::pick_some(rng, &s.u_f[i], 2, &|n| mixed || self.fattr.get(&n).map(|a| a.kind == kind).unwrap_or(false));
                if m.is_empty() {
                    return self.fallback(rng, &s, u);
                }
                let f = self.fattr.get(&m[0].0).map(|a| a.farm).unwrap_or(0);
                format!("mergeFarm {} {} {}", u, farm_of(f), show_pays(&m))
            }
            11 => {
                let (n, have) = match Self::pick_from_bag(rng, &s.u_w[i]) {
                    Some(x) => x,
                    None => return self.fallback(rng, &s, u),
                };
                let a = Self::amount_of(rng, &have);
                format!("incLp {} {}:{} {}", u, n, a, if rng.chance(1, 10) { 100 } else { *rng.pick(&opts) })
            }
            12 => {
                let (n, have) = match Self::pick_from_bag(rng, &s.u_f[i]) {
                    Some(x) => x,
                    None => return self.fallback(rng, &s, u),
                };
                let a = Self::amount_of(rng, &have);
                format!("incFarm {} {}:{} {}", u, n, a, if rng.chance(1, 10) { 100 } else { *rng.pick(&opts) })
            }
            14 => {
                let to = rng.range(1, nu);
                let use_f = rng.chance(1, 2);
                let bag = if use_f { &s.u_f[i] } else { &s.u_w[i] };
                match Self::pick_from_bag(rng, bag) {
                    Some((n, have)) => format!("transfer {} {} {} {}:{}", u, to, if use_f { "wfarm" } else { "wlp" }, n, Self::amount_of(rng, &have)),
                    None => self.fallback(rng, &s, u),
                }
            }
            15 => {
                let farm_of_n = |n: u64| farm_of(self.fattr.get(&n).map(|a| a.farm).unwrap_or(0));
                match rng.below(12) {
                    // the user hands (part of) a wrapped farm position to the manager, which exits / claims for him
                    0 | 1 | 2 | 3 | 4 => {
                        let (n, have) = match Self::pick_from_bag(rng, &s.u_f[i]) {
                            Some(x) => x,
                            None => return self.fallback(rng, &s, u),
                        };
                        let a = Self::amount_of(rng, &have);
                        // the manager redeems all of what it got, or a part (the rest stays with it for later)
                        let b = if rng.chance(2, 3) { a.clone() } else { Self::amount_of(rng, &a) };
                        let op = if rng.chance(3, 4) { "exitOb" } else { "claimOb" };
                        self.pending.push(format!("{} {} {} {} {}:{}", op, mgr, u, farm_of_n(n), n, b));
                        format!("transfer {} {} wfarm {}:{}", u, mgr, n, a)
                    }
                    // something the manager still holds, for a random user (not necessarily the one it came from)
                    5 | 6 => match Self::pick_from_bag(rng, &s.u_f[mi]) {
                        Some((n, have)) => {
                            let op = if rng.chance(2, 3) { "exitOb" } else { "claimOb" };
                            format!("{} {} {} {} {}:{}", op, mgr, u, farm_of_n(n), n, Self::amount_of(rng, &have))
                        }
                        None => self.fallback(rng, &s, u),
                    },
                    // the manager enters a farm with its own locked tokens in the name of the user
                    7 => match Self::pick_from_bag(rng, &s.u_lk[mi]) {
                        Some((k, have)) => {
                            let a = (&have / rng.range(2, 50)).max(one.clone());
                            format!("enterLOb {} {} L {}:{} -", mgr, u, k, a)
                        }
                        None => format!("lock {} {} 720", mgr, pow10(18) * rng.range(1, 1000)),
                    },
                    // wrapped LP handed to the manager: entered into the LP farm in the user's name, or removed by the
                    // manager itself (removeLiquidityProxy has no original-caller argument)
                    8 | 9 => {
                        let (n, have) = match Self::pick_from_bag(rng, &s.u_w[i]) {
                            Some(x) => x,
                            None => return self.fallback(rng, &s, u),
                        };
                        let a = Self::amount_of(rng, &have);
                        if rng.chance(1, 2) {
                            self.pending.push(format!("enterWOb {} {} W {}:{} -", mgr, u, n, a));
                        } else {
                            self.pending.push(format!("removeLiq {} {}:{} 1 1", mgr, n, a));
                        }
                        format!("transfer {} {} wlp {}:{}", u, mgr, n, a)
                    }
                    // malformed: a plain user (not on the SC whitelist) names an original caller
                    _ => {
                        let other = rng.range(1, mgr);
                        match Self::pick_from_bag(rng, &s.u_f[i]) {
                            Some((n, have)) => {
                                let op = if rng.chance(1, 2) { "exitOb" } else { "claimOb" };
                                format!("{} {} {} {} {}:{}", op, u, other, farm_of_n(n), n, Self::amount_of(rng, &have))
                            }
                            None => match Self::pick_from_bag(rng, &s.u_lk[i]) {
                                Some((k, have)) => format!("enterLOb {} {} L {}:{} -", u, other, k, Self::amount_of(rng, &have)),
                                None => lock_line(rng),
                            },
                        }
                    }
                }
            }
            _ => format!(
                "bad {} {}",
                rng.pick(&["otherToFarm", "baseToRemove", "twoUnlocked", "notPair", "notFarm", "mergeOne", "wrongWrapped"]),
                u
            ),
        }
    }

    /// when the user holds nothing suitable: build a position instead
    fn fallback(&mut self, rng: &mut Rng, s: &Snap, u: u64) -> String {
        let i = (u - 1) as usize;
        let one = BigUint::one();
        match Self::pick_from_bag(rng, &s.u_lk[i]) {
            Some((k, have)) => {
                let la = Self::amount_of(rng, &have);
                if rng.chance(1, 2) {
                    let q = if s.pair_base.is_zero() { one.clone() } else { &la * &s.pair_other / &s.pair_base };
                    format!("addLiq {} {}:{} {} 1 1 -", u, k, la, q.max(one))
                } else if !s.u_w[i].is_empty() && rng.chance(1, 2) {
                    let (n, hv) = Self::pick_from_bag(rng, &s.u_w[i]).unwrap();
                    format!("enterW {} W {}:{} -", u, n, Self::amount_of(rng, &hv))
                } else {
                    format!("enterL {} L {}:{} -", u, k, la)
                }
            }
            None => format!("lock {} {} 360", u, rng.magnitude(20)),
        }
    }
}

impl World for PxWorld {
    const NAME: &'static str = "proxydex";

    fn gen_header(rng: &mut Rng, _h: u64, _tier: &str) -> String {
        let users = rng.range(2, 4);
        let order = rng.below(2);
        let pen = *rng.pick(&[100u64, 100, 0, 1, 500, 3333, 9999]);
        let minep = *rng.pick(&[3u64, 3, 0, 1, 10, 30]);
        let boost = *rng.pick(&[0u64, 2500, 2500, 6000]);
        let fee = *rng.pick(&[300u64, 300, 0, 30, 1000, 5000]);
        let epoch = rng.range(1, 200);
        let perblock = *rng.pick(&[5000u64, 0, 1, 1_000_000_000, 1_000_000_000_000_000]);
        let pa = match rng.below(5) {
            0 => BigUint::from(rng.range(1001, 50_000)),
            1 => pow10(24) * rng.range(1, 99),
            _ => rng.magnitude(20) + BigUint::from(1001u32),
        };
        let pb = match rng.below(10) {
            0 => BigUint::from(rng.range(1001, 50_000)),
            1 => &pa * rng.range(1, 1000),
            2 => (&pa / rng.range(1, 1000)).max(BigUint::from(1001u32)),
            3 => pa.clone(),
            _ => (&pa * rng.range(1, 40) / rng.range(1, 40)).max(BigUint::from(1001u32)),
        };
        format!("users={users} order={order} pen={pen} minep={minep} boost={boost} fee={fee} epoch={epoch} perblock={perblock} pool={pa},{pb}")
    }

    fn new(header: &str) -> Self {
        Self::build(header)
    }

    fn gen_line(&mut self, rng: &mut Rng, step: u64, _tier: &str) -> (char, String) {
        ('O', self.gen_impl(rng, step))
    }

    fn exec(&mut self, tr: &mut Trace, text: &str) {
        self.exec_impl(tr, text);
    }

    fn query(&mut self, tr: &mut Trace, text: &str) {
        let n = tr.query(text);
        tr.view_err(n);
    }
}
