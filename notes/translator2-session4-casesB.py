"""part B cases (new kernels) for notes/translator2-session4-cases.py — same format"""
FAC = "dex/router/src/factory.rs"
CFG = "dex/router/src/config.rs"
EF = "locked-asset/energy-factory/src/lib.rs"
UWP = "locked-asset/energy-factory/src/unlock_with_penalty.rs"
TM = "locked-asset/energy-factory/src/token_merging.rs"
VL = "locked-asset/energy-factory/src/virtual_lock.rs"

K1 = """            .get(&PairTokens {
                first_token_id: first_token_id.clone(),
                second_token_id: second_token_id.clone(),
            })"""
K2 = """                .get(&PairTokens {
                    first_token_id: second_token_id,
                    second_token_id: first_token_id,
                })"""
REV = """        if pair_map_address_opt.is_none() {
            let reverse_pair_tokens = PairTokens {
                first_token_id: second_token_id.clone(),
                second_token_id: first_token_id.clone(),
            };
            pair_map_address_opt = self.pair_map().get(&reverse_pair_tokens);
        }
"""
PT = """        let pair_tokens = PairTokens {
            first_token_id: first_token_id.clone(),
            second_token_id: second_token_id.clone(),
        };

        let mut pair_map_address_opt = self.pair_map().get(&pair_tokens);
"""
LOCKHEAD = """        self.require_not_paused();
        self.require_is_listed_lock_option(lock_epochs);

        let payment = self.call_value().single_esdt();
        let dest_address"""
UNLOCKHEAD = """        self.require_not_paused();

        let current_epoch = self.blockchain().get_block_epoch();
        let caller = self.blockchain().get_caller();
        let locked_token_mapper"""
EARLYHEAD = """        self.require_not_paused();
        let caller = self.blockchain().get_caller();
        let payment = self.call_value().single_esdt();
        let reduce_result = self.reduce_lock_period_common(&caller, payment.clone(), None);"""
REDHEAD = """        self.require_not_paused();
        self.require_is_listed_lock_option(new_lock_period);
"""
MERGEHEAD = """        self.require_not_paused();

        let payments = self.get_non_empty_payments();
        let caller = self.blockchain().get_caller();
        let original_caller"""
VLHEAD = """        require!(
            self.is_base_asset_token(&token_id),
            "May only lock the base asset token"
        );
        require!(amount > 0, "Amount cannot be 0");
"""
EXTHEAD = """        self.require_not_paused();
        self.require_is_listed_lock_option(lock_epochs);

        let caller = self.blockchain().get_caller();
        require!(
            self.token_transfer_whitelist().contains(&caller),"""

CASES = {
 # ------------------------------------------------------------------ Router
 "RH1": ("Router", "H", "get_pair: fields of the first key literal written in the other order", [(FAC, K1, """            .get(&PairTokens {
                second_token_id: second_token_id.clone(),
                first_token_id: first_token_id.clone(),
            })""")]),
 "RH2": ("Router", "H", "check_is_pair_sc: `opt.is_none()` -> `!opt.is_some()`",
         [(CFG, "if pair_map_address_opt.is_none() {", "if !pair_map_address_opt.is_some() {")]),
 "RH3": ("Router", "H", "check_is_pair_sc: the local key record inlined into the lookup", [(CFG, PT, """        let mut pair_map_address_opt = self.pair_map().get(&PairTokens {
            first_token_id: first_token_id.clone(),
            second_token_id: second_token_id.clone(),
        });
""")]),
 "RH4": ("Router", "H", "get_pair: `.unwrap_or_else(ManagedAddress::zero)` -> `.unwrap_or_default()` (first lookup)",
         [(FAC, K1 + "\n            .unwrap_or_else(ManagedAddress::zero);", K1 + "\n            .unwrap_or_default();")]),
 "RH5": ("Router", "H", "check_is_pair_sc: operands of the final comparison commuted",
         [(CFG, "require!(&pair_map_address == pair_address, \"Not a pair SC\");", "require!(pair_address == &pair_map_address, \"Not a pair SC\");")]),
 "RR1": ("Router", "R", "get_pair: the second lookup uses the SAME order again (the reverse entry is never found)",
         [(FAC, K2, """                .get(&PairTokens {
                    first_token_id: first_token_id,
                    second_token_id: second_token_id,
                })""")]),
 "RR2": ("Router", "R", "check_is_pair_sc: the reverse lookup dropped", [(CFG, REV, "")]),
 "RR3": ("Router", "R", "check_is_pair_sc: the address comparison dropped (any registered token pair passes)",
         [(CFG, "            require!(&pair_map_address == pair_address, \"Not a pair SC\");\n", "")]),
 "RR4": ("Router", "R", "check_is_pair_sc: reverse lookup when the direct one is PRESENT (`is_some`)",
         [(CFG, "if pair_map_address_opt.is_none() {", "if pair_map_address_opt.is_some() {")]),
 "RR5": ("Router", "R", "check_is_pair_sc: the direct key built in the reverse order",
         [(CFG, """        let pair_tokens = PairTokens {
            first_token_id: first_token_id.clone(),
            second_token_id: second_token_id.clone(),""", """        let pair_tokens = PairTokens {
            first_token_id: second_token_id.clone(),
            second_token_id: first_token_id.clone(),""")]),
 # ------------------------------------------------------------------ energy-factory heads
 "EH1": ("EnergyGuards", "H", "lockTokens: the two head checks swapped",
         [(EF, LOCKHEAD, LOCKHEAD.replace("        self.require_not_paused();\n        self.require_is_listed_lock_option(lock_epochs);\n",
                                          "        self.require_is_listed_lock_option(lock_epochs);\n        self.require_not_paused();\n"))]),
 "EH2": ("EnergyGuards", "H", "lockVirtual: amount check before the base-asset check", [(VL, VLHEAD, """        require!(amount > 0, "Amount cannot be 0");
        require!(
            self.is_base_asset_token(&token_id),
            "May only lock the base asset token"
        );
""")]),
 "EH3": ("EnergyGuards", "H", "unlockTokens: `self.require_not_paused()` written out as `require!(self.not_paused(), …)`",
         [(EF, UNLOCKHEAD, UNLOCKHEAD.replace("self.require_not_paused();", "require!(self.not_paused(), \"Contract is paused\");"))]),
 "EH4": ("EnergyGuards", "H", "mergeTokens: `require!(!self.is_paused(), …)`",
         [(TM, MERGEHEAD, MERGEHEAD.replace("self.require_not_paused();", "require!(!self.is_paused(), \"Contract is paused\");"))]),
 "EH5": ("EnergyGuards", "H", "extendLockPeriod: listed-option check moved after the whitelist check's `let caller`",
         [(EF, EXTHEAD, """        self.require_not_paused();

        let caller = self.blockchain().get_caller();
        self.require_is_listed_lock_option(lock_epochs);
        require!(
            self.token_transfer_whitelist().contains(&caller),""")]),
 "ER1": ("EnergyGuards", "R", "lockTokens: pause check dropped", [(EF, LOCKHEAD, LOCKHEAD.replace("        self.require_not_paused();\n", ""))]),
 "ER2": ("EnergyGuards", "R", "unlockEarly: pause check dropped", [(UWP, EARLYHEAD, EARLYHEAD.replace("        self.require_not_paused();\n", ""))]),
 "ER3": ("EnergyGuards", "R", "reduceLockPeriod: listed-option check dropped",
         [(UWP, REDHEAD, "        self.require_not_paused();\n")]),
 "ER4": ("EnergyGuards", "R", "lockVirtual: `amount > 0` dropped", [(VL, "        require!(amount > 0, \"Amount cannot be 0\");\n", "")]),
 "ER5": ("EnergyGuards", "R", "extendLockPeriod: whitelist test negated",
         [(EF, "            self.token_transfer_whitelist().contains(&caller),\n            \"May not call this endpoint. Use lockTokens instead\"",
           "            !self.token_transfer_whitelist().contains(&caller),\n            \"May not call this endpoint. Use lockTokens instead\"")]),
 "ER6": ("EnergyGuards", "R", "mergeTokens: `require_paused` instead of `require_not_paused`",
         [(TM, MERGEHEAD, MERGEHEAD.replace("self.require_not_paused();", "self.require_paused();"))]),
}

UB = "farm-staking/farm-staking/src/unbond_farm.rs"
PDL = "dex/price-discovery/src/lib.rs"
PDR = "dex/price-discovery/src/redeem_token.rs"
GOV = "energy-integration/governance-v2/src/lib.rs"
GOVV = "energy-integration/governance-v2/src/views.rs"
DEPSEL = """        let (redeem_token_nonce, balance_mapper) = if payment_token == accepted_token_id {
            (ACCEPTED_TOKEN_REDEEM_NONCE, self.accepted_token_balance())
        } else if payment_token == launched_token_id {
            (LAUNCHED_TOKEN_REDEEM_NONCE, self.launched_token_balance())
        } else {
            sc_panic!(INVALID_PAYMENT_ERR_MSG);
        };
"""
WDSEL_L = """            LAUNCHED_TOKEN_REDEEM_NONCE => (
                EgldOrEsdtTokenIdentifier::esdt(self.launched_token_id().get()),
                self.launched_token_balance(),
            ),
"""
WDSEL_A = """            ACCEPTED_TOKEN_REDEEM_NONCE => (
                self.accepted_token_id().get(),
                self.accepted_token_balance(),
            ),
            _ => sc_panic!(INVALID_PAYMENT_ERR_MSG),
        };

        self.burn_redeem_token(payment_nonce, &payment_amount);
"""
VOTEHEAD = """        self.require_valid_proposal_id(proposal_id);
        require!(
            self.get_proposal_status(proposal_id) == GovernanceProposalStatus::Active,
            PROPOSAL_NOT_ACTIVE
        );
"""
WD_DEF = """                require!(caller == proposal.proposer, ONLY_PROPOSER_WITHDRAW);
                require!(!proposal.fee_withdrawn, FEE_ALREADY_WITHDRAWN);
"""

CASES.update({
 # ------------------------------------------------------------------ farm-staking unbondFarm
 "UH1": ("StakingUnbond", "H", "unbond_farm: guard comparison flipped (`attributes.unlock_epoch <= current_epoch`)",
         [(UB, "current_epoch >= attributes.unlock_epoch,", "attributes.unlock_epoch <= current_epoch,")]),
 "UH2": ("StakingUnbond", "H", "unbond_farm: `let caller` moved in front of the burn",
         [(UB, "        farm_token_mapper.nft_burn(payment.token_nonce, &payment.amount);\n\n        let caller = self.blockchain().get_caller();\n",
           "        let caller = self.blockchain().get_caller();\n        farm_token_mapper.nft_burn(payment.token_nonce, &payment.amount);\n\n")]),
 "UH3": ("StakingUnbond", "H", "unbond_farm: the paid amount named by a local before the guard",
         [(UB, "        let current_epoch = self.blockchain().get_block_epoch();\n        require!(\n            current_epoch >= attributes.unlock_epoch,",
           "        let current_epoch = self.blockchain().get_block_epoch();\n        let unbond_amount = payment.amount.clone();\n        require!(\n            current_epoch >= attributes.unlock_epoch,"),
          (UB, "EsdtTokenPayment::new(storage_cache.farming_token_id.clone(), 0, payment.amount);",
           "EsdtTokenPayment::new(storage_cache.farming_token_id.clone(), 0, unbond_amount);")]),
 "UR1": ("StakingUnbond", "R", "unbond_farm: guard weakened to `>` … (strict: one epoch later)",
         [(UB, "current_epoch >= attributes.unlock_epoch,", "current_epoch > attributes.unlock_epoch,")]),
 "UR2": ("StakingUnbond", "R", "unbond_farm: guard dropped",
         [(UB, "        require!(\n            current_epoch >= attributes.unlock_epoch,\n            \"Unbond period not over\"\n        );\n", "")]),
 "UR3": ("StakingUnbond", "R", "unbond_farm: pays out twice the amount",
         [(UB, "EsdtTokenPayment::new(storage_cache.farming_token_id.clone(), 0, payment.amount);",
           "EsdtTokenPayment::new(storage_cache.farming_token_id.clone(), 0, payment.amount * 2u64);")]),
 "UR4": ("StakingUnbond", "R", "unbond_farm: pays the FARM token id instead of the farming token",
         [(UB, "EsdtTokenPayment::new(storage_cache.farming_token_id.clone(), 0, payment.amount);",
           "EsdtTokenPayment::new(storage_cache.farm_token_id.clone(), 0, payment.amount);")]),
 "UR5": ("StakingUnbond", "R", "unbond_farm: state gate dropped",
         [(UB, "        self.validate_contract_state(storage_cache.contract_state, &storage_cache.farm_token_id);\n", "")]),
 # ------------------------------------------------------------------ price-discovery bookkeeping
 "PH1": ("PdBook", "H", "deposit: the two selection branches swapped (launched first)",
         [(PDL, DEPSEL, """        let (redeem_token_nonce, balance_mapper) = if payment_token == launched_token_id {
            (LAUNCHED_TOKEN_REDEEM_NONCE, self.launched_token_balance())
        } else if payment_token == accepted_token_id {
            (ACCEPTED_TOKEN_REDEEM_NONCE, self.accepted_token_balance())
        } else {
            sc_panic!(INVALID_PAYMENT_ERR_MSG);
        };
""")]),
 "PH2": ("PdBook", "H", "deposit: `increase_balance` inlined by hand (`balance_mapper.update(|b| *b += &payment_amount)`)",
         [(PDL, "        self.increase_balance(balance_mapper, &payment_amount);", "        balance_mapper.update(|b| *b += &payment_amount);")]),
 "PH3": ("PdBook", "H", "withdraw: the two `match` arms swapped", [(PDL, WDSEL_L + WDSEL_A, WDSEL_A.replace("            _ => sc_panic!(INVALID_PAYMENT_ERR_MSG),\n        };\n\n        self.burn_redeem_token(payment_nonce, &payment_amount);\n", "") + WDSEL_L + "            _ => sc_panic!(INVALID_PAYMENT_ERR_MSG),\n        };\n\n        self.burn_redeem_token(payment_nonce, &payment_amount);\n")]),
 "PH4": ("PdBook", "H", "burn_redeem_token: the two statements of the helper swapped (supply first, then the burn)",
         [(PDR, """        self.burn_redeem_token_without_supply_decrease(nonce, amount);

        self.redeem_token_total_circulating_supply(nonce)
            .update(|supply| *supply -= amount);""", """        self.redeem_token_total_circulating_supply(nonce)
            .update(|supply| *supply -= amount);
        self.burn_redeem_token_without_supply_decrease(nonce, amount);""")]),
 "PR1": ("PdBook", "R", "deposit: accepted payments increase the LAUNCHED balance",
         [(PDL, "            (ACCEPTED_TOKEN_REDEEM_NONCE, self.accepted_token_balance())", "            (ACCEPTED_TOKEN_REDEEM_NONCE, self.launched_token_balance())")]),
 "PR2": ("PdBook", "R", "deposit: accepted payments mint the LAUNCHED redeem nonce",
         [(PDL, "            (ACCEPTED_TOKEN_REDEEM_NONCE, self.accepted_token_balance())", "            (LAUNCHED_TOKEN_REDEEM_NONCE, self.accepted_token_balance())")]),
 "PR3": ("PdBook", "R", "increase_balance subtracts", [(PDL, "mapper.update(|b| *b += amount);", "mapper.update(|b| *b -= amount);")]),
 "PR4": ("PdBook", "R", "withdraw: the balance is decreased by the FULL payment (penalty leaves the pool twice)",
         [(PDL, "        self.decrease_balance(balance_mapper, &withdraw_amount);", "        self.decrease_balance(balance_mapper, &payment_amount);")]),
 "PR5": ("PdBook", "R", "burn_redeem_token no longer decreases the circulating supply",
         [(PDR, "        self.redeem_token_total_circulating_supply(nonce)\n            .update(|supply| *supply -= amount);\n    }", "    }")]),
 "PR6": ("PdBook", "R", "withdraw: nonce 1 refunds the ACCEPTED token id",
         [(PDL, "                EgldOrEsdtTokenIdentifier::esdt(self.launched_token_id().get()),\n                self.launched_token_balance(),",
           "                self.accepted_token_id().get(),\n                self.launched_token_balance(),")]),
 # ------------------------------------------------------------------ governance guards
 "GH1": ("GovGuards", "H", "vote: status check written with the operands commuted",
         [(GOV, "self.get_proposal_status(proposal_id) == GovernanceProposalStatus::Active,", "GovernanceProposalStatus::Active == self.get_proposal_status(proposal_id),")]),
 "GH2": ("GovGuards", "H", "vote: `require_valid_proposal_id` written out (`require!(self.is_valid_proposal_id(id), …)`)",
         [(GOV, VOTEHEAD, VOTEHEAD.replace("        self.require_valid_proposal_id(proposal_id);\n", "        require!(\n            self.is_valid_proposal_id(proposal_id),\n            \"Invalid proposal ID\"\n        );\n"))]),
 "GH3": ("GovGuards", "H", "withdraw_deposit: the two requires of the Succeeded/Defeated arm swapped",
         [(GOV, WD_DEF, """                require!(!proposal.fee_withdrawn, FEE_ALREADY_WITHDRAWN);
                require!(caller == proposal.proposer, ONLY_PROPOSER_WITHDRAW);
""")]),
 "GH4": ("GovGuards", "H", "withdraw_deposit: or-pattern reordered (`Defeated | Succeeded`)",
         [(GOV, "GovernanceProposalStatus::Succeeded | GovernanceProposalStatus::Defeated => {", "GovernanceProposalStatus::Defeated | GovernanceProposalStatus::Succeeded => {")]),
 "GR1": ("GovGuards", "R", "vote: Pending proposals may be voted on too (`!= None` … here: status check dropped)",
         [(GOV, VOTEHEAD, "        self.require_valid_proposal_id(proposal_id);\n")]),
 "GR2": ("GovGuards", "R", "vote: double voting allowed (`require!(new_user…)` dropped)",
         [(GOV, "        require!(new_user, ALREADY_VOTED_ERR_MSG);\n", "")]),
 "GR3": ("GovGuards", "R", "withdraw_deposit: anyone may withdraw a defeated proposal's fee",
         [(GOV, "                require!(caller == proposal.proposer, ONLY_PROPOSER_WITHDRAW);\n", "")]),
 "GR4": ("GovGuards", "R", "withdraw_deposit: the once-only check of the veto arm dropped",
         [(GOV, """                let mut proposal = self.proposals().get(proposal_id);

                require!(!proposal.fee_withdrawn, FEE_ALREADY_WITHDRAWN);

                let refund_percentage""", """                let mut proposal = self.proposals().get(proposal_id);

                let refund_percentage""")]),
 "GR5": ("GovGuards", "R", "withdraw_deposit: Active proposals can be withdrawn like defeated ones",
         [(GOV, "GovernanceProposalStatus::Succeeded | GovernanceProposalStatus::Defeated => {", "GovernanceProposalStatus::Succeeded | GovernanceProposalStatus::Defeated | GovernanceProposalStatus::Active => {")]),
 "GR6": ("GovGuards", "R", "vote: status must be Pending instead of Active",
         [(GOV, "self.get_proposal_status(proposal_id) == GovernanceProposalStatus::Active,", "self.get_proposal_status(proposal_id) == GovernanceProposalStatus::Pending,")]),
})

PEN = "locked-asset/energy-factory/src/penalty.rs"
CASES.update({
 # ------------------------------------------------------------------ penalty option search
 "NH1": ("Penalty", "H", "penalty: range guard written the other way round",
         [(PEN, "lock_epochs_remaining <= last_lock_option.lock_epochs,", "last_lock_option.lock_epochs >= lock_epochs_remaining,")]),
 "NH2": ("Penalty", "H", "penalty: the two conjuncts of the segment test swapped",
         [(PEN, """                if prev_option_temp.lock_epochs <= lock_epochs_remaining
                    && lock_epochs_remaining <= next_option_temp.lock_epochs
""", """                if lock_epochs_remaining <= next_option_temp.lock_epochs
                    && prev_option_temp.lock_epochs <= lock_epochs_remaining
""")]),
 "NH3": ("Penalty", "H", "penalty: the two record copies swapped",
         [(PEN, "                    prev_option = *prev_option_temp;\n                    next_option = *next_option_temp;\n",
           "                    next_option = *next_option_temp;\n                    prev_option = *prev_option_temp;\n")]),
 "NH4": ("Penalty", "H", "penalty: the local `first_index` removed (literal 0 used)",
         [(PEN, "        let first_index = 0;\n        let first_lock_option = unsafe { lock_options.get_unchecked(first_index) };",
           "        let first_lock_option = unsafe { lock_options.get_unchecked(0) };"),
          (PEN, "for i in first_index..last_index {", "for i in 0..last_index {")]),
 "NR1": ("Penalty", "R", "penalty: the search skips the first segment", [(PEN, "for i in first_index..last_index {", "for i in first_index + 1..last_index {")]),
 "NR2": ("Penalty", "R", "penalty: upper option copied from the LOWER candidate",
         [(PEN, "                    next_option = *next_option_temp;", "                    next_option = *prev_option_temp;")]),
 "NR3": ("Penalty", "R", "penalty: the two percentages handed to the interpolation swapped",
         [(PEN, "            prev_option.penalty_start_percentage,\n            next_option.penalty_start_percentage,",
           "            next_option.penalty_start_percentage,\n            prev_option.penalty_start_percentage,")]),
 "NR4": ("Penalty", "R", "penalty: below the first option the LAST option is the upper bound",
         [(PEN, "            next_option = *first_lock_option;", "            next_option = *last_lock_option;")]),
})

FEE = "dex/pair/src/fee.rs"
FLOOP = """        for (fee_address, fee_token_requested) in self.destination_map().iter() {
            self.send_fee_slice(
                storage_cache,
                swap_tokens_order,
                fee_token,
                &fee_slice,
                &fee_address,
                &fee_token_requested,
            );
        }
"""
CASES.update({
 # ------------------------------------------------------------------ send_fee destination loop
 "FH1": ("FeeDest", "H", "send_fee: loop binders renamed", [(FEE, FLOOP, FLOOP.replace("fee_address", "dest").replace("fee_token_requested", "wanted"))]),
 "FH2": ("FeeDest", "H", "send_fee: the two zero checks written with the operands commuted",
         [(FEE, "        if slices == 0 {\n            return;\n        }\n\n        let fee_slice = remaining_fee / slices;\n        if fee_slice == 0 {",
           "        if 0 == slices {\n            return;\n        }\n\n        let fee_slice = remaining_fee / slices;\n        if 0u64 == fee_slice {")], ["FeeDest"]),
 "FH3": ("FeeDest", "H", "send_fee: the number of slices named `n_dest`",
         [(FEE, "        let slices = self.destination_map().len() as u64;\n        if slices == 0 {\n            return;\n        }\n\n        let fee_slice = remaining_fee / slices;",
           "        let n_dest = self.destination_map().len() as u64;\n        if n_dest == 0 {\n            return;\n        }\n\n        let fee_slice = remaining_fee / n_dest;")]),
 "FR1": ("FeeDest", "R", "send_fee: every destination receives the WHOLE remaining fee",
         [(FEE, "                &fee_slice,\n                &fee_address,", "                &remaining_fee,\n                &fee_address,"),
          (FEE, "        let fee_slice = remaining_fee / slices;", "        let fee_slice = &remaining_fee / slices;")]),
 "FR2": ("FeeDest", "R", "send_fee: slice = remaining / (slices + 1)",
         [(FEE, "        let fee_slice = remaining_fee / slices;", "        let fee_slice = remaining_fee / (slices + 1);")]),
 "FR3": ("FeeDest", "R", "send_fee: the zero-slice early return dropped",
         [(FEE, "        if fee_slice == 0 {\n            return;\n        }\n\n", "")]),
 "FR4": ("FeeDest", "R", "send_fee: the loop leaves after the first destination (`break`)",
         [(FEE, "                &fee_token_requested,\n            );\n        }", "                &fee_token_requested,\n            );\n            break;\n        }")]),
})

# the old fragments `Pair.fee_slice_amount` / `Pair.fee_collector_cut` use `let fee_slice`, `if fee_slice == 0` and the
# local `slices` as TEXT markers / inputs; the send_fee cases judge the new kernel only (group FeeDest)
for _c in list(CASES):
    if _c.startswith("F") and len(CASES[_c]) == 4:
        CASES[_c] = CASES[_c] + (["FeeDest"],)
