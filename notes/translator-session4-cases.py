#!/usr/bin/env python3
"""
Robustness cases for the constructs the translator learnt in session 4 (`match`, `if let`, enum values,
`for` loops, guard fragments).  Usage:  python3 notes/translator-session4-cases.py [case-id …]
Needs a scratch worktree of /repo at  <copy>/wt/r1  (git -C /repo worktree add --detach <copy>/wt/r1 HEAD).
Per case: restore the worktree, apply the text edits, `bin/gen-kernels --repo wt/r1`, `lake build` the Props/K module
of the group, record  translated? / theorems check?   Harmless (H*) must stay translated AND checking,
real changes (R*) must stay translated AND break the build.  Results: work/ktest4/results.json
"""
import json, os, subprocess, sys
ROOT = os.path.dirname(os.path.dirname(os.path.abspath(__file__)))
WT = os.path.join(ROOT, "wt", "r1")
PD = "dex/price-discovery/src/phase.rs"
PDL = "dex/price-discovery/src/lib.rs"
CM = "dex/pair/src/pair_actions/common_methods.rs"
BASE = "dex/pair/src/contexts/base.rs"
ADD = "dex/pair/src/pair_actions/add_liq.rs"
INI = "dex/pair/src/pair_actions/initial_liq.rs"
SWAP = "dex/pair/src/pair_actions/swap.rs"
GOV = "energy-integration/governance-v2/src/lib.rs"
TMH = "common/modules/token_merge_helper/src/lib.rs"
FT = "common/modules/farm/farm_token/src/farm_token.rs"
BY = "energy-integration/farm-boosted-yields/src/lib.rs"
LO = "locked-asset/energy-factory/src/lock_options.rs"
VAL = "common/modules/farm/farm_base_impl/src/base_farm_validation.rs"
SLIB = "farm-staking/farm-staking/src/lib.rs"

LIN = "            Self::LinearIncreasingPenalty { penalty_percentage } => penalty_percentage.clone(),\n"
FIX = "            Self::OnlyWithdrawFixedPenalty { penalty_percentage } => penalty_percentage.clone(),\n"
WD = """        match phase {
            Phase::Idle | Phase::Redeem => {
                sc_panic!("Withdraw not allowed in this phase")
            }
            _ => {}
        };"""
ACC = """            ACCEPTED_TOKEN_REDEEM_NONCE => (
                EgldOrEsdtTokenIdentifier::esdt(self.launched_token_id().get()),
                self.launched_token_balance().get(),
            ),
"""
LAU = """            LAUNCHED_TOKEN_REDEEM_NONCE => (
                self.accepted_token_id().get(),
                self.accepted_token_balance().get(),
            ),
"""
IFLET = """        if let Some(initial_liq_adder) = opt_initial_liq_adder {
            require!(caller == initial_liq_adder, ERROR_PERMISSION_DENIED);
        }
"""
UPARM = """            VoteType::UpVote => {
                self.proposal_votes(proposal_id).update(|proposal_votes| {
                    proposal_votes.up_votes += &voting_power.clone();
                    proposal_votes.quorum += &user_quorum.clone();
                });
                self.up_vote_cast_event(&voter, proposal_id, &voting_power, &user_quorum);
            }
"""
DOWNARM = """            VoteType::DownVote => {
                self.proposal_votes(proposal_id).update(|proposal_votes| {
                    proposal_votes.down_votes += &voting_power.clone();
                    proposal_votes.quorum += &user_quorum.clone();
                });
                self.down_vote_cast_event(&voter, proposal_id, &voting_power, &user_quorum);
            }
"""
STATEREQ = """        require!(
            self.is_state_active(storage_cache.contract_state),
            ERROR_NOT_ACTIVE
        );
"""
LPREQ = """        require!(
            storage_cache.lp_token_id.is_valid_esdt_identifier(),
            ERROR_LP_TOKEN_NOT_ISSUED
        );
"""
WLOOP = """            weight_sum += &item.weight;
            elem_weight_sum += item.value * item.weight;
"""
FLOOR = "            WeightedAverageType::Floor => elem_weight_sum / weight_sum,\n"
CEIL = "            WeightedAverageType::Ceil => (elem_weight_sum + &weight_sum - 1u64) / weight_sum,\n"
COLL = """            let rewards_to_distribute = self.remaining_boosted_rewards_to_distribute(week).take();
            self.undistributed_boosted_rewards()
                .update(|total_amount| *total_amount += rewards_to_distribute);
"""

# id: (group / Props module, kind, description, [(file, old, new)])
CASES = {
 # ------------------------------------------------------------------ harmless
 "H01": ("Pd", "H", "get_penalty_percentage: the two payload arms swapped", [(PD, LIN + FIX, FIX + LIN)]),
 "H02": ("Pd", "H", "get_penalty_percentage: payload binder renamed (`{ penalty_percentage: p } => p.clone()`)",
         [(PD, LIN, "            Self::LinearIncreasingPenalty { penalty_percentage: p } => p.clone(),\n")]),
 "H03": ("Pd", "H", "require_withdraw_allowed: or-pattern reordered (`Redeem | Idle`)",
         [(PD, "Phase::Idle | Phase::Redeem => {", "Phase::Redeem | Phase::Idle => {")]),
 "H04": ("Pd", "H", "require_withdraw_allowed: `match` rewritten as `if phase == &Idle || phase == &Redeem { sc_panic! }`",
         [(PD, WD, """        if phase == &Phase::Idle || phase == &Phase::Redeem {
            sc_panic!("Withdraw not allowed in this phase")
        }""")]),
 "H05": ("Pd", "H", "compute_bought_tokens: the ACCEPTED / LAUNCHED arms swapped", [(PDL, ACC + LAU, LAU + ACC)]),
 "H06": ("PairState", "H", "add_initial_liquidity: `if let Some(a) = opt { … }` rewritten as `match opt { Some(a) => { … } None => {} }`",
         [(INI, IFLET, """        match opt_initial_liq_adder {
            Some(initial_liq_adder) => {
                require!(caller == initial_liq_adder, ERROR_PERMISSION_DENIED);
            }
            None => {}
        }
""")]),
 "H07": ("PairState", "H", "get_reserve_in: arms swapped (ReverseOrder first)",
         [(BASE, """            SwapTokensOrder::PoolOrder => &self.first_token_reserve,
            SwapTokensOrder::ReverseOrder => &self.second_token_reserve,
        }
    }

    pub fn get_reserve_out""", """            SwapTokensOrder::ReverseOrder => &self.second_token_reserve,
            SwapTokensOrder::PoolOrder => &self.first_token_reserve,
        }
    }

    pub fn get_reserve_out""")]),
 "H08": ("PairState", "H", "is_state_active: disjuncts commuted", [(CM, "state == State::Active || state == State::PartialActive",
                                                                 "state == State::PartialActive || State::Active == state")]),
 "H09": ("PairState", "H", "is_state_active: rewritten as `match state { Active | PartialActive => true, _ => false }`",
         [(CM, "state == State::Active || state == State::PartialActive",
           "match state {\n            State::Active | State::PartialActive => true,\n            _ => false,\n        }")]),
 "H10": ("Gov", "H", "vote: the UpVote / DownVote arms swapped", [(GOV, UPARM + DOWNARM, DOWNARM + UPARM)]),
 "H11": ("Gov", "H", "vote: inside the UpVote arm the two tally updates swapped",
         [(GOV, """                    proposal_votes.up_votes += &voting_power.clone();
                    proposal_votes.quorum += &user_quorum.clone();""", """                    proposal_votes.quorum += &user_quorum.clone();
                    proposal_votes.up_votes += &voting_power.clone();""")]),
 "H12": ("Loops", "H", "weighted_average: the two accumulator updates of the loop body swapped",
         [(TMH, WLOOP, "            elem_weight_sum += item.value * item.weight;\n            weight_sum += &item.weight;\n")]),
 "H13": ("Loops", "H", "weighted_average: loop binder renamed, product commuted",
         [(TMH, "        for item in &dataset {\n" + WLOOP, "        for it in &dataset {\n            weight_sum += &it.weight;\n            elem_weight_sum += it.weight * it.value;\n")]),
 "H14": ("Loops", "H", "weighted_average: `match` arms swapped (Ceil first)", [(TMH, FLOOR + CEIL, CEIL + FLOOR)]),
 "H15": ("Loops", "H", "collect loop: local renamed and `x += r` written `x = x + r`",
         [(BY, COLL, """            let r = self.remaining_boosted_rewards_to_distribute(week).take();
            self.undistributed_boosted_rewards()
                .update(|total_amount| *total_amount = &*total_amount + &r);
""")]),
 "H16": ("Loops", "H", "is_listed: comparison commuted", [(LO, "if option.lock_epochs == lock_epochs {", "if lock_epochs == option.lock_epochs {")]),
 "H17": ("Loops", "H", "burn_farm_tokens_from_payments: `for entry in &payments` instead of `payments.iter()`, statements of the body swapped",
         [(FT, """        for entry in payments.iter() {
            total_amount += &entry.amount;
            self.send()
                .esdt_local_burn(&entry.token_identifier, entry.token_nonce, &entry.amount);
        }""", """        for entry in payments {
            self.send()
                .esdt_local_burn(&entry.token_identifier, entry.token_nonce, &entry.amount);
            total_amount += &entry.amount;
        }""")]),
 "H18": ("PairState", "H", "add_liquidity: the state check and the LP-issued check swapped", [(ADD, STATEREQ + LPREQ, LPREQ + STATEREQ)]),
 "H19": ("Loops", "H", "collect loop: inclusive range written as exclusive `first..last + 1`",
         [(BY, "for week in first_collect_week..=last_collect_week {", "for week in first_collect_week..last_collect_week + 1 {")]),
 "H20": ("Pd", "H", "require_deposit_allowed: catch-all arm replaced by the two remaining variants",
         [(PD, """                sc_panic!("Deposit not allowed in this phase")
            }
            _ => {}""", """                sc_panic!("Deposit not allowed in this phase")
            }
            Phase::NoPenalty | Phase::LinearIncreasingPenalty { .. } => {}""")]),
 "H21": ("FarmState", "H", "validate_contract_state: comparison commuted (`State::Active == current_state`)",
         [(VAL, "require!(current_state == State::Active, ERROR_NOT_ACTIVE);", "require!(State::Active == current_state, ERROR_NOT_ACTIVE);")]),
 "H22": ("FarmState", "H", "validate_contract_state: `require!(a == b)` rewritten as `match current_state { State::Active => {} _ => sc_panic! }`",
         [(VAL, "require!(current_state == State::Active, ERROR_NOT_ACTIVE);", "match current_state {\n            State::Active => {}\n            _ => sc_panic!(ERROR_NOT_ACTIVE),\n        };")]),
 # ------------------------------------------------------------------ real changes
 "R22": ("FarmState", "R", "validate_contract_state: `== Active` weakened to `!= Inactive` (a PartialActive farm passes)",
         [(VAL, "require!(current_state == State::Active, ERROR_NOT_ACTIVE);", "require!(current_state != State::Inactive, ERROR_NOT_ACTIVE);")]),
 "R23": ("FarmState", "R", "farm-staking mergeFarmTokens: the `is_active` guard dropped (finding F2 re-introduced)",
         [(SLIB, "    fn merge_farm_tokens_endpoint(&self) -> DoubleMultiPayment<Self::Api> {\n        require!(self.is_active(), ERROR_NOT_ACTIVE);\n", "    fn merge_farm_tokens_endpoint(&self) -> DoubleMultiPayment<Self::Api> {\n")]),
 "R01": ("Pd", "R", "get_penalty_percentage: the fixed-penalty arm returns zero (wrong arm)",
         [(PD, FIX, "            Self::OnlyWithdrawFixedPenalty { penalty_percentage: _ } => BigUint::zero(),\n")]),
 "R02": ("Pd", "R", "require_deposit_allowed: `Phase::Redeem` dropped from the forbidden phases",
         [(PD, """                penalty_percentage: _,
            }
            | Phase::Redeem => {""", """                penalty_percentage: _,
            } => {""")]),
 "R03": ("Pd", "R", "require_withdraw_allowed: NoPenalty added to the forbidden phases",
         [(PD, "Phase::Idle | Phase::Redeem => {", "Phase::Idle | Phase::NoPenalty | Phase::Redeem => {")]),
 "R04": ("Pd", "R", "compute_bought_tokens: the ACCEPTED arm pays from the accepted balance (wrong side)",
         [(PDL, """                EgldOrEsdtTokenIdentifier::esdt(self.launched_token_id().get()),
                self.launched_token_balance().get(),""", """                EgldOrEsdtTokenIdentifier::esdt(self.launched_token_id().get()),
                self.accepted_token_balance().get(),""")]),
 "R05": ("PairState", "R", "is_state_active: PartialActive no longer counts as active", [(CM, "state == State::Active || state == State::PartialActive", "state == State::Active")]),
 "R06": ("PairState", "R", "can_swap: PartialActive may swap",
         [(CM, "    fn can_swap(&self, state: State) -> bool {\n        state == State::Active", "    fn can_swap(&self, state: State) -> bool {\n        state == State::Active || state == State::PartialActive")]),
 "R07": ("PairState", "R", "get_reserve_out: PoolOrder arm returns the first reserve (wrong arm)",
         [(BASE, """    pub fn get_reserve_out(&self, swap_tokens_order: SwapTokensOrder) -> &BigUint<C::Api> {
        match swap_tokens_order {
            SwapTokensOrder::PoolOrder => &self.second_token_reserve,""", """    pub fn get_reserve_out(&self, swap_tokens_order: SwapTokensOrder) -> &BigUint<C::Api> {
        match swap_tokens_order {
            SwapTokensOrder::PoolOrder => &self.first_token_reserve,""")]),
 "R08": ("PairState", "R", "add_liquidity: the state check dropped", [(ADD, STATEREQ, "")]),
 "R09": ("PairState", "R", "swap_tokens_fixed_input: reserve check `>` weakened to `>=`",
         [(SWAP, "require!(*reserve_out > amount_out_min, ERROR_NOT_ENOUGH_RESERVE);", "require!(*reserve_out >= amount_out_min, ERROR_NOT_ENOUGH_RESERVE);")]),
 "R10": ("PairState", "R", "add_initial_liquidity: the `!` of the state check dropped",
         [(INI, "            !self.is_state_active(storage_cache.contract_state),", "            self.is_state_active(storage_cache.contract_state),")]),
 "R11": ("PairState", "R", "add_initial_liquidity: the `if let Some` caller check inverted (`!=`)",
         [(INI, "require!(caller == initial_liq_adder, ERROR_PERMISSION_DENIED);", "require!(caller != initial_liq_adder, ERROR_PERMISSION_DENIED);")]),
 "R12": ("Gov", "R", "vote: the DownVetoVote arm feeds the down counter (wrong arm)",
         [(GOV, "                    proposal_votes.down_veto_votes += &voting_power.clone();", "                    proposal_votes.down_votes += &voting_power.clone();")]),
 "R13": ("Gov", "R", "vote: the AbstainVote arm does not count towards the quorum",
         [(GOV, """                    proposal_votes.abstain_votes += &voting_power.clone();
                    proposal_votes.quorum += &user_quorum.clone();""", """                    proposal_votes.abstain_votes += &voting_power.clone();""")]),
 "R14": ("Loops", "R", "weighted_average: the weight sum accumulates the VALUE (wrong field)", [(TMH, "            weight_sum += &item.weight;", "            weight_sum += &item.value;")]),
 "R15": ("Loops", "R", "weighted_average: `- 1` of the Ceil arm dropped", [(TMH, CEIL, "            WeightedAverageType::Ceil => (elem_weight_sum + &weight_sum) / weight_sum,\n")]),
 "R16": ("Loops", "R", "collect loop: off-by-one bound (`first..last`, last week not collected)",
         [(BY, "for week in first_collect_week..=last_collect_week {", "for week in first_collect_week..last_collect_week {")]),
 "R17": ("Loops", "R", "collect loop: `.get()` instead of `.take()` (the week's remainder is not cleared)",
         [(BY, "self.remaining_boosted_rewards_to_distribute(week).take();", "self.remaining_boosted_rewards_to_distribute(week).get();")]),
 "R18": ("Loops", "R", "is_listed: `==` weakened to `>=`", [(LO, "if option.lock_epochs == lock_epochs {", "if option.lock_epochs >= lock_epochs {")]),
 "R19": ("Loops", "R", "burn_farm_tokens_from_payments: `+=` replaced by `=` (only the last payment counted)",
         [(FT, "            total_amount += &entry.amount;", "            total_amount = entry.amount.clone();")]),
 "R20": ("Loops", "R", "is_listed: early `return` replaced by `break` (falls into sc_panic!)",
         [(LO, "            if option.lock_epochs == lock_epochs {\n                return;", "            if option.lock_epochs == lock_epochs {\n                break;")]),
 "R21": ("Loops", "R", "boosted total: the first payment is skipped (`continue` on a zero running total)",
         [(BY, "            total += rew.amount;", "            if total == 0 {\n                total += 1u64;\n                continue;\n            }\n            total += rew.amount;")]),
}


def sh(cmd, cwd=None):
    return subprocess.run(cmd, shell=True, cwd=cwd, capture_output=True, text=True)


def main():
    ids = sys.argv[1:] or sorted(CASES)
    out_p = os.path.join(ROOT, "work", "ktest4", "results.json")
    os.makedirs(os.path.dirname(out_p), exist_ok=True)
    res = json.load(open(out_p)) if os.path.exists(out_p) else {}
    for cid in ids:
        grp, kind, desc, edits = CASES[cid]
        sh("git checkout -q -- .", WT)
        ok_apply = True
        for f, old, new in edits:
            p = os.path.join(WT, f)
            t = open(p).read()
            if t.count(old) != 1:
                ok_apply = False
                print(cid, "EDIT DOES NOT APPLY UNIQUELY", f, t.count(old))
                break
            open(p, "w").write(t.replace(old, new))
        if not ok_apply:
            res[cid] = {"group": grp, "kind": kind, "desc": desc, "applied": False}
            continue
        g = sh(f"python3 bin/gen-kernels --repo {WT}", ROOT)
        rep = json.load(open(os.path.join(ROOT, "work", "kernels.report.json")))
        unsup = [k for k, v in rep.items() if v["status"] != "translated"]
        b = sh(f"lake build MxModel.Props.K{grp}", os.path.join(ROOT, "lean"))
        errs = [l for l in (b.stdout + b.stderr).splitlines() if l.startswith("error:") and ".lean:" in l]
        builds = b.returncode == 0
        verdict = ("ok" if builds and not unsup else "FALSE-ALARM") if kind == "H" else \
                  ("caught" if (not builds) and not unsup else "UNSUPPORTED" if unsup else "MISSED")
        res[cid] = {"group": grp, "kind": kind, "desc": desc, "applied": True, "unsupported": unsup,
                    "builds": builds, "first_error": errs[0] if errs else "", "verdict": verdict}
        print(cid, grp, kind, verdict, (errs[0][:110] if errs else ""), unsup or "")
        json.dump(res, open(out_p, "w"), indent=1)
    sh("git checkout -q -- .", WT)
    sh("python3 bin/gen-kernels", ROOT)


if __name__ == "__main__":
    main()
