#!/usr/bin/env python3
"""
Robustness cases of task `translator2` (session 4): interface stability (part A) and the new kernels (part B),
plus a re-run of the 45 cases of `notes/translator-session4-cases.py` under the changed translator.

Usage:  python3 notes/translator2-session4-cases.py [--sync] [--old] [case-id …]

The cases run in a TEST COPY of the framework (`work/tc`: bin/, kernels*.json, lean/ with its .lake) so that the main
copy can be edited meanwhile; `--sync` (re)creates / refreshes that copy from the main copy.  Needs a scratch worktree of
/repo at <copy>/wt/r1  (git -C /repo worktree add --detach <copy>/wt/r1 HEAD; removed at the end of the session).
Per case: restore the worktree, apply the edits (text replacements, or a patch file `("PATCH", path)`), run
`bin/gen-kernels --repo wt/r1`, compare the interface of every definition with `kernels.sig.json`, `lake build` the
Props/K module(s) of the group.
  harmless (H): every definition stays translated, NO interface differs from the snapshot, the module builds;
  real change (R): everything stays translated and the build FAILS (a theorem stops checking).
Results: work/ktest5/results.json
"""
import json, os, subprocess, sys, importlib.util
MAIN = os.path.dirname(os.path.dirname(os.path.abspath(__file__)))
ROOT = os.path.join(MAIN, "work", "tc")
WT = os.path.join(MAIN, "wt", "r1")

EF = "locked-asset/energy-factory/src/lib.rs"
LO = "locked-asset/energy-factory/src/lock_options.rs"
UWP = "locked-asset/energy-factory/src/unlock_with_penalty.rs"
TMH = "common/modules/token_merge_helper/src/lib.rs"
BY = "energy-integration/farm-boosted-yields/src/lib.rs"
FEE = "dex/pair/src/fee.rs"
H12 = ("PATCH", os.path.join(MAIN, "harmless", "h12_A3_1.diff"))
H19 = ("PATCH", os.path.join(MAIN, "harmless", "h19_A4_3.diff"))

MONTH_OLD = """                let start_of_month_epoch =
                    self.unlock_epoch_to_start_of_month(tentative_new_unlock_epoch);
                let epochs_diff_from_month_start =
                    tentative_new_unlock_epoch - start_of_month_epoch;
"""
MONTH_NEW = """                let epochs_diff_from_month_start =
                    self.epochs_since_month_start(tentative_new_unlock_epoch);
"""
MONTH_FN = """    fn epochs_since_month_start(&self, epoch: Epoch) -> Epoch {
        let month_start = self.unlock_epoch_to_start_of_month(epoch);
        epoch - month_start
    }

    fn calculate_penalty_percentage_partial_unlock("""
MONTH_FN_BAD = MONTH_FN.replace("epoch - month_start", "month_start - epoch")
FEE_OLD = """        let fees_collector_configured = !self.fees_collector_address().is_empty();
        let remaining_fee = if fees_collector_configured {
            let fees_collector_cut_percentage = self.fees_collector_cut_percentage().get();
            let cut_amount = fee_amount * fees_collector_cut_percentage / MAX_PERCENTAGE;
            let reminder = fee_amount - &cut_amount;
"""
FEE_NEW = """        let total_fee = fee_amount.clone();
        let fees_collector_configured = !self.fees_collector_address().is_empty();
        let remaining_fee = if fees_collector_configured {
            let fees_collector_cut_percentage = self.fees_collector_cut_percentage().get();
            let cut_amount = &total_fee * fees_collector_cut_percentage / MAX_PERCENTAGE;
            let reminder = &total_fee - &cut_amount;
"""

# id: (Props modules (K<name>), kind, description, edits [, groups whose definitions are judged])
CASES = {
 # ---------------------------------------------------------------- part A: harmless
 "A01": ("EnergyFactory", "H", "h12_A3_1: the unlock-epoch block of lockTokens / extendLockPeriod / lockVirtual extracted into a helper "
         "method of another file of the crate (translate-and-inline)", [H12]),
 "A02": ("Boosted", "H", "h19_A4_3: commuted operands + a shared named local declared BEFORE the fragment's start marker "
         "(backward slice of the pure `let`)", [H19]),
 "A03": ("Loops", "H", "weighted_average: outer accumulator `weight_sum` renamed `total_weight` (alphabetical order would permute)",
         [(TMH, "weight_sum", "total_weight", "all-but-elem")]),
 "A04": ("Loops", "H", "weighted_average: outer accumulator `elem_weight_sum` renamed `zz_products`",
         [(TMH, "elem_weight_sum", "zz_products", "all")]),
 "A05": ("EnergyFactory", "H", "reduce_lock_period_common: two statements extracted into a new helper `epochs_since_month_start(epoch)` "
         "(argument is a differently named local)",
         [(UWP, MONTH_OLD, MONTH_NEW), (UWP, "    fn calculate_penalty_percentage_partial_unlock(", MONTH_FN)]),
 "A06": ("EnergyFactory", "H", "reduce_lock_period: alias local `let paid = payment.amount.clone();` declared before the fragment and used in it",
         [(UWP, "        let amount_to_burn = &payment.amount - &penalty_amount;",
           "        let amount_to_burn = &paid - &penalty_amount;"),
          (UWP, "        let unlocked_tokens = reduce_result.unlocked_tokens;",
           "        let paid = payment.amount.clone();\n        let unlocked_tokens = reduce_result.unlocked_tokens;")]),
 "A07": ("Pair", "H", "send_fee: named local `total_fee` declared in the OUTER block before the fragment, used twice inside",
         [(FEE, FEE_OLD, FEE_NEW)]),
 "A08": ("EnergyFactory", "H", "h12 the other way round is the unchanged tree; here: h12 AND the helper's local renamed + comparison flipped",
         [H12, (LO, """        let unlock_epoch = self.unlock_epoch_to_start_of_month(current_epoch + lock_epochs);
        require!(
            unlock_epoch > current_epoch,
            "Unlock epoch must be greater than the current epoch"
        );

        unlock_epoch
    }""", """        let rounded = self.unlock_epoch_to_start_of_month(lock_epochs + current_epoch);
        require!(
            current_epoch < rounded,
            "Unlock epoch must be greater than the current epoch"
        );

        rounded
    }""")]),
 # ---------------------------------------------------------------- part A: real changes
 "AR1": ("EnergyFactory", "R", "h12 + the extracted helper's guard weakened (`>` -> `>=`)",
         [H12, (LO, "            unlock_epoch > current_epoch,\n            \"Unlock epoch must be greater than the current epoch\"\n        );\n\n        unlock_epoch\n",
                "            unlock_epoch >= current_epoch,\n            \"Unlock epoch must be greater than the current epoch\"\n        );\n\n        unlock_epoch\n")]),
 "AR2": ("Boosted", "R", "h19 + the shared local is a SUM instead of a product",
         [H19, (BY, "let rewards_by_user_farm = &weekly_reward.amount * &self.user_farm_amount;",
                "let rewards_by_user_farm = &weekly_reward.amount + &self.user_farm_amount;")]),
 "AR3": ("EnergyFactory", "R", "A05 with the helper subtracting the wrong way round",
         [(UWP, MONTH_OLD, MONTH_NEW), (UWP, "    fn calculate_penalty_percentage_partial_unlock(", MONTH_FN_BAD)]),
 "AR4": ("Pair", "R", "A07 with `total_fee = fee_amount + 1`",
         [(FEE, FEE_OLD, FEE_NEW.replace("let total_fee = fee_amount.clone();", "let total_fee = fee_amount + 1u64;"))]),
 "AR5": ("Loops", "R", "A03 (accumulator renamed) + the weight sum accumulates the VALUE",
         [(TMH, "weight_sum", "total_weight", "all-but-elem"), (TMH, "total_weight += &item.weight;", "total_weight += &item.value;")]),
 "AR6": ("EnergyFactory", "R", "A06 with the alias naming the WRONG amount (`unlocked_tokens.amount`)",
         [(UWP, "        let amount_to_burn = &payment.amount - &penalty_amount;",
           "        let amount_to_burn = &paid - &penalty_amount;"),
          (UWP, "        let new_locked_tokens = self.lock_tokens(unlocked_tokens, new_unlock_epoch);",
           "        let paid = unlocked_tokens.amount.clone();\n        let new_locked_tokens = self.lock_tokens(unlocked_tokens, new_unlock_epoch);")]),
}

# part B cases are appended by the file  notes/translator2-session4-casesB.py  when it exists
_pb = os.path.join(os.path.dirname(os.path.abspath(__file__)), "translator2-session4-casesB.py")
if os.path.exists(_pb):
    spec = importlib.util.spec_from_file_location("casesB", _pb)
    modb = importlib.util.module_from_spec(spec); spec.loader.exec_module(modb)
    CASES.update(modb.CASES)


def old_cases():
    p = os.path.join(os.path.dirname(os.path.abspath(__file__)), "translator-session4-cases.py")
    spec = importlib.util.spec_from_file_location("cases4", p)
    m = importlib.util.module_from_spec(spec); spec.loader.exec_module(m)
    return {"S4-" + k: v for k, v in m.CASES.items()}


def sh(cmd, cwd=None):
    return subprocess.run(cmd, shell=True, cwd=cwd, capture_output=True, text=True)


def sync():
    os.makedirs(ROOT, exist_ok=True)
    for d in ("bin", "harness/Cargo.toml", "kernels.json", "kernels.sig.json"):
        os.makedirs(os.path.dirname(os.path.join(ROOT, d)), exist_ok=True)
        sh(f"rm -rf {ROOT}/{d}; cp -a {MAIN}/{d} {ROOT}/{d}")
    if not os.path.exists(os.path.join(ROOT, "lean", ".lake")):
        sh(f"rm -rf {ROOT}/lean; cp -a {MAIN}/lean {ROOT}/lean")
    else:
        sh(f"rsync -a --delete --exclude .lake {MAIN}/lean/ {ROOT}/lean/")


def apply(edits):
    for ed in edits:
        if ed[0] == "PATCH":
            r = sh(f"git apply {ed[1]}", WT)
            if r.returncode != 0:
                return f"patch {ed[1]}: {r.stderr[:200]}"
            continue
        f, old, new = ed[:3]
        p = os.path.join(WT, f)
        t = open(p).read()
        if len(ed) > 3 and ed[3] == "all":
            if old not in t: return f"{f}: `{old}` not found"
            t = t.replace(old, new)
        elif len(ed) > 3 and ed[3] == "all-but-elem":
            import re
            t2 = re.sub(r"(?<![A-Za-z0-9_])" + re.escape(old) + r"(?![A-Za-z0-9_])", new, t)
            if t2 == t: return f"{f}: `{old}` not found"
            t = t2
        else:
            if t.count(old) != 1:
                return f"{f}: edit does not apply uniquely ({t.count(old)})"
            t = t.replace(old, new)
        open(p, "w").write(t)
    return None


def main():
    argv = sys.argv[1:]
    if "--sync" in argv:
        sync(); argv.remove("--sync")
    cases = dict(CASES)
    if "--old" in argv:
        argv.remove("--old"); cases.update(old_cases())
        ids = argv or sorted(k for k in cases if k.startswith("S4-"))
    else:
        ids = argv or sorted(CASES)
    out_p = os.path.join(MAIN, "work", "ktest5", "results.json")
    os.makedirs(os.path.dirname(out_p), exist_ok=True)
    res = json.load(open(out_p)) if os.path.exists(out_p) else {}
    snap = json.load(open(os.path.join(ROOT, "kernels.sig.json")))
    for cid in ids:
        grp, kind, desc, edits = cases[cid][:4]
        watch = cases[cid][4] if len(cases[cid]) > 4 else None      # groups whose definitions are judged (default: all)
        sh("git checkout -q -- . && git clean -fdq", WT)
        err = apply(edits)
        if err:
            res[cid] = {"group": grp, "kind": kind, "desc": desc, "applied": False, "error": err}
            print(cid, "NOT APPLIED", err)
            continue
        sh(f"python3 bin/gen-kernels --repo {WT}", ROOT)
        rep = json.load(open(os.path.join(ROOT, "work", "kernels.report.json")))
        unsup = [k for k, v in rep.items() if v["status"] != "translated"]
        iface = [k for k, v in rep.items() if v["status"] == "translated" and k in snap and
                 any(snap[k].get(f) != v.get(f) for f in ("params", "returns", "mutates", "loops"))]
        other = []
        if watch is not None:
            other = [k for k in unsup + iface if k.split(".")[0] not in watch]
            unsup = [k for k in unsup if k.split(".")[0] in watch]
            iface = [k for k in iface if k.split(".")[0] in watch]
        mods = " ".join(f"MxModel.Props.K{g}" for g in grp.split("+"))
        b = sh(f"lake build {mods}", os.path.join(ROOT, "lean"))
        errs = [l for l in (b.stdout + b.stderr).splitlines() if l.startswith("error:") and ".lean:" in l]
        builds = b.returncode == 0
        if kind == "H":
            verdict = "ok" if builds and not unsup and not iface else "IFACE-CHANGED" if iface and not unsup else "FALSE-ALARM"
        else:
            verdict = "caught" if (not builds) and not unsup else "UNSUPPORTED" if unsup else "MISSED"
        res[cid] = {"group": grp, "kind": kind, "desc": desc, "applied": True, "unsupported": unsup, "interface_changed": iface,
                    "builds": builds, "first_error": errs[0] if errs else "", "verdict": verdict, "other_groups_affected": other}
        print(cid, grp, kind, verdict, (errs[0][:120] if errs else ""), unsup or "", ("iface:" + ",".join(iface)) if iface else "", flush=True)
        json.dump(res, open(out_p, "w"), indent=1)
    sh("git checkout -q -- . && git clean -fdq", WT)
    sh("python3 bin/gen-kernels", ROOT)


if __name__ == "__main__":
    main()
