/-
  Driver of the `fees` world: replays an ops file through `Mx.Fees.step` and prints one result
  line per op line (byte-identical to what harness/src/bin/w_fees.rs prints for the real
  fees-collector + energy-factory).  Core/Driver imports only.

  header : W fees epoch=<e0> lock=<lockEpochs> users=<n> known=<t,t,…>
  ops    : deposit <addr> <tok> <nonce> <amount>        claim <addr> <orig|->      claimB <addr> <orig|->
           updateEnergy <user>                           fop <user> <free text…> = ok <E> <last> <T> | = err
           setPerBlock <n>   addToken <t>   removeToken <t>   addContract <addr>   removeContract <addr>
           allowExternal <user> <0|1>   pause <0|1>   advance <epochs>
  addresses: u<i> → i, d<i> → 100+i, p<i> → 200+i
-/
import MxModel.Core.FeesCollector
import MxModel.Driver.Proto

open Mx Mx.Weekly Mx.Fees Mx.Proto

namespace Mx.FeesDriver
abbrev FSt := Mx.Fees.St
end Mx.FeesDriver

namespace Mx.FeesDriver

/-- number of token roles printed (0 = locked, 1..3 fungible) -/
def NTOK : Nat := 4
/-- how many bucket ids past `firstBucketId` are printed -/
def BUCKET_SPAN : Nat := 216

structure D where
  s : FSt
  users : Nat

def parseAddr (t : String) : Option Nat :=
  match t.toList with
  | 'u' :: r => (String.ofList r).toNat?
  | 'd' :: r => (String.ofList r).toNat?.map (· + 100)
  | 'p' :: r => (String.ofList r).toNat?.map (· + 200)
  | _ => none

def parseOpt (t : String) : Option (Option Nat) :=
  if t = "-" then some none else (parseAddr t).map some

/-- the tokens after the first `=` of a `fop` line -/
def afterEq : List String → List String
  | [] => []
  | "=" :: r => r
  | _ :: r => afterEq r

def parseOp : List String → Option Op
  | ["deposit", c, t, n, a] => do
      pure (.deposit (← parseAddr c) (← t.toNat?) (← n.toNat?) (← a.toNat?))
  | ["claim", c, o] => do pure (.claim (← parseAddr c) (← parseOpt o))
  | ["claimB", c, o] => do pure (.claimBoosted (← parseAddr c) (← parseOpt o))
  | ["updateEnergy", u] => do pure (.updateEnergy (← parseAddr u))
  | "fop" :: u :: rest =>
      match afterEq rest with
      | ["ok", e, l, t] => do pure (.setEnergy (← parseAddr u) ⟨← e.toInt?, ← l.toNat?, ← t.toNat?⟩)
      | _ => none
  | ["setPerBlock", n] => do pure (.setPerBlock (← n.toNat?))
  | ["addToken", t] => do pure (.addToken (← t.toNat?))
  | ["removeToken", t] => do pure (.removeToken (← t.toNat?))
  | ["addContract", c] => do pure (.addContract (← parseAddr c))
  | ["removeContract", c] => do pure (.removeContract (← parseAddr c))
  | ["allowExternal", u, b] => do pure (.allowExternal (← parseAddr u) (b = "1"))
  | ["pause", b] => some (.pause (b = "1"))
  | ["advance", n] => do pure (.advance (← n.toNat?))
  | _ => none

def showPays (l : List (Tok × Nat)) (sep : String) : String :=
  if l.isEmpty then "-" else sep.intercalate (l.map fun p => s!"{p.1}:{p.2}")

def showEnergy (e : Energy) : String := s!"{e.amount}:{e.lastUpdateEpoch}:{e.totalLocked}"

def showWeek (s : FSt) (k : Nat) : String :=
  let acc := joinNats ((List.range NTOK).map fun t => s.a.accumulated k t)
  s!" w{k}={s.w.totalEnergy k}/{s.w.totalLocked k}/{showPays (s.w.totalRewards k) "+"}/{acc}"

def showBuckets (s : FSt) : String :=
  let ids := (List.range BUCKET_SPAN).map (· + s.w.firstBucketId)
  let l := ids.filterMap fun i =>
    let b := s.w.buckets i
    if b.tokens = 0 ∧ b.surplus = 0 then none else some s!"{i}:{b.tokens}:{b.surplus}"
  if l.isEmpty then "-" else "+".intercalate l

def showUser (s : FSt) (i : Nat) : String :=
  let p := match s.w.progress i with
    | some p => s!"{p.week}:{showEnergy p.energy}"
    | none => "-"
  let e := match s.energy i with
    | some e => showEnergy e
    | none => "-"
  s!" u{i}={p} e{i}={e}"

/-- a per-(week, token) ledger over the weeks `0 … W` and the tokens `0 … NTOK-1`: `week.token:value` of the non-zero
    entries, ascending by week then token, `-` if none -/
def showLedger2 (f : Nat → Tok → Nat) (W : Nat) : String :=
  let l := (List.range (W + 1)).flatMap fun w => (List.range NTOK).filterMap fun t =>
    if f w t = 0 then none else some s!"{w}.{t}:{f w t}"
  if l.isEmpty then "-" else ",".intercalate l

/-- the ghost ledgers C10 talks about (`a.collected`, `a.paid`), ALL weeks, in the format of the harness's own ledgers
    (`w_fees.rs`: `collected`, `paid`, built from the real contract's views and returned payments) -/
def showGhosts (s : FSt) (W : Nat) : String :=
  s!" led=coll:{showLedger2 s.a.collected W};paid:{showLedger2 s.a.paid W}"

def showState (d : D) : String :=
  let s := d.s
  let W := (s.week).getD 0
  let lo := W - 6
  let weeks := (List.range (W - lo + 1)).map (· + lo)
  s!"ep={s.epoch} wk={W} lgw={s.w.lastGlobalUpdateWeek} fb={s.w.firstBucketId} law={s.lastAddWeek} " ++
  s!"pb={s.perBlock} paused={if s.paused then 1 else 0} toks={joinNats s.a.allTokens} " ++
  s!"bal={joinNats ((List.range NTOK).map s.bal)} lm={s.lockedMinted}" ++
  String.join (weeks.map (showWeek s)) ++ s!" bk={showBuckets s}" ++
  String.join ((List.range d.users).map fun i => showUser s (i + 1)) ++ showGhosts s W

/-! Speed only: the model's maps are closures that grow by one layer per update, and printing the
    state reads a few hundred keys through them.  After every successful op the driver re-tabulates
    the hot maps over the window it prints; keys outside the window still go to the old closure,
    so the function is extensionally the SAME — nothing of the model's behaviour changes. -/

def tabulate {α : Type} (f : Nat → α) (lo n : Nat) : Array α :=
  (Array.range n).map fun i => f (lo + i)

def lookupTab {α : Type} (arr : Array α) (lo : Nat) (f : Nat → α) (k : Nat) : α :=
  if h : lo ≤ k ∧ k - lo < arr.size then arr[k - lo]'h.2 else f k

def tabulate2 (f : Nat → Tok → Nat) (nW : Nat) : Array (Array Nat) :=
  (Array.range nW).map fun w => (Array.range NTOK).map fun t => f w t

def lookupTab2 (arr : Array (Array Nat)) (f : Nat → Tok → Nat) (w : Nat) (t : Tok) : Nat :=
  if h : w < arr.size then
    if h2 : t < (arr[w]'h).size then (arr[w]'h)[t]'h2 else f w t
  else f w t

def compact (s : FSt) : FSt :=
  let g := s.w
  let W := (s.week).getD 0
  let lo := W - 8
  let bk := tabulate g.buckets g.firstBucketId BUCKET_SPAN
  let te := tabulate g.totalEnergy lo 10
  let tl := tabulate g.totalLocked lo 10
  let tr := tabulate g.totalRewards lo 10
  -- the ghost ledgers are printed for ALL weeks `0 … W` (`showGhosts`)
  let co := tabulate2 s.a.collected (W + 2)
  let pd := tabulate2 s.a.paid (W + 2)
  { s with w := { g with buckets := lookupTab bk g.firstBucketId g.buckets
                         totalEnergy := lookupTab te lo g.totalEnergy
                         totalLocked := lookupTab tl lo g.totalLocked
                         totalRewards := lookupTab tr lo g.totalRewards }
           a := { s.a with collected := lookupTab2 co s.a.collected
                           paid := lookupTab2 pd s.a.paid } }

def parseKnown (ws : List String) : List Tok :=
  match kv ws "known" with
  | some v => (v.splitOn ",").filterMap String.toNat?
  | none => []

def initOf (ws : List String) : D :=
  let epoch := (kvNat ws "epoch").getD 5
  let lock := (kvNat ws "lock").getD 1440
  let users := (kvNat ws "users").getD 3
  ⟨Fees.init epoch lock (parseKnown ws) [101] [201], users⟩

def handle (d : D) (line : String) : D × Option String :=
  match words line with
  | "W" :: rest => (initOf rest, some (" ".intercalate ("W" :: rest)))
  | "O" :: n :: rest =>
      match (parseOp rest).bind (step d.s) with
      | some (s', o) =>
          let d' : D := { d with s := compact s' }
          (d', some s!"R {n} ok pays={showPays o.pays ","} | {showState d'}")
      | none => (d, some s!"R {n} err")
  | "Q" :: n :: _ => (d, some s!"V {n} err")
  | _ => (d, none)

end Mx.FeesDriver

def main : IO Unit :=
  Mx.Proto.mainLoop (⟨Mx.Fees.init 5 1440 [1, 2] [101] [201], 3⟩ : Mx.FeesDriver.D) Mx.FeesDriver.handle
