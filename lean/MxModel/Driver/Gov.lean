/-
  Driver of the `gov` world: replays an ops file through `Mx.Gov.step` and prints one result
  line per op line (byte-identical to harness/src/bin/w_gov.rs).  Import-free apart from
  Core/Driver modules.
-/
import MxModel.Core.Governance
import MxModel.Driver.Proto

open Mx Mx.Gov Mx.Proto

namespace Mx.GovDriver

def parseVote : String → Option Vote
  | "up" => some .up
  | "down" => some .down
  | "veto" => some .veto
  | "abstain" => some .abstain
  | _ => none

def parseCfg : String → Nat → Option CfgOp
  | "minEnergy", x => some (.minEnergy x)
  | "minFee", x => some (.minFee x)
  | "quorum", x => some (.quorum x)
  | "delay", x => some (.delay x)
  | "period", x => some (.period x)
  | "wpct", x => some (.wpct x)
  | _, _ => none

def parseOp : List String → Option Op
  | ["propose", c, fee] => do pure (.propose (← c.toNat?) (← fee.toNat?))
  | ["vote", c, id, v] => do pure (.vote (← c.toNat?) (← id.toNat?) (← parseVote v))
  | ["cancel", c, id] => do pure (.cancel (← c.toNat?) (← id.toNat?))
  | ["withdraw", c, id] => do pure (.withdraw (← c.toNat?) (← id.toNat?))
  | ["cfg", k, x] => do pure (.cfg (← parseCfg k (← x.toNat?)))
  | ["setEnergy", u, e] => do pure (.setEnergy (← u.toNat?) (← e.toNat?))
  | ["setTotal", x] => do pure (.setTotal (← x.toNat?))
  | ["claim", u] => do pure (.claim (← u.toNat?))
  | ["advance", b] => do pure (.advance (← b.toNat?))
  | _ => none   -- `bad …` lines: malformed calls, always rejected

def showStatus : Status → String
  | .none => "none"
  | .pending => "pending"
  | .active => "active"
  | .defeated => "defeated"
  | .vetoed => "vetoed"
  | .succeeded => "succeeded"

def showProposal (s : St) (i : Nat) (p : Proposal) : String :=
  if p.cleared then s!"P{i + 1}=none" else
  let voters := ";".intercalate (((List.range s.n).map (· + 1)).filter (· ∈ p.voters) |>.map toString)
  s!"P{i + 1}={showStatus (s.status (i + 1))},{p.proposer},{p.fee},{p.minQuorum},{p.delay},{p.period}," ++
  s!"{p.wpct},{p.totalQuorum},{p.start},{if p.withdrawn then 1 else 0},{p.up},{p.down},{p.veto}," ++
  s!"{p.abstain},{p.quorum},v:{voters}"

def showState (s : St) : String :=
  let ps := (List.zip (List.range s.props.length) s.props).map fun (i, p) => " " ++ showProposal s i p
  let us := (List.range s.n).map fun i => s!" u{i + 1}={s.wallet (i + 1)},{s.energy (i + 1)}"
  s!"blk={s.block} cfg={s.minEnergy},{s.minFee},{s.quorumPct},{s.delay},{s.period},{s.wpct} " ++
  s!"bal={s.bal} burned={s.burned} total={s.total} np={s.props.length}" ++
  String.join ps ++ String.join us

def initOf (ws : List String) : St :=
  let g (k : String) (d : Nat) := (kvNat ws k).getD d
  Gov.init (g "minEnergy" 0) (g "minFee" 0) (g "quorum" 4000) (g "delay" 1) (g "period" 14400)
    (g "wpct" 5000) (g "users" 4) (10 ^ 33)

def view (s : St) : List String → Option String
  | ["status", id] => do pure (showStatus (s.status (← id.toNat?)))
  | ["votes", id] => do
      let p ← s.get? (← id.toNat?)
      if p.cleared then none else
      pure s!"{p.up} {p.down} {p.veto} {p.abstain} {p.quorum}"
  | _ => none

def handle (s : St) (line : String) : St × Option String :=
  match words line with
  | "W" :: rest => (initOf rest, some (" ".intercalate ("W" :: rest)))
  | "O" :: n :: rest =>
      match (parseOp rest).bind (step s) with
      | some (s', o) => (s', some s!"R {n} ok {o.v1} {o.v2} {o.v3} | {showState s'}")
      | none => (s, some s!"R {n} err")
  | "Q" :: n :: rest =>
      match view s rest with
      | some v => (s, some s!"V {n} ok {v}")
      | none => (s, some s!"V {n} err")
  | _ => (s, none)

end Mx.GovDriver

def main : IO Unit :=
  Mx.Proto.mainLoop (Mx.Gov.init 0 0 4000 1 14400 5000 0 0) Mx.GovDriver.handle
