/-
  Driver of the `energy` world: replays an ops file through `Mx.Energy.step` and prints one
  result line per op line.  Must stay import-free apart from Core/Driver modules.
-/
import MxModel.Core.Energy
import MxModel.Driver.Proto

open Mx Mx.Energy Mx.Proto

namespace Mx.EnergyDriver

/-- `n:a,n:a` (or `-`) -/
def parsePairs (sep : String) (t : String) : Option (List (Nat × Nat)) :=
  if t = "-" then some [] else
  (t.splitOn sep).mapM fun w =>
    match w.splitOn ":" with
    | [a, b] => do pure (← a.toNat?, ← b.toNat?)
    | _ => none

def parseOp : List String → Option Op
  | ["lock", c, amt, ep, d] => do pure (.lock (← c.toNat?) (← amt.toNat?) (← ep.toNat?) (← d.toNat?))
  | ["extend", c, n, amt, ep, d] => do
      pure (.extend (← c.toNat?) (← n.toNat?) (← amt.toNat?) (← ep.toNat?) (← d.toNat?))
  | ["unlock", c, ps] => do pure (.unlock (← c.toNat?) (← parsePairs "," ps))
  | ["merge", c, o, ps] => do pure (.merge (← c.toNat?) (← o.toNat?) (← parsePairs "," ps))
  | ["unlockEarly", c, n, amt] => do pure (.unlockEarly (← c.toNat?) (← n.toNat?) (← amt.toNat?))
  | ["reduce", c, n, amt, ep] => do
      pure (.reduce (← c.toNat?) (← n.toNat?) (← amt.toNat?) (← ep.toNat?))
  | ["lockVirtual", c, amt, ep, d, ea] => do
      pure (.lockVirtual (← c.toNat?) (← amt.toNat?) (← ep.toNat?) (← d.toNat?) (← ea.toNat?))
  | ["claim", c] => do pure (.claim (← c.toNat?))
  | ["cancel", c] => do pure (.cancel (← c.toNat?))
  | ["lockFunds", c, r, ps] => do pure (.lockFunds (← c.toNat?) (← r.toNat?) (← parsePairs "," ps))
  | ["withdraw", c, sd] => do pure (.withdraw (← c.toNat?) (← sd.toNat?))
  | ["cancelTransfer", sd, r] => do pure (.cancelTransfer (← sd.toNat?) (← r.toNat?))
  | ["wrap", c, n, amt] => do pure (.wrap (← c.toNat?) (← n.toNat?) (← amt.toNat?))
  | ["unwrap", c, wn, amt] => do pure (.unwrap (← c.toNat?) (← wn.toNat?) (← amt.toNat?))
  | ["xferWrapped", c, t, wn, amt] => do
      pure (.xferWrapped (← c.toNat?) (← t.toNat?) (← wn.toNat?) (← amt.toNat?))
  | ["addOptions", ps] => do pure (.cfg (.addOptions (← parsePairs "," ps)))
  | ["setBurnPct", p] => do pure (.cfg (.setBurnPct (← p.toNat?)))
  | ["pause", b] => do pure (.cfg (.pause (b = "1")))
  | ["whitelist", c] => do pure (.cfg (.whitelist (← c.toNat?)))
  | ["unwhitelist", c] => do pure (.cfg (.unwhitelist (← c.toNat?)))
  | ["advance", e] => do pure (.advance (← e.toNat?))
  | _ => none      -- includes the `bad …` (malformed call) ops: they must fail

def orDash (s : String) : String := if s.isEmpty then "-" else s

def showNats (l : List Nat) : String := orDash (joinNats l)

def showPairs (sep : String) (l : List (Nat × Nat)) : String :=
  orDash (sep.intercalate (l.map fun p => s!"{p.1}:{p.2}"))

/-- non-zero entries of a balance row over nonces `1 … n` -/
def showRow (f : Nat → Nat) (n : Nat) : String :=
  showPairs "," (((List.range n).map fun k => (k + 1, f (k + 1))).filter fun p => p.2 ≠ 0)

def showRaw : Option Entry → String
  | none => "-"
  | some e => s!"{e.E},{e.last},{e.T}"

def showQueue (q : List UEntry) : String :=
  orDash (";".intercalate (q.map fun e => s!"{e.unlock},{e.nonce},{e.locked},{e.unlocked}"))

/-- the harness id of the FARM contract account (a real SC account there; in the model every address
    below `SCBASE` that is not a user is an ordinary holder / caller / energy address) -/
def FARM : Nat := 9

/-- one account: base balance, raw stored entry, view entry, locked row, wrapped row, unbond queue -/
def showAcct (name : String) (s : St) (u : Nat) : String :=
  let v := s.view u
  s!"{name}={s.base u}/{showRaw (s.energy u)}/{v.E},{v.T},{v.amount}/" ++
  s!"{showRow (s.bal u) s.nonces.length}/{showRow (s.wbal u) s.wnonces.length}/{showQueue (s.queue u)}"

def showUser (s : St) (u : Nat) : String := showAcct s!"u{u}" s u

/-- insertion sort of the pending transfers by (receiver, sender) -/
def insX (x : Xfer) : List Xfer → List Xfer
  | [] => [x]
  | y :: ys => if x.recv < y.recv ∨ (x.recv = y.recv ∧ x.sender ≤ y.sender) then x :: y :: ys else y :: insX x ys

def sortX : List Xfer → List Xfer
  | [] => []
  | x :: xs => insX x (sortX xs)

def showXfers (l : List Xfer) : String :=
  orDash (";".intercalate ((sortX l).map fun x => s!"{x.recv},{x.sender},{x.epoch},{showPairs "+" x.funds}"))

def showLast (f : Nat → Option Nat) (n : Nat) : String :=
  orDash (",".intercalate ((List.range n).filterMap fun k =>
    match f (k + 1) with
    | some e => some s!"{k + 1}:{e}"
    | none => none))

def showState (s : St) (n : Nat) : String :=
  let nn := s.nonces.length
  let sce := if [FACTORY, UNSTAKE, TRANSFER, WRAPPER, COLLECTOR].all (fun a => (s.energy a).isNone) then "0" else "1"
  s!"ep={s.epoch} ps={if s.paused then 1 else 0} N={showNats s.nonces} WN={showNats s.wnonces} " ++
  s!"opts={showPairs "," s.opts} bp={s.burnPct} wl={showNats ((List.range SCBASE).filter (· ∈ s.wl))} " ++
  " ".intercalate ((List.range n).map fun k => showUser s (k + 1)) ++
  s!" fac={showRow (s.bal FACTORY) nn} un={showRow (s.bal UNSTAKE) nn}/{s.base UNSTAKE} " ++
  s!"tr={showRow (s.bal TRANSFER) nn} wr={showRow (s.bal WRAPPER) nn} x={showXfers s.xfers} " ++
  s!"sl={showLast s.sendLast n} rl={showLast s.recvLast n} sce={sce} " ++
  s!"bs={s.baseSupply} ci={s.circ} pp={s.pendingPenalty} pb={s.penBurned} co={s.collected} " ++
  s!"mu={s.mintUnlock} me={s.mintEarly} bl={s.burnLock} bc={s.burnCancel} vl={s.virtLocked} " ++
  showAcct "farm" s FARM

def initOf (ws : List String) : St × Nat :=
  let n := (kvNat ws "users").getD 3
  let opts := ((kv ws "opts").bind (parsePairs ",")).getD [(360, 4000), (720, 6000), (1440, 8000)]
  (Energy.init { epoch := (kvNat ws "ep").getD 1, opts := opts,
                 unbond := (kvNat ws "unbond").getD 10, burnPct := (kvNat ws "burn").getD 5000,
                 minLock := (kvNat ws "minlock").getD 4, cooldown := (kvNat ws "cooldown").getD 6,
                 users := n, funds := (kvNat ws "funds").getD 0 }, n)

def view (s : St) : List String → Option String
  | ["penalty", amt, prev, new] => do
      let v ← penaltyAmount s.opts (← amt.toNat?) (← prev.toNat?) (← new.toNat?)
      pure (toString v)
  | ["energy", u] => do
      let e := s.view (← u.toNat?)
      pure s!"{e.E} {e.last} {e.T} {e.amount}"
  | _ => none

def handle (sn : St × Nat) (line : String) : (St × Nat) × Option String :=
  let (s, n) := sn
  match words line with
  | "W" :: rest => (initOf rest, some (" ".intercalate ("W" :: rest)))
  | "O" :: k :: rest =>
      match (parseOp rest).bind (step s) with
      | some (s', o) => ((s', n), some s!"R {k} ok {o.v1} {o.v2} {o.v3} | {showState s' n}")
      | none => (sn, some s!"R {k} err")
  | "Q" :: k :: rest =>
      match view s rest with
      | some v => (sn, some s!"V {k} ok {v}")
      | none => (sn, some s!"V {k} err")
  | _ => (sn, none)

end Mx.EnergyDriver

def main : IO Unit :=
  Mx.Proto.mainLoop (Mx.EnergyDriver.initOf []) Mx.EnergyDriver.handle
