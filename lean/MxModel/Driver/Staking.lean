/-
  Driver of the `staking` world: replays an ops file through `Mx.Staking.step` and prints one
  result line per op line (byte-identical to what harness/src/bin/w_staking.rs prints for the real
  farm-staking contract + energy-factory-mock + permissions-hub).  Core/Driver imports only.

  header : W staking epoch=<e0> block=<b0> dsc=<d> apr=<a> mu=<minUnbond> pb=<perBlock> users=<n>
  accounts: u<i> → i (users), p1 → 101 (on the SC whitelist), p2 → 102 (not whitelisted); `-` = none
  payments: <nonce>:<amount>
  ops    : stake <c> <orig|-> <amt> [pay…]            stakeProxy <c> <orig> <amt> [pay…]
           stakeBehalf <c> <user> <amt> [pay…]        claim <c> <orig|-> <pay>
           claimNew <c> <orig> <new> <pay>            claimBehalf <c> <pay> [pay…]
           compound <c> <pay> [pay…]                  unstake <c> <orig|-> <pay>
           unstakeProxy <c> <orig> <x> <pay>          unbond <c> <pay>
           merge <c> <pay> [pay…]                     claimBoosted <c> <user|->
           transfer <from> <to> <pay>                 setEnergy <u> <amount> <locked>     updEnergy <u>
           topUp <x>  withdraw <x>  setApr <x>  setPerBlock <x>  startProduce  endProduce
           setMinUnbond <e>  setPct <p>  setFactors <maxF> <cE> <cF> <minE> <minF>  collectUndist
           pause  resume  hubWl <user> <addr>  hubRm <user> <addr>  advance <blocks> <epochs>
           calcAsUser <amt> <rps> <comp> <cur> <owner>     (the view called by a plain account: must fail)
           calcAsProxy <amt> <rps> <comp> <cur> <owner>    (… by the whitelisted contract p1 in a transaction: must fail too)
           bad …                                            (malformed call: must fail)
  views  : Q <n> calc <amt> <rps> <comp> <cur> <owner>      (VM query: evaluated on a twin world by the harness, discarded here)
-/
import MxModel.Core.Staking
import MxModel.Driver.Proto

open Mx Mx.Weekly Mx.Staking Mx.Proto

namespace Mx.StakingDriver

abbrev SSt := Mx.Staking.St

/-- how many bucket ids past `firstBucketId` are printed -/
def BUCKET_SPAN : Nat := 216

def parseAddr (t : String) : Option Nat :=
  match t.toList with
  | 'u' :: r => (String.ofList r).toNat?
  | 'p' :: r => (String.ofList r).toNat?.map (· + 100)
  | 'z' :: _ => some 0
  | _ => none

def parseOpt (t : String) : Option (Option Nat) :=
  if t = "-" then some none else (parseAddr t).map some

def nameOf (i : Nat) : String :=
  if i = 0 then "z" else if i > 100 then s!"p{i - 100}" else s!"u{i}"

def parsePay (t : String) : Option Pay :=
  match t.splitOn ":" with
  | [a, b] => do pure (← a.toNat?, ← b.toNat?)
  | _ => none

def parsePays (ts : List String) : Option (List Pay) := ts.mapM parsePay

def parseAttrs (r c a o : String) : Option Attrs := do
  pure ⟨← r.toNat?, ← c.toNat?, ← a.toNat?, ← parseAddr o⟩

def parseOp : List String → Option Op
  | "stake" :: c :: o :: a :: ps => do pure (.stake (← parseAddr c) (← parseOpt o) (← a.toNat?) (← parsePays ps))
  | "stakeProxy" :: c :: o :: a :: ps => do
      pure (.stakeProxy (← parseAddr c) (← parseAddr o) (← a.toNat?) (← parsePays ps))
  | "stakeBehalf" :: c :: u :: a :: ps => do
      pure (.stakeBehalf (← parseAddr c) (← parseAddr u) (← a.toNat?) (← parsePays ps))
  | ["claim", c, o, p] => do pure (.claim (← parseAddr c) (← parseOpt o) (← parsePay p))
  | ["claimNew", c, o, nv, p] => do
      pure (.claimNew (← parseAddr c) (← parseAddr o) (← nv.toNat?) (← parsePay p))
  | "claimBehalf" :: c :: ps => do pure (.claimBehalf (← parseAddr c) (← parsePays ps))
  | "compound" :: c :: ps => do pure (.compound (← parseAddr c) (← parsePays ps))
  | ["unstake", c, o, p] => do pure (.unstake (← parseAddr c) (← parseOpt o) (← parsePay p))
  | ["unstakeProxy", c, o, x, p] => do
      pure (.unstakeProxy (← parseAddr c) (← parseAddr o) (← x.toNat?) (← parsePay p))
  | ["unbond", c, p] => do pure (.unbond (← parseAddr c) (← parsePay p))
  | "merge" :: c :: ps => do pure (.merge (← parseAddr c) (← parsePays ps))
  | ["claimBoosted", c, u] => do pure (.claimBoosted (← parseAddr c) (← parseOpt u))
  | ["transfer", a, b, p] => do pure (.transfer (← parseAddr a) (← parseAddr b) (← parsePay p))
  | ["setEnergy", u, a, l] => do pure (.setEnergy (← parseAddr u) (← a.toNat?) (← l.toNat?))
  | ["updEnergy", u] => do pure (.updateEnergy (← parseAddr u))
  | ["topUp", x] => do pure (.topUp (← x.toNat?))
  | ["withdraw", x] => do pure (.withdraw (← x.toNat?))
  | ["setApr", x] => do pure (.setMaxApr (← x.toNat?))
  | ["setPerBlock", x] => do pure (.setPerBlock (← x.toNat?))
  | ["startProduce"] => some .startProduce
  | ["endProduce"] => some .endProduce
  | ["setMinUnbond", e] => do pure (.setMinUnbond (← e.toNat?))
  | ["setPct", p] => do pure (.setBoostedPct (← p.toNat?))
  | ["setFactors", a, b, c, d, e] => do
      pure (.setFactors ⟨← a.toNat?, ← b.toNat?, ← c.toNat?, ← d.toNat?, ← e.toNat?⟩)
  | ["collectUndist"] => some .collectUndistributed
  | ["pause"] => some .pause
  | ["resume"] => some .resume
  | ["hubWl", u, a] => do pure (.hubWhitelist (← parseAddr u) (← parseAddr a))
  | ["hubRm", u, a] => do pure (.hubRemove (← parseAddr u) (← parseAddr a))
  | ["advance", b, e] => do pure (.advance (← b.toNat?) (← e.toNat?))
  | ["calcAsUser", a, r, c, cur, o] => do pure (.calc false (← a.toNat?) (← parseAttrs r c cur o))
  | ["calcAsProxy", a, r, c, cur, o] => do pure (.calc false (← a.toNat?) (← parseAttrs r c cur o))
  | ["calc", a, r, c, cur, o] => do pure (.calc true (← a.toNat?) (← parseAttrs r c cur o))
  | _ => none

def showEnergy (e : Energy) : String := s!"{e.amount}:{e.lastUpdateEpoch}:{e.totalLocked}"

def showPays (l : List (Tok × Nat)) : String :=
  if l.isEmpty then "-" else "+".intercalate (l.map fun p => s!"{p.1}:{p.2}")

def showFactors (x : Factors) : String := s!"{x.maxF},{x.cE},{x.cF},{x.minE},{x.minF}"

def showCfg (c : Option BCfg) : String :=
  match c with
  | none => "-"
  | some c => s!"{c.lastUpdateWeek}:" ++ ";".intercalate (c.f.map showFactors)

def showWeek (s : SSt) (k : Nat) : String :=
  s!" w{k}={s.b.accumulated k}/{s.b.remaining k}/{s.b.farmSupply k}/{s.w.totalEnergy k}/{s.w.totalLocked k}/{showPays (s.w.totalRewards k)}"

def showBuckets (s : SSt) : String :=
  let ids := (List.range BUCKET_SPAN).map (· + s.w.firstBucketId)
  let l := ids.filterMap fun i =>
    let b := s.w.buckets i
    if b.tokens = 0 ∧ b.surplus = 0 then none else some s!"{i}:{b.tokens}:{b.surplus}"
  if l.isEmpty then "-" else "+".intercalate l

def showAcct (s : SSt) (i : Nat) : String :=
  let p := match s.w.progress i with
    | some p => s!"{p.week}:{showEnergy p.energy}"
    | none => "-"
  let e := match s.energy i with
    | some e => showEnergy e
    | none => "-"
  s!" a{nameOf i}={s.userTotal i}/{p}/{e}"

def showTok (s : SSt) (n : Nat) : Option String :=
  let holders := s.accts.filterMap fun a =>
    if s.hold a n = 0 then none else some s!"{nameOf a}:{s.hold a n}"
  if holders.isEmpty then none
  else
    let m := match s.md n with
      | some (.pos a) => s!"P:{a.rps}:{a.compounded}:{a.amount}:{nameOf a.owner}"
      | some (.unbond e) => s!"U:{e}"
      | none => "?"
    some (s!" t{n}={m}@" ++ "+".intercalate holders)

/-- a per-week ledger over the weeks `0 … W`: `week:value` of the non-zero entries, weeks ascending, `-` if none -/
def showLedger (f : Nat → Nat) (W : Nat) : String :=
  let l := (List.range (W + 1)).filterMap fun w =>
    if f w = 0 then none else some s!"{w}:{f w}"
  if l.isEmpty then "-" else ",".intercalate l

/-- the ghost ledgers the budget / pool theorems talk about, in the format of the harness's own ledgers (`w_staking.rs`:
    `base_budget`, `boosted_budget`, `paid_base`, `paid_boosted`, `frozen`, `paid_week`, built from the real contract's deltas) -/
def showGhosts (s : SSt) : String :=
  s!" led=bud:{s.baseBudget},{s.boostedBudget};paid:{s.paidBase},{s.paidBoosted};" ++
  s!"pool:{showLedger s.b.collected s.week};pw:{showLedger s.b.paid s.week}"

def showState (s : SSt) : String :=
  let W := s.week
  let lo := W - 6
  let weeks := (List.range (W - lo + 1)).map (· + lo)
  s!"blk={s.block} ep={s.epoch} wk={W} act={if s.active then 1 else 0} rps={s.rps} res={s.reserve} " ++
  s!"sup={s.supply} last={s.lastBlock} pb={s.perBlock} prod={if s.produce then 1 else 0} " ++
  s!"pct={s.boostedPct} apr={s.maxApr} mu={s.minUnbond} cap={s.capacity} acc={s.accumulated} " ++
  s!"bal={s.bal} und={s.undistributed} lcw={s.lastCollectWeek} lgw={s.w.lastGlobalUpdateWeek} " ++
  s!"fb={s.w.firstBucketId} nonce={s.nonce} virt={s.virt} ub={s.unbondOut} " ++
  s!"paid={s.paidBase + s.paidBoosted} cfg={showCfg s.b.cfg}" ++
  String.join (weeks.map (showWeek s)) ++ s!" bk={showBuckets s}" ++
  String.join (s.accts.map (showAcct s)) ++
  String.join ((List.range s.nonce).filterMap fun i => showTok s (i + 1)) ++ showGhosts s

def initOf (ws : List String) : SSt :=
  let epoch := (kvNat ws "epoch").getD 5
  let block := (kvNat ws "block").getD 10
  let dsc := (kvNat ws "dsc").getD 1000000000000
  let apr := (kvNat ws "apr").getD 2500
  let mu := (kvNat ws "mu").getD 5
  let pb := (kvNat ws "pb").getD 5000
  let users := (kvNat ws "users").getD 3
  Staking.init epoch block dsc apr mu pb ((List.range users).map (· + 1) ++ [101, 102]) [101]

def handle (s : SSt) (line : String) : SSt × Option String :=
  match words line with
  | "W" :: rest => (initOf rest, some (" ".intercalate ("W" :: rest)))
  | "O" :: n :: rest =>
      match (parseOp rest).bind (step s) with
      | some (s', o) => (s', some s!"R {n} ok {o.a} {o.b} {o.c} | {showState s'}")
      | none => (s, some s!"R {n} err")
  | "Q" :: n :: rest =>
      match (parseOp rest).bind (step s) with
      | some (s', o) => (s', some s!"V {n} ok {o.c}")
      | none => (s, some s!"V {n} err")
  | _ => (s, none)

end Mx.StakingDriver

def main : IO Unit :=
  Mx.Proto.mainLoop (Mx.StakingDriver.initOf []) Mx.StakingDriver.handle
