/-
  Line-protocol helpers shared by the per-world drivers.  Import-free.

  ops file grammar (written by the Rust harness, the ONLY input of a driver):
    W <world> k=v k=v …        start of a new history (fresh world)
    O <n> <op> <args…>         a transaction;   result line  `R <n> ok <outs…> | <state…>` or `R <n> err`
    Q <n> <view> <args…>       a read-only view; result line  `V <n> ok <values…>`        or `V <n> err`
    # …                        comment (ignored, not echoed)
  A driver echoes `W …` lines unchanged so that streams stay aligned.
-/
namespace Mx.Proto

def words (line : String) : List String :=
  (line.trimAscii.toString.splitOn " ").filter (· ≠ "")

/-- `k=v` arguments of a `W` header -/
def kv (ws : List String) (k : String) : Option String :=
  ws.findSome? fun w =>
    match w.splitOn "=" with
    | [a, b] => if a = k then some b else none
    | _ => none

def kvNat (ws : List String) (k : String) : Option Nat := (kv ws k).bind String.toNat?

def nats (ws : List String) : Option (List Nat) := ws.mapM String.toNat?

def joinNats (l : List Nat) (sep : String := ",") : String :=
  sep.intercalate (l.map toString)

/-- read stdin line by line, thread a state, print whatever `f` returns (if non-empty) -/
partial def loop {σ : Type} (h : IO.FS.Stream) (out : IO.FS.Stream) (s : σ)
    (f : σ → String → σ × Option String) : IO Unit := do
  let line ← h.getLine
  if line.isEmpty then
    out.flush
    return ()
  let (s', o) := f s line
  match o with
  | some t => out.putStrLn t
  | none => pure ()
  loop h out s' f

def mainLoop {σ : Type} (s : σ) (f : σ → String → σ × Option String) : IO Unit := do
  let stdin ← IO.getStdin
  let stdout ← IO.getStdout
  loop stdin stdout s f

end Mx.Proto
