/-
  Driver of the `farm` world (kind=farm | fwlr in the `W` header): replays an ops file through
  `Mx.Farm.step` and prints one result line per op line.  Import-free apart from Core/Driver.
-/
import MxModel.Core.Farm
import MxModel.Core.FarmLedger
import MxModel.Driver.Proto

open Mx Mx.Farm Mx.Proto
open Mx.FarmLedger (L LOp stepL initL sameCol)

namespace Mx.FarmDriver

def parseOptNat : String → Option (Option Nat)
  | "-" => some none
  | s => s.toNat?.map some

def parsePay (s : String) : Option (Nat × Nat) :=
  match s.splitOn ":" with
  | [n, a] => do pure (← n.toNat?, ← a.toNat?)
  | _ => none

def parsePays (ws : List String) : Option (List (Nat × Nat)) := ws.mapM parsePay

def parseOp : List String → Option Op
  | "enter" :: c :: o :: a :: rest => do
      pure (.enter (← c.toNat?) (← parseOptNat o) (← a.toNat?) (← parsePays rest))
  | "enterOB" :: c :: u :: a :: rest => do
      pure (.enterOB (← c.toNat?) (← u.toNat?) (← a.toNat?) (← parsePays rest))
  | "claim" :: c :: o :: rest => do pure (.claim (← c.toNat?) (← parseOptNat o) (← parsePays rest))
  | "claimOB" :: c :: rest => do pure (.claimOB (← c.toNat?) (← parsePays rest))
  | "compound" :: c :: o :: rest => do pure (.compound (← c.toNat?) (← parseOptNat o) (← parsePays rest))
  | ["exit", c, o, p] => do
      let (n, a) ← parsePay p
      pure (.exit (← c.toNat?) (← parseOptNat o) n a)
  | "merge" :: c :: o :: rest => do pure (.merge (← c.toNat?) (← parseOptNat o) (← parsePays rest))
  | ["claimBoosted", c, u] => do pure (.claimBoosted (← c.toNat?) (← parseOptNat u))
  | ["transfer", a, b, n, x] => do pure (.transfer (← a.toNat?) (← b.toNat?) (← n.toNat?) (← x.toNat?))
  | ["setEnergy", u, a, l, t] => do pure (.setEnergy (← u.toNat?) (← a.toInt?) (← l.toNat?) (← t.toNat?))
  | ["updateEnergy", u] => do pure (.updateEnergy (← u.toNat?))
  | ["setPerBlock", c, x] => do pure (.setPerBlock (← c.toNat?) (← x.toNat?))
  | ["startProduce", c] => do pure (.startProduce (← c.toNat?))
  | ["endProduce", c] => do pure (.endProduce (← c.toNat?))
  | ["setPct", c, p] => do pure (.setPct (← c.toNat?) (← p.toNat?))
  | ["setFactors", c, m, e, f, me, mf] => do
      pure (.setFactors (← c.toNat?) ⟨← m.toNat?, ← e.toNat?, ← f.toNat?, ← me.toNat?, ← mf.toNat?⟩)
  | ["collect", c] => do pure (.collect (← c.toNat?))
  | ["pause", c] => do pure (.pause (← c.toNat?))
  | ["resume", c] => do pure (.resume (← c.toNat?))
  | ["setPenalty", c, p] => do pure (.setPenalty (← c.toNat?) (← p.toNat?))
  | ["setMinEpochs", c, n] => do pure (.setMinEpochs (← c.toNat?) (← n.toNat?))
  | ["hubWhitelist", u, a] => do pure (.hubWhitelist (← u.toNat?) (← a.toNat?))
  | ["hubRemove", u, a] => do pure (.hubRemove (← u.toNat?) (← a.toNat?))
  | ["hubBlacklist", a] => do pure (.hubBlacklist (← a.toNat?))
  | ["scWhitelist", a] => do pure (.scWhitelist (← a.toNat?))
  | ["scUnwhitelist", a] => do pure (.scUnwhitelist (← a.toNat?))
  | ["advance", b, e] => do pure (.advance (← b.toNat?) (← e.toNat?))
  | "bad" :: _ => some .bad
  | _ => none

def b01 (b : Bool) : String := if b then "1" else "0"

def showFactors (f : Factors) : String := s!"{f.maxF},{f.cE},{f.cF},{f.minE},{f.minF}"

def showCfg : Option BCfg → String
  | none => "none"
  | some c => s!"{c.lastUpdateWeek}:" ++ "/".intercalate (c.ring.map showFactors)

def showEnergy : Option Weekly.Energy → String
  | none => "-"
  | some e => s!"{e.amount},{e.lastUpdateEpoch},{e.totalLocked}"

def showProgress : Option Weekly.ClaimProgress → String
  | none => "-"
  | some p => s!"{p.week},{p.energy.amount},{p.energy.lastUpdateEpoch},{p.energy.totalLocked}"

def showRewards : List (Weekly.Tok × Nat) → String
  | [] => "-"
  | l => ",".intercalate (l.map fun p => toString p.2)

def nonces (s : St) : List Nat := (List.range s.lastNonce).map (· + 1)

def showUser (s : St) (u : Nat) : String :=
  let hs := (nonces s).filterMap fun n =>
    let h := s.hold u n
    if h = 0 then none else some s!"{n}:{h}"
  let hs := if hs.isEmpty then "-" else ",".intercalate hs
  s!"u{u}={s.userTotal u};{showProgress (s.w.progress u)};{showEnergy (s.energy u)};{hs}"

def outstanding (s : St) (n : Nat) : Nat := (s.users.map fun u => s.hold u n).sum

def showTok (s : St) (n : Nat) : Option String :=
  if outstanding s n = 0 then none
  else match s.attrs n with
    | some a => some s!"n{n}={a.rps},{a.epoch},{a.comp},{a.amt},{a.owner}"
    | none => some s!"n{n}=?"

def showWeek (s : St) (w : Nat) : String :=
  s!"{w}:{s.b.accum w},{s.b.remaining w},{s.b.farmSupplyWeek w},{s.w.totalEnergy w},{s.w.totalLocked w},{showRewards (s.w.totalRewards w)}"

/-- a per-week ledger over the weeks `1 … W`: `week:value` of the non-zero entries, weeks ascending, `-` if none -/
def showLedger (f : Nat → Nat) (W : Nat) : String :=
  let l := (List.range W).filterMap fun i =>
    let w := i + 1
    if f w = 0 then none else some s!"{w}:{f w}"
  if l.isEmpty then "-" else ",".intercalate l

/-- the ghost per-week ledgers the boosted-pool theorems talk about (`cutW`, `paidW`, `collW`), ALL weeks, in the format
    of the harness's own ledgers (`farm_common/oracle.rs`: `cut_w`, `paid_w`, `collected_w`, built from the real
    contract's observable deltas only) -/
def showGhosts (s : St) (W : Nat) : String :=
  s!"led=cut:{showLedger s.b.cutW W};paid:{showLedger s.b.paidW W};coll:{showLedger s.b.collW W}"

def showState (s : St) : String :=
  let W := (s.week).getD 0
  let lo := if W > 6 then W - 6 else 1
  let weeks := (List.range (W + 1 - lo)).map fun i => showWeek s (lo + i)
  let bal := if s.sameTok then s!"{s.balFarming + s.balReward},{s.balFarming + s.balReward}"
             else s!"{s.balFarming},{s.balReward}"
  s!"rps={s.rps} res={s.reserve} sup={s.supply} last={s.lastBlock} pb={s.perBlock} prod={b01 s.produce} " ++
  s!"pct={s.pct} act={b01 s.active} pen={s.penaltyPct},{s.minFarmingEpochs} bal={bal} blk={s.block} ep={s.epoch} wk={W} " ++
  s!"gen={s.generated} paid={s.paid} pbase={s.paidBase} pboost={s.paidBoosted} bud={s.baseBudget} burn={s.penaltyBurned} " ++
  s!"und={s.undist} lc={s.lastCollect} cfg={showCfg s.b.cfg} g={s.w.lastGlobalUpdateWeek},{s.w.firstBucketId} " ++
  "wks=" ++ " ".intercalate weeks ++ " U " ++ " ".intercalate (s.users.map (showUser s)) ++
  " T " ++ " ".intercalate ((nonces s).filterMap (showTok s)) ++ " " ++ showGhosts s W

/-- every user's wallet as the ledger (`Core/FarmLedger.lean`) keeps it: `farming,reward` balances, users in order.
    The harness prints the REAL ESDT balances (farming token; reward token for dex/farm, the sum of the LOCKED tokens
    for farm-with-locked-rewards) in the same format. -/
def showWallets (l : L) : String :=
  "rw=" ++ ";".intercalate (l.f.users.map fun u => s!"{l.w.getF (sameCol l.f) u},{l.w.rew u}")

def showStateL (l : L) : String := showState l.f ++ " " ++ showWallets l

/-- the faucet the harness runs BEFORE the transaction (`FarmWorld::prefund`): the caller of an `enter` / `enterOB` is
    topped up to the amount it sends, the caller of `bad farmingAsFarm` to 1000; accounts outside the world are ignored -/
def prefund (l : L) (ws : List String) : L :=
  let fundIt (c x : Nat) : L := match stepL l (.fund c x) with
    | some r => r.1
    | none => l
  match ws with
  | "enter" :: c :: _ :: a :: _ => fundIt (c.toNat?.getD 0) (a.toNat?.getD 0)
  | "enterOB" :: c :: _ :: a :: _ => fundIt (c.toNat?.getD 0) (a.toNat?.getD 0)
  | "bad" :: "farmingAsFarm" :: rest => fundIt ((rest.head?.bind String.toNat?).getD 1) 1000
  | _ => l

def initOf (ws : List String) : L :=
  let kind := if kv ws "kind" = some "fwlr" then Kind.noMint else Kind.mint
  let same := kvNat ws "same" = some 1
  let dsc := (kvNat ws "dsc").getD 1000000000000
  let pb := (kvNat ws "pb").getD 1000
  let produce := (kvNat ws "produce").getD 1 = 1
  let n := (kvNat ws "users").getD 3
  let e0 := (kvNat ws "epoch0").getD 0
  initL kind same dsc pb produce ((List.range n).map (· + 1)) e0

def view (s : St) : List String → Option String
  | ["calcRewards", u, a, n] => do
      let att ← s.attrs (← n.toNat?)
      let v ← calcRewards s (← u.toNat?) (← a.toNat?) att.rps
      pure (toString v)
  | _ => none

def handle (l : L) (line : String) : L × Option String :=
  match words line with
  | "W" :: rest => (initOf rest, some (" ".intercalate ("W" :: rest)))
  | ["O", n, "upgrade"] =>
      -- the owner re-runs the contract's `upgrade` function on the DEPLOYED farm: `first_week_start_epoch().set_if_empty`
      -- and `try_set_farm_position_migration_nonce` (returns at once: the nonce was set by `init`) — no modelled cell moves
      (l, some s!"R {n} ok tok=0:0 rew=0 farming=0 b=0 | {showStateL l}")
  | "O" :: n :: rest =>
      -- the faucet runs first and stays even when the transaction fails
      let l := prefund l rest
      match (parseOp rest).bind fun op => stepL l (.op op) with
      | some (l', o) =>
          (l', some s!"R {n} ok tok={o.nonce}:{o.amt} rew={o.rew} farming={o.farming} b={o.boosted} | {showStateL l'}")
      | none => (l, some s!"R {n} err")
  | "Q" :: n :: rest =>
      match view l.f rest with
      | some v => (l, some s!"V {n} ok {v}")
      | none => (l, some s!"V {n} err")
  | _ => (l, none)

end Mx.FarmDriver

def main : IO Unit :=
  Mx.Proto.mainLoop (Mx.FarmLedger.initL .mint false 1000000000000 1000 true [1, 2, 3] 0) Mx.FarmDriver.handle
