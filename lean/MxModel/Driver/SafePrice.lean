/- Driver of the `safeprice` world (stub: to be written by the owner of this world). -/
import MxModel.Driver.Proto

def main : IO Unit := Mx.Proto.mainLoop () (fun s _ => (s, none))
