/-
  Driver of the `safeprice` world: the pair model (`Mx.Pair.step`, whose every reserve-changing
  operation records a price observation first) plus the safe-price read side
  (`Mx.SafePrice`).  Replays an ops file and prints one result line per op / query line.
  Import-free apart from Core/Driver modules.

  ops:     addLiq u a1 a2 m1 m2 | removeLiq u lp m1 m2 | swapIn u d a min | swapOut u d max out
           swapNoFee c d a | buyback c lp first|second | whitelist c | advance round
           prefill n cur base g p q x1 y1 z1 x2 y2 z2 xS yS zS     (synthetic observation buffer)
           updPrice u tok amt | updPos u liq                        (the `updateAndGet…` endpoints)
  queries: price s e tok amt | priceOff off tok amt | priceTs ts tok amt | priceDef tok amt
           lp s e liq | lpOff off liq | lpTs ts liq | lpDef liq | obs round
           (each followed by one routing word — which contract answers the view — ignored here)
  `tok` is `ab` (pay the first token), `ba` (pay the second) or `x` (a foreign token).
-/
import MxModel.Core.SafePrice
import MxModel.Driver.Proto

open Mx Mx.Pair Mx.Proto

namespace Mx.SafePriceDriver

inductive WOp
  | pair (o : Op)
  | prefill (f : SafePrice.Fill)
  | updPrice (d : Option Dir) (amt : Nat)
  | updPos (liq : Nat)

def parseDir : String → Option Dir
  | "ab" => some .ab
  | "ba" => some .ba
  | _ => none

/-- input token of a price query: a pool token (direction) or a foreign token -/
def parseTok : String → Option (Option Dir)
  | "ab" => some (some .ab)
  | "ba" => some (some .ba)
  | "x" => some none
  | _ => none

def parseWant : String → Option Want
  | "first" => some .first
  | "second" => some .second
  | _ => none

def parseOp : List String → Option WOp
  | ["addLiq", _u, a1, a2, m1, m2] => do
      pure (.pair (.addLiq (← a1.toNat?) (← a2.toNat?) (← m1.toNat?) (← m2.toNat?)))
  | ["removeLiq", _u, lp, m1, m2] => do
      pure (.pair (.removeLiq (← lp.toNat?) (← m1.toNat?) (← m2.toNat?)))
  | ["swapIn", _u, d, a, m] => do pure (.pair (.swapIn (← parseDir d) (← a.toNat?) (← m.toNat?)))
  | ["swapOut", _u, d, mx, o] => do pure (.pair (.swapOut (← parseDir d) (← mx.toNat?) (← o.toNat?)))
  | ["swapNoFee", c, d, a] => do pure (.pair (.swapNoFee (← c.toNat?) (← parseDir d) (← a.toNat?)))
  | ["buyback", c, lp, w] => do pure (.pair (.buyback (← c.toNat?) (← lp.toNat?) (← parseWant w)))
  | ["whitelist", c] => do pure (.pair (.cfg (.whitelist (← c.toNat?))))
  | ["advance", r] => do pure (.pair (.advance (← r.toNat?)))
  | "prefill" :: rest => do
      match ← nats rest with
      | [n, cur, base, g, p, q, x1, y1, z1, x2, y2, z2, xS, yS, zS] =>
          pure (.prefill ⟨n, cur, base, g, p, q, x1, y1, z1, x2, y2, z2, xS, yS, zS⟩)
      | _ => none
  | ["updPrice", _u, t, a] => do pure (.updPrice (← parseTok t) (← a.toNat?))
  | ["updPos", _u, l] => do pure (.updPos (← l.toNat?))
  | _ => none

def wstep (s : St) : WOp → Option (St × Out)
  | .pair o => step s o
  | .prefill f => (SafePrice.prefill s f).map (·, {})
  | .updPrice d a => (SafePrice.updateAndGetSafePrice s d a).map fun v => (s, { v1 := v })
  | .updPos l => (SafePrice.updateAndGetPosition s l).map fun (a, b) => (s, { v1 := a, v2 := b })

def showState (s : St) : String :=
  let l := s.sp.last
  s!"r={s.r1},{s.r2} S={s.S} round={s.round} " ++
  s!"sp={s.sp.cur},{s.sp.obs.length},{l.acc1},{l.acc2},{l.accS},{l.w},{l.round}"

def initOf (ws : List String) : St :=
  let total := (kvNat ws "total").getD 300
  let special := (kvNat ws "special").getD 50
  let cap := (kvNat ws "cap").getD 65536
  { Pair.init total special none cap with status := .active }

def showPair : Nat × Nat → String
  | (a, b) => s!"{a} {b}"

def view (s : St) : List String → Option String
  | ["price", st, en, t, a] => do
      let v ← SafePrice.getSafePrice s (← st.toNat?) (← en.toNat?) (← parseTok t) (← a.toNat?)
      pure (toString v)
  | ["priceOff", off, t, a] => do
      let v ← SafePrice.getSafePriceByRoundOffset s (← off.toNat?) (← parseTok t) (← a.toNat?)
      pure (toString v)
  | ["priceTs", ts, t, a] => do
      let v ← SafePrice.getSafePriceByTimestampOffset s (← ts.toNat?) (← parseTok t) (← a.toNat?)
      pure (toString v)
  | ["priceDef", t, a] => do
      let v ← SafePrice.getSafePriceByDefaultOffset s (← parseTok t) (← a.toNat?)
      pure (toString v)
  | ["lp", st, en, l] => do
      pure (showPair (← SafePrice.getLpSafePrice s (← st.toNat?) (← en.toNat?) (← l.toNat?)))
  | ["lpOff", off, l] => do
      pure (showPair (← SafePrice.getLpSafePriceByRoundOffset s (← off.toNat?) (← l.toNat?)))
  | ["lpTs", ts, l] => do
      pure (showPair (← SafePrice.getLpSafePriceByTimestampOffset s (← ts.toNat?) (← l.toNat?)))
  | ["lpDef", l] => do
      pure (showPair (← SafePrice.getLpSafePriceByDefaultOffset s (← l.toNat?)))
  | ["obs", q] => do
      let o ← SafePrice.getPriceObservation s (← q.toNat?)
      pure s!"{o.acc1} {o.acc2} {o.accS} {o.w} {o.round}"
  | _ => none

def handle (s : St) (line : String) : St × Option String :=
  match words line with
  | "W" :: rest => (initOf rest, some (" ".intercalate ("W" :: rest)))
  | "O" :: n :: rest =>
      match (parseOp rest).bind (wstep s) with
      | some (s', o) => (s', some s!"R {n} ok {o.v1} {o.v2} {o.v3} | {showState s'}")
      | none => (s, some s!"R {n} err")
  | "Q" :: n :: rest =>
      match view s rest.dropLast with
      | some v => (s, some s!"V {n} ok {v}")
      | none => (s, some s!"V {n} err")
  | _ => (s, none)

end Mx.SafePriceDriver

def main : IO Unit :=
  Mx.Proto.mainLoop ({ Mx.Pair.init 300 50 none 65536 with status := .active })
    Mx.SafePriceDriver.handle
