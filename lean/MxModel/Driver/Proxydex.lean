/-
  Driver of the `proxydex` world: replays an ops file through `Mx.ProxyDex.step` and prints one
  result line per op line.  Import-free apart from Core/Driver modules.

  Op text = `<op> <caller> <arguments…> -> <callee responses recorded by the harness>`;
  `-> fail` : a callee (or the VM: insufficient funds) rejected the transaction — the model cannot
  know, the result is `err`; `-> ?` : the proxy's own guard rejected it — the model must reject it
  too (it is run with empty responses).

  `<op>Ob <caller> <original caller> <rest>` (op = exit / claim / enterL / enterW) is `<op> <caller> <rest>`
  with the endpoint's optional original-caller argument supplied; the only account on the proxy's SC
  whitelist is the manager contract, account `users + 1` of the world header (`Core/ProxyDexWho`).
-/
import MxModel.Core.ProxyDex
import MxModel.Core.ProxyDexWho
import MxModel.Core.ProxyDexCheck
import MxModel.Driver.Proto

open Mx Mx.ProxyDex Mx.Proto

namespace Mx.ProxydexDriver

/-- `n:a` -/
def parsePair (t : String) : Option (Nat × Nat) :=
  match t.splitOn ":" with
  | [a, b] => do pure (← a.toNat?, ← b.toNat?)
  | _ => none

/-- `n:a,n:a` or `-` -/
def parsePairs (t : String) : Option (List (Nat × Nat)) :=
  if t = "-" then some [] else (t.splitOn ",").mapM parsePair

/-- `k:amt@unl` -/
def parseLk (t : String) : Option LkTok :=
  match t.splitOn "@" with
  | [a, u] => do
      let (k, amt) ← parsePair a
      pure ⟨k, amt, ← u.toNat?⟩
  | _ => none

def parseLkOpt (t : String) : Option (Option LkTok) :=
  if t = "-" then some none else (parseLk t).map some

def parseLks (t : String) : Option (List LkTok) :=
  if t = "-" then some [] else (t.splitOn ",").mapM parseLk

def farmId : String → Nat
  | "L" => 0
  | _ => 1

def splitArrow (ws : List String) : List String × List String :=
  (ws.takeWhile (· ≠ "->"), (ws.dropWhile (· ≠ "->")).drop 1)

def kvD (r : List String) (k : String) (d : String) : String := (kv r k).getD d

/-- parse an op; `guess = true` fills in empty responses (for `-> ?`) -/
def parseOp (a r : List String) (guess : Bool) : Option Op :=
  let g := fun (k : String) (d : String) => if guess then d else kvD r k "!"
  match a with
  | ["lock", _u, _amt, _opt] => do
      pure (.lock ⟨← (g "k" "0").toNat?, 0, ← (g "unl" "0").toNat?⟩)
  | ["advance", e, _b] => do pure (.advance (← e.toNat?))
  | "swap" :: _ => some .noop
  | "transfer" :: _ => some .noop
  | "bad" :: _ => if guess then none else some .noop
  | ["addLiq", _u, kl, oa, _mb, _mo, merge] => do
      let (k, la) ← parsePair kl
      let mk ← if guess then some none else
        match kv r "mk" with
        | some t => (parseLk t).map some
        | none => some none
      pure (.addLiq k la (← oa.toNat?) (← parsePairs merge) (← (g "lp" "0").toNat?)
        (← (g "ul" "0").toNat?) (← (g "uo" "0").toNat?) mk)
  | ["removeLiq", _u, wx, _mb, _mo] => do
      let (w, x) ← parsePair wx
      pure (.removeLiq w x (← (g "base" "0").toNat?) (← (g "other" "0").toNat?))
  | [op, _u, f, tok, merge] =>
      if op = "enterL" ∨ op = "enterW" then do
        let (n, a) ← parsePair tok
        let ml ← parsePairs merge
        let ft ← parsePair (g "farm" "0:0")
        let rew ← parseLkOpt (g "rew" "-")
        let m ← if guess then some (some ((0, 0), ⟨0, 0, 0⟩)) else
          match kv r "mfarm", kv r "mk" with
          | some x, some y => do pure (some (← parsePair x, ← parseLk y))
          | _, _ => some none
        let stray ← parseLks (if guess then "-" else kvD r "stray" "-")
        if op = "enterL" then pure (.enterL (farmId f) n a ml ft rew m stray)
        else pure (.enterW (farmId f) n a ml ft rew m stray)
      else none
  | ["exit", _u, f, tok] => do
      let (n, x) ← parsePair tok
      pure (.exitFarm (farmId f) n x (← (g "farming" "0").toNat?) (← parseLkOpt (g "rew" "-")))
  | ["claim", _u, f, tok] => do
      let (n, x) ← parsePair tok
      pure (.claim (farmId f) n x (← parsePair (g "farm" "0:0")) (← parseLkOpt (g "rew" "-")))
  | ["mergeLp", _u, l] => do
      pure (.mergeLp (← parsePairs l) (← parseLk (g "mk" "0:0@0")))
  | ["mergeFarm", _u, f, l] => do
      pure (.mergeFarm (farmId f) (← parsePairs l) (← parsePair (g "mfarm" "0:0"))
        (← parseLk (g "mk" "0:0@0")) (← parseLkOpt (g "rew" "-"))
        (← parseLks (if guess then "-" else kvD r "stray" "-")))
  | ["incLp", _u, wx, _e] => do
      let (w, x) ← parsePair wx
      pure (.incLp w x (← parseLk (g "nk" "0:0@0")))
  | ["incFarm", _u, fx, _e] => do
      let (f, x) ← parsePair fx
      pure (.incFarm f x (← parseLk (g "nk" "0:0@0")))
  | _ => none

def showPair (p : Nat × Nat) : String := if p.2 = 0 then "-" else s!"{p.1}:{p.2}"

def showBag (b : Nat → Nat) (bound : Nat) : String :=
  let l := (List.range (bound + 1)).filterMap fun i => if b i = 0 then none else some s!"{i}:{b i}"
  if l.isEmpty then "-" else ",".intercalate l

def showIdx {α : Type} (l : List α) (f : α → Nat) : String :=
  let r := (l.zipIdx).filterMap fun (a, i) => if f a = 0 then none else some s!"{i}:{f a}"
  if r.isEmpty then "-" else ",".intercalate r

def kindNum : Kind → Nat
  | .locked => 0
  | .wlp => 1

def showNewW (s : St) (n : Nat) : String :=
  if n = 0 then "-" else
  match s.wl[n]? with
  | some r => s!"{n}:{r.total},{r.k},{r.locked}"
  | none => "-"

def showNewF (s : St) (n : Nat) : String :=
  if n = 0 then "-" else
  match s.wf[n]? with
  | some r => s!"{n}:{r.farm},{r.fn},{r.fa},{kindNum r.kind},{r.pn},{r.pa}"
  | none => "-"

/-- `to=`: the account that pays and receives; `ea=`: the account whose energy entry the proxy
    reduced (only when it did); both `-` for operations that are not calls of the proxy -/
def showOut (s : St) (oa : OutA) (isCall : Bool) : String :=
  let o := oa.out
  let to := if isCall then toString oa.to else "-"
  let ea := if isCall && o.eDed ≠ 0 then toString oa.eAcc else "-"
  s!"b={o.base} l={showPair o.locked} o={o.other} w={showPair o.wOut} f={showPair o.fOut} " ++
  s!"r={showPair o.rew} bl={showPair o.burned} e={o.eDed} to={to} ea={ea} " ++
  s!"nw={showNewW s o.newW} nf={showNewF s o.newF}"

def isCall : Op → Bool
  | .lock _ => false
  | .advance _ => false
  | .noop => false
  | _ => true

def showInts (b : Nat → Int) (bound : Nat) : String :=
  let l := (List.range (bound + 1)).filterMap fun i => if b i = 0 then none else some s!"{i}:{b i}"
  if l.isEmpty then "-" else ",".intercalate l

def obBase : String → Option String
  | "exitOb" => some "exit"
  | "claimOb" => some "claim"
  | "enterLOb" => some "enterL"
  | "enterWOb" => some "enterW"
  | _ => none

/-- strip the original caller of an `…Ob` op: `(plain op words, caller, original caller)` -/
def splitWho (a : List String) : List String × Nat × Option Nat :=
  match a with
  | op :: c :: u :: rest =>
      match obBase op with
      | some base => (base :: c :: rest, c.toNat?.getD 0, some (u.toNat?.getD 0))
      | none => (a, c.toNat?.getD 0, none)
  | [_, c] => (a, c.toNat?.getD 0, none)
  | _ => (a, 0, none)

def parseCall (a r : List String) (guess : Bool) : Option Call :=
  let (a', c, u) := splitWho a
  (parseOp a' r guess).map fun op => ⟨c, u, op⟩

def showState (a : StA) (bound nacc : Nat) : String :=
  let s := a.s
  s!"now={s.now} lp={s.lp} base=0 other=0 lk={showBag s.lk bound} fl={showBag (s.hf 0) bound} " ++
  s!"fw={showBag (s.hf 1) bound} hw={showIdx s.wl (fun r => r.held + r.orph)} " ++
  s!"cw={showIdx s.wl (·.circ)} cf={showIdx s.wf (·.circ)} net={s.net} ed={showInts a.eBy nacc}"

/-- largest number that appears as a nonce (`n:` prefix) anywhere in the line -/
def maxNonce (ws : List String) : Nat :=
  ws.foldl (fun m w =>
    let w' := match w.splitOn "=" with
      | [_, v] => v
      | _ => w
    (w'.splitOn ",").foldl (fun m t =>
      match t.splitOn ":" with
      | a :: _ :: _ => max m (a.toNat?.getD 0)
      | _ => m) m) 0

structure DSt where
  a : StA
  bound : Nat
  /-- number of accounts (plain users + the manager) -/
  nacc : Nat

def initOf (ws : List String) : DSt :=
  let users := (kvNat ws "users").getD 3
  ⟨initA ((kvNat ws "epoch").getD 1) (fun i => i == users + 1), 0, users + 1⟩

def handle (d : DSt) (line : String) : DSt × Option String :=
  match words line with
  | "W" :: rest => (initOf rest, some (" ".intercalate ("W" :: rest)))
  | "O" :: n :: rest =>
      let (a, r) := splitArrow rest
      let bound := max d.bound (maxNonce rest)
      let d := { d with bound := bound }
      match r with
      | ["fail"] => (d, some s!"R {n} err")
      | ["?"] =>
          match (parseCall a [] true).bind (stepA d.a) with
          | some _ => (d, some s!"R {n} ok ? (the model accepts what the proxy's own guard rejected)")
          | none => (d, some s!"R {n} err")
      | _ =>
          -- callee facts of Props/C16Run (FarmExact, FactoryMergeOK) evaluated on the recorded answer
          let bad := match parseCall a r false with
            | some c => (stepA d.a c).isSome && !(calleeOKb d.a.s c.op)
            | none => false
          match parseCall a r false with
          | some c =>
              match stepA d.a c with
              | some (a', o) =>
                  if bad then ({ d with a := a' }, some s!"R {n} ok CALLEE-FACT-VIOLATED (FarmExact / FactoryMergeOK of Props/C16Run)")
                  else ({ d with a := a' },
                        some s!"R {n} ok {showOut a'.s o (isCall c.op)} | {showState a' bound d.nacc}")
              | none => (d, some s!"R {n} err")
          | none => (d, some s!"R {n} err")
  | "Q" :: n :: _ => (d, some s!"V {n} err")
  | _ => (d, none)

end Mx.ProxydexDriver

def main : IO Unit := Mx.Proto.mainLoop (Mx.ProxydexDriver.initOf []) Mx.ProxydexDriver.handle
