/-
  Driver of the `metastaking` world: replays an ops file through `Mx.DualYield.step` and prints
  one result line per op line.  Import-free apart from Core/Driver modules.

  Op lines (written by harness/src/bin/w_metastaking.rs; everything after the request words is
  resolved by the harness while executing on the real contracts):
    stake    C   lp=A extra=E src=S merge=M   auth=1 callee=K lpfarm=N [safe=V] [-> st=N:A boosted=B lpout=N:A lpboosted=B]
    stakeFor C U lp=A extra=E src=S merge=M   auth=X callee=K lpfarm=N [safe=V] [-> …]
    claim    C D:X                            auth=1 callee=K [safe=V] [-> lpnew=N:A lprew=R stnew=N:A strew=R]
    claimFor C D:X                            auth=X callee=K [safe=V] [-> …]
  (`safe=V`, the pair's safe-price answer, is recorded whenever the view answers, also for failed calls)
    unstake  C D:X M1 M2                      callee=K [-> lp=L lprew=R stk=S other=W unbond=N:A strew=R]
    xfer     U V D:X
    bad …                                     a call the proxy must reject
    anything else                             environment (pool trades, time, direct farm use)
  `callee=0`: the harness established (from the callees' own state, before the call) that a
  callee rejects this call.  A failed call whose own guards pass in the model although
  `callee=1` is printed as `R n stuck` (never produced by the harness → reported as a divergence).
-/
import MxModel.Core.DualYield
import MxModel.Driver.Proto

open Mx Mx.DualYield Mx.Proto

namespace Mx.MetaDriver

structure DS where
  st : St
  lpKeys : List Nat
  stKeys : List Nat
  users : Nat

def insertKey (k : Nat) : List Nat → List Nat
  | [] => [k]
  | x :: xs => if k < x then k :: x :: xs else if k = x then x :: xs else x :: insertKey k xs

/-- `N:A` -/
def pair? (w : String) : Option (Nat × Nat) :=
  match w.splitOn ":" with
  | [a, b] => do pure (← a.toNat?, ← b.toNat?)
  | _ => none

def pairs? (w : String) : Option (List (Nat × Nat)) :=
  if w = "-" then some [] else (w.splitOn ",").mapM pair?

def kvPair (ws : List String) (k : String) : Option (Nat × Nat) := (kv ws k).bind pair?

def user? (w : String) : Option Nat :=
  if w.startsWith "u" then (w.drop 1).toString.toNat? else w.toNat?

def dummyStake : StakeResp := ⟨1, 1, 1, 0, 1, 1, 0⟩
def dummyClaim : ClaimResp := ⟨1, 1, 1, 0, 1, 1, 0⟩
def dummyUnstake : UnstakeResp := ⟨1, 0, 1, 1, 1, 1, 0⟩

def stakeResp (ws : List String) : Option StakeResp := do
  let safe ← kvNat ws "safe"
  let st ← kvPair ws "st"
  let b ← kvNat ws "boosted"
  let lp ← kvPair ws "lpout"
  let lb ← kvNat ws "lpboosted"
  pure ⟨safe, st.1, st.2, b, lp.1, lp.2, lb⟩

def claimResp (ws : List String) : Option ClaimResp := do
  let safe ← kvNat ws "safe"
  let lp ← kvPair ws "lpnew"
  let lr ← kvNat ws "lprew"
  let st ← kvPair ws "stnew"
  let sr ← kvNat ws "strew"
  pure ⟨safe, lp.1, lp.2, lr, st.1, st.2, sr⟩

def unstakeResp (ws : List String) : Option UnstakeResp := do
  let lp ← kvNat ws "lp"
  let lr ← kvNat ws "lprew"
  let stk ← kvNat ws "stk"
  let o ← kvNat ws "other"
  let un ← kvPair ws "unbond"
  let sr ← kvNat ws "strew"
  pure ⟨lp, lr, stk, o, un.1, un.2, sr⟩

/-- (operation with the recorded responses, the same operation with dummy responses) -/
def parseOp (ws : List String) : Option (Option Op × Op) :=
  let auth := (kvNat ws "auth").getD 1 == 1
  match ws with
  | "stake" :: c :: _ | "stakeFor" :: c :: _ => do
      let c ← user? c
      let a ← kvNat ws "lp"
      let ms ← (kv ws "merge").bind pairs?
      let n := (kvNat ws "lpfarm").getD 0
      let probe := { dummyStake with safe := (kvNat ws "safe").getD 1 }
      pure ((stakeResp ws).map (Op.stake c auth n a ms), Op.stake c auth n a ms probe)
  | "claim" :: c :: dx :: _ | "claimFor" :: c :: dx :: _ => do
      let c ← user? c
      let p ← pair? dx
      let probe := { dummyClaim with safe := (kvNat ws "safe").getD 1 }
      pure ((claimResp ws).map (Op.claim c auth p.1 p.2), Op.claim c auth p.1 p.2 probe)
  | "unstake" :: c :: dx :: _ => do
      let c ← user? c
      let p ← pair? dx
      pure ((unstakeResp ws).map (Op.unstake c p.1 p.2), Op.unstake c p.1 p.2 dummyUnstake)
  | ["xfer", u, v, dx] => do
      let p ← pair? dx
      let o := Op.xfer (← user? u) (← user? v) p.1 p.2
      pure (some o, o)
  | "bad" :: _ => some (some .bad, .bad)
  | _ => some (some .env, .env)

def showPairs (l : List (Nat × Nat)) : String :=
  if l.isEmpty then "-" else ",".intercalate (l.map fun p => s!"{p.1}:{p.2}")

def showToks (ts : List Tok) : String :=
  let rows := (ts.zipIdx).filterMap fun (t, i) =>
    if t.out = 0 then none else some s!"{i + 1}:{t.lpN}:{t.lpA}:{t.stN}:{t.stA}:{t.out}"
  if rows.isEmpty then "-" else ";".intercalate rows

def showHold (keys : List Nat) (m : Nat → Nat) : String :=
  showPairs ((keys.map fun k => (k, m k)).filter fun p => p.2 ≠ 0)

def showUsers (s : St) (n : Nat) : String :=
  " ".intercalate ((List.range n).map fun i =>
    let u := i + 1
    let hs := ((List.range s.toks.length).map fun j => (j + 1, s.user u (j + 1))).filter fun p => p.2 ≠ 0
    s!"u{u}={showPairs hs}")

/-- the ghost `rel` (LP-farm amount released so far) of EVERY dual-yield nonce ever created, also the fully burned ones,
    in the format of the harness's own ledger (`w_metastaking.rs`: `released`) -/
def showGhosts (ts : List Tok) : String :=
  let rows := (ts.zipIdx).filterMap fun (t, i) =>
    if t.rel = 0 then none else some s!"{i + 1}:{t.rel}"
  " led=rel:" ++ (if rows.isEmpty then "-" else ",".intercalate rows)

def showState (d : DS) : String :=
  let p := d.st.pass
  s!"dy={showToks d.st.toks} lp={showHold d.lpKeys d.st.holdLp} st={showHold d.stKeys d.st.holdSt} " ++
  s!"pass={p.ride},{p.other},{p.lp},{p.locked},{p.unbond} {showUsers d.st d.users}" ++ showGhosts d.st.toks

def showOut (kind : String) (o : Out) : String :=
  match kind with
  | "stake" | "stakeFor" => s!"dy={o.dyN}:{o.dyA} boosted={o.o1} lpboosted={o.o2}"
  | "claim" | "claimFor" => s!"dy={o.dyN}:{o.dyA} lprew={o.o1} strew={o.o2}"
  | "unstake" => s!"other={o.o1} lprew={o.o2} strew={o.o3} unbond={o.unN}:{o.unA}"
  | _ => "-"

def addKeys (d : DS) (ws : List String) : DS :=
  let lk := [kvNat ws "lpfarm", (kvPair ws "lpout").map (·.1), (kvPair ws "lpnew").map (·.1)]
  let sk := [(kvPair ws "st").map (·.1), (kvPair ws "stnew").map (·.1)]
  { d with lpKeys := lk.foldl (fun acc k => match k with | some k => insertKey k acc | none => acc) d.lpKeys,
           stKeys := sk.foldl (fun acc k => match k with | some k => insertKey k acc | none => acc) d.stKeys }

def handle (d : DS) (line : String) : DS × Option String :=
  match words line with
  | "W" :: rest =>
      ({ st := DualYield.init, lpKeys := [], stKeys := [], users := (kvNat rest "users").getD 3 },
       some (" ".intercalate ("W" :: rest)))
  | "O" :: n :: rest =>
      let kind := rest.headD ""
      match parseOp rest with
      | none => (d, some s!"R {n} err")
      | some (some op, _) =>
          (match step d.st op with
           | some (s', o) =>
               let d' := addKeys { d with st := s' } rest
               (d', some s!"R {n} ok {showOut kind o} | {showState d'}")
           | none => (d, some s!"R {n} err"))
      | some (none, probe) =>
          -- the real call failed (no responses recorded)
          if (kvNat rest "callee").getD 1 == 0 then (d, some s!"R {n} err")
          else if (step d.st probe).isSome then (d, some s!"R {n} stuck")
          else (d, some s!"R {n} err")
  | _ => (d, none)

end Mx.MetaDriver

def main : IO Unit :=
  Mx.Proto.mainLoop ({ st := Mx.DualYield.init, lpKeys := [], stKeys := [], users := 3 } : Mx.MetaDriver.DS)
    Mx.MetaDriver.handle
