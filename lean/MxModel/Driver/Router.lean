/-
  Driver of the `router` world: replays an ops file through `Mx.Router.step` and prints one
  result line per op line.  Must stay import-free apart from Core/Driver modules.

  header   W router users=<n> tokens=<k> template=<0|1> funds=<amount> foreign=<t1:t2:total:special,…|->
  accounts 1..n are users, 100 is the owner, 200 the router, 900.. foreign pairs, 1000.. pairs
  deployed by the router (in order of successful creation).  Token ids: 0 = invalid, 1..k funded
  pool tokens, k+1 valid but unfunded, 501 / 502 = the LOCKED collections of the two simple-lock
  contracts; an LP token is named by its pair's address.  A locked-token class is written
  `coll/orig/unlock` in results and as three arguments `coll orig unlock` in op lines.
  Administration ops: `setTmpPeriod c n`, `clearTmp c` (v1 = returned size), `issueLp c a`,
  `setLocalRoles c a`, `upgradePair c t1 t2`, `advanceBlock n`, `bareNext 0|1`; the state line shows
  blk / tper / tmp (pair:creator:block in map order) / nolp / bare.
-/
import MxModel.Core.Router
import MxModel.Driver.Proto

open Mx Mx.Router Mx.Proto

namespace Mx.RouterDriver

def OWNER : Nat := 100
def ROUTER : Nat := 200

structure DSt where
  s : St
  accts : List Nat
  ntok : Nat

def parseHop (w : String) : Option Hop :=
  match w.splitOn ":" with
  | [a, k, t, x] => do
      let kind ← (match k with
        | "in" => some HopKind.fixedIn
        | "out" => some HopKind.fixedOut
        | "bad" => some HopKind.bad
        | _ => none)
      pure ⟨← a.toNat?, kind, ← t.toNat?, ← x.toNat?⟩
  | _ => none

def parseFees (t sp : String) : Option (Option (Nat × Nat)) :=
  if t = "-" then some none else do pure (some (← t.toNat?, ← sp.toNat?))

def parseOp : List String → Option Op
  | ["createPair", c, t1, t2, ad, t, sp] => do
      pure (.createPair (← c.toNat?) (← t1.toNat?) (← t2.toNat?) (← ad.toNat?) (← parseFees t sp))
  | ["removePair", c, t1, t2] => do pure (.removePair (← c.toNat?) (← t1.toNat?) (← t2.toNat?))
  | ["setCreation", c, b] => do pure (.setCreation (← c.toNat?) (b = "1"))
  | ["setTemplate", c] => do pure (.setTemplate (← c.toNat?))
  | ["pause", c, a] => do pure (.pause (← c.toNat?) (← a.toNat?))
  | ["resume", c, a] => do pure (.resume (← c.toNat?) (← a.toNat?))
  | ["setFeeOn", c, a, t] => do pure (.setFeeOn (← c.toNat?) (← a.toNat?) (← t.toNat?))
  | ["setFeeOff", c, a, i, t] => do
      pure (.setFeeOff (← c.toNat?) (← a.toNat?) (← i.toNat?) (← t.toNat?))
  | "multi" :: c :: t :: x :: hops => do
      pure (.multi (← c.toNat?) (← t.toNat?) (← x.toNat?) (← hops.mapM parseHop))
  | ["addInitial", u, a, a1, a2] => do
      pure (.addInitial (← u.toNat?) (← a.toNat?) (← a1.toNat?) (← a2.toNat?))
  | ["addLiq", u, a, a1, a2, m1, m2] => do
      pure (.addLiq (← u.toNat?) (← a.toNat?) (← a1.toNat?) (← a2.toNat?) (← m1.toNat?) (← m2.toNat?))
  | ["removeLiq", u, a, lp, m1, m2] => do
      pure (.removeLiq (← u.toNat?) (← a.toNat?) (← lp.toNat?) (← m1.toNat?) (← m2.toNat?))
  | ["swapIn", u, a, ti, x, to, m] => do
      pure (.swapIn (← u.toNat?) (← a.toNat?) (← ti.toNat?) (← x.toNat?) (← to.toNat?) (← m.toNat?))
  | ["swapOut", u, a, ti, mx, to, o] => do
      pure (.swapOut (← u.toNat?) (← a.toNat?) (← ti.toNat?) (← mx.toNat?) (← to.toNat?) (← o.toNat?))
  | ["cfgEnable", c, common, locked, mv, mp] => do
      pure (.configEnable (← c.toNat?) (← common.toNat?) (← locked.toNat?) (← mv.toNat?) (← mp.toNat?))
  | "addCommon" :: c :: ts => do pure (.addCommon (← c.toNat?) (← ts.mapM String.toNat?))
  | "removeCommon" :: c :: ts => do pure (.removeCommon (← c.toNat?) (← ts.mapM String.toNat?))
  | ["enableByUser", c, a, coll, orig, unl, x] => do
      pure (.enableByUser (← c.toNat?) (← a.toNat?) ⟨← coll.toNat?, ← orig.toNat?, ← unl.toNat?⟩ (← x.toNat?))
  | ["enablePlain", c, a, t, x] => do
      pure (.enablePlain (← c.toNat?) (← a.toNat?) (← t.toNat?) (← x.toNat?))
  | ["lock", u, coll, orig, x, unl] => do
      pure (.lock (← u.toNat?) (← coll.toNat?) (← orig.toNat?) (← x.toNat?) (← unl.toNat?))
  | ["unlock", u, coll, orig, unl, x] => do
      pure (.unlock (← u.toNat?) ⟨← coll.toNat?, ← orig.toNat?, ← unl.toNat?⟩ (← x.toNat?))
  | ["advance", e] => do pure (.advance (← e.toNat?))
  | ["setTmpPeriod", c, n] => do pure (.setTmpPeriod (← c.toNat?) (← n.toNat?))
  | ["clearTmp", c] => do pure (.clearTmp (← c.toNat?))
  | ["issueLp", c, a] => do pure (.issueLp (← c.toNat?) (← a.toNat?))
  | ["setLocalRoles", c, a] => do pure (.setLocalRoles (← c.toNat?) (← a.toNat?))
  | ["upgradePair", c, t1, t2] => do pure (.upgradePair (← c.toNat?) (← t1.toNat?) (← t2.toNat?))
  | ["advanceBlock", n] => do pure (.advanceBlock (← n.toNat?))
  | ["bareNext", b] => do pure (.bareNext (b = "1"))
  | _ => none

def showStatus : Mx.Pair.Status → String
  | .inactive => "inactive"
  | .active => "active"
  | .partialActive => "partial"

def showBool (b : Bool) : String := if b then "1" else "0"

def orDash (s : String) : String := if s.isEmpty then "-" else s

def showPays (l : List (Tok × Nat)) : String :=
  orDash (",".intercalate (l.map fun p => s!"{p.1}:{p.2}"))

def showPair (s : St) (a : Addr) : String :=
  match s.pairs a with
  | none => s!"{a}:?"
  | some p =>
    let q := p.st
    s!"{a}:{p.t1}:{p.t2}:{showStatus q.status}:{q.r1}:{q.r2}:{q.S}:{q.bal1}:{q.bal2}:{q.lpOwn}" ++
    s!":{q.total}:{q.special}:{q.adder.getD 0}"

def showLTok (k : LTok) : String := s!"{k.coll}/{k.orig}/{k.unlock}"

def showBack : Option (LTok × Nat) → String
  | some (k, x) => s!"{showLTok k}:{x}"
  | none => "-"

/-- token ids a config may be stored under that the state line reports -/
def cfgToks (k : Nat) : List Nat := (List.range (k + 1)).map (· + 1) ++ [LOCK_A, LOCK_B]

def showCfg (s : St) (k : Nat) : String :=
  orDash (",".intercalate ((cfgToks k).filterMap fun t =>
    (s.enableCfg t).map fun c => s!"{t}:{c.lockedTok}:{c.minValue}:{c.minPeriod}"))

def toks (k : Nat) : List Nat := (List.range k).map (· + 1)

def showUser (d : DSt) (u : Nat) : String :=
  let b := d.s.ubal u
  s!"{u}:{joinNats ((toks d.ntok).map b)}:{orDash (joinNats (d.s.addrs.map b))}" ++
  s!":{orDash (joinNats (d.s.lkeys.map (d.s.lbal u)))}"

/-- total burned of token `t` over all pairs -/
def burned (s : St) (t : Tok) : Nat :=
  (s.addrs.map fun a =>
    match s.pairs a with
    | none => 0
    | some p => (if p.t1 = t then p.st.burn1 else 0) + (if p.t2 = t then p.st.burn2 else 0)).sum

def showState (d : DSt) : String :=
  let s := d.s
  let reg := orDash (",".intercalate (s.pairMap.map fun e => s!"{e.1.1}-{e.1.2}-{e.2}"))
  s!"act={showBool s.active} cre={showBool s.creationEnabled} tpl={showBool s.templateSet} " ++
  s!"ep={s.epoch} blk={s.block} tper={s.tmpPeriod} " ++
  s!"tmp={orDash (",".intercalate (s.tmpOwners.map fun e => s!"{e.1}:{e.2.1}:{e.2.2}"))} " ++
  s!"nolp={orDash (joinNats s.noLp)} bare={showBool s.bareNext} " ++
  s!"reg={reg} rb={joinNats ((toks d.ntok).map s.rbal)} " ++
  s!"rlk={orDash (joinNats (s.lkeys.map (s.lbal s.self)))} " ++
  s!"burn={joinNats ((toks d.ntok).map (burned s))} " ++
  s!"wl={orDash (joinNats s.commonToks)} cfg={showCfg s d.ntok} " ++
  s!"lks={orDash (",".intercalate (s.lkeys.map showLTok))} " ++
  s!"pairs={orDash (";".intercalate (s.addrs.map (showPair s)))} " ++
  s!"users={";".intercalate (d.accts.map (showUser d))}"

def parseForeign (w : String) : Option PairRec :=
  match (w.splitOn ":").mapM String.toNat? with
  | some [t1, t2, total, special] => some (foreignPair t1 t2 total special)
  | _ => none

def initOf (ws : List String) : DSt :=
  let n := (kvNat ws "users").getD 3
  let k := (kvNat ws "tokens").getD 5
  let template := (kvNat ws "template").getD 1 ≠ 0
  let funds := (kvNat ws "funds").getD 0
  let foreign := match kv ws "foreign" with
    | some "-" => []
    | some f => (f.splitOn ",").filterMap parseForeign
    | none => []
  let accts := (List.range n).map (· + 1) ++ [OWNER]
  let bal : Addr → Nat → Nat := fun a t =>
    if (a = OWNER ∨ (1 ≤ a ∧ a ≤ n)) ∧ 1 ≤ t ∧ t ≤ k then funds else 0
  { s := Router.init OWNER ROUTER template foreign bal, accts := accts, ntok := k }

def dirForIn (p : PairRec) (tokIn : Tok) : Option Mx.Pair.Dir :=
  if tokIn = p.t1 then some .ab else if tokIn = p.t2 then some .ba else none

def view (d : DSt) : List String → Option String
  | ["getPair", a, b] => do pure (toString (getPair d.s.pairMap (← a.toNat?) (← b.toNat?)))
  | ["amountOut", a, tokIn, x] => do
      let p ← d.s.pairs (← a.toNat?)
      let dir ← dirForIn p (← tokIn.toNat?)
      let v ← Mx.Pair.viewAmountOut p.st dir (← x.toNat?)
      pure (toString v)
  | ["amountIn", a, tokWanted, x] => do
      let p ← d.s.pairs (← a.toNat?)
      let dir ← dirForIn p (← tokWanted.toNat?)
      let v ← Mx.Pair.viewAmountIn p.st dir.flip (← x.toNat?)
      pure (toString v)
  | ["enableCfg", t] => do
      -- `getEnableSwapByUserConfig(token)`: "No config set" unless one is stored
      let c ← d.s.enableCfg (← t.toNat?)
      pure s!"{c.lockedTok} {c.minValue} {c.minPeriod}"
  | _ => none

def handle (d : DSt) (line : String) : DSt × Option String :=
  match words line with
  | "W" :: rest => (initOf rest, some (" ".intercalate ("W" :: rest)))
  | "O" :: n :: rest =>
      match (parseOp rest).bind (step d.s) with
      | some (s', o) =>
          let d' := { d with s := s' }
          (d', some s!"R {n} ok a={o.addr} p={showPays o.pays} v={o.v1},{o.v2},{o.v3} lk={showBack o.back} | {showState d'}")
      | none => (d, some s!"R {n} err")
  | "Q" :: n :: rest =>
      match view d rest with
      | some v => (d, some s!"V {n} ok {v}")
      | none => (d, some s!"V {n} err")
  | _ => (d, none)

end Mx.RouterDriver

def main : IO Unit := Mx.Proto.mainLoop (Mx.RouterDriver.initOf []) Mx.RouterDriver.handle
