/-
  Driver of the `pd` world: replays an ops file through `Mx.PD.step` and prints one result
  line per op line (byte-identical to harness/src/bin/w_pd.rs).  Import-free apart from
  Core/Driver modules.
-/
import MxModel.Core.PriceDiscovery
import MxModel.Driver.Proto

open Mx Mx.PD Mx.Proto

namespace Mx.PdDriver

def parseTok : String → Option Tok
  | "L" => some .launched
  | "A" => some .accepted
  | _ => none

def parseOp : List String → Option Op
  | ["deposit", c, t, a] => do pure (.deposit (← c.toNat?) (← parseTok t) (← a.toNat?))
  | ["withdraw", c, t, a] => do pure (.withdraw (← c.toNat?) (← parseTok t) (← a.toNat?))
  | ["redeem", c, t, a] => do pure (.redeem (← c.toNat?) (← parseTok t) (← a.toNat?))
  | ["advance", b] => do pure (.advance (← b.toNat?))
  | ["epoch", e] => do pure (.epoch (← e.toNat?))
  | _ => none   -- `bad …` lines: malformed payments, always rejected

def showPhase : Phase → String
  | .idle => "idle,0"
  | .noPenalty => "nopenalty,0"
  | .linear p => s!"linear,{p}"
  | .fixed p => s!"fixed,{p}"
  | .redeem => "redeem,0"

def showPhaseView : Phase → String
  | .idle => "idle 0"
  | .noPenalty => "nopenalty 0"
  | .linear p => s!"linear {p}"
  | .fixed p => s!"fixed {p}"
  | .redeem => "redeem 0"

def showUsers (s : St) : String :=
  " ".intercalate ((List.range s.n).map fun i =>
    let u := i + 1
    s!"u{u}={s.L.w u},{s.A.w u},{s.L.h u},{s.A.h u},{s.L.k u},{s.A.k u}")

def showState (s : St) : String :=
  let price := match s.price with
    | some p => toString p
    | none => "-"
  s!"blk={s.block} ep={s.epoch} ph={showPhase s.phase} bal={s.L.bal},{s.A.bal} " ++
  s!"sup={s.L.sup},{s.A.sup} real={s.L.real},{s.A.real} lock={s.L.lock},{s.A.lock} " ++
  s!"red={s.L.red},{s.A.red} paid={s.L.paid},{s.A.paid} price={price} " ++ showUsers s

def initOf (ws : List String) : St :=
  let g (k : String) (d : Nat) := (kvNat ws k).getD d
  let cfg : Cfg :=
    { start := g "start" 10, d1 := g "d1" 5, d2 := g "d2" 5, d3 := g "d3" 5,
      pmin := g "pmin" 0, pmax := g "pmax" 0, pfix := g "pfix" 0,
      minPrice := g "minp" 0, prec := 10 ^ (g "dec" 18), unlock := g "unlock" 5 }
  let funds := 10 ^ 40
  PD.init cfg (g "users" 3) funds funds

def view (s : St) : List String → Option String
  | ["phase"] => some (showPhaseView (viewPhase s))
  | ["price"] => (viewPrice s).map toString
  | ["supply", t] => do pure (toString (viewSupply s (← parseTok t)))
  | _ => none

def handle (s : St) (line : String) : St × Option String :=
  match words line with
  | "W" :: rest => (initOf rest, some (" ".intercalate ("W" :: rest)))
  | "O" :: n :: rest =>
      match (parseOp rest).bind (step s) with
      | some (s', o) => (s', some s!"R {n} ok {o.v1} {o.v2} {o.v3} | {showState s'}")
      | none => (s, some s!"R {n} err")
  | "Q" :: n :: rest =>
      match view s rest with
      | some v => (s, some s!"V {n} ok {v}")
      | none => (s, some s!"V {n} err")
  | _ => (s, none)

end Mx.PdDriver

def main : IO Unit :=
  Mx.Proto.mainLoop (Mx.PD.init ⟨1, 0, 0, 0, 0, 0, 0, 0, 1, 1⟩ 0 0 0) Mx.PdDriver.handle
