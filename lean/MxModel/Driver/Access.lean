/-
  Driver of the `access` world: answers every matrix cell
      O n cell  <contract> <endpoint[@variant]> <role> <state>     expected ok / err
      O n cellx <contract> <endpoint> <role> <state>               (call with best-effort arguments:
                                                                    the harness claims it must be rejected)
      O n nocall <contract> <endpoint> <role> <state>              (no minimal valid call could be built)
  from the hand-written access table `Mx.Access.allowed`.  Import-free apart from Core/Driver.
-/
import MxModel.Core.Access
import MxModel.Driver.Proto

open Mx Mx.Access Mx.Proto

namespace Mx.AccessDriver

def parseContract : String → Option Contract
  | "pair" => some .pair | "router" => some .router | "farm" => some .farm | "fwlr" => some .fwlr
  | "staking" => some .staking | "energy" => some .energy | "fees" => some .fees | "hub" => some .hub
  | "unstake" => some .unstake | "lkmex" => some .lkmex | _ => none

def parseRole : String → Option Role
  | "owner" => some .owner | "admin" => some .admin | "pauser" => some .pauser | "wsc" => some .wsc
  | "user" => some .user | "agent" => some .agent | "revoked" => some .revoked
  | "blacklisted" => some .blacklisted | "router" => some .router | _ => none

def parseState : String → Option CState
  | "inactive" => some .inactive | "partial" => some .partialActive | "active" => some .active | _ => none

def showPayee : Payee → String
  | .na => "-" | .caller => "rew=caller" | .positionOwner => "rew=owner"

def cell (n c e r s : String) : String :=
  match parseContract c, parseRole r, parseState s with
  | some c', some r', some s' =>
      if allowed c' e r' s' then
        let p := match lookup c' e with | some ent => showPayee ent.payee | none => "-"
        s!"R {n} ok {c}.{e}.{r}.{s} | {p}"
      else s!"R {n} err"
  | _, _, _ => s!"R {n} err"

def handle (_ : Unit) (line : String) : Unit × Option String :=
  match words line with
  | "W" :: rest => ((), some (" ".intercalate ("W" :: rest)))
  | ["O", n, "cell", c, e, r, s] => ((), some (cell n c e r s))
  | ["O", n, "cellx", c, e, r, s] => ((), some (cell n c e r s))
  | ["O", n, "nocall", c, e, _, _] =>
      -- nothing was executed; the endpoint must at least be classified
      match (parseContract c).bind (fun c' => lookup c' e) with
      | some _ => ((), some s!"R {n} ok nocall | -")
      | none => ((), some s!"R {n} err")
  | "O" :: n :: _ => ((), some s!"R {n} err")
  | _ => ((), none)

end Mx.AccessDriver

def main : IO Unit := Mx.Proto.mainLoop () Mx.AccessDriver.handle
