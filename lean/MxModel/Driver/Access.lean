/-
  Driver of the `access` world: answers every matrix cell
      O n cell  <contract> <endpoint[@variant]> <role> <state>     expected ok / err
      O n cellx <contract> <endpoint> <role> <state>               (call with best-effort arguments:
                                                                    the harness claims it must be rejected)
      O n nocall <contract> <endpoint> <role> <state>              (no minimal valid call could be built)
      O n abi <contract> <endpoint> owner=<0|1> ro=<0|1>           (ABI inventory of the compiled contract)
  from the hand-written access table `Mx.Access.allowed`, and replays the state-machine histories
      O n sm perm <contract> <op> <caller> [<target>]   | sm wl <contract> add|remove <caller> <target>
      O n sm hub <op> <caller> <target>
  through `PauseSt.step` / `WlSt.step` / `HubSt.step`, printing the whole access state after each op.  Import-free apart from Core/Driver.
-/
import MxModel.Core.Access
import MxModel.Driver.Proto

open Mx Mx.Access Mx.Proto

namespace Mx.AccessDriver

def parseContract : String → Option Contract
  | "pair" => some .pair | "router" => some .router | "farm" => some .farm | "fwlr" => some .fwlr
  | "staking" => some .staking | "energy" => some .energy | "fees" => some .fees | "hub" => some .hub
  | "unstake" => some .unstake | "lkmex" => some .lkmex | _ => none

def parseRole : String → Option Role
  | "owner" => some .owner | "admin" => some .admin | "pauser" => some .pauser | "wsc" => some .wsc
  | "user" => some .user | "agent" => some .agent | "revoked" => some .revoked
  | "blacklisted" => some .blacklisted | "router" => some .router | _ => none

def parseState : String → Option CState
  | "inactive" => some .inactive | "partial" => some .partialActive | "active" => some .active | _ => none

def showPayee : Payee → String
  | .na => "-" | .caller => "rew=caller" | .positionOwner => "rew=owner"

/-- endpoints of the compiled contracts that the table does not list, with their ABI-default entry
    (learned from the `abi` lines, which precede the cells of a world) -/
abbrev Extra := List (String × String × Entry)

def entryOf (x : Extra) (c : String) (c' : Contract) (e : String) : Option Entry :=
  match lookup c' e with
  | some ent => some ent
  | none => (x.find? fun y => y.1 == c && y.2.1 == e).map (·.2.2)

def cell (x : Extra) (n c e r s : String) : String :=
  match parseContract c, parseRole r, parseState s with
  | some c', some r', some s' =>
      match entryOf x c c' e with
      | some ent =>
          if allowedBy c' ent r' s' then s!"R {n} ok {c}.{e}.{r}.{s} | {showPayee ent.payee}" else s!"R {n} err"
      | none => s!"R {n} err"
  | _, _, _ => s!"R {n} err"

/-- the stateless lines: matrix cells and ABI inventory lines -/
def handleCell (x : Extra) : List String → Extra × Option String
  | ["O", n, "cell", c, e, r, s] => (x, some (cell x n c e r s))
  | ["O", n, "cellx", c, e, r, s] => (x, some (cell x n c e r s))
  | ["O", n, "nocall", c, e, _, _] =>
      -- nothing was executed; the endpoint must at least be classified
      match (parseContract c).bind (fun c' => entryOf x c c' e) with
      | some _ => (x, some s!"R {n} ok nocall | -")
      | none => (x, some s!"R {n} err")
  | ["O", n, "abi", c, e, ow, ro] =>
      -- inventory line from the freshly compiled contract: the endpoint must be classified (by the table, or by
      -- the ABI default for an unlisted getter / `#[only_owner]` setter), `only_owner` must agree with the
      -- entry's guard, a read-only endpoint must be a view
      match parseContract c with
      | some c' =>
          match classify c' e (ow == "owner=1") (ro == "ro=1") with
          | some ent =>
              let okOwner := (ow == "owner=1") == (ent.guard == Guard.scOwner)
              let okRo := ro != "ro=1" || ent.cls == Class.view
              let x' := if (lookup c' e).isNone then (c, e, ent) :: x else x
              if okOwner && okRo then (x', some s!"R {n} ok abi {c}.{e} | {ow} {ro}") else (x, some s!"R {n} err")
          | none => (x, some s!"R {n} err")
      | none => (x, some s!"R {n} err")
  | "O" :: n :: _ => (x, some s!"R {n} err")
  | _ => (x, none)

/-- state of a state-machine history: the access modules of ONE evolving deployment -/
structure DSt where
  ps : PauseSt
  wl : WlSt
  hub : HubSt
  extra : Extra := []

def DSt.init (c : Contract) : DSt := ⟨⟨deployed c, .active⟩, wlDeployed, hubDeployed, []⟩

def showBits (p : Perm) : String :=
  (if p.owner then "1" else "0") ++ (if p.admin then "1" else "0") ++ (if p.pause then "1" else "0")

def showCState : CState → String
  | .inactive => "inactive" | .active => "active" | .partialActive => "partial"

def showPerm (s : PauseSt) : String :=
  "perms=" ++ ",".intercalate (Role.all.map fun r => showBits (s.perm.perms r.addr)) ++ " st=" ++ showCState s.state

def showWl (s : WlSt) : String :=
  "wl=" ++ String.join (Role.all.map fun r => if r.addr ∈ s.members then "1" else "0")

def showHub (s : HubSt) : String :=
  "auth=" ++ ",".intercalate ([Role.user, .agent, .owner].map fun u =>
    String.join (Role.all.map fun r => if s.isWhitelisted u.addr r.addr then "1" else "0"))

def parsePermOp (o : String) (c : Addr) (t : Option Addr) : Option PauseOp :=
  match o, t with
  | "addAdmin", some a => some (.perm (.addAdmin c a))
  | "removeAdmin", some a => some (.perm (.removeAdmin c a))
  | "addPause", some a => some (.perm (.addPause c a))
  | "removePause", some a => some (.perm (.removePause c a))
  | "updateOwnerOrAdmin", some a => some (.perm (.updateOwnerOrAdmin c a))
  | "pause", _ => some (.pause c)
  | "resume", _ => some (.resume c)
  | "noswaps", _ => some (.setActiveNoSwaps c)
  | _, _ => none

def sm (d : DSt) (n : String) : List String → DSt × String
  | "perm" :: _c :: o :: caller :: rest =>
      let t := rest.head?.bind parseRole |>.map Role.addr
      match (parseRole caller).bind (fun c => parsePermOp o c.addr t) |>.bind d.ps.step with
      | some ps' => ({ d with ps := ps' }, s!"R {n} ok sm | {showPerm ps'}")
      | none => (d, s!"R {n} err")
  | ["wl", _c, o, caller, target] =>
      let op : Option WlOp := do
        let c ← parseRole caller
        let a ← parseRole target
        if o = "add" then some (.add c.addr a.addr) else if o = "remove" then some (.remove c.addr a.addr) else none
      match op.bind d.wl.step with
      | some wl' => ({ d with wl := wl' }, s!"R {n} ok sm | {showWl wl'}")
      | none => (d, s!"R {n} err")
  | ["hub", o, caller, target] =>
      let op : Option HubOp := do
        let c ← parseRole caller
        let a ← parseRole target
        match o with
        | "whitelist" => some (.whitelist c.addr a.addr)
        | "removeWhitelist" => some (.removeWhitelist c.addr a.addr)
        | "blacklist" => some (.blacklist c.addr a.addr)
        | "removeBlacklist" => some (.removeBlacklist c.addr a.addr)
        | _ => none
      match op.bind d.hub.step with
      | some h' => ({ d with hub := h' }, s!"R {n} ok sm | {showHub h'}")
      | none => (d, s!"R {n} err")
  | _ => (d, s!"R {n} err")

def handle (d : DSt) (line : String) : DSt × Option String :=
  match words line with
  | "W" :: rest =>
      let c := ((kv rest "contract").bind parseContract).getD .hub
      (DSt.init c, some (" ".intercalate ("W" :: rest)))
  | "O" :: n :: "sm" :: rest => let (d', out) := sm d n rest; (d', some out)
  | ws => let (x, out) := handleCell d.extra ws; ({ d with extra := x }, out)

end Mx.AccessDriver

def main : IO Unit := Mx.Proto.mainLoop (Mx.AccessDriver.DSt.init .hub) Mx.AccessDriver.handle
