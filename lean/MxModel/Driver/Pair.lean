/-
  Driver of the `pair` world: replays an ops file through `Mx.PairLedger.stepL` (= `Mx.Pair.step`
  plus the per-account wallets of Core/PairLedger.lean) and prints one result line per op line.
  Must stay import-free apart from Core/Driver modules.
-/
import MxModel.Core.Pair
import MxModel.Core.PairLedger
import MxModel.Driver.Proto

open Mx Mx.Pair Mx.PairLedger Mx.Proto

namespace Mx.PairDriver

def parseDir : String → Option Dir
  | "ab" => some .ab
  | "ba" => some .ba
  | _ => none

def parseWant : String → Option Want
  | "first" => some .first
  | "second" => some .second
  | "other" => some .other
  | _ => none

def parseStatus : String → Option Status
  | "inactive" => some .inactive
  | "active" => some .active
  | "partial" => some .partialActive
  | _ => none

def showStatus : Status → String
  | .inactive => "inactive"
  | .active => "active"
  | .partialActive => "partial"

/-- caller ids: `100` is the owner (owner permissions), `1..n` are plain users -/
def isOwner (who : String) : Bool := who = "100"

def parseLockAddr : String → Option LockAddr
  | "sl" => some .simpleLock
  | "coll" => some .otherSc
  | "user" => some .notSc
  | _ => none

def showLockSc : LockSc → String
  | .unset => "none"
  | .simpleLock => "sl"
  | .other => "other"

def parseOp : List String → Option Op
  | ["addInitial", c, a1, a2] => do pure (.addInitial (← c.toNat?) (← a1.toNat?) (← a2.toNat?))
  | ["addLiq", _u, a1, a2, m1, m2] => do
      pure (.addLiq (← a1.toNat?) (← a2.toNat?) (← m1.toNat?) (← m2.toNat?))
  | ["removeLiq", _u, lp, m1, m2] => do pure (.removeLiq (← lp.toNat?) (← m1.toNat?) (← m2.toNat?))
  | ["swapIn", _u, d, a, m] => do pure (.swapIn (← parseDir d) (← a.toNat?) (← m.toNat?))
  | ["swapOut", _u, d, mx, o] => do pure (.swapOut (← parseDir d) (← mx.toNat?) (← o.toNat?))
  | ["swapNoFee", c, d, a] => do pure (.swapNoFee (← c.toNat?) (← parseDir d) (← a.toNat?))
  | ["buyback", c, lp, w] => do pure (.buyback (← c.toNat?) (← lp.toNat?) (← parseWant w))
  | ["setFee", t, s] => do pure (.cfg (.setFee (← t.toNat?) (← s.toNat?)))
  | ["addDest", w] => do pure (.cfg (.addDest (← parseWant w)))
  | ["removeDest", i] => do pure (.cfg (.removeDest (← i.toNat?)))
  | ["setCollector", c] => do pure (.cfg (.setCollector (← c.toNat?)))
  | ["setState", st] => do pure (.cfg (.setState (← parseStatus st)))
  | ["whitelist", c] => do pure (.cfg (.whitelist (← c.toNat?)))
  | ["removeWhitelist", c] => do pure (.cfg (.removeWhitelist (← c.toNat?)))
  | ["setTrusted", "first", "none"] => some (.cfg (.setTrusted true none))
  | ["setTrusted", "second", "none"] => some (.cfg (.setTrusted false none))
  | ["setTrusted", "first", ri, ro, live] => do
      pure (.cfg (.setTrusted true (some ⟨← ri.toNat?, ← ro.toNat?, live = "1"⟩)))
  | ["setTrusted", "second", ri, ro, live] => do
      pure (.cfg (.setTrusted false (some ⟨← ri.toNat?, ← ro.toNat?, live = "1"⟩)))
  | ["advance", r] => do pure (.advance (← r.toNat?))
  | ["setLockDeadline", who, e] => do pure (.lock (isOwner who) (.setDeadline (← e.toNat?)))
  | ["setLockUnlock", who, e] => do pure (.lock (isOwner who) (.setUnlock (← e.toNat?)))
  | ["setLockSc", who, a] => do pure (.lock (isOwner who) (.setSc (← parseLockAddr a)))
  | ["epoch", e] => do pure (.epoch (← e.toNat?))
  | _ => none

def showX : Option XPool → String
  | none => "none"
  | some x => s!"{x.rIn},{x.rOut}"

def showState (s : St) : String :=
  let l := s.sp.last
  s!"r={s.r1},{s.r2} S={s.S} bal={s.bal1},{s.bal2} lpc={s.lpCirc} own={s.lpOwn} " ++
  s!"coll={s.coll1},{s.coll2} burn={s.burn1},{s.burn2} ext={s.ext1},{s.ext2} " ++
  s!"st={showStatus s.status} x1={showX s.x1} x2={showX s.x2} " ++
  s!"sp={s.sp.cur},{s.sp.obs.length},{l.acc1},{l.acc2},{l.accS},{l.w},{l.round} " ++
  s!"lock={s.lockDeadline},{s.lockUnlockEpoch},{showLockSc s.lockSc} ep={s.epoch} slk={s.slk1},{s.slk2}"

/-- what the caller of a successful operation received from the pair, by pool token:
    (plain first, plain second, LOCKED first, LOCKED second).  Swaps: the output (plain or
    locked) and, for fixed output, the refund of the input token; addLiq: the two refunds;
    removeLiq: the two withdrawn amounts; nothing for the other operations. -/
def received (op : Op) (o : Out) : Nat × Nat × Nat × Nat :=
  match op with
  | .swapIn .ab _ _ => (0, o.plainAmt, 0, o.lockedAmt)
  | .swapIn .ba _ _ => (o.plainAmt, 0, o.lockedAmt, 0)
  | .swapOut .ab _ _ => (o.v3, o.plainAmt, 0, o.lockedAmt)
  | .swapOut .ba _ _ => (o.plainAmt, o.v3, o.lockedAmt, 0)
  | .addLiq a1 a2 _ _ => (a1 - o.v2, a2 - o.v3, 0, 0)
  | .removeLiq _ _ _ => (o.v1, o.v2, 0, 0)
  | _ => (0, 0, 0, 0)

def showOut (op : Op) (o : Out) : String :=
  let (p1, p2, l1, l2) := received op o
  s!"{o.v1} {o.v2} {o.v3} recv={p1},{p2} lk={l1},{l2}"

/-- initial endowment of every account the harness creates (`pow10(45)` of each pool token) -/
def FUNDS : Nat := 10 ^ 45

/-- the FIRST / SECOND amount of the `xf=` / `xs=` header entry (`amount,ctok,live`): what the
    owner deposited into the trusted pair before the history starts -/
def xAmount (ws : List String) (k : String) : Nat :=
  match kv ws k with
  | some v => match v.splitOn "," with
    | a :: _ => a.toNat?.getD 1000000
    | [] => 1000000
  | none => 1000000

/-- driver state: the ledger and the number of plain users (`accts = users ++ [owner]`) -/
structure DSt where
  l : L
  n : Nat

def initOf (ws : List String) : DSt :=
  let total := (kvNat ws "total").getD 300
  let special := (kvNat ws "special").getD 50
  let adder := match kvNat ws "adder" with
    | some 0 => none
    | some a => some a
    | none => none
  let cap := (kvNat ws "cap").getD 65536
  let n := (kvNat ws "users").getD 3
  let funds := List.replicate n (FUNDS, FUNDS) ++ [(FUNDS - xAmount ws "xf", FUNDS - xAmount ws "xs")]
  ⟨initL total special adder cap funds, n⟩

/-- `PairWorld::user`: id 100 is the owner, `1..n` the users, anything else the first user -/
def slot (n : Nat) (id : Nat) : Nat :=
  if id = 100 then n else if 1 ≤ id ∧ id ≤ n then id - 1 else 0

/-- the caller id of an op line (the owner for configuration / clock lines) -/
def callerId : List String → Nat
  | "addInitial" :: c :: _ => c.toNat?.getD 0
  | "addLiq" :: u :: _ => u.toNat?.getD 0
  | "removeLiq" :: u :: _ => u.toNat?.getD 0
  | "swapIn" :: u :: _ => u.toNat?.getD 0
  | "swapOut" :: u :: _ => u.toNat?.getD 0
  | "swapNoFee" :: c :: _ => c.toNat?.getD 0
  | "buyback" :: c :: _ => c.toNat?.getD 0
  | _ => 100

/-- `PairWorld::ensure` calls made before the transaction (whether or not it succeeds):
    (caller id, first pool token?, amount) -/
def topUps : List String → List (Nat × Bool × Nat)
  | ["addInitial", c, a1, a2] =>
      [(c.toNat?.getD 0, true, a1.toNat?.getD 0), (c.toNat?.getD 0, false, a2.toNat?.getD 0)]
  | ["addLiq", u, a1, a2, _, _] =>
      [(u.toNat?.getD 0, true, a1.toNat?.getD 0), (u.toNat?.getD 0, false, a2.toNat?.getD 0)]
  | ["swapIn", u, d, a, _] => [(u.toNat?.getD 0, d = "ab", a.toNat?.getD 0)]
  | ["swapOut", u, d, a, _] => [(u.toNat?.getD 0, d = "ab", a.toNat?.getD 0)]
  | ["swapNoFee", u, d, a] => [(u.toNat?.getD 0, d = "ab", a.toNat?.getD 0)]
  | _ => []

def parseTok : String → Option Tok
  | "A" => some .a
  | "B" => some .b
  | "LP" => some .lp
  | _ => none

/-- `xfer src dst LP|A|B amount`: plain ESDT transfer between two accounts (no pair call) -/
def parseXfer (n : Nat) : List String → Option LOp
  | ["xfer", i, j, t, x] => do
      pure (.xfer (slot n (← i.toNat?)) (slot n (← j.toNat?)) (← parseTok t) (← x.toNat?))
  | _ => none

def showAccts (l : List Acct) : String :=
  ";".intercalate (l.map fun x => s!"{x.a},{x.b},{x.lp},{x.lkA},{x.lkB}")

def view (s : St) : List String → Option String
  | ["amountOut", d, a] => do
      let v ← viewAmountOut s (← parseDir d) (← a.toNat?)
      pure (toString v)
  | ["amountIn", d, a] => do
      let v ← viewAmountIn s (← parseDir d) (← a.toNat?)
      pure (toString v)
  | ["equivalent", d, a] => do
      let v ← viewEquivalent s (← parseDir d) (← a.toNat?)
      pure (toString v)
  | ["position", lp] => do
      let (a, b) := viewTokensForPosition s (← lp.toNat?)
      pure s!"{a} {b}"
  | _ => none

def handle (s : DSt) (line : String) : DSt × Option String :=
  match words line with
  | "W" :: rest => (initOf rest, some (" ".intercalate ("W" :: rest)))
  | "O" :: n :: rest =>
      -- the faucet runs first and stays even when the transaction fails
      let l1 := runL s.l ((topUps rest).map fun t => LOp.fund (slot s.n t.1) t.2.1 t.2.2)
      let s1 : DSt := { s with l := l1 }
      match parseXfer s.n rest with
      | some x =>
        match stepL l1 x with
        | some (l', _) =>
            ({ s with l := l' },
             some s!"R {n} ok 0 0 0 recv=0,0 lk=0,0 | {showState l'.p} acct={showAccts l'.accts}")
        | none => (s1, some s!"R {n} err")
      | none =>
      match parseOp rest with
      | none => (s1, some s!"R {n} err")
      | some op =>
        match stepL l1 (.call (slot s.n (callerId rest)) op) with
        | some (l', o) =>
            ({ s with l := l' },
             some s!"R {n} ok {showOut op o} | {showState l'.p} acct={showAccts l'.accts}")
        | none => (s1, some s!"R {n} err")
  | "Q" :: n :: rest =>
      match view s.l.p rest with
      | some v => (s, some s!"V {n} ok {v}")
      | none => (s, some s!"V {n} err")
  | _ => (s, none)

end Mx.PairDriver

def main : IO Unit :=
  Mx.Proto.mainLoop (Mx.PairDriver.initOf []) Mx.PairDriver.handle
