/-
  Driver of the `pair` world: replays an ops file through `Mx.Pair.step` and prints one
  result line per op line.  Must stay import-free apart from Core/Driver modules.
-/
import MxModel.Core.Pair
import MxModel.Driver.Proto

open Mx Mx.Pair Mx.Proto

namespace Mx.PairDriver

def parseDir : String → Option Dir
  | "ab" => some .ab
  | "ba" => some .ba
  | _ => none

def parseWant : String → Option Want
  | "first" => some .first
  | "second" => some .second
  | "other" => some .other
  | _ => none

def parseStatus : String → Option Status
  | "inactive" => some .inactive
  | "active" => some .active
  | "partial" => some .partialActive
  | _ => none

def showStatus : Status → String
  | .inactive => "inactive"
  | .active => "active"
  | .partialActive => "partial"

/-- caller ids: `100` is the owner (owner permissions), `1..n` are plain users -/
def isOwner (who : String) : Bool := who = "100"

def parseLockAddr : String → Option LockAddr
  | "sl" => some .simpleLock
  | "coll" => some .otherSc
  | "user" => some .notSc
  | _ => none

def showLockSc : LockSc → String
  | .unset => "none"
  | .simpleLock => "sl"
  | .other => "other"

def parseOp : List String → Option Op
  | ["addInitial", c, a1, a2] => do pure (.addInitial (← c.toNat?) (← a1.toNat?) (← a2.toNat?))
  | ["addLiq", _u, a1, a2, m1, m2] => do
      pure (.addLiq (← a1.toNat?) (← a2.toNat?) (← m1.toNat?) (← m2.toNat?))
  | ["removeLiq", _u, lp, m1, m2] => do pure (.removeLiq (← lp.toNat?) (← m1.toNat?) (← m2.toNat?))
  | ["swapIn", _u, d, a, m] => do pure (.swapIn (← parseDir d) (← a.toNat?) (← m.toNat?))
  | ["swapOut", _u, d, mx, o] => do pure (.swapOut (← parseDir d) (← mx.toNat?) (← o.toNat?))
  | ["swapNoFee", c, d, a] => do pure (.swapNoFee (← c.toNat?) (← parseDir d) (← a.toNat?))
  | ["buyback", c, lp, w] => do pure (.buyback (← c.toNat?) (← lp.toNat?) (← parseWant w))
  | ["setFee", t, s] => do pure (.cfg (.setFee (← t.toNat?) (← s.toNat?)))
  | ["addDest", w] => do pure (.cfg (.addDest (← parseWant w)))
  | ["removeDest", i] => do pure (.cfg (.removeDest (← i.toNat?)))
  | ["setCollector", c] => do pure (.cfg (.setCollector (← c.toNat?)))
  | ["setState", st] => do pure (.cfg (.setState (← parseStatus st)))
  | ["whitelist", c] => do pure (.cfg (.whitelist (← c.toNat?)))
  | ["removeWhitelist", c] => do pure (.cfg (.removeWhitelist (← c.toNat?)))
  | ["setTrusted", "first", "none"] => some (.cfg (.setTrusted true none))
  | ["setTrusted", "second", "none"] => some (.cfg (.setTrusted false none))
  | ["setTrusted", "first", ri, ro, live] => do
      pure (.cfg (.setTrusted true (some ⟨← ri.toNat?, ← ro.toNat?, live = "1"⟩)))
  | ["setTrusted", "second", ri, ro, live] => do
      pure (.cfg (.setTrusted false (some ⟨← ri.toNat?, ← ro.toNat?, live = "1"⟩)))
  | ["advance", r] => do pure (.advance (← r.toNat?))
  | ["setLockDeadline", who, e] => do pure (.lock (isOwner who) (.setDeadline (← e.toNat?)))
  | ["setLockUnlock", who, e] => do pure (.lock (isOwner who) (.setUnlock (← e.toNat?)))
  | ["setLockSc", who, a] => do pure (.lock (isOwner who) (.setSc (← parseLockAddr a)))
  | ["epoch", e] => do pure (.epoch (← e.toNat?))
  | _ => none

def showX : Option XPool → String
  | none => "none"
  | some x => s!"{x.rIn},{x.rOut}"

def showState (s : St) : String :=
  let l := s.sp.last
  s!"r={s.r1},{s.r2} S={s.S} bal={s.bal1},{s.bal2} lpc={s.lpCirc} own={s.lpOwn} " ++
  s!"coll={s.coll1},{s.coll2} burn={s.burn1},{s.burn2} ext={s.ext1},{s.ext2} " ++
  s!"st={showStatus s.status} x1={showX s.x1} x2={showX s.x2} " ++
  s!"sp={s.sp.cur},{s.sp.obs.length},{l.acc1},{l.acc2},{l.accS},{l.w},{l.round} " ++
  s!"lock={s.lockDeadline},{s.lockUnlockEpoch},{showLockSc s.lockSc} ep={s.epoch} slk={s.slk1},{s.slk2}"

/-- what the caller of a successful operation received from the pair, by pool token:
    (plain first, plain second, LOCKED first, LOCKED second).  Swaps: the output (plain or
    locked) and, for fixed output, the refund of the input token; addLiq: the two refunds;
    removeLiq: the two withdrawn amounts; nothing for the other operations. -/
def received (op : Op) (o : Out) : Nat × Nat × Nat × Nat :=
  match op with
  | .swapIn .ab _ _ => (0, o.plainAmt, 0, o.lockedAmt)
  | .swapIn .ba _ _ => (o.plainAmt, 0, o.lockedAmt, 0)
  | .swapOut .ab _ _ => (o.v3, o.plainAmt, 0, o.lockedAmt)
  | .swapOut .ba _ _ => (o.plainAmt, o.v3, o.lockedAmt, 0)
  | .addLiq a1 a2 _ _ => (a1 - o.v2, a2 - o.v3, 0, 0)
  | .removeLiq _ _ _ => (o.v1, o.v2, 0, 0)
  | _ => (0, 0, 0, 0)

def showOut (op : Op) (o : Out) : String :=
  let (p1, p2, l1, l2) := received op o
  s!"{o.v1} {o.v2} {o.v3} recv={p1},{p2} lk={l1},{l2}"

def initOf (ws : List String) : St :=
  let total := (kvNat ws "total").getD 300
  let special := (kvNat ws "special").getD 50
  let adder := match kvNat ws "adder" with
    | some 0 => none
    | some a => some a
    | none => none
  let cap := (kvNat ws "cap").getD 65536
  Pair.init total special adder cap

def view (s : St) : List String → Option String
  | ["amountOut", d, a] => do
      let v ← viewAmountOut s (← parseDir d) (← a.toNat?)
      pure (toString v)
  | ["amountIn", d, a] => do
      let v ← viewAmountIn s (← parseDir d) (← a.toNat?)
      pure (toString v)
  | ["equivalent", d, a] => do
      let v ← viewEquivalent s (← parseDir d) (← a.toNat?)
      pure (toString v)
  | ["position", lp] => do
      let (a, b) := viewTokensForPosition s (← lp.toNat?)
      pure s!"{a} {b}"
  | _ => none

def handle (s : St) (line : String) : St × Option String :=
  match words line with
  | "W" :: rest => (initOf rest, some (" ".intercalate ("W" :: rest)))
  | "O" :: n :: rest =>
      match parseOp rest with
      | none => (s, some s!"R {n} err")
      | some op =>
        match step s op with
        | some (s', o) => (s', some s!"R {n} ok {showOut op o} | {showState s'}")
        | none => (s, some s!"R {n} err")
  | "Q" :: n :: rest =>
      match view s rest with
      | some v => (s, some s!"V {n} ok {v}")
      | none => (s, some s!"V {n} err")
  | _ => (s, none)

end Mx.PairDriver

def main : IO Unit := Mx.Proto.mainLoop (Mx.Pair.init 300 50 none 65536) Mx.PairDriver.handle
