/-
  Model of `energy-integration/fees-collector` on top of the shared `Core/Weekly.lean`.

  Transcribed from fees-collector/src/{lib.rs, fees_accumulation.rs, additional_locked_tokens.rs,
  config.rs}, common/modules/locking_module/src/lock_with_energy_module.rs (`lock_virtual`) and
  the part of energy-factory/src/virtual_lock.rs that changes the energy entry of the claimer.

  THE ENERGY FACTORY IS AN INPUT HERE.  `St.energy` is the factory's `userEnergy` table as the
  collector reads it through `energy_query` (raw storage read).  It changes in two ways only:
    * `Op.setEnergy u e` — the harness performed a real factory operation (lock / extend /
      unlock / unlockEarly …) and reports the resulting real entry; the factory itself is
      modelled and proved elsewhere (Core/Energy.lean, property C08/C09);
    * a claim that pays locked-token fees goes through the factory's `lockVirtual`, whose effect
      on the claimer's entry is small and modelled here (`lockVirtualEnergy`).

  Addresses are naturals (the driver maps `u1.. → 1..`, `d1.. → 101..`, `p1.. → 201..`);
  tokens are naturals, `lockedTok = 0` is the locked token (an SFT: deposits of it have a nonce
  and are burned on receipt; fee shares in it are minted on demand by the factory).

  Ghost state (what C10 talks about): `bal` = real ESDT balance of the collector per token,
  `collected w t` = what was frozen into `totalRewardsForWeek(w)` for token `t` (never cleared),
  `paid w t` = running sum of payments made for week `w` in token `t`.
-/
import MxModel.Core.Weekly

namespace Mx.Fees

open Mx.Weekly

/-- `additional_locked_tokens::BLOCKS_IN_WEEK` -/
def BLOCKS_IN_WEEK : Nat := 100800
/-- `energy_factory::lock_options::EPOCHS_PER_MONTH` -/
def EPOCHS_PER_MONTH : Nat := 30
/-- role number of the locked token -/
def lockedTok : Tok := 0

/-- two-key map update -/
def upd2 (f : Nat → Tok → Nat) (w : Nat) (t : Tok) (v : Nat) : Nat → Tok → Nat :=
  fun w' t' => if w' = w ∧ t' = t then v else f w' t'

/-- The part of the collector's state the weekly module's reward hook reads and writes:
    `accumulatedFees(week, token)`, the `allTokens` vector, and the ghost ledgers. -/
structure Acc where
  accumulated : Nat → Tok → Nat
  allTokens : List Tok
  collected : Nat → Tok → Nat
  paid : Nat → Tok → Nat

structure St where
  w : Weekly.St
  a : Acc
  /-- `firstWeekStartEpoch` (block epoch at deployment) -/
  firstWeek : Nat
  /-- current block epoch -/
  epoch : Nat
  /-- `knownContracts` -/
  knownContracts : List Nat
  /-- `scWhitelistAddresses` -/
  whitelist : List Nat
  /-- `allowExternalClaimRewards(user)` -/
  allowExternal : Nat → Bool
  paused : Bool
  /-- `lockEpochs` (a listed lock option of the factory) -/
  lockEpochs : Nat
  /-- `lockedTokensPerBlock` -/
  perBlock : Nat
  /-- `lastLockedTokenAddWeek` -/
  lastAddWeek : Nat
  /-- the factory's `userEnergy(user)` raw entries (`none` = empty) -/
  energy : Nat → Option Energy
  /-- ghost: real balance of the collector -/
  bal : Tok → Nat
  /-- ghost: locked tokens minted for claimers through `lockVirtual` -/
  lockedMinted : Nat

/-- `add_known_tokens` for one token: appended to `allTokens` unless already known -/
def addTok (l : List Tok) (t : Tok) : List Tok := if t ∈ l then l else l ++ [t]

def init (epoch lockEpochs : Nat) (known : List Tok) (contracts whitelist : List Nat) : St :=
  { w := Weekly.St.init
    a := { accumulated := fun _ _ => 0, allTokens := known.foldl addTok [lockedTok],
           collected := fun _ _ => 0, paid := fun _ _ => 0 }
    firstWeek := epoch, epoch := epoch, knownContracts := contracts, whitelist := whitelist
    allowExternal := fun _ => false, paused := false, lockEpochs := lockEpochs, perBlock := 0
    lastAddWeek := 0, energy := fun _ => none, bal := fun _ => 0, lockedMinted := 0 }

def St.week (s : St) : Option Nat := weekOf s.epoch s.firstWeek

/-! ### the reward hook -/

/-- `collect_rewards_for_week`: for every token of `allTokens`, TAKE `accumulatedFees(week, token)`;
    tokens with a non-zero amount form the week's total.  Ghost: `collected` records it. -/
def collectFees : CollectFn Acc := fun a week =>
  let res := a.allTokens.filterMap fun t =>
    if a.accumulated week t ≠ 0 then some (t, a.accumulated week t) else none
  ({ a with
      accumulated := fun w t => if w = week ∧ t ∈ a.allTokens then 0 else a.accumulated w t
      collected := fun w t =>
        if w = week ∧ t ∈ a.allTokens then a.collected w t + a.accumulated w t else a.collected w t },
   res)

/-- ghost: add a list of payments to the week's paid ledger -/
def recordPaid (paid : Nat → Tok → Nat) (week : Nat) : List (Tok × Nat) → Nat → Tok → Nat
  | [] => paid
  | p :: ps => recordPaid (upd2 paid week p.1 (paid week p.1 + p.2)) week ps

/-- the collector's `get_user_rewards_for_week` = the module default, plus the ghost ledger. -/
def feesRewards : RewardFn Acc := fun g a week e E =>
  (defaultRewards collectFees g a week e E).map fun r =>
    let a' := r.2.1
    (r.1, { a' with paid := recordPaid a'.paid week r.2.2 }, r.2.2)

/-! ### endpoints -/

/-- results: the payments a claim returns (locked-token payment last), empty otherwise -/
structure Out where
  pays : List (Tok × Nat) := []

/-- `accumulate_additional_locked_tokens`: once per week, the PREVIOUS week receives
    `perBlock · BLOCKS_IN_WEEK` locked tokens. -/
def accumulateAdditional (s : St) (W : Nat) : St :=
  if s.lastAddWeek = W then s
  else
    let acc := upd2 s.a.accumulated (W - 1) lockedTok
      (s.a.accumulated (W - 1) lockedTok + s.perBlock * BLOCKS_IN_WEEK)
    { s with a := { s.a with accumulated := acc }, lastAddWeek := W }

/-- effect of the factory's `lockVirtual(base, amount, lockEpochs, dest, energyAddress)` on the
    entry of `energyAddress`: entry depleted to now, then `add_after_token_lock`. -/
def lockVirtualEnergy (entry : Option Energy) (epoch lockEpochs amount : Nat) : Option Energy := do
  let unlock := (epoch + lockEpochs) - (epoch + lockEpochs) % EPOCHS_PER_MONTH
  req (epoch < unlock)
  let e := Energy.queried entry epoch
  pure { amount := e.amount + ((amount * (unlock - epoch) : Nat) : Int)
         lastUpdateEpoch := e.lastUpdateEpoch
         totalLocked := e.totalLocked + amount }

/-- debit the collector's balance for every payment (each transfer is checked by the VM) -/
def payOut (bal : Tok → Nat) : List (Tok × Nat) → Option (Tok → Nat)
  | [] => some bal
  | p :: ps => (sub? (bal p.1) p.2).bind fun v => payOut (upd bal p.1 v) ps

/-- `claim_rewards(caller, original_caller)`: rewards are computed for `orig`; the non-locked
    ones are sent to `caller`; the locked-token ones are summed and minted through `lockVirtual`
    for `caller`, with the energy going to `orig`. -/
def claimCore (s : St) (orig : Nat) : Option (St × Out) := do
  let W ← s.week
  let s1 := accumulateAdditional s W
  let cur := Energy.queried (s1.energy orig) s1.epoch
  let r ← claimMulti feesRewards s1.w s1.a orig W cur
  let s2 := { s1 with w := r.1, a := r.2.1 }
  let rewards := r.2.2
  if rewards.isEmpty then pure (s2, {})
  else
    let others := rewards.filter fun p => p.1 ≠ lockedTok
    let lockedSum := ((rewards.filter fun p => p.1 = lockedTok).map (·.2)).sum
    let bal ← payOut s2.bal others
    let s3 := { s2 with bal := bal }
    if lockedSum = 0 then pure (s3, { pays := others })
    else do
      let e ← lockVirtualEnergy (s3.energy orig) s3.epoch s3.lockEpochs lockedSum
      pure ({ s3 with energy := upd s3.energy orig (some e), lockedMinted := s3.lockedMinted + lockedSum },
            { pays := others ++ [(lockedTok, lockedSum)] })

/-- endpoint `claimRewards(opt_original_caller)` -/
def claimRewards (s : St) (caller : Nat) (orig : Option Nat) : Option (St × Out) := do
  req (s.paused = false)
  match orig with
  | some o => do
      req (caller ∈ s.whitelist)
      claimCore s o
  | none => claimCore s caller

/-- endpoint `claimBoostedRewards(opt_original_caller)`: for another user only if that user
    allowed it; everything goes to that user. -/
def claimBoosted (s : St) (caller : Nat) (orig : Option Nat) : Option (St × Out) := do
  req (s.paused = false)
  match orig with
  | some o => do
      req (s.allowExternal o = true)
      claimCore s o
  | none => claimCore s caller

/-- endpoint `depositSwapFees` with a single ESDT payment `(tok, nonce, amount)`.
    A payment with a nonce must be the locked token and is burned; a locked-token payment
    without nonce cannot exist (SFT balances always carry a nonce ≥ 1) — platform guard.
    The contract has no check on the amount (the white-box VM lets a zero transfer through). -/
def deposit (s : St) (caller : Nat) (tok : Tok) (nonce amount : Nat) : Option (St × Out) := do
  req (tok = lockedTok → 0 < nonce)
  req (caller ∈ s.knownContracts)
  req (tok ∈ s.a.allTokens)
  let W ← s.week
  req (0 < nonce → tok = lockedTok)
  let acc := upd2 s.a.accumulated W tok (s.a.accumulated W tok + amount)
  let bal := if nonce = 0 then upd s.bal tok (s.bal tok + amount) else s.bal
  pure ({ s with a := { s.a with accumulated := acc }, bal := bal }, {})

/-- endpoint `updateEnergyForUser(user)` (anyone may call it) -/
def updateEnergy (s : St) (user : Nat) : Option (St × Out) := do
  let W ← s.week
  let cur := Energy.queried (s.energy user) s.epoch
  let g ← updateEnergyForUser s.w user W cur
  pure ({ s with w := g }, {})

/-- owner endpoint `setLockedTokensPerBlock` -/
def setPerBlock (s : St) (n : Nat) : Option (St × Out) := do
  let W ← s.week
  pure ({ accumulateAdditional s W with perBlock := n }, {})

inductive Op
  | deposit (caller : Nat) (tok : Tok) (nonce amount : Nat)
  | claim (caller : Nat) (orig : Option Nat)
  | claimBoosted (caller : Nat) (orig : Option Nat)
  | updateEnergy (user : Nat)
  /-- the real factory now stores this entry for the user (result of a real factory operation) -/
  | setEnergy (user : Nat) (e : Energy)
  | setPerBlock (n : Nat)
  | addToken (t : Tok)
  | removeToken (t : Tok)
  | addContract (c : Nat)
  | removeContract (c : Nat)
  | allowExternal (user : Nat) (b : Bool)
  | pause (b : Bool)
  | advance (epochs : Nat)

def step (s : St) : Op → Option (St × Out)
  | .deposit c t n a => deposit s c t n a
  | .claim c o => claimRewards s c o
  | .claimBoosted c o => claimBoosted s c o
  | .updateEnergy u => updateEnergy s u
  | .setEnergy u e => some ({ s with energy := upd s.energy u (some e) }, {})
  | .setPerBlock n => setPerBlock s n
  | .addToken t => some ({ s with a := { s.a with allTokens := addTok s.a.allTokens t } }, {})
  | .removeToken t => some ({ s with a := { s.a with allTokens := s.a.allTokens.erase t } }, {})
  | .addContract c =>
      some ({ s with knownContracts :=
                if c ∈ s.knownContracts then s.knownContracts else s.knownContracts ++ [c] }, {})
  | .removeContract c => some ({ s with knownContracts := s.knownContracts.erase c }, {})
  | .allowExternal u b => some ({ s with allowExternal := upd s.allowExternal u b }, {})
  | .pause b => some ({ s with paused := b }, {})
  | .advance n => some ({ s with epoch := s.epoch + n }, {})

def run (s : St) (ops : List Op) : St :=
  ops.foldl (fun s o => match step s o with | some r => r.1 | none => s) s

end Mx.Fees
