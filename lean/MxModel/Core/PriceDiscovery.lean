/-
  Model of `dex/price-discovery`.  Import-free.

  Transcribed from: lib.rs (init guards, deposit, withdraw, redeem, compute_bought_tokens,
  calculate_price), phase.rs (get_current_phase, require_*_allowed), redeem_token.rs
  (mint_and_send / burn with and without supply decrease), common_storage.rs,
  common/modules/locking_module (lock_tokens_and_forward) and the part of
  locked-asset/simple-lock it reaches (`lock_and_send`: tokens are wrapped 1:1 into a LOCKED
  SFT while `epoch < unlock_epoch`, otherwise handed over as they are).

  A failed transaction is `none` (state unchanged by atomicity).  Every `require!`, every
  checked `BigUint` subtraction, every division by a possibly-zero value and every ESDT debit
  is an explicit guard.

  What is modelled as a pass-through: the simple-lock contract (amount in = LOCKED amount out,
  the underlying tokens stay on the simple-lock account: `lock`).  Not modelled: the redeem
  token issue flow (`issueRedeemToken`, `createInitialRedeemTokens`; the token id, roles and
  the one initial unit of each nonce are installed directly, as the repo's tests do),
  owner-only setters of the locking module (`setLockingScAddress`, `setUnlockEpoch`), events.
-/
import MxModel.Core.Arith

namespace Mx.PD

/-- `MAX_PERCENTAGE` = 10^13 = 100 % (common_storage.rs) -/
def MAXP : Nat := 10000000000000

/-- the two sides of the sale: the launched token (redeem nonce 1) and the accepted token
    (redeem nonce 2). -/
inductive Tok | launched | accepted
  deriving DecidableEq, Repr

def Tok.other : Tok → Tok
  | .launched => .accepted
  | .accepted => .launched

/-- phase.rs `Phase` -/
inductive Phase
  | idle
  | noPenalty
  | linear (pct : Nat)
  | fixed (pct : Nat)
  | redeem
  deriving DecidableEq, Repr

/-- `Phase::get_penalty_percentage` -/
def Phase.pct : Phase → Nat
  | .linear p => p
  | .fixed p => p
  | _ => 0

/-- position of a phase in the documented order -/
def Phase.rank : Phase → Nat
  | .idle => 0
  | .noPenalty => 1
  | .linear _ => 2
  | .fixed _ => 3
  | .redeem => 4

/-- `require_deposit_allowed` -/
def Phase.depositAllowed : Phase → Bool
  | .noPenalty => true
  | .linear _ => true
  | _ => false

/-- `require_withdraw_allowed` -/
def Phase.withdrawAllowed : Phase → Bool
  | .idle => false
  | .redeem => false
  | _ => true

/-- `require_redeem_allowed` -/
def Phase.redeemAllowed : Phase → Bool
  | .redeem => true
  | _ => false

/-- everything `init` stores and nothing ever changes afterwards -/
structure Cfg where
  start : Nat
  /-- `no_limit_phase_duration_blocks` -/
  d1 : Nat
  /-- `linear_penalty_phase_duration_blocks` -/
  d2 : Nat
  /-- `fixed_penalty_phase_duration_blocks` -/
  d3 : Nat
  pmin : Nat
  pmax : Nat
  pfix : Nat
  /-- `min_launched_token_price` -/
  minPrice : Nat
  /-- `price_precision` = 10^launched_token_decimals -/
  prec : Nat
  /-- `unlock_epoch` of the locking module -/
  unlock : Nat
  deriving DecidableEq, Repr

/-- the guards of `init` on the stored configuration (decimals ≤ 18 ⇒ `prec > 0`). -/
def Cfg.ok (c : Cfg) : Prop :=
  c.pmin ≤ c.pmax ∧ c.pmax < MAXP ∧ c.pfix < MAXP ∧ 0 < c.prec ∧ 0 < c.start ∧ 0 < c.unlock

instance (c : Cfg) : Decidable c.ok := by unfold Cfg.ok; infer_instance

/-- first block of the linear phase / first block after it / first block of the redeem phase -/
def Cfg.e1 (c : Cfg) : Nat := c.start + c.d1
def Cfg.e2 (c : Cfg) : Nat := c.start + c.d1 + c.d2
def Cfg.e3 (c : Cfg) : Nat := c.start + c.d1 + c.d2 + c.d3

/-- penalty percentage of the linear phase, `passed` blocks after its first block -/
def Cfg.linearPct (c : Cfg) (passed : Nat) : Nat :=
  c.pmin + (if 1 < c.d2 then (c.pmax - c.pmin) * passed / (c.d2 - 1) else 0)

/-- `get_current_phase` as a function of the block nonce -/
def Cfg.phaseAt (c : Cfg) (b : Nat) : Phase :=
  if b < c.start then .idle
  else if b < c.e1 then .noPenalty
  else if b < c.e2 then .linear (c.linearPct (b - c.e1))
  else if b < c.e3 then .fixed c.pfix
  else .redeem

/-- one side of the sale -/
structure Side where
  /-- tracked pool: `launched_token_balance` / `accepted_token_balance` -/
  bal : Nat
  /-- `totalCirculatingSupply(nonce)` -/
  sup : Nat
  /-- ghost: real ESDT balance of the contract in this token -/
  real : Nat
  /-- ghost: this token held by the simple-lock contract (backing of LOCKED SFTs) -/
  lock : Nat
  /-- ghost: redeem tokens of this nonce handed in through `redeem` (burned, supply not decreased) -/
  red : Nat
  /-- ghost: cumulative amount of this token paid out by `redeem` -/
  paid : Nat
  /-- users' wallets in this token -/
  w : Nat → Nat
  /-- users' redeem tokens of this nonce -/
  h : Nat → Nat
  /-- users' LOCKED SFTs wrapping this token -/
  k : Nat → Nat

structure St where
  cfg : Cfg
  /-- number of user accounts (`1 … n`) -/
  n : Nat
  block : Nat
  epoch : Nat
  L : Side
  A : Side

/-- results of an operation; meaning per operation documented at each `def`. -/
structure Out where
  v1 : Nat := 0
  v2 : Nat := 0
  v3 : Nat := 0
  deriving DecidableEq, Repr

def St.side (s : St) : Tok → Side
  | .launched => s.L
  | .accepted => s.A

def St.setSide (s : St) (t : Tok) (x : Side) : St :=
  match t with
  | .launched => { s with L := x }
  | .accepted => { s with A := x }

/-- function update -/
def upd (f : Nat → Nat) (c v : Nat) : Nat → Nat := fun u => if u = c then v else f u

/-- `get_current_phase` -/
def St.phase (s : St) : Phase := s.cfg.phaseAt s.block

/-- redeem-token nonce of a side -/
def Tok.nonce : Tok → Nat
  | .launched => 1
  | .accepted => 2

/-- `calculate_price` = view `getCurrentPrice` on tracked balances `l`, `a` -/
def priceOf (c : Cfg) (l a : Nat) : Option Nat := do
  req (0 < l)
  pure (a * c.prec / l)

def St.price (s : St) : Option Nat := priceOf s.cfg s.L.bal s.A.bal

/-- a known account signs the transaction -/
def St.isUser (s : St) (c : Nat) : Prop := 1 ≤ c ∧ c ≤ s.n

instance (s : St) (c : Nat) : Decidable (s.isUser c) := by unfold St.isUser; infer_instance

/-- `deposit` paying `amt` of token `t` by user `c`.
    Out = (redeem tokens minted, their nonce, 0).  (A zero-value ESDT transfer never reaches
    a contract: the protocol rejects it; the harness refuses it the same way.) -/
def deposit (s : St) (c : Nat) (t : Tok) (amt : Nat) : Option (St × Out) := do
  req (s.isUser c)
  req (0 < amt)
  req (s.phase.depositAllowed = true)
  let x := s.side t
  let wc ← sub? (x.w c) amt                       -- the payment leaves the caller's wallet
  let x1 := { x with w := upd x.w c wc, real := x.real + amt, bal := x.bal + amt }
  let s1 := s.setSide t x1
  let p ← s1.price                                 -- "No launched tokens available"
  req (p = 0 ∨ s.cfg.minPrice ≤ p ∨ t = .accepted)
  let x2 := { x1 with sup := x1.sup + amt, h := upd x1.h c (x1.h c + amt) }
  pure (s.setSide t x2, ⟨amt, t.nonce, 0⟩)

/-- `withdraw` handing in `amt` redeem tokens of side `t` by user `c`.
    Out = (tokens returned, penalty kept by the pool, 0). -/
def withdraw (s : St) (c : Nat) (t : Tok) (amt : Nat) : Option (St × Out) := do
  req (s.isUser c)
  req (0 < amt)
  req (s.phase.withdrawAllowed = true)
  let x := s.side t
  let hc ← sub? (x.h c) amt                       -- the redeem tokens leave the caller
  let sup ← sub? x.sup amt                        -- `burn_redeem_token`
  let pen := amt * s.phase.pct / MAXP
  let wd ← sub? amt pen
  let bal ← sub? x.bal wd                         -- `decrease_balance`
  let x1 := { x with h := upd x.h c hc, sup := sup, bal := bal }
  let s1 := s.setSide t x1
  let p ← s1.price
  req (s.cfg.minPrice ≤ p)
  let real ← sub? x.real wd                       -- `send().direct`
  let x2 := { x1 with real := real, w := upd x1.w c (x1.w c + wd) }
  pure (s.setSide t x2, ⟨wd, pen, 0⟩)

/-- `redeem` handing in `amt` redeem tokens of side `t` by user `c`; pays the OTHER token.
    Out = (tokens bought, 1 if they arrive wrapped in LOCKED SFTs else 0, 0). -/
def redeem (s : St) (c : Nat) (t : Tok) (amt : Nat) : Option (St × Out) := do
  req (s.isUser c)
  req (0 < amt)
  req (s.phase.redeemAllowed = true)
  let x := s.side t
  let y := s.side t.other
  let hc ← sub? (x.h c) amt                       -- the redeem tokens leave the caller
  req (x.sup ≠ 0)                                 -- BigUint division by zero aborts
  let bought := y.bal * amt / x.sup
  let real ← sub? y.real bought                   -- forwarded to simple-lock / the caller
  let x1 := { x with h := upd x.h c hc, red := x.red + amt }
  let y1 : Side :=
    if s.epoch < s.cfg.unlock then
      { y with real := real, paid := y.paid + bought, lock := y.lock + bought,
               k := upd y.k c (y.k c + bought) }
    else
      { y with real := real, paid := y.paid + bought, w := upd y.w c (y.w c + bought) }
  pure ((s.setSide t x1).setSide t.other y1,
        ⟨bought, if s.epoch < s.cfg.unlock then 1 else 0, 0⟩)

/-! ### views -/

/-- `getCurrentPhase` -/
def viewPhase (s : St) : Phase := s.phase
/-- `getCurrentPrice` -/
def viewPrice (s : St) : Option Nat := s.price
/-- `getRedeemTokenTotalCirculatingSupply(nonce)` -/
def viewSupply (s : St) (t : Tok) : Nat := (s.side t).sup

/-! ### the state machine -/

inductive Op
  | deposit (c : Nat) (t : Tok) (amt : Nat)
  | withdraw (c : Nat) (t : Tok) (amt : Nat)
  | redeem (c : Nat) (t : Tok) (amt : Nat)
  /-- the chain moves on to block `b` -/
  | advance (b : Nat)
  /-- the chain moves on to epoch `e` -/
  | epoch (e : Nat)
  deriving DecidableEq, Repr

def step (s : St) : Op → Option (St × Out)
  | .deposit c t a => deposit s c t a
  | .withdraw c t a => withdraw s c t a
  | .redeem c t a => redeem s c t a
  | .advance b => if s.block ≤ b then some ({ s with block := b }, {}) else none
  | .epoch e => if s.epoch ≤ e then some ({ s with epoch := e }, {}) else none

/-- the state after a history: failed transactions leave the state unchanged. -/
def run (s : St) (ops : List Op) : St :=
  ops.foldl (fun s o => match step s o with | some (s', _) => s' | none => s) s

/-- a side right after deployment: every user `1 … n` owns `funds` of the token. -/
def Side.init (n funds : Nat) : Side :=
  { bal := 0, sup := 0, real := 0, lock := 0, red := 0, paid := 0,
    w := fun u => if 1 ≤ u ∧ u ≤ n then funds else 0, h := fun _ => 0, k := fun _ => 0 }

/-- a freshly deployed contract at block 0, epoch 0 (`init` requires `0 < start`, `0 < unlock`). -/
def init (cfg : Cfg) (n fundsL fundsA : Nat) : St :=
  { cfg := cfg, n := n, block := 0, epoch := 0,
    L := Side.init n fundsL, A := Side.init n fundsA }

end Mx.PD
