/-
  Model of `locked-asset/proxy_dex` — the proxy's OWN bookkeeping only.  Import-free.

  Transcribed from: proxy_pair.rs, proxy_farm.rs, proxy_common.rs, wrapped_lp_attributes.rs,
  wrapped_farm_attributes.rs, wrapped_lp_token_merge.rs, wrapped_farm_token_merge.rs,
  energy_update.rs, external_merging.rs, pair_interactions.rs, farm_interactions.rs and
  `FixedSupplyToken::rule_of_three_non_zero_result`.

  Everything the proxy obtains from another contract is an ARGUMENT of the operation (a
  "callee response"): LP minted / amounts used by the pair, tokens paid out by the pair, farm
  token created, farming tokens returned by the farm on exit (after its penalty), rewards, the
  locked token produced by the energy factory's `mergeTokens` / `extendLockPeriod`.  The harness
  records these responses from the real contracts; theorems quantify over all of them.

  A failed transaction is `none` (state unchanged).  Token tables:
  * `wl` wrapped LP tokens, `wf` wrapped farm tokens; the list index IS the token nonce
    (`nft_create` numbers them 1,2,3,…; index 0 is an empty dummy).  Attributes are immutable;
    `circ` (amount in user wallets) etc. are ghost balances.
  * `lp`, `lk`, `hf` … the proxy's real token balances (ghost ledger, observable by the harness).
  * `minted`, `burnB`, `burnL`, `eDed`: cumulative base asset minted / burned, locked tokens
    burned by the proxy and energy deducted from users for them.
-/
import MxModel.Core.Arith

namespace Mx.ProxyDex

/-! ### bags (balances per token nonce) -/

abbrev Bag := Nat → Nat

def Bag.add (b : Bag) (k a : Nat) : Bag := fun i => if i = k then b i + a else b i

/-- debit; fails when the balance is insufficient (the VM would fail the transfer / burn) -/
def Bag.sub? (b : Bag) (k a : Nat) : Option Bag :=
  if a ≤ b k then some (fun i => if i = k then b i - a else b i) else none

def Bag.set (b : Bag) (k v : Nat) : Bag := fun i => if i = k then v else b i

/-! ### `FixedSupplyToken::rule_of_three_non_zero_result` -/

/-- `full * x / total` (exactly `full` when `x = total`); error "Zero amount" when the result is 0.
    A zero `total` with `x ≠ total` is a division by zero in the code: also an error. -/
def part (full total x : Nat) : Option Nat :=
  let r := if x = total then full else full * x / total
  if r = 0 then none else some r

/-! ### token records -/

/-- wrapped LP token: attributes `{lp_token_amount = total, locked_tokens = (k, locked)}` -/
structure WLp where
  total : Nat
  k : Nat
  locked : Nat
  /-- ghost: amount in user wallets -/
  circ : Nat
  /-- ghost: amount the proxy holds as the proxy-farming token of outstanding wrapped farm tokens -/
  held : Nat
  /-- ghost: amount left behind in the proxy, no longer referenced by anything -/
  orph : Nat
  /-- ghost: locked tokens of nonce `k` still reserved for the outstanding amount `circ + held` -/
  rem : Nat
  deriving DecidableEq, Repr

inductive Kind | locked | wlp
  deriving DecidableEq, Repr

/-- wrapped farm token: attributes `{farm_token = (fn, fa) of farm `farm`, proxy_farming_token = (kind, pn, pa)}` -/
structure WFarm where
  farm : Nat
  fn : Nat
  fa : Nat
  kind : Kind
  pn : Nat
  pa : Nat
  /-- ghost: amount in user wallets -/
  circ : Nat
  /-- ghost: farm tokens / proxy-farming tokens still reserved for the outstanding amount -/
  remF : Nat
  remP : Nat
  deriving DecidableEq, Repr

/-- a locked token reported by a callee: nonce, amount, unlock epoch of that nonce -/
structure LkTok where
  k : Nat
  amt : Nat
  unl : Nat
  deriving DecidableEq, Repr

structure St where
  now : Nat
  wl : List WLp
  wf : List WFarm
  /-- unlock epoch of every locked-token nonce the proxy was told about (input facts) -/
  unl : Bag
  /-- proxy balances: LP tokens, locked tokens per nonce, farm tokens per (farm, nonce) -/
  lp : Nat
  lk : Bag
  hf : Nat → Bag
  /-- cumulative: base asset minted / burned by the proxy, locked tokens burned by the proxy -/
  minted : Nat
  burnB : Nat
  burnL : Nat
  /-- cumulative energy deducted from users for burned locked tokens -/
  eDed : Int

def WLp.dummy : WLp := ⟨0, 0, 0, 0, 0, 0, 0⟩
def WFarm.dummy : WFarm := ⟨0, 0, 0, .locked, 0, 0, 0, 0, 0⟩

def init (now : Nat) : St :=
  { now := now, wl := [WLp.dummy], wf := [WFarm.dummy], unl := fun _ => 0, lp := 0,
    lk := fun _ => 0, hf := fun _ _ => 0, minted := 0, burnB := 0, burnL := 0, eDed := 0 }

/-- what an operation hands to the caller / destroys.  A pair `(nonce, amount)` with amount 0
    means "nothing". -/
structure Out where
  base : Nat := 0
  locked : Nat × Nat := (0, 0)
  other : Nat := 0
  wOut : Nat × Nat := (0, 0)
  fOut : Nat × Nat := (0, 0)
  rew : Nat × Nat := (0, 0)
  burned : Nat × Nat := (0, 0)
  eDed : Int := 0
  newW : Nat := 0
  newF : Nat := 0
  deriving DecidableEq, Repr

/-- farm 0 is the farm whose farming token is the base asset (`burn_if_base_asset`) -/
def farmIsBase (farm : Nat) : Bool := farm = 0

/-! ### building blocks -/

/-- energy contribution `amount * (unlock - now)` of locked tokens of nonce `k` -/
def energyOf (s : St) (k amt : Nat) : Int := (amt : Int) * ((s.unl k : Int) - (s.now : Int))

/-- `burn_locked_tokens_and_update_energy` (the tokens have already left the ledger `lk`) -/
def burnLocked (s : St) (k amt : Nat) : St :=
  { s with burnL := s.burnL + amt, eDed := s.eDed + energyOf s k amt }

def setW (s : St) (w : Nat) (r : WLp) : St := { s with wl := s.wl.set w r }
def setF (s : St) (f : Nat) (r : WFarm) : St := { s with wf := s.wf.set f r }

/-- a user pays `x` of wrapped LP nonce `w`; the proxy burns it and takes the pro-rata locked
    tokens out of its reserve.  Returns the record and the locked part.  `orphan = true`: the
    wrapped LP tokens are not burned but stay in the proxy, unreferenced (the wrapped LP of the
    virtual position in `enterFarmProxy` with merging). -/
def takeW (s : St) (w x : Nat) (orphan : Bool := false) : Option (St × WLp × Nat) := do
  let r ← s.wl[w]?
  req (0 < x)
  let c ← sub? r.circ x
  let p ← part r.locked r.total x
  let rem ← sub? r.rem p
  let lk ← s.lk.sub? r.k p
  pure ({ setW s w { r with circ := c, rem := rem, orph := if orphan then r.orph + x else r.orph }
          with lk := lk }, r, p)

/-- what happens to the proxy-farming part of a wrapped farm token that is being redeemed -/
inductive Mode
  /-- stays in the proxy, to be recorded again by a new wrapped farm token (claim) -/
  | keep
  /-- handed to the caller as it is (exit without penalty) -/
  | out
  /-- taken apart: locked tokens leave the reserve (to the factory, to be burned, or to back a
      new wrapped token).  For a wrapped-LP part, `orphan = true` leaves the wrapped LP tokens in
      the proxy unreferenced (the code does not burn them), `false` burns them. -/
  | dissolve (orphan : Bool)
  deriving DecidableEq, Repr

/-- result of `takeF`: the record, the proxy-farming part `p`, and the locked tokens `(k, q)` set
    free by a `dissolve` (for kind `locked` with mode `out` also `(pn, p)`) -/
structure Taken where
  r : WFarm
  p : Nat
  k : Nat
  q : Nat
  deriving DecidableEq, Repr

/-- first half of `takeF`: a user pays `x` of wrapped farm nonce `f`; the proxy burns it and the
    farm tokens leave the proxy (`hf`).  Returns the record and its pro-rata proxy-farming part. -/
def takeF0 (s : St) (f x : Nat) : Option (St × WFarm × Nat) := do
  let r ← s.wf[f]?
  req (0 < x)
  let c ← sub? r.circ x
  let p ← part r.pa r.fa x
  let rf ← sub? r.remF x
  let rp ← sub? r.remP p
  let hfb ← (s.hf r.farm).sub? r.fn x
  pure ({ setF s f { r with circ := c, remF := rf, remP := rp } with
          hf := fun g => if g = r.farm then hfb else s.hf g }, r, p)

/-- second half: what happens to the proxy-farming part `p` of record `r`; returns the locked
    tokens `(k, q)` that leave the proxy's reserve -/
def settle (s : St) (r : WFarm) (p : Nat) : Mode → Option (St × Nat × Nat)
  | .keep => some (s, 0, 0)
  | .out =>
      match r.kind with
      | .locked => do
          let lk ← s.lk.sub? r.pn p
          pure ({ s with lk := lk }, r.pn, p)
      | .wlp => do
          let rw ← s.wl[r.pn]?
          let h ← sub? rw.held p
          pure (setW s r.pn { rw with held := h, circ := rw.circ + p }, 0, 0)
  | .dissolve orphan =>
      match r.kind with
      | .locked => do
          let lk ← s.lk.sub? r.pn p
          pure ({ s with lk := lk }, r.pn, p)
      | .wlp => do
          let rw ← s.wl[r.pn]?
          let h ← sub? rw.held p
          let q ← part rw.locked rw.total p
          let rem ← sub? rw.rem q
          let lk ← s.lk.sub? rw.k q
          pure ({ setW s r.pn { rw with held := h, rem := rem,
                                         orph := if orphan then rw.orph + p else rw.orph }
                    with lk := lk }, rw.k, q)

/-- a user pays `x` of wrapped farm nonce `f`; the proxy burns it, the farm tokens leave the
    proxy, and the pro-rata proxy-farming part is treated according to `mode`. -/
def takeF (s : St) (f x : Nat) (mode : Mode) : Option (St × Taken) := do
  let (s1, r, p) ← takeF0 s f x
  let (s2, k, q) ← settle s1 r p mode
  pure (s2, ⟨r, p, k, q⟩)

/-- create a wrapped LP token; returns its nonce.  `toUser`: minted to the caller, else kept. -/
def newW (s : St) (total k locked : Nat) (toUser : Bool) : St × Nat :=
  ({ s with wl := s.wl ++ [⟨total, k, locked, if toUser then total else 0,
                            if toUser then 0 else total, 0, locked⟩],
            lk := s.lk.add k locked }, s.wl.length)

/-- create a wrapped farm token for the caller; the farm tokens enter the proxy's balance -/
def newF (s : St) (farm fn fa : Nat) (kind : Kind) (pn pa : Nat) : St × Nat :=
  ({ s with wf := s.wf ++ [⟨farm, fn, fa, kind, pn, pa, fa, fa, pa⟩],
            hf := fun g => if g = farm then (s.hf g).add fn fa else s.hf g }, s.wf.length)

def learn (s : St) (t : LkTok) : St := { s with unl := s.unl.set t.k t.unl }

def learnOpt (s : St) : Option LkTok → St
  | none => s
  | some t => learn s t

def rewOf : Option LkTok → Nat × Nat
  | none => (0, 0)
  | some t => (t.k, t.amt)

/-- locked tokens that reach the proxy without any wrapped token recording them -/
def addStray (s : St) : List LkTok → St
  | [] => s
  | t :: ts => addStray { learn s t with lk := s.lk.add t.k t.amt } ts

/-- take several wrapped LP payments (merge inputs); returns the total amount paid -/
def takeWs (s : St) : List (Nat × Nat) → Option (St × Nat)
  | [] => some (s, 0)
  | (w, x) :: l => do
      let (s1, _, _) ← takeW s w x
      let (s2, t) ← takeWs s1 l
      pure (s2, x + t)

/-- take several wrapped farm payments (merge inputs) that must all be of farm `farm` and kind
    `kind` (`error_if_not_externally_mergeable`); every proxy-farming part is dissolved (wrapped
    LP parts are left behind in the proxy).  Returns the total of the proxy-farming parts. -/
def takeFs (s : St) (farm : Nat) (kind : Kind) : List (Nat × Nat) → Option (St × Nat)
  | [] => some (s, 0)
  | (f, x) :: l => do
      let (s1, t) ← takeF s f x (.dissolve true)
      req (t.r.farm = farm ∧ t.r.kind = kind)
      let (s2, tot) ← takeFs s1 farm kind l
      pure (s2, t.p + tot)

/-! ### operations -/

/-- `addLiquidityProxy`: locked `(k, la)` + `oa` of the other token; the pair mints `lp` LP and
    uses `ul` / `uo`.  With `merge ≠ []` the new position is merged with the given wrapped LP
    payments and `mk` is the factory's merged locked token. -/
def addLiq (s : St) (k la oa : Nat) (merge : List (Nat × Nat)) (lp ul uo : Nat)
    (mk : Option LkTok) : Option (St × Out) := do
  req (0 < la ∧ 0 < oa)
  let lb ← sub? la ul
  let ob ← sub? oa uo
  let s0 : St := { s with minted := s.minted + la, burnB := s.burnB + lb, lp := s.lp + lp }
  match merge with
  | [] =>
      let (s1, n) := newW s0 lp k ul true
      pure (s1, { locked := (k, lb), other := ob, wOut := (n, lp), newW := n })
  | _ => do
      let t ← mk
      req (ul ≠ 0)
      let (s1, sx) ← takeWs s0 merge
      let (s2, n) := newW (learn s1 t) (lp + sx) t.k t.amt true
      pure (s2, { locked := (k, lb), other := ob, wOut := (n, lp + sx), newW := n })

/-- `removeLiquidityProxy` of `x` of wrapped LP `w`; the pair pays `rb` base asset and `ro` other. -/
def removeLiq (s : St) (w x rb ro : Nat) : Option (St × Out) := do
  let (s1, r, p) ← takeW s w x
  let lp ← sub? s1.lp x
  let s2 : St := { s1 with lp := lp }
  if rb > p then
    pure ({ s2 with burnB := s2.burnB + p },
          { base := rb - p, locked := (r.k, p), other := ro })
  else
    let extra := p - rb
    let s3 := if extra = 0 then s2 else burnLocked s2 r.k extra
    pure ({ s3 with burnB := s3.burnB + rb },
          { locked := (r.k, rb), other := ro, burned := (r.k, extra),
            eDed := if extra = 0 then 0 else energyOf s2 r.k extra })

/-- `enterFarmProxy` with locked tokens `(k, a)` into farm `farm`.  `ft` = farm token created;
    with `merge ≠ []`, `m` = (merged farm token, merged locked token). -/
def enterL (s : St) (farm k a : Nat) (merge : List (Nat × Nat)) (ft : Nat × Nat)
    (rew : Option LkTok) (m : Option ((Nat × Nat) × LkTok)) (stray : List LkTok) :
    Option (St × Out) := do
  req (0 < a)
  let s0 : St := learnOpt { s with minted := s.minted + a } rew
  match merge with
  | [] =>
      let s1 : St := { s0 with lk := s0.lk.add k a }
      let (s2, n) := newF s1 farm ft.1 ft.2 .locked k a
      pure (s2, { fOut := (n, ft.2), rew := rewOf rew, newF := n })
  | _ => do
      let (mf, t) ← m
      let (s1, _) ← takeFs s0 farm .locked merge
      let s2 : St := { learn s1 t with lk := s1.lk.add t.k t.amt }
      let (s3, n) := newF s2 farm mf.1 mf.2 .locked t.k t.amt
      pure (addStray s3 stray, { fOut := (n, mf.2), rew := rewOf rew, newF := n })

/-- `enterFarmProxy` with `a` of wrapped LP `w` into farm `farm`. -/
def enterW (s : St) (farm w a : Nat) (merge : List (Nat × Nat)) (ft : Nat × Nat)
    (rew : Option LkTok) (m : Option ((Nat × Nat) × LkTok)) (stray : List LkTok) :
    Option (St × Out) := do
  let r ← s.wl[w]?
  req (0 < a)
  let c ← sub? r.circ a
  let _q ← part r.locked r.total a
  let lp ← sub? s.lp a
  match merge with
  | [] =>
      let s0 : St := learnOpt { setW s w { r with circ := c, held := r.held + a } with lp := lp } rew
      let (s1, n) := newF s0 farm ft.1 ft.2 .wlp w a
      pure (s1, { fOut := (n, ft.2), rew := rewOf rew, newF := n })
  | _ => do
      let (mf, t) ← m
      -- the wrapped LP of the new position is taken apart like the merged ones and stays in the proxy
      let (s0, _, _) ← takeW s w a true
      let (s1, sp) ← takeFs (learnOpt { s0 with lp := lp } rew) farm .wlp merge
      let (s3, nw) := newW (learn s1 t) (a + sp) t.k t.amt false
      let (s4, n) := newF s3 farm mf.1 mf.2 .wlp nw (a + sp)
      pure (addStray s4 stray, { fOut := (n, mf.2), rew := rewOf rew, newW := nw, newF := n })

/-- `exitFarmProxy` of `x` of wrapped farm token `f`; the farm returns `farming` farming tokens.
    (`farm`, the address the caller names, only matters through the callee: a farm that is not
    the one the farm token belongs to rejects the call.) -/
def exitFarm (s : St) (farm f x farming : Nat) (rew : Option LkTok) : Option (St × Out) := do
  req (farming ≤ x)
  let (s1, t) ← takeF s f x (if x = farming then .out else .dissolve true)
  -- a farm only accepts (and returns the farming token of) its own farm token: the farming
  -- token that comes back is the one of the farm the redeemed farm token belongs to
  let s2 : St := if farmIsBase t.r.farm then { s1 with burnB := s1.burnB + farming }
                 else { s1 with lp := s1.lp + farming }
  if x = farming then
    match t.r.kind with
    | .locked => pure (learnOpt s2 rew, { locked := (t.r.pn, t.p), rew := rewOf rew })
    | .wlp => pure (learnOpt s2 rew, { wOut := (t.r.pn, t.p), rew := rewOf rew })
  else
    let pen := x - farming
    let remaining ← sub? t.p pen
    match t.r.kind with
    | .locked =>
        pure (learnOpt (burnLocked s2 t.r.pn pen) rew,
              { locked := (t.r.pn, remaining), rew := rewOf rew, burned := (t.r.pn, pen),
                eDed := energyOf s2 t.r.pn pen })
    | .wlp => do
        let rw ← s.wl[t.r.pn]?
        let qN ← part rw.locked rw.total remaining
        let extra ← sub? t.q qN
        let s3 := if extra = 0 then s2 else burnLocked s2 rw.k extra
        let (s4, nw) := newW s3 remaining rw.k qN true
        let o : Out := { wOut := (nw, remaining), rew := rewOf rew, burned := (rw.k, extra),
                         eDed := if extra = 0 then 0 else energyOf s2 rw.k extra, newW := nw }
        pure (learnOpt s4 rew, o)

/-- `claimRewardsProxy` of `x` of wrapped farm token `f`; the farm returns the new farm token `ft`. -/
def claim (s : St) (farm f x : Nat) (ft : Nat × Nat) (rew : Option LkTok) : Option (St × Out) := do
  let (s1, t) ← takeF s f x .keep
  let (s2, n) := newF (learnOpt s1 rew) t.r.farm ft.1 ft.2 t.r.kind t.r.pn t.p
  pure (s2, { fOut := (n, ft.2), rew := rewOf rew, newF := n })

/-- `mergeWrappedLpTokens` -/
def mergeLp (s : St) (l : List (Nat × Nat)) (t : LkTok) : Option (St × Out) := do
  req (2 ≤ l.length)
  let (s1, sx) ← takeWs s l
  let (s2, n) := newW (learn s1 t) sx t.k t.amt true
  pure (s2, { wOut := (n, sx), newW := n })

/-- `mergeWrappedFarmTokens` through farm `farm`; `mf` merged farm token, `t` merged locked token -/
def mergeFarmCore (s : St) (farm : Nat) (l : List (Nat × Nat)) (mf : Nat × Nat) (t : LkTok)
    (stray : List LkTok) : Option (St × Out) := do
  req (2 ≤ l.length)
  let (f0, _) ← l.head?
  let r0 ← s.wf[f0]?
  let (s1, sp) ← takeFs s r0.farm r0.kind l
  match r0.kind with
  | .locked =>
      let s2 : St := { learn s1 t with lk := s1.lk.add t.k t.amt }
      let (s3, n) := newF s2 r0.farm mf.1 mf.2 .locked t.k t.amt
      pure (addStray s3 stray, { fOut := (n, mf.2), newF := n })
  | .wlp =>
      let (s2, nw) := newW (learn s1 t) sp t.k t.amt false
      let (s3, n) := newF s2 r0.farm mf.1 mf.2 .wlp nw sp
      pure (addStray s3 stray, { fOut := (n, mf.2), newW := nw, newF := n })

/-- `mergeWrappedFarmTokens`: the boosted rewards `rew` the farm pays out while merging are
    forwarded to the caller (they used to stay in the proxy: finding F5, repaired in /repo);
    whatever the proxy does not forward is `stray`. -/
def mergeFarm (s : St) (farm : Nat) (l : List (Nat × Nat)) (mf : Nat × Nat) (t : LkTok)
    (rew : Option LkTok) (stray : List LkTok) : Option (St × Out) := do
  let (s', o) ← mergeFarmCore (learnOpt s rew) farm l mf t stray
  pure (s', { o with rew := rewOf rew })

/-- `increaseProxyPairTokenEnergy`: `t` is the factory's extended locked token -/
def incLp (s : St) (w x : Nat) (t : LkTok) : Option (St × Out) := do
  let (s1, _, _) ← takeW s w x
  let (s2, n) := newW (learn s1 t) x t.k t.amt true
  pure (s2, { wOut := (n, x), newW := n })

/-- `increaseProxyFarmTokenEnergy` -/
def incFarm (s : St) (f x : Nat) (t : LkTok) : Option (St × Out) := do
  let (s1, tk) ← takeF s f x (.dissolve false)
  match tk.r.kind with
  | .locked =>
      let s2 : St := { learn s1 t with lk := s1.lk.add t.k t.amt }
      let (s3, n) := newF s2 tk.r.farm tk.r.fn x .locked t.k t.amt
      pure (s3, { fOut := (n, x), newF := n })
  | .wlp =>
      let (s2, nw) := newW (learn s1 t) tk.p t.k t.amt false
      let (s3, n) := newF s2 tk.r.farm tk.r.fn x .wlp nw tk.p
      pure (s3, { fOut := (n, x), newW := nw, newF := n })

inductive Op
  | lock (t : LkTok)
  | advance (e : Nat)
  | noop
  | addLiq (k la oa : Nat) (merge : List (Nat × Nat)) (lp ul uo : Nat) (mk : Option LkTok)
  | removeLiq (w x rb ro : Nat)
  | enterL (farm k a : Nat) (merge : List (Nat × Nat)) (ft : Nat × Nat) (rew : Option LkTok)
      (m : Option ((Nat × Nat) × LkTok)) (stray : List LkTok)
  | enterW (farm w a : Nat) (merge : List (Nat × Nat)) (ft : Nat × Nat) (rew : Option LkTok)
      (m : Option ((Nat × Nat) × LkTok)) (stray : List LkTok)
  | exitFarm (farm f x farming : Nat) (rew : Option LkTok)
  | claim (farm f x : Nat) (ft : Nat × Nat) (rew : Option LkTok)
  | mergeLp (l : List (Nat × Nat)) (t : LkTok)
  | mergeFarm (farm : Nat) (l : List (Nat × Nat)) (mf : Nat × Nat) (t : LkTok)
      (rew : Option LkTok) (stray : List LkTok)
  | incLp (w x : Nat) (t : LkTok)
  | incFarm (f x : Nat) (t : LkTok)


def step (s : St) : Op → Option (St × Out)
  | .lock t => some (learn s t, {})
  | .advance e => some ({ s with now := max s.now e }, {})
  | .noop => some (s, {})
  | .addLiq k la oa merge lp ul uo mk => addLiq s k la oa merge lp ul uo mk
  | .removeLiq w x rb ro => removeLiq s w x rb ro
  | .enterL farm k a merge ft rew m stray => enterL s farm k a merge ft rew m stray
  | .enterW farm w a merge ft rew m stray => enterW s farm w a merge ft rew m stray
  | .exitFarm farm f x farming rew => exitFarm s farm f x farming rew
  | .claim farm f x ft rew => claim s farm f x ft rew
  | .mergeLp l t => mergeLp s l t
  | .mergeFarm farm l mf t rew stray => mergeFarm s farm l mf t rew stray
  | .incLp w x t => incLp s w x t
  | .incFarm f x t => incFarm s f x t

/-- a history: failed transactions leave the state unchanged -/
def run (s : St) (ops : List Op) : St :=
  ops.foldl (fun s o => match step s o with | some (s', _) => s' | none => s) s

/-- base + locked supply created through the proxy and not destroyed again -/
def St.net (s : St) : Int := (s.minted : Int) - (s.burnB : Int) - (s.burnL : Int)

end Mx.ProxyDex
