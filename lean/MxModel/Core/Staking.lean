/-
  Model of `farm-staking/farm-staking` (single-token staking farm: farming token = reward token,
  rewards come out of an admin-topped-up capacity, APR cap, unbonding, boosted yields).
  Imports only Core/Arith and the shared Core/Weekly.

  Transcribed from farm-staking/farm-staking/src/
      lib.rs (init, mergeFarmTokens, setBoostedYieldsRewardsPercentage, calculateRewardsForGivenPosition)
      base_impl_wrapper.rs (mint_per_block_rewards, generate_aggregated_rewards, calculate_rewards,
                            check_and_update_user_farm_position, decrease_user_farm_position)
      custom_rewards.rs (topUpRewards, withdrawRewards, setMaxApr, setPerBlockRewardAmount,
                         start/endProduceRewards, setMinUnbondEpochs, get_amount_apr_bounded)
      stake_farm.rs  claim_stake_farm_rewards.rs  compound_stake_farm_rewards.rs  unstake_farm.rs
      unbond_farm.rs  claim_only_boosted_staking_rewards.rs  external_interaction.rs  token_attributes.rs
  and the shared modules
      common/modules/farm/contexts/src/storage_cache.rs       (StorageCache: read at start, write on drop)
      common/modules/farm/farm_base_impl/src/{enter_farm,claim_rewards,compound_rewards,exit_farm}.rs
      common/modules/farm/rewards/src/rewards.rs              (start_produce_rewards)
      common/modules/utils/src/lib.rs                         (merge_attributes_from_payments)
      energy-integration/farm-boosted-yields/src/{lib.rs, boosted_yields_factors.rs}
      dex/permissions-hub/src/lib.rs, energy-integration/energy-factory-mock/src/lib.rs.

  Conventions (CONTRIBUTING.md): `BigUint` = `Nat`; a failed transaction is `none`; every
  `require!` is `req`, every `BigUint` subtraction that can underflow is `sub?`.

  StorageCache.  The farm `StorageCache` caches `reward_reserve`, `reward_per_share`,
  `farm_token_supply` (read when created, written back when dropped = at the end of the
  endpoint).  It is modelled as the transient record `Cache`: `s.cache` reads, `s.flush c` writes
  back.  Everything else (`last_reward_block_nonce`, `accumulatedRewards`, the weekly pools,
  `userTotalFarmPosition`, …) is written to storage directly, i.e. to `St`.  The one place where
  the reserve is written directly (`claim_only_boosted_payment`, used by stake / merge) runs
  BEFORE a cache exists, exactly as in the code.

  Value-preserving simplifications (each early `return` of the code coincides with adding 0):
    * `generate`: `total_reward == 0 ⇒ return` and `current_block <= last ⇒ 0` are folded into
      unconditional `+ tot`, `+ cut`, `+ inc` with `tot = cut = inc = 0` in those cases;
      `last_reward_block_nonce := max last block`.
    * `get_current_week` cannot fail: `firstWeekStartEpoch` is the deployment epoch and epochs
      only grow (`St.week` is total; `Lemmas/StakingInv.lean` proves `firstWeek ≤ epoch`).
    * `division_safety_constant ≠ 0` is an `init` requirement and the cell is never written again.

  Platform rules modelled as guards: an ESDT payment has a strictly positive amount and the
  payer holds it; an SFT is created with a strictly positive quantity; the account exists.

  Addresses are naturals: users `1..n`, whitelisted "proxy" accounts from 101, `0` is the zero
  address.  The staking token has no model-side wallet
  ledger except the contract's own balance `bal` (ghost).
-/
import MxModel.Core.Arith
import MxModel.Core.Weekly

namespace Mx.Staking

open Mx.Weekly

/-- `custom_rewards::MAX_PERCENT` / `farm::MAX_PERCENT` -/
def MAX_PERCENT : Nat := 10000
/-- `custom_rewards::BLOCKS_IN_YEAR` = 31_536_000 / 6 -/
def BLOCKS_IN_YEAR : Nat := 5256000
/-- `custom_rewards::MAX_MIN_UNBOND_EPOCHS` -/
def MAX_MIN_UNBOND_EPOCHS : Nat := 30

/-- two-key point update (`hold account nonce`) -/
def upd2 (f : Nat → Nat → Nat) (a n v : Nat) : Nat → Nat → Nat :=
  fun a' n' => if a' = a ∧ n' = n then v else f a' n'

/-! ### token attributes (token_attributes.rs) -/

/-- `StakingFarmTokenAttributes` -/
structure Attrs where
  rps : Nat
  compounded : Nat
  amount : Nat
  owner : Nat
  deriving DecidableEq, Repr, Inhabited

/-- metadata of one nonce of the farm token: a staking position or an unbond token
    (`UnbondSftAttributes`); both live under the same token identifier and nonce counter, and
    decoding one as the other fails (the encodings have different lengths). -/
inductive Meta
  | pos (a : Attrs)
  | unbond (unlock : Nat)
  deriving DecidableEq, Repr

/-- `FixedSupplyToken::into_part(payment_amount)`: the whole token unchanged; otherwise
    `compounded := ⌊compounded · x / amount⌋` (`rule_of_three`), `amount := x`. -/
def Attrs.intoPart (t : Attrs) (x : Nat) : Option Attrs :=
  if x = t.amount then some t
  else do
    req (t.amount ≠ 0)
    pure { t with compounded := t.compounded * x / t.amount, amount := x }

/-- `Mergeable::merge_with`: index = weighted average rounded UP, amounts and compounded add;
    `original_owner` of the receiver is kept. -/
def Attrs.mergeWith (t o : Attrs) : Option Attrs := do
  req (t.amount + o.amount ≠ 0)
  pure { t with rps := weightedAvgRoundUp t.rps t.amount o.rps o.amount
                compounded := t.compounded + o.compounded
                amount := t.amount + o.amount }

/-! ### boosted yields configuration (boosted_yields_factors.rs) -/

/-- `BoostedYieldsFactors` -/
structure Factors where
  maxF : Nat
  cE : Nat
  cF : Nat
  minE : Nat
  minF : Nat
  deriving DecidableEq, Repr, Inhabited

/-- `BoostedYieldsConfig`: factors of the last update week and of the four weeks before it
    (`f[4]` = latest, `f[4 - k]` = `k` weeks earlier). -/
structure BCfg where
  lastUpdateWeek : Nat
  f : List Factors
  deriving DecidableEq, Repr

def BCfg.new (W : Nat) (x : Factors) : BCfg := ⟨W, List.replicate 5 x⟩

/-- `BoostedYieldsConfig::update(current_week, opt_new_factors)` -/
def BCfg.update (c : BCfg) (W : Nat) (new : Option Factors) : Option BCfg := do
  req (c.lastUpdateWeek ≤ W)
  let last ← c.f[4]?
  let d := min (W - c.lastUpdateWeek) 5
  if d = 0 then
    match new with
    | some x => pure { c with f := c.f.set 4 x }
    | none => pure c
  else
    pure { lastUpdateWeek := W
           f := c.f.drop d ++ List.replicate (d - 1) last ++ [new.getD last] }

/-- `get_factors_for_week(week)` -/
def BCfg.factorsForWeek (c : BCfg) (week : Nat) : Option Factors := do
  req (week < c.lastUpdateWeek)
  req (c.lastUpdateWeek - week < 5)
  c.f[4 - (c.lastUpdateWeek - week)]?

/-- `get_latest_factors()` -/
def BCfg.latest (c : BCfg) : Option Factors := c.f[4]?

/-! ### state of the farm-boosted-yields module (the part the weekly reward hook touches) -/

structure B where
  /-- `accumulatedRewardsForWeek(week)` -/
  accumulated : Nat → Nat
  /-- `remainingBoostedRewardsToDistribute(week)` -/
  remaining : Nat → Nat
  /-- `farmSupplyForWeek(week)` -/
  farmSupply : Nat → Nat
  /-- `boostedYieldsConfig` -/
  cfg : Option BCfg
  /-- ghost: what was moved from `accumulated` to `remaining` for the week (the pool `R(week)`) -/
  collected : Nat → Nat
  /-- ghost: boosted rewards paid for the week -/
  paid : Nat → Nat

def B.init : B :=
  { accumulated := fun _ => 0, remaining := fun _ => 0, farmSupply := fun _ => 0, cfg := none,
    collected := fun _ => 0, paid := fun _ => 0 }

/-- `collect_rewards_for_week(week)`: stores the config updated to the current week (`c'`, the
    value `try_get_boosted_yields_config` computed for this call), TAKES the week's accumulated
    rewards, records them as `remaining`, returns ONE entry (also when the amount is 0). -/
def collectBoosted (c' : BCfg) : CollectFn B := fun b week =>
  ({ b with cfg := some c'
            accumulated := upd b.accumulated week 0
            remaining := upd b.remaining week (b.accumulated week)
            collected := upd b.collected week (b.collected week + b.accumulated week) },
   [(0, b.accumulated week)])

/-- the user's reward for a week whose pool is `R`:
    `min ⌊maxF·R·f/F⌋ ⌊(⌊R·cE·e/E⌋ + ⌊R·cF·f/F⌋)/(cE+cF)⌋` -/
def boostedAmount (x : Factors) (R userFarm F e E : Nat) : Nat :=
  min (x.maxF * R * userFarm / F) ((R * x.cE * e / E + R * x.cF * userFarm / F) / (x.cE + x.cF))

/-- `FarmBoostedYieldsWrapper::get_user_rewards_for_week` -/
def boostedRewards (c' : BCfg) (userFarm : Nat) : RewardFn B := fun g b week e E =>
  if E = 0 ∨ b.farmSupply week = 0 then some (g, b, [])
  else do
    let x ← c'.factorsForWeek week
    if e < x.minE ∨ userFarm < x.minF then pure (g, b, [])
    else
      let r := collectAndGet (collectBoosted c') g b week
      match r.2.2 with
      | [] => pure (r.1, r.2.1, [])
      | [p] =>
          if p.2 = 0 then pure (r.1, r.2.1, [])
          else do
            req (x.cE + x.cF ≠ 0)
            let reward := boostedAmount x p.2 userFarm (b.farmSupply week) e E
            if reward = 0 then pure (r.1, r.2.1, [])
            else do
              let rem ← sub? (r.2.1.remaining week) reward
              pure (r.1,
                    { r.2.1 with remaining := upd r.2.1.remaining week rem
                                 paid := upd r.2.1.paid week (r.2.1.paid week + reward) },
                    [(0, reward)])
      | _ => none

/-! ### contract state -/

structure St where
  /-- weekly-rewards-splitting module storage -/
  w : Weekly.St
  /-- farm-boosted-yields module storage -/
  b : B
  rps : Nat
  reserve : Nat
  supply : Nat
  lastBlock : Nat
  perBlock : Nat
  produce : Bool
  dsc : Nat
  boostedPct : Nat
  maxApr : Nat
  minUnbond : Nat
  capacity : Nat
  accumulated : Nat
  /-- `state == Active` -/
  active : Bool
  /-- `userTotalFarmPosition(user)` (empty = 0) -/
  userTotal : Nat → Nat
  /-- `undistributedBoostedRewards` -/
  undistributed : Nat
  /-- `lastUndistributedBoostedRewardsCollectWeek` -/
  lastCollectWeek : Nat
  /-- `firstWeekStartEpoch` -/
  firstWeek : Nat
  /-- `scWhitelistAddresses` -/
  whitelist : List Nat
  /-- permissions hub: `(user, address the user authorised)` -/
  hub : List (Nat × Nat)
  /-- last nonce created under the farm token identifier -/
  nonce : Nat
  /-- metadata per nonce -/
  md : Nat → Option Meta
  /-- holdings: account → nonce → amount -/
  hold : Nat → Nat → Nat
  /-- ghost: the accounts of the world (users, proxies) -/
  accts : List Nat
  block : Nat
  epoch : Nat
  /-- energy factory (mock) entries -/
  energy : Nat → Option Energy
  /-- ghost: real staking-token balance of the contract -/
  bal : Nat
  /-- ghost: proxy-virtual stake (staked through `stakeFarmThroughProxy` /
      `claimRewardsWithNewValue` without tokens moving), signed -/
  virt : Int
  /-- ghost: outstanding unbond amounts (a signed ledger: `+ amount` when an unbond token is
      minted, `− amount` when one is redeemed; `Lemmas/StakingSum.lean` shows it equals the sum
      of the unbond tokens held by the accounts) -/
  unbondOut : Int
  /-- ghost: base / boosted rewards paid out or compounded so far -/
  paidBase : Nat
  paidBoosted : Nat
  /-- ghost: Σ over all accruals of the base share / of the boosted cut -/
  baseBudget : Nat
  boostedBudget : Nat

/-- results of an operation (meaning documented per operation) -/
structure Out where
  a : Nat := 0
  b : Nat := 0
  c : Nat := 0
  deriving DecidableEq, Repr

/-- a payment of farm-token SFTs: `(nonce, amount)` -/
abbrev Pay := Nat × Nat

/-- `get_current_week()` -/
def St.week (s : St) : Nat := (s.epoch - s.firstWeek) / EPOCHS_IN_WEEK + 1

/-- the cached cells of the farm `StorageCache` -/
structure Cache where
  reserve : Nat
  rps : Nat
  supply : Nat
  deriving DecidableEq, Repr

/-- `StorageCache::new` -/
def St.cache (s : St) : Cache := ⟨s.reserve, s.rps, s.supply⟩

/-- `Drop for StorageCache` -/
def St.flush (s : St) (c : Cache) : St :=
  { s with reserve := c.reserve, rps := c.rps, supply := c.supply }

/-! ### reward generation (base_impl_wrapper.rs) -/

/-- `get_amount_apr_bounded(supply)`: per-block bound `⌊⌊supply·maxApr/10000⌋/blocksPerYear⌋` -/
def aprPerBlock (supply maxApr : Nat) : Nat := supply * maxApr / MAX_PERCENT / BLOCKS_IN_YEAR

/-- `mint_per_block_rewards` as a function of the cells it reads: `min(perBlock·Δ, aprBound·Δ)`
    with `Δ = block − last`, 0 when no block has passed; the unbounded amount is 0 while
    production is off. -/
def mintOf (block lastBlock perBlock : Nat) (produce : Bool) (supply maxApr : Nat) : Nat :=
  if block ≤ lastBlock then 0
  else
    min (if produce then perBlock * (block - lastBlock) else 0)
        (aprPerBlock supply maxApr * (block - lastBlock))

/-- `mint_per_block_rewards` (reads the STORED supply) -/
def mintAmount (s : St) : Nat := mintOf s.block s.lastBlock s.perBlock s.produce s.supply s.maxApr

/-- the total reward of `generate_aggregated_rewards` as a function of the cells it reads:
    additionally capped by `capacity − accumulated` -/
def genTotOf (block lastBlock perBlock : Nat) (produce : Bool) (supply maxApr capacity accumulated : Nat) : Nat :=
  min (mintOf block lastBlock perBlock produce supply maxApr) (capacity - accumulated)

def genTot (s : St) : Nat :=
  genTotOf s.block s.lastBlock s.perBlock s.produce s.supply s.maxApr s.capacity s.accumulated

/-- `take_reward_slice`: the boosted cut `⌊tot·pct/10000⌋` -/
def cutOf (pct tot : Nat) : Nat := tot * pct / MAX_PERCENT

def genCut (s : St) (tot : Nat) : Nat := cutOf s.boostedPct tot

/-- the index increment `⌊base·dsc/supply⌋`, none at zero (cached) supply -/
def rpsInc (dsc base supply : Nat) : Nat := if supply = 0 then 0 else base * dsc / supply

/-- `FarmStakingWrapper::generate_aggregated_rewards(storage_cache)` -/
def generate (s : St) (c : Cache) : Option (St × Cache) := do
  req (s.accumulated ≤ s.capacity)
  let tot := genTot s
  let cut := genCut s tot
  req (cut ≤ tot)
  let base := tot - cut
  pure ({ s with lastBlock := max s.lastBlock s.block
                 accumulated := s.accumulated + tot
                 b := { s.b with accumulated := upd s.b.accumulated s.week (s.b.accumulated s.week + cut) }
                 baseBudget := s.baseBudget + base
                 boostedBudget := s.boostedBudget + cut },
        { c with reserve := c.reserve + tot, rps := c.rps + rpsInc s.dsc base c.supply })

/-- `calculate_base_farm_rewards` -/
def baseReward (c : Cache) (dsc amt : Nat) (t : Attrs) : Nat :=
  if t.rps < c.rps then amt * (c.rps - t.rps) / dsc else 0

/-- `claim_boosted_yields_rewards(user, farm_amount)`: without a config the reward is 0, but the
    user's energy and claim progress are still moved to the current week
    (`update_energy_and_progress(user)`, the repair of finding F6); otherwise
    `claim_multi` with the config updated (in memory) to the current week.
    Result: new weekly storage, new boosted storage, total paid. -/
def claimBoostedYields (s : St) (user farmAmt : Nat) : Option (Weekly.St × B × Nat) :=
  match s.b.cfg with
  | none =>
      (updateEnergyAndProgress s.w user s.week (Energy.queried (s.energy user) s.epoch)).map
        fun w => (w, s.b, 0)
  | some c => do
      let c' ← c.update s.week none
      let cur := Energy.queried (s.energy user) s.epoch
      let r ← claimMulti (boostedRewards c' farmAmt) s.w s.b user s.week cur
      pure (r.1, r.2.1, (r.2.2.map (·.2)).sum)

/-! ### tokens and user totals -/

/-- the VM moves the payments out of the caller's account first -/
def debit (hold : Nat → Nat → Nat) (c : Nat) : List Pay → Option (Nat → Nat → Nat)
  | [] => some hold
  | p :: ps => do
      req (0 < p.2)
      req (p.2 ≤ hold c p.1)
      debit (upd2 hold c p.1 (hold c p.1 - p.2)) c ps

/-- decode the attributes of nonce `n` as a staking position -/
def posOf (m : Nat → Option Meta) (n : Nat) : Option Attrs :=
  match m n with
  | some (.pos a) => some a
  | _ => none

/-- decode the attributes of nonce `n` as an unbond token -/
def unbondOf (m : Nat → Option Meta) (n : Nat) : Option Nat :=
  match m n with
  | some (.unbond e) => some e
  | _ => none

/-- `decrease_user_farm_position`: `total > amt ? total − amt : clear` -/
def decreaseUT (ut : Nat → Nat) (owner amt : Nat) : Nat → Nat :=
  upd ut owner (if amt < ut owner then ut owner - amt else 0)

/-- `check_and_update_user_farm_position(user, payments)`: every payment whose recorded owner is
    not `user` is moved from the owner's total to `user`'s. -/
def checkAndUpdate (m : Nat → Option Meta) (user : Nat) : (Nat → Nat) → List Pay → Option (Nat → Nat)
  | ut, [] => some ut
  | ut, p :: ps => do
      let a ← posOf m p.1
      let ut1 := if a.owner = user then ut
        else upd (decreaseUT ut a.owner p.2) user (decreaseUT ut a.owner p.2 user + p.2)
      checkAndUpdate m user ut1 ps

/-- `merge_attributes_from_payments(base, payments)` -/
def mergeParts (m : Nat → Option Meta) : Attrs → List Pay → Option Attrs
  | base, [] => some base
  | base, p :: ps => do
      let a ← posOf m p.1
      let part ← a.intoPart p.2
      let merged ← base.mergeWith part
      mergeParts m merged ps

/-- every payment's recorded owner is `user` (`check_additional_payments_original_owner`) -/
def allOwnedBy (m : Nat → Option Meta) (user : Nat) : List Pay → Option Unit
  | [] => some ()
  | p :: ps => do
      let a ← posOf m p.1
      req (a.owner = user)
      allOwnedBy m user ps

/-! ### stake (stake_farm.rs, enter_farm.rs, external_interaction.rs) -/

/-- common part of `stakeFarm`, `stakeFarmThroughProxy`, `stakeFarmOnBehalf`.
    `caller` pays and receives the new position; `orig` owns it; `virtual` = the staked amount is
    simulated (no staking tokens move).  Out = (new nonce, new position amount, boosted reward). -/
def stakeCore (s : St) (caller orig amount : Nat) (virtual : Bool) (adds : List Pay) :
    Option (St × Out) := do
  req (0 < amount)
  let hold0 ← debit s.hold caller adds
  -- claim_only_boosted_payment(orig): direct storage write of the reserve, no cache alive
  let r ← claimBoostedYields s orig (s.userTotal orig)
  let reserve1 ← sub? s.reserve r.2.2
  let s1 := { s with w := r.1, b := r.2.1, reserve := reserve1 }
  -- enter_farm_base
  req (s1.active = true)
  let ut1 ← checkAndUpdate s1.md orig s1.userTotal adds
  let s2 := { s1 with userTotal := upd ut1 orig (ut1 orig + amount) }
  let g ← generate s2 s2.cache
  let c1 : Cache := { g.2 with supply := g.2.supply + amount }
  let merged ← mergeParts s.md ⟨c1.rps, 0, amount, orig⟩ adds
  let s3 := g.1
  -- set_farm_supply_for_current_week, update_energy_and_progress(orig)
  let w2 ← updateEnergyAndProgress s3.w orig s3.week (Energy.queried (s3.energy orig) s3.epoch)
  let bal1 ← sub? (if virtual then s3.bal else s3.bal + amount) r.2.2
  pure ({ s3 with reserve := c1.reserve, rps := c1.rps, supply := c1.supply
                  w := w2
                  b := { s3.b with farmSupply := upd s3.b.farmSupply s3.week c1.supply }
                  nonce := s3.nonce + 1
                  md := upd s3.md (s3.nonce + 1) (some (.pos merged))
                  hold := upd2 hold0 caller (s3.nonce + 1) merged.amount
                  bal := bal1
                  virt := if virtual then s3.virt + (amount : Int) else s3.virt
                  paidBoosted := s3.paidBoosted + r.2.2 },
        ⟨s3.nonce + 1, merged.amount, r.2.2⟩)

/-- `stakeFarm(opt_original_caller)`: an original caller may only be named by a whitelisted address -/
def stakeFarm (s : St) (caller : Nat) (orig : Option Nat) (amount : Nat) (adds : List Pay) :
    Option (St × Out) :=
  match orig with
  | none => stakeCore s caller caller amount false adds
  | some o => do
      req (caller ∈ s.whitelist)
      stakeCore s caller o amount false adds

/-- `stakeFarmThroughProxy(staked_token_amount, original_caller)` -/
def stakeProxy (s : St) (caller orig amount : Nat) (adds : List Pay) : Option (St × Out) := do
  req (caller ∈ s.whitelist)
  stakeCore s caller orig amount true adds

/-- `stakeFarmOnBehalf(user)`: hub authorisation; with additional farm tokens, all must record
    `user` as owner. -/
def stakeOnBehalf (s : St) (caller user amount : Nat) (adds : List Pay) : Option (St × Out) := do
  req ((user, caller) ∈ s.hub)
  allOwnedBy s.md user adds
  stakeCore s caller user amount false adds

/-! ### claim (claim_stake_farm_rewards.rs, claim_rewards.rs) -/

/-- `claimRewardsWithNewValue`: `farm_token_supply −= amount; += new` (checked) -/
def newSupply (supply amount : Nat) : Option Nat → Option Nat
  | none => some supply
  | some nv => (sub? supply amount).map (· + nv)

/-- `claimRewardsWithNewValue`: `userTotalFarmPosition(orig) −= amount; += new` (checked) -/
def newUserTotal (ut : Nat → Nat) (orig amount : Nat) : Option Nat → Option (Nat → Nat)
  | none => some ut
  | some nv => (sub? (ut orig) amount).map fun v => upd ut orig (v + nv)

/-- intermediate result of `claim_rewards_base_no_farm_token_mint` -/
structure ClaimMid where
  /-- holdings after the payments left the caller -/
  hold0 : Nat → Nat → Nat
  /-- storage after `generate` -/
  s1 : St
  /-- cache after `generate` (reserve not yet reduced) -/
  c1 : Cache
  /-- result of the boosted claim of `orig` -/
  w1 : Weekly.St
  b1 : B
  boosted : Nat
  base : Nat
  /-- `userTotalFarmPosition` after `check_and_update_user_farm_position` -/
  ut1 : Nat → Nat
  merged : Attrs

/-- `claim_rewards_base_no_farm_token_mint(orig, payments)` up to the merged attributes -/
def claimBase (s : St) (caller orig : Nat) (pays : List Pay) : Option ClaimMid := do
  let hold0 ← debit s.hold caller pays
  req (s.active = true)
  let p ← pays.head?
  let first ← posOf s.md p.1
  let g ← generate s s.cache
  let tok ← first.intoPart p.2
  let r ← claimBoostedYields g.1 orig (g.1.userTotal orig)
  let ut1 ← checkAndUpdate s.md orig g.1.userTotal pays
  let merged ← mergeParts s.md ⟨g.2.rps, tok.compounded, tok.amount, orig⟩ pays.tail
  pure { hold0 := hold0, s1 := g.1, c1 := g.2, w1 := r.1, b1 := r.2.1, boosted := r.2.2,
         base := baseReward g.2 s.dsc p.2 tok, ut1 := ut1, merged := merged }

/-- the rest of `claim_rewards_base_no_farm_token_mint` (reserve) and of `claim_rewards_common`:
    optional new farming amount (proxy), `farmSupplyForWeek`, energy update, new token, payout.
    Out = (new nonce, new position amount, reward). -/
def claimFinish (m : ClaimMid) (caller orig : Nat) (newVal : Option Nat) : Option (St × Out) := do
  let reserve1 ← sub? m.c1.reserve (m.base + m.boosted)
  let supply1 ← newSupply m.c1.supply m.merged.amount newVal
  let ut2 ← newUserTotal m.ut1 orig m.merged.amount newVal
  req (0 < newVal.getD m.merged.amount)
  let w2 ← updateEnergyAndProgress m.w1 orig m.s1.week (Energy.queried (m.s1.energy orig) m.s1.epoch)
  let bal1 ← sub? m.s1.bal (m.base + m.boosted)
  pure ({ m.s1 with reserve := reserve1, rps := m.c1.rps, supply := supply1
                    w := w2
                    b := { m.b1 with farmSupply := upd m.b1.farmSupply m.s1.week supply1 }
                    userTotal := ut2
                    nonce := m.s1.nonce + 1
                    md := upd m.s1.md (m.s1.nonce + 1)
                            (some (.pos { m.merged with amount := newVal.getD m.merged.amount }))
                    hold := upd2 m.hold0 caller (m.s1.nonce + 1) (newVal.getD m.merged.amount)
                    bal := bal1
                    virt := m.s1.virt + (newVal.getD m.merged.amount : Int) - (m.merged.amount : Int)
                    paidBase := m.s1.paidBase + m.base
                    paidBoosted := m.s1.paidBoosted + m.boosted },
        ⟨m.s1.nonce + 1, newVal.getD m.merged.amount, m.base + m.boosted⟩)

def claimCore (s : St) (caller orig : Nat) (pays : List Pay) (newVal : Option Nat) :
    Option (St × Out) := do
  let m ← claimBase s caller orig pays
  claimFinish m caller orig newVal

/-- `claimRewards(opt_original_caller)` with exactly one payment -/
def claimRewards (s : St) (caller : Nat) (orig : Option Nat) (pay : Pay) : Option (St × Out) :=
  match orig with
  | none => claimCore s caller caller [pay] none
  | some o => do
      req (caller ∈ s.whitelist)
      claimCore s caller o [pay] none

/-- `claimRewardsWithNewValue(new_farming_amount, original_caller)` -/
def claimNewValue (s : St) (caller orig newAmt : Nat) (pay : Pay) : Option (St × Out) := do
  req (caller ∈ s.whitelist)
  claimCore s caller orig [pay] (some newAmt)

/-- `get_claim_original_owner`: the common recorded owner of all payments (non-zero) -/
def claimOwner (m : Nat → Option Meta) (pays : List Pay) : Option Nat := do
  let p ← pays.head?
  let a ← posOf m p.1
  req (a.owner ≠ 0)
  allOwnedBy m a.owner pays
  pure a.owner

/-- `claimRewardsOnBehalf`: the new position goes to the caller, the rewards to the owner -/
def claimOnBehalf (s : St) (caller : Nat) (pays : List Pay) : Option (St × Out) := do
  let user ← claimOwner s.md pays
  req ((user, caller) ∈ s.hub)
  claimCore s caller user pays none

/-! ### compound (compound_stake_farm_rewards.rs, compound_rewards.rs) -/

/-- `compoundRewards`: Out = (new nonce, new position amount, compounded reward) -/
def compound (s : St) (caller : Nat) (pays : List Pay) : Option (St × Out) := do
  let hold0 ← debit s.hold caller pays
  req (s.active = true)
  let p ← pays.head?
  let first ← posOf s.md p.1
  let g ← generate s s.cache
  let s1 := g.1
  let tok ← first.intoPart p.2
  let base := baseReward g.2 s.dsc p.2 tok
  let r ← claimBoostedYields s1 caller (s1.userTotal caller)
  let reward := base + r.2.2
  let reserve1 ← sub? g.2.reserve reward
  let ut1 ← checkAndUpdate s.md caller s1.userTotal pays
  let merged ← mergeParts s.md ⟨g.2.rps, tok.compounded + reward, tok.amount + reward, caller⟩ pays.tail
  pure ({ s1 with reserve := reserve1, rps := g.2.rps, supply := g.2.supply + reward
                  w := r.1
                  b := { r.2.1 with farmSupply := upd r.2.1.farmSupply s1.week (g.2.supply + reward) }
                  userTotal := upd ut1 caller (ut1 caller + reward)
                  nonce := s1.nonce + 1
                  md := upd s1.md (s1.nonce + 1) (some (.pos merged))
                  hold := upd2 hold0 caller (s1.nonce + 1) merged.amount
                  paidBase := s1.paidBase + base
                  paidBoosted := s1.paidBoosted + r.2.2 },
        ⟨s1.nonce + 1, merged.amount, reward⟩)

/-! ### unstake / unbond (unstake_farm.rs, exit_farm.rs, unbond_farm.rs) -/

/-- `clear_user_energy_if_needed(orig)` -/
def clearEnergyIfNeeded (s : St) (g : Weekly.St) (orig : Nat) : Option Weekly.St :=
  match s.b.cfg with
  | none => some g
  | some c => do
      let c' ← c.update s.week none
      let x ← c'.latest
      clearUserEnergy g orig s.week s.epoch (s.userTotal orig) x.minF

/-- common part of `unstakeFarm` and `unstakeFarmThroughProxy`.  `proxyAmt` = staking tokens
    received as first payment (they back the unbond token).
    Out = (unbond nonce, unbond amount, reward). -/
def unstakeCore (s : St) (caller orig : Nat) (pay : Pay) (proxyAmt : Option Nat) :
    Option (St × Out) := do
  req (proxyAmt ≠ some 0)
  let hold0 ← debit s.hold caller [pay]
  req (s.active = true)
  let attrs ← posOf s.md pay.1
  let g ← generate s s.cache
  let s1 := g.1
  let tok ← attrs.intoPart pay.2
  let base := baseReward g.2 s.dsc pay.2 tok
  let r ← claimBoostedYields s1 orig (s1.userTotal orig)
  let reward := base + r.2.2
  let reserve1 ← sub? g.2.reserve reward
  let ut1 := decreaseUT s1.userTotal attrs.owner pay.2
  let supply1 ← sub? g.2.supply tok.amount
  let unbondAmt := proxyAmt.getD tok.amount
  let s2 := { s1 with userTotal := ut1, b := r.2.1 }
  let w2 ← clearEnergyIfNeeded s2 r.1 orig
  let bal1 ← sub? (s1.bal + proxyAmt.getD 0) reward
  pure ({ s2 with reserve := reserve1, rps := g.2.rps, supply := supply1
                  w := w2
                  b := { r.2.1 with farmSupply := upd r.2.1.farmSupply s1.week supply1 }
                  nonce := s1.nonce + 1
                  md := upd s1.md (s1.nonce + 1) (some (.unbond (s1.epoch + s1.minUnbond)))
                  hold := upd2 hold0 caller (s1.nonce + 1) unbondAmt
                  bal := bal1
                  virt := match proxyAmt with
                    | some _ => s1.virt - (tok.amount : Int)
                    | none => s1.virt
                  unbondOut := s1.unbondOut + (unbondAmt : Int)
                  paidBase := s1.paidBase + base
                  paidBoosted := s1.paidBoosted + r.2.2 },
        ⟨s1.nonce + 1, unbondAmt, reward⟩)

/-- `unstakeFarm(opt_original_caller)` -/
def unstakeFarm (s : St) (caller : Nat) (orig : Option Nat) (pay : Pay) : Option (St × Out) :=
  match orig with
  | none => unstakeCore s caller caller pay none
  | some o => do
      req (caller ∈ s.whitelist)
      unstakeCore s caller o pay none

/-- `unstakeFarmThroughProxy(original_caller)` with payments `[x staking tokens, position]` -/
def unstakeProxy (s : St) (caller orig x : Nat) (pay : Pay) : Option (St × Out) := do
  req (caller ∈ s.whitelist)
  unstakeCore s caller orig pay (some x)

/-- `unbondFarm`: Out = (0, amount paid, 0) -/
def unbondFarm (s : St) (caller : Nat) (pay : Pay) : Option (St × Out) := do
  let hold0 ← debit s.hold caller [pay]
  req (s.active = true)
  let unlock ← unbondOf s.md pay.1
  req (unlock ≤ s.epoch)
  let bal1 ← sub? s.bal pay.2
  pure ({ s with hold := hold0, bal := bal1, unbondOut := s.unbondOut - (pay.2 : Int) }, ⟨0, pay.2, 0⟩)

/-! ### merge, claimBoostedRewards (lib.rs, claim_only_boosted_staking_rewards.rs) -/

/-- `mergeFarmTokens`: Out = (new nonce, merged amount, boosted reward).  No reward generation,
    no `farmSupplyForWeek` update. -/
def mergeTokens (s : St) (caller : Nat) (pays : List Pay) : Option (St × Out) := do
  let hold0 ← debit s.hold caller pays
  req (s.active = true)
  let r ← claimBoostedYields s caller (s.userTotal caller)
  let reserve1 ← sub? s.reserve r.2.2
  let p ← pays.head?
  let ut1 ← checkAndUpdate s.md caller s.userTotal pays
  let first ← posOf s.md p.1
  let part ← first.intoPart p.2
  let merged ← mergeParts s.md part pays.tail
  let bal1 ← sub? s.bal r.2.2
  pure ({ s with w := r.1, b := r.2.1, reserve := reserve1, userTotal := ut1
                 nonce := s.nonce + 1
                 md := upd s.md (s.nonce + 1) (some (.pos { merged with owner := caller }))
                 hold := upd2 hold0 caller (s.nonce + 1) merged.amount
                 bal := bal1
                 paidBoosted := s.paidBoosted + r.2.2 },
        ⟨s.nonce + 1, merged.amount, r.2.2⟩)

/-- `claimBoostedRewards(opt_user)`: for another user only with `allowExternalClaim` (which no
    endpoint can set); the user's total position must be non-empty.  Out = (0, 0, boosted).
    The payout is subtracted from the CACHED reserve (repo commit adb7e0d; before it the
    subtraction was a direct storage write that the cache overwrote — finding F1). -/
def claimBoostedRewards (s : St) (caller : Nat) (user : Option Nat) : Option (St × Out) := do
  req (user = none ∨ user = some caller)
  req (s.userTotal caller ≠ 0)
  req (s.active = true)
  let g ← generate s s.cache
  let s1 := g.1
  let r ← claimBoostedYields s1 caller (s1.userTotal caller)
  let reserve1 ← sub? g.2.reserve r.2.2
  let bal1 ← sub? s1.bal r.2.2
  pure ({ s1 with reserve := reserve1, rps := g.2.rps, supply := g.2.supply
                  w := r.1
                  b := { r.2.1 with farmSupply := upd r.2.1.farmSupply s1.week g.2.supply }
                  bal := bal1
                  paidBoosted := s1.paidBoosted + r.2.2 },
        ⟨0, 0, r.2.2⟩)

/-! ### the reward view (lib.rs) -/

/-- `calculateRewardsForGivenPosition(amount, attributes)`: only callable by the contract itself
    (VM query); settles rewards, then `calculate_rewards` for the position's recorded
    `original_owner` (repo commit da24d8b; before it the zero address was passed and the quote
    omitted the boosted part — finding F3).  The result pairs the state the query WOULD leave
    (a VM query is discarded on chain: `step` keeps the old state) with the quoted amount. -/
def calcRewards (s : St) (queried : Bool) (amt : Nat) (t : Attrs) : Option (St × Nat) := do
  req (queried = true)
  let g ← generate s s.cache
  let base := baseReward g.2 s.dsc amt t
  let r ← claimBoostedYields g.1 t.owner (g.1.userTotal t.owner)
  pure ((({ g.1 with w := r.1, b := r.2.1 } : St).flush g.2), base + r.2.2)

/-! ### admin endpoints (custom_rewards.rs, lib.rs, rewards.rs, farm-boosted-yields) -/

/-- `topUpRewards` with a payment of `x` reward tokens -/
def topUp (s : St) (x : Nat) : Option (St × Out) := do
  req (0 < x)
  pure ({ s with capacity := s.capacity + x, bal := s.bal + x }, {})

/-- `withdrawRewards(w)`: settle first, then `w ≤ capacity − accumulated`.  Out = (0, w, 0) -/
def withdraw (s : St) (x : Nat) : Option (St × Out) := do
  let g ← generate s s.cache
  let remaining ← sub? g.1.capacity g.1.accumulated
  req (x ≤ remaining)
  let cap ← sub? g.1.capacity x
  let bal1 ← sub? g.1.bal x
  pure ((({ g.1 with capacity := cap, bal := bal1 } : St).flush g.2), ⟨0, x, 0⟩)

/-- the shape shared by `setMaxApr`, `setPerBlockRewardAmount`, `endProduceRewards`,
    `setBoostedYieldsRewardsPercentage`: settle under the OLD configuration, then write the cell. -/
def settleThen (s : St) (f : St → St) : Option (St × Out) := do
  let g ← generate s s.cache
  pure (f (g.1.flush g.2), {})

def setMaxApr (s : St) (x : Nat) : Option (St × Out) := do
  req (x ≠ 0)
  settleThen s fun t => { t with maxApr := x }

def setPerBlock (s : St) (x : Nat) : Option (St × Out) := do
  req (x ≠ 0)
  settleThen s fun t => { t with perBlock := x }

def endProduce (s : St) : Option (St × Out) :=
  settleThen s fun t => { t with produce := false }

def setBoostedPct (s : St) (p : Nat) : Option (St × Out) := do
  req (p ≤ MAX_PERCENT)
  settleThen s fun t => { t with boostedPct := p }

/-- `startProduceRewards` -/
def startProduce (s : St) : Option (St × Out) := do
  req (s.perBlock ≠ 0)
  req (s.produce = false)
  pure ({ s with produce := true, lastBlock := s.block }, {})

/-- `setMinUnbondEpochs` -/
def setMinUnbond (s : St) (e : Nat) : Option (St × Out) := do
  req (e ≤ MAX_MIN_UNBOND_EPOCHS)
  pure ({ s with minUnbond := e }, {})

/-- the configuration `setBoostedYieldsFactors` stores -/
def nextCfg (cfg : Option BCfg) (W : Nat) (x : Factors) : Option BCfg :=
  match cfg with
  | some c => c.update W (some x)
  | none => some (BCfg.new W x)

/-- `setBoostedYieldsFactors` -/
def setFactors (s : St) (x : Factors) : Option (St × Out) := do
  req (0 < x.minE ∧ 0 < x.minF)
  req (0 < x.cE ∨ 0 < x.cF)   -- repair of finding F7 (shared farm-boosted-yields module)
  let c ← nextCfg s.b.cfg s.week x
  pure ({ s with b := { s.b with cfg := some c } }, {})

/-- the loop of `collect_undistributed_boosted_rewards` over `count` weeks starting at `week` -/
def collectWeeks : Nat → Nat → (Nat → Nat) → Nat → (Nat → Nat) × Nat
  | 0, _, rem, und => (rem, und)
  | n + 1, week, rem, und => collectWeeks n (week + 1) (upd rem week 0) (und + rem week)

/-- `collectUndistributedBoostedRewards`: weeks `lastCollect+1 … current−5` -/
def collectUndistributed (s : St) : Option (St × Out) := do
  req (USER_MAX_CLAIM_WEEKS + 1 < s.week)
  let first := s.lastCollectWeek + 1
  let last := s.week - (USER_MAX_CLAIM_WEEKS + 1)
  if last < first then pure (s, {})
  else
    let r := collectWeeks (last + 1 - first) first s.b.remaining s.undistributed
    pure ({ s with b := { s.b with remaining := r.1 }, undistributed := r.2, lastCollectWeek := last }, {})

/-- endpoint `updateEnergyForUser(user)` of the weekly module -/
def updateEnergy (s : St) (user : Nat) : Option (St × Out) := do
  let g ← updateEnergyForUser s.w user s.week (Energy.queried (s.energy user) s.epoch)
  pure ({ s with w := g }, {})

/-- a plain ESDT transfer of farm-token SFTs between two accounts -/
def transfer (s : St) (src dst : Nat) (pay : Pay) : Option (St × Out) := do
  req (dst ∈ s.accts)
  let hold0 ← debit s.hold src [pay]
  pure ({ s with hold := upd2 hold0 dst pay.1 (hold0 dst pay.1 + pay.2) }, {})

/-! ### the state machine -/

inductive Op
  | stake (c : Nat) (orig : Option Nat) (amount : Nat) (adds : List Pay)
  | stakeProxy (c orig amount : Nat) (adds : List Pay)
  | stakeBehalf (c user amount : Nat) (adds : List Pay)
  | claim (c : Nat) (orig : Option Nat) (pay : Pay)
  | claimNew (c orig newAmt : Nat) (pay : Pay)
  | claimBehalf (c : Nat) (pays : List Pay)
  | compound (c : Nat) (pays : List Pay)
  | unstake (c : Nat) (orig : Option Nat) (pay : Pay)
  | unstakeProxy (c orig x : Nat) (pay : Pay)
  | unbond (c : Nat) (pay : Pay)
  | merge (c : Nat) (pays : List Pay)
  | claimBoosted (c : Nat) (user : Option Nat)
  | calc (queried : Bool) (amt : Nat) (t : Attrs)
  | transfer (src dst : Nat) (pay : Pay)
  | setEnergy (user amount locked : Nat)
  | updateEnergy (user : Nat)
  | topUp (x : Nat)
  | withdraw (x : Nat)
  | setMaxApr (x : Nat)
  | setPerBlock (x : Nat)
  | startProduce
  | endProduce
  | setMinUnbond (e : Nat)
  | setBoostedPct (p : Nat)
  | setFactors (x : Factors)
  | collectUndistributed
  | pause
  | resume
  | hubWhitelist (user addr : Nat)
  | hubRemove (user addr : Nat)
  | advance (blocks epochs : Nat)

/-- user operations are sent by an existing account -/
def Op.caller : Op → Option Nat
  | .stake c _ _ _ | .stakeProxy c _ _ _ | .stakeBehalf c _ _ _ | .claim c _ _ | .claimNew c _ _ _
  | .claimBehalf c _ | .compound c _ | .unstake c _ _ | .unstakeProxy c _ _ _ | .unbond c _
  | .merge c _ | .claimBoosted c _ | .transfer c _ _ => some c
  | _ => none

def stepCore (s : St) : Op → Option (St × Out)
  | .stake c o a adds => stakeFarm s c o a adds
  | .stakeProxy c o a adds => stakeProxy s c o a adds
  | .stakeBehalf c u a adds => stakeOnBehalf s c u a adds
  | .claim c o p => claimRewards s c o p
  | .claimNew c o nv p => claimNewValue s c o nv p
  | .claimBehalf c ps => claimOnBehalf s c ps
  | .compound c ps => compound s c ps
  | .unstake c o p => unstakeFarm s c o p
  | .unstakeProxy c o x p => unstakeProxy s c o x p
  | .unbond c p => unbondFarm s c p
  | .merge c ps => mergeTokens s c ps
  | .claimBoosted c u => claimBoostedRewards s c u
  | .calc q a t => (calcRewards s q a t).map fun r => (s, ⟨0, 0, r.2⟩)
  | .transfer a b p => transfer s a b p
  | .setEnergy u a l => some ({ s with energy := upd s.energy u (some ⟨(a : Int), s.epoch, l⟩) }, {})
  | .updateEnergy u => updateEnergy s u
  | .topUp x => topUp s x
  | .withdraw x => withdraw s x
  | .setMaxApr x => setMaxApr s x
  | .setPerBlock x => setPerBlock s x
  | .startProduce => startProduce s
  | .endProduce => endProduce s
  | .setMinUnbond e => setMinUnbond s e
  | .setBoostedPct p => setBoostedPct s p
  | .setFactors x => setFactors s x
  | .collectUndistributed => collectUndistributed s
  | .pause => some ({ s with active := false }, {})
  | .resume => some ({ s with active := true }, {})
  | .hubWhitelist u a => do
      req ((u, a) ∉ s.hub)
      pure ({ s with hub := s.hub ++ [(u, a)] }, {})
  | .hubRemove u a => do
      req ((u, a) ∈ s.hub)
      pure ({ s with hub := s.hub.erase (u, a) }, {})
  | .advance b e => some ({ s with block := s.block + b, epoch := s.epoch + e }, {})

/-- the sender of a user operation is one of the world's accounts -/
def callerOk (s : St) (op : Op) : Bool :=
  match op.caller with
  | some c => decide (c ∈ s.accts)
  | none => true

def step (s : St) (op : Op) : Option (St × Out) := do
  req (callerOk s op = true)
  stepCore s op

/-- the state after a history: failed transactions leave the state unchanged -/
def run (s : St) (ops : List Op) : St :=
  ops.foldl (fun s o => match step s o with | some r => r.1 | none => s) s

/-- a freshly deployed staking farm, configured as the repository's tests configure it
    (farm token installed, state Active, rewards produced at `perBlock`), at block `block` and
    epoch `epoch`, with the given accounts; `whitelist` = SC whitelist. -/
def init (epoch block dsc maxApr minUnbond perBlock : Nat) (accts whitelist : List Nat) : St :=
  { w := Weekly.St.init, b := B.init
    rps := 0, reserve := 0, supply := 0, lastBlock := 0, perBlock := perBlock, produce := true
    dsc := dsc, boostedPct := 0, maxApr := maxApr, minUnbond := minUnbond
    capacity := 0, accumulated := 0, active := true
    userTotal := fun _ => 0, undistributed := 0, lastCollectWeek := 0, firstWeek := epoch
    whitelist := whitelist, hub := []
    nonce := 0, md := fun _ => none, hold := fun _ _ => 0, accts := accts
    block := block, epoch := epoch, energy := fun _ => none
    bal := 0, virt := 0, unbondOut := 0
    paidBase := 0, paidBoosted := 0, baseBudget := 0, boostedBudget := 0 }

end Mx.Staking
