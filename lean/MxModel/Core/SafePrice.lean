/-
  Model of the READ side of the pair's safe price (`dex/pair/src/safe_price_view.rs`).
  Import-free (Core only).  The write side (`update_safe_price`, called first by every
  reserve-changing endpoint) is `Mx.Pair.SP.update` / `Mx.Pair.St.touch` in Core/Pair.lean.

  Transcribed function by function:
    get_oldest_price_observation            → `oldest`
    price_observation_by_binary_search      → `bsLoop`, `binSearch`   (bounds, probes, result index)
    price_observation_by_linear_interpolation → `interpolate`         (neighbour choice, weights)
    get_price_observation                   → `lookup`   (last / simulated / search / interpolate)
    compute_weighted_amounts                → `weighted`
    get_safe_price, …ByRoundOffset, …ByTimestampOffset, …ByDefaultOffset  → `getSafePrice…`
    get_lp_tokens_safe_price, …                                      → `getLpSafePrice…`
    get_price_observation_view              → `getPriceObservation`
    update_and_get_safe_price, update_and_get_tokens_for_given_position_with_safe_price
                                            → `updateAndGetSafePrice`, `updateAndGetPosition`

  `VecMapper::get(i)` aborts unless `1 ≤ i ≤ len` (`get?`).  `u64`/`usize` subtractions are
  `sub?`, `BigUint` divisions are guarded (`req (d ≠ 0)`): a failed view is `none`.
  The ring capacity is `SP.cap` (`MAX_OBSERVATIONS` = 65 536 in the contract).

  Legacy fallback: when the first observation of a window carries no LP accumulator
  (`lp_supply_accumulated = 0`, observations stored before the LP accumulator existed) the
  code falls back to the current LP supply.  The branch is transcribed in `lpWorth`, but it is
  OUT OF SCOPE of C13: no reachable state of this model has such an observation and no
  theorem or test talks about it.
-/
import MxModel.Core.Arith
import MxModel.Core.Pair

namespace Mx.SafePrice
open Mx Mx.Pair

/-- `DEFAULT_SAFE_PRICE_ROUNDS_OFFSET` -/
def DEFAULT_OFFSET : Nat := 600
/-- `SECONDS_PER_ROUND` -/
def SECONDS_PER_ROUND : Nat := 6

/-- `VecMapper::get(i)`: 1-indexed, aborts when out of range -/
def get? (p : SP) (i : Nat) : Option Obs :=
  if 1 ≤ i ∧ i ≤ p.obs.length then p.obs[i - 1]? else none

/-- `get_oldest_price_observation` -/
def oldest (p : SP) : Option Obs := do
  req (p.obs ≠ [])
  get? p (if p.obs.length = p.cap then p.cur % p.cap + 1 else 1)

/-- the `while left_index <= right_index` loop of `price_observation_by_binary_search`.
    `si` is `search_index` (the last probed index, initially 1); the result is the pair the
    Rust function returns: `(observation, index)` on a hit, `(default, last probed)` on a miss.
    `fuel` bounds the iterations (the caller passes the size of the interval). -/
def bsLoop (p : SP) (q : Nat) : Nat → Nat → Nat → Nat → Option (Obs × Nat)
  | 0, l, r, si => if l ≤ r then none else some (Obs.zero, si)
  | fuel + 1, l, r, si =>
    if l ≤ r then do
      let mid := (l + r) / 2
      let o ← get? p mid
      if o.round = q then pure (o, mid)
      else if o.round < q then bsLoop p q fuel (mid + 1) r mid
      else bsLoop p q fuel l (mid - 1) mid
    else some (Obs.zero, si)

/-- `price_observation_by_binary_search` -/
def binSearch (p : SP) (q : Nat) : Option (Obs × Nat) := do
  let o1 ← get? p 1
  if o1.round ≤ q then do
    let r ← sub? p.cur 1
    bsLoop p q (r + 1 - 1) 1 r 1
  else
    bsLoop p q (p.obs.length + 1 - (p.cur + 1)) (p.cur + 1) p.obs.length 1

/-- the two observations `price_observation_by_linear_interpolation` interpolates between:
    the last probed element and its ring neighbour -/
def neighbours (p : SP) (q si : Nat) : Option (Obs × Obs) := do
  let f ← get? p si
  if f.round < q then do
    let r ← get? p (si % p.cap + 1)
    pure (f, r)
  else do
    let l ← get? p (if si = 1 then p.cap else si - 1)
    pure (l, f)

/-- the interpolation formula: weights `(right.round − q, q − left.round)` -/
def interp (L R : Obs) (q : Nat) : Option Obs := do
  let lw ← sub? R.round q
  let rw ← sub? q L.round
  let ws := lw + rw
  req (ws ≠ 0)
  let w ← sub? (L.w + q) L.round
  pure ⟨(lw * L.acc1 + rw * R.acc1) / ws, (lw * L.acc2 + rw * R.acc2) / ws,
        (lw * L.accS + rw * R.accS) / ws, w, q⟩

/-- `price_observation_by_linear_interpolation` -/
def interpolate (p : SP) (q si : Nat) : Option Obs := do
  let (L, R) ← neighbours p q si
  interp L R q

/-- `get_price_observation(search_round = q)` on the pair state `s` -/
def lookup (s : St) (q : Nat) : Option Obs := do
  req (s.sp.obs ≠ [])
  let last ← get? s.sp s.sp.cur
  if last.round = q then pure last
  else if last.round < q then do
    req (q ≤ s.round)
    pure (last.next q s.r1 s.r2 s.S)
  else do
    let (o, si) ← binSearch s.sp q
    if 0 < o.round then pure o else interpolate s.sp q si

/-- `PriceObservationWeightedAmounts` -/
structure WA where
  w1 : Nat
  w2 : Nat
  wS : Nat
  deriving DecidableEq, Repr

/-- `compute_weighted_amounts(first, last)` -/
def weighted (f l : Obs) : Option WA := do
  let wd ← sub? l.w f.w
  req (0 < wd)
  let d1 ← sub? l.acc1 f.acc1
  let d2 ← sub? l.acc2 f.acc2
  if 0 < f.accS then do
    let dS ← sub? l.accS f.accS
    pure ⟨d1 / wd, d2 / wd, dS / wd⟩
  else pure ⟨d1 / wd, d2 / wd, 0⟩

/-- the two observations and the weighted amounts of a window `(start, end]`, with the guards
    every entry point applies first -/
def window (s : St) (start end_ : Nat) : Option WA := do
  req (start < end_)
  let old ← oldest s.sp
  req (old.round ≤ start)
  let f ← lookup s start
  let l ← lookup s end_
  weighted f l

/-- `compute_weighted_price`: `d = some .ab` pays the first token, `some .ba` the second,
    `none` any other token (`ERROR_BAD_INPUT_TOKEN`) -/
def priceOf (wa : WA) (d : Option Dir) (amt : Nat) : Option Nat :=
  match d with
  | some .ab => do req (wa.w1 ≠ 0); pure (amt * wa.w2 / wa.w1)
  | some .ba => do req (wa.w2 ≠ 0); pure (amt * wa.w1 / wa.w2)
  | none => none

/-- `getSafePrice(pair, start, end, payment)` -/
def getSafePrice (s : St) (start end_ : Nat) (d : Option Dir) (amt : Nat) : Option Nat := do
  let wa ← window s start end_
  priceOf wa d amt

/-- tail of `get_lp_tokens_safe_price` (includes the out-of-scope legacy fallback) -/
def lpWorth (s : St) (wa : WA) (liq : Nat) : Nat × Nat :=
  if wa.wS = 0 then
    if s.S = 0 then (0, 0) else (liq * wa.w1 / s.S, liq * wa.w2 / s.S)
  else (liq * wa.w1 / wa.wS, liq * wa.w2 / wa.wS)

/-- `getLpTokensSafePrice(pair, start, end, liquidity)` -/
def getLpSafePrice (s : St) (start end_ liq : Nat) : Option (Nat × Nat) := do
  let wa ← window s start end_
  pure (lpWorth s wa liq)

/-- start round of the `…ByRoundOffset` views -/
def offsetStart (s : St) (off : Nat) : Option Nat := do
  req (0 < off ∧ off < s.round)
  pure (s.round - off)

/-- `get_default_offset_rounds` and the start round of the `…ByDefaultOffset` views -/
def defaultStart (s : St) : Option Nat := do
  let old ← oldest s.sp
  let d ← sub? s.round old.round
  pure (s.round - min d DEFAULT_OFFSET)

def getSafePriceByRoundOffset (s : St) (off : Nat) (d : Option Dir) (amt : Nat) : Option Nat := do
  let st ← offsetStart s off
  getSafePrice s st s.round d amt

def getSafePriceByTimestampOffset (s : St) (ts : Nat) (d : Option Dir) (amt : Nat) : Option Nat :=
  getSafePriceByRoundOffset s (ts / SECONDS_PER_ROUND) d amt

def getSafePriceByDefaultOffset (s : St) (d : Option Dir) (amt : Nat) : Option Nat := do
  let st ← defaultStart s
  getSafePrice s st s.round d amt

def getLpSafePriceByRoundOffset (s : St) (off liq : Nat) : Option (Nat × Nat) := do
  let st ← offsetStart s off
  getLpSafePrice s st s.round liq

def getLpSafePriceByTimestampOffset (s : St) (ts liq : Nat) : Option (Nat × Nat) :=
  getLpSafePriceByRoundOffset s (ts / SECONDS_PER_ROUND) liq

def getLpSafePriceByDefaultOffset (s : St) (liq : Nat) : Option (Nat × Nat) := do
  let st ← defaultStart s
  getLpSafePrice s st s.round liq

/-- `getPriceObservation(pair, round)` -/
def getPriceObservation (s : St) (q : Nat) : Option Obs := do
  let old ← oldest s.sp
  req (old.round ≤ q)
  lookup s q

/-- `updateAndGetSafePrice(input)` (legacy endpoint; despite its name it updates nothing) -/
def updateAndGetSafePrice (s : St) (d : Option Dir) (amt : Nat) : Option Nat :=
  getSafePriceByDefaultOffset s d amt

/-- `updateAndGetTokensForGivenPositionWithSafePrice(liquidity)` -/
def updateAndGetPosition (s : St) (liq : Nat) : Option (Nat × Nat) :=
  getLpSafePriceByDefaultOffset s liq

/-! ### synthetic buffers (the `prefill` operation of the `safeprice` world)

  The harness installs a whole observation buffer through one storage-writing closure.  The
  buffer is described by a handful of numbers so that the op line stays short:
  observation `k` (logical order, oldest first) is recorded at round
  `round_k = round_{k-1} + 1 + ((k·g + p) mod q)` (`round_0 = base`) from the reserves
  `x_i + ((k·y_i) mod z_i)`; accumulators follow `compute_new_observation`.  Logical element
  `k` is stored at 1-based index `((cur + k) mod n) + 1`. -/

structure Fill where
  n : Nat
  cur : Nat
  base : Nat
  g : Nat
  p : Nat
  q : Nat
  x1 : Nat
  y1 : Nat
  z1 : Nat
  x2 : Nat
  y2 : Nat
  z2 : Nat
  xS : Nat
  yS : Nat
  zS : Nat
  deriving DecidableEq, Repr

def Fill.gap (f : Fill) (k : Nat) : Nat := 1 + (k * f.g + f.p) % f.q
def Fill.r1 (f : Fill) (k : Nat) : Nat := f.x1 + (k * f.y1) % f.z1
def Fill.r2 (f : Fill) (k : Nat) : Nat := f.x2 + (k * f.y2) % f.z2
def Fill.rS (f : Fill) (k : Nat) : Nat := f.xS + (k * f.yS) % f.zS

/-- logical elements `k, k+1, …` given the previous one; accumulates in reverse -/
def Fill.build (f : Fill) : Nat → Nat → Obs → List Obs → List Obs
  | 0, _, _, acc => acc
  | m + 1, k, prev, acc =>
    let o := prev.next (prev.round + f.gap k) (f.r1 k) (f.r2 k) (f.rS k)
    f.build m (k + 1) o (o :: acc)

/-- the buffer in logical order (oldest first) -/
def Fill.logical (f : Fill) : List Obs :=
  if f.n = 0 then [] else
  let o0 : Obs := ⟨f.r1 0, f.r2 0, f.rS 0, 1, f.base⟩
  (f.build (f.n - 1) 1 o0 [o0]).reverse

/-- install the buffer: fails on a shape no history can produce, or a buffer from the future -/
def prefill (s : St) (f : Fill) : Option St := do
  req (0 < f.n ∧ f.n ≤ s.sp.cap)
  req (1 ≤ f.cur ∧ f.cur ≤ f.n)
  req (f.n < s.sp.cap → f.cur = f.n)
  req (1 ≤ f.base ∧ 1 ≤ f.x1 ∧ 1 ≤ f.x2 ∧ 1 ≤ f.xS)
  req (0 < s.r1 ∧ 0 < s.r2 ∧ 0 < s.S)
  let lg := f.logical
  let k0 := (f.n - f.cur % f.n) % f.n
  let phys := lg.drop k0 ++ lg.take k0
  let last := lg.getLastD Obs.zero
  req (last.round ≤ s.round)
  pure { s with sp := { s.sp with obs := phys, cur := f.cur } }

end Mx.SafePrice
