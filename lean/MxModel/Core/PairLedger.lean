/-
  Per-account token ledger on top of the pair model (`Core/Pair.lean`).  Import-free.

  `Pair.St` only knows the pair's own side of every transfer (its balances `bal1/bal2/lpOwn`
  and the cumulative sinks `burn* / coll* / ext* / slk*`).  This file adds the OTHER side:
  the ESDT wallets of the externally owned accounts that call the pair.

  * `Acct`  = what one account holds: the two pool tokens, the LP token, and the LOCKED
              tokens simple-lock minted for it (by wrapped pool token).
  * `move`  = the transfers a successful call performs between its caller and the pair,
              read off the operation's arguments and its `Out` record (these are exactly the
              payments `Driver/Pair.lean` prints as `recv=` / `lk=` and the harness measures
              on the real ESDT balances).
  * `stepL` = `Pair.step` + debit / credit of the caller's wallet.  The debit is checked
              like the VM checks it (a caller that does not hold what it sends fails).
              The pair's own entries `pairA/pairB/pairLp` are kept by plain transfer
              book-keeping (received − sent − what went to the sinks); that they coincide
              with the model's `bal1/bal2/lpOwn` ghosts is a THEOREM (Props/C01Ledger.lean),
              not a definition.
  * `LOp.xfer` = a plain ESDT transfer of a pool token or of the LP token from one account to
              another (no contract runs); fails if the sender is short or the amount is 0.
  * `LOp.fund` = the test faucet (`PairWorld::ensure` of the harness): tops an account up to
              a given amount of a pool token; the amount created enters `supplyA/supplyB`.

  Accounts are list positions (`accts[i]`); the driver maps the harness' caller ids to positions.
-/
import MxModel.Core.Pair

namespace Mx.PairLedger
open Mx.Pair

/-- ESDT holdings of one externally owned account -/
structure Acct where
  /-- first pool token -/
  a : Nat
  /-- second pool token -/
  b : Nat
  /-- LP token of the pair -/
  lp : Nat
  /-- LOCKED tokens (simple-lock) wrapping the first / the second pool token -/
  lkA : Nat
  lkB : Nat
  deriving DecidableEq, Repr

/-- what the caller of a successful operation sends with the call (`pay*`) and what the pair
    (or simple-lock on the pair's behalf, for `getLk*`) sends back to it (`get*`) -/
structure Move where
  payA : Nat := 0
  payB : Nat := 0
  payLp : Nat := 0
  getA : Nat := 0
  getB : Nat := 0
  getLp : Nat := 0
  getLkA : Nat := 0
  getLkB : Nat := 0
  deriving DecidableEq, Repr

/-- the transfers between the caller and the pair, per operation:
    add: both payments in, LP minted to the caller, unused part refunded;
    remove: LP in, both pool tokens out; swaps: input in, output out (plain or LOCKED) and, for
    fixed output, the unused input refunded; `swapNoFeeAndForward` / buy-back-and-burn: payment
    in, nothing back; configuration / clock: nothing. -/
def move : Op → Out → Move
  | .addInitial _ a1 a2, o => { payA := a1, payB := a2, getLp := o.v1 }
  | .addLiq a1 a2 _ _, o =>
      { payA := a1, payB := a2, getA := a1 - o.v2, getB := a2 - o.v3, getLp := o.v1 }
  | .removeLiq lp _ _, o => { payLp := lp, getA := o.v1, getB := o.v2 }
  | .swapIn .ab a _, o => { payA := a, getB := o.plainAmt, getLkB := o.lockedAmt }
  | .swapIn .ba a _, o => { payB := a, getA := o.plainAmt, getLkA := o.lockedAmt }
  | .swapOut .ab mx _, o =>
      { payA := mx, getA := o.v3, getB := o.plainAmt, getLkB := o.lockedAmt }
  | .swapOut .ba mx _, o =>
      { payB := mx, getB := o.v3, getA := o.plainAmt, getLkA := o.lockedAmt }
  | .swapNoFee _ .ab a, _ => { payA := a }
  | .swapNoFee _ .ba a, _ => { payB := a }
  | .buyback _ lp _, _ => { payLp := lp }
  | .cfg _, _ => {}
  | .advance _, _ => {}
  | .lock _ _, _ => {}
  | .epoch _, _ => {}

/-- debit what the caller sends (fails like the VM when the wallet is short), credit what it receives -/
def pay (x : Acct) (m : Move) : Option Acct := do
  let a ← sub? x.a m.payA
  let b ← sub? x.b m.payB
  let lp ← sub? x.lp m.payLp
  pure ⟨a + m.getA, b + m.getB, lp + m.getLp, x.lkA + m.getLkA, x.lkB + m.getLkB⟩

/-- sum of one column of the ledger over all accounts -/
def sumOf (f : Acct → Nat) : List Acct → Nat
  | [] => 0
  | x :: xs => f x + sumOf f xs

/-- the ledger: the pair, every account's wallet, the pair contract's own wallet (kept by
    transfer book-keeping), and everything ever created of the two pool tokens -/
structure L where
  p : St
  accts : List Acct
  /-- pool tokens / LP tokens held by the pair contract itself -/
  pairA : Nat
  pairB : Nat
  pairLp : Nat
  /-- total amount of each pool token ever handed to the accounts (initial endowment + faucet) -/
  supplyA : Nat
  supplyB : Nat
  deriving DecidableEq, Repr

/-- the fungible tokens an account can send to another account by a plain ESDT transfer:
    the two pool tokens and the LP token -/
inductive Tok | a | b | lp
  deriving DecidableEq, Repr

/-- holdings of token `t` -/
def Acct.bal (x : Acct) : Tok → Nat
  | .a => x.a
  | .b => x.b
  | .lp => x.lp

/-- take `n` units of token `t` out of the wallet; fails like the protocol when it is short -/
def Acct.debit (x : Acct) (t : Tok) (n : Nat) : Option Acct :=
  match t with
  | .a => do let v ← sub? x.a n; pure { x with a := v }
  | .b => do let v ← sub? x.b n; pure { x with b := v }
  | .lp => do let v ← sub? x.lp n; pure { x with lp := v }

/-- put `n` units of token `t` into the wallet -/
def Acct.credit (x : Acct) (t : Tok) (n : Nat) : Acct :=
  match t with
  | .a => { x with a := x.a + n }
  | .b => { x with b := x.b + n }
  | .lp => { x with lp := x.lp + n }

inductive LOp
  /-- faucet: account `i` is topped up to hold at least `x` of the first / second pool token -/
  | fund (i : Nat) (first : Bool) (x : Nat)
  /-- account `i` calls the pair -/
  | call (i : Nat) (op : Op)
  /-- plain ESDT transfer (no contract involved): account `src` sends `x` units of token `t`
      to account `dst`.  The protocol rejects a zero amount and a sender that is short. -/
  | xfer (src dst : Nat) (t : Tok) (x : Nat)
  deriving DecidableEq, Repr

/-- the accounts after `src` sent `x` of token `t` to `dst` (`src = dst` allowed: net zero) -/
def xferAccts (accts : List Acct) (src dst : Nat) (t : Tok) (x : Nat) : Option (List Acct) := do
  req (0 < x)
  let s ← accts[src]?
  let s' ← s.debit t x
  let l1 := accts.set src s'
  let d ← l1[dst]?
  pure (l1.set dst (d.credit t x))

/-- the pair's own wallet after a call: what it held, plus the payment, minus what it sent
    back to the caller, minus what the call moved to the burn address, the fees collector, the
    trusted pairs and simple-lock (`d*` = growth of the corresponding cumulative counter) -/
def pairEntry (held paid got dBurn dColl dExt dSlk : Nat) : Nat :=
  held + paid - got - dBurn - dColl - dExt - dSlk

def stepL (l : L) : LOp → Option (L × Out)
  | .fund i first x => do
      let acc ← l.accts[i]?
      if first then
        pure ({ l with accts := l.accts.set i { acc with a := max acc.a x },
                       supplyA := l.supplyA + (x - acc.a) }, {})
      else
        pure ({ l with accts := l.accts.set i { acc with b := max acc.b x },
                       supplyB := l.supplyB + (x - acc.b) }, {})
  | .call i op => do
      let r ← step l.p op
      let acc ← l.accts[i]?
      let acc' ← pay acc (move op r.2)
      pure ({ p := r.1, accts := l.accts.set i acc',
              pairA := pairEntry l.pairA (move op r.2).payA (move op r.2).getA
                (r.1.burn1 - l.p.burn1) (r.1.coll1 - l.p.coll1) (r.1.ext1 - l.p.ext1)
                (r.1.slk1 - l.p.slk1),
              pairB := pairEntry l.pairB (move op r.2).payB (move op r.2).getB
                (r.1.burn2 - l.p.burn2) (r.1.coll2 - l.p.coll2) (r.1.ext2 - l.p.ext2)
                (r.1.slk2 - l.p.slk2),
              -- LP: received from the caller + minted (supply growth) − sent to the caller − burned
              pairLp := l.pairLp + (move op r.2).payLp + (r.1.S - l.p.S) - (move op r.2).getLp
                - (l.p.S - r.1.S),
              supplyA := l.supplyA, supplyB := l.supplyB }, r.2)
  | .xfer src dst t x => do
      let accts ← xferAccts l.accts src dst t x
      pure ({ l with accts := accts }, {})

/-- the ledger after a history: failed transactions leave everything unchanged -/
def runL (l : L) (ops : List LOp) : L :=
  ops.foldl (fun l o => match stepL l o with | some (l', _) => l' | none => l) l

/-- a freshly deployed pair and accounts endowed with `(first, second)` pool tokens, no LP, no
    LOCKED tokens -/
def initL (total special : Nat) (adder : Option Nat) (cap : Nat) (funds : List (Nat × Nat)) : L :=
  let accts := funds.map fun f => (⟨f.1, f.2, 0, 0, 0⟩ : Acct)
  { p := Pair.init total special adder cap, accts := accts, pairA := 0, pairB := 0, pairLp := 0,
    supplyA := sumOf (·.a) accts, supplyB := sumOf (·.b) accts }

end Mx.PairLedger
