/-
  Core arithmetic shared by every contract model.  Import-free (core Lean only).

  `BigUint` of the contracts = `Nat` here; every Rust subtraction that can underflow
  is `sub?` (fails instead of truncating) and every `require!` is `req`.
-/
namespace Mx

/-- `require!(c, …)` : succeed iff `c` holds. -/
def req (c : Prop) [Decidable c] : Option Unit := if c then some () else none

@[simp] theorem req_eq_some {c : Prop} [Decidable c] (u : Unit) : req c = some u ↔ c := by
  unfold req; split <;> simp [*]

@[simp] theorem req_eq_none {c : Prop} [Decidable c] : req c = none ↔ ¬ c := by
  unfold req; split <;> simp [*]

/-- checked `BigUint` subtraction (`a - b` aborts the transaction when `b > a`). -/
def sub? (a b : Nat) : Option Nat := if b ≤ a then some (a - b) else none

@[simp] theorem sub?_eq_some {a b c : Nat} : sub? a b = some c ↔ b ≤ a ∧ c = a - b := by
  unfold sub?; split <;> simp [*, eq_comm]

/-- `a * b / c` with `BigUint` (floor) division; callers guard `c ≠ 0` where the code does. -/
def mulDiv (a b c : Nat) : Nat := a * b / c

/-- ceiling division used by `weighted_average_round_up`. -/
def ceilDiv (a b : Nat) : Nat := (a + b - 1) / b

/-- `math::weighted_average_round_up(v1, w1, v2, w2)` -/
def weightedAvgRoundUp (v1 w1 v2 w2 : Nat) : Nat :=
  ceilDiv (v1 * w1 + v2 * w2) (w1 + w2)

/-- `math::weighted_average` (floor) -/
def weightedAvg (v1 w1 v2 w2 : Nat) : Nat := (v1 * w1 + v2 * w2) / (w1 + w2)

/-- `math::linear_interpolation(min_in, max_in, cur_in, min_out, max_out)`;
    the contract requires `min_in ≤ cur_in ≤ max_in`; the caller guards `min_in < max_in`. -/
def linInterp (minIn maxIn curIn minOut maxOut : Nat) : Nat :=
  (minOut * (maxIn - curIn) + maxOut * (curIn - minIn)) / (maxIn - minIn)

end Mx
