/-
  `locked-asset/proxy_dex`: WHO calls, and FOR WHOM.  Import-free layer on top of `Core/ProxyDex`.

  Transcribed from `proxy_farm.rs`, `proxy_pair.rs`, `energy_update.rs`, `wrapped_*_token_merge.rs`
  and `common/modules/sc_whitelist_module` (`get_orig_caller_from_opt`):

  * `enterFarmProxy`, `exitFarmProxy`, `claimRewardsProxy` take `opt_original_caller`.  Supplying it
    requires the DIRECT caller to be on the proxy's SC whitelist (`require_sc_address_whitelisted`,
    error "Item not whitelisted"); without it the original caller is the direct caller.  No other
    endpoint has such an argument (`addLiquidityProxy`, `removeLiquidityProxy`, the merges and the
    two `increaseProxy…Energy` endpoints always act for `get_caller()`).
  * every output payment (wrapped tokens, locked tokens, base asset, rewards) is sent to the
    DIRECT caller (`send_payment_non_zero(&caller, …)`); the direct caller is also the one who pays
    the wrapped token, i.e. must own it.
  * the farm is told the ORIGINAL caller (`call_exit_farm(original_caller, …)` …): boosted-yield
    position, energy of locked rewards.
  * `burn_locked_tokens_and_update_energy(…, user)` rewrites the energy entry of `user`:
    `exitFarmProxy` passes the ORIGINAL caller (`handle_farm_penalty_and_get_output_proxy_farming_token
    (&original_caller, …)`), `removeLiquidityProxy` the direct caller.

  The layer adds the whitelist and a ghost ledger `eBy` (energy the proxy took from each account's
  entry) around the unchanged bookkeeping model: `stepA` runs `step` and books `Out.eDed` on the
  energy account of the call.  The harness reads the same per-account quantity from the real energy
  factory (entry before − entry after, corrected by the factory's own recomputed effects).
-/
import MxModel.Core.ProxyDex

namespace Mx.ProxyDex

/-- endpoints that have the `opt_original_caller` argument -/
def hasOrigArg : Op → Bool
  | .enterL .. => true
  | .enterW .. => true
  | .exitFarm .. => true
  | .claim .. => true
  | _ => false

/-- a transaction sent to the proxy: direct caller, the optional original-caller argument, the
    operation with the callee answers -/
structure Call where
  caller : Nat
  opt : Option Nat
  op : Op

structure StA where
  s : St
  /-- `scWhitelistAddresses` of the proxy -/
  wlist : Nat → Bool
  /-- ghost: energy the proxy took out of each account's energy entry, cumulative -/
  eBy : Nat → Int

structure OutA where
  out : Out
  /-- the account every output payment is sent to -/
  to : Nat
  /-- the account the call is made for: the farm is told this address and the proxy rewrites the
      energy entry of this address (by `out.eDed`) -/
  eAcc : Nat

def initA (now : Nat) (wlist : Nat → Bool) : StA := ⟨init now, wlist, fun _ => 0⟩

/-- `get_orig_caller_from_opt`; naming an original caller on an endpoint without that argument is a
    malformed transaction -/
def origOf? (a : StA) (c : Call) : Option Nat :=
  match c.opt with
  | none => some c.caller
  | some u => if hasOrigArg c.op && a.wlist c.caller then some u else none

def stepA (a : StA) (c : Call) : Option (StA × OutA) := do
  let u ← origOf? a c
  let (s', o) ← step a.s c.op
  pure ({ a with s := s', eBy := fun i => if i = u then a.eBy i + o.eDed else a.eBy i },
        ⟨o, c.caller, u⟩)

/-- a history of calls: failed transactions leave the state unchanged -/
def runA (a : StA) (cs : List Call) : StA :=
  cs.foldl (fun a c => match stepA a c with | some (a', _) => a' | none => a) a

end Mx.ProxyDex
