/-
  Model of `dex/router` composed with the pair model (`Core/Pair.lean`).  Import-free.

  Transcribed from: router/src/contract.rs (createPair, removePair, pause, resume, setFeeOn,
  setFeeOff, setPairCreationEnabled), config.rs (`check_is_pair_sc`, `setPairTemplateAddress`),
  factory.rs (`create_pair`, `get_pair`), multi_pair_swap.rs (`multiPairSwap`),
  enable_swap_by_user.rs (`configEnableByUserParameters`, `addCommonTokensForUserPairs`,
  `removeCommonTokensForUserPairs`, `setSwapEnabledByUser`, `getEnableSwapByUserConfig`), and —
  as far as that module needs it — locked-asset/simple-lock (`lockTokens`, `unlockTokens`).

  The world is the router plus every deployed pair contract (pairs created through the router —
  still registered or already removed — and "foreign" pairs deployed by somebody else).  Each
  pair is a `PairRec`: the two token ids it reports and its `Mx.Pair.St`.

  Conventions: a failed transaction is `none` (state unchanged by atomicity).  Token ids are
  `Nat` (`0` = an identifier that is not a valid ESDT id), addresses are `Nat` (`0` = the zero
  address).  An LP token is identified by the address of the pair that mints it.
  `rbal` (the router's own balances) and `ubal` (balances of the user accounts) are ghost
  ledgers: they are what property C14 talks about and what the harness observes.  `lbal` holds
  the LOCKED meta-ESDT balances of every account *including the router* (a locked token class is
  an `LTok` = the collection id of the simple-lock that minted it, the wrapped asset, the unlock
  epoch).

  `issueLpToken` / `setLocalRoles` / `upgradePair` are modelled up to the point where they register
  their asynchronous call (ESDT system SC `issue` / `setSpecialRole`, `upgradeContract` from the
  template): every guard, and the one storage write that precedes the call (an expired
  temporary-owner entry is removed by `get_pair_temporary_owner`).  The asynchronous tail and the
  `lp_token_issue_callback` are NOT modelled (the white-box VM's system-SC mock sends no initial
  supply back, so the callback cannot learn the token id); the LP token id and roles are
  installed directly right after `createPair`, as the repo's tests do — unless the environment
  flag `bareNext` is on, in which case the new pair is left without LP token (`noLp`).
  The pair model does not know that liquidity cannot be added before the LP token exists: the
  generator never adds liquidity to a `noLp` pair.  Events are not modelled.
  The contract keeps two notions of owner (the account owner checked by `#[only_owner]` and the
  `owner` storage cell written by `init`); both are the deployer, modelled as one `owner`.
-/
import MxModel.Core.Pair

namespace Mx.Router

abbrev Tok := Nat
abbrev Addr := Nat

/-- `DEFAULT_TOTAL_FEE_PERCENT` -/
def DEFAULT_TOTAL : Nat := 300
/-- `DEFAULT_SPECIAL_FEE_PERCENT` -/
def DEFAULT_SPECIAL : Nat := 50
/-- `USER_DEFINED_TOTAL_FEE_PERCENT` -/
def USER_TOTAL : Nat := 1000
/-- `MAX_TOTAL_FEE_PERCENT` (router side; the pair's own `init` enforces `Pair.MAXFEE`) -/
def MAX_TOTAL : Nat := 100000
/-- ring capacity of the pair's price observations (`MAX_OBSERVATIONS`) -/
def OBS_CAP : Nat := 65536

/-- `TokenIdentifier::is_valid_esdt_identifier` -/
def validTok (t : Tok) : Prop := t ≠ 0

instance (t : Tok) : Decidable (validTok t) := by unfold validTok; exact inferInstance

/-- point update of a total map -/
def upd {β : Type} (f : Nat → β) (k : Nat) (v : β) : Nat → β := fun x => if x = k then v else f x

/-- point update of a two-level total map -/
def upd2 (f : Nat → Nat → Nat) (a k v : Nat) : Nat → Nat → Nat :=
  fun x => if x = a then upd (f a) k v else f x

/-! ### locked tokens (simple-lock) and the enable-swap-by-user configuration -/

/-- a class of LOCKED meta-ESDT tokens: the collection (= token id of the simple-lock contract
    that minted it), the wrapped asset (`LockedTokenAttributes.original_token_id`: a pool token or
    an LP token, the latter identified by its pair's address) and the unlock epoch -/
structure LTok where
  coll : Tok
  orig : Nat
  unlock : Nat
  deriving DecidableEq, Repr

/-- point update of a locked-token ledger -/
def updL (f : Addr → LTok → Nat) (a : Addr) (k : LTok) (v : Nat) : Addr → LTok → Nat :=
  fun x y => if x = a ∧ y = k then v else f x y

/-- an ESDT transfer of `amt` locked tokens of class `k` from `src` to `dst` -/
def xfer (l : Addr → LTok → Nat) (src dst : Addr) (k : LTok) (amt : Nat) :
    Option (Addr → LTok → Nat) := do
  let b ← sub? (l src k) amt
  let l1 := updL l src k b
  pure (updL l1 dst k (l1 dst k + amt))

/-- `EnableSwapByUserConfig` -/
structure EnableCfg where
  lockedTok : Tok
  minValue : Nat
  minPeriod : Nat
  deriving DecidableEq, Repr

/-- `UnorderedSetMapper::insert` (iteration order = insertion order) -/
def setInsert (l : List Tok) (t : Tok) : List Tok := if t ∈ l then l else l ++ [t]

/-- `UnorderedSetMapper::swap_remove`: the last element takes the place of the removed one -/
def setSwapRemove (l : List Tok) (t : Tok) : List Tok :=
  if t ∈ l then
    match l.getLast? with
    | some z => l.dropLast.map fun x => if x = t then z else x
    | none => l
  else l

/-- token ids of the two deployed simple-lock contracts' LOCKED collections -/
def LOCK_A : Tok := 501
def LOCK_B : Tok := 502

/-! ### the registry: `pair_map : MapMapper<PairTokens, ManagedAddress>` in iteration order -/

abbrev Reg := List ((Tok × Tok) × Addr)

/-- `pair_map().get(&key)` -/
def lookup : Reg → Tok × Tok → Option Addr
  | [], _ => none
  | (k', a) :: m, k => if k' = k then some a else lookup m k

/-- `pair_map().remove(&key)` (the remaining entries keep their order) -/
def erase : Reg → Tok × Tok → Reg
  | [], _ => []
  | (k', a) :: m, k => if k' = k then erase m k else (k', a) :: erase m k

/-- `getPair(first, second)`: the entry for `(first, second)`, else the one for
    `(second, first)`, else the zero address -/
def getPair (m : Reg) (a b : Tok) : Addr :=
  let x := (lookup m (a, b)).getD 0
  if x = 0 then (lookup m (b, a)).getD 0 else x

/-! ### deployed pair contracts -/

/-- a deployed pair contract: the token ids it reports, its state, and the token requested by
    each fee destination (parallel to `st.dests`; `setFeeOff` compares the real token id) -/
structure PairRec where
  t1 : Tok
  t2 : Tok
  st : Mx.Pair.St
  destToks : List Tok
  deriving DecidableEq, Repr

/-- every pair contract that exists, by address -/
abbrev Pairs := Addr → Option PairRec

/-- `StorageCache::get_swap_tokens_order(token_in, token_out)` ("Invalid tokens" otherwise) -/
def dirOf (p : PairRec) (tokIn tokOut : Tok) : Option Mx.Pair.Dir :=
  if tokIn = p.t1 ∧ tokOut = p.t2 then some .ab
  else if tokIn = p.t2 ∧ tokOut = p.t1 then some .ba
  else none

/-- how a pair classifies a requested fee token -/
def wantOf (p : PairRec) (tok : Tok) : Mx.Pair.Want :=
  if tok = p.t1 then .first else if tok = p.t2 then .second else .other

/-- `check_is_pair_sc(address)`: read the two token ids from the storage of `address`, look the
    pair up in the registry (as reported, else reversed) and require that the entry is `address`.
    An account that is not a pair contract reports empty token ids, which are in no registry
    key (only valid ESDT ids are ever inserted). -/
def checkIsPairSc (m : Reg) (w : Pairs) (a : Addr) : Option Unit := do
  let p ← w a
  let x ← (match lookup m (p.t1, p.t2) with
    | some x => some x
    | none => lookup m (p.t2, p.t1))
  req (x = a)

/-! ### the temporary owners: `pair_temporary_owner : MapMapper<ManagedAddress, (ManagedAddress, u64)>` -/

/-- `TEMPORARY_OWNER_PERIOD_BLOCKS` (factory.rs) -/
def TEMPORARY_OWNER_PERIOD_BLOCKS : Nat := 50

/-- (pair, creator, creation block) in the `MapMapper`'s iteration order (= insertion order) -/
abbrev TmpMap := List (Addr × Addr × Nat)

/-- `pair_temporary_owner().get(&pair)` -/
def tmpLookup : TmpMap → Addr → Option (Addr × Nat)
  | [], _ => none
  | (k, v) :: m, a => if k = a then some v else tmpLookup m a

/-- `pair_temporary_owner().remove(&pair)` (the remaining entries keep their order) -/
def tmpErase : TmpMap → Addr → TmpMap
  | [], _ => []
  | (k, v) :: m, a => if k = a then tmpErase m a else (k, v) :: tmpErase m a

/-- `pair_temporary_owner().insert(pair, v)`: a new key goes to the end, an existing key keeps
    its place and gets the new value -/
def tmpInsert : TmpMap → Addr → Addr × Nat → TmpMap
  | [], a, v => [(a, v)]
  | (k, w) :: m, a, v => if k = a then (k, v) :: m else (k, w) :: tmpInsert m a v

/-- `get_pair_temporary_owner(pair)` at block `now` with period `period`: the map it leaves
    behind (an expired entry is REMOVED) and the temporary owner, if one is live -/
def getTmpOwner (m : TmpMap) (period now : Nat) (a : Addr) : TmpMap × Option Addr :=
  match tmpLookup m a with
  | some (t, created) =>
      if created + period ≤ now then (tmpErase m a, none) else (m, some t)
  | none => (m, none)

/-! ### state -/

structure St where
  /-- deployer of the router = `owner` storage cell = account owner -/
  owner : Addr
  /-- the router's own address -/
  self : Addr
  /-- `state` -/
  active : Bool
  /-- `pair_creation_enabled` -/
  creationEnabled : Bool
  /-- `pair_template_address` is set -/
  templateSet : Bool
  /-- `pair_map` -/
  pairMap : Reg
  /-- every deployed pair contract -/
  pairs : Pairs
  /-- addresses of the deployed pair contracts, in deployment order (keys of `pairs`) -/
  addrs : List Addr
  /-- address the next `deploy_from_source` yields -/
  nextAddr : Addr
  /-- the router's own ESDT balances (ghost) -/
  rbal : Tok → Nat
  /-- balances of the other accounts: `ubal account asset`; assets are pool tokens and LP
      tokens (identified by their pair's address) -/
  ubal : Addr → Nat → Nat
  /-- `blockchain().get_block_epoch()` -/
  epoch : Nat := 0
  /-- `common_tokens_for_user_pairs` in the `UnorderedSetMapper`'s iteration order -/
  commonToks : List Tok := []
  /-- `enable_swap_by_user_config(token)` -/
  enableCfg : Tok → Option EnableCfg := fun _ => none
  /-- LOCKED-token balances of every account, the router included (ghost) -/
  lbal : Addr → LTok → Nat := fun _ _ => 0
  /-- the locked-token classes minted so far, in order of creation (ghost; what the driver prints) -/
  lkeys : List LTok := []
  /-- `blockchain().get_block_nonce()` -/
  block : Nat := 0
  /-- `temporary_owner_period` (`init`: `TEMPORARY_OWNER_PERIOD_BLOCKS` if empty) -/
  tmpPeriod : Nat := TEMPORARY_OWNER_PERIOD_BLOCKS
  /-- `pair_temporary_owner : MapMapper<pair, (creator, creation block)>` in iteration order -/
  tmpOwners : TmpMap := []
  /-- pairs deployed by `createPair` whose LP token has not been issued / installed -/
  noLp : List Addr := []
  /-- environment flag: the LP token of the pairs created from now on is NOT installed -/
  bareNext : Bool := false

/-- results of an operation -/
structure Out where
  /-- `createPair` / `removePair`: the address returned -/
  addr : Addr := 0
  /-- `multiPairSwap`: the payments returned (and sent to the caller) -/
  pays : List (Tok × Nat) := []
  /-- pair operations: the three numbers of `Pair.Out` -/
  v1 : Nat := 0
  v2 : Nat := 0
  v3 : Nat := 0
  /-- `lockTokens` / `setSwapEnabledByUser`: the LOCKED tokens sent to the caller -/
  back : Option (LTok × Nat) := none
  deriving DecidableEq, Repr

/-! ### pair creation and removal -/

/-- fee percents of a new pair: the owner must pass them (`total ≥ special`, `total < MAX`),
    everybody else gets the defaults whatever they pass -/
def feePercents (isOwner : Bool) (fees : Option (Nat × Nat)) : Option (Nat × Nat) :=
  if isOwner then
    match fees with
    | some f => if f.2 ≤ f.1 ∧ f.1 < MAX_TOTAL then some f else none
    | none => none
  else some (DEFAULT_TOTAL, DEFAULT_SPECIAL)

/-- a freshly deployed pair (`Pair::init` through `deploy_from_source`) -/
def newPair (t1 t2 : Tok) (total special : Nat) (adder : Addr) : PairRec :=
  { t1 := t1, t2 := t2, destToks := [],
    st := Mx.Pair.init total special (if adder = 0 then none else some adder) OBS_CAP }

/-- `createPair(first, second, initial_liquidity_adder, opt_fee_percents, admins…)` by `c`;
    returns the new pair's address -/
def createPair (s : St) (c : Addr) (t1 t2 : Tok) (adder : Addr) (fees : Option (Nat × Nat)) :
    Option (St × Out) := do
  req (s.active = true)
  req (c = s.owner ∨ s.creationEnabled = true)
  req (t1 ≠ t2)
  req (validTok t1)
  req (validTok t2)
  req (getPair s.pairMap t1 t2 = 0)
  let fp ← feePercents (decide (c = s.owner)) fees
  req (s.templateSet = true)
  -- `Pair::init`: `set_fee_percents` (the other checks repeat the router's)
  req (fp.2 ≤ fp.1 ∧ fp.1 ≤ Mx.Pair.MAXFEE)
  let a := s.nextAddr
  pure ({ s with pairMap := s.pairMap ++ [((t1, t2), a)],
                 pairs := upd s.pairs a (some (newPair t1 t2 fp.1 fp.2 adder)),
                 addrs := s.addrs ++ [a],
                 nextAddr := a + 1,
                 tmpOwners := tmpInsert s.tmpOwners a (c, s.block),
                 noLp := if s.bareNext then s.noLp ++ [a] else s.noLp }, { addr := a })

/-- `removePair(first, second)` by `c` (owner only); returns the removed address -/
def removePair (s : St) (c : Addr) (t1 t2 : Tok) : Option (St × Out) := do
  req (c = s.owner)
  req (s.active = true)
  req (t1 ≠ t2)
  req (validTok t1)
  req (validTok t2)
  req (getPair s.pairMap t1 t2 ≠ 0)
  let a1 := (lookup s.pairMap (t1, t2)).getD 0
  let m1 := erase s.pairMap (t1, t2)
  if a1 ≠ 0 then pure ({ s with pairMap := m1 }, { addr := a1 })
  else pure ({ s with pairMap := erase m1 (t2, t1) }, { addr := (lookup m1 (t2, t1)).getD 0 })

/-! ### owner-only management of the router and of registered pairs -/

/-- replace the state of pair `a` -/
def setPairSt (w : Pairs) (a : Addr) (p : PairRec) (st : Mx.Pair.St) : Pairs :=
  upd w a (some { p with st := st })

/-- `pause(address)` / `resume(address)` by `c`: the router itself, else a registered pair -/
def setState (s : St) (c a : Addr) (on : Bool) : Option (St × Out) := do
  req (c = s.owner)
  if a = s.self then pure ({ s with active := on }, {})
  else do
    checkIsPairSc s.pairMap s.pairs a
    let p ← s.pairs a
    let st ← Mx.Pair.cfg p.st (.setState (if on then .active else .inactive))
    pure ({ s with pairs := setPairSt s.pairs a p st }, {})

/-- `setFeeOn(pair, fee_to_address, fee_token)` by `c`, with a destination address that is not
    yet a destination of that pair -/
def setFeeOn (s : St) (c a : Addr) (tok : Tok) : Option (St × Out) := do
  req (c = s.owner)
  req (s.active = true)
  checkIsPairSc s.pairMap s.pairs a
  let p ← s.pairs a
  let st ← Mx.Pair.cfg p.st (.addDest (wantOf p tok))
  pure ({ s with pairs := upd s.pairs a (some { p with st := st, destToks := p.destToks ++ [tok] }) },
        {})

/-- `setFeeOff(pair, fee_to_address, fee_token)` by `c`, the address being the `i`-th
    destination of that pair -/
def setFeeOff (s : St) (c a : Addr) (i : Nat) (tok : Tok) : Option (St × Out) := do
  req (c = s.owner)
  req (s.active = true)
  checkIsPairSc s.pairMap s.pairs a
  let p ← s.pairs a
  req (i < p.destToks.length)
  req (p.destToks[i]? = some tok)
  let st ← Mx.Pair.cfg p.st (.removeDest i)
  pure ({ s with pairs := upd s.pairs a (some { p with st := st, destToks := p.destToks.eraseIdx i }) },
        {})

/-- `setPairCreationEnabled(enabled)` by `c` -/
def setCreation (s : St) (c : Addr) (b : Bool) : Option (St × Out) := do
  req (c = s.owner)
  pure ({ s with creationEnabled := b }, {})

/-- `setPairTemplateAddress(address)` by `c` -/
def setTemplate (s : St) (c : Addr) : Option (St × Out) := do
  req (c = s.owner)
  pure ({ s with templateSet := true }, {})

/-! ### the temporary-owner period, LP token issuing, local roles, pair upgrade -/

/-- `setTemporaryOwnerPeriod(period_blocks)` by `c` (no state check) -/
def setTmpPeriod (s : St) (c : Addr) (n : Nat) : Option (St × Out) := do
  req (c = s.owner)
  pure ({ s with tmpPeriod := n }, {})

/-- `clearPairTemporaryOwnerStorage()` by `c` (no state check); returns the number of entries -/
def clearTmp (s : St) (c : Addr) : Option (St × Out) := do
  req (c = s.owner)
  pure ({ s with tmpOwners := [] }, { v1 := s.tmpOwners.length })

/-- `issueLpToken(pair, name, ticker)` by `c`, up to the asynchronous `issue` call: the guards in
    the order of the code; the only storage write is the removal of an expired temporary-owner
    entry by `get_pair_temporary_owner` -/
def issueLp (s : St) (c a : Addr) : Option (St × Out) := do
  req (s.active = true)
  req (c = s.owner ∨ s.creationEnabled = true)
  checkIsPairSc s.pairMap s.pairs a
  let r := getTmpOwner s.tmpOwners s.tmpPeriod s.block a
  -- "Temporary owner differs"
  req (r.2 = none ∨ r.2 = some c)
  -- "LP Token already issued"
  req (a ∈ s.noLp)
  pure ({ s with tmpOwners := r.1 }, {})

/-- `setLocalRoles(pair)` by anybody, up to the asynchronous `setSpecialRole` call -/
def setLocalRoles (s : St) (_c a : Addr) : Option (St × Out) := do
  req (s.active = true)
  checkIsPairSc s.pairMap s.pairs a
  -- "LP token not issued"
  req (a ∉ s.noLp)
  pure (s, {})

/-- `upgradePair(first, second)` by `c`, up to the asynchronous `upgradeContract` call (the
    pair's own `upgrade` does nothing) -/
def upgradePair (s : St) (c : Addr) (t1 t2 : Tok) : Option (St × Out) := do
  req (c = s.owner)
  req (s.active = true)
  req (t1 ≠ t2)
  req (validTok t1)
  req (validTok t2)
  req (getPair s.pairMap t1 t2 ≠ 0)
  pure (s, {})

/-- the block nonce moves forward -/
def advanceBlock (s : St) (n : Nat) : Option (St × Out) := do
  req (s.block ≤ n)
  pure ({ s with block := n }, {})

/-- environment: from now on the LP token of a new pair is (`false`) / is not (`true`)
    installed right after its creation -/
def setBareNext (s : St) (b : Bool) : Option (St × Out) :=
  pure ({ s with bareNext := b }, {})

/-! ### multiPairSwap -/

inductive HopKind
  | fixedIn    -- "swapTokensFixedInput"
  | fixedOut   -- "swapTokensFixedOutput"
  | bad        -- any other function name
  deriving DecidableEq, Repr

/-- one `SwapOperationType` = (pair address, function, token wanted, amount wanted) -/
structure Hop where
  pair : Addr
  kind : HopKind
  tokOut : Tok
  amt : Nat
  deriving DecidableEq, Repr

/-- what a hop does to the world of pairs `σ`: given the payment `(tok, amt)` forwarded by the
    router it fails, or returns the new world, the output amount (in `hop.tokOut`) and the
    residual (in `tok`) sent back to the router -/
abbrev Resp (σ : Type) := σ → Hop → Tok → Nat → Option (σ × Nat × Nat)

/-- loop state of `multi_pair_swap`: pair world, router balances, `last_payment`, `payments` -/
structure Loop (σ : Type) where
  w : σ
  rb : Tok → Nat
  tok : Tok
  amt : Nat
  acc : List (Tok × Nat)

/-- one loop iteration: forward the whole last payment, receive output and residual, push the
    residual if non-zero -/
def hopStep {σ : Type} (resp : Resp σ) (l : Loop σ) (h : Hop) : Option (Loop σ) := do
  let r ← resp l.w h l.tok l.amt
  let b ← sub? (l.rb l.tok) l.amt
  let rb1 := upd l.rb l.tok (b + r.2.2)
  let rb2 := upd rb1 h.tokOut (rb1 h.tokOut + r.2.1)
  pure { w := r.1, rb := rb2, tok := h.tokOut, amt := r.2.1,
         acc := if 0 < r.2.2 then l.acc ++ [(l.tok, r.2.2)] else l.acc }

/-- the `for entry in swap_operations` loop, generic in what a hop does -/
def hopLoop {σ : Type} (resp : Resp σ) : List Hop → Loop σ → Option (Loop σ)
  | [], l => some l
  | h :: hs, l => do
      let l' ← hopStep resp l h
      hopLoop resp hs l'

/-- `direct_multi(caller, payments)`: debit the router, credit the caller -/
def payAll : List (Tok × Nat) → (Tok → Nat) → (Nat → Nat) → Option ((Tok → Nat) × (Nat → Nat))
  | [], rb, cb => some (rb, cb)
  | p :: ps, rb, cb => do
      let b ← sub? (rb p.1) p.2
      payAll ps (upd rb p.1 b) (upd cb p.1 (cb p.1 + p.2))

/-- result of the generic multi-hop swap -/
structure MultiRes (σ : Type) where
  w : σ
  rb : Tok → Nat
  cb : Nat → Nat
  pays : List (Tok × Nat)

/-- `multiPairSwap(ops)` with a single fungible payment `(tokIn, amount)`, generic in what a hop
    does; `rb` = router balances, `cb` = the caller's balances -/
def multiG {σ : Type} (resp : Resp σ) (w : σ) (rb : Tok → Nat) (cb : Nat → Nat) (tokIn : Tok)
    (amount : Nat) (hops : List Hop) : Option (MultiRes σ) := do
  req (0 < amount)
  req (hops ≠ [])
  let c0 ← sub? (cb tokIn) amount
  let l ← hopLoop resp hops
    { w := w, rb := upd rb tokIn (rb tokIn + amount), tok := tokIn, amt := amount, acc := [] }
  let pays := l.acc ++ [(l.tok, l.amt)]
  let p ← payAll pays l.rb (upd cb tokIn c0)
  pure { w := l.w, rb := p.1, cb := p.2, pays := pays }

/-- what a hop does in the real composition: `check_is_pair_sc`, then the pair's own
    `swapTokensFixedInput(tokOut, amt)` / `swapTokensFixedOutput(tokOut, amt)` -/
def pairResp (m : Reg) : Resp Pairs := fun w h tok amt => do
  checkIsPairSc m w h.pair
  let p ← w h.pair
  let d ← dirOf p tok h.tokOut
  match h.kind with
  | .fixedIn => do
      let r ← Mx.Pair.swapIn p.st d amt h.amt
      pure (setPairSt w h.pair p r.1, r.2.v1, 0)
  | .fixedOut => do
      let r ← Mx.Pair.swapOut p.st d amt h.amt
      pure (setPairSt w h.pair p r.1, r.2.v1, r.2.v3)
  | .bad => none

/-- `multiPairSwap` by `c` on the composed world -/
def multiPairSwap (s : St) (c : Addr) (tokIn : Tok) (amount : Nat) (hops : List Hop) :
    Option (St × Out) := do
  req (s.active = true)
  let r ← multiG (pairResp s.pairMap) s.pairs s.rbal (s.ubal c) tokIn amount hops
  pure ({ s with pairs := r.w, rbal := r.rb, ubal := upd s.ubal c r.cb }, { pays := r.pays })

/-! ### users calling pair contracts directly (liquidity, plain swaps) -/

/-- `addInitialLiquidity` on pair `a` by `u` -/
def addInitial (s : St) (u a : Addr) (a1 a2 : Nat) : Option (St × Out) := do
  let p ← s.pairs a
  let b1 ← sub? (s.ubal u p.t1) a1
  let b2 ← sub? (s.ubal u p.t2) a2
  let r ← Mx.Pair.addInitial p.st u a1 a2
  let ub := upd (upd (s.ubal u) p.t1 b1) p.t2 b2
  pure ({ s with pairs := setPairSt s.pairs a p r.1,
                 ubal := upd s.ubal u (upd ub a (ub a + r.2.v1)) },
        { v1 := r.2.v1, v2 := r.2.v2, v3 := r.2.v3 })

/-- `addLiquidity(m1, m2)` on pair `a` by `u` paying `(a1, a2)` -/
def addLiq (s : St) (u a : Addr) (a1 a2 m1 m2 : Nat) : Option (St × Out) := do
  let p ← s.pairs a
  req (a1 ≤ s.ubal u p.t1 ∧ a2 ≤ s.ubal u p.t2)
  let r ← Mx.Pair.addLiq p.st a1 a2 m1 m2
  -- the unused part of each payment is refunded: the net debit is what was used
  let b1 ← sub? (s.ubal u p.t1) r.2.v2
  let b2 ← sub? (s.ubal u p.t2) r.2.v3
  let ub := upd (upd (s.ubal u) p.t1 b1) p.t2 b2
  pure ({ s with pairs := setPairSt s.pairs a p r.1,
                 ubal := upd s.ubal u (upd ub a (ub a + r.2.v1)) },
        { v1 := r.2.v1, v2 := r.2.v2, v3 := r.2.v3 })

/-- `removeLiquidity(m1, m2)` on pair `a` by `u` paying `lp` LP tokens -/
def removeLiq (s : St) (u a : Addr) (lp m1 m2 : Nat) : Option (St × Out) := do
  let p ← s.pairs a
  let bl ← sub? (s.ubal u a) lp
  let r ← Mx.Pair.removeLiq p.st lp m1 m2
  let ub := upd (s.ubal u) a bl
  let ub1 := upd ub p.t1 (ub p.t1 + r.2.v1)
  let ub2 := upd ub1 p.t2 (ub1 p.t2 + r.2.v2)
  pure ({ s with pairs := setPairSt s.pairs a p r.1, ubal := upd s.ubal u ub2 },
        { v1 := r.2.v1, v2 := r.2.v2, v3 := r.2.v3 })

/-- `swapTokensFixedInput(tokOut, minOut)` on pair `a` by `u` paying `(tokIn, x)` -/
def swapIn (s : St) (u a : Addr) (tokIn : Tok) (x : Nat) (tokOut : Tok) (minOut : Nat) :
    Option (St × Out) := do
  let p ← s.pairs a
  let d ← dirOf p tokIn tokOut
  let b ← sub? (s.ubal u tokIn) x
  let r ← Mx.Pair.swapIn p.st d x minOut
  let ub := upd (s.ubal u) tokIn b
  pure ({ s with pairs := setPairSt s.pairs a p r.1,
                 ubal := upd s.ubal u (upd ub tokOut (ub tokOut + r.2.v1)) },
        { v1 := r.2.v1, v2 := r.2.v2, v3 := r.2.v3 })

/-- `swapTokensFixedOutput(tokOut, out)` on pair `a` by `u` paying `(tokIn, maxIn)` -/
def swapOut (s : St) (u a : Addr) (tokIn : Tok) (maxIn : Nat) (tokOut : Tok) (out : Nat) :
    Option (St × Out) := do
  let p ← s.pairs a
  let d ← dirOf p tokIn tokOut
  let b ← sub? (s.ubal u tokIn) maxIn
  let r ← Mx.Pair.swapOut p.st d maxIn out
  let ub := upd (s.ubal u) tokIn (b + r.2.v3)
  pure ({ s with pairs := setPairSt s.pairs a p r.1,
                 ubal := upd s.ubal u (upd ub tokOut (ub tokOut + r.2.v1)) },
        { v1 := r.2.v1, v2 := r.2.v2, v3 := r.2.v3 })

/-! ### enable swaps by the user (enable_swap_by_user.rs) -/

/-- `configEnableByUserParameters(common, locked, min_value, min_period)` by `c` -/
def configEnable (s : St) (c : Addr) (common locked : Tok) (minValue minPeriod : Nat) :
    Option (St × Out) := do
  req (c = s.owner)
  req (validTok common)
  req (validTok locked)
  req (common ∈ s.commonToks)
  pure ({ s with enableCfg := upd s.enableCfg common (some ⟨locked, minValue, minPeriod⟩) }, {})

/-- `addCommonTokensForUserPairs(tokens…)` by `c` (one invalid id reverts the whole call) -/
def addCommon (s : St) (c : Addr) (toks : List Tok) : Option (St × Out) := do
  req (c = s.owner)
  req (∀ t ∈ toks, validTok t)
  pure ({ s with commonToks := toks.foldl setInsert s.commonToks }, {})

/-- `removeCommonTokensForUserPairs(tokens…)` by `c` (the per-token configs stay) -/
def removeCommon (s : St) (c : Addr) (toks : List Tok) : Option (St × Out) := do
  req (c = s.owner)
  pure ({ s with commonToks := toks.foldl setSwapRemove s.commonToks }, {})

/-- `get_lp_token_value`: the pair's `getTokensForGivenPosition(amount)`, valued in the first
    token if it is whitelisted, else in the second if that is, else "Invalid tokens in Pair
    contract"; returns (common token, value) -/
def lpValue (wl : List Tok) (p : PairRec) (amount : Nat) : Option (Tok × Nat) :=
  let v := Mx.Pair.viewTokensForPosition p.st amount
  if p.t1 ∈ wl then some (p.t1, v.1)
  else if p.t2 ∈ wl then some (p.t2, v.2)
  else none

/-- `locked_epochs` of `set_swap_enabled_by_user` -/
def lockedEpochs (now unlock : Nat) : Nat := if now < unlock then unlock - now else 0

/-- `setSwapEnabledByUser(pair)` by `c` paying `amount` LOCKED tokens of class `k`.
    The ESDT transfer reaches the router before the endpoint runs; the guards follow in the
    order of the code; at the end the same tokens are sent back (`direct_esdt`). -/
def enableByUser (s : St) (c a : Addr) (k : LTok) (amount : Nat) : Option (St × Out) := do
  req (0 < amount)
  let l1 ← xfer s.lbal c s.self k amount
  req (s.active = true)
  checkIsPairSc s.pairMap s.pairs a
  let p ← s.pairs a
  -- require_state_active_no_swaps
  req (p.st.status = .partialActive)
  -- "Invalid locked LP token": the wrapped asset is the LP token of this pair
  req (k.orig = a)
  let cv ← lpValue s.commonToks p amount
  -- try_get_config: "No config set"
  let cfg ← s.enableCfg cv.1
  req (k.coll = cfg.lockedTok)
  req (cfg.minValue ≤ cv.2)
  req (cfg.minPeriod ≤ lockedEpochs s.epoch k.unlock)
  -- require_caller_initial_liquidity_adder
  req (p.st.adder = some c)
  -- set_fee_percents, pair_resume
  let st1 ← Mx.Pair.cfg p.st (.setFee USER_TOTAL DEFAULT_SPECIAL)
  let st2 ← Mx.Pair.cfg st1 (.setState .active)
  let l2 ← xfer l1 s.self c k amount
  pure ({ s with pairs := setPairSt s.pairs a p st2, lbal := l2 }, { back := some (k, amount) })

/-- `setSwapEnabledByUser(pair)` paying a plain fungible token (a pool token or an unlocked LP
    token): the payment carries no attributes, `decode_attributes` aborts — whatever else holds -/
def enablePlain (_s : St) (_c _a : Addr) (_tok : Nat) (_amount : Nat) : Option (St × Out) := none

/-! ### simple-lock: `lockTokens(unlock_epoch)` / `unlockTokens` (the part the router relies on) -/

/-- `lockTokens(unlock)` on the simple-lock with collection `coll` by `u` paying `amount` of
    `orig`: if the epoch has passed the payment comes straight back, else `amount` LOCKED
    tokens of class `(coll, orig, unlock)` -/
def lockTokens (s : St) (u : Addr) (coll : Tok) (orig amount unlock : Nat) : Option (St × Out) := do
  req (coll = LOCK_A ∨ coll = LOCK_B)
  req (0 < amount)
  let b ← sub? (s.ubal u orig) amount
  if unlock ≤ s.epoch then pure (s, { pays := [(orig, amount)] })
  else
    let k : LTok := ⟨coll, orig, unlock⟩
    pure ({ s with ubal := upd2 s.ubal u orig b,
                   lbal := updL s.lbal u k (s.lbal u k + amount),
                   lkeys := if k ∈ s.lkeys then s.lkeys else s.lkeys ++ [k] },
          { back := some (k, amount) })

/-- `unlockTokens` by `u` paying `amount` LOCKED tokens of class `k` -/
def unlockTokens (s : St) (u : Addr) (k : LTok) (amount : Nat) : Option (St × Out) := do
  req (0 < amount)
  let b ← sub? (s.lbal u k) amount
  req (k.unlock ≤ s.epoch)
  pure ({ s with lbal := updL s.lbal u k b,
                 ubal := upd2 s.ubal u k.orig (s.ubal u k.orig + amount) },
        { pays := [(k.orig, amount)] })

/-- the block epoch moves forward -/
def advance (s : St) (e : Nat) : Option (St × Out) := do
  req (s.epoch ≤ e)
  pure ({ s with epoch := e }, {})

/-! ### the state machine -/

inductive Op
  | createPair (c : Addr) (t1 t2 : Tok) (adder : Addr) (fees : Option (Nat × Nat))
  | removePair (c : Addr) (t1 t2 : Tok)
  | setCreation (c : Addr) (b : Bool)
  | setTemplate (c : Addr)
  | pause (c a : Addr)
  | resume (c a : Addr)
  | setFeeOn (c a : Addr) (tok : Tok)
  | setFeeOff (c a : Addr) (i : Nat) (tok : Tok)
  | multi (c : Addr) (tokIn : Tok) (amount : Nat) (hops : List Hop)
  | addInitial (u a : Addr) (a1 a2 : Nat)
  | addLiq (u a : Addr) (a1 a2 m1 m2 : Nat)
  | removeLiq (u a : Addr) (lp m1 m2 : Nat)
  | swapIn (u a : Addr) (tokIn : Tok) (x : Nat) (tokOut : Tok) (minOut : Nat)
  | swapOut (u a : Addr) (tokIn : Tok) (maxIn : Nat) (tokOut : Tok) (out : Nat)
  | configEnable (c : Addr) (common locked : Tok) (minValue minPeriod : Nat)
  | addCommon (c : Addr) (toks : List Tok)
  | removeCommon (c : Addr) (toks : List Tok)
  | enableByUser (c a : Addr) (k : LTok) (amount : Nat)
  | enablePlain (c a : Addr) (tok amount : Nat)
  | lock (u : Addr) (coll : Tok) (orig amount unlock : Nat)
  | unlock (u : Addr) (k : LTok) (amount : Nat)
  | advance (e : Nat)
  | setTmpPeriod (c : Addr) (n : Nat)
  | clearTmp (c : Addr)
  | issueLp (c a : Addr)
  | setLocalRoles (c a : Addr)
  | upgradePair (c : Addr) (t1 t2 : Tok)
  | advanceBlock (n : Nat)
  | bareNext (b : Bool)
  deriving DecidableEq, Repr

def step (s : St) : Op → Option (St × Out)
  | .createPair c t1 t2 ad f => createPair s c t1 t2 ad f
  | .removePair c t1 t2 => removePair s c t1 t2
  | .setCreation c b => setCreation s c b
  | .setTemplate c => setTemplate s c
  | .pause c a => setState s c a false
  | .resume c a => setState s c a true
  | .setFeeOn c a tok => setFeeOn s c a tok
  | .setFeeOff c a i tok => setFeeOff s c a i tok
  | .multi c tokIn amount hops => multiPairSwap s c tokIn amount hops
  | .addInitial u a a1 a2 => addInitial s u a a1 a2
  | .addLiq u a a1 a2 m1 m2 => addLiq s u a a1 a2 m1 m2
  | .removeLiq u a lp m1 m2 => removeLiq s u a lp m1 m2
  | .swapIn u a ti x to m => swapIn s u a ti x to m
  | .swapOut u a ti mx to o => swapOut s u a ti mx to o
  | .configEnable c common locked mv mp => configEnable s c common locked mv mp
  | .addCommon c toks => addCommon s c toks
  | .removeCommon c toks => removeCommon s c toks
  | .enableByUser c a k amount => enableByUser s c a k amount
  | .enablePlain c a tok amount => enablePlain s c a tok amount
  | .lock u coll orig amount unlock => lockTokens s u coll orig amount unlock
  | .unlock u k amount => unlockTokens s u k amount
  | .advance e => advance s e
  | .setTmpPeriod c n => setTmpPeriod s c n
  | .clearTmp c => clearTmp s c
  | .issueLp c a => issueLp s c a
  | .setLocalRoles c a => setLocalRoles s c a
  | .upgradePair c t1 t2 => upgradePair s c t1 t2
  | .advanceBlock n => advanceBlock s n
  | .bareNext b => setBareNext s b

/-- the state after a history: failed transactions leave the state unchanged. -/
def run (s : St) (ops : List Op) : St :=
  ops.foldl (fun s o => match step s o with | some (s', _) => s' | none => s) s

/-- a foreign pair contract (deployed outside the router, already Active) -/
def foreignPair (t1 t2 total special : Nat) : PairRec :=
  { t1 := t1, t2 := t2, destToks := [],
    st := { Mx.Pair.init total special none OBS_CAP with status := .active } }

/-- install the foreign pairs at the addresses `base, base+1, …` -/
def installForeign : List PairRec → Addr → Pairs → Pairs
  | [], _, w => w
  | p :: ps, a, w => installForeign ps (a + 1) (upd w a (some p))

/-- base address of foreign pairs / of pairs deployed by the router -/
def FOREIGN_BASE : Addr := 900
def PAIR_BASE : Addr := 1000

/-- a freshly deployed router (`init`: active, creation disabled), `foreign` pair contracts
    that somebody else deployed, and the accounts' initial funds -/
def init (owner self : Addr) (template : Bool) (foreign : List PairRec)
    (funds : Addr → Nat → Nat) : St :=
  { owner := owner, self := self, active := true, creationEnabled := false,
    templateSet := template, pairMap := [],
    pairs := installForeign foreign FOREIGN_BASE (fun _ => none),
    addrs := (List.range foreign.length).map (FOREIGN_BASE + ·),
    nextAddr := PAIR_BASE, rbal := fun _ => 0, ubal := funds }

end Mx.Router
