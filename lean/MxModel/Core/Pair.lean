/-
  Model of `dex/pair` (constant-product AMM pair).  Import-free.

  Transcribed from: amm.rs, liquidity_pool.rs, fee.rs, contexts/base.rs (StorageCache =
  "read at start, write at end"), pair_actions/{add_liq,initial_liq,remove_liq,swap,views}.rs,
  safe_price.rs (the observation update every operation performs first),
  locking_wrapper.rs + contexts/output_builder.rs (swap output locked through simple-lock while
  `epoch < locking_deadline_epoch`; simple-lock's `lockTokens` from locked-asset/simple-lock).

  A failed transaction is `none` (state unchanged by atomicity).  Every `require!`,
  every checked `BigUint` subtraction and every ESDT balance debit is an explicit guard.
-/
import MxModel.Core.Arith

namespace Mx.Pair

/-- `MAX_PERCENTAGE` -/
def M : Nat := 100000
/-- `MAX_FEE_PERCENTAGE` -/
def MAXFEE : Nat := 5000
/-- `MINIMUM_LIQUIDITY` -/
def MINLIQ : Nat := 1000

inductive Status | inactive | active | partialActive
  deriving DecidableEq, Repr

/-- swap direction: `ab` pays the first pool token and receives the second. -/
inductive Dir | ab | ba
  deriving DecidableEq, Repr

/-- token a fee destination asks for: a pool token or a third token `C`. -/
inductive Want | first | second | other
  deriving DecidableEq, Repr

/-- what `locking_sc_address` (locking_wrapper.rs) points at: nothing yet, the simple-lock
    contract, or some other contract (which has no `lockTokens` endpoint). -/
inductive LockSc | unset | simpleLock | other
  deriving DecidableEq, Repr

/-- the argument of `setLockingScAddress`: the simple-lock contract, another smart contract,
    or an address that is not a smart contract at all. -/
inductive LockAddr | simpleLock | otherSc | notSc
  deriving DecidableEq, Repr

/-- A trusted external pair `(poolToken, C)` as seen from this pair: it is only ever called
    through `swapNoFeeAndForward` paying the pool token.  `live` = it is Active and has this
    pair on its whitelist. -/
structure XPool where
  rIn : Nat
  rOut : Nat
  live : Bool
  deriving DecidableEq, Repr

/-! ### price observations (safe_price.rs `update_safe_price`) -/

structure Obs where
  acc1 : Nat
  acc2 : Nat
  accS : Nat
  w : Nat
  round : Nat
  deriving DecidableEq, Repr

/-- `price_observations` (a 1-indexed `VecMapper`, element `i` is `obs[i-1]`),
    `safe_price_current_index`, and the ring capacity (`MAX_OBSERVATIONS` in the code). -/
structure SP where
  obs : List Obs
  cur : Nat
  cap : Nat
  deriving DecidableEq, Repr

def Obs.zero : Obs := ⟨0, 0, 0, 0, 0⟩

def SP.last (p : SP) : Obs := if p.obs.isEmpty then Obs.zero else p.obs.getD (p.cur - 1) Obs.zero

/-- `compute_new_observation` -/
def Obs.next (o : Obs) (now r1 r2 S : Nat) : Obs :=
  let w := if o.round = 0 then 1 else now - o.round
  ⟨o.acc1 + w * r1, o.acc2 + w * r2, o.accS + w * S, o.w + w, now⟩

/-- `update_safe_price` with the pre-operation reserves. -/
def SP.update (p : SP) (now r1 r2 S : Nat) : SP :=
  if r1 = 0 ∨ r2 = 0 ∨ S = 0 then p else
  let last := p.last
  let idx := if p.obs.isEmpty then 1 else (p.cur % p.cap) + 1
  if last.round = now then p else
  let n := last.next now r1 r2 S
  if p.obs.length = p.cap then { p with obs := p.obs.set (idx - 1) n, cur := idx }
  else { p with obs := p.obs ++ [n], cur := idx }

/-! ### state -/

structure St where
  status : Status
  total : Nat
  special : Nat
  /-- `destination_map` values in iteration order -/
  dests : List Want
  /-- fees collector configured, with its cut percentage -/
  cut : Option Nat
  /-- `initial_liquidity_adder` -/
  adder : Option Nat
  /-- `whitelist` -/
  wl : List Nat
  r1 : Nat
  r2 : Nat
  S : Nat
  /-- real ESDT balances of the pair contract (pool tokens) -/
  bal1 : Nat
  bal2 : Nat
  /-- all LP tokens in existence (minted − burned) -/
  lpCirc : Nat
  /-- LP tokens held by the pair itself (the locked minimum) -/
  lpOwn : Nat
  /-- trusted pair for (first, C) / (second, C) -/
  x1 : Option XPool
  x2 : Option XPool
  /-- cumulative amounts handed to the fees collector / burned / sent to trusted pairs -/
  coll1 : Nat
  coll2 : Nat
  burn1 : Nat
  burn2 : Nat
  ext1 : Nat
  ext2 : Nat
  sp : SP
  round : Nat
  /-- `locking_deadline_epoch`: swap outputs are locked while `epoch < lockDeadline` -/
  lockDeadline : Nat
  /-- `unlock_epoch` handed to simple-lock's `lockTokens` -/
  lockUnlockEpoch : Nat
  /-- `locking_sc_address` -/
  lockSc : LockSc
  /-- block epoch -/
  epoch : Nat
  /-- pool tokens held by the simple-lock contract: the backing of the LOCKED tokens it
      minted for swap outputs (ghost, observed on the real contract) -/
  slk1 : Nat
  slk2 : Nat
  deriving DecidableEq, Repr

/-- results of an operation; meaning per operation documented at each `def`.
    `locked` (swaps only): the `v1` units of the output token were delivered to the caller as
    LOCKED tokens minted by simple-lock (`true`) or as the plain token (`false`). -/
structure Out where
  v1 : Nat := 0
  v2 : Nat := 0
  v3 : Nat := 0
  locked : Bool := false
  deriving DecidableEq, Repr

/-- amount of the output token a swap's caller receives as the plain token / as LOCKED tokens -/
def Out.plainAmt (o : Out) : Nat := if o.locked then 0 else o.v1
def Out.lockedAmt (o : Out) : Nat := if o.locked then o.v1 else 0

def St.feeOn (s : St) : Bool := !s.dests.isEmpty || s.cut.isSome

def St.rin (s : St) : Dir → Nat
  | .ab => s.r1
  | .ba => s.r2
def St.rout (s : St) : Dir → Nat
  | .ab => s.r2
  | .ba => s.r1
def St.setR (s : St) (d : Dir) (ri ro : Nat) : St :=
  match d with
  | .ab => { s with r1 := ri, r2 := ro }
  | .ba => { s with r1 := ro, r2 := ri }
def St.balIn (s : St) : Dir → Nat
  | .ab => s.bal1
  | .ba => s.bal2
def St.balOut (s : St) : Dir → Nat
  | .ab => s.bal2
  | .ba => s.bal1
def St.setBal (s : St) (d : Dir) (bi bo : Nat) : St :=
  match d with
  | .ab => { s with bal1 := bi, bal2 := bo }
  | .ba => { s with bal1 := bo, bal2 := bi }

def Dir.flip : Dir → Dir
  | .ab => .ba
  | .ba => .ab

/-- the observation every state-changing endpoint records first (pre-operation values). -/
def St.touch (s : St) : St := { s with sp := s.sp.update s.round s.r1 s.r2 s.S }

/-! ### amm.rs -/

/-- `quote` -/
def quote (a rA rB : Nat) : Nat := a * rB / rA
/-- `get_amount_out_no_fee` -/
def amountOutNoFee (a rIn rOut : Nat) : Nat := a * rOut / (rIn + a)
/-- `get_amount_out` -/
def amountOut (total a rIn rOut : Nat) : Nat :=
  (a * (M - total)) * rOut / (rIn * M + a * (M - total))
/-- `get_amount_in` -/
def amountIn (total out rIn rOut : Nat) : Nat :=
  rIn * out * M / ((rOut - out) * (M - total)) + 1
/-- `get_special_fee_from_input` -/
def specialFee (special a : Nat) : Nat := a * special / M

/-! ### ledger helpers: debit the pair's real balance (fails like the VM when short) -/

def St.debitIn (s : St) (d : Dir) (x : Nat) : Option St := do
  let b ← sub? (s.balIn d) x
  pure (s.setBal d b (s.balOut d))

def St.debitOut (s : St) (d : Dir) (x : Nat) : Option St := do
  let b ← sub? (s.balOut d) x
  pure (s.setBal d (s.balIn d) b)

def St.addBurnIn (s : St) (d : Dir) (x : Nat) : St :=
  match d with
  | .ab => { s with burn1 := s.burn1 + x }
  | .ba => { s with burn2 := s.burn2 + x }
def St.addBurnOut (s : St) (d : Dir) (x : Nat) : St := s.addBurnIn d.flip x
def St.addCollIn (s : St) (d : Dir) (x : Nat) : St :=
  match d with
  | .ab => { s with coll1 := s.coll1 + x }
  | .ba => { s with coll2 := s.coll2 + x }
def St.addExtIn (s : St) (d : Dir) (x : Nat) : St :=
  match d with
  | .ab => { s with ext1 := s.ext1 + x }
  | .ba => { s with ext2 := s.ext2 + x }
def St.addExtOut (s : St) (d : Dir) (x : Nat) : St := s.addExtIn d.flip x

/-- simple-lock's holdings of the input / output token of direction `d` -/
def St.slkIn (s : St) : Dir → Nat
  | .ab => s.slk1
  | .ba => s.slk2
def St.slkOut (s : St) : Dir → Nat
  | .ab => s.slk2
  | .ba => s.slk1
def St.addSlkOut (s : St) (d : Dir) (x : Nat) : St :=
  match d with
  | .ab => { s with slk2 := s.slk2 + x }
  | .ba => { s with slk1 := s.slk1 + x }

/-- trusted pair for the input / output pool token of direction `d`. -/
def St.xIn (s : St) : Dir → Option XPool
  | .ab => s.x1
  | .ba => s.x2
def St.xOut (s : St) (d : Dir) : Option XPool := s.xIn d.flip
def St.setXIn (s : St) (d : Dir) (x : XPool) : St :=
  match d with
  | .ab => { s with x1 := some x }
  | .ba => { s with x2 := some x }
def St.setXOut (s : St) (d : Dir) (x : XPool) : St := s.setXIn d.flip x

/-- the external pair's `swapNoFeeAndForward` (whitelist, Active, `swap_safe_no_fee`, K check). -/
def XPool.swap (x : XPool) (a : Nat) : Option XPool := do
  req (x.live = true)
  req (0 < a)
  req (x.rIn ≠ 0)
  let out := amountOutNoFee a x.rIn x.rOut
  req (out < x.rOut ∧ out ≠ 0)
  pure { x with rIn := x.rIn + a, rOut := x.rOut - out }

/-- `swap_safe_no_fee` on the cache: returns the new state and the output amount. -/
def St.localSwap (s : St) (d : Dir) (a : Nat) : Option (St × Nat) := do
  req (s.rin d ≠ 0)
  let out := amountOutNoFee a (s.rin d) (s.rout d)
  req (out < s.rout d ∧ out ≠ 0)
  pure (s.setR d (s.rin d + a) (s.rout d - out), out)

/-- does direction `d`'s input token equal the wanted token / is the wanted token the other pool token -/
def Want.isIn (w : Want) (d : Dir) : Bool :=
  match w, d with
  | .first, .ab => true
  | .second, .ba => true
  | _, _ => false
def Want.isOut (w : Want) (d : Dir) : Bool :=
  match w, d with
  | .second, .ab => true
  | .first, .ba => true
  | _, _ => false

/-- `send_fee_slice(order = d, fee_token = input token of d, slice, requested = w)` -/
def St.feeSlice (s : St) (d : Dir) (slice : Nat) (w : Want) : Option St :=
  if w.isIn d then do
    -- can_send_fee_directly: burn the slice
    let s ← s.debitIn d slice
    pure (s.addBurnIn d slice)
  else if w.isOut d then do
    -- can_resolve_swap_locally: no-fee swap of the slice, burn what it buys
    let (s, out) ← s.localSwap d slice
    let s ← s.debitOut d out
    pure (s.addBurnOut d out)
  else
    match s.xIn d with
    | some x => do
      -- can_extern_swap_directly
      let x' ← x.swap slice
      let s ← s.debitIn d slice
      pure ((s.setXIn d x').addExtIn d slice)
    | none =>
      match s.xOut d with
      | some x => do
        -- can_extern_swap_after_local_swap
        let (s, out) ← s.localSwap d slice
        let x' ← x.swap out
        let s ← s.debitOut d out
        pure ((s.setXOut d x').addExtOut d out)
      | none => none

def St.feeSlices (s : St) (d : Dir) (slice : Nat) : List Want → Option St
  | [] => some s
  | w :: ws => do
    let s ← s.feeSlice d slice w
    s.feeSlices d slice ws

/-- the fees-collector part of `send_fee`: returns the new state and the remaining fee -/
def St.collectorCut (s : St) (d : Dir) (fee : Nat) : Option (St × Nat) :=
  match s.cut with
  | some pct => do
      let cutAmt := fee * pct / M
      let rem ← sub? fee cutAmt
      if cutAmt > 0 then do
        let s ← s.debitIn d cutAmt
        pure (s.addCollIn d cutAmt, rem)
      else pure (s, rem)
  | none => pure (s, fee)

/-- `send_fee` -/
def St.sendFee (s : St) (d : Dir) (fee : Nat) : Option St :=
  if fee = 0 then some s else do
  let (s, rem) ← s.collectorCut d fee
  let n := s.dests.length
  if n = 0 then pure s else
  let slice := rem / n
  if slice = 0 then pure s else
  s.feeSlices d slice s.dests

/-! ### locking_wrapper.rs / output_builder.rs `build_swap_output_payments` -/

/-- `should_generate_locked_asset` -/
def St.lockOn (s : St) : Bool := decide (s.epoch < s.lockDeadline)

/-- the swap output reaches the caller as LOCKED tokens: locking is on and simple-lock does
    not hand the payment straight back (`lock_tokens`: `current_epoch >= unlock_epoch`) -/
def St.locksOut (s : St) : Bool := s.lockOn && decide (s.epoch < s.lockUnlockEpoch)

/-- first output payment of a swap: while locking is on, `out` of the output token goes to
    simple-lock's `lockTokens(unlock_epoch)` (the proxy call aborts when the locking address is
    unset or is a contract without that endpoint); simple-lock keeps the tokens and mints the
    same amount of LOCKED tokens, or returns the payment untouched when the unlock epoch has
    been reached.  Returns the new state and whether the caller gets LOCKED tokens. -/
def St.lockOut (s : St) (d : Dir) (out : Nat) : Option (St × Bool) :=
  if s.lockOn then do
    req (s.lockSc = .simpleLock)
    if s.epoch < s.lockUnlockEpoch then pure (s.addSlkOut d out, true) else pure (s, false)
  else pure (s, false)

/-! ### endpoints -/

/-- `pool_add_initial_liquidity` shared by `addInitialLiquidity` and the first `addLiquidity` -/
def St.firstMint (s : St) (a1 a2 : Nat) : Option (St × Nat) := do
  let liq := min a1 a2
  req (MINLIQ < liq)
  pure ({ s with S := liq, r1 := s.r1 + a1, r2 := s.r2 + a2,
                 lpCirc := s.lpCirc + liq, lpOwn := s.lpOwn + MINLIQ,
                 bal1 := s.bal1 + a1, bal2 := s.bal2 + a2 }, liq - MINLIQ)

/-- `addInitialLiquidity` by caller `c`: Out = (lp to caller, used1, used2) -/
def addInitial (s : St) (c a1 a2 : Nat) : Option (St × Out) := do
  req (s.adder = none ∨ s.adder = some c)
  req (0 < a1 ∧ 0 < a2)
  req (s.status = .inactive)
  req (s.S = 0)
  let (s, lp) ← s.firstMint a1 a2
  pure ({ s with status := .partialActive }, ⟨lp, a1, a2, false⟩)

/-- `set_optimal_amounts` for `S ≠ 0` -/
def optimal (s : St) (a1 a2 m1 m2 : Nat) : Option (Nat × Nat) := do
  let q2 := quote a1 s.r1 s.r2
  let (o1, o2) ← (if q2 ≤ a2 then some (a1, q2) else do
      let q1 := quote a2 s.r2 s.r1
      req (q1 ≤ a1)
      pure (q1, a2) : Option (Nat × Nat))
  req (m1 ≤ o1)
  req (m2 ≤ o2)
  pure (o1, o2)

/-- `addLiquidity(min1, min2)` with payments `(a1, a2)`: Out = (lp to caller, used1, used2);
    the caller is refunded `a1 - used1`, `a2 - used2`. -/
def addLiq (s : St) (a1 a2 m1 m2 : Nat) : Option (St × Out) := do
  req (0 < m1 ∧ 0 < m2)
  req (0 < a1 ∧ 0 < a2)
  req (s.status = .active ∨ s.status = .partialActive)
  req (s.adder = none ∨ s.S ≠ 0)
  let s0 := s.touch
  let k0 := s.r1 * s.r2
  if s.S = 0 then do
    let (s1, lp) ← s0.firstMint a1 a2
    req (k0 ≤ s1.r1 * s1.r2)
    pure (s1, ⟨lp, a1, a2, false⟩)
  else do
    req (s.r1 ≠ 0 ∧ s.r2 ≠ 0)       -- BigUint division by zero aborts
    let (o1, o2) ← optimal s a1 a2 m1 m2
    let liq := min (o1 * s.S / s.r1) (o2 * s.S / s.r2)
    req (0 < liq)
    let r1' := s.r1 + o1
    let r2' := s.r2 + o2
    req (k0 ≤ r1' * r2')
    pure ({ s0 with S := s.S + liq, r1 := r1', r2 := r2', lpCirc := s.lpCirc + liq,
                    bal1 := s.bal1 + o1, bal2 := s.bal2 + o2 }, ⟨liq, o1, o2, false⟩)

/-- `get_amounts_removed` -/
def amountsRemoved (s : St) (lp m1 m2 : Nat) : Option (Nat × Nat) := do
  req (lp + MINLIQ ≤ s.S)
  let x1 := lp * s.r1 / s.S
  req (0 < x1)
  req (m1 ≤ x1)
  req (x1 < s.r1)
  let x2 := lp * s.r2 / s.S
  req (0 < x2)
  req (m2 ≤ x2)
  req (x2 < s.r2)
  pure (x1, x2)

/-- `removeLiquidity(min1, min2)` paying `lp` LP tokens: Out = (x1, x2) sent to the caller -/
def removeLiq (s : St) (lp m1 m2 : Nat) : Option (St × Out) := do
  req (0 < m1 ∧ 0 < m2)
  req (s.status = .active ∨ s.status = .partialActive)
  req (0 < lp)
  let s0 := s.touch
  let (x1, x2) ← amountsRemoved s lp m1 m2
  req ((s.r1 - x1) * (s.r2 - x2) ≤ s.r1 * s.r2)
  let c ← sub? s.lpCirc lp
  let b1 ← sub? s.bal1 x1
  let b2 ← sub? s.bal2 x2
  pure ({ s0 with S := s.S - lp, r1 := s.r1 - x1, r2 := s.r2 - x2, lpCirc := c,
                  bal1 := b1, bal2 := b2 }, ⟨x1, x2, 0, false⟩)

/-- `removeLiquidityAndBuyBackAndBurnToken(w)` by whitelisted caller `c` paying `lp`:
    Out = (x1, x2) removed from the reserves (routed like fee slices, nothing to the caller) -/
def buyback (s : St) (c lp : Nat) (w : Want) : Option (St × Out) := do
  req (c ∈ s.wl)
  req (0 < lp)
  let s0 := s.touch
  let (x1, x2) ← amountsRemoved s lp 1 1
  let cc ← sub? s.lpCirc lp
  let s1 := { s0 with S := s.S - lp, r1 := s.r1 - x1, r2 := s.r2 - x2, lpCirc := cc }
  let s2 ← s1.feeSlice .ab x1 w
  let s3 ← s2.feeSlice .ba x2 w
  pure (s3, ⟨x1, x2, 0, false⟩)

/-- `swapNoFeeAndForward` by whitelisted caller `c` paying `a` of direction `d`'s input:
    Out = (amount bought and burned) -/
def swapNoFee (s : St) (c : Nat) (d : Dir) (a : Nat) : Option (St × Out) := do
  req (c ∈ s.wl)
  req (0 < a)
  req (s.status = .active)
  let s0 := s.touch
  let k0 := s.r1 * s.r2
  let (s1, out) ← s0.localSwap d a
  req (k0 ≤ s1.r1 * s1.r2)
  let s2 := s1.setBal d (s1.balIn d + a) (s1.balOut d)
  let s3 ← s2.debitOut d out
  pure (s3.addBurnOut d out, ⟨out, 0, 0, false⟩)

/-- `swapTokensFixedInput(tokenOut, minOut)` paying `a`: Out = (out) sent to the caller,
    `locked` = as LOCKED tokens -/
def swapIn (s : St) (d : Dir) (a minOut : Nat) : Option (St × Out) := do
  req (0 < minOut)
  req (0 < a)
  req (s.status = .active)
  req (minOut < s.rout d)
  let s0 := s.touch
  let k0 := s.r1 * s.r2
  let out := amountOut s.total a (s.rin d) (s.rout d)
  req (minOut ≤ out)
  req (out < s.rout d)
  req (out ≠ 0)
  let fee := if s.feeOn then specialFee s.special a else 0
  let aAfter ← sub? a fee
  let s1 := s0.setR d (s.rin d + aAfter) (s.rout d - out)
  req (k0 ≤ s1.r1 * s1.r2)
  let s2 := s1.setBal d (s1.balIn d + a) (s1.balOut d)
  let s3 ← s2.sendFee d fee
  let (s4, lk) ← s3.lockOut d out
  let s5 ← s4.debitOut d out
  pure (s5, ⟨out, 0, 0, lk⟩)

/-- `swapTokensFixedOutput(tokenOut, out)` paying `maxIn`:
    Out = (out sent, charged, refund = maxIn − charged), `locked` = `out` came as LOCKED tokens -/
def swapOut (s : St) (d : Dir) (maxIn out : Nat) : Option (St × Out) := do
  req (0 < out)
  req (0 < maxIn)
  req (s.status = .active)
  req (out < s.rout d)
  let s0 := s.touch
  let k0 := s.r1 * s.r2
  req ((s.rout d - out) * (M - s.total) ≠ 0)   -- BigUint division by zero aborts
  let ain := amountIn s.total out (s.rin d) (s.rout d)
  req (ain ≤ maxIn)
  req (ain ≠ 0)
  let fee := if s.feeOn then specialFee s.special ain else 0
  let aAfter ← sub? ain fee
  let s1 := s0.setR d (s.rin d + aAfter) (s.rout d - out)
  req (k0 ≤ s1.r1 * s1.r2)
  let s2 := s1.setBal d (s1.balIn d + ain) (s1.balOut d)
  let s3 ← s2.sendFee d fee
  let (s4, lk) ← s3.lockOut d out
  let s5 ← s4.debitOut d out
  pure (s5, ⟨out, ain, maxIn - ain, lk⟩)

/-! ### views (pair_actions/views.rs) -/

/-- `getAmountOut(tokenIn = input of d, a)` -/
def viewAmountOut (s : St) (d : Dir) (a : Nat) : Option Nat := do
  req (0 < a)
  req (0 < s.rout d)
  req (s.rin d * M + a * (M - s.total) ≠ 0)
  let out := amountOut s.total a (s.rin d) (s.rout d)
  req (out < s.rout d)
  pure out

/-- `getAmountIn(tokenWanted = output of d, want)` -/
def viewAmountIn (s : St) (d : Dir) (want : Nat) : Option Nat := do
  req (0 < want)
  req (want < s.rout d)
  req ((s.rout d - want) * (M - s.total) ≠ 0)
  pure (amountIn s.total want (s.rin d) (s.rout d))

/-- `getEquivalent(tokenIn = input of d, a)` -/
def viewEquivalent (s : St) (d : Dir) (a : Nat) : Option Nat := do
  req (0 < a)
  if s.r1 = 0 ∨ s.r2 = 0 then pure 0 else pure (quote a (s.rin d) (s.rout d))

/-- `getTokensForGivenPosition(lp)` -/
def viewTokensForPosition (s : St) (lp : Nat) : Nat × Nat :=
  if s.S ≠ 0 then (lp * s.r1 / s.S, lp * s.r2 / s.S) else (0, 0)

/-! ### configuration (caller authorisation is C19's table; these are the effects) -/

inductive CfgOp
  | setFee (total special : Nat)
  | addDest (w : Want)
  | removeDest (i : Nat)
  | setCollector (cut : Nat)
  | setState (st : Status)           -- pause / resume / setStateActiveNoSwaps
  | whitelist (c : Nat)
  | removeWhitelist (c : Nat)
  | setTrusted (first : Bool) (x : Option XPool)   -- add/removeTrustedSwapPair; also resyncs the mirror
  deriving DecidableEq, Repr

def cfg (s : St) : CfgOp → Option St
  | .setFee t sp => do
      req (sp ≤ t ∧ t ≤ MAXFEE)
      pure { s with total := t, special := sp }
  | .addDest w => pure { s with dests := s.dests ++ [w] }
  | .removeDest i => do
      req (i < s.dests.length)
      pure { s with dests := s.dests.eraseIdx i }
  | .setCollector c => do
      req (0 < c ∧ c ≤ M)
      pure { s with cut := some c }
  | .setState st => pure { s with status := st }
  | .whitelist c => do
      req (c ∉ s.wl)
      pure { s with wl := s.wl ++ [c] }
  | .removeWhitelist c => do
      req (c ∈ s.wl)
      pure { s with wl := s.wl.erase c }
  | .setTrusted true x => pure { s with x1 := x }
  | .setTrusted false x => pure { s with x2 := x }

/-- the owner-only setters of locking_wrapper.rs (`require_caller_has_owner_permissions`) -/
inductive LockOp
  | setDeadline (e : Nat)          -- setLockingDeadlineEpoch
  | setUnlock (e : Nat)            -- setUnlockEpoch
  | setSc (a : LockAddr)           -- setLockingScAddress (`is_smart_contract` required)
  deriving DecidableEq, Repr

/-- `owner` = the caller has owner permissions -/
def lockCfg (s : St) (owner : Bool) : LockOp → Option St
  | .setDeadline e => do
      req (owner = true)
      pure { s with lockDeadline := e }
  | .setUnlock e => do
      req (owner = true)
      pure { s with lockUnlockEpoch := e }
  | .setSc a => do
      req (owner = true)
      req (a ≠ .notSc)
      pure { s with lockSc := if a = .simpleLock then .simpleLock else .other }

/-! ### the state machine -/

inductive Op
  | addInitial (c a1 a2 : Nat)
  | addLiq (a1 a2 m1 m2 : Nat)
  | removeLiq (lp m1 m2 : Nat)
  | swapIn (d : Dir) (a minOut : Nat)
  | swapOut (d : Dir) (maxIn out : Nat)
  | swapNoFee (c : Nat) (d : Dir) (a : Nat)
  | buyback (c lp : Nat) (w : Want)
  | cfg (o : CfgOp)
  | advance (round : Nat)
  | lock (owner : Bool) (o : LockOp)
  | epoch (e : Nat)
  deriving DecidableEq, Repr

def step (s : St) : Op → Option (St × Out)
  | .addInitial c a1 a2 => addInitial s c a1 a2
  | .addLiq a1 a2 m1 m2 => addLiq s a1 a2 m1 m2
  | .removeLiq lp m1 m2 => removeLiq s lp m1 m2
  | .swapIn d a m => swapIn s d a m
  | .swapOut d mx o => swapOut s d mx o
  | .swapNoFee c d a => swapNoFee s c d a
  | .buyback c lp w => buyback s c lp w
  | .cfg o => (cfg s o).map (·, {})
  | .advance r => if s.round ≤ r then some ({ s with round := r }, {}) else none
  | .lock ow o => (lockCfg s ow o).map (·, {})
  | .epoch e => if s.epoch ≤ e then some ({ s with epoch := e }, {}) else none

/-- the state after a history: failed transactions leave the state unchanged. -/
def run (s : St) (ops : List Op) : St :=
  ops.foldl (fun s o => match step s o with | some (s', _) => s' | none => s) s

/-- a freshly deployed pair (`init`: state Inactive, nothing minted, output locking off). -/
def init (total special : Nat) (adder : Option Nat) (cap : Nat) : St :=
  { status := .inactive, total := total, special := special, dests := [], cut := none,
    adder := adder, wl := [], r1 := 0, r2 := 0, S := 0, bal1 := 0, bal2 := 0,
    lpCirc := 0, lpOwn := 0, x1 := none, x2 := none,
    coll1 := 0, coll2 := 0, burn1 := 0, burn2 := 0, ext1 := 0, ext2 := 0,
    sp := ⟨[], 0, cap⟩, round := 0,
    lockDeadline := 0, lockUnlockEpoch := 0, lockSc := .unset, epoch := 0, slk1 := 0, slk2 := 0 }

end Mx.Pair
