/-
  Model of `energy-integration/governance-v2`.  Import-free.

  Transcribed from: lib.rs (propose, vote, cancel, withdraw_deposit, refund_proposal_fee),
  views.rs (get_proposal_status, vote_reached, vote_down_with_veto, quorum_reached,
  is_valid_proposal_id, proposal_exists), proposal.rs, proposal_storage.rs (clear_proposal,
  ProposalVotes), configurable.rs (the `try_change_*` range guards, `smoothing_function`).

  The two contracts governance talks to are reduced to what it reads from them:
  `energy u` = `get_energy_amount` of the energy factory (the mock's stored amount; epochs do
  not move in this world, so nothing depletes) and `total` = the fees collector's
  `total_energy_for_week(last_global_update_week)`; `claim` is the fees collector's own
  bookkeeping of that total within one week (`total − recorded(u) + energy(u)`).

  A failed transaction is `none` (state unchanged by atomicity).  Not modelled: the action
  list of a proposal (gas-limit guards are exercised by the harness as malformed calls; this
  contract version has no queue/execute endpoint), the description, events, `upgrade`,
  `changeFeesCollectorAddress`, `setEnergyFactoryAddress`, the permissions module.
-/
import MxModel.Core.Arith

namespace Mx.Gov

/-- `FULL_PERCENTAGE` -/
def FULL : Nat := 10000
def MIN_VOTING_DELAY : Nat := 1
def MAX_VOTING_DELAY : Nat := 100800
def MIN_VOTING_PERIOD : Nat := 14400
def MAX_VOTING_PERIOD : Nat := 201600
def MIN_QUORUM : Nat := 1000
def MAX_QUORUM : Nat := 6000
/-- `MIN_MIN_FEE_FOR_PROPOSE * DECIMALS_CONST` -/
def MIN_FEE : Nat := 2000000 * 1000000000000000000
/-- `MAX_MIN_FEE_FOR_PROPOSE * DECIMALS_CONST` -/
def MAX_FEE : Nat := 200000000000 * 1000000000000000000

/-- `GovernanceProposalStatus` -/
inductive Status | none | pending | active | defeated | vetoed | succeeded
  deriving DecidableEq, Repr

/-- `VoteType` -/
inductive Vote | up | down | veto | abstain
  deriving DecidableEq, Repr

/-- `GovernanceProposal` + its `ProposalVotes` + who voted on it -/
structure Proposal where
  proposer : Nat
  /-- `fee_payment.amount` -/
  fee : Nat
  /-- configuration snapshot taken by `propose` -/
  minQuorum : Nat
  delay : Nat
  period : Nat
  wpct : Nat
  /-- `total_quorum`: snapshot of the total energy taken by the first voter -/
  totalQuorum : Nat
  /-- `proposal_start_block` -/
  start : Nat
  /-- `fee_withdrawn` -/
  withdrawn : Bool
  up : Nat
  down : Nat
  veto : Nat
  abstain : Nat
  quorum : Nat
  /-- addresses whose `userVotedProposals` contains this id, in voting order -/
  voters : List Nat
  /-- `clear_proposal` ran (cancel): the entry is empty, the id stays taken -/
  cleared : Bool
  deriving DecidableEq, Repr

structure St where
  /-- `minEnergyForPropose`, `minFeeForPropose`, `quorumPercentage`, `votingDelayInBlocks`,
      `votingPeriodInBlocks`, `witdrawPercentageDefeated` -/
  minEnergy : Nat
  minFee : Nat
  quorumPct : Nat
  delay : Nat
  period : Nat
  wpct : Nat
  /-- `proposals` (1-indexed `VecMapper`: id `i` is `props[i-1]`) -/
  props : List Proposal
  block : Nat
  /-- number of user accounts `1 … n` -/
  n : Nat
  /-- energy factory: energy amount per user -/
  energy : Nat → Nat
  /-- fees collector: total energy of the last globally updated week, and the energy it has
      recorded per user -/
  total : Nat
  recd : Nat → Nat
  /-- ghost: fee-token balance of the governance contract, users' wallets, total burned -/
  bal : Nat
  wallet : Nat → Nat
  burned : Nat

structure Out where
  v1 : Nat := 0
  v2 : Nat := 0
  v3 : Nat := 0
  deriving DecidableEq, Repr

def upd (f : Nat → Nat) (c v : Nat) : Nat → Nat := fun u => if u = c then v else f u

def St.isUser (s : St) (c : Nat) : Prop := 1 ≤ c ∧ c ≤ s.n
instance (s : St) (c : Nat) : Decidable (s.isUser c) := by unfold St.isUser; infer_instance

/-- `proposals().get(id)` for a valid id -/
def St.get? (s : St) (id : Nat) : Option Proposal := if id = 0 then none else s.props[id - 1]?

def St.set (s : St) (id : Nat) (p : Proposal) : St := { s with props := s.props.set (id - 1) p }

/-! ### views.rs -/

def Proposal.totalVotes (p : Proposal) : Nat := p.up + p.down + p.veto + p.abstain

/-- `quorum_reached` -/
def Proposal.quorumReached (p : Proposal) : Prop := p.minQuorum * p.totalQuorum ≤ p.quorum * FULL
/-- `vote_down_with_veto` -/
def Proposal.vetoed (p : Proposal) : Prop := p.totalVotes / 3 < p.veto
/-- `vote_reached` -/
def Proposal.voteReached (p : Proposal) : Prop := ¬ p.vetoed ∧ p.totalVotes / 2 < p.up

instance (p : Proposal) : Decidable p.quorumReached := by unfold Proposal.quorumReached; infer_instance
instance (p : Proposal) : Decidable p.vetoed := by unfold Proposal.vetoed; infer_instance
instance (p : Proposal) : Decidable p.voteReached := by unfold Proposal.voteReached; infer_instance

/-- status of an existing proposal at block `b` -/
def Proposal.statusAt (p : Proposal) (b : Nat) : Status :=
  if b < p.start + p.delay then .pending
  else if b < p.start + p.delay + p.period then .active
  else if p.quorumReached ∧ p.voteReached then .succeeded
  else if p.vetoed then .vetoed
  else .defeated

/-- `get_proposal_status` (view `getProposalStatus`) -/
def St.status (s : St) (id : Nat) : Status :=
  match s.get? id with
  | none => .none
  | some p => if p.cleared then .none else p.statusAt s.block

/-! ### endpoints -/

/-- `propose` by user `c` paying `fee` of the fee token (one well-formed action).
    Out = (new proposal id). -/
def propose (s : St) (c fee : Nat) : Option (St × Out) := do
  req (s.isUser c)                               -- an EOA known to the world
  req (s.minEnergy ≤ s.energy c)
  req (0 < fee)                                  -- a payment reaches the contract at all
  let w ← sub? (s.wallet c) fee
  req (s.minFee = fee)
  let p : Proposal :=
    { proposer := c, fee := fee, minQuorum := s.quorumPct, delay := s.delay, period := s.period,
      wpct := s.wpct, totalQuorum := 0, start := s.block, withdrawn := false,
      up := 0, down := 0, veto := 0, abstain := 0, quorum := 0, voters := [], cleared := false }
  pure ({ s with props := s.props ++ [p], wallet := upd s.wallet c w, bal := s.bal + fee },
        ⟨s.props.length + 1, 0, 0⟩)

def Proposal.addVote (p : Proposal) (v : Vote) (power energy : Nat) : Proposal :=
  match v with
  | .up => { p with up := p.up + power, quorum := p.quorum + energy }
  | .down => { p with down := p.down + power, quorum := p.quorum + energy }
  | .veto => { p with veto := p.veto + power, quorum := p.quorum + energy }
  | .abstain => { p with abstain := p.abstain + power, quorum := p.quorum + energy }

/-- `vote(id, v)` by user `c`.  Out = (voting power, energy counted towards quorum). -/
def vote (s : St) (c id : Nat) (v : Vote) : Option (St × Out) := do
  req (s.isUser c)
  req (1 ≤ id ∧ id ≤ s.props.length)            -- `require_valid_proposal_id`
  req (s.status id = .active)
  let p ← s.get? id
  req (c ∉ p.voters)                             -- `user_voted_proposals(voter).insert(id)` must be new
  -- first voter: snapshot the total energy from the fees collector
  let p1 := if p.quorum = 0 then { p with totalQuorum := s.total } else p
  req (0 < s.energy c)                           -- `get_energy_amount_non_zero`
  let e := s.energy c
  let power := Nat.sqrt e                        -- `smoothing_function`
  let p2 := { p1.addVote v power e with voters := p1.voters ++ [c] }
  pure (s.set id p2, ⟨power, e, 0⟩)

/-- `refund_proposal_fee`: `amt` of the fee token goes from the contract to the proposer -/
def St.refund (s : St) (to amt : Nat) : Option St := do
  let b ← sub? s.bal amt
  pure { s with bal := b, wallet := upd s.wallet to (s.wallet to + amt) }

/-- `cancel(id)` by user `c`.  Out = (refund). -/
def cancel (s : St) (c id : Nat) : Option (St × Out) := do
  req (s.isUser c)
  req (s.status id = .pending)
  let p ← s.get? id
  req (c = p.proposer)
  let s1 ← s.refund p.proposer p.fee
  -- `clear_proposal`: entry and votes cleared
  pure (s1.set id { p with cleared := true }, ⟨p.fee, 0, 0⟩)

/-- `withdrawDeposit(id)` by user `c`.  Out = (refund to the proposer, amount burned). -/
def withdraw (s : St) (c id : Nat) : Option (St × Out) := do
  req (s.isUser c)
  let p ← s.get? id
  match s.status id with
  | .succeeded | .defeated => do
      req (c = p.proposer)
      req (p.withdrawn = false)
      let s1 ← s.refund p.proposer p.fee
      pure (s1.set id { p with withdrawn := true }, ⟨p.fee, 0, 0⟩)
  | .vetoed => do
      req (p.withdrawn = false)
      let refund := p.wpct * p.fee / FULL
      let rest ← sub? p.fee refund
      let b ← sub? s.bal rest                     -- `esdt_non_zero_local_burn`
      let s1 := { s with bal := b, burned := s.burned + rest }
      let s2 ← s1.refund p.proposer refund
      pure (s2.set id { p with withdrawn := true }, ⟨refund, rest, 0⟩)
  | _ => none

/-! ### configuration (owner; caller authorisation is C19's table) and the environment -/

inductive CfgOp
  | minEnergy (x : Nat)
  | minFee (x : Nat)
  | quorum (x : Nat)
  | delay (x : Nat)
  | period (x : Nat)
  | wpct (x : Nat)
  deriving DecidableEq, Repr

def cfg (s : St) : CfgOp → Option St
  | .minEnergy x => pure { s with minEnergy := x }
  | .minFee x => do
      req (MIN_FEE < x ∧ x < MAX_FEE)
      pure { s with minFee := x }
  | .quorum x => do
      req (MIN_QUORUM ≤ x ∧ x < MAX_QUORUM)
      pure { s with quorumPct := x }
  | .delay x => do
      req (MIN_VOTING_DELAY ≤ x ∧ x < MAX_VOTING_DELAY)
      pure { s with delay := x }
  | .period x => do
      req (MIN_VOTING_PERIOD ≤ x ∧ x < MAX_VOTING_PERIOD)
      pure { s with period := x }
  | .wpct x => do
      req (x ≤ FULL)
      pure { s with wpct := x }

inductive Op
  | propose (c fee : Nat)
  | vote (c id : Nat) (v : Vote)
  | cancel (c id : Nat)
  | withdraw (c id : Nat)
  | cfg (o : CfgOp)
  /-- the energy factory now reports `e` for user `u` -/
  | setEnergy (u e : Nat)
  /-- the fees collector's total energy for the current week is now `x` -/
  | setTotal (x : Nat)
  /-- user `u` calls the fees collector's `claimRewards`: its energy is re-recorded -/
  | claim (u : Nat)
  | advance (b : Nat)
  deriving DecidableEq, Repr

def step (s : St) : Op → Option (St × Out)
  | .propose c fee => propose s c fee
  | .vote c id v => vote s c id v
  | .cancel c id => cancel s c id
  | .withdraw c id => withdraw s c id
  | .cfg o => (cfg s o).map (·, {})
  | .setEnergy u e => if s.isUser u then some ({ s with energy := upd s.energy u e }, {}) else none
  | .setTotal x => some ({ s with total := x }, {})
  | .claim u => do
      req (s.isUser u)
      let t ← sub? s.total (s.recd u)
      pure ({ s with total := t + s.energy u, recd := upd s.recd u (s.energy u) }, {})
  | .advance b => if s.block ≤ b then some ({ s with block := b }, {}) else none

def run (s : St) (ops : List Op) : St :=
  ops.foldl (fun s o => match step s o with | some (s', _) => s' | none => s) s

/-- a freshly deployed governance contract; every user owns `funds` of the fee token.
    (`init` applies the same range guards as the `change*` endpoints; see `CfgOk`.) -/
def init (minEnergy minFee quorumPct delay period wpct n funds : Nat) : St :=
  { minEnergy := minEnergy, minFee := minFee, quorumPct := quorumPct, delay := delay,
    period := period, wpct := wpct, props := [], block := 0, n := n,
    energy := fun _ => 0, total := 0, recd := fun _ => 0,
    bal := 0, wallet := fun u => if 1 ≤ u ∧ u ≤ n then funds else 0, burned := 0 }

/-- the range guards `init` and the `change*` endpoints enforce on the configuration -/
def CfgOk (s : St) : Prop :=
  MIN_FEE < s.minFee ∧ s.minFee < MAX_FEE ∧ MIN_QUORUM ≤ s.quorumPct ∧ s.quorumPct < MAX_QUORUM ∧
  MIN_VOTING_DELAY ≤ s.delay ∧ s.delay < MAX_VOTING_DELAY ∧
  MIN_VOTING_PERIOD ≤ s.period ∧ s.period < MAX_VOTING_PERIOD ∧ s.wpct ≤ FULL

end Mx.Gov
