/-
  C19 — authorisation and pause.  Import-free.

  Three things live here:

  1. small executable state machines of the access-control modules, transcribed from
       common/modules/permissions_module   (bit-set OWNER|ADMIN|PAUSE per address),
       common/modules/pausable             (Inactive | Active | PartialActive + pause/resume),
       common/modules/sc_whitelist_module  (contract-to-contract whitelist),
       dex/permissions-hub                 (per-user whitelist, global blacklist);
  2. the deployment every in-scope contract is put in by the `access` world (who holds which
     permission bits, who is on the whitelists, whom `user` authorised in the hub) —
     computed by RUNNING those state machines on the deployment histories, not asserted;
  3. the hand-written access table  endpoint ↦ (class, guard, required state)  for every
     endpoint of pair, router, farm, farm-with-locked-rewards, farm-staking, energy-factory,
     fees-collector, permissions-hub, token-unstake, lkmex-transfer, and the decision
     function `allowed`.

  The table is a reading of the Rust sources (the guard that stands at the top of each
  endpoint); `Props/C19.lean` proves that it covers the ABI inventory generated from the
  compiled contracts (`Gen/Endpoints.lean`) and has the properties C19 states; the matrix of
  the `access` world compares every cell of it with the real contracts on every run.
-/
namespace Mx.Access

-- =====================================================================================
-- 1. state machines
-- =====================================================================================

/-- `permissions_module::Permissions` (bitflags OWNER = 1, ADMIN = 2, PAUSE = 4) -/
structure Perm where
  owner : Bool
  admin : Bool
  pause : Bool
  deriving DecidableEq, Repr

namespace Perm
def none : Perm := ⟨false, false, false⟩
def OWNER : Perm := ⟨true, false, false⟩
def ADMIN : Perm := ⟨false, true, false⟩
def PAUSE : Perm := ⟨false, false, true⟩
/-- `insert` -/
def union (a b : Perm) : Perm := ⟨a.owner || b.owner, a.admin || b.admin, a.pause || b.pause⟩
/-- `remove` -/
def diff (a b : Perm) : Perm := ⟨a.owner && !b.owner, a.admin && !b.admin, a.pause && !b.pause⟩
/-- `intersects` -/
def intersects (a b : Perm) : Bool := (a.owner && b.owner) || (a.admin && b.admin) || (a.pause && b.pause)
end Perm

abbrev Addr := Nat

/-- storage of the permissions module + the blockchain-level owner of the contract -/
structure PermSt where
  perms : Addr → Perm
  scOwner : Addr

def setAt (f : Addr → α) (a : Addr) (v : α) : Addr → α := fun x => if x = a then v else f x

inductive PermOp
  | addAdmin (caller a : Addr)
  | removeAdmin (caller a : Addr)
  | addPause (caller a : Addr)          -- addToPauseWhitelist (one address)
  | removePause (caller a : Addr)       -- removeFromPauseWhitelist
  | updateOwnerOrAdmin (caller prev : Addr)
  deriving DecidableEq, Repr

def PermOp.caller : PermOp → Addr
  | .addAdmin c _ | .removeAdmin c _ | .addPause c _ | .removePause c _ | .updateOwnerOrAdmin c _ => c

/-- `require_caller_any_of` -/
def PermSt.holds (s : PermSt) (c : Addr) (mask : Perm) : Bool := (s.perms c).intersects mask

def PermSt.step (s : PermSt) : PermOp → Option PermSt
  | .addAdmin c a =>
      if s.holds c Perm.OWNER then some { s with perms := setAt s.perms a ((s.perms a).union Perm.ADMIN) } else none
  | .removeAdmin c a =>
      if s.holds c Perm.OWNER then some { s with perms := setAt s.perms a ((s.perms a).diff Perm.ADMIN) } else none
  | .addPause c a =>
      if s.holds c Perm.OWNER then some { s with perms := setAt s.perms a ((s.perms a).union Perm.PAUSE) } else none
  | .removePause c a =>
      if s.holds c Perm.OWNER then some { s with perms := setAt s.perms a ((s.perms a).diff Perm.PAUSE) } else none
  | .updateOwnerOrAdmin c prev =>
      -- #[only_owner]; clears `prev` first, then writes its old permissions to the caller
      if c = s.scOwner then some { s with perms := setAt (setAt s.perms prev Perm.none) c (s.perms prev) } else none

def PermSt.run (s : PermSt) (ops : List PermOp) : PermSt :=
  ops.foldl (fun s o => match s.step o with | some s' => s' | none => s) s

/-- `pausable::State` -/
inductive CState | inactive | partialActive | active
  deriving DecidableEq, Repr

structure PauseSt where
  perm : PermSt
  state : CState

inductive PauseOp
  | pause (caller : Addr)
  | resume (caller : Addr)
  | setActiveNoSwaps (caller : Addr)    -- pair only: owner permission
  | perm (o : PermOp)
  deriving DecidableEq, Repr

def PauseSt.step (s : PauseSt) : PauseOp → Option PauseSt
  | .pause c => if s.perm.holds c Perm.PAUSE then some { s with state := .inactive } else none
  | .resume c => if s.perm.holds c Perm.PAUSE then some { s with state := .active } else none
  | .setActiveNoSwaps c => if s.perm.holds c Perm.OWNER then some { s with state := .partialActive } else none
  | .perm o => (s.perm.step o).map fun p => { s with perm := p }

def PauseSt.run (s : PauseSt) (ops : List PauseOp) : PauseSt :=
  ops.foldl (fun s o => match s.step o with | some s' => s' | none => s) s

/-- `sc_whitelist_module` -/
structure WlSt where
  scOwner : Addr
  members : List Addr

inductive WlOp
  | add (caller a : Addr)
  | remove (caller a : Addr)
  deriving DecidableEq, Repr

def WlSt.step (s : WlSt) : WlOp → Option WlSt
  | .add c a => if c = s.scOwner ∧ a ∉ s.members then some { s with members := a :: s.members } else none
  | .remove c a => if c = s.scOwner ∧ a ∈ s.members then some { s with members := s.members.filter (· ≠ a) } else none

def WlSt.run (s : WlSt) (ops : List WlOp) : WlSt :=
  ops.foldl (fun s o => match s.step o with | some s' => s' | none => s) s

/-- `dex/permissions-hub` -/
structure HubSt where
  scOwner : Addr
  wl : Addr → List Addr      -- whitelistedAddresses(user)
  bl : List Addr             -- blacklistedAddresses

inductive HubOp
  | whitelist (caller a : Addr)
  | removeWhitelist (caller a : Addr)
  | blacklist (caller a : Addr)
  | removeBlacklist (caller a : Addr)
  deriving DecidableEq, Repr

def HubSt.step (s : HubSt) : HubOp → Option HubSt
  | .whitelist c a => if a ∉ s.wl c then some { s with wl := setAt s.wl c (a :: s.wl c) } else none
  | .removeWhitelist c a => if a ∈ s.wl c then some { s with wl := setAt s.wl c ((s.wl c).filter (· ≠ a)) } else none
  | .blacklist c a => if c = s.scOwner then some { s with bl := if a ∈ s.bl then s.bl else a :: s.bl } else none
  | .removeBlacklist c a => if c = s.scOwner then some { s with bl := s.bl.filter (· ≠ a) } else none

def HubSt.run (s : HubSt) (ops : List HubOp) : HubSt :=
  ops.foldl (fun s o => match s.step o with | some s' => s' | none => s) s

/-- view `isWhitelisted(user, address)` -/
def HubSt.isWhitelisted (s : HubSt) (user a : Addr) : Bool := decide (a ∉ s.bl) && decide (a ∈ s.wl user)

-- =====================================================================================
-- 2. the deployment of the `access` world
-- =====================================================================================

inductive Contract | pair | router | farm | fwlr | staking | energy | fees | hub | unstake | lkmex
  deriving DecidableEq, Repr

/-- caller roles of the matrix.  `router` exists for pairs only (the router deploys and owns
    every pair; `owner` is then the router's owner). -/
inductive Role | owner | admin | pauser | wsc | user | agent | revoked | blacklisted | router
  deriving DecidableEq, Repr

def Role.all : List Role := [.owner, .admin, .pauser, .wsc, .user, .agent, .revoked, .blacklisted, .router]
def CState.all : List CState := [.inactive, .partialActive, .active]
def Contract.all : List Contract := [.pair, .router, .farm, .fwlr, .staking, .energy, .fees, .hub, .unstake, .lkmex]

def Role.addr : Role → Addr
  | .owner => 1 | .admin => 2 | .pauser => 3 | .wsc => 4 | .user => 5
  | .agent => 6 | .revoked => 7 | .blacklisted => 8 | .router => 9

/-- permissions right after `init` (base_farm_init / pair init / lkmex init; admins = [admin]) -/
def initPerm : Contract → PermSt
  | .pair =>      -- deployed by the router: router and router owner get OWNER|PAUSE, admins ADMIN
      { scOwner := Role.router.addr
        perms := setAt (setAt (setAt (fun _ => Perm.none) Role.router.addr ⟨true, false, true⟩)
                   Role.owner.addr ⟨true, false, true⟩) Role.admin.addr Perm.ADMIN }
  | .farm | .fwlr | .staking =>
      { scOwner := Role.owner.addr
        perms := setAt (setAt (fun _ => Perm.none) Role.owner.addr ⟨true, false, true⟩) Role.admin.addr Perm.ADMIN }
  | .lkmex =>
      { scOwner := Role.owner.addr, perms := setAt (fun _ => Perm.none) Role.owner.addr Perm.OWNER }
  | _ => { scOwner := Role.owner.addr, perms := fun _ => Perm.none }

/-- configuration calls the world makes after `init` -/
def deployOps : Contract → List PermOp
  | .pair | .farm | .fwlr | .staking => [.addPause Role.owner.addr Role.pauser.addr]
  | .lkmex => [.addAdmin Role.owner.addr Role.admin.addr]
  | _ => []

def deployed (c : Contract) : PermSt := (initPerm c).run (deployOps c)

/-- hub history of the world: `user` whitelists three agents, revokes one; the hub owner
    blacklists another -/
def hubHistory : List HubOp :=
  [.whitelist Role.user.addr Role.agent.addr, .whitelist Role.user.addr Role.revoked.addr,
   .whitelist Role.user.addr Role.blacklisted.addr, .removeWhitelist Role.user.addr Role.revoked.addr,
   .blacklist Role.owner.addr Role.blacklisted.addr]

def hubDeployed : HubSt := ({ scOwner := Role.owner.addr, wl := fun _ => [], bl := [] } : HubSt).run hubHistory

/-- contract-to-contract trust list of each contract after deployment: `wsc` is on it -/
def wlDeployed : WlSt := ({ scOwner := Role.owner.addr, members := [] } : WlSt).run [.add Role.owner.addr Role.wsc.addr]

-- =====================================================================================
-- 3. the access table
-- =====================================================================================

inductive Class
  | config        -- configuration / administration
  | userFunds     -- user operation that moves funds
  | onBehalf      -- acts for another user (original caller / position owner supplied)
  | contractOnly  -- contract-to-contract trust list
  | bootstrap     -- leaves the initial Inactive state of a pair
  | view          -- read-only
  | open_         -- anyone, moves no funds of a third party (energy refresh, own hub list, …)
  deriving DecidableEq, Repr

/-- the check standing at the top of the endpoint -/
inductive Guard
  | anyone
  | scOwner                -- #[only_owner]
  | perm (mask : Perm)     -- require_caller_any_of(mask)
  | storedOwner            -- router: `caller == owner()` unless pair creation is enabled
  | whitelisted            -- scWhitelist / pair whitelist / knownContracts / tokenTransferWhitelist /
                           -- unstake SC / old factory / energy factory address
  | hubAgent               -- permissions hub: whitelisted by the position owner ∧ ¬ blacklisted
  | adder                  -- the pair's initial liquidity adder
  | nobody                 -- the contract itself only (`require_queried`), or never enabled
  deriving DecidableEq, Repr

/-- guards that only a privileged account can pass: contract owner, router's stored owner,
    or a non-empty permission mask -/
def Guard.restricted : Guard → Bool
  | .scOwner | .storedOwner => true
  | .perm m => m != Perm.none
  | _ => false

inductive StateReq
  | any
  | active             -- state == Active / not paused
  | activeOrPartial    -- pair `is_state_active`
  | inactiveOnly       -- `!is_state_active` (pair bootstrap) / `require_paused`
  deriving DecidableEq, Repr

/-- who receives the rewards of an on-behalf call -/
inductive Payee | na | caller | positionOwner
  deriving DecidableEq, Repr

structure Entry where
  name : String
  cls : Class
  guard : Guard
  st : StateReq
  payee : Payee := .na
  deriving DecidableEq, Repr

private def P (o a p : Bool) : Guard := .perm ⟨o, a, p⟩
/-- OWNER -/        def gOwner : Guard := .perm ⟨true, false, false⟩
/-- OWNER|ADMIN -/  def gOwnerAdmin : Guard := .perm ⟨true, true, false⟩
/-- ADMIN -/        def gAdmin : Guard := .perm ⟨false, true, false⟩
/-- PAUSE -/        def gPause : Guard := .perm ⟨false, false, true⟩

def cfg (n : String) (g : Guard) (s : StateReq := .any) : Entry := ⟨n, .config, g, s, .na⟩
def vw (n : String) : Entry := ⟨n, .view, .anyone, .any, .na⟩
def vwNobody (n : String) : Entry := ⟨n, .view, .nobody, .any, .na⟩
def uf (n : String) (s : StateReq := .active) : Entry := ⟨n, .userFunds, .anyone, s, .na⟩
def ob (n : String) (g : Guard) (p : Payee := .na) : Entry := ⟨n, .onBehalf, g, .active, p⟩
def co (n : String) (s : StateReq := .active) : Entry := ⟨n, .contractOnly, .whitelisted, s, .na⟩
def op (n : String) (s : StateReq := .any) : Entry := ⟨n, .open_, .anyone, s, .na⟩

/-- permissions_module + pausable endpoints shared by pair, farm, fwlr, staking -/
def permEntries : List Entry := [
  cfg "addAdmin" gOwner, cfg "removeAdmin" gOwner, cfg "updateOwnerOrAdmin" .scOwner,
  cfg "addToPauseWhitelist" gOwner, cfg "removeFromPauseWhitelist" gOwner,
  cfg "pause" gPause, cfg "resume" gPause, vw "getPermissions", vw "getState"]

def pairTable : List Entry := permEntries ++ [
  cfg "setLpTokenIdentifier" gOwner, cfg "whitelist" gOwner, cfg "removeWhitelist" gOwner,
  cfg "addTrustedSwapPair" gOwner, cfg "removeTrustedSwapPair" gOwner, cfg "setupFeesCollector" gOwner,
  cfg "setFeeOn" gOwner, cfg "setStateActiveNoSwaps" gOwner, cfg "setFeePercents" gOwnerAdmin,
  cfg "setLockingDeadlineEpoch" gOwner, cfg "setLockingScAddress" gOwner, cfg "setUnlockEpoch" gOwner,
  -- user operations
  ⟨"addInitialLiquidity", .bootstrap, .anyone, .inactiveOnly, .na⟩,
  ⟨"addInitialLiquidity@adder", .bootstrap, .adder, .inactiveOnly, .na⟩,
  uf "addLiquidity" .activeOrPartial, uf "removeLiquidity" .activeOrPartial,
  uf "swapTokensFixedInput", uf "swapTokensFixedOutput",
  -- whitelisted contracts (farms' penalty buy-back, other pairs' fee swaps)
  co "removeLiquidityAndBuyBackAndBurnToken" .any, co "swapNoFeeAndForward" .active,
  -- legacy read-only endpoints (not flagged as views in the ABI)
  vw "updateAndGetTokensForGivenPositionWithSafePrice", vw "updateAndGetSafePrice",
  -- views
  vw "getFeeState", vw "getFeeDestinations", vw "getTrustedSwapPairs", vw "getWhitelistedManagedAddresses",
  vw "getFeesCollectorAddress", vw "getFeesCollectorCutPercentage", vw "getLpTokenIdentifier",
  vw "getTotalFeePercent", vw "getSpecialFee", vw "getRouterManagedAddress", vw "getFirstTokenId",
  vw "getSecondTokenId", vw "getTotalSupply", vw "getInitialLiquidtyAdder", vw "getReserve",
  vw "getSafePriceCurrentIndex", vw "getLpTokensSafePriceByDefaultOffset", vw "getLpTokensSafePriceByRoundOffset",
  vw "getLpTokensSafePriceByTimestampOffset", vw "getLpTokensSafePrice", vw "getSafePriceByDefaultOffset",
  vw "getSafePriceByRoundOffset", vw "getSafePriceByTimestampOffset", vw "getSafePrice", vw "getPriceObservation",
  vw "getLockingDeadlineEpoch", vw "getLockingScAddress", vw "getUnlockEpoch",
  vw "getTokensForGivenPosition", vw "getReservesAndTotalSupply", vw "getAmountOut", vw "getAmountIn", vw "getEquivalent"]

def routerTable : List Entry := [
  cfg "pause" .scOwner, cfg "resume" .scOwner,
  cfg "createPair" .storedOwner .active, op "createPair@enabled" .active,
  cfg "upgradePair" .scOwner .active,
  cfg "issueLpToken" .storedOwner .active, op "issueLpToken@enabled" .active,
  op "setLocalRoles" .active,
  cfg "removePair" .scOwner .active, cfg "setFeeOn" .scOwner .active, cfg "setFeeOff" .scOwner .active,
  cfg "setPairCreationEnabled" .scOwner, cfg "setTemporaryOwnerPeriod" .scOwner, cfg "setPairTemplateAddress" .scOwner,
  cfg "clearPairTemporaryOwnerStorage" .scOwner, cfg "configEnableByUserParameters" .scOwner,
  cfg "addCommonTokensForUserPairs" .scOwner, cfg "removeCommonTokensForUserPairs" .scOwner,
  uf "multiPairSwap",
  ⟨"setSwapEnabledByUser", .bootstrap, .adder, .active, .na⟩,
  vw "getPairCreationEnabled", vw "getState", vw "getOwner", vw "getAllPairsManagedAddresses", vw "getAllPairTokens",
  vw "getAllPairContractMetadata", vw "getPair", vw "getPairTemplateAddress", vw "getTemporaryOwnerPeriod",
  vw "getCommonTokensForUserPairs", vw "getEnableSwapByUserConfig"]

/-- endpoints common to farm, farm-with-locked-rewards and farm-staking -/
def farmCommon : List Entry := permEntries ++ [
  uf "claimRewards", ob "claimRewards@orig" .whitelisted,
  uf "mergeFarmTokens", uf "claimBoostedRewards",
  ⟨"claimBoostedRewards@other", .onBehalf, .nobody, .active, .na⟩,   -- allowExternalClaim is never settable
  cfg "startProduceRewards" gAdmin, cfg "endProduceRewards" gAdmin, cfg "setPerBlockRewardAmount" gAdmin,
  cfg "setBoostedYieldsRewardsPercentage" gAdmin, cfg "registerFarmToken" gOwnerAdmin,
  cfg "setPermissionsHubAddress" .scOwner, cfg "addSCAddressToWhitelist" .scOwner,
  cfg "removeSCAddressFromWhitelist" .scOwner, cfg "setEnergyFactoryAddress" .scOwner,
  cfg "collectUndistributedBoostedRewards" gAdmin, cfg "setBoostedYieldsFactors" gAdmin,
  ob "claimRewardsOnBehalf" .hubAgent .positionOwner,
  op "updateEnergyForUser",
  vwNobody "calculateRewardsForGivenPosition",
  vw "getFarmTokenSupply", vw "getFarmingTokenId", vw "getRewardTokenId", vw "getPerBlockRewardAmount",
  vw "getLastRewardBlockNonce", vw "getDivisionSafetyConstant", vw "getUserTotalFarmPosition",
  vw "getAllowExternalClaim", vw "getFarmPositionMigrationNonce", vw "getFarmTokenId",
  vw "getRewardPerShare", vw "getRewardReserve", vw "isSCAddressWhitelisted",
  vw "getBoostedYieldsRewardsPercentage", vw "getAccumulatedRewardsForWeek", vw "getFarmSupplyForWeek",
  vw "getRemainingBoostedRewardsToDistribute", vw "getUndistributedBoostedRewards", vw "getBoostedYieldsFactors",
  vw "getCurrentWeek", vw "getFirstWeekStartEpoch", vw "getLastActiveWeekForUser", vw "getUserEnergyForWeek",
  vw "getLastGlobalUpdateWeek", vw "getTotalRewardsForWeek", vw "getTotalEnergyForWeek",
  vw "getTotalLockedTokensForWeek", vw "getCurrentClaimProgress", vw "getEnergyFactoryAddress"]

/-- endpoints common to farm and farm-with-locked-rewards -/
def farmDex : List Entry := [
  uf "enterFarm", ob "enterFarm@orig" .whitelisted,
  uf "exitFarm", ob "exitFarm@orig" .whitelisted,
  ob "mergeFarmTokens@orig" .whitelisted,
  ob "enterFarmOnBehalf" .hubAgent,
  cfg "set_penalty_percent" .scOwner, cfg "set_minimum_farming_epochs" gAdmin, cfg "set_burn_gas_limit" .scOwner,
  vw "getPenaltyPercent", vw "getMinimumFarmingEpoch", vw "getBurnGasLimit", vw "getPairContractManagedAddress"]

def farmTable : List Entry := farmCommon ++ farmDex ++ [
  uf "compoundRewards", ob "compoundRewards@orig" .whitelisted]

def fwlrTable : List Entry := farmCommon ++ farmDex ++ [
  cfg "setLockingScAddress" .scOwner, cfg "setLockEpochs" .scOwner,
  vw "getLockingScAddress", vw "getLockEpochs"]

def stakingTable : List Entry := farmCommon ++ [
  uf "stakeFarm", ob "stakeFarm@orig" .whitelisted,
  uf "unstakeFarm", ob "unstakeFarm@orig" .whitelisted,
  uf "compoundRewards", uf "unbondFarm",
  ob "stakeFarmThroughProxy" .whitelisted, ob "claimRewardsWithNewValue" .whitelisted,
  ob "unstakeFarmThroughProxy" .whitelisted,
  ob "stakeFarmOnBehalf" .hubAgent,
  cfg "topUpRewards" gAdmin, cfg "withdrawRewards" gAdmin, cfg "setMaxApr" gAdmin, cfg "setMinUnbondEpochs" gAdmin,
  cfg "setBurnRoleForAddress" .scOwner,
  vw "getAccumulatedRewards", vw "getRewardCapacity", vw "getAnnualPercentageRewards", vw "getMinUnbondEpochs"]

def energyTable : List Entry := [
  uf "lockTokens", uf "unlockTokens", uf "unlockEarly", uf "reduceLockPeriod", uf "mergeTokens", uf "migrateOldTokens",
  ob "mergeTokens@orig" .whitelisted,
  co "extendLockPeriod", co "revertUnstake", co "updateEnergyAfterOldTokenUnlock", co "lockVirtual",
  co "setUserEnergyAfterLockedTokenTransfer",
  op "updateEnergyAfterOldTokenUnlock@sc",       -- original caller is a contract: returns at once
  cfg "adjustUserEnergy" .scOwner, cfg "issueLockedToken" .scOwner, cfg "addLockOptions" .scOwner,
  cfg "setTokenUnstakeAddress" .scOwner, cfg "setEnergyForOldTokens" .scOwner .inactiveOnly,
  cfg "pause" .scOwner, cfg "unpause" .scOwner, cfg "setTransferRoleLockedToken" .scOwner,
  cfg "setBurnRoleLockedToken" .scOwner, cfg "addSCAddressToWhitelist" .scOwner,
  cfg "removeSCAddressFromWhitelist" .scOwner, cfg "addToTokenTransferWhitelist" .scOwner,
  cfg "removeFromTokenTransferWhitelist" .scOwner,
  vw "getLockedTokenId", vw "getBaseAssetTokenId", vw "getLegacyLockedTokenId", vw "getEnergyEntryForUser",
  vw "getEnergyAmountForUser", vw "getLockOptions", vw "getTokenUnstakeScAddress", vw "getPenaltyAmount",
  vw "isPaused", vw "isSCAddressWhitelisted"]

def feesTable : List Entry := [
  uf "claimRewards", ob "claimRewards@orig" .whitelisted, uf "claimBoostedRewards",
  ⟨"claimBoostedRewards@other", .onBehalf, .nobody, .active, .na⟩,
  co "depositSwapFees" .any,
  op "updateEnergyForUser",
  cfg "addKnownContracts" .scOwner, cfg "removeKnownContracts" .scOwner, cfg "addKnownTokens" .scOwner,
  cfg "removeKnownTokens" .scOwner, cfg "setLockedTokensPerBlock" .scOwner, cfg "setLockingScAddress" .scOwner,
  cfg "setLockEpochs" .scOwner, cfg "setEnergyFactoryAddress" .scOwner, cfg "pause" .scOwner, cfg "unpause" .scOwner,
  cfg "addSCAddressToWhitelist" .scOwner, cfg "removeSCAddressFromWhitelist" .scOwner,
  vw "getLockedTokenId", vw "getAllTokens", vw "getAllKnownContracts", vw "getAllowExternalClaimRewards",
  vw "getLastActiveWeekForUser", vw "getUserEnergyForWeek", vw "getLastGlobalUpdateWeek", vw "getTotalRewardsForWeek",
  vw "getTotalEnergyForWeek", vw "getTotalLockedTokensForWeek", vw "getCurrentClaimProgress", vw "getAccumulatedFees",
  vw "getCurrentWeek", vw "getFirstWeekStartEpoch", vw "getLastLockedTokensAddWeek", vw "getLockedTokensPerBlock",
  vw "getLockingScAddress", vw "getLockEpochs", vw "getEnergyFactoryAddress", vw "isPaused", vw "isSCAddressWhitelisted"]

def hubTable : List Entry := [
  op "whitelist", op "removeWhitelist", cfg "blacklist" .scOwner, cfg "removeBlacklist" .scOwner,
  vw "isWhitelisted", vw "getBlacklistedAddresses"]

def unstakeTable : List Entry := [
  uf "claimUnlockedTokens" .any, uf "cancelUnbond" .any,
  co "depositUserTokens" .any, co "depositFees" .any,
  cfg "setFeesBurnPercentage" .scOwner, cfg "setEnergyFactoryAddress" .scOwner,
  vw "getUnbondEpochs", vw "getUnlockedTokensForUser", vw "getFeesBurnPercentage", vw "getFeesCollectorAddress",
  vw "getEnergyFactoryAddress"]

def lkmexTable : List Entry := [
  uf "withdraw" .any, uf "lockFunds" .any, cfg "cancelTransfer" gAdmin,
  cfg "setEnergyFactoryAddress" .scOwner, cfg "addAdmin" gOwner, cfg "removeAdmin" gOwner,
  cfg "updateOwnerOrAdmin" .scOwner,
  vw "getScheduledTransfers", vw "getAllSenders", vw "getEnergyFactoryAddress", vw "getPermissions"]

def table : Contract → List Entry
  | .pair => pairTable | .router => routerTable | .farm => farmTable | .fwlr => fwlrTable
  | .staking => stakingTable | .energy => energyTable | .fees => feesTable | .hub => hubTable
  | .unstake => unstakeTable | .lkmex => lkmexTable

def lookup (c : Contract) (e : String) : Option Entry := (table c).find? (·.name == e)

/-- contracts with a kill switch (pausable state / pause module / router state) -/
def pausable : Contract → Bool
  | .hub | .unstake | .lkmex => false
  | _ => true

-- ---------------- decision ---------------------------------------------------------------

/-- does the role pass the guard in contract `c` as deployed by the world? -/
def guardOk (c : Contract) (g : Guard) (r : Role) : Bool :=
  match g with
  | .anyone => true
  | .scOwner => r.addr == (deployed c).scOwner
  | .perm m => (deployed c).holds r.addr m
  | .storedOwner => r == .owner
  | .whitelisted => decide (r.addr ∈ wlDeployed.members)
  | .hubAgent => hubDeployed.isWhitelisted Role.user.addr r.addr
  | .adder => r == .user
  | .nobody => false

def stateOk : StateReq → CState → Bool
  | .any, _ => true
  | .active, s => s == .active
  | .activeOrPartial, s => s == .active || s == .partialActive
  | .inactiveOnly, s => s == .inactive

/-- the access decision: may `r` call endpoint `e` of contract `c` in state `s` with a
    minimal valid payment?  Unknown endpoints are not callable. -/
def allowed (c : Contract) (e : String) (r : Role) (s : CState) : Bool :=
  match lookup c e with
  | none => false
  | some ent => guardOk c ent.guard r && stateOk ent.st s

/-- Classification of an endpoint the hand-written table does not list, from the flags of the compiled contract's
    ABI alone (so that a harmless new getter or a new `#[only_owner]` setter is not an alarm): a read-only endpoint is
    a view, an `#[only_owner]` endpoint is configuration guarded by the contract owner; any other unknown endpoint —
    mutable and callable by anybody — stays unclassified, which breaks `inventory_classified`. -/
def abiDefault (e : String) (onlyOwner readonly : Bool) : Option Entry :=
  if readonly then some (vw e) else if onlyOwner then some (cfg e .scOwner) else none

/-- table entry if there is one, else the ABI default -/
def classify (c : Contract) (e : String) (onlyOwner readonly : Bool) : Option Entry :=
  match lookup c e with
  | some ent => some ent
  | none => abiDefault e onlyOwner readonly

/-- the access decision for an explicit entry (table row or ABI default) -/
def allowedBy (c : Contract) (ent : Entry) (r : Role) (s : CState) : Bool :=
  guardOk c ent.guard r && stateOk ent.st s

/-- `name@variant` ↦ `name` -/
def baseName (e : String) : String := (e.splitOn "@").headD e

end Mx.Access
