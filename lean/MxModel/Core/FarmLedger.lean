/-
  Per-account WALLET ledger on top of the farm model (`Core/Farm.lean`, unchanged).  Import-free.

  `Farm.St` only knows the farm contract's own side of every payment (its balances `balFarming` /
  `balReward`, the cumulative counters `paid`, `penaltyBurned`) and who HOLDS the position tokens
  (`hold`).  This file adds the OTHER side of the fungible payments: the ESDT wallets of the accounts.

  * `Wal`   = every account's wallet of the farming token and of the token rewards are paid in
              (kind `mint`, dex/farm: the reward token itself; kind `noMint`, farm-with-locked-rewards:
              the LOCKED tokens the energy factory mints for the destination of `lockVirtual`).
              When the farming token IS the reward token (`sameCol`, dex/farm only) there is one
              wallet per account: the `rew` column; the `farming` column is not used.
  * `moveF` = the fungible transfers of a successful call, read off the operation's arguments, the
              PRE-state (only for `claimRewardsOnBehalf`, whose beneficiary is the recorded owner of
              the positions sent) and its `Out` record — exactly the `send_payment_non_zero` /
              `send_to_lock_contract_non_zero` calls at the end of each endpoint:

                endpoint                  farming tokens        rewards (`Out.rew`) go to
                enterFarm                 caller pays `amt`     CALLER        (energy: original caller)
                enterFarmOnBehalf         caller pays `amt`     USER          (the account acted for)
                claimRewards              —                     CALLER        (also with an original caller named)
                claimRewardsOnBehalf      —                     recorded OWNER of the positions
                compoundRewards           —                     nobody (stays in the farm as principal)
                exitFarm                  caller gets `farming` CALLER
                mergeFarmTokens           —                     CALLER
                claimBoostedRewards       —                     `user` (= caller, the only allowed value)

              (dex/farm/src/{lib,external_interaction}.rs, dex/farm-with-locked-rewards/src/{lib,
              external_interaction}.rs — the two contracts agree on every receiver; the new position
              token always goes to the caller, which `Farm.step` already records in `hold`.)
  * `stepL` = `Farm.step` + debit / credit of the wallets.  The farming-token debit is checked like the
              VM checks it (a caller that does not hold what it sends fails).
  * `LOp.fund` = the test faucet (`FarmWorld::ensure_farming` of the harness): tops an account of the
              world up to a given amount of the farming token; what it creates enters `funded`.
  * `outside` = reward tokens sent to an address that is not an account of the world (possible only for
              `enterFarmOnBehalf` naming such a user); kept so that conservation stays an equality.
-/
import MxModel.Core.Farm

namespace Mx.FarmLedger
open Mx.Farm
open Mx.Weekly (upd)

/-- the fungible payments of one successful call -/
structure Move where
  /-- the caller (pays / receives the farming tokens) -/
  payer : Nat := 0
  /-- farming tokens sent with the call -/
  payFarming : Nat := 0
  /-- farming tokens sent back to the caller -/
  getFarming : Nat := 0
  /-- who receives the reward payment -/
  rewTo : Nat := 0
  /-- amount of the reward payment -/
  rew : Nat := 0
  deriving DecidableEq, Repr

/-- the payments of `op` (evaluated in the state BEFORE the call) with result `o` -/
def moveF (s : St) : Op → Out → Move
  | .enter c _ a _, o => { payer := c, payFarming := a, rewTo := c, rew := o.rew }
  | .enterOB c u a _, o => { payer := c, payFarming := a, rewTo := u, rew := o.rew }
  | .claim c _ _, o => { payer := c, rewTo := c, rew := o.rew }
  | .claimOB c p, o => { payer := c, rewTo := (claimOwner s p).getD 0, rew := o.rew }
  | .compound c _ _, _ => { payer := c }
  | .exit c _ _ _, o => { payer := c, getFarming := o.farming, rewTo := c, rew := o.rew }
  | .merge c _ _, o => { payer := c, rewTo := c, rew := o.rew }
  | .claimBoosted c u, o => { payer := c, rewTo := u.getD c, rew := o.rew }
  | _, _ => {}

/-- every account's wallets -/
structure Wal where
  /-- farming token (unused when the farming token is the reward token) -/
  farming : Nat → Nat
  /-- the token rewards are paid in: reward token (dex/farm) / LOCKED reward tokens (farm-with-locked-rewards) -/
  rew : Nat → Nat

/-- the farming token is the very token rewards are paid in (dex/farm with farming = reward token) -/
def sameCol (s : St) : Bool := s.sameTok && decide (s.kind = Kind.mint)

/-- balance of the farming token -/
def Wal.getF (w : Wal) (same : Bool) (u : Nat) : Nat := if same then w.rew u else w.farming u

/-- set the balance of the farming token -/
def Wal.setF (w : Wal) (same : Bool) (u v : Nat) : Wal :=
  if same then { w with rew := upd w.rew u v } else { w with farming := upd w.farming u v }

/-- receive `x` reward tokens -/
def Wal.credit (w : Wal) (u x : Nat) : Wal := { w with rew := upd w.rew u (w.rew u + x) }

/-- debit what the caller sends (fails like the VM when the wallet is short), credit what is sent back
    to it, credit the reward payment to its receiver -/
def applyMove (w : Wal) (same : Bool) (m : Move) : Option Wal := do
  let v ← sub? (w.getF same m.payer) m.payFarming
  pure ((w.setF same m.payer (v + m.getFarming)).credit m.rewTo m.rew)

/-- the ledger -/
structure L where
  f : St
  w : Wal
  /-- farming tokens ever handed out by the faucet -/
  funded : Nat
  /-- reward tokens sent to addresses that are not accounts of the world -/
  outside : Nat

inductive LOp
  /-- faucet: account `who` of the world is topped up to hold at least `x` of the farming token -/
  | fund (who x : Nat)
  /-- an operation of the farm world (it carries its own caller) -/
  | op (o : Op)

def stepL (l : L) : LOp → Option (L × Out)
  | .fund who x => do
      req (who ∈ l.f.users)
      let h := l.w.getF (sameCol l.f) who
      pure ({ l with w := l.w.setF (sameCol l.f) who (max h x), funded := l.funded + (x - h) }, {})
  | .op o => do
      let r ← step l.f o
      let w ← applyMove l.w (sameCol l.f) (moveF l.f o r.2)
      pure ({ f := r.1, w := w, funded := l.funded,
              outside := if (moveF l.f o r.2).rewTo ∈ l.f.users then l.outside
                         else l.outside + (moveF l.f o r.2).rew }, r.2)

/-- the ledger after a history: failed transactions leave everything unchanged -/
def runL (l : L) (ops : List LOp) : L :=
  ops.foldl (fun l o => match stepL l o with | some (l', _) => l' | none => l) l

/-- a freshly deployed farm; every wallet is empty -/
def initL (kind : Kind) (sameTok : Bool) (dsc perBlock : Nat) (produce : Bool) (users : List Nat)
    (epoch0 : Nat) : L :=
  { f := Farm.init kind sameTok dsc perBlock produce users epoch0
    w := ⟨fun _ => 0, fun _ => 0⟩, funded := 0, outside := 0 }

end Mx.FarmLedger
