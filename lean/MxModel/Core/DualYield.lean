/-
  Model of `farm-staking/farm-staking-proxy` (metastaking): the PROXY's own logic only.  Import-free.

  Transcribed from: dual_yield_token.rs (`DualYieldTokenAttributes`, `into_part` =
  `rule_of_three_non_zero_result` on the LP-farm amount), proxy_actions/{stake,claim,unstake,
  external_interaction}.rs, external_contracts_interactions.rs, result_types.rs
  (`send_and_return`), lp_farm_token.rs, common/traits/fixed-supply-token, common/modules/utils
  (`get_attributes_as_part_of_fixed_supply`), common/modules/token_send.

  Everything the proxy obtains from the contracts it calls is an ARGUMENT of the operation
  (a "callee response", recorded by the harness from the real contracts):
    pair      : safe-price value of an LP amount (`updateAndGetTokensForGivenPositionWithSafePrice`),
                the two payments of `removeLiquidity`;
    LP farm   : the merged / claimed farm token, the LP tokens of `exitFarm`, (locked) rewards;
    staking   : the new staking-farm token of `stakeFarmThroughProxy` / `claimRewardsWithNewValue`,
                rewards, the unbond token of `unstakeFarmThroughProxy`.
  The model replays the proxy's bookkeeping from those responses.

  `lp_farm_token.rs::get_lp_tokens_in_farm_position(nonce, amount)` reads the LP-farm token's
  attributes and returns `into_part(amount).current_farm_amount`; for `FarmTokenAttributes`
  that is `amount` in both branches of `into_part`, so the LP amount whose safe price is asked
  is the LP-farm token amount itself.

  A failed transaction is `none` (state unchanged by atomicity).
-/
import MxModel.Core.Arith

namespace Mx.DualYield

/-- one dual-yield nonce: `DualYieldTokenAttributes` + two ghost counters -/
structure Tok where
  /-- `lp_farm_token_nonce` -/
  lpN : Nat
  /-- `lp_farm_token_amount` -/
  lpA : Nat
  /-- `staking_farm_token_nonce` -/
  stN : Nat
  /-- `staking_farm_token_amount` = `get_total_supply()` = amount minted of this nonce -/
  stA : Nat
  /-- ghost: outstanding supply of this nonce (minted − burned) -/
  out : Nat
  /-- ghost: LP-farm token amount released from this nonce so far (Σ of the parts) -/
  rel : Nat
  deriving DecidableEq, Repr

/-- pointwise update of a total map -/
def upd (m : Nat → Nat) (k v : Nat) : Nat → Nat := fun i => if i = k then v else m i

/-- pointwise update of a two-level map -/
def upd2 (m : Nat → Nat → Nat) (a b v : Nat) : Nat → Nat → Nat :=
  fun i j => if i = a ∧ j = b then v else m i j

/-- the proxy's balances of the tokens that only pass through it -/
structure Pass where
  /-- staking token = staking reward token (farm-staking: farming token = reward token) -/
  ride : Nat
  /-- the other pool token -/
  other : Nat
  /-- LP token of the pair -/
  lp : Nat
  /-- LP-farm rewards (locked tokens, all nonces summed) -/
  locked : Nat
  /-- unbond tokens (staking-farm token id, unbond nonces, summed) -/
  unbond : Nat
  deriving DecidableEq, Repr

structure St where
  /-- dual-yield nonce `d` ↦ `toks[d-1]`; burned-out nonces stay with `out = 0` -/
  toks : List Tok
  /-- ghost ledger: the proxy's balance of LP-farm tokens per nonce -/
  holdLp : Nat → Nat
  /-- ghost ledger: the proxy's balance of staking-farm tokens per nonce -/
  holdSt : Nat → Nat
  /-- `user u d` = account `u`'s balance of dual-yield nonce `d` -/
  user : Nat → Nat → Nat
  pass : Pass

def init : St :=
  { toks := [], holdLp := fun _ => 0, holdSt := fun _ => 0, user := fun _ _ => 0,
    pass := ⟨0, 0, 0, 0, 0⟩ }

/-- what an operation returns (`StakeProxyResult` / `ClaimDualYieldResult` / `UnstakeResult`)
    plus the values the proxy passed to its callees -/
structure Out where
  /-- new dual-yield token -/
  dyN : Nat := 0
  dyA : Nat := 0
  /-- stake: staking boosted rewards; claim: LP-farm rewards; unstake: other pool token -/
  o1 : Nat := 0
  /-- stake: LP-farm boosted rewards; claim: staking rewards; unstake: LP-farm rewards -/
  o2 : Nat := 0
  /-- unstake: staking rewards -/
  o3 : Nat := 0
  /-- unstake: unbond token -/
  unN : Nat := 0
  unA : Nat := 0
  /-- value handed to the staking farm: stake → `staked_token_amount`, claim → `new_farming_amount`,
      unstake → the staking tokens sent as first payment (= the unbond amount requested) -/
  toStaking : Nat := 0
  /-- LP-farm token amount released by this operation (sum of the parts) -/
  lpReleased : Nat := 0
  /-- staking-farm token amount released by this operation -/
  stReleased : Nat := 0
  deriving DecidableEq, Repr

/-- `DualYieldTokenAttributes::into_part(x).lp_farm_token_amount`
    (`rule_of_three_non_zero_result`; the staking part is `x` itself) -/
def part (t : Tok) (x : Nat) : Option Nat :=
  if x = t.stA then some t.lpA
  else do
    req (t.stA ≠ 0)
    req (t.lpA * x / t.stA ≠ 0)
    pure (t.lpA * x / t.stA)

/-- Account `u` pays `x` units of dual-yield nonce `d`; the proxy computes the part of the
    attributes, burns the payment and sends the two parts to the farms.
    Returns the new state and the LP-farm part (the staking part is `x`). -/
def release (s : St) (u d x : Nat) : Option (St × Nat) := do
  req (d ≠ 0)
  let t ← s.toks[d - 1]?
  req (x ≠ 0)
  let bal ← sub? (s.user u d) x
  let p ← part t x
  let out' ← sub? t.out x
  let hl ← sub? (s.holdLp t.lpN) p
  let hs ← sub? (s.holdSt t.stN) x
  pure ({ s with toks := s.toks.set (d - 1) { t with out := out', rel := t.rel + p },
                 holdLp := upd s.holdLp t.lpN hl,
                 holdSt := upd s.holdSt t.stN hs,
                 user := upd2 s.user u d bal }, p)

/-- the additional payments of `stakeFarmTokens`, processed in order;
    returns (state, Σ LP-farm parts, Σ staking parts) -/
def releaseAll (s : St) (u : Nat) : List (Nat × Nat) → Option (St × Nat × Nat)
  | [] => some (s, 0, 0)
  | (d, x) :: ms => do
      let r ← release s u d x
      let q ← releaseAll r.1 u ms
      pure (q.1, r.2 + q.2.1, x + q.2.2)

/-- `create_dual_yield_tokens`: `nft_create(staking_farm_token_amount, attributes)`, the new
    token goes to account `u`; the backing farm tokens are now held by the proxy.
    NB: multiversx-chain-vm 0.10 (the VM of the repo's tests and of the harness) accepts
    `nft_create` with quantity 0, so `stA = 0` is NOT rejected here: it would create a
    zero-supply nonce whose LP-farm tokens can never be released (`part` needs `x ≠ 0`,
    `x ≤ out = 0`).  Since the fix of finding F4 (notes/metastaking.md) `stake`/`claim` require
    a non-zero safe-price value, so a staking farm that returns the amount it was asked to
    create never returns 0 (`Props/C15.no_zero_supply`). -/
def mint (s : St) (u lpN lpA stN stA : Nat) : St × Nat :=
  ({ s with toks := s.toks ++ [⟨lpN, lpA, stN, stA, stA, 0⟩],
                 holdLp := upd s.holdLp lpN (s.holdLp lpN + lpA),
                 holdSt := upd s.holdSt stN (s.holdSt stN + stA),
                 user := upd2 s.user u (s.toks.length + 1) (s.user u (s.toks.length + 1) + stA) },
        s.toks.length + 1)

/-- receive `x` of a pass-through token from a callee and forward it in the same transaction -/
def through (bal x : Nat) : Option Nat := sub? (bal + x) x

/-- callee responses of `stakeFarmTokens` -/
structure StakeResp where
  /-- pair: safe-price value (in staking tokens) of the LP amount -/
  safe : Nat
  /-- staking farm: `received_staking_farm_token` -/
  stN : Nat
  stA : Nat
  /-- staking farm: boosted rewards -/
  boosted : Nat
  /-- LP farm `mergeFarmTokens` (only called when dual-yield tokens are merged in) -/
  lpN : Nat
  lpA : Nat
  lpBoosted : Nat
  deriving DecidableEq, Repr

/-- `stakeFarmTokens` / `stakeFarmOnBehalf` (`stake_farm_tokens_common`).
    `c` = account that pays and receives the dual-yield token; `auth` = result of the
    on-behalf checks (`true` for the plain endpoint); `(lpN, a)` = first payment (LP-farm token);
    `ms` = additional dual-yield payments. -/
def stake (s : St) (c : Nat) (auth : Bool) (lpN a : Nat) (ms : List (Nat × Nat)) (r : StakeResp) :
    Option (St × Out) := do
  req (auth = true)
  req (a ≠ 0)
  let q ← releaseAll s c ms
  req (r.safe ≠ 0)                                 -- "Position value is zero"
  let ride ← through q.1.pass.ride r.boosted
  let mlpN := if ms.isEmpty then lpN else r.lpN
  let mlpA := if ms.isEmpty then a else r.lpA
  let lpB := if ms.isEmpty then 0 else r.lpBoosted
  let locked ← through q.1.pass.locked lpB
  let m := mint { q.1 with pass := { q.1.pass with ride := ride, locked := locked } } c mlpN mlpA r.stN r.stA
  pure (m.1, { dyN := m.2, dyA := r.stA, o1 := r.boosted, o2 := lpB, toStaking := r.safe,
               lpReleased := q.2.1, stReleased := q.2.2 })

/-- callee responses of `claimDualYield` -/
structure ClaimResp where
  safe : Nat
  /-- LP farm `claimRewards`: new farm token, (locked) rewards -/
  lpN : Nat
  lpA : Nat
  lpRew : Nat
  /-- staking farm `claimRewardsWithNewValue`: new farm token, rewards -/
  stN : Nat
  stA : Nat
  stRew : Nat
  deriving DecidableEq, Repr

/-- `claimDualYield` / `claimDualYieldOnBehalf` (`claim_dual_yield_common`) -/
def claim (s : St) (c : Nat) (auth : Bool) (d x : Nat) (r : ClaimResp) : Option (St × Out) := do
  req (auth = true)
  let q ← release s c d x
  req (r.safe ≠ 0)                                 -- "Position value is zero"
  let locked ← through q.1.pass.locked r.lpRew
  let ride ← through q.1.pass.ride r.stRew
  let m := mint { q.1 with pass := { q.1.pass with ride := ride, locked := locked } } c r.lpN r.lpA r.stN r.stA
  pure (m.1, { dyN := m.2, dyA := r.stA, o1 := r.lpRew, o2 := r.stRew, toStaking := r.safe,
               lpReleased := q.2, stReleased := x })

/-- callee responses of `unstakeFarmTokens` -/
structure UnstakeResp where
  /-- LP farm `exitFarm`: LP tokens, (locked) rewards -/
  lpOut : Nat
  lpRew : Nat
  /-- pair `removeLiquidity`: staking-token payment, other-token payment -/
  stk : Nat
  other : Nat
  /-- staking farm `unstakeFarmThroughProxy`: unbond token, rewards -/
  unN : Nat
  unA : Nat
  stRew : Nat
  deriving DecidableEq, Repr

/-- `unstakeFarmTokens` -/
def unstake (s : St) (c d x : Nat) (r : UnstakeResp) : Option (St × Out) := do
  let q ← release s c d x
  let lp ← through q.1.pass.lp r.lpOut            -- LP tokens: farm → proxy → pair
  let locked ← through q.1.pass.locked r.lpRew    -- LP-farm rewards → caller
  let ride1 ← through q.1.pass.ride r.stk         -- staking tokens: pair → proxy → staking farm
  let other ← through q.1.pass.other r.other      -- other pool token → caller
  let ride ← through ride1 r.stRew                -- staking rewards → caller
  let unbond ← through q.1.pass.unbond r.unA      -- unbond token → caller
  pure ({ q.1 with pass := ⟨ride, other, lp, locked, unbond⟩ },
        { o1 := r.other, o2 := r.lpRew, o3 := r.stRew, unN := r.unN, unA := r.unA,
          toStaking := r.stk, lpReleased := q.2, stReleased := x })

/-- plain ESDT transfer of dual-yield tokens between two accounts (no contract involved) -/
def xfer (s : St) (u v d x : Nat) : Option (St × Out) := do
  req (u ≠ v)
  req (x ≠ 0)
  let bal ← sub? (s.user u d) x
  pure ({ s with user := upd2 (upd2 s.user u d bal) v d (s.user v d + x) }, {})

inductive Op
  | stake (c : Nat) (auth : Bool) (lpN a : Nat) (ms : List (Nat × Nat)) (r : StakeResp)
  | claim (c : Nat) (auth : Bool) (d x : Nat) (r : ClaimResp)
  | unstake (c d x : Nat) (r : UnstakeResp)
  | xfer (u v d x : Nat)
  /-- anything that does not involve the proxy: pool trades, direct farm use, time -/
  | env
  /-- a call the proxy rejects before doing anything (wrong token, no payment, …) -/
  | bad
  deriving Repr

def step (s : St) : Op → Option (St × Out)
  | .stake c auth lpN a ms r => stake s c auth lpN a ms r
  | .claim c auth d x r => claim s c auth d x r
  | .unstake c d x r => unstake s c d x r
  | .xfer u v d x => xfer s u v d x
  | .env => some (s, {})
  | .bad => none

/-- the state after a history: failed transactions leave the state unchanged. -/
def run (s : St) (ops : List Op) : St :=
  ops.foldl (fun s o => match step s o with | some (s', _) => s' | none => s) s

end Mx.DualYield
