/-
  Executable checks of the callee facts the run-level C16 theorems need (Props/C16Run.lean), on the
  callee answers recorded in an operation.  Import-free, so that the DRIVER evaluates them on every
  recorded answer of a correspondence run (Driver/Proxydex.lean prints a diverging line when one
  fails).  The locked part `into_part` assigns to a payment is a function of the IMMUTABLE token
  attributes (`lockedA`, `lockedFA`).
-/
import MxModel.Core.ProxyDex

namespace Mx.ProxyDex

/-- attributes of a wrapped LP token: `(lp_token_amount, locked nonce, locked amount)` -/
def attrW (r : WLp) : Nat × Nat × Nat := (r.total, r.k, r.locked)

/-- attributes of a wrapped farm token -/
def attrF (q : WFarm) : Nat × Nat × Nat × Kind × Nat × Nat := (q.farm, q.fn, q.fa, q.kind, q.pn, q.pa)

def St.aw (s : St) : List (Nat × Nat × Nat) := s.wl.map attrW
def St.af (s : St) : List (Nat × Nat × Nat × Kind × Nat × Nat) := s.wf.map attrF

/-- locked tokens `into_part` assigns to `x` units of wrapped LP nonce `w` -/
def lockedA (aw : List (Nat × Nat × Nat)) (w x : Nat) : Nat :=
  match aw[w]? with
  | some (total, _, locked) => (part locked total x).getD 0
  | none => 0

/-- locked tokens behind `x` units of wrapped farm nonce `f`: its proxy-farming part if that is a
    locked token, else the locked part of the wrapped-LP part -/
def lockedFA (aw : List (Nat × Nat × Nat)) (af : List (Nat × Nat × Nat × Kind × Nat × Nat))
    (f x : Nat) : Nat :=
  match af[f]? with
  | some (_, _, fa, kind, pn, pa) =>
      match part pa fa x with
      | some p => (match kind with | .locked => p | .wlp => lockedA aw pn p)
      | none => 0
  | none => 0

/-- locked tokens behind a list of wrapped LP payments / wrapped farm payments -/
def lockedWs (s : St) (l : List (Nat × Nat)) : Nat := (l.map fun wx => lockedA s.aw wx.1 wx.2).sum
def lockedFs (s : St) (l : List (Nat × Nat)) : Nat :=
  (l.map fun fx => lockedFA s.aw s.af fx.1 fx.2).sum

/-- total amount of a payment list -/
def paySum (l : List (Nat × Nat)) : Nat := (l.map (·.2)).sum


/-- the factory's answer conserves the locked amount (`true` for operations without a factory call) -/
def factoryOKb (s : St) : Op → Bool
  | .addLiq _ _ _ merge _ ul _ mk =>
      match merge, mk with
      | [], _ => true
      | _ :: _, none => true
      | a :: l, some t => t.amt == ul + lockedWs s (a :: l)
  | .enterL _ _ a merge _ _ m _ =>
      match merge, m with
      | [], _ => true
      | _ :: _, none => true
      | b :: l, some (_, t) => t.amt == a + lockedFs s (b :: l)
  | .enterW _ w a merge _ _ m _ =>
      match merge, m with
      | [], _ => true
      | _ :: _, none => true
      | b :: l, some (_, t) => t.amt == lockedA s.aw w a + lockedFs s (b :: l)
  | .mergeLp l t => t.amt == lockedWs s l
  | .mergeFarm _ l _ t _ _ => t.amt == lockedFs s l
  | .incLp w x t => t.amt == lockedA s.aw w x
  | .incFarm f x t => t.amt == lockedFA s.aw s.af f x
  | _ => true

/-- the farms' answers are exact -/
def farmEqb : Op → Bool
  | .enterL farm _ a merge ft _ m _ =>
      farmIsBase farm &&
      (match merge, m with
       | [], _ => ft.2 == a
       | _ :: _, none => true
       | b :: l, some (mf, _) => mf.2 == a + paySum (b :: l))
  | .enterW farm _ _ _ _ _ _ _ => !farmIsBase farm
  | .claim _ _ x ft _ => ft.2 == x
  | .mergeFarm _ l mf _ _ _ => mf.2 == paySum l
  | _ => true

def calleeOKb (s : St) (op : Op) : Bool := farmEqb op && factoryOKb s op

/-- every operation of the history satisfies the callee facts in the state it is executed in -/
def runOKb (s : St) : List Op → Bool
  | [] => true
  | op :: ops =>
      calleeOKb s op && runOKb (match step s op with | some (s', _) => s' | none => s) ops

end Mx.ProxyDex
