/-
  SHARED model of the weekly-rewards-splitting family of modules.  Core-only imports.

  Transcribed from
    energy-integration/common-modules/weekly-rewards-splitting/src/
        lib.rs                           ClaimProgress, claim_multi, claim_single, the two views
        base_impl.rs                     collect_and_get_rewards_for_week, get_user_rewards_for_week (default)
        global_info.rs                   update_global_amounts_for_current_week, perform_weekly_update,
                                         the four-case token update, the energy update
        locked_token_buckets.rs          shift_buckets_and_update_tokens_energy, reallocate_bucket_after_energy_update,
                                         get_bucket_id_for_energy, get_surplus_for_energy
        update_claim_progress_energy.rs  update_energy_for_user, update_energy_and_progress,
                                         update_user_energy_for_current_week, clear_user_energy
    energy-integration/common-modules/week-timekeeping/src/lib.rs   get_week_for_epoch
    locked-asset/energy-factory/src/energy.rs                        Energy, deplete, get_energy_amount
    energy-integration/common-modules/energy-query/src/lib.rs        get_energy_entry

  Users of this file: Core/FeesCollector.lean (default reward function = energy share per token)
  and the farm / staking models (boosted reward function).  The module state is ONE plain
  structure `Weekly.St` that a contract model embeds as a field; everything contract-specific
  (where the weekly rewards come from, what a user gets for a week) is passed in as functions
  over the contract's own state type `σ`.

  Conventions (CONTRIBUTING.md): `BigUint` = `Nat`, `BigInt` = `Int`, epochs / weeks / bucket ids
  = `Nat`; a failed transaction is `none`; every `BigUint` subtraction of the code is `sub?`;
  `math::safe_sub` (which saturates at 0) is `safeSub`.  Storage mappers keyed by week / user /
  bucket id are total functions (`empty` = `0`, `none`, `[]`, `(0,0)` — exactly the value the
  code reads from an empty mapper), updated with `upd`.

  Not modelled: events; `u64`/`usize` overflow (bucket id `to_u64`, week arithmetic).  The two
  `usize` subtractions that would wrap if time ran backwards (`current_week − last_global_update_week`,
  `current_week − progress.week`) are guards here (`req`), they never fire under monotone time.
-/
import MxModel.Core.Arith

namespace Mx.Weekly

/-- `week_timekeeping::EPOCHS_IN_WEEK` -/
def EPOCHS_IN_WEEK : Nat := 7
/-- `weekly_rewards_splitting::USER_MAX_CLAIM_WEEKS` -/
def USER_MAX_CLAIM_WEEKS : Nat := 4

/-- token identifiers are small naturals in every model (role numbers assigned by the world). -/
abbrev Tok := Nat

/-- point update of a storage map modelled as a total function -/
def upd {α : Type} (f : Nat → α) (k : Nat) (v : α) : Nat → α := fun x => if x = k then v else f x

@[simp] theorem upd_same {α : Type} (f : Nat → α) (k : Nat) (v : α) : upd f k v k = v := by
  simp [upd]

@[simp] theorem upd_other {α : Type} (f : Nat → α) {k x : Nat} (v : α) (h : x ≠ k) :
    upd f k v x = f x := by
  simp [upd, h]

/-- `math::safe_sub(a, b)`: `a − b` if `a > b`, else `0`. -/
def safeSub (a b : Nat) : Nat := a - b

/-! ### Energy (energy-factory/src/energy.rs) -/

/-- `Energy { amount: BigInt, last_update_epoch, total_locked_tokens }` -/
structure Energy where
  amount : Int
  lastUpdateEpoch : Nat
  totalLocked : Nat
  deriving DecidableEq, Repr, Inhabited

namespace Energy

/-- `Energy::default()` -/
def zero : Energy := ⟨0, 0, 0⟩

/-- `Energy::new_zero_energy(current_epoch)` -/
def newZero (epoch : Nat) : Energy := ⟨0, epoch, 0⟩

/-- `deplete(current_epoch)`: nothing if already at that epoch; otherwise the amount loses
    `total_locked · (epoch − last)` when tokens are locked and the epoch is later, and
    `last_update_epoch` is overwritten in every case (also for an earlier epoch). -/
def deplete (e : Energy) (epoch : Nat) : Energy :=
  if e.lastUpdateEpoch = epoch then e
  else
    { amount :=
        if 0 < e.totalLocked ∧ e.lastUpdateEpoch < epoch then
          e.amount - ((e.totalLocked * (epoch - e.lastUpdateEpoch) : Nat) : Int)
        else e.amount
      lastUpdateEpoch := epoch
      totalLocked := e.totalLocked }

/-- `get_energy_amount()`: the amount clamped at 0, as a `BigUint`. -/
def getEnergyAmount (e : Energy) : Nat := e.amount.toNat

/-- `energy_query::get_energy_entry`: the factory's stored entry depleted to the current epoch,
    or a zero entry when the factory has none for the user. -/
def queried (entry : Option Energy) (epoch : Nat) : Energy :=
  match entry with
  | some e => e.deplete epoch
  | none => newZero epoch

end Energy

/-! ### Week timekeeping (week-timekeeping/src/lib.rs) -/

/-- `get_week_for_epoch(epoch)`; weeks start at 1; fails before the first week. -/
def weekOf (epoch firstWeekStartEpoch : Nat) : Option Nat := do
  req (firstWeekStartEpoch ≤ epoch)
  pure ((epoch - firstWeekStartEpoch) / EPOCHS_IN_WEEK + 1)

/-! ### Claim progress (lib.rs) -/

/-- `ClaimProgress { energy, week }`: the user's last recorded energy and the next week to claim. -/
structure ClaimProgress where
  energy : Energy
  week : Nat
  deriving DecidableEq, Repr, Inhabited

namespace ClaimProgress

/-- `advance_week`: deplete by one week (7 epochs from the entry's own `last_update_epoch`), week + 1. -/
def advanceWeek (p : ClaimProgress) : ClaimProgress :=
  { energy := p.energy.deplete (p.energy.lastUpdateEpoch + EPOCHS_IN_WEEK), week := p.week + 1 }

/-- `advance_multiple_weeks(n)` -/
def advanceMultipleWeeks (p : ClaimProgress) (n : Nat) : ClaimProgress :=
  { energy := p.energy.deplete (p.energy.lastUpdateEpoch + EPOCHS_IN_WEEK * n), week := p.week + n }

end ClaimProgress

/-! ### Module state -/

/-- `LockedTokensBucket { token_amount, surplus_energy_amount }`; an empty mapper reads as `(0, 0)`. -/
structure Bucket where
  tokens : Nat
  surplus : Nat
  deriving DecidableEq, Repr, Inhabited

def Bucket.empty : Bucket := ⟨0, 0⟩

/-- Storage of the weekly-rewards-splitting modules of ONE contract. -/
structure St where
  /-- `currentClaimProgress(user)`; `none` = empty mapper -/
  progress : Nat → Option ClaimProgress
  /-- ghost: every user whose progress entry was ever written (no duplicates), for sums -/
  users : List Nat
  /-- `totalEnergyForWeek(week)` -/
  totalEnergy : Nat → Nat
  /-- `totalLockedTokensForWeek(week)` -/
  totalLocked : Nat → Nat
  /-- `totalRewardsForWeek(week)`; `[]` = empty mapper (an empty `ManagedVec` encodes to nothing) -/
  totalRewards : Nat → List (Tok × Nat)
  /-- `lastGlobalUpdateWeek` (0 = never) -/
  lastGlobalUpdateWeek : Nat
  /-- `firstBucketId` -/
  firstBucketId : Nat
  /-- `lockedTokensInBucket(id)` -/
  buckets : Nat → Bucket

/-- freshly deployed contract -/
def St.init : St :=
  { progress := fun _ => none, users := [], totalEnergy := fun _ => 0, totalLocked := fun _ => 0,
    totalRewards := fun _ => [], lastGlobalUpdateWeek := 0, firstBucketId := 0,
    buckets := fun _ => Bucket.empty }

/-! ### Buckets (locked_token_buckets.rs) -/

/-- `get_bucket_id_for_energy`: none without tokens or without (positive) energy; else
    `firstBucketId + ⌊⌊amount / tokens⌋ / 7⌋`. -/
def bucketIdFor (firstBucketId : Nat) (e : Energy) : Option Nat :=
  if e.totalLocked = 0 then none
  else if e.getEnergyAmount = 0 then none
  else some (e.getEnergyAmount / e.totalLocked / EPOCHS_IN_WEEK + firstBucketId)

/-- `get_surplus_for_energy`: `amount mod (tokens · 7)`, 0 without tokens. -/
def surplusFor (e : Energy) : Nat :=
  if e.totalLocked = 0 then 0 else e.getEnergyAmount % (e.totalLocked * EPOCHS_IN_WEEK)

/-- running totals threaded through the weekly shift -/
structure Totals where
  tokens : Nat
  energy : Nat
  deriving DecidableEq, Repr

/-- one iteration of the loop of `shift_buckets_and_update_tokens_energy`:
    take the first bucket, `tokens −= bucket.tokens` (checked), `energy := safe_sub(energy,
    tokens·7 + bucket.surplus)` with the ALREADY reduced `tokens`, `firstBucketId += 1`. -/
def shiftOnce (g : St) (t : Totals) : Option (St × Totals) := do
  let b := g.buckets g.firstBucketId
  let tokens ← sub? t.tokens b.tokens
  let energy := safeSub t.energy (tokens * EPOCHS_IN_WEEK + b.surplus)
  pure ({ g with buckets := upd g.buckets g.firstBucketId Bucket.empty,
                 firstBucketId := g.firstBucketId + 1 },
        { tokens := tokens, energy := energy })

/-- `shift_buckets_and_update_tokens_energy(n, &mut tokens, &mut energy)` -/
def shiftN : Nat → St → Totals → Option (St × Totals)
  | 0, g, t => some (g, t)
  | n + 1, g, t => (shiftOnce g t).bind fun r => shiftN n r.1 r.2

/-- result of `reallocate_bucket_after_energy_update` -/
structure BucketPair where
  prev : Option Nat
  cur : Option Nat
  deriving DecidableEq, Repr

/-- remove `(prev.tokens, surplus(prev))` from bucket `id` (both subtractions checked) -/
def bucketRemove (g : St) (id : Nat) (orig : Energy) : Option St := do
  let b := g.buckets id
  let tk ← sub? b.tokens orig.totalLocked
  let su ← sub? b.surplus (surplusFor orig)
  pure { g with buckets := upd g.buckets id ⟨tk, su⟩ }

/-- add `(cur.tokens, surplus(cur))` to bucket `id` -/
def bucketAdd (g : St) (id : Nat) (cur : Energy) : St :=
  let b := g.buckets id
  { g with buckets := upd g.buckets id ⟨b.tokens + cur.totalLocked, b.surplus + surplusFor cur⟩ }

/-- `reallocate_bucket_after_energy_update(original_prev, depleted_prev, current)`:
    the bucket is found with the DEPLETED previous energy, what is removed is computed from the
    ORIGINAL previous energy. -/
def reallocate (g : St) (origPrev depPrev cur : Energy) : Option (St × BucketPair) := do
  let optPrev := bucketIdFor g.firstBucketId depPrev
  let g1 ← match optPrev with
    | some id => bucketRemove g id origPrev
    | none => some g
  let optCur := bucketIdFor g1.firstBucketId cur
  let g2 := match optCur with
    | some id => bucketAdd g1 id cur
    | none => g1
  pure (g2, ⟨optPrev, optCur⟩)

/-! ### Global info (global_info.rs) -/

/-- `perform_weekly_update(current_week)`: nothing in the same week; the very first call only
    records the week; otherwise totals of the last updated week are carried to the current week
    through `week_diff` bucket shifts (`totalLockedTokensForWeek(last)` is TAKEN, the energy of
    the last week stays readable), and the entries of week `current − 5` are cleared. -/
def performWeeklyUpdate (g : St) (W : Nat) : Option St :=
  if g.lastGlobalUpdateWeek = W then some g
  else if g.lastGlobalUpdateWeek = 0 then some { g with lastGlobalUpdateWeek := W }
  else do
    let last := g.lastGlobalUpdateWeek
    req (last ≤ W)
    let t0 : Totals := ⟨g.totalLocked last, g.totalEnergy last⟩
    let g0 := { g with lastGlobalUpdateWeek := W, totalLocked := upd g.totalLocked last 0 }
    let r ← shiftN (W - last) g0 t0
    let g1 := { r.1 with totalEnergy := upd r.1.totalEnergy W r.2.energy,
                         totalLocked := upd r.1.totalLocked W r.2.tokens }
    if USER_MAX_CLAIM_WEEKS + 1 < W then
      let w := W - USER_MAX_CLAIM_WEEKS - 1
      pure { g1 with totalRewards := upd g1.totalRewards w [],
                     totalEnergy := upd g1.totalEnergy w 0 }
    else pure g1

/-- the previous energy as the global totals currently carry it: depleted by whole weeks from
    its own `last_update_epoch` (`update_global_amounts_for_current_week`, first block). -/
def depletedPrev (prev : Energy) (W lastActive : Nat) : Energy :=
  if W ≠ lastActive then prev.deplete (prev.lastUpdateEpoch + (W - lastActive) * EPOCHS_IN_WEEK)
  else prev

/-- `update_and_get_total_tokens_amounts_after_user_energy_update`: the four presence cases. -/
def updateTotalTokens (g : St) (W : Nat) (bp : BucketPair) (depPrev cur : Energy) : Option St :=
  let tl := g.totalLocked W
  match bp.prev, bp.cur with
  | some _, some _ => do
      let v ← sub? (tl + cur.totalLocked) depPrev.totalLocked
      pure { g with totalLocked := upd g.totalLocked W v }
  | some _, none => do
      let v ← sub? tl depPrev.totalLocked
      pure { g with totalLocked := upd g.totalLocked W v }
  | none, some _ => some { g with totalLocked := upd g.totalLocked W (tl + cur.totalLocked) }
  | none, none => some g

/-- `update_and_get_total_energy_amounts_after_user_energy_update`: subtract first (checked), then add. -/
def updateTotalEnergy (g : St) (W : Nat) (depPrev cur : Energy) : Option St := do
  let v ← sub? (g.totalEnergy W) depPrev.getEnergyAmount
  pure { g with totalEnergy := upd g.totalEnergy W (v + cur.getEnergyAmount) }

/-- `update_global_amounts_for_current_week(current_week, user_last_active_week, prev, cur)` -/
def updateGlobal (g : St) (W lastActive : Nat) (prev cur : Energy) : Option St := do
  let g1 ← performWeeklyUpdate g W
  req (lastActive ≤ W)
  let depPrev := depletedPrev prev W lastActive
  let r ← reallocate g1 prev depPrev cur
  let g2 ← updateTotalTokens r.1 W r.2 depPrev cur
  updateTotalEnergy g2 W depPrev cur

/-! ### User energy updates (update_claim_progress_energy.rs) -/

/-- `update_user_energy_for_current_week(user, week, current_energy, opt_existing_progress)`:
    a missing progress entry counts as `(week 0, Energy::default())`. -/
def updateUserEnergyForCurrentWeek (g : St) (W : Nat) (cur : Energy)
    (existing : Option ClaimProgress) : Option St :=
  match existing with
  | some p => updateGlobal g W p.week p.energy cur
  | none => updateGlobal g W 0 Energy.zero cur

/-- write / clear `currentClaimProgress(user)`, keeping the ghost key list -/
def setProgress (g : St) (user : Nat) (p : Option ClaimProgress) : St :=
  { g with progress := upd g.progress user p,
           users := if p.isSome ∧ user ∉ g.users then g.users ++ [user] else g.users }

/-- `update_energy_and_progress(caller)`; `cur` = `get_energy_entry(caller)` (see `Energy.queried`). -/
def updateEnergyAndProgress (g : St) (user W : Nat) (cur : Energy) : Option St := do
  let g1 ← updateUserEnergyForCurrentWeek g W cur (g.progress user)
  pure (setProgress g1 user (if 0 < cur.getEnergyAmount then some ⟨cur, W⟩ else none))

/-- endpoint `updateEnergyForUser(user)`: only for a user without progress or whose progress is
    already at the current week. -/
def updateEnergyForUser (g : St) (user W : Nat) (cur : Energy) : Option St := do
  match g.progress user with
    | some p => req (p.week = W)
    | none => pure ()
  updateEnergyAndProgress g user W cur

/-- `clear_user_energy(user, remaining_farm_amount, min_farm_amount)` (farms): if the position
    fell below the minimum, the user's energy is replaced by zero and the progress cleared. -/
def clearUserEnergy (g : St) (user W epoch : Nat) (remaining minFarm : Nat) : Option St :=
  if minFarm ≤ remaining then some g
  else do
    let g1 ← updateUserEnergyForCurrentWeek g W (Energy.newZero epoch) (g.progress user)
    pure (setProgress g1 user none)

/-! ### Rewards (base_impl.rs) -/

/-- What a contract plugs in: its own state `σ` is threaded next to the module state.
    `RewardFn σ` = `get_user_rewards_for_week(week, user_energy_amount, total_energy)`. -/
abbrev RewardFn (σ : Type) := St → σ → Nat → Nat → Nat → Option (St × σ × List (Tok × Nat))

/-- `collect_rewards_for_week(week)` of the contract: takes the week's rewards out of the
    contract's own accumulation. -/
abbrev CollectFn (σ : Type) := σ → Nat → σ × List (Tok × Nat)

/-- `collect_and_get_rewards_for_week`: the first call for a week freezes the collected list in
    `totalRewardsForWeek(week)`; an EMPTY collected list leaves the mapper empty, so the next
    call collects again. -/
def collectAndGet {σ : Type} (collect : CollectFn σ) (g : St) (c : σ) (week : Nat) :
    St × σ × List (Tok × Nat) :=
  if (g.totalRewards week).isEmpty then
    let r := collect c week
    ({ g with totalRewards := upd g.totalRewards week r.2 }, r.1, r.2)
  else (g, c, g.totalRewards week)

/-- the share of one reward entry: `⌊amount · energy / totalEnergy⌋` -/
def share (amount energy totalEnergy : Nat) : Nat := amount * energy / totalEnergy

/-- entries with a zero share are dropped -/
def sharesOf (total : List (Tok × Nat)) (energy totalEnergy : Nat) : List (Tok × Nat) :=
  (total.map fun p => (p.1, share p.2 energy totalEnergy)).filter fun p => p.2 ≠ 0

/-- DEFAULT `get_user_rewards_for_week` (used by the fees collector): nothing — and nothing
    collected — when the user's energy or the total energy is 0; else the share of every entry. -/
def defaultRewards {σ : Type} (collect : CollectFn σ) : RewardFn σ :=
  fun g c week energy totalEnergy =>
    if energy = 0 ∨ totalEnergy = 0 then some (g, c, [])
    else
      let r := collectAndGet collect g c week
      some (r.1, r.2.1, sharesOf r.2.2 energy totalEnergy)

/-! ### claim_multi (lib.rs) -/

/-- loop state of `claim_multi` -/
structure ClaimAcc (σ : Type) where
  g : St
  c : σ
  p : ClaimProgress
  rewards : List (Tok × Nat)

/-- `claim_single`: rewards of `progress.week` with the progress' own (already advanced) energy
    against `totalEnergyForWeek(progress.week)`, then advance the progress by one week. -/
def claimSingle {σ : Type} (rw : RewardFn σ) (a : ClaimAcc σ) : Option (ClaimAcc σ) := do
  let total := a.g.totalEnergy a.p.week
  let r ← rw a.g a.c a.p.week a.p.energy.getEnergyAmount total
  pure { g := r.1, c := r.2.1, p := a.p.advanceWeek, rewards := a.rewards ++ r.2.2 }

def claimLoop {σ : Type} (rw : RewardFn σ) : Nat → ClaimAcc σ → Option (ClaimAcc σ)
  | 0, a => some a
  | n + 1, a => (claimSingle rw a).bind (claimLoop rw n)

/-- `claim_multi(wrapper, user)`.
    `W` = current week, `cur` = `get_energy_entry(user)` (factory entry depleted to the current
    epoch).  Order as in the code: global update with the stored progress (or none for a new
    user) FIRST, then skip the weeks beyond the last four, then claim up to four weeks, then
    progress := `(cur, W)` — cleared when `cur` has no energy. -/
def claimMulti {σ : Type} (rw : RewardFn σ) (g : St) (c : σ) (user W : Nat) (cur : Energy) :
    Option (St × σ × List (Tok × Nat)) := do
  let stored := g.progress user
  let p0 : ClaimProgress := match stored with
    | some p => p
    | none => ⟨cur, W⟩
  let g1 ← updateUserEnergyForCurrentWeek g W cur stored
  req (p0.week ≤ W)
  let totalWeeks := W - p0.week
  let p1 := if USER_MAX_CLAIM_WEEKS < totalWeeks
    then p0.advanceMultipleWeeks (totalWeeks - USER_MAX_CLAIM_WEEKS) else p0
  let a ← claimLoop rw (min totalWeeks USER_MAX_CLAIM_WEEKS) ⟨g1, c, p1, []⟩
  let g2 := setProgress a.g user (if 0 < cur.getEnergyAmount then some ⟨cur, W⟩ else none)
  pure (g2, a.c, a.rewards)

/-! ### Views (lib.rs) -/

/-- `getLastActiveWeekForUser` -/
def lastActiveWeekForUser (g : St) (user : Nat) : Nat :=
  match g.progress user with
  | some p => p.week
  | none => 0

/-- `getUserEnergyForWeek(user, week)` -/
def userEnergyForWeek (g : St) (user week : Nat) : Option Energy :=
  match g.progress user with
  | some p => if p.week = week then some p.energy else none
  | none => none

end Mx.Weekly
