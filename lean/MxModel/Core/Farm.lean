/-
  Model of the farm engine: `dex/farm` (kind `mint`) and `dex/farm-with-locked-rewards`
  (kind `noMint`, rewards are locked through the energy factory; the farm's reward counters are
  pure accounting).  Imports only Core/Arith and Core/Weekly.

  Transcribed from
    common/modules/farm/contexts/src/storage_cache.rs      StorageCache = read at start, write back on drop
    common/modules/farm/farm_base_impl/src/*.rs            generate / calculate_rewards / enter / claim / compound / exit,
                                                           check_and_update_user_farm_position
    common/common_structs/src/farm_types.rs                FarmTokenAttributes: into_part, merge_with
    common/modules/math, common/traits/fixed-supply-token  weighted_average_round_up, rule_of_three
    common/modules/utils                                   merge_attributes_from_payments, merge_from_payments_and_burn
    dex/farm/src/{lib,base_functions,external_interaction,exit_penalty}.rs
    dex/farm-with-locked-rewards/src/{lib,external_interaction}.rs
    energy-integration/farm-boosted-yields/src/{lib,boosted_yields_factors}.rs
    energy-integration/common-modules/weekly-rewards-splitting (through Core/Weekly.lean)
    energy-integration/energy-factory-mock, locked-asset/energy-factory/src/virtual_lock.rs (lockVirtual: energy effect)
    dex/permissions-hub, common/modules/{sc_whitelist_module,permissions_hub_module,original_owner_helper,pausable}

  Conventions (CONTRIBUTING.md): `BigUint` = `Nat`; a failed transaction is `none`; every `require!`
  is `req`; every checked subtraction `sub?`; every division by a possibly-zero value is guarded.
  The storage cells `reward_reserve`, `reward_per_share`, `farm_token_supply` are only touched
  through `Cache` inside the endpoints that create a `StorageCache` (`Cache.read` … `Cache.drop`):
  a direct write to `St.reserve` between the two would be overwritten by `drop`, exactly as in
  the code (DESIGN.md finding F1, fixed by /repo commit adb7e0d — `claimBoosted` below subtracts
  from the cache).

  Addresses are `Nat`: users `1 … n`, the owner/admin is `OWNER`.
  Not modelled: events, gas, the ESDT system SC issue flow, legacy position migration
  (`farm_position_migration_nonce` is 1, so no position is "old"), a configured pair address for
  penalty burning (penalties are burned locally), `allowExternalClaim` (never settable), u64 overflow.
-/
import MxModel.Core.Arith
import MxModel.Core.Weekly

namespace Mx.Farm

open Mx.Weekly (upd Energy ClaimProgress)

/-- `MAX_PERCENT` -/
def MAXPCT : Nat := 10000
/-- address of the owner (has OWNER | ADMIN | PAUSE permissions) -/
def OWNER : Nat := 100
/-- `EPOCHS_PER_MONTH` of the energy factory -/
def EPOCHS_PER_MONTH : Nat := 30
/-- `MAX_MINIMUM_FARMING_EPOCHS` -/
def MAX_MIN_EPOCHS : Nat := 30
/-- role number of the reward token in reward lists -/
def REW : Nat := 0

inductive Kind | mint | noMint
  deriving DecidableEq, Repr

/-! ### Position-token attributes (`FarmTokenAttributes`) -/

structure Attr where
  /-- `reward_per_share` at creation / last settlement -/
  rps : Nat
  /-- `entering_epoch` -/
  epoch : Nat
  /-- `compounded_reward` -/
  comp : Nat
  /-- `current_farm_amount` -/
  amt : Nat
  /-- `original_owner` -/
  owner : Nat
  deriving DecidableEq, Repr, Inhabited

/-- `FixedSupplyToken::into_part(payment_amount)`: the whole token for the full amount, otherwise the
    compounded reward is scaled by the rule of three (floor); index, epoch, owner unchanged. -/
def Attr.intoPart (a : Attr) (x : Nat) : Option Attr :=
  if x = a.amt then some a
  else do
    req (a.amt ≠ 0)
    pure { a with comp := a.comp * x / a.amt, amt := x }

/-- `Mergeable::merge_with`: index = amount-weighted average rounded UP, amounts and compounded add,
    epoch = max, owner of the left operand. -/
def Attr.mergeWith (a b : Attr) : Option Attr := do
  req (a.amt + b.amt ≠ 0)
  pure { rps := weightedAvgRoundUp a.rps a.amt b.rps b.amt
         epoch := max a.epoch b.epoch
         comp := a.comp + b.comp
         amt := a.amt + b.amt
         owner := a.owner }

/-! ### Boosted-yields factors (`boosted_yields_factors.rs`) -/

structure Factors where
  maxF : Nat
  cE : Nat
  cF : Nat
  minE : Nat
  minF : Nat
  deriving DecidableEq, Repr, Inhabited

/-- `BoostedYieldsConfig { last_update_week, factors_per_week }`: `ring` has 5 slots, slot 4 is the
    current week's, slot `4 − k` the factors in force `k` weeks before `lastUpdateWeek`. -/
structure BCfg where
  lastUpdateWeek : Nat
  ring : List Factors
  deriving DecidableEq, Repr

def RING : Nat := 5

/-- `BoostedYieldsConfig::new` -/
def BCfg.new (W : Nat) (f : Factors) : BCfg := ⟨W, List.replicate RING f⟩

def BCfg.latest (c : BCfg) : Factors := c.ring.getD (RING - 1) default

/-- `BoostedYieldsConfig::update(current_week, opt_new)` -/
def BCfg.update (c : BCfg) (W : Nat) (new : Option Factors) : Option BCfg := do
  req (c.lastUpdateWeek ≤ W)
  let d := min (W - c.lastUpdateWeek) RING
  if d = 0 then
    match new with
    | some f => pure { c with ring := c.ring.set (RING - 1) f }
    | none => pure c
  else
    let last := c.latest
    pure { lastUpdateWeek := W
           ring := c.ring.drop d ++ List.replicate (d - 1) last ++ [new.getD last] }

/-- `get_factors_for_week(week)`: only for the four weeks before `last_update_week`. -/
def BCfg.factorsForWeek (c : BCfg) (week : Nat) : Option Factors := do
  req (week < c.lastUpdateWeek)
  let off := c.lastUpdateWeek - week
  req (off < RING)
  c.ring[RING - 1 - off]?

/-! ### The part of the farm's storage the weekly-splitting callbacks touch -/

structure BSt where
  /-- `accumulatedRewardsForWeek(week)` -/
  accum : Nat → Nat
  /-- `remainingBoostedRewardsToDistribute(week)` -/
  remaining : Nat → Nat
  /-- `farmSupplyForWeek(week)` -/
  farmSupplyWeek : Nat → Nat
  /-- `boostedYieldsConfig` as stored (`none` = empty mapper) -/
  cfg : Option BCfg
  /-- ghost: boosted cut accumulated into week `w`'s pool so far -/
  cutW : Nat → Nat
  /-- ghost: boosted rewards paid out of week `w`'s pool so far -/
  paidW : Nat → Nat
  /-- ghost: what was moved from week `w`'s pool to the undistributed counter -/
  collW : Nat → Nat

/-- `FarmBoostedYieldsWrapper::collect_rewards_for_week`: store the config updated to the current
    week, take the week's accumulated rewards, set them as the week's remaining pool. -/
def collectBoosted (mem : BCfg) : Weekly.CollectFn BSt := fun c week =>
  let total := c.accum week
  ({ c with cfg := some mem, accum := upd c.accum week 0, remaining := upd c.remaining week total },
   [(REW, total)])

/-- the boosted reward of one week: `min(maxF·R·f/F, (R·cE·e/E + R·cF·f/F)/(cE+cF))` -/
def boostedAmount (fa : Factors) (R f F e E : Nat) : Nat :=
  min (fa.maxF * R * f / F) ((R * fa.cE * e / E + R * fa.cF * f / F) / (fa.cE + fa.cF))

/-- `FarmBoostedYieldsWrapper::get_user_rewards_for_week`.  `mem` = the config updated (in memory) to
    the current week, `userFarm` = the user's total farm position read before the claim. -/
def boostedRewards (mem : BCfg) (userFarm : Nat) : Weekly.RewardFn BSt :=
  fun g c week energy totalEnergy =>
    let F := c.farmSupplyWeek week
    if totalEnergy = 0 ∨ F = 0 then some (g, c, [])
    else do
      let fa ← mem.factorsForWeek week
      if energy < fa.minE ∨ userFarm < fa.minF then pure (g, c, [])
      else
        let r := Weekly.collectAndGet (collectBoosted mem) g c week
        match r.2.2 with
        | [] => pure (r.1, r.2.1, [])
        | [(tok, R)] =>
          if R = 0 then pure (r.1, r.2.1, [])
          else do
            req (fa.cE + fa.cF ≠ 0)
            let u := boostedAmount fa R userFarm F energy totalEnergy
            if u = 0 then pure (r.1, r.2.1, [])
            else do
              let rem ← sub? (r.2.1.remaining week) u
              pure (r.1, { r.2.1 with remaining := upd r.2.1.remaining week rem
                                      paidW := upd r.2.1.paidW week (r.2.1.paidW week + u) }, [(tok, u)])
        | _ => none

/-! ### State -/

structure St where
  kind : Kind
  /-- farming token = reward token (only meaningful for `mint`; enables `compoundRewards`) -/
  sameTok : Bool
  -- configuration
  dsc : Nat
  perBlock : Nat
  produce : Bool
  active : Bool
  /-- `boostedYieldsRewardsPercentage` -/
  pct : Nat
  penaltyPct : Nat
  minFarmingEpochs : Nat
  -- the three cached cells + last reward block
  rps : Nat
  reserve : Nat
  supply : Nat
  lastBlock : Nat
  -- time
  block : Nat
  epoch : Nat
  firstWeekStart : Nat
  -- position tokens
  /-- last created farm-token nonce -/
  lastNonce : Nat
  attrs : Nat → Option Attr
  /-- `hold user nonce` = farm tokens of that nonce in the user's account -/
  hold : Nat → Nat → Nat
  /-- `userTotalFarmPosition(user)` (0 = empty mapper) -/
  userTotal : Nat → Nat
  /-- ghost: the accounts that may hold tokens -/
  users : List Nat
  -- boosted yields
  b : BSt
  undist : Nat
  lastCollect : Nat
  w : Weekly.St
  -- energy factory (mock for `mint`, real factory for `noMint`)
  energy : Nat → Option Energy
  lockEpochs : Nat
  -- access
  /-- permissions hub: `(user, authorised address)` -/
  hubWl : List (Nat × Nat)
  hubBl : List Nat
  /-- `scWhitelistAddresses` -/
  scWl : List Nat
  -- ghost: real balances of the farm contract and cumulative counters
  balFarming : Nat
  balReward : Nat
  generated : Nat
  paid : Nat
  paidBase : Nat
  paidBoosted : Nat
  /-- Σ over settled intervals of the base share `perBlock·Δblocks − boosted cut` -/
  baseBudget : Nat
  penaltyBurned : Nat

/-- result of an operation -/
structure Out where
  /-- nonce and amount of the farm token created (0 0 = none) -/
  nonce : Nat := 0
  amt : Nat := 0
  /-- reward payment (base + boosted, or boosted only) -/
  rew : Nat := 0
  /-- farming tokens paid out (exit) -/
  farming : Nat := 0
  /-- ghost split of `rew` -/
  base : Nat := 0
  boosted : Nat := 0
  deriving DecidableEq, Repr

def BSt.init : BSt :=
  { accum := fun _ => 0, remaining := fun _ => 0, farmSupplyWeek := fun _ => 0, cfg := none
    cutW := fun _ => 0, paidW := fun _ => 0, collW := fun _ => 0 }

def init (kind : Kind) (sameTok : Bool) (dsc perBlock : Nat) (produce : Bool) (users : List Nat)
    (epoch0 : Nat) : St :=
  { kind := kind, sameTok := sameTok, dsc := dsc, perBlock := perBlock, produce := produce
    active := true, pct := 0, penaltyPct := 100, minFarmingEpochs := 3
    rps := 0, reserve := 0, supply := 0, lastBlock := 0
    block := 0, epoch := epoch0, firstWeekStart := epoch0
    lastNonce := 0, attrs := fun _ => none, hold := fun _ _ => 0, userTotal := fun _ => 0
    users := users
    b := BSt.init, undist := 0, lastCollect := 0, w := Weekly.St.init
    energy := fun _ => none, lockEpochs := 360
    hubWl := [], hubBl := [], scWl := []
    balFarming := 0, balReward := 0, generated := 0, paid := 0, paidBase := 0, paidBoosted := 0
    baseBudget := 0, penaltyBurned := 0 }

/-- `get_current_week()` -/
def St.week (s : St) : Option Nat := Weekly.weekOf s.epoch s.firstWeekStart

def St.isAdmin (_s : St) (caller : Nat) : Bool := caller = OWNER

/-! ### StorageCache -/

structure Cache where
  reserve : Nat
  rps : Nat
  supply : Nat
  deriving DecidableEq, Repr

/-- `StorageCache::new` -/
def Cache.read (s : St) : Cache := ⟨s.reserve, s.rps, s.supply⟩

/-- `Drop for StorageCache`: the three mutable cells are written back unconditionally. -/
def Cache.drop (s : St) (c : Cache) : St :=
  { s with reserve := c.reserve, rps := c.rps, supply := c.supply }

/-! ### Reward generation (`mint_per_block_rewards`, `generate_aggregated_rewards`, `take_reward_slice`) -/

/-- `take_reward_slice(full)`: returns the boosted cut; the cut is added to the current week's pool. -/
def takeRewardSlice (s : St) (full : Nat) : Option (St × Nat) :=
  if s.pct = 0 then some (s, 0)
  else
    let cut := full * s.pct / MAXPCT
    if cut = 0 then some (s, 0)
    else do
      let W ← s.week
      pure ({ s with b := { s.b with accum := upd s.b.accum W (s.b.accum W + cut)
                                     cutW := upd s.b.cutW W (s.b.cutW W + cut) } }, cut)

/-- `generate_aggregated_rewards` of `Wrapper` / `NoMintWrapper` on a live cache. -/
def generate (s : St) (c : Cache) : Option (St × Cache) :=
  if s.lastBlock < s.block then
    let minted := if s.produce then s.perBlock * (s.block - s.lastBlock) else 0
    let s1 := { s with lastBlock := s.block }
    if minted = 0 then some (s1, c)
    else do
      let s2 := { s1 with generated := s1.generated + minted
                          balReward := if s1.kind = .mint then s1.balReward + minted else s1.balReward }
      let c1 := { c with reserve := c.reserve + minted }
      let (s3, cut) ← takeRewardSlice s2 minted
      let base ← sub? minted cut
      let s4 := { s3 with baseBudget := s3.baseBudget + base }
      if c1.supply = 0 then pure (s4, c1)
      else pure (s4, { c1 with rps := c1.rps + base * s4.dsc / c1.supply })
  else some (s, c)

/-- `DefaultFarmWrapper::calculate_rewards`: `⌊amount·(rps − rps_token)/dsc⌋`, 0 if the token's index is not below. -/
def baseReward (dsc rpsNow : Nat) (amount rpsTok : Nat) : Nat :=
  if rpsTok < rpsNow then amount * (rpsNow - rpsTok) / dsc else 0

/-! ### Boosted claim (`claim_boosted_yields_rewards`, `claim_multi`) -/

def sumRewards (l : List (Weekly.Tok × Nat)) : Nat := (l.map (·.2)).sum

/-- `update_energy_and_progress(user)` -/
def updateEnergyAndProgress (s : St) (user : Nat) : Option St := do
  let W ← s.week
  let cur := Energy.queried (s.energy user) s.epoch
  let g ← Weekly.updateEnergyAndProgress s.w user W cur
  pure { s with w := g }

/-- `Wrapper::calculate_boosted_rewards(user)` = `claim_boosted_yields_rewards`: no config ⇒ reward 0,
    but the user's energy and claim progress are still moved to the current week
    (`update_energy_and_progress(user)`, the repair of finding F6); otherwise
    `claim_multi` with the user's total farm position read now. -/
def claimBoostedYields (s : St) (user : Nat) : Option (St × Nat) :=
  match s.b.cfg with
  | none => (updateEnergyAndProgress s user).map fun s' => (s', 0)
  | some cfg => do
    let W ← s.week
    let mem ← cfg.update W none
    let cur := Energy.queried (s.energy user) s.epoch
    let r ← Weekly.claimMulti (boostedRewards mem (s.userTotal user)) s.w s.b user W cur
    pure ({ s with w := r.1, b := r.2.1 }, sumRewards r.2.2)

/-! ### Paying rewards out -/

/-- energy-factory `lockVirtual(amount, lock_epochs, dest, energy_address)`: the entry of
    `energy_address` is depleted to now, gains `amount·(unlock − now)` and `amount` locked tokens. -/
def lockVirtual (s : St) (energyUser amount : Nat) : Option St := do
  let unlock := (s.epoch + s.lockEpochs) - (s.epoch + s.lockEpochs) % EPOCHS_PER_MONTH
  req (s.epoch < unlock)
  let e := Energy.queried (s.energy energyUser) s.epoch
  let e' : Energy := { amount := e.amount + ((amount * (unlock - s.epoch) : Nat) : Int)
                       lastUpdateEpoch := e.lastUpdateEpoch
                       totalLocked := e.totalLocked + amount }
  pure { s with energy := upd s.energy energyUser (some e') }

/-- `send_payment_non_zero` of the reward token (farm) / `send_to_lock_contract_non_zero` (fwlr);
    `base`/`boosted` only split the ghost counters. -/
def payReward (s : St) (energyUser base boosted : Nat) : Option St := do
  let amount := base + boosted
  let s1 := { s with paid := s.paid + amount, paidBase := s.paidBase + base
                     paidBoosted := s.paidBoosted + boosted }
  if amount = 0 then pure s1
  else match s.kind with
    | .mint => do
        let bal ← sub? s1.balReward amount
        pure { s1 with balReward := bal }
    | .noMint => lockVirtual s1 energyUser amount

/-- pay only in farms of kind `k` (the two contracts pay the boosted part of `enterFarm` at different points) -/
def payRewardIf (s : St) (k : Kind) (energyUser base boosted : Nat) : Option St :=
  if s.kind = k then payReward s energyUser base boosted else some s

/-- `claim_only_boosted_payment(caller)`: boosted rewards, subtracted from `reward_reserve` DIRECTLY
    in storage (only called while no cache is alive). -/
def claimOnlyBoostedPayment (s : St) (user : Nat) : Option (St × Nat) := do
  let (s1, r) ← claimBoostedYields s user
  if r = 0 then pure (s1, 0)
  else do
    let res ← sub? s1.reserve r
    pure ({ s1 with reserve := res }, r)

/-! ### Position bookkeeping -/

/-- debit the caller's account with the farm-token payments, in order (ESDT multi-transfer). -/
def takePayments (s : St) (caller : Nat) : List (Nat × Nat) → Option St
  | [] => some s
  | (n, a) :: rest => do
      req (a ≠ 0)
      req ((s.attrs n).isSome)
      let h ← sub? (s.hold caller n) a
      takePayments { s with hold := upd s.hold caller (upd (s.hold caller) n h) } caller rest

/-- `decrease_user_farm_position`: the recorded owner's total loses the amount (cleared if `≤`). -/
def decreaseOwner (s : St) (owner amount : Nat) : St :=
  { s with userTotal := upd s.userTotal owner (s.userTotal owner - amount) }

def increaseUser (s : St) (user amount : Nat) : St :=
  { s with userTotal := upd s.userTotal user (s.userTotal user + amount) }

/-- the farming tokens of an `enterFarm` arrive in the contract -/
def addFarming (s : St) (amt : Nat) : St := { s with balFarming := s.balFarming + amt }

/-- `amt` farming tokens leave the contract (paid to the user, `pen` of them burned as penalty) -/
def removeFarming (s : St) (amt pen : Nat) : Option St := do
  let bal ← sub? s.balFarming amt
  pure { s with balFarming := bal, penaltyBurned := s.penaltyBurned + pen }

/-- a compounded reward stays in the contract: it moves from the reward part of the balance to the
    farming part and counts as paid -/
def compoundMove (s : St) (base boosted : Nat) : Option St := do
  let bal ← sub? s.balReward (base + boosted)
  pure { s with balReward := bal, balFarming := s.balFarming + (base + boosted)
                paid := s.paid + (base + boosted), paidBase := s.paidBase + base
                paidBoosted := s.paidBoosted + boosted }

/-- `check_and_update_user_farm_position(user, payments)` -/
def checkAndUpdate (s : St) (user : Nat) : List (Nat × Nat) → Option St
  | [] => some s
  | (n, a) :: rest => do
      let att ← s.attrs n
      let s1 := if att.owner ≠ user then increaseUser (decreaseOwner s att.owner a) user a else s
      checkAndUpdate s1 user rest

/-- `merge_attributes_from_payments(base, payments)` -/
def mergeParts (s : St) (base : Attr) : List (Nat × Nat) → Option Attr
  | [] => some base
  | (n, a) :: rest => do
      let att ← s.attrs n
      let part ← att.intoPart a
      let m ← base.mergeWith part
      mergeParts s m rest

/-- `nft_create(amount, attributes)` + send to `to` -/
def createToken (s : St) (to : Nat) (a : Attr) : Option (St × Nat) := do
  req (a.amt ≠ 0)
  let n := s.lastNonce + 1
  pure ({ s with lastNonce := n, attrs := upd s.attrs n (some a)
                 hold := upd s.hold to (upd (s.hold to) n (s.hold to n + a.amt)) }, n)

/-- `set_farm_supply_for_current_week(supply)` -/
def setFarmSupplyWeek (s : St) (supply : Nat) : Option St := do
  let W ← s.week
  pure { s with b := { s.b with farmSupplyWeek := upd s.b.farmSupplyWeek W supply } }

/-- `get_orig_caller_from_opt` -/
def origCaller (s : St) (caller : Nat) (opt : Option Nat) : Option Nat :=
  match opt with
  | some o => do
      req (caller ∈ s.scWl)
      pure o
  | none => some caller

/-- permissions hub `isWhitelisted(user, caller)` -/
def hubAllows (s : St) (user caller : Nat) : Bool :=
  !(s.hubBl.contains caller) && s.hubWl.contains (user, caller)

/-! ### Endpoints -/

/-- common body of `enterFarm` / `enterFarmOnBehalf` after the caller checks:
    boosted claim for `orig` (direct reserve write, no cache alive), then `enter_farm_base`.
    Token goes to `tokenTo`; the boosted reward to `rewTo` (its energy address is `orig`). -/
def enterCore (s : St) (caller orig tokenTo : Nat) (amt : Nat) (extra : List (Nat × Nat)) :
    Option (St × Out) := do
  req (amt ≠ 0)
  let s0 ← takePayments s caller extra
  let (s1, boosted) ← claimOnlyBoostedPayment (addFarming s0 amt) orig
  -- fwlr locks the boosted part before entering; farm sends it afterwards: same net effect on the farm,
  -- but the energy of `orig` changes before `update_energy_and_progress` in fwlr
  let s1 ← payRewardIf s1 .noMint orig 0 boosted
  let c := Cache.read s1
  req s1.active
  let s2 ← checkAndUpdate s1 orig extra
  let s3 := increaseUser s2 orig amt
  let (s4, c1) ← generate s3 c
  let c2 := { c1 with supply := c1.supply + amt }
  let base : Attr := { rps := c2.rps, epoch := s4.epoch, comp := 0, amt := amt, owner := orig }
  let merged ← mergeParts s4 base extra
  let (s5, n) ← createToken s4 tokenTo merged
  let s6 ← setFarmSupplyWeek s5 c2.supply
  let s7 := Cache.drop s6 c2
  let s8 ← payRewardIf s7 .mint orig 0 boosted
  let s9 ← updateEnergyAndProgress s8 orig
  pure (s9, { nonce := n, amt := merged.amt, rew := boosted, boosted := boosted })

/-- `enterFarm(opt_orig_caller)` with payments `[farming amt] ++ extra farm tokens` -/
def enterFarm (s : St) (caller : Nat) (opt : Option Nat) (amt : Nat) (extra : List (Nat × Nat)) :
    Option (St × Out) := do
  let orig ← origCaller s caller opt
  enterCore s caller orig caller amt extra

/-- every farm-token payment must record `user` as original owner (only checked when there is more
    than one payment) -/
def allOwnedBy (s : St) (user : Nat) : List (Nat × Nat) → Bool
  | [] => true
  | (n, _) :: rest => (match s.attrs n with
      | some a => a.owner = user
      | none => false) && allOwnedBy s user rest

/-- `enterFarmOnBehalf(user)`: new token to the caller, boosted rewards to `user`. -/
def enterFarmOnBehalf (s : St) (caller user : Nat) (amt : Nat) (extra : List (Nat × Nat)) :
    Option (St × Out) := do
  req (hubAllows s user caller)
  req (allOwnedBy s user extra)
  enterCore s caller user caller amt extra

/-- the end of `claimRewards` (pay the reward out) / of `compoundRewards` (the reward stays in the
    contract as farming tokens; `update_energy_and_progress`) -/
def claimTail (s : St) (compound : Bool) (orig base boosted : Nat) : Option St :=
  if compound then (compoundMove s base boosted).bind fun s1 => updateEnergyAndProgress s1 orig
  else payReward s orig base boosted

/-- `claim_rewards_base` + endpoint tail; `compound = true` is `compound_rewards_base`. -/
def claimCore (s : St) (caller orig : Nat) (pays : List (Nat × Nat)) (compound : Bool) :
    Option (St × Out) := do
  let (n1, a1) ← pays.head?
  let s0 ← takePayments s caller pays
  let c := Cache.read s0
  req s0.active
  req (compound = true → s0.sameTok = true)
  let at1 ← s0.attrs n1
  let (s1, c1) ← generate s0 c
  let part ← at1.intoPart a1
  let base := baseReward s1.dsc c1.rps a1 part.rps
  let (s2, boosted) ← claimBoostedYields s1 orig
  let reward := base + boosted
  let res ← sub? c1.reserve reward
  let c2 : Cache := { c1 with reserve := res, supply := if compound then c1.supply + reward else c1.supply }
  let s3 ← checkAndUpdate s2 orig pays
  let baseAttr : Attr :=
    if compound then
      { rps := c2.rps, epoch := s3.epoch, comp := part.comp + reward, amt := part.amt + reward, owner := orig }
    else
      { rps := c2.rps, epoch := part.epoch, comp := part.comp, amt := part.amt, owner := orig }
  let merged ← mergeParts s3 baseAttr pays.tail
  let s4 := if compound then increaseUser s3 orig reward else s3
  let (s5, n) ← createToken s4 caller merged
  let s6 ← setFarmSupplyWeek s5 c2.supply
  let s7 := Cache.drop s6 c2
  let s8 ← claimTail s7 compound orig base boosted
  pure (s8, { nonce := n, amt := merged.amt, rew := reward, base := base, boosted := boosted })

/-- `claimRewards(opt_orig_caller)` -/
def claimRewards (s : St) (caller : Nat) (opt : Option Nat) (pays : List (Nat × Nat)) :
    Option (St × Out) := do
  let orig ← origCaller s caller opt
  claimCore s caller orig pays false

/-- `get_claim_original_owner`: all payments record the same, non-zero owner -/
def claimOwner (s : St) : List (Nat × Nat) → Option Nat
  | [] => none
  | (n, _) :: rest => do
      let a ← s.attrs n
      match rest with
      | [] => pure a.owner
      | _ => do
          let o ← claimOwner s rest
          req (o = a.owner)
          pure o

/-- `claimRewardsOnBehalf`: the user is the recorded owner of the payments; new token to the caller,
    rewards to the user. -/
def claimRewardsOnBehalf (s : St) (caller : Nat) (pays : List (Nat × Nat)) : Option (St × Out) := do
  -- the payments have to arrive before their attributes can be read
  let _ ← takePayments s caller pays
  let user ← claimOwner s pays
  req (hubAllows s user caller)
  claimCore s caller user pays false

/-- `compoundRewards(opt_orig_caller)` (dex/farm only) -/
def compoundRewards (s : St) (caller : Nat) (opt : Option Nat) (pays : List (Nat × Nat)) :
    Option (St × Out) := do
  req (s.kind = .mint)
  let orig ← origCaller s caller opt
  claimCore s caller orig pays true

/-- `get_exit_penalty` -/
def exitPenalty (s : St) (amount enteringEpoch : Nat) : Option Nat := do
  let d ← sub? s.epoch enteringEpoch
  if s.minFarmingEpochs ≤ d then pure 0 else pure (amount * s.penaltyPct / MAXPCT)

/-- `clear_user_energy_if_needed(orig)` -/
def clearUserEnergyIfNeeded (s : St) (orig : Nat) : Option St :=
  match s.b.cfg with
  | none => some s
  | some cfg => do
      let W ← s.week
      let mem ← cfg.update W none
      let g ← Weekly.clearUserEnergy s.w orig W s.epoch (s.userTotal orig) mem.latest.minF
      pure { s with w := g }

/-- `exitFarm(opt_orig_caller)` with one farm-token payment -/
def exitFarm (s : St) (caller : Nat) (opt : Option Nat) (n a : Nat) : Option (St × Out) := do
  let orig ← origCaller s caller opt
  let s0 ← takePayments s caller [(n, a)]
  let c := Cache.read s0
  req s0.active
  let att ← s0.attrs n
  let (s1, c1) ← generate s0 c
  let part ← att.intoPart a
  let base := baseReward s1.dsc c1.rps a part.rps
  let (s2, boosted) ← claimBoostedYields s1 orig
  let reward := base + boosted
  let res ← sub? c1.reserve reward
  let s3 := decreaseOwner s2 att.owner a
  let sup ← sub? c1.supply part.amt
  let c2 : Cache := { c1 with reserve := res, supply := sup }
  let s4 ← setFarmSupplyWeek s3 c2.supply
  let pen ← exitPenalty s4 part.amt part.epoch
  let out ← sub? part.amt pen
  let s6 ← removeFarming (Cache.drop s4 c2) part.amt pen
  let s7 ← payReward s6 orig base boosted
  let s8 ← clearUserEnergyIfNeeded s7 orig
  pure (s8, { rew := reward, farming := out, base := base, boosted := boosted })

/-- `merge_from_payments_and_burn` -/
def mergeAll (s : St) : List (Nat × Nat) → Option Attr
  | [] => none
  | (n1, a1) :: rest => do
      let at1 ← s.attrs n1
      let part ← at1.intoPart a1
      mergeParts s part rest

/-- `mergeFarmTokens(opt_orig_caller)`: requires an active contract (fix of F2, /repo 9918e72). -/
def mergeFarmTokens (s : St) (caller : Nat) (opt : Option Nat) (pays : List (Nat × Nat)) :
    Option (St × Out) := do
  req s.active
  let orig ← origCaller s caller opt
  req (pays ≠ [])
  let s0 ← takePayments s caller pays
  let (s1, boosted) ← claimOnlyBoostedPayment s0 orig
  let s2 ← checkAndUpdate s1 orig pays
  let merged ← mergeAll s2 pays
  let (s3, n) ← createToken s2 caller { merged with owner := orig }
  let s4 ← payReward s3 orig 0 boosted
  pure (s4, { nonce := n, amt := merged.amt, rew := boosted, boosted := boosted })

/-- `claimBoostedRewards(opt_user)`; `allowExternalClaim` can never be set, so a foreign user fails. -/
def claimBoostedRewards (s : St) (caller : Nat) (optUser : Option Nat) : Option (St × Out) := do
  let user := optUser.getD caller
  req (user = caller)
  req (s.userTotal user ≠ 0)
  let c := Cache.read s
  req s.active
  let (s1, c1) ← generate s c
  let (s2, boosted) ← claimBoostedYields s1 user
  let res ← sub? c1.reserve boosted
  let c2 := { c1 with reserve := res }
  let s3 ← setFarmSupplyWeek s2 c2.supply
  let s4 ← payReward s3 user 0 boosted
  let s5 := Cache.drop s4 c2
  pure (s5, { rew := boosted, boosted := boosted })

/-! ### Admin -/

/-- cache; generate; drop — what every rate-changing admin endpoint does first -/
def settle (s : St) : Option St := do
  let (s1, c1) ← generate s (Cache.read s)
  pure (Cache.drop s1 c1)

def setPerBlock (s : St) (caller x : Nat) : Option St := do
  req (s.isAdmin caller)
  req (x ≠ 0)
  let s1 ← settle s
  pure { s1 with perBlock := x }

def endProduce (s : St) (caller : Nat) : Option St := do
  req (s.isAdmin caller)
  let s1 ← settle s
  pure { s1 with produce := false }

def startProduce (s : St) (caller : Nat) : Option St := do
  req (s.isAdmin caller)
  req (s.perBlock ≠ 0)
  req (!s.produce)
  pure { s with produce := true, lastBlock := s.block }

def setPct (s : St) (caller p : Nat) : Option St := do
  req (s.isAdmin caller)
  req (p ≤ MAXPCT)
  let s1 ← settle s
  pure { s1 with pct := p }

def setFactors (s : St) (caller : Nat) (f : Factors) : Option St := do
  req (s.isAdmin caller)
  req (0 < f.minE ∧ 0 < f.minF)
  req (0 < f.cE ∨ 0 < f.cF)   -- repair of finding F7: the divisor `cE + cF` of the weekly formula must not be zero
  let W ← s.week
  match s.b.cfg with
  | some cfg => do
      let c' ← cfg.update W (some f)
      pure { s with b := { s.b with cfg := some c' } }
  | none => pure { s with b := { s.b with cfg := some (BCfg.new W f) } }

/-- the loop of `collect_undistributed_boosted_rewards` over weeks `first … first + n − 1` -/
def collectWeeks (b : BSt) (undist : Nat) (first : Nat) : Nat → BSt × Nat
  | 0 => (b, undist)
  | n + 1 =>
      collectWeeks { b with remaining := upd b.remaining first 0
                            collW := upd b.collW first (b.collW first + b.remaining first) }
        (undist + b.remaining first) (first + 1) n

def collectUndistributed (s : St) (caller : Nat) : Option St := do
  req (s.isAdmin caller)
  let W ← s.week
  req (Weekly.USER_MAX_CLAIM_WEEKS + 1 < W)
  let first := s.lastCollect + 1
  let last := W - (Weekly.USER_MAX_CLAIM_WEEKS + 1)
  if last < first then pure s
  else
    let r := collectWeeks s.b s.undist first (last + 1 - first)
    pure { s with b := r.1, undist := r.2, lastCollect := last }

def setActive (s : St) (caller : Nat) (v : Bool) : Option St := do
  req (s.isAdmin caller)
  pure { s with active := v }

def setPenalty (s : St) (caller p : Nat) : Option St := do
  req (s.isAdmin caller)
  req (p < MAXPCT)
  pure { s with penaltyPct := p }

def setMinEpochs (s : St) (caller n : Nat) : Option St := do
  req (s.isAdmin caller)
  req (n ≤ MAX_MIN_EPOCHS)
  pure { s with minFarmingEpochs := n }

/-- endpoint `updateEnergyForUser(user)` (anyone may call it) -/
def updateEnergyForUser (s : St) (user : Nat) : Option St := do
  let W ← s.week
  let cur := Energy.queried (s.energy user) s.epoch
  let g ← Weekly.updateEnergyForUser s.w user W cur
  pure { s with w := g }

/-- plain ESDT transfer of a position token between two accounts -/
def transfer (s : St) (src dst n a : Nat) : Option St := do
  req (a ≠ 0)
  req (src ≠ dst)
  req ((s.attrs n).isSome)
  let h ← sub? (s.hold src n) a
  let s1 := { s with hold := upd s.hold src (upd (s.hold src) n h) }
  pure { s1 with hold := upd s1.hold dst (upd (s1.hold dst) n (s1.hold dst n + a)) }

/-- view `calculateRewardsForGivenPosition(user, amount, attributes)` evaluated as a VM query
    (effects discarded): generate, then base reward of `(amount, attributes.rps)` + boosted of `user`. -/
def calcRewards (s : St) (user amount rpsTok : Nat) : Option Nat := do
  let (s1, c1) ← generate s (Cache.read s)
  let base := baseReward s1.dsc c1.rps amount rpsTok
  let (_, boosted) ← claimBoostedYields s1 user
  pure (base + boosted)

/-! ### Step -/

inductive Op
  | enter (caller : Nat) (orig : Option Nat) (amt : Nat) (extra : List (Nat × Nat))
  | enterOB (caller user amt : Nat) (extra : List (Nat × Nat))
  | claim (caller : Nat) (orig : Option Nat) (pays : List (Nat × Nat))
  | claimOB (caller : Nat) (pays : List (Nat × Nat))
  | compound (caller : Nat) (orig : Option Nat) (pays : List (Nat × Nat))
  | exit (caller : Nat) (orig : Option Nat) (nonce amt : Nat)
  | merge (caller : Nat) (orig : Option Nat) (pays : List (Nat × Nat))
  | claimBoosted (caller : Nat) (user : Option Nat)
  | transfer (src dst nonce amt : Nat)
  | setEnergy (user : Nat) (amount : Int) (last locked : Nat)
  | updateEnergy (user : Nat)
  | setPerBlock (caller x : Nat)
  | startProduce (caller : Nat)
  | endProduce (caller : Nat)
  | setPct (caller p : Nat)
  | setFactors (caller : Nat) (f : Factors)
  | collect (caller : Nat)
  | pause (caller : Nat)
  | resume (caller : Nat)
  | setPenalty (caller p : Nat)
  | setMinEpochs (caller n : Nat)
  | hubWhitelist (user addr : Nat)
  | hubRemove (user addr : Nat)
  | hubBlacklist (addr : Nat)
  | scWhitelist (addr : Nat)
  | scUnwhitelist (addr : Nat)
  | advance (block epoch : Nat)
  | bad

def noOut (r : Option St) : Option (St × Out) := r.map fun s => (s, {})

/-- only accounts of the world (`s.users`) act and hold position tokens -/
def known (s : St) (c : Nat) (r : Option (St × Out)) : Option (St × Out) :=
  if c ∈ s.users then r else none

def step (s : St) : Op → Option (St × Out)
  | .enter c o a e => known s c (enterFarm s c o a e)
  | .enterOB c u a e => known s c (enterFarmOnBehalf s c u a e)
  | .claim c o p => known s c (claimRewards s c o p)
  | .claimOB c p => known s c (claimRewardsOnBehalf s c p)
  | .compound c o p => known s c (compoundRewards s c o p)
  | .exit c o n a => known s c (exitFarm s c o n a)
  | .merge c o p => known s c (mergeFarmTokens s c o p)
  | .claimBoosted c u => known s c (claimBoostedRewards s c u)
  | .transfer a b n x => known s a (known s b (noOut (transfer s a b n x)))
  | .setEnergy u a l t => some ({ s with energy := upd s.energy u (some ⟨a, l, t⟩) }, {})
  | .updateEnergy u => noOut (updateEnergyForUser s u)
  | .setPerBlock c x => noOut (setPerBlock s c x)
  | .startProduce c => noOut (startProduce s c)
  | .endProduce c => noOut (endProduce s c)
  | .setPct c p => noOut (setPct s c p)
  | .setFactors c f => noOut (setFactors s c f)
  | .collect c => noOut (collectUndistributed s c)
  | .pause c => noOut (setActive s c false)
  | .resume c => noOut (setActive s c true)
  | .setPenalty c p => noOut (setPenalty s c p)
  | .setMinEpochs c n => noOut (setMinEpochs s c n)
  | .hubWhitelist u a =>
      if s.hubWl.contains (u, a) then none else some ({ s with hubWl := s.hubWl ++ [(u, a)] }, {})
  | .hubRemove u a =>
      if s.hubWl.contains (u, a) then some ({ s with hubWl := s.hubWl.filter (· ≠ (u, a)) }, {}) else none
  | .hubBlacklist a => some ({ s with hubBl := if s.hubBl.contains a then s.hubBl else s.hubBl ++ [a] }, {})
  | .scWhitelist a =>
      if s.scWl.contains a then none else some ({ s with scWl := s.scWl ++ [a] }, {})
  | .scUnwhitelist a =>
      if s.scWl.contains a then some ({ s with scWl := s.scWl.filter (· ≠ a) }, {}) else none
  | .advance b e =>
      if s.block ≤ b ∧ s.epoch ≤ e then some ({ s with block := b, epoch := e }, {}) else none
  | .bad => none

/-- a history: failed operations leave the state unchanged -/
def run (s : St) (ops : List Op) : St :=
  ops.foldl (fun s o => match step s o with
    | some r => r.1
    | none => s) s

end Mx.Farm
