/-
  Model of the `energy` world: `locked-asset/energy-factory` (+ the `simple-lock` base modules it
  inherits), `token-unstake`, `lkmex-transfer`, `locked-token-wrapper`, and the fees collector
  as the sink of penalty fees.  Import-free.

  Transcribed from: energy-factory/src/{energy,lib,extend_lock,token_merging,unlock_with_penalty,
  penalty,lock_options,lock_options_endpoints,virtual_lock,locked_token_transfer,unstake}.rs,
  simple-lock/src/{basic_lock_unlock,token_attributes}.rs, token-unstake/src/{fees_handler,
  unbond_tokens,cancel_unstake}.rs, lkmex-transfer/src/{lib,energy_transfer}.rs,
  locked-token-wrapper/src/{lib,wrapped_token}.rs, fees-collector/src/fees_accumulation.rs
  (`depositSwapFees` burns locked-token deposits and only counts them).

  A failed transaction is `none` (state unchanged by atomicity).  Every `require!`, every
  checked `BigUint` subtraction and every ESDT balance debit is an explicit guard.

  Addresses are `Nat`s: users are `< SCBASE`; the contracts have fixed addresses `≥ SCBASE`.
  Locked-token nonces are numbered in creation order exactly as the ESDT system does
  (`nonces[k]` = unlock epoch of nonce `k+1`; the attributes are (base asset, 0, unlock epoch),
  so a nonce is determined by its unlock epoch).  Creating a nonce leaves the
  `INITIAL_SFT_AMOUNT = 1` unit with the factory for ever (token_attributes.rs).

  NOT modelled (excluded from C08/C09 by DESIGN.md): legacy/old-token migration
  (`migration.rs`, `lock_by_token_type`'s legacy branch does not exist — legacy tokens only enter
  through `migrateOldTokens`), `adjustUserEnergy` (owner override), `extendLockPeriod`
  (proxy-dex only; same energy arithmetic as `lockTokens` with a locked token).
-/
import MxModel.Core.Arith

namespace Mx.Energy

/-- `EPOCHS_PER_MONTH` -/
def MONTH : Nat := 30
/-- `EPOCHS_PER_YEAR` -/
def YEAR : Nat := 360
/-- `MAX_PENALTY_PERCENTAGE` -/
def MAXPCT : Nat := 10000
/-- `MAX_LOCK_OPTIONS` -/
def MAXOPTS : Nat := 10
/-- `MAX_CLAIM_UNLOCKED_TOKENS` -/
def MAXCLAIM : Nat := 20

/-- addresses `≥ SCBASE` are the contracts of the world -/
def SCBASE : Nat := 200
def FACTORY : Nat := 200
def UNSTAKE : Nat := 201
def TRANSFER : Nat := 202
def WRAPPER : Nat := 203
def COLLECTOR : Nat := 204

/-! ### energy.rs : the lazy linear-decay record -/

structure Entry where
  /-- `amount : BigInt` -/
  E : Int
  /-- `last_update_epoch` -/
  last : Nat
  /-- `total_locked_tokens` -/
  T : Nat
  deriving DecidableEq, Repr

/-- `Energy::new_zero_energy` -/
def Entry.zero (now : Nat) : Entry := ⟨0, now, 0⟩

/-- `Energy::add(future_epoch, current_epoch, amount_per_epoch)` -/
def Entry.add (e : Entry) (future cur amt : Nat) : Entry :=
  if future ≤ cur then e else { e with E := e.E + ((amt * (future - cur) : Nat) : Int) }

/-- `Energy::subtract(past_epoch, current_epoch, amount_per_epoch)` -/
def Entry.subtract (e : Entry) (past cur amt : Nat) : Entry :=
  if cur ≤ past then e else { e with E := e.E - ((amt * (cur - past) : Nat) : Int) }

/-- `Energy::deplete` -/
def Entry.deplete (e : Entry) (now : Nat) : Entry :=
  if e.last = now then e else
  { (if 0 < e.T then e.subtract e.last now e.T else e) with last := now }

/-- `Energy::get_energy_amount` -/
def Entry.amount (e : Entry) : Nat := if 0 < e.E then e.E.toNat else 0

/-- `add_after_token_lock` -/
def Entry.addAfterLock (e : Entry) (amt unlock now : Nat) : Entry :=
  { (e.add unlock now amt) with T := e.T + amt }

/-- `refund_after_token_unlock` (the `BigUint` subtraction of the total aborts on underflow) -/
def Entry.refundAfterUnlock (e : Entry) (amt unlock now : Nat) : Option Entry := do
  let t ← sub? e.T amt
  pure { (e.add now unlock amt) with T := t }

/-- `deplete_after_early_unlock` -/
def Entry.depleteAfterEarly (e : Entry) (amt unlock now : Nat) : Option Entry := do
  let t ← sub? e.T amt
  pure { (e.subtract now unlock amt) with T := t }

/-- `update_after_unlock_any` -/
def Entry.afterUnlockAny (e : Entry) (amt unlock now : Nat) : Option Entry :=
  if unlock < now then e.refundAfterUnlock amt unlock now else e.depleteAfterEarly amt unlock now

/-- the raw branch shared by cancel_unstake.rs and energy_transfer.rs for already-unlockable
    tokens: `add_energy_raw(amt, 0)` + `remove_energy_raw(0, amt·(now − unlock))` -/
def Entry.addExpired (e : Entry) (amt unlock now : Nat) : Entry :=
  { e with E := e.E - ((amt * (now - unlock) : Nat) : Int), T := e.T + amt }

/-- token-unstake `cancelUnbond`: per entry (`unlock_epoch >= current_epoch` takes the lock branch) -/
def Entry.restoreCancel (e : Entry) (amt unlock now : Nat) : Entry :=
  if now ≤ unlock then e.addAfterLock amt unlock now else e.addExpired amt unlock now

/-- lkmex-transfer `add_energy_to_destination`: per token (`unlock_epoch > current_epoch` takes
    the lock branch) -/
def Entry.addDest (e : Entry) (amt unlock now : Nat) : Entry :=
  if now < unlock then e.addAfterLock amt unlock now else e.addExpired amt unlock now

/-! ### lock options, month normalisation, penalty (lock_options.rs, penalty.rs, unlock_with_penalty.rs) -/

/-- a lock option `(lock_epochs, penalty_start_percentage)` -/
abbrev Opt := Nat × Nat

/-- `unlock_epoch_to_start_of_month` -/
def startOfMonth (e : Nat) : Nat := e - e % MONTH

/-- `require_is_listed_lock_option` -/
def isListed (opts : List Opt) (ep : Nat) : Bool := opts.any (fun o => o.1 = ep)

/-- `lock_epochs` of the last (= longest) option -/
def lastEpochs : List Opt → Nat
  | [] => 0
  | [o] => o.1
  | _ :: os => lastEpochs os

/-- `unlock_epoch_to_start_of_month_upper_estimate` -/
def upperEstimate (opts : List Opt) (now unlock : Nat) : Nat :=
  let lower := startOfMonth unlock
  if unlock = lower then lower else
  if lower + MONTH ≤ now then lower + MONTH else
  if lower + MONTH - now ≤ lastEpochs opts then lower + MONTH else lower

/-- the bracket search + interpolation of `calculate_penalty_percentage_full_unlock`, started at the
    implicit option `(e0, p0)`; `none` = remaining epochs beyond the last option ("Invalid lock
    epochs").  For option lists sorted by epochs (the only ones `addLockOptions` stores) this is
    the code's loop: the first bracket `e_i ≤ rem ≤ e_{i+1}`, with `(0, 0)` before the first option. -/
def pctFrom (e0 p0 : Nat) : List Opt → Nat → Option Nat
  | [], _ => none
  | (e1, p1) :: rest, rem =>
      if rem ≤ e1 then some (linInterp e0 e1 rem p0 p1) else pctFrom e1 p1 rest rem

/-- `calculate_penalty_percentage_full_unlock` -/
def pctFull (opts : List Opt) (rem : Nat) : Option Nat := pctFrom 0 0 opts rem

/-- `calculate_penalty_percentage_partial_unlock` (u64 arithmetic: the subtractions are checked,
    a zero divisor aborts) -/
def pctPartial (opts : List Opt) (prev new : Nat) : Option Nat := do
  let pp ← pctFull opts prev
  let pn ← pctFull opts new
  let d ← sub? pp pn
  let den ← sub? MAXPCT pn
  req (den ≠ 0)
  pure (d * MAXPCT / den)

/-- `calculate_penalty_amount` = view `getPenaltyAmount(token_amount, prev_lock_epochs, new_lock_epochs)` -/
def penaltyAmount (opts : List Opt) (amt prev new : Nat) : Option Nat := do
  req (0 < prev)
  req (new < prev)
  req (opts ≠ [])
  let pct ← (if new = 0 then pctFull opts prev else pctPartial opts prev new)
  pure (amt * pct / MAXPCT)

/-! ### lock_options_endpoints.rs -/

def insertOpt (o : Opt) : List Opt → List Opt
  | [] => [o]
  | x :: xs => if o.1 ≤ x.1 then o :: x :: xs else x :: insertOpt o xs

/-- `sort_lock_options` (by `lock_epochs`; duplicates are rejected afterwards, so the result is unique) -/
def sortOpts : List Opt → List Opt
  | [] => []
  | x :: xs => insertOpt x (sortOpts xs)

/-- `require_no_duplicate_lock_epoch_options` -/
def noDupEpochs : List Opt → Bool
  | a :: b :: rest => a.1 ≠ b.1 && noDupEpochs (b :: rest)
  | _ => true

/-- `require_valid_percentages` -/
def strictPcts : List Opt → Bool
  | a :: b :: rest => a.2 < b.2 && strictPcts (b :: rest)
  | _ => true

/-! ### state -/

/-- token-unstake `UnstakePair` -/
structure UEntry where
  unlock : Nat
  nonce : Nat
  locked : Nat
  unlocked : Nat
  deriving DecidableEq, Repr

/-- lkmex-transfer `lockedFunds(receiver, sender)` -/
structure Xfer where
  recv : Nat
  sender : Nat
  epoch : Nat
  funds : List (Nat × Nat)
  deriving DecidableEq, Repr

structure St where
  epoch : Nat
  paused : Bool
  /-- `lockOptions` (sorted) -/
  opts : List Opt
  /-- token-unstake `unbondEpochs`, `feesBurnPercentage` -/
  unbond : Nat
  burnPct : Nat
  /-- lkmex-transfer `minLockEpochs`, `epochsCooldownDuration` -/
  minLock : Nat
  cooldown : Nat
  /-- `scWhitelistAddresses` of the factory -/
  wl : List Nat
  /-- unlock epoch of locked-token nonce `k+1` -/
  nonces : List Nat
  /-- locked-token nonce wrapped by wrapped-token nonce `k+1` -/
  wnonces : List Nat
  /-- `userEnergy` (absent = empty storage) -/
  energy : Nat → Option Entry
  /-- locked-token balances: address → nonce → amount -/
  bal : Nat → Nat → Nat
  /-- wrapped-token balances -/
  wbal : Nat → Nat → Nat
  /-- base-asset balances -/
  base : Nat → Nat
  /-- `unlockedTokensForUser` -/
  queue : Nat → List UEntry
  xfers : List Xfer
  /-- `senderLastTransferEpoch` / `receiverLastTransferEpoch` (absent = empty storage) -/
  sendLast : Nat → Option Nat
  recvLast : Nat → Option Nat
  /- ghosts (each is observable on the real chain state as a sum of balances / a counter) -/
  /-- base asset in existence; `baseInit` at deployment -/
  baseInit : Nat
  baseSupply : Nat
  /-- locked tokens held by users, lkmex-transfer and the wrapper -/
  circ : Nat
  /-- Σ over pending unbond entries of `locked − unlocked` -/
  pendingPenalty : Nat
  /-- penalty tokens burned by token-unstake / burned-and-counted by the fees collector -/
  penBurned : Nat
  collected : Nat
  /-- base-asset ledger: minted by unlock / early unlock, burned by lock / cancel -/
  mintUnlock : Nat
  mintEarly : Nat
  burnLock : Nat
  burnCancel : Nat
  /-- locked tokens created by `lockVirtual` (reward emission; nothing is burned for them) -/
  virtLocked : Nat

/-- results of an operation; meaning per operation documented at each `def`. -/
structure Out where
  v1 : Nat := 0
  v2 : Nat := 0
  v3 : Nat := 0
  deriving DecidableEq, Repr

/-! ### small map helpers -/

def upd (f : Nat → Nat) (k v : Nat) : Nat → Nat := fun x => if x = k then v else f x

def upd2 (f : Nat → Nat → Nat) (a k v : Nat) : Nat → Nat → Nat :=
  fun x => if x = a then upd (f a) k v else f x

def updO {α : Type} (f : Nat → α) (k : Nat) (v : α) : Nat → α := fun x => if x = k then v else f x

/-- position of the first `e` in the list (= length when absent) -/
def idxOf (e : Nat) : List Nat → Nat
  | [] => 0
  | x :: xs => if x = e then 0 else idxOf e xs + 1

/-- a `u64` written with `SingleValueMapper::set` — zero encodes to the empty buffer, which
    `is_empty()` cannot tell from "never written" -/
def optEpoch (e : Nat) : Option Nat := if e = 0 then none else some e

/-- `getEnergyEntryForUser` -/
def St.view (s : St) (u : Nat) : Entry :=
  match s.energy u with
  | some e => e.deplete s.epoch
  | none => Entry.zero s.epoch

/-- `set_energy_entry` -/
def St.setEnergy (s : St) (u : Nat) (e : Entry) : St := { s with energy := updO s.energy u (some e) }

/-- unlock epoch of a locked-token nonce (`get_token_attributes`) -/
def St.unlockOf (s : St) (n : Nat) : Option Nat := if n = 0 then none else s.nonces[n - 1]?

def St.credit (s : St) (a n amt : Nat) : St := { s with bal := upd2 s.bal a n (s.bal a n + amt) }

/-- ESDT debit: fails like the VM when the balance is short -/
def St.debit (s : St) (a n amt : Nat) : Option St := do
  let b ← sub? (s.bal a n) amt
  pure { s with bal := upd2 s.bal a n b }

/-- `get_or_create_nonce_for_attributes`: the nonce of an unlock epoch is `idxOf + 1` before and
    after; creation mints `INITIAL_SFT_AMOUNT = 1` which stays with the factory -/
def St.ensureNonce (s : St) (unlock : Nat) : St :=
  if unlock ∈ s.nonces then s else
  { s with nonces := s.nonces ++ [unlock],
           bal := upd2 s.bal FACTORY (s.nonces.length + 1) 1 }

def St.nonceFor (s : St) (unlock : Nat) : Nat := idxOf unlock s.nonces + 1

/-- same for the wrapped token (attributes = the locked nonce); the residual unit stays with the wrapper -/
def St.ensureWNonce (s : St) (n : Nat) : St :=
  if n ∈ s.wnonces then s else
  { s with wnonces := s.wnonces ++ [n],
           wbal := upd2 s.wbal WRAPPER (s.wnonces.length + 1) 1 }

def St.wnonceFor (s : St) (n : Nat) : Nat := idxOf n s.wnonces + 1

def St.lockedOfW (s : St) (wn : Nat) : Option Nat := if wn = 0 then none else s.wnonces[wn - 1]?

/-! ### energy factory endpoints -/

/-- `lockTokens(lock_epochs, opt_destination)` paying `amt` of the base asset (`dest = 0` = no
    destination argument).  Out = (nonce, amount) of the locked tokens sent to the destination -/
def lockTokens (s : St) (c amt epochs dest : Nat) : Option (St × Out) := do
  req (s.paused = false)
  req (s.opts ≠ [])
  req (isListed s.opts epochs = true)
  let d := if dest = 0 then c else dest
  let unlock := startOfMonth (s.epoch + epochs)
  req (s.epoch < unlock)
  req (0 < amt)
  let b ← sub? (s.base c) amt
  let bs ← sub? s.baseSupply amt
  let e := (s.view d).addAfterLock amt unlock s.epoch
  let s1 := s.ensureNonce unlock
  let n := s.nonceFor unlock
  pure (({ s1 with base := upd s.base c b, baseSupply := bs, burnLock := s.burnLock + amt,
                   circ := s.circ + amt }.credit d n amt).setEnergy d e, ⟨n, amt, 0⟩)

/-- `lockTokens` paying `amt` of locked nonce `n` (extend the period).  Out = new (nonce, amount) -/
def extendLock (s : St) (c n amt epochs dest : Nat) : Option (St × Out) := do
  req (s.paused = false)
  req (s.opts ≠ [])
  req (isListed s.opts epochs = true)
  let unlock := startOfMonth (s.epoch + epochs)
  req (s.epoch < unlock)
  req (dest = 0 ∨ dest = c)
  let old ← s.unlockOf n
  let s0 ← s.debit c n amt
  req (old < unlock)
  let e0 ← (s.view c).afterUnlockAny amt old s.epoch
  let e := e0.addAfterLock amt unlock s.epoch
  req (0 < amt)
  let s1 := s0.ensureNonce unlock
  let nn := s0.nonceFor unlock
  pure ((s1.credit c nn amt).setEnergy c e, ⟨nn, amt, 0⟩)

/-- the payments of `unlockTokens`, in order: (state, caller's entry, base amount so far) -/
def unlockPays (s : St) (c : Nat) (e : Entry) : List (Nat × Nat) → Option (St × Entry × Nat)
  | [] => some (s, e, 0)
  | (n, amt) :: ps => do
      let unlock ← s.unlockOf n
      let s1 ← s.debit c n amt
      req (unlock ≤ s.epoch)
      req (0 < amt)
      let e1 ← e.refundAfterUnlock amt unlock s.epoch
      let (s2, e2, tot) ← unlockPays s1 c e1 ps
      pure (s2, e2, tot + amt)

/-- `unlockTokens` paying the listed (nonce, amount)s.  Out = base asset minted to the caller -/
def unlockTokens (s : St) (c : Nat) (ps : List (Nat × Nat)) : Option (St × Out) := do
  req (s.paused = false)
  req (ps ≠ [])
  let (s1, e, tot) ← unlockPays s c (s.view c) ps
  let circ ← sub? s1.circ tot
  pure ({ s1 with circ := circ, base := upd s1.base c (s1.base c + tot),
                  baseSupply := s1.baseSupply + tot,
                  mintUnlock := s1.mintUnlock + tot }.setEnergy c e, ⟨tot, 0, 0⟩)

/-- the second and later payments of `mergeTokens`: (state, entry, merged unlock epoch, merged amount) -/
def mergePays (s : St) (c : Nat) (e : Entry) (accE accW : Nat) :
    List (Nat × Nat) → Option (St × Entry × Nat × Nat)
  | [] => some (s, e, accE, accW)
  | (n, amt) :: ps => do
      let unlock ← s.unlockOf n
      let s1 ← s.debit c n amt
      req (s.epoch < unlock)
      let e1 ← e.afterUnlockAny amt unlock s.epoch
      req (accW + amt ≠ 0)       -- BigUint division by zero aborts
      mergePays s1 c e1 (weightedAvgRoundUp accE accW unlock amt) (accW + amt) ps

/-- `mergeTokens(opt_original_caller)` (`orig = 0` = no argument).  Out = merged (nonce, amount) -/
def mergeTokens (s : St) (c orig : Nat) : List (Nat × Nat) → Option (St × Out)
  | [] => none
  | (n1, a1) :: rest => do
      req (s.paused = false)
      req (s.opts ≠ [])
      req (orig = 0 ∨ c ∈ s.wl)
      let oc := if orig = 0 then c else orig
      let u1 ← s.unlockOf n1
      let s1 ← s.debit c n1 a1
      req (s.epoch < u1)
      let e1 ← (s.view oc).afterUnlockAny a1 u1 s.epoch
      let (s2, e2, accE, accW) ← mergePays s1 c e1 u1 a1 rest
      let unlock := upperEstimate s.opts s.epoch accE
      let e3 := e2.addAfterLock accW unlock s.epoch
      req (0 < accW)
      -- `lock_tokens` hands back the unlocked payment when `unlock ≤ now`; the factory holds no
      -- base asset, so the following `direct` fails
      req (s.epoch < unlock)
      let s3 := s2.ensureNonce unlock
      let n := s2.nonceFor unlock
      pure ((s3.credit c n accW).setEnergy oc e3, ⟨n, accW, 0⟩)

/-- `unlockEarly` paying `amt` of nonce `n`.  Out = (penalty, base amount sent to token-unstake) -/
def unlockEarly (s : St) (c n amt : Nat) : Option (St × Out) := do
  req (s.paused = false)
  let unlock ← s.unlockOf n
  let s1 ← s.debit c n amt
  req (s.epoch < unlock)
  let e ← (s.view c).depleteAfterEarly amt unlock s.epoch
  let pen ← penaltyAmount s.opts amt (unlock - s.epoch) 0
  req (0 < amt)
  req (pen < amt)
  let circ ← sub? s.circ amt
  pure ({ (s1.credit UNSTAKE n amt) with
            circ := circ,
            base := upd s.base UNSTAKE (s.base UNSTAKE + (amt - pen)),
            baseSupply := s.baseSupply + (amt - pen),
            mintEarly := s.mintEarly + (amt - pen),
            pendingPenalty := s.pendingPenalty + pen,
            queue := updO s.queue c (s.queue c ++ [UEntry.mk (s.epoch + s.unbond) n amt (amt - pen)]) }.setEnergy c e,
        ⟨pen, amt - pen, 0⟩)

/-- `reduceLockPeriod(new_lock_period)` paying `amt` of nonce `n`.
    Out = (new nonce, re-locked amount, penalty) -/
def reduceLock (s : St) (c n amt epochs : Nat) : Option (St × Out) := do
  req (s.paused = false)
  req (s.opts ≠ [])
  req (isListed s.opts epochs = true)
  let unlock ← s.unlockOf n
  let s1 ← s.debit c n amt
  req (s.epoch < unlock)
  let newEpochs ← sub? epochs ((s.epoch + epochs) % MONTH)
  req (newEpochs < unlock - s.epoch)
  let e ← (s.view c).depleteAfterEarly amt unlock s.epoch
  let pen ← penaltyAmount s.opts amt (unlock - s.epoch) newEpochs
  req (0 < amt)
  req (pen < amt)
  let newUnlock := s.epoch + newEpochs
  req (s.epoch < newUnlock)       -- as in `mergeTokens`: otherwise `lock_tokens` returns base asset
  let s2 := s1.ensureNonce newUnlock
  let nn := s1.nonceFor newUnlock
  let burn := pen * s.burnPct / MAXPCT
  let circ ← sub? s.circ pen
  pure ({ (s2.credit c nn (amt - pen)) with
            circ := circ, penBurned := s.penBurned + burn,
            collected := s.collected + (pen - burn) }.setEnergy c
          (e.addAfterLock (amt - pen) newUnlock s.epoch),
        ⟨nn, amt - pen, pen⟩)

/-- `lockVirtual(base, amount, lock_epochs, dest, energy_address)` by the whitelisted contract `c`.
    Out = (nonce, amount) -/
def lockVirtual (s : St) (c amt epochs dest eaddr : Nat) : Option (St × Out) := do
  req (s.paused = false)
  req (0 < amt)
  req (s.opts ≠ [])
  req (isListed s.opts epochs = true)
  req (c ∈ s.wl)
  let unlock := startOfMonth (s.epoch + epochs)
  req (s.epoch < unlock)
  let e := (s.view eaddr).addAfterLock amt unlock s.epoch
  let s1 := s.ensureNonce unlock
  let n := s.nonceFor unlock
  pure (({ s1 with circ := s.circ + amt, virtLocked := s.virtLocked + amt }.credit dest n amt).setEnergy eaddr e,
        ⟨n, amt, 0⟩)

/-! ### token-unstake -/

/-- the FIFO prefix `claimUnlockedTokens` processes -/
def claimable (now : Nat) (q : List UEntry) : List UEntry :=
  (q.takeWhile (fun e => e.unlock ≤ now)).take MAXCLAIM

/-- per claimed entry: burn `unlocked` of the locked tokens, split the penalty, pay the base tokens.
    Returns (state, base paid so far) -/
def claimEntries (s : St) : List UEntry → Option (St × Nat)
  | [] => some (s, 0)
  | q :: qs => do
      let s1 ← s.debit UNSTAKE q.nonce q.locked
      let pen ← sub? q.locked q.unlocked
      let burn := pen * s.burnPct / MAXPCT
      let b ← sub? (s1.base UNSTAKE) q.unlocked
      let pp ← sub? s1.pendingPenalty pen
      let (s2, paid) ← claimEntries { s1 with base := upd s1.base UNSTAKE b, pendingPenalty := pp,
                                              penBurned := s1.penBurned + burn,
                                              collected := s1.collected + (pen - burn) } qs
      pure (s2, paid + q.unlocked)

/-- `claimUnlockedTokens`.  Out = (base asset paid, entries claimed) -/
def claimUnlocked (s : St) (c : Nat) : Option (St × Out) := do
  let cl := claimable s.epoch (s.queue c)
  req (cl ≠ [])
  let (s1, paid) ← claimEntries s cl
  pure ({ s1 with base := upd s1.base c (s1.base c + paid),
                  queue := updO s1.queue c ((s.queue c).drop cl.length) }, ⟨paid, cl.length, 0⟩)

/-- per entry of `cancelUnbond`: restore energy, burn the base tokens, return the locked tokens -/
def cancelEntries (s : St) (c : Nat) (e : Entry) : List UEntry → Option (St × Entry)
  | [] => some (s, e)
  | q :: qs => do
      let unlock ← s.unlockOf q.nonce
      let s1 ← s.debit UNSTAKE q.nonce q.locked
      let b ← sub? (s1.base UNSTAKE) q.unlocked
      let bs ← sub? s1.baseSupply q.unlocked
      let pen ← sub? q.locked q.unlocked
      let pp ← sub? s1.pendingPenalty pen
      cancelEntries ({ s1 with base := upd s1.base UNSTAKE b, baseSupply := bs,
                               burnCancel := s1.burnCancel + q.unlocked,
                               circ := s1.circ + q.locked, pendingPenalty := pp }.credit c q.nonce q.locked)
        c (e.restoreCancel q.locked unlock s.epoch) qs

/-- `cancelUnbond` (pushes the energy through `revertUnstake`, which needs the factory unpaused).
    Out = (entries cancelled) -/
def cancelUnbond (s : St) (c : Nat) : Option (St × Out) := do
  req (s.queue c ≠ [])
  let (s1, e) ← cancelEntries s c (s.view c) (s.queue c)
  req (s.paused = false)
  pure ({ s1 with queue := updO s1.queue c [] }.setEnergy c e, ⟨(s.queue c).length, 0, 0⟩)

/-! ### lkmex-transfer and the wrapper (energy_transfer.rs) -/

/-- `deduct_energy_from_sender` + the tokens stay with the escrow contract `esc` -/
def deductPays (s : St) (esc c : Nat) (e : Entry) : List (Nat × Nat) → Option (St × Entry)
  | [] => some (s, e)
  | (n, amt) :: ps => do
      let unlock ← s.unlockOf n
      let s1 ← s.debit c n amt
      req (s.epoch < unlock)
      let e1 ← e.depleteAfterEarly amt unlock s.epoch
      deductPays (s1.credit esc n amt) esc c e1 ps

/-- `add_energy_to_destination` + the tokens leave the escrow contract `esc` for `u` -/
def addPays (s : St) (esc u : Nat) (e : Entry) : List (Nat × Nat) → Option (St × Entry)
  | [] => some (s, e)
  | (n, amt) :: ps => do
      let unlock ← s.unlockOf n
      let s1 ← s.debit esc n amt
      addPays (s1.credit u n amt) esc u (e.addDest amt unlock s.epoch) ps

def St.findXfer (s : St) (recv sender : Nat) : Option Xfer :=
  s.xfers.find? (fun x => x.recv = recv ∧ x.sender = sender)

def St.dropXfer (s : St) (recv sender : Nat) : List Xfer :=
  s.xfers.filter (fun x => ¬ (x.recv = recv ∧ x.sender = sender))

/-- `check_address_on_cooldown` -/
def cooldownOk (s : St) : Option Nat → Bool
  | none => true
  | some last => s.cooldown < s.epoch - last

/-- `lockFunds(receiver)` paying the listed locked tokens -/
def lockFunds (s : St) (c recv : Nat) (ps : List (Nat × Nat)) : Option (St × Out) := do
  req (s.findXfer recv c = none)
  req (cooldownOk s (s.sendLast c) = true)
  let (s1, e) ← deductPays s TRANSFER c (s.view c) ps
  req (s.paused = false)         -- `setUserEnergyAfterLockedTokenTransfer`
  pure ({ s1 with xfers := s1.xfers ++ [Xfer.mk recv c s.epoch ps],
                  sendLast := updO s1.sendLast c (optEpoch s.epoch) }.setEnergy c e, {})

/-- `withdraw(sender)` by the receiver `c` -/
def withdraw (s : St) (c sender : Nat) : Option (St × Out) := do
  req (cooldownOk s (s.recvLast c) = true)
  let x ← s.findXfer c sender
  req (s.minLock < s.epoch - x.epoch)
  let (s1, e) ← addPays s TRANSFER c (s.view c) x.funds
  req (s.paused = false)
  pure ({ s1 with xfers := s.dropXfer c sender,
                  recvLast := updO s1.recvLast c (optEpoch s.epoch) }.setEnergy c e, {})

/-- `cancelTransfer(sender, receiver)` (admin) -/
def cancelTransfer (s : St) (sender recv : Nat) : Option (St × Out) := do
  let x ← s.findXfer recv sender
  let (s1, e) ← addPays s TRANSFER sender (s.view sender) x.funds
  req (s.paused = false)
  pure ({ s1 with xfers := s.dropXfer recv sender,
                  sendLast := updO s1.sendLast sender none }.setEnergy sender e, {})

/-- `wrapLockedToken` paying `amt` of locked nonce `n`.  Out = wrapped (nonce, amount) -/
def wrap (s : St) (c n amt : Nat) : Option (St × Out) := do
  let (s1, e) ← deductPays s WRAPPER c (s.view c) [(n, amt)]
  req (s.paused = false)
  let s2 := s1.ensureWNonce n
  let wn := s1.wnonceFor n
  pure ({ s2 with wbal := upd2 s2.wbal c wn (s2.wbal c wn + amt) }.setEnergy c e, ⟨wn, amt, 0⟩)

/-- `unwrapLockedToken` paying `amt` of wrapped nonce `wn`.  Out = locked (nonce, amount) -/
def unwrap (s : St) (c wn amt : Nat) : Option (St × Out) := do
  let n ← s.lockedOfW wn
  let wb ← sub? (s.wbal c wn) amt
  let (s1, e) ← addPays s WRAPPER c (s.view c) [(n, amt)]
  req (s.paused = false)
  pure ({ s1 with wbal := upd2 s1.wbal c wn wb }.setEnergy c e, ⟨n, amt, 0⟩)

/-- a plain ESDT transfer of wrapped tokens between two accounts (platform operation; the reason
    the wrapper exists) -/
def xferWrapped (s : St) (c to wn amt : Nat) : Option (St × Out) := do
  req (0 < amt)
  req (c ≠ to)
  let wb ← sub? (s.wbal c wn) amt
  pure ({ s with wbal := upd2 (upd2 s.wbal c wn wb) to wn (s.wbal to wn + amt) }, {})

/-! ### configuration (caller authorisation is C19's table; these are the effects) -/

inductive CfgOp
  | addOptions (new : List Opt)
  | setBurnPct (p : Nat)
  | pause (b : Bool)
  | whitelist (c : Nat)
  | unwhitelist (c : Nat)
  deriving DecidableEq, Repr

def cfg (s : St) : CfgOp → Option St
  | .addOptions new => do
      req (s.opts.length + new.length ≤ MAXOPTS)
      req (new.all (fun o => YEAR ≤ o.1 ∧ o.2 ≤ MAXPCT) = true)
      let all := sortOpts (s.opts ++ new)
      req (all ≠ [])            -- `options.len() - 1` underflows on an empty list
      req (noDupEpochs all = true)
      req (strictPcts all = true)
      pure { s with opts := all }
  | .setBurnPct p => do
      req (p ≤ MAXPCT)
      pure { s with burnPct := p }
  | .pause b => pure { s with paused := b }
  | .whitelist c => do
      req (c ∉ s.wl)
      pure { s with wl := s.wl ++ [c] }
  | .unwhitelist c => do
      req (c ∈ s.wl)
      pure { s with wl := s.wl.erase c }

/-! ### the state machine -/

inductive Op
  | lock (c amt epochs dest : Nat)
  | extend (c n amt epochs dest : Nat)
  | unlock (c : Nat) (ps : List (Nat × Nat))
  | merge (c orig : Nat) (ps : List (Nat × Nat))
  | unlockEarly (c n amt : Nat)
  | reduce (c n amt epochs : Nat)
  | lockVirtual (c amt epochs dest eaddr : Nat)
  | claim (c : Nat)
  | cancel (c : Nat)
  | lockFunds (c recv : Nat) (ps : List (Nat × Nat))
  | withdraw (c sender : Nat)
  | cancelTransfer (sender recv : Nat)
  | wrap (c n amt : Nat)
  | unwrap (c wn amt : Nat)
  | xferWrapped (c to wn amt : Nat)
  | cfg (o : CfgOp)
  | advance (epoch : Nat)
  deriving DecidableEq, Repr

def step (s : St) : Op → Option (St × Out)
  | .lock c amt ep d => lockTokens s c amt ep d
  | .extend c n amt ep d => extendLock s c n amt ep d
  | .unlock c ps => unlockTokens s c ps
  | .merge c orig ps => mergeTokens s c orig ps
  | .unlockEarly c n amt => unlockEarly s c n amt
  | .reduce c n amt ep => reduceLock s c n amt ep
  | .lockVirtual c amt ep d ea => lockVirtual s c amt ep d ea
  | .claim c => claimUnlocked s c
  | .cancel c => cancelUnbond s c
  | .lockFunds c r ps => lockFunds s c r ps
  | .withdraw c sd => withdraw s c sd
  | .cancelTransfer sd r => cancelTransfer s sd r
  | .wrap c n amt => wrap s c n amt
  | .unwrap c wn amt => unwrap s c wn amt
  | .xferWrapped c to wn amt => xferWrapped s c to wn amt
  | .cfg o => (cfg s o).map (·, {})
  | .advance e => if s.epoch ≤ e then some ({ s with epoch := e }, {}) else none

/-- the state after a history: failed transactions leave the state unchanged. -/
def run (s : St) (ops : List Op) : St :=
  ops.foldl (fun s o => match step s o with | some (s', _) => s' | none => s) s

/-- world configuration chosen at deployment -/
structure Cfg where
  epoch : Nat
  opts : List Opt
  unbond : Nat
  burnPct : Nat
  minLock : Nat
  cooldown : Nat
  /-- user addresses `1 … users` start with `funds` of the base asset each -/
  users : Nat
  funds : Nat

/-- freshly deployed world (factory unpaused, options installed, nothing locked) -/
def init (c : Cfg) : St :=
  { epoch := c.epoch, paused := false, opts := c.opts, unbond := c.unbond, burnPct := c.burnPct,
    minLock := c.minLock, cooldown := c.cooldown, wl := [], nonces := [], wnonces := [],
    energy := fun _ => none, bal := fun _ _ => 0, wbal := fun _ _ => 0,
    base := fun a => if 1 ≤ a ∧ a ≤ c.users then c.funds else 0,
    queue := fun _ => [], xfers := [], sendLast := fun _ => none, recvLast := fun _ => none,
    baseInit := c.users * c.funds, baseSupply := c.users * c.funds, circ := 0, pendingPenalty := 0,
    penBurned := 0, collected := 0, mintUnlock := 0, mintEarly := 0, burnLock := 0,
    burnCancel := 0, virtLocked := 0 }

end Mx.Energy
