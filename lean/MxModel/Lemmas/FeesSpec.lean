/-
  Characterisation lemmas of the fees-collector model (Core/FeesCollector.lean): the reward hook
  (share formula, ledger frame), `claimCore`, and the preservation of the global energy invariant
  by every operation of the world.
-/
import MxModel.Core.FeesCollector
import MxModel.Lemmas.WeeklyInv

namespace Mx.Fees

open Mx.Weekly

theorem weekOf_pos {e f W : Nat} (h : weekOf e f = some W) : 1 ≤ W := by
  simp only [weekOf, Option.bind_eq_bind, Option.bind_eq_some_iff, req_eq_some, Option.pure_def,
    Option.some.injEq] at h
  obtain ⟨_, _, rfl⟩ := h
  exact Nat.le_add_left 1 _

/-! ### the reward hook -/

theorem feesRewards_frame : RwFrame feesRewards := by
  intro g a w e E g' a' r h
  simp only [feesRewards, Option.map_eq_some_iff, Prod.mk.injEq] at h
  obtain ⟨⟨g1, a1, r1⟩, h1, rfl, _, _⟩ := h
  exact defaultRewards_frame collectFees g a w e E g1 a1 r1 h1

/-- sum of the amounts of token `t` in a payment list -/
def amountOf (t : Tok) (l : List (Tok × Nat)) : Nat :=
  ((l.filter fun p => p.1 = t).map (·.2)).sum

@[simp] theorem amountOf_nil (t : Tok) : amountOf t [] = 0 := rfl

theorem amountOf_cons (t : Tok) (p : Tok × Nat) (l : List (Tok × Nat)) :
    amountOf t (p :: l) = (if p.1 = t then p.2 else 0) + amountOf t l := by
  unfold amountOf
  by_cases h : p.1 = t <;> simp [List.filter_cons, h]

theorem amountOf_append (t : Tok) (l1 l2 : List (Tok × Nat)) :
    amountOf t (l1 ++ l2) = amountOf t l1 + amountOf t l2 := by
  induction l1 with
  | nil => simp
  | cons p l ih => simp only [List.cons_append, amountOf_cons, ih]; omega

/-- the ghost ledger after recording a payment list for `week` -/
theorem recordPaid_apply (paid : Nat → Tok → Nat) (week : Nat) (l : List (Tok × Nat)) (w : Nat)
    (t : Tok) :
    recordPaid paid week l w t = paid w t + (if w = week then amountOf t l else 0) := by
  induction l generalizing paid with
  | nil => simp [recordPaid]
  | cons p ps ih =>
    simp only [recordPaid, ih, amountOf_cons, upd2]
    by_cases hw : w = week
    · subst hw
      by_cases ht : t = p.1
      · subst ht; simp; omega
      · have : ¬ (p.1 = t) := fun h => ht h.symm
        simp [ht, this]
    · simp [hw]

/-- **share formula.**  What the collector's reward hook returns for `week`, a user energy
    amount `e` and the week's total energy `E`: nothing (and no state change) when either is 0;
    otherwise, for every entry `(tok, total)` of the week's frozen total rewards — frozen by this
    very call if it is the first one — the payment `⌊total · e / E⌋`, zero payments dropped. -/
theorem feesRewards_spec {g g' : Weekly.St} {a a' : Acc} {week e E : Nat} {r : List (Tok × Nat)}
    (h : feesRewards g a week e E = some (g', a', r)) :
    ((e = 0 ∨ E = 0) ∧ g' = g ∧ a' = a ∧ r = []) ∨
    (e ≠ 0 ∧ E ≠ 0 ∧ r = sharesOf (g'.totalRewards week) e E ∧
      (∀ w, w ≠ week → g'.totalRewards w = g.totalRewards w) ∧
      g'.totalRewards week =
        (if (g.totalRewards week).isEmpty then (collectFees a week).2 else g.totalRewards week) ∧
      a'.allTokens = a.allTokens ∧
      (∀ w t, a'.paid w t = a.paid w t + (if w = week then amountOf t r else 0)) ∧
      (∀ w t, w ≠ week → a'.accumulated w t = a.accumulated w t ∧ a'.collected w t = a.collected w t) ∧
      (∀ t, a'.accumulated week t + a'.collected week t = a.accumulated week t + a.collected week t)) := by
  simp only [feesRewards, Option.map_eq_some_iff, Prod.mk.injEq] at h
  obtain ⟨⟨g1, a1, r1⟩, h1, rfl, rfl, rfl⟩ := h
  unfold defaultRewards at h1
  split at h1
  · rename_i hz
    simp only [Option.some.injEq, Prod.mk.injEq] at h1
    obtain ⟨rfl, rfl, rfl⟩ := h1
    exact Or.inl ⟨hz, rfl, rfl, rfl⟩
  · rename_i hz
    simp only [Option.some.injEq, Prod.mk.injEq] at h1
    obtain ⟨rfl, rfl, rfl⟩ := h1
    have he : e ≠ 0 := fun h => hz (Or.inl h)
    have hE : E ≠ 0 := fun h => hz (Or.inr h)
    refine Or.inr ⟨he, hE, ?_⟩
    unfold collectAndGet
    by_cases hemp : (g.totalRewards week).isEmpty
    · simp only [hemp, if_true]
      refine ⟨by simp, fun w hw => by simp [upd_other _ _ hw], by simp, rfl,
        fun w t => recordPaid_apply _ _ _ _ _, ?_, ?_⟩
      · intro w t hw
        simp [collectFees, hw]
      · intro t
        simp only [collectFees]
        by_cases ht : t ∈ a.allTokens <;> simp [ht]
        omega
    · simp only [hemp, Bool.false_eq_true, if_false]
      refine ⟨trivial, fun _ _ => trivial, trivial, trivial, fun w t => recordPaid_apply _ _ _ _ _,
        fun _ _ _ => ⟨trivial, trivial⟩, fun _ => trivial⟩

/-- every single payment is `⌊total · e / E⌋ > 0` of a frozen entry of that week -/
theorem feesRewards_payment {g g' : Weekly.St} {a a' : Acc} {week e E : Nat} {r : List (Tok × Nat)}
    (h : feesRewards g a week e E = some (g', a', r)) :
    ∀ t p, (t, p) ∈ r → ∃ total, (t, total) ∈ g'.totalRewards week ∧ p = total * e / E ∧ 0 < p := by
  intro t p hm
  rcases feesRewards_spec h with ⟨_, _, _, rfl⟩ | ⟨_, _, hr, _⟩
  · simp at hm
  · rw [hr] at hm
    simp only [sharesOf, List.mem_filter, List.mem_map, Prod.mk.injEq, Prod.exists] at hm
    obtain ⟨⟨t', total, hmem, rfl, rfl⟩, hne⟩ := hm
    refine ⟨total, hmem, rfl, ?_⟩
    simp only [share] at hne ⊢
    exact Nat.pos_of_ne_zero (of_decide_eq_true hne)

/-- the ledger changes only for the week being claimed, and only upwards -/
theorem feesRewards_paid {g g' : Weekly.St} {a a' : Acc} {week e E : Nat} {r : List (Tok × Nat)}
    (h : feesRewards g a week e E = some (g', a', r)) :
    (∀ w t, w ≠ week → a'.paid w t = a.paid w t) ∧ (∀ w t, a.paid w t ≤ a'.paid w t) := by
  rcases feesRewards_spec h with ⟨_, _, rfl, _⟩ | ⟨_, _, _, _, _, _, hp, _⟩
  · exact ⟨fun _ _ _ => rfl, fun _ _ => Nat.le_refl _⟩
  · exact ⟨fun w t hw => by rw [hp]; simp [hw], fun w t => by rw [hp]; omega⟩

/-- the claim loop pays only for the weeks it walks over: `p.week, …, p.week + n − 1` -/
theorem claimLoop_paid : ∀ (n : Nat) {a a' : ClaimAcc Acc}, claimLoop feesRewards n a = some a' →
    (∀ w t, (w < a.p.week ∨ a.p.week + n ≤ w) → a'.c.paid w t = a.c.paid w t) ∧
    (∀ w t, a.c.paid w t ≤ a'.c.paid w t) := by
  intro n
  induction n with
  | zero =>
    intro a a' h
    simp only [claimLoop, Option.some.injEq] at h
    subst h
    exact ⟨fun _ _ _ => rfl, fun _ _ => Nat.le_refl _⟩
  | succ n ih =>
    intro a a' h
    simp only [claimLoop, Option.bind_eq_some_iff] at h
    obtain ⟨a1, h1, h2⟩ := h
    obtain ⟨r, hr, hp, _⟩ := claimSingle_spec h1
    obtain ⟨f1, m1⟩ := feesRewards_paid hr
    obtain ⟨f2, m2⟩ := ih h2
    have hw1 : a1.p.week = a.p.week + 1 := by rw [hp]; rfl
    constructor
    · intro w t hw
      have e1 : w ≠ a.p.week := by omega
      rw [f2 w t (by omega), f1 w t e1]
    · intro w t
      exact Nat.le_trans (m1 w t) (m2 w t)

/-- the VM debits every transfer from the balance -/
theorem payOut_spec : ∀ (l : List (Tok × Nat)) {bal bal' : Tok → Nat}, payOut bal l = some bal' →
    ∀ t, bal' t + amountOf t l = bal t := by
  intro l
  induction l with
  | nil =>
    intro bal bal' h t
    simp only [payOut, Option.some.injEq] at h
    subst h; simp
  | cons p ps ih =>
    intro bal bal' h t
    simp only [payOut, Option.bind_eq_some_iff, sub?_eq_some] at h
    obtain ⟨v, ⟨hle, rfl⟩, h2⟩ := h
    have := ih h2 t
    rw [amountOf_cons]
    by_cases ht : t = p.1
    · subst ht
      simp only [upd_same] at this
      simp
      omega
    · have hne : ¬ (p.1 = t) := fun h => ht h.symm
      simp only [upd_other _ _ ht] at this
      simp [hne]
      exact this

theorem amountOf_filter_ne (t : Tok) (l : List (Tok × Nat)) (ht : t ≠ lockedTok) :
    amountOf t (l.filter fun p => p.1 ≠ lockedTok) = amountOf t l := by
  unfold amountOf
  rw [List.filter_filter]
  congr 2
  apply List.filter_congr
  intro p _
  by_cases h : p.1 = t
  · subst h; simp [ht]
  · simp [h]

/-! ### claimCore -/

theorem accumulateAdditional_w (s : St) (W : Nat) : (accumulateAdditional s W).w = s.w := by
  unfold accumulateAdditional; split <;> rfl

theorem accumulateAdditional_paid (s : St) (W : Nat) : (accumulateAdditional s W).a.paid = s.a.paid := by
  unfold accumulateAdditional; split <;> rfl

theorem accumulateAdditional_energy (s : St) (W : Nat) :
    (accumulateAdditional s W).energy = s.energy ∧ (accumulateAdditional s W).epoch = s.epoch := by
  unfold accumulateAdditional; split <;> exact ⟨rfl, rfl⟩

theorem accumulateAdditional_bal (s : St) (W : Nat) : (accumulateAdditional s W).bal = s.bal := by
  unfold accumulateAdditional; split <;> rfl

/-- a successful claim: its weekly part, and what leaves the collector's balance -/
theorem claimCore_spec {s s' : St} {orig : Nat} {o : Out} (h : claimCore s orig = some (s', o)) :
    ∃ W r, s.week = some W ∧
      claimMulti feesRewards s.w (accumulateAdditional s W).a orig W
        (Energy.queried (s.energy orig) s.epoch) = some (s'.w, s'.a, r) ∧
      s'.epoch = s.epoch ∧ s'.firstWeek = s.firstWeek ∧
      (∀ t, t ≠ lockedTok → s'.bal t + amountOf t r = s.bal t) := by
  simp only [claimCore, Option.bind_eq_bind, Option.bind_eq_some_iff] at h
  obtain ⟨W, hW, ⟨g1, a1, r⟩, hc, h⟩ := h
  rw [accumulateAdditional_w, (accumulateAdditional_energy s W).1,
    (accumulateAdditional_energy s W).2] at hc
  refine ⟨W, r, hW, ?_⟩
  have hep : (accumulateAdditional s W).epoch = s.epoch := (accumulateAdditional_energy s W).2
  have hfw : (accumulateAdditional s W).firstWeek = s.firstWeek := by
    unfold accumulateAdditional; split <;> rfl
  have hbl := accumulateAdditional_bal s W
  dsimp only at h
  split at h
  · rename_i hemp
    simp only [Option.pure_def, Option.some.injEq, Prod.mk.injEq] at h
    obtain ⟨hs, _⟩ := h
    rw [← hs]
    have hr : r = [] := List.isEmpty_iff.mp hemp
    exact ⟨hc, hep, hfw, fun t _ => by simp [hr, hbl]⟩
  · simp only [Option.bind_eq_bind, Option.bind_eq_some_iff] at h
    obtain ⟨bal, hpay, h⟩ := h
    have hp : ∀ t, t ≠ lockedTok → bal t + amountOf t r = s.bal t := by
      intro t ht
      have := payOut_spec _ hpay t
      rw [amountOf_filter_ne t r ht] at this
      rw [← hbl]; exact this
    split at h
    · simp only [Option.pure_def, Option.some.injEq, Prod.mk.injEq] at h
      obtain ⟨hs, _⟩ := h
      rw [← hs]
      exact ⟨hc, hep, hfw, hp⟩
    · simp only [Option.bind_eq_bind, Option.bind_eq_some_iff, Option.pure_def, Option.some.injEq,
        Prod.mk.injEq] at h
      obtain ⟨e, _, hs, _⟩ := h
      rw [← hs]
      exact ⟨hc, hep, hfw, hp⟩

/-! ### the invariant over histories -/

theorem claimCore_GInv {s s' : St} {orig : Nat} {o : Out} (hI : GInv s.w)
    (h : claimCore s orig = some (s', o)) : GInv s'.w := by
  obtain ⟨W, r, hW, hc, _⟩ := claimCore_spec h
  exact claimMulti_GInv feesRewards_frame (weekOf_pos hW) hI hc

theorem step_GInv {s s' : St} {op : Op} {o : Out} (hI : GInv s.w) (h : step s op = some (s', o)) :
    GInv s'.w := by
  cases op with
  | deposit c t n a =>
    simp only [step, deposit, Option.bind_eq_bind, Option.bind_eq_some_iff, Option.pure_def,
      Option.some.injEq, Prod.mk.injEq] at h
    obtain ⟨_, _, _, _, _, _, _, _, _, _, rfl, _⟩ := h
    exact hI
  | claim c og =>
    simp only [step, claimRewards, Option.bind_eq_bind, Option.bind_eq_some_iff] at h
    obtain ⟨_, _, h⟩ := h
    cases og with
    | none => exact claimCore_GInv hI h
    | some x =>
      simp only [Option.bind_eq_bind, Option.bind_eq_some_iff] at h
      obtain ⟨_, _, h⟩ := h
      exact claimCore_GInv hI h
  | claimBoosted c og =>
    simp only [step, claimBoosted, Option.bind_eq_bind, Option.bind_eq_some_iff] at h
    obtain ⟨_, _, h⟩ := h
    cases og with
    | none => exact claimCore_GInv hI h
    | some x =>
      simp only [Option.bind_eq_bind, Option.bind_eq_some_iff] at h
      obtain ⟨_, _, h⟩ := h
      exact claimCore_GInv hI h
  | updateEnergy u =>
    simp only [step, updateEnergy, Option.bind_eq_bind, Option.bind_eq_some_iff, Option.pure_def,
      Option.some.injEq, Prod.mk.injEq] at h
    obtain ⟨W, hW, g, hg, rfl, _⟩ := h
    exact updateEnergyForUser_GInv (weekOf_pos hW) hI hg
  | setPerBlock n =>
    simp only [step, setPerBlock, Option.bind_eq_bind, Option.bind_eq_some_iff, Option.pure_def,
      Option.some.injEq, Prod.mk.injEq] at h
    obtain ⟨W, _, rfl, _⟩ := h
    show GInv (accumulateAdditional s W).w
    rw [accumulateAdditional_w]; exact hI
  | setEnergy u e => simp only [step, Option.some.injEq, Prod.mk.injEq] at h; obtain ⟨rfl, _⟩ := h; exact hI
  | addToken t => simp only [step, Option.some.injEq, Prod.mk.injEq] at h; obtain ⟨rfl, _⟩ := h; exact hI
  | removeToken t => simp only [step, Option.some.injEq, Prod.mk.injEq] at h; obtain ⟨rfl, _⟩ := h; exact hI
  | addContract c => simp only [step, Option.some.injEq, Prod.mk.injEq] at h; obtain ⟨rfl, _⟩ := h; exact hI
  | removeContract c => simp only [step, Option.some.injEq, Prod.mk.injEq] at h; obtain ⟨rfl, _⟩ := h; exact hI
  | allowExternal u b => simp only [step, Option.some.injEq, Prod.mk.injEq] at h; obtain ⟨rfl, _⟩ := h; exact hI
  | pause b => simp only [step, Option.some.injEq, Prod.mk.injEq] at h; obtain ⟨rfl, _⟩ := h; exact hI
  | advance n => simp only [step, Option.some.injEq, Prod.mk.injEq] at h; obtain ⟨rfl, _⟩ := h; exact hI

theorem run_GInv (ops : List Op) {s : St} (hI : GInv s.w) : GInv (run s ops).w := by
  induction ops generalizing s with
  | nil => exact hI
  | cons op ops ih =>
    simp only [run, List.foldl_cons]
    cases hs : step s op with
    | none => exact ih hI
    | some r => exact ih (step_GInv hI (o := r.2) (by rw [hs]))

theorem init_GInv (epoch lockEpochs : Nat) (known : List Tok) (contracts whitelist : List Nat) :
    GInv (init epoch lockEpochs known contracts whitelist).w := GInv.init

end Mx.Fees
