/-
  LIVENESS of the weekly-rewards-splitting module's global energy bookkeeping — the counterpart of
  `GInv` (Lemmas/WeeklyGlobal.lean, WeeklyUpdate.lean, which say "IF the update succeeds the lot relation
  holds again"): under the invariant, `update_user_energy_for_current_week` CANNOT abort.

  Its checked subtractions
    * `shift_buckets_and_update_tokens_energy`:  `total_tokens −= bucket.tokens`      (per shifted week)
    * `reallocate_bucket_after_energy_update`:   `bucket.tokens −= prev.tokens`, `bucket.surplus −= surplus(prev)`
    * `update_…_total_tokens_…`:                 `total_locked (+ cur) −= depleted_prev.tokens`
    * `update_…_total_energy_…`:                 `total_energy −= depleted_prev.energy`
  and the two `require!`s (`last_update_week ≤ current_week`, `last_active_week ≤ current_week`) are all
  discharged from the lot relation: every bucket / total is a SUM over the users' lots that contains the
  lot being removed.

  Hypotheses: `GInv g`, `1 ≤ W`, and `g.lastGlobalUpdateWeek ≤ W` (time does not run backwards — a
  state invariant of every contract embedding the module).
-/
import MxModel.Lemmas.WeeklyInv

namespace Mx.Weekly

/-! ### the weekly shift -/

theorem shiftOnce_ok {prog : Nat → Option ClaimProgress} {users : List Nat} {g : St} {t : Totals}
    {W orph : Nat}
    (hL : LRel prog users g.firstBucketId g.buckets W t.energy t.tokens orph) :
    ∃ r, shiftOnce g t = some r := by
  have hb0 := hL.bTok 0
  simp only [Nat.add_zero, if_true] at hb0
  have hT := hL.tokens
  have hle : usum users (fun u => (lotAt (prog u) W).bTok 0) ≤
      usum users (fun u => (lotAt (prog u) W).tok) :=
    usum_le (fun u _ => Lot.bTok_le_tok _ 0)
  have hsub : (g.buckets g.firstBucketId).tokens ≤ t.tokens := by omega
  simp only [shiftOnce, Option.bind_eq_bind, Option.pure_def]
  rw [sub?_eq_some.mpr ⟨hsub, rfl⟩]
  exact ⟨_, rfl⟩

theorem shiftN_ok {prog : Nat → Option ClaimProgress} {users : List Nat} :
    ∀ (n : Nat) {g : St} {t : Totals} {W orph : Nat}, PRel prog users W →
    LRel prog users g.firstBucketId g.buckets W t.energy t.tokens orph →
    ∃ r, shiftN n g t = some r := by
  intro n
  induction n with
  | zero => intro g t W orph _ _; exact ⟨_, rfl⟩
  | succ n ih =>
    intro g t W orph hP hL
    obtain ⟨⟨g1, t1⟩, h1⟩ := shiftOnce_ok hL
    obtain ⟨hL1, _⟩ := shiftOnce_LRel hP hL h1
    obtain ⟨r, hr⟩ := ih (hP.mono (Nat.le_succ W)) hL1
    exact ⟨r, by simp only [shiftN, h1, Option.bind_some]; exact hr⟩

/-- **`perform_weekly_update` cannot abort** -/
theorem performWeeklyUpdate_ok {g : St} {W : Nat} (hI : GInv g) (hle : g.lastGlobalUpdateWeek ≤ W) :
    ∃ g1, performWeeklyUpdate g W = some g1 := by
  unfold performWeeklyUpdate
  split
  · exact ⟨_, rfl⟩
  split
  · exact ⟨_, rfl⟩
  · rename_i hne hnz
    rcases hI with hp | ⟨o, hr⟩
    · exact absurd hp.lgw hnz
    have hL0 : LRel g.progress g.users
        ({ g with lastGlobalUpdateWeek := W,
                  totalLocked := upd g.totalLocked g.lastGlobalUpdateWeek 0 } : St).firstBucketId
        ({ g with lastGlobalUpdateWeek := W,
                  totalLocked := upd g.totalLocked g.lastGlobalUpdateWeek 0 } : St).buckets
        g.lastGlobalUpdateWeek
        (⟨g.totalLocked g.lastGlobalUpdateWeek, g.totalEnergy g.lastGlobalUpdateWeek⟩ : Totals).energy
        (⟨g.totalLocked g.lastGlobalUpdateWeek, g.totalEnergy g.lastGlobalUpdateWeek⟩ : Totals).tokens
        o := hr.l
    obtain ⟨r, hs⟩ := shiftN_ok (W - g.lastGlobalUpdateWeek) hr.p hL0
    simp only [Option.bind_eq_bind, req, hle, if_true, Option.bind_some, hs, Option.pure_def]
    split <;> exact ⟨_, rfl⟩

/-! ### the user part -/

theorem bucketRemove_ok {g : St} {id : Nat} {orig : Energy}
    (h1 : orig.totalLocked ≤ (g.buckets id).tokens) (h2 : surplusFor orig ≤ (g.buckets id).surplus) :
    ∃ g1, bucketRemove g id orig = some g1 := by
  simp only [bucketRemove, Option.bind_eq_bind, Option.pure_def]
  rw [sub?_eq_some.mpr ⟨h1, rfl⟩, Option.bind_some, sub?_eq_some.mpr ⟨h2, rfl⟩]
  exact ⟨_, rfl⟩

theorem reallocate_ok {g : St} {orig dep cur : Energy}
    (h : ∀ id, bucketIdFor g.firstBucketId dep = some id →
      orig.totalLocked ≤ (g.buckets id).tokens ∧ surplusFor orig ≤ (g.buckets id).surplus) :
    ∃ r, reallocate g orig dep cur = some r := by
  unfold reallocate
  cases hb : bucketIdFor g.firstBucketId dep with
  | none => simp only [Option.bind_eq_bind, Option.bind_some, Option.pure_def]; exact ⟨_, rfl⟩
  | some id0 =>
    obtain ⟨a1, a2⟩ := h id0 hb
    obtain ⟨g1, hg1⟩ := bucketRemove_ok a1 a2
    simp only [hg1, Option.bind_eq_bind, Option.bind_some, Option.pure_def]
    exact ⟨_, rfl⟩

theorem updateTotalTokens_ok {g : St} {W : Nat} {bp : BucketPair} {dep cur : Energy}
    (h : bp.prev.isSome → dep.totalLocked ≤ g.totalLocked W) :
    ∃ g1, updateTotalTokens g W bp dep cur = some g1 := by
  unfold updateTotalTokens
  cases hp : bp.prev with
  | none => cases hc : bp.cur <;> exact ⟨_, rfl⟩
  | some i =>
    have hle := h (by rw [hp]; rfl)
    cases hc : bp.cur with
    | none =>
      simp only [Option.bind_eq_bind, Option.pure_def]
      rw [sub?_eq_some.mpr ⟨hle, rfl⟩]; exact ⟨_, rfl⟩
    | some j =>
      simp only [Option.bind_eq_bind, Option.pure_def]
      rw [sub?_eq_some.mpr ⟨(by omega : dep.totalLocked ≤ g.totalLocked W + cur.totalLocked), rfl⟩]
      exact ⟨_, rfl⟩

theorem updateTotalEnergy_ok {g : St} {W : Nat} {dep cur : Energy}
    (h : dep.getEnergyAmount ≤ g.totalEnergy W) : ∃ g1, updateTotalEnergy g W dep cur = some g1 := by
  simp only [updateTotalEnergy, Option.bind_eq_bind, Option.pure_def]
  rw [sub?_eq_some.mpr ⟨h, rfl⟩]; exact ⟨_, rfl⟩

/-- **`update_user_energy_for_current_week` cannot abort** (for any user `u0` and any current energy) -/
theorem updateUser_ok {g : St} {W u0 : Nat} (cur : Energy) (hW : 1 ≤ W) (hI : GInv g)
    (hle : g.lastGlobalUpdateWeek ≤ W) :
    ∃ g', updateUserEnergyForCurrentWeek g W cur (g.progress u0) = some g' := by
  rw [updateUserEnergyForCurrentWeek_eq]
  obtain ⟨g1, h1⟩ := performWeeklyUpdate_ok hI hle
  obtain ⟨⟨o, hR⟩, hlgw, hprog, husers⟩ := performWeeklyUpdate_GRel hW hI h1
  have hP : PRel g.progress g.users W := hlgw ▸ hR.p
  have hL : LRel g.progress g.users g1.firstBucketId g1.buckets W (g1.totalEnergy W)
      (g1.totalLocked W) o := by have := hR.l; rw [hlgw] at this; exact this
  obtain ⟨hb1, hb2, hb3, hb4⟩ := prev_bridge (g.progress u0) W (fun p hp => (hP.pos u0 p hp).2)
  have hla : (prevOf (g.progress u0)).1 ≤ W := by
    cases hq : g.progress u0 with
    | none => exact Nat.zero_le _
    | some p => exact (hP.pos u0 p hq).2
  generalize hl0 : lotAt (g.progress u0) W = l0 at hb1 hb2 hb3 hb4
  generalize hprev : (prevOf (g.progress u0)).2 = prev at *
  generalize hdep : depletedPrev prev W (prevOf (g.progress u0)).1 = dep at *
  have hopt := bucketIdFor_dep g1.firstBucketId dep l0 hb1 hb2
  obtain ⟨rT, oT, k1, k2, k3, k4, k5⟩ := old_lot_cases l0 g1.firstBucketId
  rw [← hopt] at k2 k3 k4 k5
  -- the user's lot is one of the summands (an absent entry is the empty lot)
  have nl0 : ¬ (Lot.Live ⟨0, 0, W⟩) := fun h => by have := h.1; simp at this
  have hsum : ∀ (f : Lot → Nat), f ⟨0, 0, W⟩ = 0 →
      f l0 ≤ usum g.users (fun u => f (lotAt (g.progress u) W)) := by
    intro f hf
    cases hq : g.progress u0 with
    | none =>
      rw [hq] at hl0
      have : l0 = ⟨0, 0, W⟩ := by rw [← hl0]; rfl
      rw [this, hf]; exact Nat.zero_le _
    | some p =>
      have hm : u0 ∈ g.users := hP.mem u0 (by rw [hq]; exact fun e => by cases e)
      have := le_usum (f := fun u => f (lotAt (g.progress u) W)) hm
      simp only [hl0] at this
      exact this
  -- reallocate
  obtain ⟨⟨g2, bp⟩, hre⟩ := reallocate_ok (g := g1) (orig := prev) (dep := dep) (cur := cur) (by
    intro id hid
    have hsome : (bucketIdFor g1.firstBucketId dep).isSome := by rw [hid]; rfl
    obtain ⟨e1, e2⟩ := k2 hsome
    have hT : l0.T ≠ 0 := by
      intro hz
      rw [hopt] at hid
      simp [hz] at hid
    have hTpos : 0 < l0.T := by omega
    -- the bucket index as an offset from the first bucket
    have hidx : ∃ d, id = g1.firstBucketId + d := by
      rw [hopt] at hid
      simp only [hT, if_false] at hid
      split at hid
      · cases hid
      · simp only [Option.some.injEq] at hid
        exact ⟨l0.contrib / l0.T / 7, by omega⟩
    obtain ⟨d, rfl⟩ := hidx
    have h4 := k4 d
    have h5 := k5 d
    rw [hid] at h4 h5
    simp only [if_true, e2] at h4 h5
    have q1 := hL.bTok d
    have q2 := hL.bSur d
    have s1 := hsum (fun l => l.bTok d) (by simp [Lot.bTok, nl0])
    have s2 := hsum (fun l => l.bSur d) (by simp [Lot.bSur, nl0])
    constructor
    · rw [hb3, q1]
      have : l0.bTok d = l0.T := by
        rw [h4]; split <;> omega
      omega
    · rw [hb4 hTpos, q2]
      omega)
  obtain ⟨hbp, _, hfr, _⟩ := reallocate_spec hre
  -- total tokens
  obtain ⟨g3, htk⟩ := updateTotalTokens_ok (g := g2) (W := W) (bp := bp) (dep := dep) (cur := cur) (by
    intro hsome
    rw [hbp] at hsome
    obtain ⟨e1, e2⟩ := k2 hsome
    have hT : l0.T ≠ 0 := by
      intro hz
      rw [hopt] at hsome
      simp [hz] at hsome
    have s1 := hsum Lot.tok (by simp [Lot.tok, nl0])
    have q := hL.tokens
    rw [hfr.totalLocked, hb2]
    omega)
  obtain ⟨t1, t2, t3, t4, _⟩ := updateTotalTokens_spec htk
  -- total energy
  obtain ⟨g4, hen⟩ := updateTotalEnergy_ok (g := g3) (W := W) (dep := dep) (cur := cur) (by
    have s1 := hsum Lot.contrib (by simp [Lot.contrib])
    have q := hL.energy
    rw [t4, hfr.totalEnergy, hb1]
    omega)
  simp only [updateGlobal, h1, Option.bind_eq_bind, Option.bind_some, req, hla, if_true, hdep, hre, htk]
  exact ⟨g4, hen⟩

end Mx.Weekly
