/-
  Composition of the metastaking proxy model (Core/DualYield.lean) with the MODEL of its callee, the
  staking farm (Core/Staking.lean): what `stakeFarmThroughProxy` / `unstakeFarmThroughProxy` return
  for the values the proxy passes.  Used by Props/C15Run to discharge the callee hypotheses of
  Props/C15 (`hfarm`).
-/
import MxModel.Lemmas.DualYieldSupply
import MxModel.Lemmas.StakingPos
import MxModel.Lemmas.AccessModelsStaking

namespace Mx.DualYield

/-- the staking farm creates a position for the staked amount plus the merged-in positions, and
    refuses a zero amount (`stake_farm_common`, `merge_attributes_from_payments`) -/
theorem stakeCore_amount {σ σ' : Staking.St} {c orig amount : Nat} {v : Bool}
    {adds : List Staking.Pay} {o : Staking.Out}
    (h : Staking.stakeCore σ c orig amount v adds = some (σ', o)) :
    0 < amount ∧ o.b = amount + Staking.payTot adds := by
  cases v <;>
  · simp only [Staking.stakeCore, Option.bind_eq_bind, Option.bind_eq_some_iff, req_eq_some,
      sub?_eq_some, Option.pure_def, Option.some.injEq, Prod.mk.injEq] at h
    obtain ⟨_, hpos, hold0, _, r, _, res1, _, _, _, ut1, _, g, _, merged, hm, w2, _,
      bal1, _, _, rfl⟩ := h
    exact ⟨hpos, (Staking.mergeParts_amount hm).1⟩

/-- the staking-farm amount a stake with merging hands to the staking farm as additional payments
    is the sum of the dual-yield amounts paid -/
theorem releaseAll_stTotal {s : St} {u : Nat} {ms : List (Nat × Nat)} {q : St × Nat × Nat}
    (h : releaseAll s u ms = some q) : q.2.2 = (ms.map (·.2)).sum := by
  induction ms generalizing s q with
  | nil =>
    simp only [releaseAll, Option.some.injEq] at h
    subst h; rfl
  | cons a ms ih =>
    obtain ⟨d, x⟩ := a
    simp only [releaseAll, Option.bind_eq_bind, Option.bind_eq_some_iff, Option.pure_def,
      Option.some.injEq] at h
    obtain ⟨r, _, q', hq', rfl⟩ := h
    simp only [List.map_cons, List.sum_cons, ih hq']

end Mx.DualYield
