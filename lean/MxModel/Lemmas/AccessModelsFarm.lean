/-
  Access / pause facts about the EXECUTABLE farm model (Core/Farm.lean; kinds `mint` = dex/farm and
  `noMint` = farm-with-locked-rewards), proved from the building-block spec lemmas of
  Lemmas/FarmSpec.lean (helper lemmas for Props/C19Models.lean).
-/
import MxModel.Lemmas.FarmPos

namespace Mx.Farm

open Mx.Weekly (upd Energy)

/-! ### the kill switch is not touched by any building block -/

theorem takePayments_active {l : List (Nat × Nat)} {s s' : St} {c : Nat}
    (h : takePayments s c l = some s') : s'.active = s.active := by
  obtain ⟨_, rfl⟩ := takePayments_spec l h; rfl
theorem claimBoostedYields_active {s s' : St} {u r : Nat} (h : claimBoostedYields s u = some (s', r)) :
    s'.active = s.active := by obtain ⟨_, _, rfl⟩ := claimBoostedYields_struct h; rfl
theorem payReward_active {s s' : St} {u b bo : Nat} (h : payReward s u b bo = some s') :
    s'.active = s.active := by obtain ⟨_, _, rfl, _⟩ := payReward_spec h; rfl
theorem payRewardIf_active {s s' : St} {k : Kind} {u b bo : Nat} (h : payRewardIf s k u b bo = some s') :
    s'.active = s.active := by
  unfold payRewardIf at h
  split at h
  · exact payReward_active h
  · simp only [Option.some.injEq] at h; rw [← h]
theorem claimOnlyBoostedPayment_active {s s' : St} {u r : Nat}
    (h : claimOnlyBoostedPayment s u = some (s', r)) : s'.active = s.active := by
  simp only [claimOnlyBoostedPayment, Option.bind_eq_bind, Option.bind_eq_some_iff, Option.pure_def] at h
  obtain ⟨⟨s1, r1⟩, h1, h⟩ := h
  have k1 := claimBoostedYields_active h1
  split at h
  · simp only [Option.some.injEq, Prod.mk.injEq] at h
    obtain ⟨rfl, _⟩ := h; exact k1
  · simp only [Option.bind_eq_some_iff, sub?_eq_some, Option.some.injEq, Prod.mk.injEq] at h
    obtain ⟨_, _, rfl, _⟩ := h; exact k1
theorem generate_active {s s' : St} {c c' : Cache} (h : generate s c = some (s', c')) :
    s'.active = s.active := by obtain ⟨_, rfl, _⟩ := generate_spec h; rfl
theorem settle_active {s s' : St} (h : settle s = some s') : s'.active = s.active := by
  simp only [settle, Option.bind_eq_bind, Option.bind_eq_some_iff, Option.pure_def, Option.some.injEq] at h
  obtain ⟨⟨s1, c1⟩, h1, h2⟩ := h
  have := generate_active h1
  rw [← h2]
  exact this

/-! ### every user endpoint that moves funds needs the farm Active -/

theorem enterCore_needs_active {s : St} {caller orig tokenTo amt : Nat} {extra : List (Nat × Nat)}
    {r : St × Out} (h : enterCore s caller orig tokenTo amt extra = some r) : s.active = true := by
  simp only [enterCore, Option.bind_eq_bind, Option.bind_eq_some_iff, req_eq_some, Option.pure_def] at h
  obtain ⟨_, _, s0, h0, ⟨s1, boosted⟩, h1, s1', h1', _, hact, _⟩ := h
  have k0 : s0.active = s.active := takePayments_active h0
  have k1 : s1.active = s.active := (claimOnlyBoostedPayment_active h1).trans k0
  rw [← k1, ← payRewardIf_active h1']; exact hact

theorem claimCore_needs_active {s : St} {caller orig : Nat} {pays : List (Nat × Nat)} {cmp : Bool}
    {r : St × Out} (h : claimCore s caller orig pays cmp = some r) : s.active = true := by
  simp only [claimCore, Option.bind_eq_bind, Option.bind_eq_some_iff, req_eq_some, Option.pure_def] at h
  obtain ⟨⟨n1, a1⟩, _, s0, h0, _, hact, _⟩ := h
  rw [← takePayments_active h0]; exact hact

theorem origCaller_spec {s : St} {caller : Nat} {opt : Option Nat} {orig : Nat}
    (h : origCaller s caller opt = some orig) :
    (opt = none ∧ orig = caller) ∨ (opt = some orig ∧ caller ∈ s.scWl) := by
  cases opt with
  | none =>
    simp only [origCaller, Option.some.injEq] at h
    exact Or.inl ⟨rfl, h.symm⟩
  | some o =>
    simp only [origCaller, Option.bind_eq_bind, Option.bind_eq_some_iff, req_eq_some, Option.pure_def,
      Option.some.injEq] at h
    obtain ⟨_, hw, rfl⟩ := h
    exact Or.inr ⟨rfl, hw⟩

theorem enterFarm_spec {s : St} {caller : Nat} {opt : Option Nat} {amt : Nat} {extra : List (Nat × Nat)}
    {r : St × Out} (h : enterFarm s caller opt amt extra = some r) :
    ∃ orig, origCaller s caller opt = some orig ∧ enterCore s caller orig caller amt extra = some r := by
  simp only [enterFarm, Option.bind_eq_bind, Option.bind_eq_some_iff] at h
  exact h

theorem claimRewards_spec {s : St} {caller : Nat} {opt : Option Nat} {pays : List (Nat × Nat)}
    {r : St × Out} (h : claimRewards s caller opt pays = some r) :
    ∃ orig, origCaller s caller opt = some orig ∧ claimCore s caller orig pays false = some r := by
  simp only [claimRewards, Option.bind_eq_bind, Option.bind_eq_some_iff] at h
  exact h

theorem compoundRewards_spec {s : St} {caller : Nat} {opt : Option Nat} {pays : List (Nat × Nat)}
    {r : St × Out} (h : compoundRewards s caller opt pays = some r) :
    s.kind = .mint ∧
    ∃ orig, origCaller s caller opt = some orig ∧ claimCore s caller orig pays true = some r := by
  simp only [compoundRewards, Option.bind_eq_bind, Option.bind_eq_some_iff, req_eq_some] at h
  obtain ⟨_, hk, h⟩ := h
  exact ⟨hk, h⟩

set_option maxHeartbeats 1000000 in
theorem exitFarm_needs {s : St} {caller : Nat} {opt : Option Nat} {n a : Nat} {r : St × Out}
    (h : exitFarm s caller opt n a = some r) :
    s.active = true ∧ ∃ orig, origCaller s caller opt = some orig := by
  simp (config := { maxSteps := 1000000 }) only [exitFarm, Option.bind_eq_bind, Option.bind_eq_some_iff,
    req_eq_some, Option.pure_def] at h
  obtain ⟨orig, ho, s0, h0, _, hact, _⟩ := h
  exact ⟨by rw [← takePayments_active h0]; exact hact, orig, ho⟩

theorem mergeFarmTokens_needs {s : St} {caller : Nat} {opt : Option Nat} {pays : List (Nat × Nat)}
    {r : St × Out} (h : mergeFarmTokens s caller opt pays = some r) :
    s.active = true ∧ ∃ orig, origCaller s caller opt = some orig := by
  simp only [mergeFarmTokens, Option.bind_eq_bind, Option.bind_eq_some_iff, req_eq_some, Option.pure_def] at h
  obtain ⟨_, hact, orig, ho, _⟩ := h
  exact ⟨hact, orig, ho⟩

theorem claimBoostedRewards_needs {s : St} {caller : Nat} {optUser : Option Nat} {r : St × Out}
    (h : claimBoostedRewards s caller optUser = some r) :
    s.active = true ∧ optUser.getD caller = caller := by
  simp only [claimBoostedRewards, Option.bind_eq_bind, Option.bind_eq_some_iff, req_eq_some, Option.pure_def] at h
  obtain ⟨_, hu, _, _, _, hact, _⟩ := h
  exact ⟨hact, hu⟩

/-! ### acting on behalf of another user -/

theorem hubAllows_iff (s : St) (user caller : Nat) :
    hubAllows s user caller = true ↔ caller ∉ s.hubBl ∧ (user, caller) ∈ s.hubWl := by
  simp [hubAllows]

theorem enterFarmOnBehalf_spec {s : St} {caller user amt : Nat} {extra : List (Nat × Nat)} {r : St × Out}
    (h : enterFarmOnBehalf s caller user amt extra = some r) :
    hubAllows s user caller = true ∧ allOwnedBy s user extra = true ∧
    enterCore s caller user caller amt extra = some r := by
  simp only [enterFarmOnBehalf, Option.bind_eq_bind, Option.bind_eq_some_iff, req_eq_some] at h
  obtain ⟨_, h1, _, h2, h3⟩ := h
  exact ⟨h1, h2, h3⟩

theorem claimRewardsOnBehalf_spec {s : St} {caller : Nat} {pays : List (Nat × Nat)} {r : St × Out}
    (h : claimRewardsOnBehalf s caller pays = some r) :
    ∃ user, claimOwner s pays = some user ∧ hubAllows s user caller = true ∧
      claimCore s caller user pays false = some r := by
  simp only [claimRewardsOnBehalf, Option.bind_eq_bind, Option.bind_eq_some_iff, req_eq_some] at h
  obtain ⟨_, _, user, hu, _, ha, hc⟩ := h
  exact ⟨user, hu, ha, hc⟩

/-- `get_claim_original_owner` returns the owner recorded in EVERY payment -/
theorem claimOwner_all : ∀ (pays : List (Nat × Nat)) {s : St} {u : Nat}, claimOwner s pays = some u →
    pays ≠ [] ∧ ∀ p ∈ pays, ∃ att, s.attrs p.1 = some att ∧ att.owner = u := by
  intro pays
  induction pays with
  | nil => intro s u h; simp [claimOwner] at h
  | cons p rest ih =>
    intro s u h
    obtain ⟨n, a⟩ := p
    refine ⟨List.cons_ne_nil _ _, ?_⟩
    cases rest with
    | nil =>
      simp only [claimOwner, Option.bind_eq_bind, Option.bind_eq_some_iff, Option.pure_def,
        Option.some.injEq] at h
      obtain ⟨att, hat, rfl⟩ := h
      intro p hp
      simp only [List.mem_singleton] at hp
      subst hp
      exact ⟨att, hat, rfl⟩
    | cons q rest' =>
      rw [claimOwner] at h
      simp only [Option.bind_eq_bind, Option.bind_eq_some_iff, Option.pure_def,
        Option.some.injEq, req_eq_some] at h
      obtain ⟨att, hat, o, ho, _, heq, rfl⟩ := h
      have hrest := (ih (s := s) (u := o) ho).2
      intro p hp
      rcases List.mem_cons.mp hp with rfl | hp
      · exact ⟨att, hat, heq.symm⟩
      · exact hrest p hp

/-! ### where the reward goes: the energy account credited by a locked-rewards farm -/

theorem lockVirtual_energy_other {s s' : St} {u a : Nat} (h : lockVirtual s u a = some s') {x : Nat}
    (hx : x ≠ u) : s'.energy x = s.energy x := by
  simp only [lockVirtual, Option.bind_eq_bind, Option.bind_eq_some_iff, req_eq_some, Option.pure_def,
    Option.some.injEq] at h
  obtain ⟨_, _, rfl⟩ := h
  exact Mx.Weekly.upd_other _ _ hx

theorem payReward_energy_other {s s' : St} {u b bo : Nat} (h : payReward s u b bo = some s') {x : Nat}
    (hx : x ≠ u) : s'.energy x = s.energy x := by
  unfold payReward at h
  simp only [Option.bind_eq_bind, Option.pure_def] at h
  split at h
  · simp only [Option.some.injEq] at h; subst h; rfl
  · split at h
    · simp only [Option.bind_eq_some_iff, sub?_eq_some, Option.some.injEq] at h
      obtain ⟨_, _, rfl⟩ := h; rfl
    · exact lockVirtual_energy_other h hx

/-- in a locked-rewards farm a non-zero payment IS a virtual lock for the energy account `u` -/
theorem payReward_noMint {s s' : St} {u b bo : Nat} (hk : s.kind = .noMint) (hpos : b + bo ≠ 0)
    (h : payReward s u b bo = some s') :
    lockVirtual { s with paid := s.paid + (b + bo), paidBase := s.paidBase + b
                         paidBoosted := s.paidBoosted + bo } u (b + bo) = some s' := by
  unfold payReward at h
  simp only [Option.bind_eq_bind, Option.pure_def, hpos, if_false] at h
  split at h
  · rename_i hm; rw [hk] at hm; cases hm
  · exact h


/-- what the model records about the payee of a (non-compounding) claim run for `orig`: the new
    position (nonce `o.nonce`) records `orig` as original owner and lands in the CALLER's account;
    the reward is paid by `payReward … orig …`, so no energy entry other than `orig`'s changes (in a
    locked-rewards farm the payout IS a virtual lock crediting `orig`'s energy); and
    `o.rew = o.base + o.boosted` with `o.boosted` the result of `claimBoostedYields … orig`. -/
theorem claimCore_payee {s s' : St} {caller orig : Nat} {pays : List (Nat × Nat)} {o : Out}
    (h : claimCore s caller orig pays false = some (s', o)) :
    (∀ x, x ≠ orig → s'.energy x = s.energy x) ∧
    (∃ att, s'.attrs o.nonce = some att ∧ att.owner = orig ∧ att.amt = o.amt) ∧
    o.rew = o.base + o.boosted ∧
    ∃ s1 s2, claimBoostedYields s1 orig = some (s2, o.boosted) := by
  simp only [claimCore, Option.bind_eq_bind, Option.bind_eq_some_iff, req_eq_some, Option.pure_def,
    Option.some.injEq, Prod.mk.injEq, sub?_eq_some, Bool.false_eq_true, if_false] at h
  obtain ⟨⟨n1, a1⟩, _, s0, h0, _, hact, _, hsame, at1, hat, ⟨s1, c1⟩, h1, part, hpart, ⟨s2, boosted⟩, h2,
    res, ⟨hle, rfl⟩, s3, h3, merged, hm, ⟨s5, n⟩, h5, s6, h6, s8, h8, rfl, rfl⟩ := h
  have e0 : s0.energy = s.energy := by obtain ⟨_, rfl⟩ := takePayments_spec _ h0; rfl
  have e1 : s1.energy = s0.energy := by obtain ⟨_, rfl, _⟩ := generate_spec h1; rfl
  have e2 : s2.energy = s1.energy := by obtain ⟨_, _, rfl⟩ := claimBoostedYields_struct h2; rfl
  have e3 : s3.energy = s2.energy := by obtain ⟨_, rfl⟩ := checkAndUpdate_spec _ h3; rfl
  obtain ⟨_, hn, hs5⟩ := createToken_spec h5
  have e5 : s5.energy = s3.energy := by rw [hs5]
  have a5 : s5.attrs n = some merged := by rw [hs5, hn]; exact Mx.Weekly.upd_same _ _ _
  obtain ⟨_, _, hs6⟩ := setFarmSupplyWeek_spec h6
  have e6 : s6.energy = s5.energy := by rw [hs6]
  have a6 : s6.attrs = s5.attrs := by rw [hs6]
  simp only [claimTail, Bool.false_eq_true, if_false] at h8
  have a8 : s8.attrs = s6.attrs := by
    obtain ⟨_, _, hs8, _⟩ := payReward_spec h8; rw [hs8]; rfl
  obtain ⟨hamt, hown⟩ := mergeParts_amt _ hm
  refine ⟨fun x hx => ?_, ⟨merged, ?_, ?_, rfl⟩, rfl, s1, s2, h2⟩
  · rw [payReward_energy_other h8 hx]
    show s6.energy x = s.energy x
    rw [e6, e5, e3, e2, e1, e0]
  · rw [a8, a6]; exact a5
  · rw [hown]

/-! ### admin endpoints: the caller is an admin; only `pause` / `resume` move the kill switch -/

theorem setPerBlock_admin {s s' : St} {c x : Nat} (h : setPerBlock s c x = some s') :
    s.isAdmin c = true ∧ s'.active = s.active := by
  simp only [setPerBlock, Option.bind_eq_bind, Option.bind_eq_some_iff, req_eq_some, Option.pure_def,
    Option.some.injEq] at h
  obtain ⟨_, ha, _, _, s1, h1, rfl⟩ := h
  have hs := settle_active h1
  exact ⟨ha, hs⟩

theorem endProduce_admin {s s' : St} {c : Nat} (h : endProduce s c = some s') :
    s.isAdmin c = true ∧ s'.active = s.active := by
  simp only [endProduce, Option.bind_eq_bind, Option.bind_eq_some_iff, req_eq_some, Option.pure_def,
    Option.some.injEq] at h
  obtain ⟨_, ha, s1, h1, rfl⟩ := h
  have hs := settle_active h1
  exact ⟨ha, hs⟩

theorem startProduce_admin {s s' : St} {c : Nat} (h : startProduce s c = some s') :
    s.isAdmin c = true ∧ s'.active = s.active := by
  simp only [startProduce, Option.bind_eq_bind, Option.bind_eq_some_iff, req_eq_some, Option.pure_def,
    Option.some.injEq] at h
  obtain ⟨_, ha, _, _, _, _, rfl⟩ := h
  exact ⟨ha, rfl⟩

theorem setPct_admin {s s' : St} {c p : Nat} (h : setPct s c p = some s') :
    s.isAdmin c = true ∧ s'.active = s.active := by
  simp only [setPct, Option.bind_eq_bind, Option.bind_eq_some_iff, req_eq_some, Option.pure_def,
    Option.some.injEq] at h
  obtain ⟨_, ha, _, _, s1, h1, rfl⟩ := h
  have hs := settle_active h1
  exact ⟨ha, hs⟩

theorem setFactors_admin {s s' : St} {c : Nat} {f : Factors} (h : setFactors s c f = some s') :
    s.isAdmin c = true ∧ s'.active = s.active := by
  simp only [setFactors, Option.bind_eq_bind, Option.bind_eq_some_iff, req_eq_some] at h
  obtain ⟨_, ha, _, _, _, _, W, _, h⟩ := h
  refine ⟨ha, ?_⟩
  split at h
  · simp only [Option.bind_eq_bind, Option.bind_eq_some_iff, Option.pure_def, Option.some.injEq] at h
    obtain ⟨_, _, rfl⟩ := h; rfl
  · simp only [Option.pure_def, Option.some.injEq] at h
    subst h; rfl

theorem collectUndistributed_admin {s s' : St} {c : Nat} (h : collectUndistributed s c = some s') :
    s.isAdmin c = true ∧ s'.active = s.active := by
  simp only [collectUndistributed, Option.bind_eq_bind, Option.bind_eq_some_iff, req_eq_some] at h
  obtain ⟨_, ha, W, _, _, _, h⟩ := h
  refine ⟨ha, ?_⟩
  split at h
  · simp only [Option.pure_def, Option.some.injEq] at h
    subst h; rfl
  · simp only [Option.pure_def, Option.some.injEq] at h
    subst h; rfl

theorem setActive_admin {s s' : St} {c : Nat} {v : Bool} (h : setActive s c v = some s') :
    s.isAdmin c = true ∧ s' = { s with active := v } := by
  simp only [setActive, Option.bind_eq_bind, Option.bind_eq_some_iff, req_eq_some, Option.pure_def,
    Option.some.injEq] at h
  obtain ⟨_, ha, rfl⟩ := h
  exact ⟨ha, rfl⟩

theorem setPenalty_admin {s s' : St} {c p : Nat} (h : setPenalty s c p = some s') :
    s.isAdmin c = true ∧ s'.active = s.active := by
  simp only [setPenalty, Option.bind_eq_bind, Option.bind_eq_some_iff, req_eq_some, Option.pure_def,
    Option.some.injEq] at h
  obtain ⟨_, ha, _, _, rfl⟩ := h
  exact ⟨ha, rfl⟩

theorem setMinEpochs_admin {s s' : St} {c n : Nat} (h : setMinEpochs s c n = some s') :
    s.isAdmin c = true ∧ s'.active = s.active := by
  simp only [setMinEpochs, Option.bind_eq_bind, Option.bind_eq_some_iff, req_eq_some, Option.pure_def,
    Option.some.injEq] at h
  obtain ⟨_, ha, _, _, rfl⟩ := h
  exact ⟨ha, rfl⟩

theorem noOut_some {r : Option St} {s' : St} {o : Out} (h : noOut r = some (s', o)) : r = some s' := by
  cases r with
  | none => simp [noOut] at h
  | some x =>
    simp only [noOut, Option.map_some, Option.some.injEq, Prod.mk.injEq] at h
    rw [h.1]

theorem known_some {s : St} {c : Nat} {r : Option (St × Out)} {x : St × Out}
    (h : known s c r = some x) : c ∈ s.users ∧ r = some x := by
  unfold known at h
  split at h
  · exact ⟨by assumption, h⟩
  · cases h

theorem updateEnergyForUser_active {s s' : St} {u : Nat} (h : updateEnergyForUser s u = some s') :
    s'.active = s.active := by
  simp only [updateEnergyForUser, Option.bind_eq_bind, Option.bind_eq_some_iff, Option.pure_def,
    Option.some.injEq] at h
  obtain ⟨_, _, _, _, rfl⟩ := h; rfl

theorem transfer_active {s s' : St} {a b n x : Nat} (h : transfer s a b n x = some s') :
    s'.active = s.active := by
  simp only [transfer, Option.bind_eq_bind, Option.bind_eq_some_iff, req_eq_some, sub?_eq_some,
    Option.pure_def, Option.some.injEq] at h
  obtain ⟨_, _, _, _, _, _, _, _, rfl⟩ := h; rfl


/-! ### the kill switch over `step` -/

def isResume : Op → Bool
  | .resume _ => true
  | _ => false

/-- what a successful `step` says about the kill switch: a user endpoint that moves funds ran on an
    Active farm; everything else except `pause` / `resume` leaves the switch alone -/
theorem step_active {s s' : St} {op : Op} {o : Out} (h : step s op = some (s', o)) :
    match op with
    | .enter .. | .enterOB .. | .claim .. | .claimOB .. | .compound .. | .exit .. | .merge ..
    | .claimBoosted .. => s.active = true
    | .pause c => s.isAdmin c = true ∧ s'.active = false
    | .resume c => s.isAdmin c = true ∧ s'.active = true
    | _ => s'.active = s.active := by
  cases op with
  | enter c o' a e =>
    obtain ⟨_, h⟩ := known_some h
    obtain ⟨_, _, h⟩ := enterFarm_spec h
    exact enterCore_needs_active h
  | enterOB c u a e =>
    obtain ⟨_, h⟩ := known_some h
    exact enterCore_needs_active (enterFarmOnBehalf_spec h).2.2
  | claim c o' p =>
    obtain ⟨_, h⟩ := known_some h
    obtain ⟨_, _, h⟩ := claimRewards_spec h
    exact claimCore_needs_active h
  | claimOB c p =>
    obtain ⟨_, h⟩ := known_some h
    obtain ⟨_, _, _, h⟩ := claimRewardsOnBehalf_spec h
    exact claimCore_needs_active h
  | compound c o' p =>
    obtain ⟨_, h⟩ := known_some h
    obtain ⟨_, _, _, h⟩ := compoundRewards_spec h
    exact claimCore_needs_active h
  | exit c o' n a =>
    obtain ⟨_, h⟩ := known_some h
    exact (exitFarm_needs h).1
  | merge c o' p =>
    obtain ⟨_, h⟩ := known_some h
    exact (mergeFarmTokens_needs h).1
  | claimBoosted c u =>
    obtain ⟨_, h⟩ := known_some h
    exact (claimBoostedRewards_needs h).1
  | transfer a b n x =>
    obtain ⟨_, h⟩ := known_some h
    obtain ⟨_, h⟩ := known_some h
    exact transfer_active (noOut_some h)
  | setEnergy u a l t =>
    simp only [step, Option.some.injEq, Prod.mk.injEq] at h
    obtain ⟨rfl, _⟩ := h; rfl
  | updateEnergy u => exact updateEnergyForUser_active (noOut_some h)
  | setPerBlock c x => exact (setPerBlock_admin (noOut_some h)).2
  | startProduce c => exact (startProduce_admin (noOut_some h)).2
  | endProduce c => exact (endProduce_admin (noOut_some h)).2
  | setPct c p => exact (setPct_admin (noOut_some h)).2
  | setFactors c f => exact (setFactors_admin (noOut_some h)).2
  | collect c => exact (collectUndistributed_admin (noOut_some h)).2
  | pause c =>
    obtain ⟨ha, rfl⟩ := setActive_admin (noOut_some h)
    exact ⟨ha, rfl⟩
  | resume c =>
    obtain ⟨ha, rfl⟩ := setActive_admin (noOut_some h)
    exact ⟨ha, rfl⟩
  | setPenalty c p => exact (setPenalty_admin (noOut_some h)).2
  | setMinEpochs c n => exact (setMinEpochs_admin (noOut_some h)).2
  | hubWhitelist u a =>
    simp only [step] at h
    split at h
    · cases h
    · simp only [Option.some.injEq, Prod.mk.injEq] at h
      obtain ⟨rfl, _⟩ := h; rfl
  | hubRemove u a =>
    simp only [step] at h
    split at h
    · simp only [Option.some.injEq, Prod.mk.injEq] at h
      obtain ⟨rfl, _⟩ := h; rfl
    · cases h
  | hubBlacklist a =>
    simp only [step, Option.some.injEq, Prod.mk.injEq] at h
    obtain ⟨rfl, _⟩ := h; rfl
  | scWhitelist a =>
    simp only [step] at h
    split at h
    · cases h
    · simp only [Option.some.injEq, Prod.mk.injEq] at h
      obtain ⟨rfl, _⟩ := h; rfl
  | scUnwhitelist a =>
    simp only [step] at h
    split at h
    · simp only [Option.some.injEq, Prod.mk.injEq] at h
      obtain ⟨rfl, _⟩ := h; rfl
    · cases h
  | advance b e =>
    simp only [step] at h
    split at h
    · simp only [Option.some.injEq, Prod.mk.injEq] at h
      obtain ⟨rfl, _⟩ := h; rfl
    · cases h
  | bad => simp [step] at h

/-- a paused farm stays paused under every successful operation that is not `resume` -/
theorem step_keeps_inactive {s s' : St} {op : Op} {o : Out} (hp : s.active = false)
    (h : step s op = some (s', o)) (hop : isResume op = false) : s'.active = false := by
  have := step_active h
  cases op <;> simp only [isResume] at hop <;> simp only at this <;>
    first
      | (rw [hp] at this; cases this)
      | exact this.2
      | (rw [this]; exact hp)
      | cases hop

theorem run_keeps_inactive (ops : List Op) {s : St} (hp : s.active = false)
    (hno : ∀ op ∈ ops, isResume op = false) : (run s ops).active = false := by
  induction ops generalizing s with
  | nil => exact hp
  | cons op rest ih =>
    simp only [run, List.foldl_cons]
    have hrest : ∀ x ∈ rest, isResume x = false := fun x hx => hno x (List.mem_cons_of_mem _ hx)
    cases hs : step s op with
    | none => exact ih hp hrest
    | some r =>
      obtain ⟨s', o⟩ := r
      exact ih (step_keeps_inactive hp hs (hno op List.mem_cons_self)) hrest

end Mx.Farm
