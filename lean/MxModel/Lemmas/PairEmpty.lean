/-
  The pair while it has no liquidity: with `S = 0` both reserves are 0 (every reserve-moving
  endpoint other than the first deposit aborts), and the first deposit — through either
  `addInitialLiquidity` or the first `addLiquidity` — sets `S = min a₁ a₂`, `r = (a₁, a₂)`.
  Consequence: `S² ≤ r₁·r₂` in every state a history can reach (C02's base case made part of the
  reachable invariant).
-/
import MxModel.Lemmas.PairK

namespace Mx.Pair

/-- a pool without LP supply has empty reserves -/
def EmptyOK (s : St) : Prop := s.S = 0 → s.r1 = 0 ∧ s.r2 = 0

/-- every LP unit is backed by at least one unit of `√(r₁r₂)` -/
def SqLe (s : St) : Prop := s.S ^ 2 ≤ s.r1 * s.r2

theorem emptyOK_init (t sp : Nat) (ad : Option Nat) (cap : Nat) : EmptyOK (init t sp ad cap) :=
  fun _ => ⟨rfl, rfl⟩

theorem sqLe_init (t sp : Nat) (ad : Option Nat) (cap : Nat) : SqLe (init t sp ad cap) := by
  simp [SqLe, init]

/-- one successful operation on an empty pool: either the pool stays empty, or it was the first
    deposit `(a₁, a₂)` (min above 1000), which sets supply and reserves -/
theorem step_from_empty {s s' : St} {op : Op} {o : Out} (hS : s.S = 0) (h1 : s.r1 = 0) (h2 : s.r2 = 0)
    (h : step s op = some (s', o)) :
    (s'.S = 0 ∧ s'.r1 = 0 ∧ s'.r2 = 0) ∨
    (∃ a1 a2, MINLIQ < min a1 a2 ∧ s'.S = min a1 a2 ∧ s'.r1 = a1 ∧ s'.r2 = a2) := by
  have hM : MINLIQ = 1000 := rfl
  have hrout : ∀ d : Dir, s.rout d = 0 := by intro d; cases d <;> simp [St.rout, h1, h2]
  cases op <;> simp only [step] at h
  case addInitial c a1 a2 =>
    obtain ⟨_, _, _, _, _, h6, _, rfl⟩ := addInitial_spec h
    exact Or.inr ⟨a1, a2, h6, rfl, by simp [h1], by simp [h2]⟩
  case addLiq a1 a2 m1 m2 =>
    obtain ⟨_, _, _, _, h5, _, rfl⟩ := addLiq_first_spec hS h
    exact Or.inr ⟨a1, a2, h5, rfl, by simp [h1], by simp [h2]⟩
  case removeLiq =>
    obtain ⟨_, _, _, _, h5, _⟩ := removeLiq_spec h
    omega
  case swapIn d a m =>
    obtain ⟨_, _, _, _, _, h4, _⟩ := swapIn_spec h
    rw [hrout d] at h4
    omega
  case swapOut d mx out =>
    obtain ⟨_, _, _, _, _, h4, _⟩ := swapOut_spec h
    rw [hrout d] at h4
    omega
  case swapNoFee c d a =>
    obtain ⟨_, _, _, _, _, h6, _⟩ := swapNoFee_spec h
    rw [hrout d] at h6
    omega
  case buyback =>
    obtain ⟨_, _, _, h3, _⟩ := buyback_spec h
    omega
  case cfg op =>
    simp only [Option.map_eq_some_iff, Prod.mk.injEq] at h
    obtain ⟨s1, hc, rfl, _⟩ := h
    left
    cases op <;>
      simp only [cfg, Option.bind_eq_bind, Option.bind_eq_some_iff, req_eq_some,
        Option.pure_def, Option.some.injEq] at hc
    case setFee => obtain ⟨_, _, rfl⟩ := hc; exact ⟨hS, h1, h2⟩
    case addDest => subst hc; exact ⟨hS, h1, h2⟩
    case removeDest => obtain ⟨_, _, rfl⟩ := hc; exact ⟨hS, h1, h2⟩
    case setCollector => obtain ⟨_, _, rfl⟩ := hc; exact ⟨hS, h1, h2⟩
    case setState => subst hc; exact ⟨hS, h1, h2⟩
    case whitelist => obtain ⟨_, _, rfl⟩ := hc; exact ⟨hS, h1, h2⟩
    case removeWhitelist => obtain ⟨_, _, rfl⟩ := hc; exact ⟨hS, h1, h2⟩
    case setTrusted f x =>
      cases f <;> simp only [cfg, Option.pure_def, Option.some.injEq] at hc <;> subst hc <;>
        exact ⟨hS, h1, h2⟩
  case advance =>
    split at h
    · simp only [Option.some.injEq, Prod.mk.injEq] at h
      obtain ⟨rfl, _⟩ := h
      exact Or.inl ⟨hS, h1, h2⟩
    · simp at h
  case lock =>
    simp only [Option.map_eq_some_iff, Prod.mk.injEq] at h
    obtain ⟨s1, hc, rfl, _⟩ := h
    obtain ⟨_, dl, ul, sc, rfl⟩ := lockCfg_spec hc
    exact Or.inl ⟨hS, h1, h2⟩
  case epoch =>
    split at h
    · simp only [Option.some.injEq, Prod.mk.injEq] at h
      obtain ⟨rfl, _⟩ := h
      exact Or.inl ⟨hS, h1, h2⟩
    · simp at h

theorem min_sq_le (a1 a2 : Nat) : (min a1 a2) ^ 2 ≤ a1 * a2 := by
  rw [Nat.pow_two]
  exact Nat.mul_le_mul (Nat.min_le_left _ _) (Nat.min_le_right _ _)

theorem step_emptyOK {s s' : St} {op : Op} {o : Out} (hi : Inv s) (he : EmptyOK s)
    (h : step s op = some (s', o)) : EmptyOK s' := by
  have hM : MINLIQ = 1000 := rfl
  rcases Nat.eq_zero_or_pos s.S with hS | hS
  · obtain ⟨h1, h2⟩ := he hS
    rcases step_from_empty hS h1 h2 h with ⟨_, e1, e2⟩ | ⟨a1, a2, hm, e, _, _⟩
    · exact fun _ => ⟨e1, e2⟩
    · intro h0; omega
  · have := step_S_pos hi hS h
    intro h0; omega

theorem step_sqLe {s s' : St} {op : Op} {o : Out} (hi : Inv s) (he : EmptyOK s) (hq : SqLe s)
    (h : step s op = some (s', o)) : SqLe s' := by
  unfold SqLe at *
  rcases Nat.eq_zero_or_pos s.S with hS | hS
  · obtain ⟨h1, h2⟩ := he hS
    rcases step_from_empty hS h1 h2 h with ⟨e0, _, _⟩ | ⟨a1, a2, _, e, e1, e2⟩
    · rw [e0]; simp
    · rw [e, e1, e2]; exact min_sq_le a1 a2
  · have hsh := step_share hi hS h
    unfold ShareLe at hsh
    have hS2 : 0 < s.S ^ 2 := Nat.pow_pos hS
    apply Nat.le_of_mul_le_mul_right _ hS2
    calc s'.S ^ 2 * s.S ^ 2 = s.S ^ 2 * s'.S ^ 2 := Nat.mul_comm _ _
      _ ≤ s.r1 * s.r2 * s'.S ^ 2 := Nat.mul_le_mul_right _ hq
      _ ≤ s'.r1 * s'.r2 * s.S ^ 2 := hsh

/-- the three facts together along any history -/
theorem run_empty_sq (ops : List Op) {s : St} (hi : Inv s) (he : EmptyOK s) (hq : SqLe s) :
    EmptyOK (run s ops) ∧ SqLe (run s ops) := by
  induction ops generalizing s with
  | nil => exact ⟨he, hq⟩
  | cons op ops ih =>
    simp only [run, List.foldl_cons]
    cases hst : step s op with
    | none => exact ih hi he hq
    | some r =>
      obtain ⟨s1, o⟩ := r
      exact ih (step_inv hi hst) (step_emptyOK hi he hst) (step_sqLe hi he hq hst)

/-- share value is monotone along any history from ANY state satisfying the invariants — also from
    an empty pool, where the left-hand side is 0 -/
theorem run_share_all (ops : List Op) {s : St} (hi : Inv s) (he : EmptyOK s) :
    ShareLe s (run s ops) := by
  rcases Nat.eq_zero_or_pos s.S with hS | hS
  · obtain ⟨h1, _⟩ := he hS
    unfold ShareLe
    rw [h1, hS]
    simp
  · exact run_share ops hi hS

end Mx.Pair
