/-
  Spec lemmas of the router's administration endpoints around the LP token of a pair:
  `setTemporaryOwnerPeriod`, `clearPairTemporaryOwnerStorage`, `issueLpToken`, `setLocalRoles`,
  `upgradePair` (each up to its asynchronous call), the block-nonce advance and the environment
  flag `bareNext`, plus the frame they leave untouched.
-/
import MxModel.Lemmas.RouterUser

namespace Mx.Router

theorem setTmpPeriod_spec {s s' : St} {c : Addr} {n : Nat} {o : Out}
    (h : setTmpPeriod s c n = some (s', o)) :
    c = s.owner ∧ o = {} ∧ s' = { s with tmpPeriod := n } := by
  simp only [setTmpPeriod, Option.bind_eq_bind, Option.bind_eq_some_iff, req_eq_some,
    Option.pure_def, Option.some.injEq, Prod.mk.injEq] at h
  obtain ⟨_, h1, rfl, rfl⟩ := h
  exact ⟨h1, rfl, rfl⟩

theorem clearTmp_spec {s s' : St} {c : Addr} {o : Out} (h : clearTmp s c = some (s', o)) :
    c = s.owner ∧ o = { v1 := s.tmpOwners.length } ∧ s' = { s with tmpOwners := [] } := by
  simp only [clearTmp, Option.bind_eq_bind, Option.bind_eq_some_iff, req_eq_some,
    Option.pure_def, Option.some.injEq, Prod.mk.injEq] at h
  obtain ⟨_, h1, rfl, rfl⟩ := h
  exact ⟨h1, rfl, rfl⟩

theorem issueLp_spec {s s' : St} {c a : Addr} {o : Out} (h : issueLp s c a = some (s', o)) :
    s.active = true ∧ (c = s.owner ∨ s.creationEnabled = true) ∧
    checkIsPairSc s.pairMap s.pairs a = some () ∧
    ((getTmpOwner s.tmpOwners s.tmpPeriod s.block a).2 = none ∨
      (getTmpOwner s.tmpOwners s.tmpPeriod s.block a).2 = some c) ∧
    a ∈ s.noLp ∧ o = {} ∧
    s' = { s with tmpOwners := (getTmpOwner s.tmpOwners s.tmpPeriod s.block a).1 } := by
  simp only [issueLp, Option.bind_eq_bind, Option.bind_eq_some_iff, req_eq_some,
    Option.pure_def, Option.some.injEq, Prod.mk.injEq] at h
  obtain ⟨_, h1, _, h2, _, h3, _, h4, _, h5, rfl, rfl⟩ := h
  exact ⟨h1, h2, h3, h4, h5, rfl, rfl⟩

theorem setLocalRoles_spec {s s' : St} {c a : Addr} {o : Out}
    (h : setLocalRoles s c a = some (s', o)) :
    s.active = true ∧ checkIsPairSc s.pairMap s.pairs a = some () ∧ a ∉ s.noLp ∧ o = {} ∧
    s' = s := by
  simp only [setLocalRoles, Option.bind_eq_bind, Option.bind_eq_some_iff, req_eq_some,
    Option.pure_def, Option.some.injEq, Prod.mk.injEq] at h
  obtain ⟨_, h1, _, h2, _, h3, rfl, rfl⟩ := h
  exact ⟨h1, h2, h3, rfl, rfl⟩

theorem upgradePair_spec {s s' : St} {c : Addr} {t1 t2 : Tok} {o : Out}
    (h : upgradePair s c t1 t2 = some (s', o)) :
    c = s.owner ∧ s.active = true ∧ t1 ≠ t2 ∧ validTok t1 ∧ validTok t2 ∧
    getPair s.pairMap t1 t2 ≠ 0 ∧ o = {} ∧ s' = s := by
  simp only [upgradePair, Option.bind_eq_bind, Option.bind_eq_some_iff, req_eq_some,
    Option.pure_def, Option.some.injEq, Prod.mk.injEq] at h
  obtain ⟨_, h1, _, h2, _, h3, _, h4, _, h5, _, h6, rfl, rfl⟩ := h
  exact ⟨h1, h2, h3, h4, h5, h6, rfl, rfl⟩

theorem advanceBlock_spec {s s' : St} {n : Nat} {o : Out} (h : advanceBlock s n = some (s', o)) :
    s.block ≤ n ∧ o = {} ∧ s' = { s with block := n } := by
  simp only [advanceBlock, Option.bind_eq_bind, Option.bind_eq_some_iff, req_eq_some,
    Option.pure_def, Option.some.injEq, Prod.mk.injEq] at h
  obtain ⟨_, h1, rfl, rfl⟩ := h
  exact ⟨h1, rfl, rfl⟩

theorem setBareNext_spec {s s' : St} {b : Bool} {o : Out} (h : setBareNext s b = some (s', o)) :
    o = {} ∧ s' = { s with bareNext := b } := by
  simp only [setBareNext, Option.pure_def, Option.some.injEq, Prod.mk.injEq] at h
  obtain ⟨rfl, rfl⟩ := h
  exact ⟨rfl, rfl⟩

/-! ### the frame -/

theorem Frame.refl (s : St) : Frame s s := ⟨rfl, rfl, rfl, rfl, rfl, fun _ => rfl, fun _ => rfl⟩

theorem setTmpPeriod_frame {s s' : St} {c : Addr} {n : Nat} {o : Out}
    (h : setTmpPeriod s c n = some (s', o)) : Frame s s' := by
  obtain ⟨_, _, rfl⟩ := setTmpPeriod_spec h
  exact ⟨rfl, rfl, rfl, rfl, rfl, fun _ => rfl, fun _ => rfl⟩

theorem clearTmp_frame {s s' : St} {c : Addr} {o : Out} (h : clearTmp s c = some (s', o)) :
    Frame s s' := by
  obtain ⟨_, _, rfl⟩ := clearTmp_spec h
  exact ⟨rfl, rfl, rfl, rfl, rfl, fun _ => rfl, fun _ => rfl⟩

theorem issueLp_frame {s s' : St} {c a : Addr} {o : Out} (h : issueLp s c a = some (s', o)) :
    Frame s s' := by
  obtain ⟨_, _, _, _, _, _, rfl⟩ := issueLp_spec h
  exact ⟨rfl, rfl, rfl, rfl, rfl, fun _ => rfl, fun _ => rfl⟩

theorem setLocalRoles_frame {s s' : St} {c a : Addr} {o : Out}
    (h : setLocalRoles s c a = some (s', o)) : Frame s s' := by
  obtain ⟨_, _, _, _, rfl⟩ := setLocalRoles_spec h
  exact Frame.refl _

theorem upgradePair_frame {s s' : St} {c : Addr} {t1 t2 : Tok} {o : Out}
    (h : upgradePair s c t1 t2 = some (s', o)) : Frame s s' := by
  obtain ⟨_, _, _, _, _, _, _, rfl⟩ := upgradePair_spec h
  exact Frame.refl _

theorem advanceBlock_frame {s s' : St} {n : Nat} {o : Out}
    (h : advanceBlock s n = some (s', o)) : Frame s s' := by
  obtain ⟨_, _, rfl⟩ := advanceBlock_spec h
  exact ⟨rfl, rfl, rfl, rfl, rfl, fun _ => rfl, fun _ => rfl⟩

theorem setBareNext_frame {s s' : St} {b : Bool} {o : Out}
    (h : setBareNext s b = some (s', o)) : Frame s s' := by
  obtain ⟨_, rfl⟩ := setBareNext_spec h
  exact ⟨rfl, rfl, rfl, rfl, rfl, fun _ => rfl, fun _ => rfl⟩

/-! ### helpers for the property theorems -/

/-- a non-zero `getPair` result is an address stored in the registry -/
theorem getPair_ne_zero_mem {m : Reg} {a b : Tok} (h : getPair m a b ≠ 0) :
    getPair m a b ∈ m.map Prod.snd := by
  unfold getPair at h ⊢
  cases h1 : lookup m (a, b) with
  | some x =>
    by_cases hx : x = 0
    · subst hx
      simp only [h1, Option.getD_some, if_true] at h ⊢
      cases h2 : lookup m (b, a) with
      | some y =>
        simp only [h2, Option.getD_some] at h ⊢
        exact List.mem_map.mpr ⟨_, lookup_some_mem h2, rfl⟩
      | none => simp [h2] at h
    · simp only [Option.getD_some, if_neg hx]
      exact List.mem_map.mpr ⟨_, lookup_some_mem h1, rfl⟩
  | none =>
    simp only [h1, Option.getD_none, if_true] at h ⊢
    cases h2 : lookup m (b, a) with
    | some y =>
      simp only [Option.getD_some]
      exact List.mem_map.mpr ⟨_, lookup_some_mem h2, rfl⟩
    | none => simp [h2] at h

/-- what `get_pair_temporary_owner` answers while the entry of `a` is live -/
theorem getTmpOwner_live {m : TmpMap} {period now : Nat} {a t : Addr} {created : Nat}
    (hl : tmpLookup m a = some (t, created)) (hlive : now < created + period) :
    getTmpOwner m period now a = (m, some t) := by
  unfold getTmpOwner
  rw [hl]
  simp only [if_neg (Nat.not_le.mpr hlive)]

/-- … once it has expired (the entry is removed) -/
theorem getTmpOwner_expired {m : TmpMap} {period now : Nat} {a t : Addr} {created : Nat}
    (hl : tmpLookup m a = some (t, created)) (hexp : created + period ≤ now) :
    getTmpOwner m period now a = (tmpErase m a, none) := by
  unfold getTmpOwner
  rw [hl]
  simp only [if_pos hexp]

/-- … and when there is no entry -/
theorem getTmpOwner_none {m : TmpMap} {period now : Nat} {a : Addr}
    (hl : tmpLookup m a = none) : getTmpOwner m period now a = (m, none) := by
  unfold getTmpOwner
  rw [hl]

end Mx.Router
