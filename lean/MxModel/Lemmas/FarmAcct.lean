/-
  Accounting invariant of the farm model (C05): `reserve + paid = generated`, the split of `paid`,
  `balFarming = supply`, and for a minting farm `balReward = reserve` — preserved by every operation.
  Proof technique: every helper is characterised on the small accounting VIEW `av s` of the state
  (never on whole state records), endpoint proofs chain those view equations.
-/
import MxModel.Lemmas.FarmSpec
namespace Mx.Farm
open Mx.Weekly (upd Energy)

/-- accounting view of the state -/
structure AV where
  reserve : Nat
  paid : Nat
  paidBase : Nat
  paidBoosted : Nat
  generated : Nat
  balFarming : Nat
  balReward : Nat
  supply : Nat

def av (s : St) : AV :=
  ⟨s.reserve, s.paid, s.paidBase, s.paidBoosted, s.generated, s.balFarming, s.balReward, s.supply⟩

/-- the accounting invariant -/
structure Acct (s : St) : Prop where
  res : s.reserve + s.paid = s.generated
  split : s.paid = s.paidBase + s.paidBoosted
  prin : s.balFarming = s.supply
  bal : s.kind = .mint → s.balReward = s.reserve
  balN : s.kind = .noMint → s.balReward = 0

theorem takePayments_av {l : List (Nat × Nat)} {s s' : St} {c : Nat} (h : takePayments s c l = some s') :
    av s' = av s := by obtain ⟨_, rfl⟩ := takePayments_spec l h; rfl
theorem checkAndUpdate_av {l : List (Nat × Nat)} {s s' : St} {c : Nat} (h : checkAndUpdate s c l = some s') :
    av s' = av s := by obtain ⟨_, rfl⟩ := checkAndUpdate_spec l h; rfl
theorem claimBoostedYields_av {s s' : St} {u r : Nat} (h : claimBoostedYields s u = some (s', r)) :
    av s' = av s := by obtain ⟨_, _, rfl⟩ := claimBoostedYields_struct h; rfl
theorem setFarmSupplyWeek_av {s s' : St} {v : Nat} (h : setFarmSupplyWeek s v = some s') :
    av s' = av s := by obtain ⟨_, _, rfl⟩ := setFarmSupplyWeek_spec h; rfl
theorem updateEnergyAndProgress_av {s s' : St} {u : Nat} (h : updateEnergyAndProgress s u = some s') :
    av s' = av s := by obtain ⟨_, rfl⟩ := updateEnergyAndProgress_spec h; rfl
theorem createToken_av {s s' : St} {d n : Nat} {a : Attr} (h : createToken s d a = some (s', n)) :
    av s' = av s := by obtain ⟨_, _, rfl⟩ := createToken_spec h; rfl
theorem generate_av {s s' : St} {c c' : Cache} (h : generate s c = some (s', c')) :
    av s' = ⟨s.reserve, s.paid, s.paidBase, s.paidBoosted, s.generated + minted s, s.balFarming,
             (if s.kind = .mint then s.balReward + minted s else s.balReward), s.supply⟩ ∧
    c' = { reserve := c.reserve + minted s
           rps := c.rps + (if c.supply = 0 then 0 else (minted s - cutOf s) * s.dsc / c.supply)
           supply := c.supply } := by
  obtain ⟨_, rfl, _, rfl, _⟩ := generate_spec h
  exact ⟨rfl, rfl⟩
theorem payReward_av {s s' : St} {u base boosted : Nat} (h : payReward s u base boosted = some s') :
    ∃ br, av s' = ⟨s.reserve, s.paid + (base + boosted), s.paidBase + base, s.paidBoosted + boosted,
                   s.generated, s.balFarming, br, s.supply⟩ ∧
      (s.kind = .mint → base + boosted ≤ s.balReward ∧ br = s.balReward - (base + boosted)) ∧
      (s.kind = .noMint → br = s.balReward) := by
  obtain ⟨br, e, rfl, h1, h2⟩ := payReward_spec h
  exact ⟨br, rfl, h1, h2⟩

theorem payRewardIf_av {s s' : St} {k : Kind} {u boosted : Nat} (h : payRewardIf s k u 0 boosted = some s') :
    ∃ x br, ((x = boosted ∧ s.kind = k) ∨ (x = 0 ∧ s.kind ≠ k)) ∧
      av s' = ⟨s.reserve, s.paid + x, s.paidBase, s.paidBoosted + x, s.generated, s.balFarming, br, s.supply⟩ ∧
      (s.kind = .mint → x ≤ s.balReward ∧ br = s.balReward - x) ∧
      (s.kind = .noMint → br = s.balReward) := by
  unfold payRewardIf at h
  split at h
  · obtain ⟨br, h1, h2, h3⟩ := payReward_av h
    simp only [Nat.zero_add, Nat.add_zero] at h1 h2
    exact ⟨boosted, br, Or.inl ⟨rfl, ‹_›⟩, h1, h2, h3⟩
  · simp only [Option.some.injEq] at h
    subst h
    exact ⟨0, s.balReward, Or.inr ⟨rfl, ‹_›⟩, rfl, fun _ => ⟨Nat.zero_le _, rfl⟩, fun _ => rfl⟩

theorem claimOnlyBoostedPayment_av {s s' : St} {u r : Nat} (h : claimOnlyBoostedPayment s u = some (s', r)) :
    r ≤ s.reserve ∧ av s' = ⟨s.reserve - r, s.paid, s.paidBase, s.paidBoosted, s.generated,
      s.balFarming, s.balReward, s.supply⟩ := by
  simp only [claimOnlyBoostedPayment, Option.bind_eq_bind, Option.bind_eq_some_iff, Option.pure_def] at h
  obtain ⟨⟨s1, r1⟩, h1, h⟩ := h
  have e1 := claimBoostedYields_av h1
  by_cases h0 : r1 = 0
  · simp only [h0, if_true, Option.some.injEq, Prod.mk.injEq] at h
    obtain ⟨rfl, rfl⟩ := h
    exact ⟨Nat.zero_le _, by rw [e1]; rfl⟩
  · simp only [h0, if_false, Option.bind_eq_some_iff, sub?_eq_some, Option.some.injEq, Prod.mk.injEq] at h
    obtain ⟨res, ⟨hle, rfl⟩, rfl, rfl⟩ := h
    have e2 : av s1 = av s := e1
    simp only [av, AV.mk.injEq] at e2 ⊢
    obtain ⟨a1, a2, a3, a4, a5, a6, a7, a8⟩ := e2
    exact ⟨by omega, by omega, a2, a3, a4, a5, a6, a7, a8⟩


theorem addFarming_av (s : St) (a : Nat) :
    av (addFarming s a) = ⟨s.reserve, s.paid, s.paidBase, s.paidBoosted, s.generated,
      s.balFarming + a, s.balReward, s.supply⟩ := rfl
theorem increaseUser_av (s : St) (u a : Nat) : av (increaseUser s u a) = av s := rfl
theorem decreaseOwner_av (s : St) (u a : Nat) : av (decreaseOwner s u a) = av s := rfl
theorem drop_av (s : St) (c : Cache) :
    av (Cache.drop s c) = ⟨c.reserve, s.paid, s.paidBase, s.paidBoosted, s.generated,
      s.balFarming, s.balReward, c.supply⟩ := rfl
theorem minted_increaseUser (s : St) (u a : Nat) : minted (increaseUser s u a) = minted s := rfl

theorem removeFarming_av {s s' : St} {a p : Nat} (h : removeFarming s a p = some s') :
    a ≤ s.balFarming ∧ av s' = ⟨s.reserve, s.paid, s.paidBase, s.paidBoosted, s.generated,
      s.balFarming - a, s.balReward, s.supply⟩ := by
  simp only [removeFarming, Option.bind_eq_bind, Option.bind_eq_some_iff, sub?_eq_some, Option.pure_def,
    Option.some.injEq] at h
  obtain ⟨_, ⟨hle, rfl⟩, rfl⟩ := h
  exact ⟨hle, rfl⟩

theorem compoundMove_av {s s' : St} {b bo : Nat} (h : compoundMove s b bo = some s') :
    b + bo ≤ s.balReward ∧ av s' = ⟨s.reserve, s.paid + (b + bo), s.paidBase + b, s.paidBoosted + bo,
      s.generated, s.balFarming + (b + bo), s.balReward - (b + bo), s.supply⟩ := by
  simp only [compoundMove, Option.bind_eq_bind, Option.bind_eq_some_iff, sub?_eq_some, Option.pure_def,
    Option.some.injEq] at h
  obtain ⟨_, ⟨hle, rfl⟩, rfl⟩ := h
  exact ⟨hle, rfl⟩

theorem clearUserEnergyIfNeeded_av {s s' : St} {u : Nat} (h : clearUserEnergyIfNeeded s u = some s') :
    av s' = av s := by
  unfold clearUserEnergyIfNeeded at h
  split at h
  · simp only [Option.some.injEq] at h; rw [← h]
  · simp only [Option.bind_eq_bind, Option.bind_eq_some_iff, Option.pure_def, Option.some.injEq] at h
    obtain ⟨_, _, _, _, _, _, rfl⟩ := h
    rfl


/-! ### the farm's kind never changes -/

theorem takePayments_kind {l : List (Nat × Nat)} {s s' : St} {c : Nat} (h : takePayments s c l = some s') :
    s'.kind = s.kind := by obtain ⟨_, rfl⟩ := takePayments_spec l h; rfl
theorem checkAndUpdate_kind {l : List (Nat × Nat)} {s s' : St} {c : Nat} (h : checkAndUpdate s c l = some s') :
    s'.kind = s.kind := by obtain ⟨_, rfl⟩ := checkAndUpdate_spec l h; rfl
theorem claimBoostedYields_kind {s s' : St} {u r : Nat} (h : claimBoostedYields s u = some (s', r)) :
    s'.kind = s.kind := by obtain ⟨_, _, rfl⟩ := claimBoostedYields_struct h; rfl
theorem setFarmSupplyWeek_kind {s s' : St} {v : Nat} (h : setFarmSupplyWeek s v = some s') :
    s'.kind = s.kind := by obtain ⟨_, _, rfl⟩ := setFarmSupplyWeek_spec h; rfl
theorem updateEnergyAndProgress_kind {s s' : St} {u : Nat} (h : updateEnergyAndProgress s u = some s') :
    s'.kind = s.kind := by obtain ⟨_, rfl⟩ := updateEnergyAndProgress_spec h; rfl
theorem createToken_kind {s s' : St} {d n : Nat} {a : Attr} (h : createToken s d a = some (s', n)) :
    s'.kind = s.kind := by obtain ⟨_, _, rfl⟩ := createToken_spec h; rfl
theorem generate_kind {s s' : St} {c c' : Cache} (h : generate s c = some (s', c')) :
    s'.kind = s.kind := by obtain ⟨_, rfl, _⟩ := generate_spec h; rfl
theorem payReward_kind {s s' : St} {u b bo : Nat} (h : payReward s u b bo = some s') :
    s'.kind = s.kind := by obtain ⟨_, _, rfl, _⟩ := payReward_spec h; rfl
theorem payRewardIf_kind {s s' : St} {k : Kind} {u b bo : Nat} (h : payRewardIf s k u b bo = some s') :
    s'.kind = s.kind := by
  unfold payRewardIf at h
  split at h
  · exact payReward_kind h
  · simp only [Option.some.injEq] at h; rw [← h]
theorem claimOnlyBoostedPayment_kind {s s' : St} {u r : Nat} (h : claimOnlyBoostedPayment s u = some (s', r)) :
    s'.kind = s.kind := by
  simp only [claimOnlyBoostedPayment, Option.bind_eq_bind, Option.bind_eq_some_iff, Option.pure_def] at h
  obtain ⟨⟨s1, r1⟩, h1, h⟩ := h
  have k1 := claimBoostedYields_kind h1
  split at h
  · simp only [Option.some.injEq, Prod.mk.injEq] at h
    obtain ⟨rfl, _⟩ := h; exact k1
  · simp only [Option.bind_eq_some_iff, sub?_eq_some, Option.some.injEq, Prod.mk.injEq] at h
    obtain ⟨_, _, rfl, _⟩ := h; exact k1
theorem removeFarming_kind {s s' : St} {a p : Nat} (h : removeFarming s a p = some s') : s'.kind = s.kind := by
  simp only [removeFarming, Option.bind_eq_bind, Option.bind_eq_some_iff, sub?_eq_some, Option.pure_def,
    Option.some.injEq] at h
  obtain ⟨_, _, rfl⟩ := h; rfl
theorem compoundMove_kind {s s' : St} {b bo : Nat} (h : compoundMove s b bo = some s') : s'.kind = s.kind := by
  simp only [compoundMove, Option.bind_eq_bind, Option.bind_eq_some_iff, sub?_eq_some, Option.pure_def,
    Option.some.injEq] at h
  obtain ⟨_, _, rfl⟩ := h; rfl
theorem clearUserEnergyIfNeeded_kind {s s' : St} {u : Nat} (h : clearUserEnergyIfNeeded s u = some s') :
    s'.kind = s.kind := by
  unfold clearUserEnergyIfNeeded at h
  split at h
  · simp only [Option.some.injEq] at h; rw [← h]
  · simp only [Option.bind_eq_bind, Option.bind_eq_some_iff, Option.pure_def, Option.some.injEq] at h
    obtain ⟨_, _, _, _, _, _, rfl⟩ := h
    rfl

/-! ### endpoints -/

theorem enterCore_acct {s s' : St} {caller orig tokenTo amt : Nat} {extra : List (Nat × Nat)} {o : Out}
    (hA : Acct s) (h : enterCore s caller orig tokenTo amt extra = some (s', o)) : Acct s' := by
  simp only [enterCore, Option.bind_eq_bind, Option.bind_eq_some_iff, req_eq_some, Option.pure_def,
    Option.some.injEq, Prod.mk.injEq] at h
  obtain ⟨_, _, s0, h0, ⟨s1, boosted⟩, h1, s1', h1', _, hact, s2, h2, ⟨s4, c1⟩, h4, merged, hm,
    ⟨s5, n⟩, h5, s6, h6, s8, h8, s9, h9, rfl, rfl⟩ := h
  have e0 := takePayments_av h0
  obtain ⟨hle, e1⟩ := claimOnlyBoostedPayment_av h1
  have e2 := checkAndUpdate_av h2
  obtain ⟨e4, hc1⟩ := generate_av h4
  have e5 := createToken_av h5
  have e6 := setFarmSupplyWeek_av h6
  have e9 := updateEnergyAndProgress_av h9
  obtain ⟨x1, br1, d1, f1, g1, g1'⟩ := payRewardIf_av h1'
  obtain ⟨x8, br8, d8, f8, g8, g8'⟩ := payRewardIf_av h8
  have k0 : s0.kind = s.kind := takePayments_kind h0
  have k1 : s1.kind = s.kind := (claimOnlyBoostedPayment_kind h1).trans k0
  have k1' : s1'.kind = s.kind := (payRewardIf_kind h1').trans k1
  have k2 : s2.kind = s.kind := (checkAndUpdate_kind h2).trans k1'
  have k4 : s4.kind = s.kind := (generate_kind h4).trans k2
  have k5 : s5.kind = s.kind := (createToken_kind h5).trans k4
  have k6 : s6.kind = s.kind := (setFarmSupplyWeek_kind h6).trans k5
  have k8 : s8.kind = s.kind := (payRewardIf_kind h8).trans k6
  have k9 : s9.kind = s.kind := (updateEnergyAndProgress_kind h9).trans k8
  have k7 : (Cache.drop s6 { reserve := c1.reserve, rps := c1.rps, supply := c1.supply + amt }).kind = s.kind := k6
  have k3 : (increaseUser s2 orig amt).kind = s.kind := k2
  obtain ⟨r, sp, p, b, bN⟩ := hA
  clear h0 h1 h2 h4 h5 h6 h8 h9 h1' hm
  subst hc1
  generalize minted (increaseUser s2 orig amt) = M at *
  rw [k1] at d1 g1 g1'
  rw [k7] at d8 g8 g8'
  rw [k3] at e4
  simp only [av, AV.mk.injEq, addFarming, increaseUser, Cache.drop, Cache.read] at e0 e1 e2 e4 e5 e6 e9 f1 f8 g1 g1' g8 g8' hle
  cases hk : s.kind <;> simp only [hk, reduceCtorEq, and_false, or_false, false_or, and_true, ne_eq,
      not_true_eq_false, not_false_eq_true, if_true, if_false, forall_const, IsEmpty.forall_iff] at d1 d8 g1 g1' g8 g8' b bN e4 <;>
    refine ⟨?_, ?_, ?_, ?_, ?_⟩ <;> (try rw [k9, hk]) <;> (try simp only [reduceCtorEq, IsEmpty.forall_iff, forall_const]) <;> omega

theorem claimTail_kind {s s' : St} {c : Bool} {u b bo : Nat} (h : claimTail s c u b bo = some s') :
    s'.kind = s.kind := by
  unfold claimTail at h
  split at h
  · simp only [Option.bind_eq_some_iff] at h
    obtain ⟨s1, h1, h2⟩ := h
    exact (updateEnergyAndProgress_kind h2).trans (compoundMove_kind h1)
  · exact payReward_kind h

/-- the tail of claim / compound on the view: `rew` leaves the reserve side either as a payment
    (claim) or into the farming balance (compound) -/
theorem claimTail_av {s s' : St} {c : Bool} {u b bo : Nat} (h : claimTail s c u b bo = some s') :
    ∃ br bf, av s' = ⟨s.reserve, s.paid + (b + bo), s.paidBase + b, s.paidBoosted + bo, s.generated,
        bf, br, s.supply⟩ ∧
      (c = true → b + bo ≤ s.balReward ∧ br = s.balReward - (b + bo) ∧ bf = s.balFarming + (b + bo)) ∧
      (c = false → bf = s.balFarming ∧
        (s.kind = .mint → b + bo ≤ s.balReward ∧ br = s.balReward - (b + bo)) ∧
        (s.kind = .noMint → br = s.balReward)) := by
  unfold claimTail at h
  split at h
  · rename_i hc
    simp only [Option.bind_eq_some_iff] at h
    obtain ⟨s1, h1, h2⟩ := h
    obtain ⟨hle, e1⟩ := compoundMove_av h1
    have e2 := updateEnergyAndProgress_av h2
    refine ⟨s.balReward - (b + bo), s.balFarming + (b + bo), by rw [e2, e1], fun _ => ⟨hle, rfl, rfl⟩, ?_⟩
    intro hf; simp [hc] at hf
  · rename_i hc
    obtain ⟨br, e1, g1, g2⟩ := payReward_av h
    refine ⟨br, s.balFarming, e1, ?_, fun _ => ⟨rfl, g1, g2⟩⟩
    intro ht; exact absurd ht hc

set_option maxHeartbeats 1000000 in
theorem claimCore_acct {s s' : St} {caller orig : Nat} {pays : List (Nat × Nat)} {cmp : Bool} {o : Out}
    (hA : Acct s) (hc : cmp = true → s.kind = .mint)
    (h : claimCore s caller orig pays cmp = some (s', o)) : Acct s' := by
  simp only [claimCore, Option.bind_eq_bind, Option.bind_eq_some_iff, req_eq_some, Option.pure_def,
    Option.some.injEq, Prod.mk.injEq, sub?_eq_some] at h
  obtain ⟨⟨n1, a1⟩, _, s0, h0, _, hact, _, hsame, at1, hat, ⟨s1, c1⟩, h1, part, hpart, ⟨s2, boosted⟩, h2,
    res, ⟨hle, rfl⟩, s3, h3, merged, hm, ⟨s5, n⟩, h5, s6, h6, s8, h8, rfl, rfl⟩ := h
  have e0 := takePayments_av h0
  obtain ⟨e1, hc1⟩ := generate_av h1
  have e2 := claimBoostedYields_av h2
  have e3 := checkAndUpdate_av h3
  have e5 := createToken_av h5
  have e6 := setFarmSupplyWeek_av h6
  obtain ⟨br, bf, e8, g8, g8'⟩ := claimTail_av h8
  have k0 : s0.kind = s.kind := takePayments_kind h0
  have k1 : s1.kind = s.kind := (generate_kind h1).trans k0
  have k2 : s2.kind = s.kind := (claimBoostedYields_kind h2).trans k1
  have k3 : s3.kind = s.kind := (checkAndUpdate_kind h3).trans k2
  have k5 : s5.kind = s.kind := (createToken_kind h5).trans (by cases cmp <;> exact k3)
  have k6 : s6.kind = s.kind := (setFarmSupplyWeek_kind h6).trans k5
  have k8 : s8.kind = s.kind := (claimTail_kind h8).trans k6
  obtain ⟨r, sp, p, b, bN⟩ := hA
  clear h0 h1 h2 h3 h5 h6 h8 hm hpart hat
  have hr1 : c1.reserve = s0.reserve + minted s0 := by rw [hc1]; rfl
  have hs1 : c1.supply = s0.supply := by rw [hc1]; rfl
  clear hc1
  dsimp only at hle e2 e3 e5 e6 e8 g8 g8'
  generalize minted s0 = M at *
  generalize baseReward s1.dsc c1.rps a1 part.rps = B at *
  have e4 : av (if cmp = true then increaseUser s3 orig (B + boosted) else s3) = av s3 := by
    cases cmp <;> rfl
  rw [e4] at e5
  have k7 : (Cache.drop s6 ⟨c1.reserve - (B + boosted), c1.rps,
      if cmp = true then c1.supply + (B + boosted) else c1.supply⟩).kind = s.kind := k6
  rw [k7] at g8'
  simp only [av, AV.mk.injEq, Cache.drop] at e0 e1 e2 e3 e5 e6 e8 g8 g8'
  rw [k0] at e1
  cases cmp
  · simp only [Bool.false_eq_true, if_false, IsEmpty.forall_iff, forall_const] at e8 g8 g8'
    cases hk : s.kind <;> simp only [hk, reduceCtorEq, if_true, if_false, forall_const, IsEmpty.forall_iff] at g8' b bN e1 <;>
      refine ⟨?_, ?_, ?_, ?_, ?_⟩ <;> (try rw [k8, hk]) <;> (try simp only [reduceCtorEq, IsEmpty.forall_iff, forall_const]) <;> omega
  · have hk := hc rfl
    simp only [if_true, forall_const, Bool.true_eq_false, IsEmpty.forall_iff] at e8 g8 g8'
    simp only [hk, if_true, forall_const] at b e1
    clear k7 hsame hc hact k0 k1 k2 k3 k5 k6 bN
    obtain ⟨g81, g82, g83⟩ := g8
    obtain ⟨a1, a2, a3, a4, a5, a6, a7, a8⟩ := e8
    refine ⟨by omega, by omega, by omega, fun _ => by omega, fun h => ?_⟩
    rw [k8, hk] at h
    cases h

set_option maxHeartbeats 1000000 in
theorem exitFarm_acct {s s' : St} {caller : Nat} {opt : Option Nat} {n a : Nat} {o : Out}
    (hA : Acct s) (h : exitFarm s caller opt n a = some (s', o)) : Acct s' := by
  simp (config := { maxSteps := 1000000 }) only [exitFarm, Option.bind_eq_bind, Option.bind_eq_some_iff, req_eq_some, Option.pure_def,
    Option.some.injEq, Prod.mk.injEq, sub?_eq_some] at h
  obtain ⟨orig, _, s0, h0, _, hact, att, hat, ⟨s1, c1⟩, h1, part, hpart, ⟨s2, boosted⟩, h2,
    res, ⟨hle, rfl⟩, sup, ⟨hsup, rfl⟩, s4, h4, pen, hpen, out, _, s6, h6, s7, h7, s8, h8, rfl, rfl⟩ := h
  have e0 := takePayments_av h0
  obtain ⟨e1, hc1⟩ := generate_av h1
  have e2 := claimBoostedYields_av h2
  have e4 := setFarmSupplyWeek_av h4
  obtain ⟨hle6, e6⟩ := removeFarming_av h6
  obtain ⟨br, e7, g7, g7'⟩ := payReward_av h7
  have e8 := clearUserEnergyIfNeeded_av h8
  have k0 : s0.kind = s.kind := takePayments_kind h0
  have k1 : s1.kind = s.kind := (generate_kind h1).trans k0
  have k2 : s2.kind = s.kind := (claimBoostedYields_kind h2).trans k1
  have k4 : s4.kind = s.kind := (setFarmSupplyWeek_kind h4).trans k2
  have k6 : s6.kind = s.kind := (removeFarming_kind h6).trans k4
  have k7 : s7.kind = s.kind := (payReward_kind h7).trans k6
  have k8 : s8.kind = s.kind := (clearUserEnergyIfNeeded_kind h8).trans k7
  obtain ⟨r, sp, p, b, bN⟩ := hA
  clear h0 h1 h2 h4 h6 h7 h8 hpart hat hpen
  have hr1 : c1.reserve = s0.reserve + minted s0 := by rw [hc1]; rfl
  have hs1 : c1.supply = s0.supply := by rw [hc1]; rfl
  clear hc1
  dsimp only at hle hsup e2 e4 e6 e7 e8 g7 g7' hle6
  generalize minted s0 = M at *
  generalize baseReward s1.dsc c1.rps a part.rps = B at *
  rw [k6] at g7 g7'
  simp only [av, AV.mk.injEq, Cache.drop, decreaseOwner] at e0 e1 e2 e4 e6 e7 e8 hle6
  rw [k0] at e1
  cases hk : s.kind <;> simp only [hk, reduceCtorEq, if_true, if_false, forall_const, IsEmpty.forall_iff] at g7 g7' b bN e1 <;>
    refine ⟨?_, ?_, ?_, ?_, ?_⟩ <;> (try rw [k8, hk]) <;> (try simp only [reduceCtorEq, IsEmpty.forall_iff, forall_const]) <;> omega

theorem mergeFarmTokens_acct {s s' : St} {caller : Nat} {opt : Option Nat} {pays : List (Nat × Nat)} {o : Out}
    (hA : Acct s) (h : mergeFarmTokens s caller opt pays = some (s', o)) : Acct s' := by
  simp only [mergeFarmTokens, Option.bind_eq_bind, Option.bind_eq_some_iff, req_eq_some, Option.pure_def,
    Option.some.injEq, Prod.mk.injEq] at h
  obtain ⟨_, hact, orig, _, _, _, s0, h0, ⟨s1, boosted⟩, h1, s2, h2, merged, hm, ⟨s3, n⟩, h3, s4, h4, rfl, rfl⟩ := h
  have e0 := takePayments_av h0
  obtain ⟨hle, e1⟩ := claimOnlyBoostedPayment_av h1
  have e2 := checkAndUpdate_av h2
  have e3 := createToken_av h3
  obtain ⟨br, e4, g4, g4'⟩ := payReward_av h4
  have k0 : s0.kind = s.kind := takePayments_kind h0
  have k1 : s1.kind = s.kind := (claimOnlyBoostedPayment_kind h1).trans k0
  have k2 : s2.kind = s.kind := (checkAndUpdate_kind h2).trans k1
  have k3 : s3.kind = s.kind := (createToken_kind h3).trans k2
  have k4 : s4.kind = s.kind := (payReward_kind h4).trans k3
  obtain ⟨r, sp, p, b, bN⟩ := hA
  clear h0 h1 h2 h3 h4 hm
  dsimp only at e1 e2 e3 e4 g4 g4'
  rw [k3] at g4 g4'
  simp only [av, AV.mk.injEq] at e0 e1 e2 e3 e4
  cases hk : s.kind <;> simp only [hk, reduceCtorEq, forall_const, IsEmpty.forall_iff] at g4 g4' b bN <;>
    refine ⟨?_, ?_, ?_, ?_, ?_⟩ <;> (try rw [k4, hk]) <;> (try simp only [reduceCtorEq, IsEmpty.forall_iff, forall_const]) <;> omega

theorem claimBoostedRewards_acct {s s' : St} {caller : Nat} {optUser : Option Nat} {o : Out}
    (hA : Acct s) (h : claimBoostedRewards s caller optUser = some (s', o)) : Acct s' := by
  simp only [claimBoostedRewards, Option.bind_eq_bind, Option.bind_eq_some_iff, req_eq_some, Option.pure_def,
    Option.some.injEq, Prod.mk.injEq, sub?_eq_some] at h
  obtain ⟨_, _, _, _, _, hact, ⟨s1, c1⟩, h1, ⟨s2, boosted⟩, h2, res, ⟨hle, rfl⟩, s3, h3, s4, h4, rfl, rfl⟩ := h
  obtain ⟨e1, hc1⟩ := generate_av h1
  have e2 := claimBoostedYields_av h2
  have e3 := setFarmSupplyWeek_av h3
  obtain ⟨br, e4, g4, g4'⟩ := payReward_av h4
  have k1 : s1.kind = s.kind := generate_kind h1
  have k2 : s2.kind = s.kind := (claimBoostedYields_kind h2).trans k1
  have k3 : s3.kind = s.kind := (setFarmSupplyWeek_kind h3).trans k2
  have k4 : s4.kind = s.kind := (payReward_kind h4).trans k3
  obtain ⟨r, sp, p, b, bN⟩ := hA
  clear h1 h2 h3 h4
  have hr1 : c1.reserve = s.reserve + minted s := by rw [hc1]; rfl
  have hs1 : c1.supply = s.supply := by rw [hc1]; rfl
  clear hc1
  dsimp only at hle e2 e3 e4 g4 g4'
  generalize minted s = M at *
  rw [k3] at g4 g4'
  simp only [av, AV.mk.injEq, Cache.drop] at e1 e2 e3 e4 ⊢
  cases hk : s.kind <;> simp only [hk, reduceCtorEq, if_true, if_false, forall_const, IsEmpty.forall_iff] at g4 g4' b bN e1 <;>
    refine ⟨?_, ?_, ?_, ?_, ?_⟩ <;> (try rw [k4, hk]) <;> (try simp only [reduceCtorEq, IsEmpty.forall_iff, forall_const]) <;> omega

theorem settle_acct {s s' : St} (hA : Acct s) (h : settle s = some s') : Acct s' := by
  simp only [settle, Option.bind_eq_bind, Option.bind_eq_some_iff, Option.pure_def, Option.some.injEq] at h
  obtain ⟨⟨s1, c1⟩, h1, rfl⟩ := h
  obtain ⟨e1, hc1⟩ := generate_av h1
  have k1 : s1.kind = s.kind := generate_kind h1
  obtain ⟨r, sp, p, b, bN⟩ := hA
  have hr1 : c1.reserve = s.reserve + minted s := by rw [hc1]; rfl
  have hs1 : c1.supply = s.supply := by rw [hc1]; rfl
  clear hc1 h1
  generalize minted s = M at *
  simp only [av, AV.mk.injEq] at e1
  cases hk : s.kind <;> simp only [hk, reduceCtorEq, if_true, if_false, forall_const, IsEmpty.forall_iff] at b bN e1 <;>
    refine ⟨?_, ?_, ?_, ?_, ?_⟩ <;> simp only [Cache.drop] <;> (try rw [k1, hk]) <;> (try simp only [reduceCtorEq, IsEmpty.forall_iff, forall_const]) <;> omega

/-- operations that touch neither the accounting view nor the kind -/
theorem Acct.of_eq {s s' : St} (hA : Acct s) (h1 : av s' = av s) (h2 : s'.kind = s.kind) : Acct s' := by
  obtain ⟨r, sp, p, b, bN⟩ := hA
  simp only [av, AV.mk.injEq] at h1
  obtain ⟨a1, a2, a3, a4, a5, a6, a7, a8⟩ := h1
  refine ⟨by omega, by omega, by omega, fun h => ?_, fun h => ?_⟩
  · rw [h2] at h; have := b h; omega
  · rw [h2] at h; have := bN h; omega

theorem init_acct (kind : Kind) (sameTok : Bool) (dsc perBlock : Nat) (produce : Bool) (users : List Nat)
    (e0 : Nat) : Acct (init kind sameTok dsc perBlock produce users e0) :=
  ⟨rfl, rfl, rfl, fun _ => rfl, fun _ => rfl⟩

theorem step_acct {s s' : St} {op : Op} {o : Out} (hA : Acct s) (h : step s op = some (s', o)) : Acct s' := by
  cases op <;> simp only [step, known] at h
  case enter c oo a e =>
    split at h <;> [skip; exact absurd h (by simp)]
    simp only [enterFarm, Option.bind_eq_bind, Option.bind_eq_some_iff] at h
    obtain ⟨_, _, h⟩ := h
    exact enterCore_acct hA h
  case enterOB c u a e =>
    split at h <;> [skip; exact absurd h (by simp)]
    simp only [enterFarmOnBehalf, Option.bind_eq_bind, Option.bind_eq_some_iff] at h
    obtain ⟨_, _, _, _, h⟩ := h
    exact enterCore_acct hA h
  case claim c oo p =>
    split at h <;> [skip; exact absurd h (by simp)]
    simp only [claimRewards, Option.bind_eq_bind, Option.bind_eq_some_iff] at h
    obtain ⟨_, _, h⟩ := h
    exact claimCore_acct hA (by intro hh; cases hh) h
  case claimOB c p =>
    split at h <;> [skip; exact absurd h (by simp)]
    simp only [claimRewardsOnBehalf, Option.bind_eq_bind, Option.bind_eq_some_iff] at h
    obtain ⟨_, _, _, _, _, _, h⟩ := h
    exact claimCore_acct hA (by intro hh; cases hh) h
  case compound c oo p =>
    split at h <;> [skip; exact absurd h (by simp)]
    simp only [compoundRewards, Option.bind_eq_bind, Option.bind_eq_some_iff, req_eq_some] at h
    obtain ⟨_, hk, _, _, h⟩ := h
    exact claimCore_acct hA (fun _ => hk) h
  case exit c oo n a =>
    split at h <;> [skip; exact absurd h (by simp)]
    exact exitFarm_acct hA h
  case merge c oo p =>
    split at h <;> [skip; exact absurd h (by simp)]
    exact mergeFarmTokens_acct hA h
  case claimBoosted c u =>
    split at h <;> [skip; exact absurd h (by simp)]
    exact claimBoostedRewards_acct hA h
  case transfer a b n x =>
    split at h <;> [skip; exact absurd h (by simp)]
    split at h <;> [skip; exact absurd h (by simp)]
    simp only [noOut, Option.map_eq_some_iff, Prod.mk.injEq] at h
    obtain ⟨s1, h1, rfl, _⟩ := h
    simp only [transfer, Option.bind_eq_bind, Option.bind_eq_some_iff, req_eq_some, sub?_eq_some,
      Option.pure_def, Option.some.injEq] at h1
    obtain ⟨_, _, _, _, _, _, _, _, rfl⟩ := h1
    exact hA.of_eq rfl rfl
  case setEnergy u a l t =>
    simp only [Option.some.injEq, Prod.mk.injEq] at h
    obtain ⟨rfl, _⟩ := h
    exact hA.of_eq rfl rfl
  case updateEnergy u =>
    simp only [noOut, Option.map_eq_some_iff, Prod.mk.injEq] at h
    obtain ⟨s1, h1, rfl, _⟩ := h
    simp only [updateEnergyForUser, Option.bind_eq_bind, Option.bind_eq_some_iff, Option.pure_def,
      Option.some.injEq] at h1
    obtain ⟨_, _, _, _, rfl⟩ := h1
    exact hA.of_eq rfl rfl
  case setPerBlock c x =>
    simp only [noOut, Option.map_eq_some_iff, Prod.mk.injEq] at h
    obtain ⟨s1, h1, rfl, _⟩ := h
    simp only [setPerBlock, Option.bind_eq_bind, Option.bind_eq_some_iff, Option.pure_def,
      Option.some.injEq] at h1
    obtain ⟨_, _, _, _, s2, h2, rfl⟩ := h1
    exact (settle_acct hA h2).of_eq rfl rfl
  case startProduce c =>
    simp only [noOut, Option.map_eq_some_iff, Prod.mk.injEq] at h
    obtain ⟨s1, h1, rfl, _⟩ := h
    simp only [startProduce, Option.bind_eq_bind, Option.bind_eq_some_iff, Option.pure_def,
      Option.some.injEq] at h1
    obtain ⟨_, _, _, _, _, _, rfl⟩ := h1
    exact hA.of_eq rfl rfl
  case endProduce c =>
    simp only [noOut, Option.map_eq_some_iff, Prod.mk.injEq] at h
    obtain ⟨s1, h1, rfl, _⟩ := h
    simp only [endProduce, Option.bind_eq_bind, Option.bind_eq_some_iff, Option.pure_def,
      Option.some.injEq] at h1
    obtain ⟨_, _, s2, h2, rfl⟩ := h1
    exact (settle_acct hA h2).of_eq rfl rfl
  case setPct c p =>
    simp only [noOut, Option.map_eq_some_iff, Prod.mk.injEq] at h
    obtain ⟨s1, h1, rfl, _⟩ := h
    simp only [setPct, Option.bind_eq_bind, Option.bind_eq_some_iff, Option.pure_def,
      Option.some.injEq] at h1
    obtain ⟨_, _, _, _, s2, h2, rfl⟩ := h1
    exact (settle_acct hA h2).of_eq rfl rfl
  case setFactors c f =>
    simp only [noOut, Option.map_eq_some_iff, Prod.mk.injEq] at h
    obtain ⟨s1, h1, rfl, _⟩ := h
    simp only [setFactors, Option.bind_eq_bind, Option.bind_eq_some_iff, Option.pure_def] at h1
    obtain ⟨_, _, _, _, _, _, W, _, h1⟩ := h1
    split at h1
    · simp only [Option.bind_eq_some_iff, Option.some.injEq] at h1
      obtain ⟨_, _, rfl⟩ := h1
      exact hA.of_eq rfl rfl
    · simp only [Option.some.injEq] at h1
      subst h1
      exact hA.of_eq rfl rfl
  case collect c =>
    simp only [noOut, Option.map_eq_some_iff, Prod.mk.injEq] at h
    obtain ⟨s1, h1, rfl, _⟩ := h
    simp only [collectUndistributed, Option.bind_eq_bind, Option.bind_eq_some_iff, Option.pure_def,
      req_eq_some] at h1
    obtain ⟨_, _, W, _, _, _, h1⟩ := h1
    split at h1 <;> simp only [Option.some.injEq] at h1 <;> subst h1 <;> exact hA.of_eq rfl rfl
  case pause c =>
    simp only [noOut, Option.map_eq_some_iff, Prod.mk.injEq] at h
    obtain ⟨s1, h1, rfl, _⟩ := h
    simp only [setActive, Option.bind_eq_bind, Option.bind_eq_some_iff, Option.pure_def,
      Option.some.injEq] at h1
    obtain ⟨_, _, rfl⟩ := h1
    exact hA.of_eq rfl rfl
  case resume c =>
    simp only [noOut, Option.map_eq_some_iff, Prod.mk.injEq] at h
    obtain ⟨s1, h1, rfl, _⟩ := h
    simp only [setActive, Option.bind_eq_bind, Option.bind_eq_some_iff, Option.pure_def,
      Option.some.injEq] at h1
    obtain ⟨_, _, rfl⟩ := h1
    exact hA.of_eq rfl rfl
  case setPenalty c p =>
    simp only [noOut, Option.map_eq_some_iff, Prod.mk.injEq] at h
    obtain ⟨s1, h1, rfl, _⟩ := h
    simp only [setPenalty, Option.bind_eq_bind, Option.bind_eq_some_iff, Option.pure_def,
      Option.some.injEq] at h1
    obtain ⟨_, _, _, _, rfl⟩ := h1
    exact hA.of_eq rfl rfl
  case setMinEpochs c n =>
    simp only [noOut, Option.map_eq_some_iff, Prod.mk.injEq] at h
    obtain ⟨s1, h1, rfl, _⟩ := h
    simp only [setMinEpochs, Option.bind_eq_bind, Option.bind_eq_some_iff, Option.pure_def,
      Option.some.injEq] at h1
    obtain ⟨_, _, _, _, rfl⟩ := h1
    exact hA.of_eq rfl rfl
  case hubWhitelist u a =>
    split at h
    · cases h
    · simp only [Option.some.injEq, Prod.mk.injEq] at h; obtain ⟨rfl, _⟩ := h; exact hA.of_eq rfl rfl
  case hubRemove u a =>
    split at h
    · simp only [Option.some.injEq, Prod.mk.injEq] at h; obtain ⟨rfl, _⟩ := h; exact hA.of_eq rfl rfl
    · cases h
  case hubBlacklist a =>
    simp only [Option.some.injEq, Prod.mk.injEq] at h; obtain ⟨rfl, _⟩ := h; exact hA.of_eq rfl rfl
  case scWhitelist a =>
    split at h
    · cases h
    · simp only [Option.some.injEq, Prod.mk.injEq] at h; obtain ⟨rfl, _⟩ := h; exact hA.of_eq rfl rfl
  case scUnwhitelist a =>
    split at h
    · simp only [Option.some.injEq, Prod.mk.injEq] at h; obtain ⟨rfl, _⟩ := h; exact hA.of_eq rfl rfl
    · cases h
  case advance b e =>
    split at h
    · simp only [Option.some.injEq, Prod.mk.injEq] at h; obtain ⟨rfl, _⟩ := h; exact hA.of_eq rfl rfl
    · cases h
  case bad => cases h

theorem run_acct (ops : List Op) {s : St} (hA : Acct s) : Acct (run s ops) := by
  induction ops generalizing s with
  | nil => exact hA
  | cons op rest ih =>
    simp only [run, List.foldl_cons]
    cases hs : step s op with
    | none => exact ih hA
    | some r => exact ih (step_acct hA (show step s op = some (r.1, r.2) from hs))

theorem enterCore_kind {s s' : St} {caller orig tokenTo amt : Nat} {extra : List (Nat × Nat)} {o : Out}
    (h : enterCore s caller orig tokenTo amt extra = some (s', o)) : s'.kind = s.kind := by
  simp only [enterCore, Option.bind_eq_bind, Option.bind_eq_some_iff, req_eq_some, Option.pure_def,
    Option.some.injEq, Prod.mk.injEq] at h
  obtain ⟨_, _, s0, h0, ⟨s1, boosted⟩, h1, s1', h1', _, hact, s2, h2, ⟨s4, c1⟩, h4, merged, hm,
    ⟨s5, n⟩, h5, s6, h6, s8, h8, s9, h9, rfl, rfl⟩ := h
  have k0 : s0.kind = s.kind := takePayments_kind h0
  have k1 : s1.kind = s.kind := (claimOnlyBoostedPayment_kind h1).trans k0
  have k1' : s1'.kind = s.kind := (payRewardIf_kind h1').trans k1
  have k2 : s2.kind = s.kind := (checkAndUpdate_kind h2).trans k1'
  have k4 : s4.kind = s.kind := (generate_kind h4).trans k2
  have k5 : s5.kind = s.kind := (createToken_kind h5).trans k4
  have k6 : s6.kind = s.kind := (setFarmSupplyWeek_kind h6).trans k5
  have k8 : s8.kind = s.kind := (payRewardIf_kind h8).trans k6
  exact (updateEnergyAndProgress_kind h9).trans k8

theorem claimCore_kind {s s' : St} {caller orig : Nat} {pays : List (Nat × Nat)} {cmp : Bool} {o : Out}
    (h : claimCore s caller orig pays cmp = some (s', o)) : s'.kind = s.kind := by
  simp only [claimCore, Option.bind_eq_bind, Option.bind_eq_some_iff, req_eq_some, Option.pure_def,
    Option.some.injEq, Prod.mk.injEq, sub?_eq_some] at h
  obtain ⟨⟨n1, a1⟩, _, s0, h0, _, hact, _, hsame, at1, hat, ⟨s1, c1⟩, h1, part, hpart, ⟨s2, boosted⟩, h2,
    res, ⟨hle, rfl⟩, s3, h3, merged, hm, ⟨s5, n⟩, h5, s6, h6, s8, h8, rfl, rfl⟩ := h
  have k0 : s0.kind = s.kind := takePayments_kind h0
  have k1 : s1.kind = s.kind := (generate_kind h1).trans k0
  have k2 : s2.kind = s.kind := (claimBoostedYields_kind h2).trans k1
  have k3 : s3.kind = s.kind := (checkAndUpdate_kind h3).trans k2
  have k5 : s5.kind = s.kind := (createToken_kind h5).trans (by cases cmp <;> exact k3)
  have k6 : s6.kind = s.kind := (setFarmSupplyWeek_kind h6).trans k5
  exact (claimTail_kind h8).trans k6

set_option maxHeartbeats 1000000 in
theorem exitFarm_kind {s s' : St} {caller : Nat} {opt : Option Nat} {n a : Nat} {o : Out}
    (h : exitFarm s caller opt n a = some (s', o)) : s'.kind = s.kind := by
  simp (config := { maxSteps := 1000000 }) only [exitFarm, Option.bind_eq_bind, Option.bind_eq_some_iff,
    req_eq_some, Option.pure_def, Option.some.injEq, Prod.mk.injEq, sub?_eq_some] at h
  obtain ⟨orig, _, s0, h0, _, hact, att, hat, ⟨s1, c1⟩, h1, part, hpart, ⟨s2, boosted⟩, h2,
    res, ⟨hle, rfl⟩, sup, ⟨hsup, rfl⟩, s4, h4, pen, hpen, out, _, s6, h6, s7, h7, s8, h8, rfl, rfl⟩ := h
  have k0 : s0.kind = s.kind := takePayments_kind h0
  have k1 : s1.kind = s.kind := (generate_kind h1).trans k0
  have k2 : s2.kind = s.kind := (claimBoostedYields_kind h2).trans k1
  have k4 : s4.kind = s.kind := (setFarmSupplyWeek_kind h4).trans k2
  have k6 : s6.kind = s.kind := (removeFarming_kind h6).trans k4
  have k7 : s7.kind = s.kind := (payReward_kind h7).trans k6
  exact (clearUserEnergyIfNeeded_kind h8).trans k7

theorem mergeFarmTokens_kind {s s' : St} {caller : Nat} {opt : Option Nat} {pays : List (Nat × Nat)} {o : Out}
    (h : mergeFarmTokens s caller opt pays = some (s', o)) : s'.kind = s.kind := by
  simp only [mergeFarmTokens, Option.bind_eq_bind, Option.bind_eq_some_iff, req_eq_some, Option.pure_def,
    Option.some.injEq, Prod.mk.injEq] at h
  obtain ⟨_, hact, orig, _, _, _, s0, h0, ⟨s1, boosted⟩, h1, s2, h2, merged, hm, ⟨s3, n⟩, h3, s4, h4, rfl, rfl⟩ := h
  exact (payReward_kind h4).trans ((createToken_kind h3).trans ((checkAndUpdate_kind h2).trans
    ((claimOnlyBoostedPayment_kind h1).trans (takePayments_kind h0))))

theorem claimBoostedRewards_kind {s s' : St} {caller : Nat} {optUser : Option Nat} {o : Out}
    (h : claimBoostedRewards s caller optUser = some (s', o)) : s'.kind = s.kind := by
  simp only [claimBoostedRewards, Option.bind_eq_bind, Option.bind_eq_some_iff, req_eq_some, Option.pure_def,
    Option.some.injEq, Prod.mk.injEq, sub?_eq_some] at h
  obtain ⟨_, _, _, _, _, hact, ⟨s1, c1⟩, h1, ⟨s2, boosted⟩, h2, res, ⟨hle, rfl⟩, s3, h3, s4, h4, rfl, rfl⟩ := h
  exact (payReward_kind h4).trans ((setFarmSupplyWeek_kind h3).trans ((claimBoostedYields_kind h2).trans
    (generate_kind h1)))

theorem settle_kind {s s' : St} (h : settle s = some s') : s'.kind = s.kind := by
  simp only [settle, Option.bind_eq_bind, Option.bind_eq_some_iff, Option.pure_def, Option.some.injEq] at h
  obtain ⟨⟨s1, c1⟩, h1, rfl⟩ := h
  exact (generate_kind h1 : s1.kind = s.kind)

/-- the kind of a farm is fixed at deployment -/
theorem step_kind {s s' : St} {op : Op} {o : Out} (h : step s op = some (s', o)) : s'.kind = s.kind := by
  cases op <;> simp only [step, known] at h
  case enter c oo a e =>
    split at h <;> [skip; exact absurd h (by simp)]
    simp only [enterFarm, Option.bind_eq_bind, Option.bind_eq_some_iff] at h
    obtain ⟨_, _, h⟩ := h
    exact enterCore_kind h
  case enterOB c u a e =>
    split at h <;> [skip; exact absurd h (by simp)]
    simp only [enterFarmOnBehalf, Option.bind_eq_bind, Option.bind_eq_some_iff] at h
    obtain ⟨_, _, _, _, h⟩ := h
    exact enterCore_kind h
  case claim c oo p =>
    split at h <;> [skip; exact absurd h (by simp)]
    simp only [claimRewards, Option.bind_eq_bind, Option.bind_eq_some_iff] at h
    obtain ⟨_, _, h⟩ := h
    exact claimCore_kind h
  case claimOB c p =>
    split at h <;> [skip; exact absurd h (by simp)]
    simp only [claimRewardsOnBehalf, Option.bind_eq_bind, Option.bind_eq_some_iff] at h
    obtain ⟨_, _, _, _, _, _, h⟩ := h
    exact claimCore_kind h
  case compound c oo p =>
    split at h <;> [skip; exact absurd h (by simp)]
    simp only [compoundRewards, Option.bind_eq_bind, Option.bind_eq_some_iff, req_eq_some] at h
    obtain ⟨_, hk, _, _, h⟩ := h
    exact claimCore_kind h
  case exit c oo n a =>
    split at h <;> [skip; exact absurd h (by simp)]
    exact exitFarm_kind h
  case merge c oo p =>
    split at h <;> [skip; exact absurd h (by simp)]
    exact mergeFarmTokens_kind h
  case claimBoosted c u =>
    split at h <;> [skip; exact absurd h (by simp)]
    exact claimBoostedRewards_kind h
  case transfer a b n x =>
    split at h <;> [skip; exact absurd h (by simp)]
    split at h <;> [skip; exact absurd h (by simp)]
    simp only [noOut, Option.map_eq_some_iff, Prod.mk.injEq] at h
    obtain ⟨s1, h1, rfl, _⟩ := h
    simp only [transfer, Option.bind_eq_bind, Option.bind_eq_some_iff, req_eq_some, sub?_eq_some,
      Option.pure_def, Option.some.injEq] at h1
    obtain ⟨_, _, _, _, _, _, _, _, rfl⟩ := h1
    rfl
  case setEnergy u a l t =>
    simp only [Option.some.injEq, Prod.mk.injEq] at h
    obtain ⟨rfl, _⟩ := h
    rfl
  case updateEnergy u =>
    simp only [noOut, Option.map_eq_some_iff, Prod.mk.injEq] at h
    obtain ⟨s1, h1, rfl, _⟩ := h
    simp only [updateEnergyForUser, Option.bind_eq_bind, Option.bind_eq_some_iff, Option.pure_def,
      Option.some.injEq] at h1
    obtain ⟨_, _, _, _, rfl⟩ := h1
    rfl
  case setPerBlock c x =>
    simp only [noOut, Option.map_eq_some_iff, Prod.mk.injEq] at h
    obtain ⟨s1, h1, rfl, _⟩ := h
    simp only [setPerBlock, Option.bind_eq_bind, Option.bind_eq_some_iff, Option.pure_def,
      Option.some.injEq] at h1
    obtain ⟨_, _, _, _, s2, h2, rfl⟩ := h1
    exact (settle_kind h2 : s2.kind = s.kind)
  case startProduce c =>
    simp only [noOut, Option.map_eq_some_iff, Prod.mk.injEq] at h
    obtain ⟨s1, h1, rfl, _⟩ := h
    simp only [startProduce, Option.bind_eq_bind, Option.bind_eq_some_iff, Option.pure_def,
      Option.some.injEq] at h1
    obtain ⟨_, _, _, _, _, _, rfl⟩ := h1
    rfl
  case endProduce c =>
    simp only [noOut, Option.map_eq_some_iff, Prod.mk.injEq] at h
    obtain ⟨s1, h1, rfl, _⟩ := h
    simp only [endProduce, Option.bind_eq_bind, Option.bind_eq_some_iff, Option.pure_def,
      Option.some.injEq] at h1
    obtain ⟨_, _, s2, h2, rfl⟩ := h1
    exact (settle_kind h2 : s2.kind = s.kind)
  case setPct c p =>
    simp only [noOut, Option.map_eq_some_iff, Prod.mk.injEq] at h
    obtain ⟨s1, h1, rfl, _⟩ := h
    simp only [setPct, Option.bind_eq_bind, Option.bind_eq_some_iff, Option.pure_def,
      Option.some.injEq] at h1
    obtain ⟨_, _, _, _, s2, h2, rfl⟩ := h1
    exact (settle_kind h2 : s2.kind = s.kind)
  case setFactors c f =>
    simp only [noOut, Option.map_eq_some_iff, Prod.mk.injEq] at h
    obtain ⟨s1, h1, rfl, _⟩ := h
    simp only [setFactors, Option.bind_eq_bind, Option.bind_eq_some_iff, Option.pure_def] at h1
    obtain ⟨_, _, _, _, _, _, W, _, h1⟩ := h1
    split at h1
    · simp only [Option.bind_eq_some_iff, Option.some.injEq] at h1
      obtain ⟨_, _, rfl⟩ := h1
      rfl
    · simp only [Option.some.injEq] at h1
      subst h1
      rfl
  case collect c =>
    simp only [noOut, Option.map_eq_some_iff, Prod.mk.injEq] at h
    obtain ⟨s1, h1, rfl, _⟩ := h
    simp only [collectUndistributed, Option.bind_eq_bind, Option.bind_eq_some_iff, Option.pure_def,
      req_eq_some] at h1
    obtain ⟨_, _, W, _, _, _, h1⟩ := h1
    split at h1 <;> simp only [Option.some.injEq] at h1 <;> subst h1 <;> rfl
  case pause c =>
    simp only [noOut, Option.map_eq_some_iff, Prod.mk.injEq] at h
    obtain ⟨s1, h1, rfl, _⟩ := h
    simp only [setActive, Option.bind_eq_bind, Option.bind_eq_some_iff, Option.pure_def,
      Option.some.injEq] at h1
    obtain ⟨_, _, rfl⟩ := h1
    rfl
  case resume c =>
    simp only [noOut, Option.map_eq_some_iff, Prod.mk.injEq] at h
    obtain ⟨s1, h1, rfl, _⟩ := h
    simp only [setActive, Option.bind_eq_bind, Option.bind_eq_some_iff, Option.pure_def,
      Option.some.injEq] at h1
    obtain ⟨_, _, rfl⟩ := h1
    rfl
  case setPenalty c p =>
    simp only [noOut, Option.map_eq_some_iff, Prod.mk.injEq] at h
    obtain ⟨s1, h1, rfl, _⟩ := h
    simp only [setPenalty, Option.bind_eq_bind, Option.bind_eq_some_iff, Option.pure_def,
      Option.some.injEq] at h1
    obtain ⟨_, _, _, _, rfl⟩ := h1
    rfl
  case setMinEpochs c n =>
    simp only [noOut, Option.map_eq_some_iff, Prod.mk.injEq] at h
    obtain ⟨s1, h1, rfl, _⟩ := h
    simp only [setMinEpochs, Option.bind_eq_bind, Option.bind_eq_some_iff, Option.pure_def,
      Option.some.injEq] at h1
    obtain ⟨_, _, _, _, rfl⟩ := h1
    rfl
  case hubWhitelist u a =>
    split at h
    · cases h
    · simp only [Option.some.injEq, Prod.mk.injEq] at h; obtain ⟨rfl, _⟩ := h; rfl
  case hubRemove u a =>
    split at h
    · simp only [Option.some.injEq, Prod.mk.injEq] at h; obtain ⟨rfl, _⟩ := h; rfl
    · cases h
  case hubBlacklist a =>
    simp only [Option.some.injEq, Prod.mk.injEq] at h; obtain ⟨rfl, _⟩ := h; rfl
  case scWhitelist a =>
    split at h
    · cases h
    · simp only [Option.some.injEq, Prod.mk.injEq] at h; obtain ⟨rfl, _⟩ := h; rfl
  case scUnwhitelist a =>
    split at h
    · simp only [Option.some.injEq, Prod.mk.injEq] at h; obtain ⟨rfl, _⟩ := h; rfl
    · cases h
  case advance b e =>
    split at h
    · simp only [Option.some.injEq, Prod.mk.injEq] at h; obtain ⟨rfl, _⟩ := h; rfl
    · cases h
  case bad => cases h

theorem run_kind (ops : List Op) (s : St) : (run s ops).kind = s.kind := by
  induction ops generalizing s with
  | nil => rfl
  | cons op rest ih =>
    simp only [run, List.foldl_cons]
    cases hs : step s op with
    | none => exact ih s
    | some r => exact (ih r.1).trans (step_kind (show step s op = some (r.1, r.2) from hs))

end Mx.Farm
