/-
  Potential-function invariant of the farm model (C06 `total_base_bound`, base part of C05
  `reserve_covers`):

      Σ_n outstanding(n) · (rps − entryRps(n))  +  dsc · paidBase  ≤  dsc · baseBudget

  i.e. what has been paid as base rewards plus everything the outstanding positions can still claim
  never exceeds the base share of the emission.  Truncated subtraction throughout.

  Technique as in FarmPos.lean: the potential is a function of the position view `pv s` and an index
  `R`; the budget side lives in a second small view `cv s`; every helper is characterised on the two
  views, the endpoints chain those equations.
-/
import MxModel.Lemmas.FarmPos
import MxModel.Lemmas.FarmArith
import MxModel.Lemmas.FarmRps

namespace Mx.Farm

open Mx.Weekly (upd upd_same upd_other)

/-! ## the statement -/

/-- entry index of nonce `n` -/
def rpsOf (s : St) (n : Nat) : Nat := match s.attrs n with | some a => a.rps | none => 0
/-- Σ over nonces of outstanding amount × (current index − entry index), truncated subtraction -/
def potential (s : St) : Nat := ((nonceList s).map fun n => heldBy s n * (s.rps - rpsOf s n)).sum
def PotInv (s : St) : Prop := potential s + s.dsc * s.paidBase ≤ s.dsc * s.baseBudget

/-! ## the potential on the position view -/

def rpsA (atr : Nat → Option Attr) (n : Nat) : Nat := match atr n with | some a => a.rps | none => 0

theorem rpsA_some {atr : Nat → Option Attr} {n : Nat} {a : Attr} (h : atr n = some a) :
    rpsA atr n = a.rps := by simp only [rpsA, h]

/-- what the payments could still claim at index `R` -/
def payPot (atr : Nat → Option Attr) (R : Nat) : List (Nat × Nat) → Nat
  | [] => 0
  | (n, a) :: rest => a * (R - rpsA atr n) + payPot atr R rest

namespace PV

def pot (v : PV) (R : Nat) : Nat := (v.nonceList.map fun n => v.heldBy n * (R - rpsA v.attrs n)).sum

theorem sum_map_le {l : List Nat} {f g : Nat → Nat} (h : ∀ x ∈ l, f x ≤ g x) :
    (l.map f).sum ≤ (l.map g).sum := by
  induction l with
  | nil => exact Nat.le_refl _
  | cons x xs ih =>
    simp only [List.map_cons, List.sum_cons]
    have h1 := h x (List.mem_cons_self ..)
    have h2 := ih (fun y hy => h y (List.mem_cons_of_mem _ hy))
    omega

theorem sum_map_add_mul (l : List Nat) (f g : Nat → Nat) (k : Nat) :
    (l.map fun x => f x + k * g x).sum = (l.map f).sum + k * (l.map g).sum := by
  induction l with
  | nil => rfl
  | cons x xs ih =>
    simp only [List.map_cons, List.sum_cons, ih, Nat.mul_add]
    omega

/-- raising the index by `δ` raises the potential by at most `δ · Σ outstanding` -/
theorem pot_mono (v : PV) (R δ : Nat) : v.pot (R + δ) ≤ v.pot R + δ * v.totalHeld := by
  unfold pot totalHeld
  rw [← sum_map_add_mul]
  apply sum_map_le
  intro n _
  have h1 : R + δ - rpsA v.attrs n ≤ (R - rpsA v.attrs n) + δ := by omega
  have h2 := Nat.mul_le_mul_left (v.heldBy n) h1
  rw [Nat.mul_add, Nat.mul_comm (v.heldBy n) δ] at h2
  exact h2

theorem pot_setHold {v : PV} {X : Nat → Nat} (hI : InvA v X) {c n : Nat} (hc : c ∈ v.users)
    (hn : n ≤ v.lastNonce) (x R : Nat) :
    (v.setHold c n x).pot R + v.hold c n * (R - rpsA v.attrs n)
      = v.pot R + x * (R - rpsA v.attrs n) := by
  have h1 := heldBy_setHold_eq hI.nodup hc n x
  have h2 := sum_map_point (l := v.nonceList) List.nodup_range
    (f := fun m => v.heldBy m * (R - rpsA v.attrs m))
    (g := fun m => (v.setHold c n x).heldBy m * (R - rpsA v.attrs m)) (c := n)
    (List.mem_range.mpr (by omega)) (fun m hm => by simp only [heldBy_setHold_ne v c n x hm])
  unfold pot
  show ((v.nonceList).map fun m => (v.setHold c n x).heldBy m * (R - rpsA v.attrs m)).sum + _ = _
  generalize R - rpsA v.attrs n = K at *
  have h3 := congrArg (· * K) h1
  simp only [Nat.add_mul] at h3
  generalize (v.setHold c n x).heldBy n * K = p1 at *
  generalize v.heldBy n * K = p2 at *
  generalize v.hold c n * K = p3 at *
  generalize x * K = p4 at *
  omega

/-- the payments leave the potential with exactly what they could claim -/
theorem pot_take : ∀ (l : List (Nat × Nat)) {v v0 : PV} {X : Nat → Nat} {c : Nat} (R : Nat),
    InvA v X → c ∈ v.users → v.take c l = some v0 → v0.pot R + payPot v.attrs R l = v.pot R := by
  intro l
  induction l with
  | nil =>
    intro v v0 X c R _ _ h
    simp only [take, Option.some.injEq] at h
    subst h
    simp [payPot]
  | cons p rest ih =>
    intro v v0 X c R hI hc h
    obtain ⟨n, a⟩ := p
    simp only [take, Option.bind_eq_bind, Option.bind_eq_some_iff, req_eq_some, sub?_eq_some] at h
    obtain ⟨_, _, _, hsome, h1, ⟨hle, rfl⟩, h2⟩ := h
    obtain ⟨att, hat⟩ := Option.isSome_iff_exists.mp hsome
    have hn : n ≤ v.lastNonce := by
      by_contra hlt
      have := hI.fresh n (by omega)
      rw [hat] at this; cases this
    obtain ⟨A1, _⟩ := hI.setHold (X' := fun o => X o + (if att.owner = o then a else 0))
      (x := v.hold c n - a) hc hn hat (by intro o; split <;> omega)
    have e1 := ih R A1 hc h2
    have e2 := pot_setHold hI hc hn (v.hold c n - a) R
    have e3 : (v.setHold c n (v.hold c n - a)).attrs = v.attrs := rfl
    rw [e3] at e1
    simp only [payPot]
    generalize R - rpsA v.attrs n = K at *
    have e4 : (v.hold c n - a) * K + a * K = v.hold c n * K := by
      rw [← Nat.add_mul, Nat.sub_add_cancel hle]
    generalize (v.hold c n - a) * K = p1 at *
    generalize a * K = p2 at *
    generalize v.hold c n * K = p3 at *
    omega

theorem pot_bump {v : PV} {X : Nat → Nat} (hI : InvA v X) (a : Attr) (R : Nat) :
    (v.bump a).pot R = v.pot R := by
  have hz := heldBy_fresh hI (Nat.lt_succ_self v.lastNonce)
  have hH : ∀ m, (v.bump a).heldBy m = v.heldBy m := fun _ => rfl
  unfold pot
  show ((List.range (v.lastNonce + 1 + 1)).map _).sum = ((List.range (v.lastNonce + 1)).map _).sum
  rw [List.range_succ (n := v.lastNonce + 1), List.map_append, List.sum_append]
  simp only [List.map_cons, List.map_nil, List.sum_cons, List.sum_nil, hH, hz, Nat.zero_mul, Nat.add_zero]
  congr 1
  apply List.map_congr_left
  intro m hm
  have hm' : m ≠ v.lastNonce + 1 := by have := List.mem_range.mp hm; omega
  have : rpsA (v.bump a).attrs m = rpsA v.attrs m := by
    show rpsA (upd v.attrs (v.lastNonce + 1) (some a)) m = _
    simp only [rpsA, upd_other _ _ hm']
  rw [this]

/-- a new token adds what it could claim at index `R` -/
theorem pot_create {v : PV} {X : Nat → Nat} (hI : InvA v X) {dst : Nat} (hd : dst ∈ v.users)
    (a : Attr) (R : Nat) :
    (v.create dst a).pot R = v.pot R + a.amt * (R - a.rps) := by
  obtain ⟨A1, _⟩ := hI.bump a
  have e1 := pot_bump hI a R
  rw [create_eq]
  have e2 := pot_setHold A1 (c := dst) (n := v.lastNonce + 1) hd (Nat.le_refl _)
    ((v.bump a).hold dst (v.lastNonce + 1) + a.amt) R
  have e3 : rpsA (v.bump a).attrs (v.lastNonce + 1) = a.rps :=
    rpsA_some (by show upd v.attrs (v.lastNonce + 1) (some a) (v.lastNonce + 1) = _; rw [upd_same])
  rw [e3, Nat.add_mul] at e2
  generalize (v.bump a).hold dst (v.lastNonce + 1) * (R - a.rps) = p1 at *
  generalize a.amt * (R - a.rps) = p2 at *
  omega

/-- the shape of enter / claim / compound / merge on the potential: the payments go out, one token
    comes in (`userTotal` and `supply` do not matter for the potential) -/
theorem pot_remint {v v0 v3 : PV} {caller orig dst : Nat} {pays : List (Nat × Nat)}
    (hI : Inv v) (hc : caller ∈ v.users) (hd : dst ∈ v.users)
    (h0 : v.take caller pays = some v0) (h3 : v0.check orig pays = some v3)
    (merged : Attr) (R : Nat) :
    (v3.create dst merged).pot R + payPot v.attrs R pays
      = v.pot R + merged.amt * (R - merged.rps) ∧ v3.attrs = v.attrs := by
  have p0 := pot_take pays R hI.toA hc h0
  obtain ⟨A0, _, h', e0⟩ := take_inv pays hI.toA hc h0
  have ea : v0.attrs = v.attrs := by rw [e0]
  have eu : v0.users = v.users := by rw [e0]
  rw [← ea] at A0
  obtain ⟨A3, t, e3⟩ := InvA.check (Y := fun _ => 0) A0 h3
  have eu3 : v3.users = v0.users := by rw [e3]
  have ea3 : v3.attrs = v0.attrs := by rw [e3]
  have P3 : v3.pot R = v0.pot R := by rw [e3]; rfl
  have p5 := pot_create A3 (dst := dst) (by rw [eu3, eu]; exact hd) merged R
  refine ⟨?_, ea3.trans ea⟩
  rw [p5, P3]
  omega

theorem pot_transfer {v : PV} {src dst n a : Nat} (hI : Inv v) (hs : src ∈ v.users)
    (hd : dst ∈ v.users) (hsome : (v.attrs n).isSome) (hle : a ≤ v.hold src n) (R : Nat) :
    ((v.setHold src n (v.hold src n - a)).setHold dst n
      ((v.setHold src n (v.hold src n - a)).hold dst n + a)).pot R = v.pot R := by
  obtain ⟨att, hat⟩ := Option.isSome_iff_exists.mp hsome
  have hn : n ≤ v.lastNonce := by
    by_contra hlt
    have := hI.fresh n (by omega)
    rw [hat] at this; cases this
  obtain ⟨A1, _⟩ := hI.toA.setHold (X' := fun o => if att.owner = o then a else 0)
    (x := v.hold src n - a) hs hn hat (by intro o; split <;> omega)
  have e1 := pot_setHold hI.toA hs hn (v.hold src n - a) R
  have e2 := pot_setHold A1 (c := dst) (n := n) hd hn
    ((v.setHold src n (v.hold src n - a)).hold dst n + a) R
  have e3 : (v.setHold src n (v.hold src n - a)).attrs = v.attrs := rfl
  rw [e3] at e2
  generalize R - rpsA v.attrs n = K at *
  rw [Nat.add_mul] at e2
  have e4 : (v.hold src n - a) * K + a * K = v.hold src n * K := by
    rw [← Nat.add_mul, Nat.sub_add_cancel hle]
  generalize (v.hold src n - a) * K = p1 at *
  generalize a * K = p2 at *
  generalize v.hold src n * K = p3 at *
  generalize (v.setHold src n (v.hold src n - a)).hold dst n * K = p4 at *
  omega

end PV

theorem potential_eq (s : St) : potential s = (pv s).pot s.rps := rfl

/-- the merged token can claim no more than the base and the parts (iterated `merge_no_gain`) -/
theorem mergeParts_pot : ∀ (l : List (Nat × Nat)) {s : St} {base m : Attr} (R : Nat),
    mergeParts s base l = some m →
    m.amt * (R - m.rps) ≤ base.amt * (R - base.rps) + payPot s.attrs R l := by
  intro l
  induction l with
  | nil =>
    intro s base m R h
    simp only [mergeParts, Option.some.injEq] at h
    subst h; simp [payPot]
  | cons p rest ih =>
    intro s base m R h
    obtain ⟨n, a⟩ := p
    simp only [mergeParts, Option.bind_eq_bind, Option.bind_eq_some_iff] at h
    obtain ⟨att, hat, part, hp, m1, hm1, h2⟩ := h
    have e1 := ih R h2
    have e2 := merge_no_gain hm1 R
    obtain ⟨e3, e4⟩ := intoPart_rps hp
    rw [e3, e4] at e2
    simp only [payPot, rpsA_some hat]
    omega

theorem mergeAll_pot {s : St} {l : List (Nat × Nat)} {m : Attr} (R : Nat) (h : mergeAll s l = some m) :
    m.amt * (R - m.rps) ≤ payPot s.attrs R l := by
  cases l with
  | nil => simp [mergeAll] at h
  | cons p rest =>
    obtain ⟨n, a⟩ := p
    simp only [mergeAll, Option.bind_eq_bind, Option.bind_eq_some_iff] at h
    obtain ⟨att, hat, part, hp, h2⟩ := h
    have e1 := mergeParts_pot rest R h2
    obtain ⟨e3, e4⟩ := intoPart_rps hp
    rw [e3, e4] at e1
    simp only [payPot, rpsA_some hat]
    omega

/-! ## the budget view -/

structure CV where
  rps : Nat
  supply : Nat
  dsc : Nat
  paidBase : Nat
  baseBudget : Nat

def cv (s : St) : CV := ⟨s.rps, s.supply, s.dsc, s.paidBase, s.baseBudget⟩

/-- `Drop for StorageCache` on the view -/
def CV.drop (x : CV) (c : Cache) : CV := ⟨c.rps, c.supply, x.dsc, x.paidBase, x.baseBudget⟩

/-- a base payment on the view -/
def CV.pay (x : CV) (b : Nat) : CV := ⟨x.rps, x.supply, x.dsc, x.paidBase + b, x.baseBudget⟩
/-- a settlement's budget increment on the view -/
def CV.bud (x : CV) (B : Nat) : CV := ⟨x.rps, x.supply, x.dsc, x.paidBase, x.baseBudget + B⟩

theorem drop_cv (s : St) (c : Cache) : cv (Cache.drop s c) = (cv s).drop c := rfl

theorem takePayments_cv {l : List (Nat × Nat)} {s s' : St} {c : Nat} (h : takePayments s c l = some s') :
    cv s' = cv s := by obtain ⟨_, rfl⟩ := takePayments_spec l h; rfl
theorem checkAndUpdate_cv {l : List (Nat × Nat)} {s s' : St} {c : Nat} (h : checkAndUpdate s c l = some s') :
    cv s' = cv s := by obtain ⟨_, rfl⟩ := checkAndUpdate_spec l h; rfl
theorem claimBoostedYields_cv {s s' : St} {u r : Nat} (h : claimBoostedYields s u = some (s', r)) :
    cv s' = cv s := by obtain ⟨_, _, rfl⟩ := claimBoostedYields_struct h; rfl
theorem setFarmSupplyWeek_cv {s s' : St} {v : Nat} (h : setFarmSupplyWeek s v = some s') :
    cv s' = cv s := by obtain ⟨_, _, rfl⟩ := setFarmSupplyWeek_spec h; rfl
theorem updateEnergyAndProgress_cv {s s' : St} {u : Nat} (h : updateEnergyAndProgress s u = some s') :
    cv s' = cv s := by obtain ⟨_, rfl⟩ := updateEnergyAndProgress_spec h; rfl
theorem createToken_cv {s s' : St} {d n : Nat} {a : Attr} (h : createToken s d a = some (s', n)) :
    cv s' = cv s := by obtain ⟨_, _, rfl⟩ := createToken_spec h; rfl
theorem payReward_cv {s s' : St} {u b bo : Nat} (h : payReward s u b bo = some s') :
    cv s' = (cv s).pay b := by
  obtain ⟨_, _, rfl, _⟩ := payReward_spec h; rfl
theorem payRewardIf_cv {s s' : St} {k : Kind} {u bo : Nat} (h : payRewardIf s k u 0 bo = some s') :
    cv s' = cv s := by
  unfold payRewardIf at h
  split at h
  · exact payReward_cv h
  · simp only [Option.some.injEq] at h; rw [← h]
theorem claimOnlyBoostedPayment_cv {s s' : St} {u r : Nat} (h : claimOnlyBoostedPayment s u = some (s', r)) :
    cv s' = cv s := by
  simp only [claimOnlyBoostedPayment, Option.bind_eq_bind, Option.bind_eq_some_iff, Option.pure_def] at h
  obtain ⟨⟨s1, r1⟩, h1, h⟩ := h
  have k1 := claimBoostedYields_cv h1
  split at h
  · simp only [Option.some.injEq, Prod.mk.injEq] at h
    obtain ⟨rfl, _⟩ := h; exact k1
  · simp only [Option.bind_eq_some_iff, sub?_eq_some, Option.some.injEq, Prod.mk.injEq] at h
    obtain ⟨_, _, rfl, _⟩ := h; exact k1
theorem removeFarming_cv {s s' : St} {a p : Nat} (h : removeFarming s a p = some s') : cv s' = cv s := by
  simp only [removeFarming, Option.bind_eq_bind, Option.bind_eq_some_iff, sub?_eq_some, Option.pure_def,
    Option.some.injEq] at h
  obtain ⟨_, _, rfl⟩ := h; rfl
theorem compoundMove_cv {s s' : St} {b bo : Nat} (h : compoundMove s b bo = some s') :
    cv s' = (cv s).pay b := by
  simp only [compoundMove, Option.bind_eq_bind, Option.bind_eq_some_iff, sub?_eq_some, Option.pure_def,
    Option.some.injEq] at h
  obtain ⟨_, _, rfl⟩ := h; rfl
theorem clearUserEnergyIfNeeded_cv {s s' : St} {u : Nat} (h : clearUserEnergyIfNeeded s u = some s') :
    cv s' = cv s := by
  unfold clearUserEnergyIfNeeded at h
  split at h
  · simp only [Option.some.injEq] at h; rw [← h]
  · simp only [Option.bind_eq_bind, Option.bind_eq_some_iff, Option.pure_def, Option.some.injEq] at h
    obtain ⟨_, _, _, _, _, _, rfl⟩ := h
    rfl
theorem claimTail_cv {s s' : St} {c : Bool} {u b bo : Nat} (h : claimTail s c u b bo = some s') :
    cv s' = (cv s).pay b := by
  unfold claimTail at h
  split at h
  · simp only [Option.bind_eq_some_iff] at h
    obtain ⟨s1, h1, h2⟩ := h
    exact (updateEnergyAndProgress_cv h2).trans (compoundMove_cv h1)
  · exact payReward_cv h

/-- a settlement on a live cache: the index grows by `δ` with `δ · supply ≤ B · dsc` (floor), the
    base budget by `B` -/
theorem generate_cv {s s' : St} {c c' : Cache} (h : generate s c = some (s', c')) :
    ∃ B δ, cv s' = (cv s).bud B ∧ c'.rps = c.rps + δ ∧
      c'.supply = c.supply ∧ δ * c.supply ≤ B * s.dsc := by
  obtain ⟨_, rfl, _, rfl, _⟩ := generate_spec h
  refine ⟨minted s - cutOf s, _, rfl, rfl, rfl, ?_⟩
  split
  · simp
  · exact Nat.div_mul_le_self _ _

theorem takePayments_attrs {l : List (Nat × Nat)} {s s' : St} {c : Nat} (h : takePayments s c l = some s') :
    s'.attrs = s.attrs := by obtain ⟨_, e⟩ := takePayments_spec l h; rw [e]

/-- `baseReward_mul_le` without the (unused) `dsc ≠ 0` -/
theorem baseReward_mul_le' (dsc rps a r : Nat) : baseReward dsc rps a r * dsc ≤ a * (rps - r) := by
  unfold baseReward
  split
  · exact Nat.div_mul_le_self _ _
  · simp

/-! ## the step -/

theorem potInv_core {P P' Pm D pb bb B base δ T : Nat} (hK : P + D * pb ≤ D * bb)
    (hmono : Pm ≤ P + δ * T) (hδ : δ * T ≤ B * D) (hstep : P' + base * D ≤ Pm) :
    P' + D * (pb + base) ≤ D * (bb + B) := by
  rw [Nat.mul_add, Nat.mul_add, Nat.mul_comm D base, Nat.mul_comm D B]
  omega

/-- one operation: a settlement by `δ` (budget `+ B`), a base payment `base`, and the positions
    changed such that at the new index they lost at least `base · dsc` of potential -/
theorem PotInv.step {s s' : St} {B base δ : Nat} (hP : PosInv s) (hK : PotInv s)
    (hr : s'.rps = s.rps + δ) (hd : s'.dsc = s.dsc) (hpb : s'.paidBase = s.paidBase + base)
    (hbb : s'.baseBudget = s.baseBudget + B) (hδ : δ * s.supply ≤ B * s.dsc)
    (hstep : (pv s').pot (s.rps + δ) + base * s.dsc ≤ (pv s).pot (s.rps + δ)) :
    PotInv s' ∧ s'.dsc = s.dsc := by
  refine ⟨?_, hd⟩
  unfold PotInv
  rw [potential_eq, hr, hd, hpb, hbb]
  have hT : (pv s).totalHeld = s.supply := hP.sup.symm
  have hK' : (pv s).pot s.rps + s.dsc * s.paidBase ≤ s.dsc * s.baseBudget := hK
  exact potInv_core hK' (PV.pot_mono (pv s) s.rps δ) (by rw [hT]; exact hδ) hstep

theorem PotInv.of_eq {s s' : St} (hK : PotInv s) (h1 : pv s' = pv s) (h2 : cv s' = cv s) :
    PotInv s' ∧ s'.dsc = s.dsc := by
  have r1 : s'.rps = s.rps := congrArg CV.rps h2
  have r2 : s'.dsc = s.dsc := congrArg CV.dsc h2
  have r3 : s'.paidBase = s.paidBase := congrArg CV.paidBase h2
  have r4 : s'.baseBudget = s.baseBudget := congrArg CV.baseBudget h2
  refine ⟨?_, r2⟩
  unfold PotInv
  rw [potential_eq, h1, r1, r2, r3, r4]
  exact hK

theorem enterCore_pot {s s' : St} {caller orig tokenTo amt : Nat} {extra : List (Nat × Nat)} {o : Out}
    (hP : PosInv s) (hK : PotInv s) (hc : caller ∈ s.users) (ht : tokenTo ∈ s.users)
    (h : enterCore s caller orig tokenTo amt extra = some (s', o)) : PotInv s' ∧ s'.dsc = s.dsc := by
  simp only [enterCore, Option.bind_eq_bind, Option.bind_eq_some_iff, req_eq_some, Option.pure_def,
    Option.some.injEq, Prod.mk.injEq] at h
  obtain ⟨_, _, s0, h0, ⟨s1, boosted⟩, h1, s1', h1', _, hact, s2, h2, ⟨s4, c1⟩, h4, merged, hm,
    ⟨s5, n⟩, h5, s6, h6, s8, h8, s9, h9, rfl, rfl⟩ := h
  have e0 := takePayments_pv extra h0
  have e1 : pv s1 = pv s0 := claimOnlyBoostedPayment_pv (s := addFarming s0 amt) h1
  have e1' := payRewardIf_pv h1'
  have e2 := checkAndUpdate_pv extra h2
  have e4 : pv s4 = (pv s2).inc orig amt := (generate_pv h4).1
  have e5 := createToken_pv h5
  have e6 := setFarmSupplyWeek_pv h6
  have e8 : pv s8 = { pv s6 with supply := c1.supply + amt } := payRewardIf_pv h8
  have e9 := updateEnergyAndProgress_pv h9
  have k0 := takePayments_cv h0
  have k1 : cv s1 = cv s0 := claimOnlyBoostedPayment_cv (s := addFarming s0 amt) h1
  have k1' := payRewardIf_cv h1'
  have k2 := checkAndUpdate_cv h2
  obtain ⟨B, δ, k4, hr, _, hδ⟩ := generate_cv h4
  have k4' : cv s4 = (cv s2).bud B := k4
  have k5 := createToken_cv h5
  have k6 := setFarmSupplyWeek_cv h6
  have k8 : cv s8 = (cv s6).drop ⟨c1.reserve, c1.rps, c1.supply + amt⟩ := payRewardIf_cv h8
  have k9 := updateEnergyAndProgress_cv h9
  have mp := mergeParts_pot extra c1.rps hm
  have hr' : c1.rps = (cv s1').rps + δ := hr
  have hδ' : δ * (cv s1').supply ≤ B * (cv s2).dsc := hδ
  clear h0 h1 h1' h2 h4 h5 h6 h8 h9 hm k4 hr hδ
  dsimp only at mp
  have q1 : cv s1' = cv s := k1'.trans (k1.trans k0)
  have q2 : cv s2 = cv s := k2.trans q1
  rw [q1] at hr' hδ'
  rw [q2] at k4' hδ'
  have q9 : cv s9 = _ := k9.trans k8
  rw [k6, k5, k4'] at q9
  rw [e1', e1] at e2
  obtain ⟨pr, ea3⟩ := PV.pot_remint hP.toPV hc ht e0 e2 merged c1.rps
  have e9' : (pv s9).pot c1.rps = ((pv s2).create tokenTo merged).pot c1.rps := by
    rw [e9, e8]
    show (pv s6).pot c1.rps = _
    rw [e6, e5, e4]; rfl
  have ha4 : s4.attrs = s.attrs := (congrArg PV.attrs e4).trans ea3
  rw [ha4, Nat.sub_self, Nat.mul_zero, Nat.zero_add] at mp
  have hrr : s.rps + δ = c1.rps := hr'.symm
  refine PotInv.step (B := B) (base := 0) (δ := δ) hP hK ((congrArg CV.rps q9).trans hr')
    (congrArg CV.dsc q9) (congrArg CV.paidBase q9) (congrArg CV.baseBudget q9) hδ' ?_
  rw [hrr, e9']
  have pr' : _ + payPot s.attrs c1.rps extra = (pv s).pot c1.rps + _ := pr
  omega

theorem claimCore_pot {s s' : St} {caller orig : Nat} {pays : List (Nat × Nat)} {cmp : Bool} {o : Out}
    (hP : PosInv s) (hK : PotInv s) (hc : caller ∈ s.users)
    (h : claimCore s caller orig pays cmp = some (s', o)) : PotInv s' ∧ s'.dsc = s.dsc := by
  unfold claimCore at h
  replace h := peel h; obtain ⟨⟨n1, a1⟩, hhead, h⟩ := h
  replace h := peel h; obtain ⟨s0, h0, h⟩ := h
  replace h := peel h; obtain ⟨_, _, h⟩ := h
  replace h := peel h; obtain ⟨_, _, h⟩ := h
  replace h := peel h; obtain ⟨at1, hat, h⟩ := h
  replace h := peel h; obtain ⟨⟨s1, c1⟩, h1, h⟩ := h
  replace h := peel h; obtain ⟨part, hpart, h⟩ := h
  replace h := peel h; obtain ⟨⟨s2, boosted⟩, h2, h⟩ := h
  replace h := peel h; obtain ⟨res, _, h⟩ := h
  replace h := peel h; obtain ⟨s3, h3, h⟩ := h
  replace h := peel h; obtain ⟨merged, hm, h⟩ := h
  replace h := peel h; obtain ⟨⟨s5, n⟩, h5, h⟩ := h
  replace h := peel h; obtain ⟨s6, h6, h⟩ := h
  replace h := peel h; obtain ⟨s8, h8, h⟩ := h
  simp only [Option.pure_def, Option.some.injEq, Prod.mk.injEq] at h
  obtain ⟨rfl, _⟩ := h
  obtain ⟨rest, rfl⟩ : ∃ rest, pays = (n1, a1) :: rest := by
    cases pays with
    | nil => simp at hhead
    | cons p rest =>
      simp only [List.head?_cons, Option.some.injEq] at hhead
      exact ⟨rest, by rw [hhead]⟩
  have e0 := takePayments_pv _ h0
  have e1 := (generate_pv h1).1
  have e2 := claimBoostedYields_pv h2
  have e3 := checkAndUpdate_pv _ h3
  have e5 : (pv s5).pot c1.rps = ((pv s3).create caller merged).pot c1.rps := by
    rw [createToken_pv h5]; cases cmp <;> rfl
  have e6 := setFarmSupplyWeek_pv h6
  have e8 : (pv s8).pot c1.rps = (pv s6).pot c1.rps := by rw [claimTail_pv h8]; rfl
  have k0 := takePayments_cv h0
  obtain ⟨B, δ, k1, hr, _, hδ⟩ := generate_cv h1
  have hr' : c1.rps = (cv s0).rps + δ := hr
  have hδ' : δ * (cv s0).supply ≤ B * (cv s0).dsc := hδ
  have k2 := claimBoostedYields_cv h2
  have k3 := checkAndUpdate_cv h3
  have k5 : cv s5 = cv s3 := by rw [createToken_cv h5]; cases cmp <;> rfl
  have k6 := setFarmSupplyWeek_cv h6
  have k8 := claimTail_cv h8
  have mp : merged.amt * (c1.rps - merged.rps) ≤ payPot s3.attrs c1.rps rest := by
    have := mergeParts_pot _ c1.rps hm
    cases cmp <;>
      simp only [Bool.false_eq_true, if_false, if_true, List.tail_cons, Nat.sub_self, Nat.mul_zero,
        Nat.zero_add] at this <;> exact this
  obtain ⟨p1, _⟩ := intoPart_rps hpart
  have ha0 := takePayments_attrs h0
  have hd1 : s1.dsc = (cv s0).dsc := congrArg CV.dsc k1
  have hb := baseReward_mul_le' s1.dsc c1.rps a1 part.rps
  clear h0 h1 h2 h3 hm h5 h6 h8 hpart hr hδ hhead
  rw [ha0] at hat
  rw [k0] at k1 hr' hδ' hd1
  rw [e2, e1] at e3
  rw [drop_cv, k6, k5, k3, k2, k1] at k8
  generalize baseReward s1.dsc c1.rps a1 part.rps = base at *
  rw [hd1, p1] at hb
  have hrr : s.rps + δ = c1.rps := hr'.symm
  have hr1 := rpsA_some hat
  obtain ⟨pr, ea3⟩ := PV.pot_remint hP.toPV hc hc e0 e3 merged c1.rps
  have ha3 : s3.attrs = s.attrs := ea3
  rw [ha3] at mp
  refine PotInv.step (B := B) (base := base) (δ := δ) hP hK ((congrArg CV.rps k8).trans hr')
    (congrArg CV.dsc k8) (congrArg CV.paidBase k8) (congrArg CV.baseBudget k8) hδ' ?_
  rw [hrr, e8, e6, e5]
  have pr' : _ + payPot s.attrs c1.rps ((n1, a1) :: rest) = (pv s).pot c1.rps + _ := pr
  simp only [payPot, hr1] at pr'
  have hb' : base * s.dsc ≤ a1 * (c1.rps - at1.rps) := hb
  generalize a1 * (c1.rps - at1.rps) = X at *
  generalize base * s.dsc = Y at *
  omega

theorem exitFarm_pot {s s' : St} {caller : Nat} {opt : Option Nat} {n a : Nat} {o : Out}
    (hP : PosInv s) (hK : PotInv s) (hc : caller ∈ s.users)
    (h : exitFarm s caller opt n a = some (s', o)) : PotInv s' ∧ s'.dsc = s.dsc := by
  unfold exitFarm at h
  replace h := peel h; obtain ⟨orig, _, h⟩ := h
  replace h := peel h; obtain ⟨s0, h0, h⟩ := h
  replace h := peel h; obtain ⟨_, _, h⟩ := h
  replace h := peel h; obtain ⟨att, hat, h⟩ := h
  replace h := peel h; obtain ⟨⟨s1, c1⟩, h1, h⟩ := h
  replace h := peel h; obtain ⟨part, hpart, h⟩ := h
  replace h := peel h; obtain ⟨⟨s2, boosted⟩, h2, h⟩ := h
  replace h := peel h; obtain ⟨res, _, h⟩ := h
  replace h := peel h; obtain ⟨sup, _, h⟩ := h
  replace h := peel h; obtain ⟨s4, h4, h⟩ := h
  replace h := peel h; obtain ⟨pen, _, h⟩ := h
  replace h := peel h; obtain ⟨out, _, h⟩ := h
  replace h := peel h; obtain ⟨s6, h6, h⟩ := h
  replace h := peel h; obtain ⟨s7, h7, h⟩ := h
  replace h := peel h; obtain ⟨s8, h8, h⟩ := h
  simp only [Option.pure_def, Option.some.injEq, Prod.mk.injEq] at h
  obtain ⟨rfl, _⟩ := h
  have e0 := takePayments_pv _ h0
  have e1 := (generate_pv h1).1
  have e2 := claimBoostedYields_pv h2
  have e4 : (pv s4).pot c1.rps = (pv s2).pot c1.rps := by rw [setFarmSupplyWeek_pv h4]; rfl
  have e6 : (pv s6).pot c1.rps = (pv s4).pot c1.rps := by rw [removeFarming_pv h6]; rfl
  have e7 := payReward_pv h7
  have e8 := clearUserEnergyIfNeeded_pv h8
  have k0 := takePayments_cv h0
  obtain ⟨B, δ, k1, hr, _, hδ⟩ := generate_cv h1
  have hr' : c1.rps = (cv s0).rps + δ := hr
  have hδ' : δ * (cv s0).supply ≤ B * (cv s0).dsc := hδ
  have k2 := claimBoostedYields_cv h2
  have k4 : cv s4 = cv s2 := setFarmSupplyWeek_cv (s := decreaseOwner s2 att.owner a) h4
  have k6 := removeFarming_cv h6
  have k7 := payReward_cv h7
  have k8 := clearUserEnergyIfNeeded_cv h8
  obtain ⟨p1, _⟩ := intoPart_rps hpart
  have ha0 := takePayments_attrs h0
  have hd1 : s1.dsc = (cv s0).dsc := congrArg CV.dsc k1
  have hb := baseReward_mul_le' s1.dsc c1.rps a part.rps
  clear h0 h1 h2 h4 h6 h7 h8 hpart hr hδ
  rw [ha0] at hat
  rw [k0] at k1 hr' hδ' hd1
  have q8 : cv s8 = _ := k8.trans k7
  rw [k6, drop_cv, k4, k2, k1] at q8
  generalize baseReward s1.dsc c1.rps a part.rps = base at *
  rw [hd1, p1] at hb
  have hrr : s.rps + δ = c1.rps := hr'.symm
  have hr1 := rpsA_some hat
  have pt := PV.pot_take [(n, a)] c1.rps hP.toPV.toA hc e0
  refine PotInv.step (B := B) (base := base) (δ := δ) hP hK ((congrArg CV.rps q8).trans hr')
    (congrArg CV.dsc q8) (congrArg CV.paidBase q8) (congrArg CV.baseBudget q8) hδ' ?_
  rw [hrr, e8, e7, e6, e4, e2, e1]
  have pt' : _ + payPot s.attrs c1.rps [(n, a)] = (pv s).pot c1.rps := pt
  simp only [payPot, hr1, Nat.add_zero] at pt'
  have hb' : base * s.dsc ≤ a * (c1.rps - att.rps) := hb
  generalize a * (c1.rps - att.rps) = X at *
  generalize base * s.dsc = Y at *
  omega

theorem mergeFarmTokens_pot {s s' : St} {caller : Nat} {opt : Option Nat} {pays : List (Nat × Nat)} {o : Out}
    (hP : PosInv s) (hK : PotInv s) (hc : caller ∈ s.users)
    (h : mergeFarmTokens s caller opt pays = some (s', o)) : PotInv s' ∧ s'.dsc = s.dsc := by
  simp only [mergeFarmTokens, Option.bind_eq_bind, Option.bind_eq_some_iff, req_eq_some, Option.pure_def,
    Option.some.injEq, Prod.mk.injEq] at h
  obtain ⟨_, hact, orig, _, _, _, s0, h0, ⟨s1, boosted⟩, h1, s2, h2, merged, hm, ⟨s3, n⟩, h3, s4, h4, rfl, rfl⟩ := h
  have e0 := takePayments_pv pays h0
  have e1 := claimOnlyBoostedPayment_pv h1
  have e2 := checkAndUpdate_pv pays h2
  have e3 := createToken_pv h3
  have e4 := payReward_pv h4
  have k0 := takePayments_cv h0
  have k1 := claimOnlyBoostedPayment_cv h1
  have k2 := checkAndUpdate_cv h2
  have k3 := createToken_cv h3
  have k4 := payReward_cv h4
  have mp := mergeAll_pot s.rps hm
  clear h0 h1 h2 h3 h4 hm
  rw [e1] at e2
  rw [k3, k2, k1, k0] at k4
  obtain ⟨pr, ea3⟩ := PV.pot_remint hP.toPV hc hc e0 e2 { merged with owner := orig } s.rps
  have ha2 : s2.attrs = s.attrs := ea3
  rw [ha2] at mp
  refine PotInv.step (B := 0) (base := 0) (δ := 0) hP hK (congrArg CV.rps k4)
    (congrArg CV.dsc k4) (congrArg CV.paidBase k4) (congrArg CV.baseBudget k4) (by simp) ?_
  rw [e4, e3]
  have pr' : ((pv s2).create caller { merged with owner := orig }).pot s.rps + payPot s.attrs s.rps pays
      = (pv s).pot s.rps + merged.amt * (s.rps - merged.rps) := pr
  show ((pv s2).create caller { merged with owner := orig }).pot s.rps + 0 * s.dsc ≤ (pv s).pot s.rps
  generalize merged.amt * (s.rps - merged.rps) = X at *
  omega

theorem claimBoostedRewards_pot {s s' : St} {caller : Nat} {optUser : Option Nat} {o : Out}
    (hP : PosInv s) (hK : PotInv s)
    (h : claimBoostedRewards s caller optUser = some (s', o)) : PotInv s' ∧ s'.dsc = s.dsc := by
  simp only [claimBoostedRewards, Option.bind_eq_bind, Option.bind_eq_some_iff, req_eq_some, Option.pure_def,
    Option.some.injEq, Prod.mk.injEq, sub?_eq_some] at h
  obtain ⟨_, _, _, _, _, hact, ⟨s1, c1⟩, h1, ⟨s2, boosted⟩, h2, res, ⟨hle, rfl⟩, s3, h3, s4, h4, rfl, rfl⟩ := h
  have e1 := (generate_pv h1).1
  have e2 := claimBoostedYields_pv h2
  have e3 := setFarmSupplyWeek_pv h3
  have e4 := payReward_pv h4
  obtain ⟨B, δ, k1, hr, _, hδ⟩ := generate_cv h1
  have hr' : c1.rps = s.rps + δ := hr
  have hδ' : δ * s.supply ≤ B * s.dsc := hδ
  have k2 := claimBoostedYields_cv h2
  have k3 := setFarmSupplyWeek_cv h3
  have k4 := payReward_cv h4
  clear h1 h2 h3 h4 hr hδ
  rw [k3, k2, k1] at k4
  have q : cv (Cache.drop s4 ⟨c1.reserve - boosted, c1.rps, c1.supply⟩) = _ := drop_cv _ _
  rw [k4] at q
  refine PotInv.step (B := B) (base := 0) (δ := δ) hP hK ((congrArg CV.rps q).trans hr')
    (congrArg CV.dsc q) (congrArg CV.paidBase q) (congrArg CV.baseBudget q) hδ' ?_
  show (pv s4).pot (s.rps + δ) + 0 * s.dsc ≤ _
  rw [e4, e3, e2, e1]
  omega

theorem settle_pot {s s1 : St} (hP : PosInv s) (hK : PotInv s) (h : settle s = some s1) (s' : St)
    (h1 : pv s' = pv s1) (h2 : cv s' = cv s1) : PotInv s' ∧ s'.dsc = s.dsc := by
  have e := settle_pv h
  simp only [settle, Option.bind_eq_bind, Option.bind_eq_some_iff, Option.pure_def, Option.some.injEq] at h
  obtain ⟨⟨s2, c1⟩, hg, rfl⟩ := h
  obtain ⟨B, δ, k1, hr, _, hδ⟩ := generate_cv hg
  have hr' : c1.rps = s.rps + δ := hr
  have hδ' : δ * s.supply ≤ B * s.dsc := hδ
  clear hg hr hδ
  rw [drop_cv, k1] at h2
  refine PotInv.step (B := B) (base := 0) (δ := δ) hP hK ((congrArg CV.rps h2).trans hr')
    (congrArg CV.dsc h2) (congrArg CV.paidBase h2) (congrArg CV.baseBudget h2) hδ' ?_
  rw [h1, e]
  omega

theorem transfer_pot {s s' : St} {src dst n a : Nat} (hP : PosInv s) (hK : PotInv s)
    (hs : src ∈ s.users) (hd : dst ∈ s.users) (h : transfer s src dst n a = some s') :
    PotInv s' ∧ s'.dsc = s.dsc := by
  simp only [transfer, Option.bind_eq_bind, Option.bind_eq_some_iff, req_eq_some, sub?_eq_some,
    Option.pure_def, Option.some.injEq] at h
  obtain ⟨_, _, _, _, _, hsome, _, ⟨hle, rfl⟩, rfl⟩ := h
  have e := PV.pot_transfer hP.toPV hs hd hsome hle s.rps
  refine PotInv.step (B := 0) (base := 0) (δ := 0) hP hK rfl rfl rfl rfl (by simp) ?_
  show _ + 0 * s.dsc ≤ (pv s).pot s.rps
  exact Nat.le_of_eq (by rw [Nat.zero_mul, Nat.add_zero]; exact e)

theorem init_potInv (kind : Kind) (sameTok : Bool) (dsc perBlock : Nat) (produce : Bool) (users : List Nat)
    (e0 : Nat) : PotInv (init kind sameTok dsc perBlock produce users e0) := by
  show ((List.range 1).map _).sum + dsc * 0 ≤ dsc * 0
  simp only [List.range_one, List.map_cons, List.map_nil, List.sum_cons, List.sum_nil, Nat.add_zero,
    Nat.mul_zero]
  show _ * (0 - _) ≤ 0
  simp

/-- every operation preserves the potential invariant (given the position invariant) and `dsc` -/
theorem step_potInv' {s s' : St} {op : Op} {o : Out} (hP : PosInv s) (hK : PotInv s)
    (h : step s op = some (s', o)) : PotInv s' ∧ s'.dsc = s.dsc := by
  cases op <;> simp only [step, known] at h
  case enter c oo a e =>
    split at h <;> [skip; exact absurd h (by simp)]
    rename_i hc
    simp only [enterFarm, Option.bind_eq_bind, Option.bind_eq_some_iff] at h
    obtain ⟨_, _, h⟩ := h
    exact enterCore_pot hP hK hc hc h
  case enterOB c u a e =>
    split at h <;> [skip; exact absurd h (by simp)]
    rename_i hc
    simp only [enterFarmOnBehalf, Option.bind_eq_bind, Option.bind_eq_some_iff] at h
    obtain ⟨_, _, _, _, h⟩ := h
    exact enterCore_pot hP hK hc hc h
  case claim c oo p =>
    split at h <;> [skip; exact absurd h (by simp)]
    rename_i hc
    simp only [claimRewards, Option.bind_eq_bind, Option.bind_eq_some_iff] at h
    obtain ⟨_, _, h⟩ := h
    exact claimCore_pot hP hK hc h
  case claimOB c p =>
    split at h <;> [skip; exact absurd h (by simp)]
    rename_i hc
    simp only [claimRewardsOnBehalf, Option.bind_eq_bind, Option.bind_eq_some_iff] at h
    obtain ⟨_, _, _, _, _, _, h⟩ := h
    exact claimCore_pot hP hK hc h
  case compound c oo p =>
    split at h <;> [skip; exact absurd h (by simp)]
    rename_i hc
    simp only [compoundRewards, Option.bind_eq_bind, Option.bind_eq_some_iff, req_eq_some] at h
    obtain ⟨_, hk, _, _, h⟩ := h
    exact claimCore_pot hP hK hc h
  case exit c oo n a =>
    split at h <;> [skip; exact absurd h (by simp)]
    rename_i hc
    exact exitFarm_pot hP hK hc h
  case merge c oo p =>
    split at h <;> [skip; exact absurd h (by simp)]
    rename_i hc
    exact mergeFarmTokens_pot hP hK hc h
  case claimBoosted c u =>
    split at h <;> [skip; exact absurd h (by simp)]
    exact claimBoostedRewards_pot hP hK h
  case transfer a b n x =>
    split at h <;> [skip; exact absurd h (by simp)]
    rename_i ha
    split at h <;> [skip; exact absurd h (by simp)]
    rename_i hb
    simp only [noOut, Option.map_eq_some_iff, Prod.mk.injEq] at h
    obtain ⟨s1, h1, rfl, _⟩ := h
    exact transfer_pot hP hK ha hb h1
  case setEnergy u a l t =>
    simp only [Option.some.injEq, Prod.mk.injEq] at h
    obtain ⟨rfl, _⟩ := h
    exact hK.of_eq rfl rfl
  case updateEnergy u =>
    simp only [noOut, Option.map_eq_some_iff, Prod.mk.injEq] at h
    obtain ⟨s1, h1, rfl, _⟩ := h
    simp only [updateEnergyForUser, Option.bind_eq_bind, Option.bind_eq_some_iff, Option.pure_def,
      Option.some.injEq] at h1
    obtain ⟨_, _, _, _, rfl⟩ := h1
    exact hK.of_eq rfl rfl
  case setPerBlock c x =>
    simp only [noOut, Option.map_eq_some_iff, Prod.mk.injEq] at h
    obtain ⟨s1, h1, rfl, _⟩ := h
    simp only [setPerBlock, Option.bind_eq_bind, Option.bind_eq_some_iff, Option.pure_def,
      Option.some.injEq] at h1
    obtain ⟨_, _, _, _, s2, h2, rfl⟩ := h1
    exact settle_pot hP hK h2 _ rfl rfl
  case startProduce c =>
    simp only [noOut, Option.map_eq_some_iff, Prod.mk.injEq] at h
    obtain ⟨s1, h1, rfl, _⟩ := h
    simp only [startProduce, Option.bind_eq_bind, Option.bind_eq_some_iff, Option.pure_def,
      Option.some.injEq] at h1
    obtain ⟨_, _, _, _, _, _, rfl⟩ := h1
    exact hK.of_eq rfl rfl
  case endProduce c =>
    simp only [noOut, Option.map_eq_some_iff, Prod.mk.injEq] at h
    obtain ⟨s1, h1, rfl, _⟩ := h
    simp only [endProduce, Option.bind_eq_bind, Option.bind_eq_some_iff, Option.pure_def,
      Option.some.injEq] at h1
    obtain ⟨_, _, s2, h2, rfl⟩ := h1
    exact settle_pot hP hK h2 _ rfl rfl
  case setPct c p =>
    simp only [noOut, Option.map_eq_some_iff, Prod.mk.injEq] at h
    obtain ⟨s1, h1, rfl, _⟩ := h
    simp only [setPct, Option.bind_eq_bind, Option.bind_eq_some_iff, Option.pure_def,
      Option.some.injEq] at h1
    obtain ⟨_, _, _, _, s2, h2, rfl⟩ := h1
    exact settle_pot hP hK h2 _ rfl rfl
  case setFactors c f =>
    simp only [noOut, Option.map_eq_some_iff, Prod.mk.injEq] at h
    obtain ⟨s1, h1, rfl, _⟩ := h
    simp only [setFactors, Option.bind_eq_bind, Option.bind_eq_some_iff, Option.pure_def] at h1
    obtain ⟨_, _, _, _, _, _, W, _, h1⟩ := h1
    split at h1
    · simp only [Option.bind_eq_some_iff, Option.some.injEq] at h1
      obtain ⟨_, _, rfl⟩ := h1
      exact hK.of_eq rfl rfl
    · simp only [Option.some.injEq] at h1
      subst h1
      exact hK.of_eq rfl rfl
  case collect c =>
    simp only [noOut, Option.map_eq_some_iff, Prod.mk.injEq] at h
    obtain ⟨s1, h1, rfl, _⟩ := h
    simp only [collectUndistributed, Option.bind_eq_bind, Option.bind_eq_some_iff, Option.pure_def,
      req_eq_some] at h1
    obtain ⟨_, _, W, _, _, _, h1⟩ := h1
    split at h1 <;> simp only [Option.some.injEq] at h1 <;> subst h1 <;> exact hK.of_eq rfl rfl
  case pause c =>
    simp only [noOut, Option.map_eq_some_iff, Prod.mk.injEq] at h
    obtain ⟨s1, h1, rfl, _⟩ := h
    simp only [setActive, Option.bind_eq_bind, Option.bind_eq_some_iff, Option.pure_def,
      Option.some.injEq] at h1
    obtain ⟨_, _, rfl⟩ := h1
    exact hK.of_eq rfl rfl
  case resume c =>
    simp only [noOut, Option.map_eq_some_iff, Prod.mk.injEq] at h
    obtain ⟨s1, h1, rfl, _⟩ := h
    simp only [setActive, Option.bind_eq_bind, Option.bind_eq_some_iff, Option.pure_def,
      Option.some.injEq] at h1
    obtain ⟨_, _, rfl⟩ := h1
    exact hK.of_eq rfl rfl
  case setPenalty c p =>
    simp only [noOut, Option.map_eq_some_iff, Prod.mk.injEq] at h
    obtain ⟨s1, h1, rfl, _⟩ := h
    simp only [setPenalty, Option.bind_eq_bind, Option.bind_eq_some_iff, Option.pure_def,
      Option.some.injEq] at h1
    obtain ⟨_, _, _, _, rfl⟩ := h1
    exact hK.of_eq rfl rfl
  case setMinEpochs c n =>
    simp only [noOut, Option.map_eq_some_iff, Prod.mk.injEq] at h
    obtain ⟨s1, h1, rfl, _⟩ := h
    simp only [setMinEpochs, Option.bind_eq_bind, Option.bind_eq_some_iff, Option.pure_def,
      Option.some.injEq] at h1
    obtain ⟨_, _, _, _, rfl⟩ := h1
    exact hK.of_eq rfl rfl
  case hubWhitelist u a =>
    split at h
    · cases h
    · simp only [Option.some.injEq, Prod.mk.injEq] at h; obtain ⟨rfl, _⟩ := h; exact hK.of_eq rfl rfl
  case hubRemove u a =>
    split at h
    · simp only [Option.some.injEq, Prod.mk.injEq] at h; obtain ⟨rfl, _⟩ := h; exact hK.of_eq rfl rfl
    · cases h
  case hubBlacklist a =>
    simp only [Option.some.injEq, Prod.mk.injEq] at h; obtain ⟨rfl, _⟩ := h; exact hK.of_eq rfl rfl
  case scWhitelist a =>
    split at h
    · cases h
    · simp only [Option.some.injEq, Prod.mk.injEq] at h; obtain ⟨rfl, _⟩ := h; exact hK.of_eq rfl rfl
  case scUnwhitelist a =>
    split at h
    · simp only [Option.some.injEq, Prod.mk.injEq] at h; obtain ⟨rfl, _⟩ := h; exact hK.of_eq rfl rfl
    · cases h
  case advance b e =>
    split at h
    · simp only [Option.some.injEq, Prod.mk.injEq] at h; obtain ⟨rfl, _⟩ := h; exact hK.of_eq rfl rfl
    · cases h
  case bad => cases h

theorem step_potInv {s s' : St} {op : Op} {o : Out} (hP : PosInv s) (hK : PotInv s)
    (h : step s op = some (s', o)) : PotInv s' := (step_potInv' hP hK h).1

theorem step_dsc {s s' : St} {op : Op} {o : Out} (hP : PosInv s) (hK : PotInv s)
    (h : step s op = some (s', o)) : s'.dsc = s.dsc := (step_potInv' hP hK h).2

/-- along every history: both invariants, and `dsc` is constant -/
theorem run_potInv' (ops : List Op) {s : St} (hP : PosInv s) (hK : PotInv s) :
    PosInv (run s ops) ∧ PotInv (run s ops) ∧ (run s ops).dsc = s.dsc := by
  induction ops generalizing s with
  | nil => exact ⟨hP, hK, rfl⟩
  | cons op rest ih =>
    simp only [run, List.foldl_cons]
    cases hs : step s op with
    | none => exact ih hP hK
    | some r =>
      have h : step s op = some (r.1, r.2) := hs
      obtain ⟨k1, k2⟩ := step_potInv' hP hK h
      obtain ⟨a1, a2, a3⟩ := ih (step_posInv hP h) k1
      exact ⟨a1, a2, a3.trans k2⟩

theorem run_potInv (ops : List Op) {s : St} (hP : PosInv s) (hK : PotInv s) : PotInv (run s ops) :=
  (run_potInv' ops hP hK).2.1

/-! ## corollaries -/

/-- C06 `total_base_bound`: base rewards paid out never exceed the base share of the emission -/
theorem total_base_bound (kind : Kind) (sameTok : Bool) (dsc perBlock : Nat) (produce : Bool)
    (users : List Nat) (e0 : Nat) (hnd : users.Nodup) (hd : dsc ≠ 0) (ops : List Op) :
    (run (init kind sameTok dsc perBlock produce users e0) ops).paidBase
      ≤ (run (init kind sameTok dsc perBlock produce users e0) ops).baseBudget := by
  obtain ⟨_, hK, hdsc⟩ := run_potInv' ops (init_posInv kind sameTok dsc perBlock produce users e0 hnd)
    (init_potInv kind sameTok dsc perBlock produce users e0)
  generalize run (init kind sameTok dsc perBlock produce users e0) ops = s at *
  have hdsc' : s.dsc = dsc := hdsc
  unfold PotInv at hK
  rw [hdsc'] at hK
  exact Nat.le_of_mul_le_mul_left (Nat.le_trans (Nat.le_add_left _ _) hK) (Nat.pos_of_ne_zero hd)

/-- base part of C05 `reserve_covers`: what all outstanding positions could claim as base reward
    right now, plus what has been paid, is within the base share of the emission -/
theorem claimable_le (kind : Kind) (sameTok : Bool) (dsc perBlock : Nat) (produce : Bool)
    (users : List Nat) (e0 : Nat) (hnd : users.Nodup) (hd : dsc ≠ 0) (ops : List Op) :
    let s := run (init kind sameTok dsc perBlock produce users e0) ops
    ((nonceList s).map fun n => baseReward s.dsc s.rps (heldBy s n) (rpsOf s n)).sum + s.paidBase
      ≤ s.baseBudget := by
  intro s
  obtain ⟨_, hK, hdsc⟩ := run_potInv' ops (init_posInv kind sameTok dsc perBlock produce users e0 hnd)
    (init_potInv kind sameTok dsc perBlock produce users e0)
  have hdsc' : s.dsc = dsc := hdsc
  have hK' : potential s + s.dsc * s.paidBase ≤ s.dsc * s.baseBudget := hK
  have hsum : s.dsc * ((nonceList s).map fun n => baseReward s.dsc s.rps (heldBy s n) (rpsOf s n)).sum
      ≤ potential s := by
    have := PV.sum_map_add_mul (nonceList s) (fun _ => 0)
      (fun n => baseReward s.dsc s.rps (heldBy s n) (rpsOf s n)) s.dsc
    rw [PV.sum_map_zero (fun _ _ => rfl), Nat.zero_add] at this
    rw [← this]
    unfold potential
    apply PV.sum_map_le
    intro n _
    rw [Nat.zero_add, Nat.mul_comm]
    exact baseReward_mul_le' _ _ _ _
  apply Nat.le_of_mul_le_mul_left _ (Nat.pos_of_ne_zero (hdsc' ▸ hd) : 0 < s.dsc)
  rw [Nat.mul_add]
  omega

end Mx.Farm
