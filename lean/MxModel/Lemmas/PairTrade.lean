/-
  Trading histories (C02, "no sequence of swaps returns more than was put in"), generalised from
  lists of `swapIn`/`swapOut` to every history without a LIQUIDITY operation: swaps by anyone,
  `swapNoFeeAndForward` by whitelisted contracts, configuration changes (fee percents, fee
  destinations, collector, state, whitelist, trusted pairs, locking setters) and the two clocks.

  * `isLiq`      the operations that change the LP supply (add / remove / buy-back).
  * `tflow`      signed (first, second) token amounts the caller of a successful operation nets.
  * `runT`       run a history accumulating `tflow` (failed transactions net nothing).
  * `trade_step` one non-liquidity operation keeps `S` and the caller nets at most what the
                 reserves lose, per token.
  * `trade_run`  the same over a history; with K-monotonicity: `flow_bound`.
-/
import MxModel.Lemmas.PairEmpty

namespace Mx.Pair

/-- the operations that mint or burn LP tokens -/
def isLiq : Op → Bool
  | .addInitial .. => true
  | .addLiq .. => true
  | .removeLiq .. => true
  | .buyback .. => true
  | _ => false

/-- signed amounts of (first, second) token the caller of a successful non-liquidity operation
    nets: swaps as `flowOf`; `swapNoFeeAndForward` pays its input and receives nothing (the
    output is burned); configuration and clock operations move nothing -/
def tflow (op : Op) (o : Out) : Int × Int :=
  match op with
  | .swapNoFee _ .ab a => (-(a : Int), 0)
  | .swapNoFee _ .ba a => (0, -(a : Int))
  | op => flowOf op o

/-- run a history, accumulating what the callers netted; failed transactions net nothing -/
def runT : St → List Op → St × Int × Int
  | s, [] => (s, 0, 0)
  | s, op :: ops =>
    match step s op with
    | some (s1, o) =>
      ((runT s1 ops).1, (tflow op o).1 + (runT s1 ops).2.1, (tflow op o).2 + (runT s1 ops).2.2)
    | none => runT s ops

theorem runT_fst (s : St) (ops : List Op) : (runT s ops).1 = run s ops := by
  induction ops generalizing s with
  | nil => rfl
  | cons op ops ih =>
    simp only [runT, run, List.foldl_cons]
    cases h : step s op with
    | none => simpa [run] using ih s
    | some r => obtain ⟨s1, o⟩ := r; simpa [run] using ih s1

/-- configuration / clock operations leave supply and reserves alone -/
theorem neutral_step {s s' : St} {op : Op} {o : Out}
    (hn : (match op with | .cfg _ => true | .advance _ => true | .lock _ _ => true
                         | .epoch _ => true | _ => false) = true)
    (h : step s op = some (s', o)) : s'.S = s.S ∧ s'.r1 = s.r1 ∧ s'.r2 = s.r2 := by
  cases op <;> simp only [reduceCtorEq, Bool.false_eq_true] at hn <;> simp only [step] at h
  case cfg op =>
    simp only [Option.map_eq_some_iff, Prod.mk.injEq] at h
    obtain ⟨s1, hc, rfl, _⟩ := h
    cases op <;>
      simp only [cfg, Option.bind_eq_bind, Option.bind_eq_some_iff, req_eq_some,
        Option.pure_def, Option.some.injEq] at hc
    case setFee => obtain ⟨_, _, rfl⟩ := hc; exact ⟨rfl, rfl, rfl⟩
    case addDest => subst hc; exact ⟨rfl, rfl, rfl⟩
    case removeDest => obtain ⟨_, _, rfl⟩ := hc; exact ⟨rfl, rfl, rfl⟩
    case setCollector => obtain ⟨_, _, rfl⟩ := hc; exact ⟨rfl, rfl, rfl⟩
    case setState => subst hc; exact ⟨rfl, rfl, rfl⟩
    case whitelist => obtain ⟨_, _, rfl⟩ := hc; exact ⟨rfl, rfl, rfl⟩
    case removeWhitelist => obtain ⟨_, _, rfl⟩ := hc; exact ⟨rfl, rfl, rfl⟩
    case setTrusted f x =>
      cases f <;> simp only [cfg, Option.pure_def, Option.some.injEq] at hc <;> subst hc <;>
        exact ⟨rfl, rfl, rfl⟩
  case advance =>
    split at h
    · simp only [Option.some.injEq, Prod.mk.injEq] at h
      obtain ⟨rfl, _⟩ := h
      exact ⟨rfl, rfl, rfl⟩
    · simp at h
  case lock =>
    simp only [Option.map_eq_some_iff, Prod.mk.injEq] at h
    obtain ⟨s1, hc, rfl, _⟩ := h
    obtain ⟨_, dl, ul, sc, rfl⟩ := lockCfg_spec hc
    exact ⟨rfl, rfl, rfl⟩
  case epoch =>
    split at h
    · simp only [Option.some.injEq, Prod.mk.injEq] at h
      obtain ⟨rfl, _⟩ := h
      exact ⟨rfl, rfl, rfl⟩
    · simp at h

/-- a swap keeps the LP supply -/
theorem swap_step_S {s s' : St} {op : Op} {o : Out} (hsw : isSwap op = true)
    (h : step s op = some (s', o)) : s'.S = s.S := by
  cases op <;> simp only [isSwap] at hsw <;> try contradiction
  case swapIn d a m =>
    simp only [step] at h
    obtain ⟨s3, _, _, _, _, _, _, _, _, _, _, _, _, h12, _, rfl⟩ := swapIn_spec h
    have := h12.same.1
    cases d <;> simpa [swapMid, St.touch, St.setR, St.setBal] using this
  case swapOut d mx out =>
    simp only [step] at h
    obtain ⟨s3, _, _, _, _, _, _, _, _, _, _, _, _, h12, _, rfl⟩ := swapOut_spec h
    have := h12.same.1
    cases d <;> simpa [swapMid, St.touch, St.setR, St.setBal] using this

/-- one successful non-liquidity operation: the LP supply is unchanged and the caller nets, of
    each token, at most what the reserve of that token loses -/
theorem trade_step {s s' : St} {op : Op} {o : Out} (hl : isLiq op = false)
    (h : step s op = some (s', o)) :
    s'.S = s.S ∧ (tflow op o).1 ≤ (s.r1 : Int) - s'.r1 ∧ (tflow op o).2 ≤ (s.r2 : Int) - s'.r2 := by
  cases op <;> simp only [isLiq, Bool.true_eq_false] at hl
  case swapIn d a m =>
    have hf := swap_flow_step (op := .swapIn d a m) rfl h
    exact ⟨swap_step_S (op := .swapIn d a m) rfl h, by simpa [tflow] using hf.1,
      by simpa [tflow] using hf.2⟩
  case swapOut d mx out =>
    have hf := swap_flow_step (op := .swapOut d mx out) rfl h
    exact ⟨swap_step_S (op := .swapOut d mx out) rfl h, by simpa [tflow] using hf.1,
      by simpa [tflow] using hf.2⟩
  case swapNoFee c d a =>
    simp only [step] at h
    obtain ⟨_, _, _, _, rfl, h6, _, _, rfl⟩ := swapNoFee_spec h
    cases d <;>
      simp only [tflow, St.touch, St.setR, St.setBal, St.addBurnOut, St.addBurnIn, Dir.flip,
        St.rin, St.rout] at * <;> refine ⟨trivial, ?_, ?_⟩ <;> omega
  case cfg c =>
    obtain ⟨e0, e1, e2⟩ := neutral_step (op := .cfg c) rfl h
    simp [tflow, flowOf, e0, e1, e2]
  case advance r =>
    obtain ⟨e0, e1, e2⟩ := neutral_step (op := .advance r) rfl h
    simp [tflow, flowOf, e0, e1, e2]
  case lock ow lo =>
    obtain ⟨e0, e1, e2⟩ := neutral_step (op := .lock ow lo) rfl h
    simp [tflow, flowOf, e0, e1, e2]
  case epoch e =>
    obtain ⟨e0, e1, e2⟩ := neutral_step (op := .epoch e) rfl h
    simp [tflow, flowOf, e0, e1, e2]

/-- over a history without liquidity operations: the LP supply is unchanged and the callers'
    aggregate net of each token is at most what that reserve lost -/
theorem trade_run (ops : List Op) (hall : ∀ op ∈ ops, isLiq op = false) (s : St) :
    (run s ops).S = s.S ∧
    (runT s ops).2.1 ≤ (s.r1 : Int) - (run s ops).r1 ∧
    (runT s ops).2.2 ≤ (s.r2 : Int) - (run s ops).r2 := by
  induction ops generalizing s with
  | nil => simp [runT, run]
  | cons op ops ih =>
    have hop := hall op (List.mem_cons_self ..)
    have hrest : ∀ op' ∈ ops, isLiq op' = false := fun o' ho' => hall o' (List.mem_cons_of_mem _ ho')
    simp only [runT, run, List.foldl_cons]
    cases h : step s op with
    | none => exact ih hrest s
    | some r =>
      obtain ⟨s1, o⟩ := r
      obtain ⟨e, h1, h2⟩ := trade_step hop h
      obtain ⟨e', g1, g2⟩ := ih hrest s1
      simp only [run] at e' g1 g2
      simp only []
      refine ⟨by rw [e', e], ?_, ?_⟩ <;> omega

/-- pure arithmetic: flows bounded by the reserve losses, reserves' product not smaller ⇒ the
    flows are no better than a fee-less constant-product trade against the initial reserves -/
theorem flow_product (r1 r2 r1' r2' : Nat) (f1 f2 : Int)
    (h1 : f1 ≤ (r1 : Int) - r1') (h2 : f2 ≤ (r2 : Int) - r2') (hk : r1 * r2 ≤ r1' * r2') :
    0 ≤ (r1 : Int) - f1 ∧ 0 ≤ (r2 : Int) - f2 ∧
    (r1 : Int) * r2 ≤ ((r1 : Int) - f1) * ((r2 : Int) - f2) := by
  have a1 : (r1' : Int) ≤ (r1 : Int) - f1 := by omega
  have a2 : (r2' : Int) ≤ (r2 : Int) - f2 := by omega
  have p1 : (0 : Int) ≤ r1' := Int.natCast_nonneg _
  have p2 : (0 : Int) ≤ r2' := Int.natCast_nonneg _
  have hk' : (r1 : Int) * r2 ≤ (r1' : Int) * r2' := by exact_mod_cast hk
  refine ⟨by omega, by omega, Int.le_trans hk' ?_⟩
  exact Int.mul_le_mul a1 a2 p2 (by omega)

/-- …and such flows are never a profit: not (≥ 0 of both tokens and > 0 of one), provided the
    reserves are both positive or both zero -/
theorem flow_no_profit (r1 r2 : Nat) (f1 f2 : Int)
    (hr : (0 < r1 ∧ 0 < r2) ∨ (r1 = 0 ∧ r2 = 0))
    (b1 : 0 ≤ (r1 : Int) - f1) (b2 : 0 ≤ (r2 : Int) - f2)
    (hp : (r1 : Int) * r2 ≤ ((r1 : Int) - f1) * ((r2 : Int) - f2)) :
    ¬ (0 ≤ f1 ∧ 0 ≤ f2 ∧ 0 < f1 + f2) := by
  rintro ⟨g1, g2, g3⟩
  rcases hr with ⟨p1, p2⟩ | ⟨z1, z2⟩
  · have q1 : (0 : Int) < r1 := by exact_mod_cast p1
    have q2 : (0 : Int) < r2 := by exact_mod_cast p2
    have e : ((r1 : Int) - f1) * ((r2 : Int) - f2) = (r1 : Int) * r2 - (f1 * ((r2 : Int) - f2) + f2 * r1) := by
      ring
    rw [e] at hp
    have n1 : 0 ≤ f1 * ((r2 : Int) - f2) := Int.mul_nonneg g1 b2
    have n2 : 0 ≤ f2 * (r1 : Int) := Int.mul_nonneg g2 (by omega)
    rcases Int.lt_or_le 0 f2 with c | c
    · have : 0 < f2 * (r1 : Int) := Int.mul_pos c q1
      omega
    · have f20 : f2 = 0 := by omega
      have f1p : 0 < f1 := by omega
      subst f20
      have : 0 < f1 * ((r2 : Int) - 0) := Int.mul_pos f1p (by omega)
      omega
  · subst z1; subst z2
    simp only [Int.natCast_zero] at b1 b2
    omega

end Mx.Pair
