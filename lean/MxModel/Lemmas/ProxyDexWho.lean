/-
  Lemmas for Core/ProxyDexWho.lean (callers and original callers of the proxy).
-/
import MxModel.Lemmas.ProxyDexLpOps
import MxModel.Core.ProxyDexWho

namespace Mx.ProxyDex

/-- `get_orig_caller_from_opt` as a relation -/
theorem origOf?_eq_some {a : StA} {c : Call} {u : Nat} :
    origOf? a c = some u ↔
      (c.opt = none ∧ u = c.caller) ∨
      (c.opt = some u ∧ hasOrigArg c.op = true ∧ a.wlist c.caller = true) := by
  unfold origOf?
  cases hc : c.opt with
  | none =>
      constructor
      · intro h
        exact Or.inl ⟨rfl, (Option.some.inj h).symm⟩
      · rintro (⟨_, rfl⟩ | ⟨h, _⟩)
        · rfl
        · cases h
  | some v =>
      show (if (hasOrigArg c.op && a.wlist c.caller) = true then some v else none) = some u ↔ _
      by_cases hw : (hasOrigArg c.op && a.wlist c.caller) = true
      · rw [if_pos hw]
        simp only [Bool.and_eq_true] at hw
        constructor
        · intro h
          cases Option.some.inj h
          exact Or.inr ⟨rfl, hw.1, hw.2⟩
        · rintro (⟨h, _⟩ | ⟨h, _, _⟩)
          · cases h
          · exact h
      · rw [if_neg hw]
        constructor
        · intro h; cases h
        · rintro (⟨h, _⟩ | ⟨_, h1, h2⟩)
          · cases h
          · exact absurd (by simp [h1, h2]) hw

/-- `stepA` = whitelist gate, then the bookkeeping step, then the booking of the energy deduction
    on the energy account -/
theorem stepA_eq_some {a a' : StA} {c : Call} {o : OutA} :
    stepA a c = some (a', o) ↔
      ∃ u s' o', origOf? a c = some u ∧ step a.s c.op = some (s', o') ∧
        a' = { a with s := s', eBy := fun i => if i = u then a.eBy i + o'.eDed else a.eBy i } ∧
        o = ⟨o', c.caller, u⟩ := by
  simp only [stepA, Option.bind_eq_bind, Option.bind_eq_some_iff, Option.pure_def,
    Option.some.injEq, Prod.mk.injEq]
  constructor
  · rintro ⟨u, hu, ⟨s', o'⟩, hs, rfl, rfl⟩
    exact ⟨u, s', o', hu, hs, rfl, rfl⟩
  · rintro ⟨u, s', o', hu, hs, rfl, rfl⟩
    exact ⟨u, hu, (s', o'), hs, rfl, rfl⟩

theorem stepA_eq_none_of_orig {a : StA} {c : Call} (h : origOf? a c = none) : stepA a c = none := by
  simp [stepA, h]


/-! ### the cumulative `eDed` of the plain model moves by exactly the `Out.eDed` of each operation -/

theorem takeW_eDed {s s' : St} {w x p : Nat} {r : WLp} {o : Bool}
    (h : takeW s w x o = some (s', r, p)) : s'.eDed = s.eDed := by
  obtain ⟨_, _, _, _, _, _, rfl⟩ := takeW_spec h; rfl

theorem takeWs_eDed {s s' : St} {l : List (Nat × Nat)} {sx : Nat}
    (h : takeWs s l = some (s', sx)) : s'.eDed = s.eDed := by
  induction l generalizing s sx with
  | nil =>
    simp only [takeWs, Option.some.injEq, Prod.mk.injEq] at h
    obtain ⟨rfl, _⟩ := h; rfl
  | cons a l ih =>
    obtain ⟨w, x⟩ := a
    simp only [takeWs, Option.bind_eq_bind, Option.bind_eq_some_iff, Option.pure_def,
      Option.some.injEq, Prod.mk.injEq] at h
    obtain ⟨⟨s1, r, p⟩, h1, ⟨s2, t2⟩, h2, rfl, _⟩ := h
    rw [ih h2, takeW_eDed h1]

theorem settle_eDed {s s' : St} {r : WFarm} {p k q : Nat} {mode : Mode}
    (h : settle s r p mode = some (s', k, q)) : s'.eDed = s.eDed := by
  cases mode with
  | keep => obtain ⟨rfl, _, _⟩ := settle_keep h; rfl
  | out =>
    cases hk : r.kind with
    | locked => obtain ⟨_, _, _, rfl⟩ := settle_locked (by simp) hk h; rfl
    | wlp => obtain ⟨rw, _, _, _, _, rfl⟩ := settle_wlp_out hk h; rfl
  | dissolve o =>
    cases hk : r.kind with
    | locked => obtain ⟨_, _, _, rfl⟩ := settle_locked (by simp) hk h; rfl
    | wlp => obtain ⟨rw, _, _, _, _, _, _, rfl⟩ := settle_wlp_dissolve hk h; rfl

theorem takeF_eDed {s s' : St} {f x : Nat} {mode : Mode} {t : Taken}
    (h : takeF s f x mode = some (s', t)) : s'.eDed = s.eDed := by
  simp only [takeF, Option.bind_eq_bind, Option.bind_eq_some_iff, Option.pure_def,
    Option.some.injEq, Prod.mk.injEq] at h
  obtain ⟨⟨s1, r, p⟩, h0, ⟨s2, k, q⟩, hs, rfl, _⟩ := h
  obtain ⟨_, _, _, _, _, _, _, rfl⟩ := takeF0_spec h0
  rw [settle_eDed hs]; rfl

theorem takeFs_eDed {s s' : St} {farm : Nat} {kind : Kind} {l : List (Nat × Nat)} {sp : Nat}
    (h : takeFs s farm kind l = some (s', sp)) : s'.eDed = s.eDed := by
  induction l generalizing s sp with
  | nil =>
    simp only [takeFs, Option.some.injEq, Prod.mk.injEq] at h
    obtain ⟨rfl, _⟩ := h; rfl
  | cons a l ih =>
    obtain ⟨f, x⟩ := a
    simp only [takeFs, Option.bind_eq_bind, Option.bind_eq_some_iff, req_eq_some,
      Option.pure_def, Option.some.injEq, Prod.mk.injEq] at h
    obtain ⟨⟨s1, t⟩, h1, _, _, ⟨s2, tot⟩, h2, rfl, _⟩ := h
    rw [ih h2, takeF_eDed h1]

theorem addStray_eDed (s : St) (l : List LkTok) : (addStray s l).eDed = s.eDed := by
  induction l generalizing s with
  | nil => rfl
  | cons t ts ih => exact ih _

theorem learnOpt_eDed (s : St) (t : Option LkTok) : (learnOpt s t).eDed = s.eDed := by
  cases t <;> rfl

theorem addLiq_eDed {s s' : St} {k la oa lp ul uo : Nat} {merge : List (Nat × Nat)}
    {mk : Option LkTok} {o : Out} (h : addLiq s k la oa merge lp ul uo mk = some (s', o)) :
    s'.eDed = s.eDed + o.eDed := by
  simp only [addLiq, Option.bind_eq_bind, Option.bind_eq_some_iff, req_eq_some, sub?_eq_some,
    Option.pure_def] at h
  obtain ⟨_, _, lb, ⟨_, rfl⟩, ob, ⟨_, rfl⟩, h⟩ := h
  cases merge with
  | nil =>
    simp only [Option.some.injEq, Prod.mk.injEq] at h
    obtain ⟨rfl, rfl⟩ := h
    show s.eDed = s.eDed + 0
    omega
  | cons a l =>
    simp only [Option.bind_eq_bind, Option.bind_eq_some_iff, req_eq_some, Option.pure_def,
      Option.some.injEq, Prod.mk.injEq] at h
    obtain ⟨t, rfl, _, _, ⟨s1, sx⟩, h1, rfl, rfl⟩ := h
    have e := takeWs_eDed h1
    show s1.eDed = s.eDed + 0
    rw [e]; show s.eDed = s.eDed + 0; omega

theorem enterL_eDed {s s' : St} {farm k a : Nat} {merge : List (Nat × Nat)} {ft : Nat × Nat}
    {rew : Option LkTok} {m : Option ((Nat × Nat) × LkTok)} {stray : List LkTok} {o : Out}
    (h : enterL s farm k a merge ft rew m stray = some (s', o)) : s'.eDed = s.eDed + o.eDed := by
  simp only [enterL, Option.bind_eq_bind, Option.bind_eq_some_iff, req_eq_some,
    Option.pure_def] at h
  obtain ⟨_, _, h⟩ := h
  have l0 : (learnOpt { s with minted := s.minted + a } rew).eDed = s.eDed := learnOpt_eDed _ _
  cases merge with
  | nil =>
    simp only [Option.some.injEq, Prod.mk.injEq] at h
    obtain ⟨rfl, rfl⟩ := h
    show (learnOpt { s with minted := s.minted + a } rew).eDed = s.eDed + 0
    rw [l0]; omega
  | cons b l =>
    simp only [Option.bind_eq_bind, Option.bind_eq_some_iff, Option.pure_def,
      Option.some.injEq, Prod.mk.injEq] at h
    obtain ⟨⟨mf, t⟩, rfl, ⟨s1, sp⟩, h1, rfl, rfl⟩ := h
    have e := takeFs_eDed h1
    rw [addStray_eDed]
    show s1.eDed = s.eDed + 0
    rw [e, l0]; omega

theorem enterW_eDed {s s' : St} {farm w a : Nat} {merge : List (Nat × Nat)} {ft : Nat × Nat}
    {rew : Option LkTok} {m : Option ((Nat × Nat) × LkTok)} {stray : List LkTok} {o : Out}
    (h : enterW s farm w a merge ft rew m stray = some (s', o)) : s'.eDed = s.eDed + o.eDed := by
  simp only [enterW, Option.bind_eq_bind, Option.bind_eq_some_iff, req_eq_some, sub?_eq_some,
    Option.pure_def] at h
  obtain ⟨r, hr, _, _, c, ⟨_, rfl⟩, q, _, lp, ⟨_, rfl⟩, h⟩ := h
  cases merge with
  | nil =>
    simp only [Option.some.injEq, Prod.mk.injEq] at h
    obtain ⟨rfl, rfl⟩ := h
    show (learnOpt _ rew).eDed = s.eDed + 0
    rw [learnOpt_eDed]; show s.eDed = s.eDed + 0; omega
  | cons b l =>
    simp only [Option.bind_eq_bind, Option.bind_eq_some_iff, Option.pure_def,
      Option.some.injEq, Prod.mk.injEq] at h
    obtain ⟨⟨mf, t⟩, rfl, ⟨s0, r0, p0⟩, h0, ⟨s1, sp⟩, h1, rfl, rfl⟩ := h
    have e0 := takeW_eDed h0
    have e1 := takeFs_eDed h1
    rw [addStray_eDed]
    show s1.eDed = s.eDed + 0
    rw [e1, learnOpt_eDed]; show s0.eDed = s.eDed + 0; rw [e0]; omega

theorem claim_eDed {s s' : St} {farm f x : Nat} {ft : Nat × Nat} {rew : Option LkTok} {o : Out}
    (h : claim s farm f x ft rew = some (s', o)) : s'.eDed = s.eDed + o.eDed := by
  simp only [claim, Option.bind_eq_bind, Option.bind_eq_some_iff, Option.pure_def,
    Option.some.injEq, Prod.mk.injEq] at h
  obtain ⟨⟨s1, t⟩, h1, rfl, rfl⟩ := h
  have e := takeF_eDed h1
  show (learnOpt s1 rew).eDed = s.eDed + 0
  rw [learnOpt_eDed, e]; omega

theorem mergeLp_eDed {s s' : St} {l : List (Nat × Nat)} {t : LkTok} {o : Out}
    (h : mergeLp s l t = some (s', o)) : s'.eDed = s.eDed + o.eDed := by
  simp only [mergeLp, Option.bind_eq_bind, Option.bind_eq_some_iff, req_eq_some, Option.pure_def,
    Option.some.injEq, Prod.mk.injEq] at h
  obtain ⟨_, _, ⟨s1, sx⟩, h1, rfl, rfl⟩ := h
  have e := takeWs_eDed h1
  show s1.eDed = s.eDed + 0
  rw [e]; omega

theorem incLp_eDed {s s' : St} {w x : Nat} {t : LkTok} {o : Out}
    (h : incLp s w x t = some (s', o)) : s'.eDed = s.eDed + o.eDed := by
  simp only [incLp, Option.bind_eq_bind, Option.bind_eq_some_iff, Option.pure_def,
    Option.some.injEq, Prod.mk.injEq] at h
  obtain ⟨⟨s1, r, p⟩, h1, rfl, rfl⟩ := h
  have e := takeW_eDed h1
  show s1.eDed = s.eDed + 0
  rw [e]; omega

theorem incFarm_eDed {s s' : St} {f x : Nat} {t : LkTok} {o : Out}
    (h : incFarm s f x t = some (s', o)) : s'.eDed = s.eDed + o.eDed := by
  simp only [incFarm, Option.bind_eq_bind, Option.bind_eq_some_iff, Option.pure_def] at h
  obtain ⟨⟨s1, tk⟩, h1, h⟩ := h
  have e := takeF_eDed h1
  dsimp only at h
  cases hk : tk.r.kind with
  | locked =>
    simp only [hk, Option.some.injEq, Prod.mk.injEq] at h
    obtain ⟨rfl, rfl⟩ := h
    show s1.eDed = s.eDed + 0
    rw [e]; omega
  | wlp =>
    simp only [hk, Option.some.injEq, Prod.mk.injEq] at h
    obtain ⟨rfl, rfl⟩ := h
    show s1.eDed = s.eDed + 0
    rw [e]; omega

theorem mergeFarm_eDed {s s' : St} {farm : Nat} {l : List (Nat × Nat)} {mf : Nat × Nat}
    {t : LkTok} {rew : Option LkTok} {stray : List LkTok} {o : Out}
    (h : mergeFarm s farm l mf t rew stray = some (s', o)) : s'.eDed = s.eDed + o.eDed := by
  simp only [mergeFarm, mergeFarmCore, Option.bind_eq_bind, Option.bind_eq_some_iff, req_eq_some,
    Option.pure_def, Option.some.injEq, Prod.mk.injEq] at h
  obtain ⟨⟨s2, o2⟩, ⟨_, _, ⟨f0, x0⟩, _, r0, _, ⟨s1, sp⟩, h1, h⟩, rfl, rfl⟩ := h
  have e := takeFs_eDed h1
  have e' : s1.eDed = s.eDed := by rw [e, learnOpt_eDed]
  dsimp only at h
  cases hk : r0.kind with
  | locked =>
    simp only [hk, Option.some.injEq, Prod.mk.injEq] at h
    obtain ⟨rfl, rfl⟩ := h
    rw [addStray_eDed]
    show s1.eDed = s.eDed + 0
    rw [e']; omega
  | wlp =>
    simp only [hk, Option.some.injEq, Prod.mk.injEq] at h
    obtain ⟨rfl, rfl⟩ := h
    rw [addStray_eDed]
    show s1.eDed = s.eDed + 0
    rw [e']; omega

theorem exitFarm_eDed {s s' : St} {farm f x farming : Nat} {rew : Option LkTok} {o : Out}
    (h : exitFarm s farm f x farming rew = some (s', o)) : s'.eDed = s.eDed + o.eDed := by
  simp only [exitFarm, Option.bind_eq_bind, Option.bind_eq_some_iff, req_eq_some,
    Option.pure_def] at h
  obtain ⟨_, _, ⟨s1, t⟩, h1, h⟩ := h
  have e := takeF_eDed h1
  dsimp only at h
  have e2 : (if farmIsBase t.r.farm = true then { s1 with burnB := s1.burnB + farming }
      else { s1 with lp := s1.lp + farming }).eDed = s.eDed := by
    split <;> exact e
  generalize (if farmIsBase t.r.farm = true then { s1 with burnB := s1.burnB + farming }
      else { s1 with lp := s1.lp + farming }) = s2 at h e2
  split at h
  · cases hk : t.r.kind with
    | locked =>
      simp only [hk, Option.some.injEq, Prod.mk.injEq] at h
      obtain ⟨rfl, rfl⟩ := h
      rw [learnOpt_eDed, e2]; show s.eDed = s.eDed + 0; omega
    | wlp =>
      simp only [hk, Option.some.injEq, Prod.mk.injEq] at h
      obtain ⟨rfl, rfl⟩ := h
      rw [learnOpt_eDed, e2]; show s.eDed = s.eDed + 0; omega
  · simp only [Option.bind_eq_bind, Option.bind_eq_some_iff, sub?_eq_some] at h
    obtain ⟨remaining, _, h⟩ := h
    cases hk : t.r.kind with
    | locked =>
      simp only [hk, Option.some.injEq, Prod.mk.injEq] at h
      obtain ⟨rfl, rfl⟩ := h
      rw [learnOpt_eDed]
      show s2.eDed + energyOf s2 t.r.pn (x - farming) = s.eDed + energyOf s2 t.r.pn (x - farming)
      rw [e2]
    | wlp =>
      simp only [hk, Option.bind_eq_bind, Option.bind_eq_some_iff, sub?_eq_some, Option.pure_def,
        Option.some.injEq, Prod.mk.injEq] at h
      obtain ⟨rw', _, qN, _, extra, _, rfl, rfl⟩ := h
      rw [learnOpt_eDed]
      by_cases hx : extra = 0
      · simp only [hx, if_true]
        show s2.eDed = s.eDed + 0
        rw [e2]; omega
      · simp only [hx, if_false]
        show s2.eDed + energyOf s2 rw'.k extra = s.eDed + energyOf s2 rw'.k extra
        rw [e2]

/-- every operation: the cumulative deduction moves by exactly the deduction it reports -/
theorem step_eDed {s s' : St} {op : Op} {o : Out} (h : step s op = some (s', o)) :
    s'.eDed = s.eDed + o.eDed := by
  cases op with
  | lock t =>
    simp only [step, Option.some.injEq, Prod.mk.injEq] at h
    obtain ⟨rfl, rfl⟩ := h; show s.eDed = s.eDed + 0; omega
  | advance e =>
    simp only [step, Option.some.injEq, Prod.mk.injEq] at h
    obtain ⟨rfl, rfl⟩ := h; show s.eDed = s.eDed + 0; omega
  | noop =>
    simp only [step, Option.some.injEq, Prod.mk.injEq] at h
    obtain ⟨rfl, rfl⟩ := h; show s.eDed = s.eDed + 0; omega
  | addLiq k la oa merge lp ul uo mk => exact addLiq_eDed h
  | removeLiq w x rb ro =>
    obtain ⟨_, _, _, _, _, _, _, _, _, _, _, _, _, _, _, _, _, _, _, hed, _⟩ :=
      removeLiq_spec (show removeLiq s w x rb ro = _ from h)
    exact hed
  | enterL farm k a merge ft rew m stray => exact enterL_eDed h
  | enterW farm w a merge ft rew m stray => exact enterW_eDed h
  | exitFarm farm f x farming rew => exact exitFarm_eDed (farm := farm) h
  | claim farm f x ft rew => exact claim_eDed (farm := farm) h
  | mergeLp l t => exact mergeLp_eDed h
  | mergeFarm farm l mf t rew stray => exact mergeFarm_eDed (farm := farm) h
  | incLp w x t => exact incLp_eDed h
  | incFarm f x t => exact incFarm_eDed h

/-- sum of a ledger over the accounts `0 … n-1` -/
def sumTo (f : Nat → Int) : Nat → Int
  | 0 => 0
  | n + 1 => sumTo f n + f n

theorem sumTo_congr {f g : Nat → Int} {n : Nat} (h : ∀ i, i < n → g i = f i) :
    sumTo g n = sumTo f n := by
  induction n with
  | zero => rfl
  | succ n ih =>
      simp only [sumTo]
      rw [ih (fun i hi => h i (Nat.lt_succ_of_lt hi)), h n (Nat.lt_succ_self n)]

/-- booking `d` on account `u < n` moves the total by `d` -/
theorem sumTo_update (f : Nat → Int) (u : Nat) (d : Int) {n : Nat} (h : u < n) :
    sumTo (fun i => if i = u then f i + d else f i) n = sumTo f n + d := by
  induction n with
  | zero => exact absurd h (Nat.not_lt_zero _)
  | succ n ih =>
      simp only [sumTo]
      by_cases hu : u = n
      · subst hu
        rw [sumTo_congr (f := f) (fun i hi => by simp [Nat.ne_of_lt hi])]
        simp only [if_true]
        omega
      · have hlt : u < n := by omega
        rw [ih hlt, if_neg (fun e => hu e.symm)]
        omega

end Mx.ProxyDex
