/-
  Characterisation ("spec") lemmas of the pair endpoints: what a successful call implies.
  Property theorems (Props/C01..C04, C20) are proved from these, never by unfolding `step`.
-/
import MxModel.Lemmas.PairFee

namespace Mx.Pair

theorem collectorCut_spec {s s' : St} {d : Dir} {fee rem : Nat}
    (h : s.collectorCut d fee = some (s', rem)) :
    rem ≤ fee ∧ FeeRel d s s' (fee - rem) := by
  unfold St.collectorCut at h
  split at h
  · rename_i pct hc
    generalize fee * pct / M = cutAmt at h
    simp only [Option.bind_eq_bind, Option.bind_eq_some_iff, sub?_eq_some] at h
    obtain ⟨r, ⟨hle, rfl⟩, h⟩ := h
    split at h
    · simp only [St.debitIn, Option.bind_eq_bind, Option.bind_eq_some_iff, sub?_eq_some,
        Option.pure_def, Option.some.injEq, Prod.mk.injEq] at h
      obtain ⟨s1, ⟨b, ⟨hb, rfl⟩, rfl⟩, rfl, rfl⟩ := h
      refine ⟨by omega, ?_⟩
      cases d <;>
        refine ⟨?_, ?_, ?_, ?_, ?_, ?_, ?_, ?_, ?_⟩ <;>
        simp [St.balIn, St.balOut, St.rin, St.rout, St.setBal, St.addCollIn, SameCfg] at * <;>
        omega
    · simp only [Option.pure_def, Option.some.injEq, Prod.mk.injEq] at h
      obtain ⟨rfl, rfl⟩ := h
      have : cutAmt = 0 := by omega
      subst this
      refine ⟨by omega, ?_⟩
      simpa using FeeRel.refl d s
  · simp only [Option.pure_def, Option.some.injEq, Prod.mk.injEq] at h
    obtain ⟨rfl, rfl⟩ := h
    exact ⟨Nat.le_refl _, by simpa using FeeRel.refl d s⟩

/-- `send_fee` routes at most `fee` away and otherwise only moves value into the reserves. -/
theorem sendFee_spec {s s' : St} {d : Dir} {fee : Nat} (h : s.sendFee d fee = some s') :
    ∃ spent, spent ≤ fee ∧ FeeRel d s s' spent := by
  unfold St.sendFee at h
  split at h
  · simp only [Option.some.injEq] at h
    subst h
    exact ⟨0, Nat.zero_le _, FeeRel.refl d s⟩
  · simp only [Option.bind_eq_bind, Option.bind_eq_some_iff] at h
    obtain ⟨⟨s1, rem⟩, hc, h⟩ := h
    obtain ⟨hrem, hrel⟩ := collectorCut_spec hc
    simp only at h
    split at h
    · simp only [Option.pure_def, Option.some.injEq] at h
      subst h
      exact ⟨fee - rem, by omega, hrel⟩
    · split at h
      · simp only [Option.pure_def, Option.some.injEq] at h
        subst h
        exact ⟨fee - rem, by omega, hrel⟩
      · have h2 := feeSlices_spec _ h
        refine ⟨(fee - rem) + rem / s1.dests.length * s1.dests.length, ?_, hrel.trans h2⟩
        have := Nat.div_mul_le_self rem s1.dests.length
        omega

/-- with the fee switch off nothing is routed at all -/
theorem sendFee_zero (s : St) (d : Dir) : s.sendFee d 0 = some s := by
  simp [St.sendFee]

theorem collectorCut_slk {s s' : St} {d : Dir} {fee rem : Nat}
    (h : s.collectorCut d fee = some (s', rem)) : SameSlk s s' := by
  unfold St.collectorCut at h
  split at h
  · generalize fee * _ / M = cutAmt at h
    simp only [Option.bind_eq_bind, Option.bind_eq_some_iff, sub?_eq_some] at h
    obtain ⟨r, ⟨hle, rfl⟩, h⟩ := h
    split at h
    · simp only [St.debitIn, Option.bind_eq_bind, Option.bind_eq_some_iff, sub?_eq_some,
        Option.pure_def, Option.some.injEq, Prod.mk.injEq] at h
      obtain ⟨s1, ⟨b, ⟨hb, rfl⟩, rfl⟩, rfl, rfl⟩ := h
      cases d <;> exact ⟨rfl, rfl⟩
    · simp only [Option.pure_def, Option.some.injEq, Prod.mk.injEq] at h
      obtain ⟨rfl, rfl⟩ := h
      exact SameSlk.refl s
  · simp only [Option.pure_def, Option.some.injEq, Prod.mk.injEq] at h
    obtain ⟨rfl, rfl⟩ := h
    exact SameSlk.refl s

/-- `send_fee` never touches simple-lock's holdings -/
theorem sendFee_slk {s s' : St} {d : Dir} {fee : Nat} (h : s.sendFee d fee = some s') :
    SameSlk s s' := by
  unfold St.sendFee at h
  split at h
  · simp only [Option.some.injEq] at h
    subst h
    exact SameSlk.refl s
  · simp only [Option.bind_eq_bind, Option.bind_eq_some_iff] at h
    obtain ⟨⟨s1, rem⟩, hc, h⟩ := h
    have h1 := collectorCut_slk hc
    simp only at h
    split at h
    · simp only [Option.pure_def, Option.some.injEq] at h
      subst h
      exact h1
    · split at h
      · simp only [Option.pure_def, Option.some.injEq] at h
        subst h
        exact h1
      · exact h1.trans (feeSlices_slk _ h)

/-! ### output locking (`build_swap_output_payments` through simple-lock) -/

theorem addSlkOut_rin (s : St) (d : Dir) (n : Nat) : (s.addSlkOut d n).rin d = s.rin d := by
  cases d <;> rfl
theorem addSlkOut_rout (s : St) (d : Dir) (n : Nat) : (s.addSlkOut d n).rout d = s.rout d := by
  cases d <;> rfl
theorem addSlkOut_balIn (s : St) (d : Dir) (n : Nat) : (s.addSlkOut d n).balIn d = s.balIn d := by
  cases d <;> rfl
theorem addSlkOut_balOut (s : St) (d : Dir) (n : Nat) : (s.addSlkOut d n).balOut d = s.balOut d := by
  cases d <;> rfl
theorem addSlkOut_slkOut (s : St) (d : Dir) (n : Nat) :
    (s.addSlkOut d n).slkOut d = s.slkOut d + n := by
  cases d <;> rfl
theorem addSlkOut_slkIn (s : St) (d : Dir) (n : Nat) : (s.addSlkOut d n).slkIn d = s.slkIn d := by
  cases d <;> rfl
theorem addSlkOut_zero (s : St) (d : Dir) : s.addSlkOut d 0 = s := by
  cases d <;> rfl

/-- crediting simple-lock's holdings is invisible to `FeeRel` -/
theorem FeeRel.addSlkOut {d : Dir} {a b : St} {x : Nat} (h : FeeRel d a b x) (n : Nat) :
    FeeRel d a (b.addSlkOut d n) x := by
  obtain ⟨h1, h2, h3, h4, h5, h6, h7, h8, h9⟩ := h
  refine ⟨?_, ?_, ?_, ?_, ?_, ?_, ?_, ?_, ?_⟩
  · rw [addSlkOut_rin, addSlkOut_balIn]; exact h1
  · rw [addSlkOut_rout, addSlkOut_balOut]; exact h2
  · rw [addSlkOut_rin]; exact h3
  · rw [addSlkOut_rout]; exact h4
  · rw [addSlkOut_rout]; exact h5
  · rw [addSlkOut_balIn]; exact h6
  · rw [addSlkOut_balOut]; exact h7
  · rw [addSlkOut_rin, addSlkOut_rout]; exact h8
  · cases d <;> exact h9

/-- states with the same epoch and locking configuration lock alike -/
theorem SameCfg.lockOn {s s' : St} (h : SameCfg s s') : s'.lockOn = s.lockOn := by
  obtain ⟨_, _, _, _, _, _, _, _, _, _, _, _, h13, _, _, h16⟩ := h
  simp only [St.lockOn, h13, h16]
theorem SameCfg.locksOut {s s' : St} (h : SameCfg s s') : s'.locksOut = s.locksOut := by
  have h0 := h.lockOn
  obtain ⟨_, _, _, _, _, _, _, _, _, _, _, _, _, h14, _, h16⟩ := h
  simp only [St.locksOut, h0, h14, h16]
theorem SameCfg.lockSc {s s' : St} (h : SameCfg s s') : s'.lockSc = s.lockSc := h.2.2.2.2.2.2.2.2.2.2.2.2.2.2.1

/-- the first output payment of a swap: whether it is delivered as LOCKED tokens, the guard on
    the locking address, and the credit of simple-lock's holdings -/
theorem lockOut_spec {s s' : St} {d : Dir} {out : Nat} {lk : Bool}
    (h : s.lockOut d out = some (s', lk)) :
    lk = s.locksOut ∧ (s.lockOn = true → s.lockSc = .simpleLock) ∧
    s' = s.addSlkOut d (if lk then out else 0) := by
  unfold St.lockOut at h
  split at h
  · rename_i hon
    simp only [Option.bind_eq_bind, Option.bind_eq_some_iff, req_eq_some] at h
    obtain ⟨_, hsc, h⟩ := h
    split at h
    · rename_i hu
      simp only [Option.pure_def, Option.some.injEq, Prod.mk.injEq] at h
      obtain ⟨rfl, rfl⟩ := h
      refine ⟨?_, fun _ => hsc, by simp⟩
      simp [St.locksOut, hon, hu]
    · rename_i hu
      simp only [Option.pure_def, Option.some.injEq, Prod.mk.injEq] at h
      obtain ⟨rfl, rfl⟩ := h
      refine ⟨?_, fun _ => hsc, by simp [addSlkOut_zero]⟩
      simp [St.locksOut, hu]
  · rename_i hoff
    simp only [Option.pure_def, Option.some.injEq, Prod.mk.injEq] at h
    obtain ⟨rfl, rfl⟩ := h
    refine ⟨?_, fun hon => absurd hon hoff, by simp [addSlkOut_zero]⟩
    simp [St.locksOut, hoff]

/-- the only guard of the locking step: while locking is on, the locking address is simple-lock -/
theorem lockOut_ok (s : St) (d : Dir) (out : Nat)
    (h : s.lockOn = true → s.lockSc = .simpleLock) :
    s.lockOut d out = some (s.addSlkOut d (if s.locksOut then out else 0), s.locksOut) := by
  unfold St.lockOut St.locksOut
  by_cases hon : s.lockOn = true
  · by_cases hu : s.epoch < s.lockUnlockEpoch <;> simp [hon, h hon, req, hu, addSlkOut_zero]
  · simp [hon, addSlkOut_zero]

/-! ### the state between "reserves updated" and "fee routed" in a swap -/

/-- reserves updated with the net input, payment received on the balance -/
def swapMid (s : St) (d : Dir) (charged fee out : Nat) : St :=
  let s1 := s.touch.setR d (s.rin d + (charged - fee)) (s.rout d - out)
  s1.setBal d (s1.balIn d + charged) (s1.balOut d)

/-- the fee a swap of `charged` takes out of the input before it enters the reserve -/
def swapFee (s : St) (charged : Nat) : Nat := if s.feeOn then specialFee s.special charged else 0

/-- the intermediate swap state has the epoch, the locking configuration and simple-lock's
    holdings of `s` -/
theorem swapMid_locksOut (s : St) (d : Dir) (c f o : Nat) :
    (swapMid s d c f o).locksOut = s.locksOut := by
  cases d <;> rfl
theorem swapMid_lockOn (s : St) (d : Dir) (c f o : Nat) :
    (swapMid s d c f o).lockOn = s.lockOn := by
  cases d <;> rfl
theorem swapMid_lockSc (s : St) (d : Dir) (c f o : Nat) :
    (swapMid s d c f o).lockSc = s.lockSc := by
  cases d <;> rfl
theorem swapMid_slk (s : St) (d : Dir) (c f o : Nat) : SameSlk s (swapMid s d c f o) := by
  cases d <;> exact ⟨rfl, rfl⟩

theorem swapIn_spec {s s' : St} {d : Dir} {a minOut : Nat} {o : Out}
    (h : swapIn s d a minOut = some (s', o)) :
    ∃ s3 spent,
      0 < minOut ∧ 0 < a ∧ s.status = .active ∧ minOut < s.rout d ∧
      o = ⟨amountOut s.total a (s.rin d) (s.rout d), 0, 0, s.locksOut⟩ ∧
      minOut ≤ o.v1 ∧ o.v1 < s.rout d ∧ o.v1 ≠ 0 ∧
      swapFee s a ≤ a ∧
      s.r1 * s.r2 ≤ (swapMid s d a (swapFee s a) o.v1).r1 * (swapMid s d a (swapFee s a) o.v1).r2 ∧
      spent ≤ swapFee s a ∧
      FeeRel d (swapMid s d a (swapFee s a) o.v1) s3 spent ∧
      o.v1 ≤ s3.balOut d ∧
      s' = s3.setBal d (s3.balIn d) (s3.balOut d - o.v1) := by
  simp only [swapIn, Option.bind_eq_bind, Option.bind_eq_some_iff, req_eq_some, sub?_eq_some,
    St.debitOut, Option.pure_def, Option.some.injEq, Prod.mk.injEq] at h
  obtain ⟨_, h1, _, h2, _, h3, _, h4, _, h5, _, h6, _, h7, aAfter, ⟨h8, rfl⟩, _, h9, s3, h10,
    ⟨s4, lk⟩, hlk, s5, ⟨b, ⟨h11, rfl⟩, rfl⟩, rfl, rfl⟩ := h
  obtain ⟨spent, hs, hrel⟩ := sendFee_spec h10
  obtain ⟨rfl, _, rfl⟩ := lockOut_spec hlk
  have hlo : s3.locksOut = s.locksOut :=
    hrel.same.locksOut.trans (swapMid_locksOut s d a (swapFee s a) _)
  refine ⟨_, spent, h1, h2, h3, h4, by rw [hlo], h5, h6, h7, h8, ?_, hs, hrel.addSlkOut _, h11, rfl⟩
  cases d <;> simpa [swapMid, swapFee, St.setR, St.setBal, St.touch] using h9

theorem swapOut_spec {s s' : St} {d : Dir} {maxIn out : Nat} {o : Out}
    (h : swapOut s d maxIn out = some (s', o)) :
    ∃ s3 spent,
      0 < out ∧ 0 < maxIn ∧ s.status = .active ∧ out < s.rout d ∧
      (s.rout d - out) * (M - s.total) ≠ 0 ∧
      o = ⟨out, amountIn s.total out (s.rin d) (s.rout d),
            maxIn - amountIn s.total out (s.rin d) (s.rout d), s.locksOut⟩ ∧
      o.v2 ≤ maxIn ∧ o.v2 ≠ 0 ∧
      swapFee s o.v2 ≤ o.v2 ∧
      s.r1 * s.r2 ≤ (swapMid s d o.v2 (swapFee s o.v2) out).r1 * (swapMid s d o.v2 (swapFee s o.v2) out).r2 ∧
      spent ≤ swapFee s o.v2 ∧
      FeeRel d (swapMid s d o.v2 (swapFee s o.v2) out) s3 spent ∧
      out ≤ s3.balOut d ∧
      s' = s3.setBal d (s3.balIn d) (s3.balOut d - out) := by
  simp only [swapOut, Option.bind_eq_bind, Option.bind_eq_some_iff, req_eq_some, sub?_eq_some,
    St.debitOut, Option.pure_def, Option.some.injEq, Prod.mk.injEq] at h
  obtain ⟨_, h1, _, h2, _, h3, _, h4, _, h5, _, h6, _, h7, aAfter, ⟨h8, rfl⟩, _, h9, s3, h10,
    ⟨s4, lk⟩, hlk, s5, ⟨b, ⟨h11, rfl⟩, rfl⟩, rfl, rfl⟩ := h
  obtain ⟨spent, hs, hrel⟩ := sendFee_spec h10
  obtain ⟨rfl, _, rfl⟩ := lockOut_spec hlk
  have hlo : s3.locksOut = s.locksOut :=
    hrel.same.locksOut.trans (swapMid_locksOut s d (amountIn s.total out (s.rin d) (s.rout d))
      (swapFee s (amountIn s.total out (s.rin d) (s.rout d))) out)
  refine ⟨_, spent, h1, h2, h3, h4, h5, by rw [hlo], h6, h7, h8, ?_, hs, hrel.addSlkOut _, h11, rfl⟩
  cases d <;> simpa [swapMid, swapFee, St.setR, St.setBal, St.touch] using h9

end Mx.Pair

namespace Mx.Pair

theorem firstMint_spec {s s' : St} {a1 a2 lp : Nat} (h : s.firstMint a1 a2 = some (s', lp)) :
    MINLIQ < min a1 a2 ∧ lp = min a1 a2 - MINLIQ ∧
    s' = { s with S := min a1 a2, r1 := s.r1 + a1, r2 := s.r2 + a2,
                  lpCirc := s.lpCirc + min a1 a2, lpOwn := s.lpOwn + MINLIQ,
                  bal1 := s.bal1 + a1, bal2 := s.bal2 + a2 } := by
  simp only [St.firstMint, Option.bind_eq_bind, Option.bind_eq_some_iff, req_eq_some,
    Option.pure_def, Option.some.injEq, Prod.mk.injEq] at h
  obtain ⟨_, h1, rfl, rfl⟩ := h
  exact ⟨h1, rfl, rfl⟩

set_option maxRecDepth 8000 in
theorem addInitial_spec {s s' : St} {c a1 a2 : Nat} {o : Out}
    (h : addInitial s c a1 a2 = some (s', o)) :
    (s.adder = none ∨ s.adder = some c) ∧ 0 < a1 ∧ 0 < a2 ∧ s.status = .inactive ∧ s.S = 0 ∧
    MINLIQ < min a1 a2 ∧ o = ⟨min a1 a2 - MINLIQ, a1, a2, false⟩ ∧
    s' = { ({ s with S := min a1 a2, r1 := s.r1 + a1, r2 := s.r2 + a2,
                     lpCirc := s.lpCirc + min a1 a2, lpOwn := s.lpOwn + MINLIQ,
                     bal1 := s.bal1 + a1, bal2 := s.bal2 + a2 } : St) with
            status := .partialActive } := by
  simp only [addInitial, Option.bind_eq_bind, Option.bind_eq_some_iff, req_eq_some,
    Option.pure_def, Option.some.injEq, Prod.mk.injEq] at h
  obtain ⟨_, h1, _, ⟨h2, h3⟩, _, h4, _, h5, ⟨s1, lp⟩, hm, rfl, rfl⟩ := h
  obtain ⟨h6, rfl, rfl⟩ := firstMint_spec hm
  exact ⟨h1, h2, h3, h4, h5, h6, rfl, rfl⟩

theorem optimal_spec {s : St} {a1 a2 m1 m2 o1 o2 : Nat}
    (h : optimal s a1 a2 m1 m2 = some (o1, o2)) :
    ((quote a1 s.r1 s.r2 ≤ a2 ∧ o1 = a1 ∧ o2 = quote a1 s.r1 s.r2) ∨
     (a2 < quote a1 s.r1 s.r2 ∧ quote a2 s.r2 s.r1 ≤ a1 ∧ o1 = quote a2 s.r2 s.r1 ∧ o2 = a2)) ∧
    m1 ≤ o1 ∧ m2 ≤ o2 := by
  simp only [optimal, Option.bind_eq_bind, Option.bind_eq_some_iff, req_eq_some,
    Option.pure_def, Option.some.injEq, Prod.mk.injEq] at h
  obtain ⟨⟨p1, p2⟩, hp, _, h1, _, h2, rfl, rfl⟩ := h
  refine ⟨?_, h1, h2⟩
  split at hp
  · simp only [Option.some.injEq, Prod.mk.injEq] at hp
    obtain ⟨rfl, rfl⟩ := hp
    exact Or.inl ⟨by assumption, rfl, rfl⟩
  · simp only [Option.bind_eq_bind, Option.bind_eq_some_iff, req_eq_some, Option.pure_def,
      Option.some.injEq, Prod.mk.injEq] at hp
    obtain ⟨_, hq, rfl, rfl⟩ := hp
    exact Or.inr ⟨by omega, hq, rfl, rfl⟩

/-- `addLiquidity` on an existing pool -/
theorem addLiq_spec {s s' : St} {a1 a2 m1 m2 : Nat} {o : Out} (hS : s.S ≠ 0)
    (h : addLiq s a1 a2 m1 m2 = some (s', o)) :
    ∃ o1 o2,
      0 < m1 ∧ 0 < m2 ∧ 0 < a1 ∧ 0 < a2 ∧ (s.status = .active ∨ s.status = .partialActive) ∧
      s.r1 ≠ 0 ∧ s.r2 ≠ 0 ∧ optimal s a1 a2 m1 m2 = some (o1, o2) ∧
      o = ⟨min (o1 * s.S / s.r1) (o2 * s.S / s.r2), o1, o2, false⟩ ∧ 0 < o.v1 ∧
      s.r1 * s.r2 ≤ (s.r1 + o1) * (s.r2 + o2) ∧
      s' = { s.touch with S := s.S + o.v1, r1 := s.r1 + o1, r2 := s.r2 + o2,
                          lpCirc := s.lpCirc + o.v1, bal1 := s.bal1 + o1, bal2 := s.bal2 + o2 } := by
  simp only [addLiq, Option.bind_eq_bind, Option.bind_eq_some_iff, req_eq_some] at h
  obtain ⟨_, ⟨h1, h2⟩, _, ⟨h3, h4⟩, _, h5, _, h6, h⟩ := h
  rw [if_neg hS] at h
  simp only [Option.bind_eq_bind, Option.bind_eq_some_iff, req_eq_some, Option.pure_def,
    Option.some.injEq, Prod.mk.injEq] at h
  obtain ⟨_, ⟨h7, h8⟩, ⟨o1, o2⟩, hopt, _, h9, _, h10, rfl, rfl⟩ := h
  exact ⟨o1, o2, h1, h2, h3, h4, h5, h7, h8, hopt, rfl, h9, h10, rfl⟩

set_option maxRecDepth 8000 in
/-- `addLiquidity` as the first deposit (no initial-liquidity adder configured) -/
theorem addLiq_first_spec {s s' : St} {a1 a2 m1 m2 : Nat} {o : Out} (hS : s.S = 0)
    (h : addLiq s a1 a2 m1 m2 = some (s', o)) :
    0 < a1 ∧ 0 < a2 ∧ (s.status = .active ∨ s.status = .partialActive) ∧ s.adder = none ∧
    MINLIQ < min a1 a2 ∧ o = ⟨min a1 a2 - MINLIQ, a1, a2, false⟩ ∧
    s' = { s.touch with
            S := min a1 a2, r1 := s.r1 + a1, r2 := s.r2 + a2,
            lpCirc := s.lpCirc + min a1 a2, lpOwn := s.lpOwn + MINLIQ,
            bal1 := s.bal1 + a1, bal2 := s.bal2 + a2 } := by
  simp only [addLiq, Option.bind_eq_bind, Option.bind_eq_some_iff, req_eq_some] at h
  obtain ⟨_, ⟨h1, h2⟩, _, ⟨h3, h4⟩, _, h5, _, h6, h⟩ := h
  rw [if_pos hS] at h
  simp only [Option.bind_eq_bind, Option.bind_eq_some_iff, req_eq_some, Option.pure_def,
    Option.some.injEq, Prod.mk.injEq] at h
  obtain ⟨⟨s1, lp⟩, hm, _, _, rfl, rfl⟩ := h
  obtain ⟨h7, rfl, rfl⟩ := firstMint_spec hm
  refine ⟨h3, h4, h5, ?_, h7, rfl, rfl⟩
  cases h6 with
  | inl h => exact h
  | inr h => exact absurd hS h

theorem amountsRemoved_spec {s : St} {lp m1 m2 x1 x2 : Nat}
    (h : amountsRemoved s lp m1 m2 = some (x1, x2)) :
    lp + MINLIQ ≤ s.S ∧ x1 = lp * s.r1 / s.S ∧ x2 = lp * s.r2 / s.S ∧
    0 < x1 ∧ m1 ≤ x1 ∧ x1 < s.r1 ∧ 0 < x2 ∧ m2 ≤ x2 ∧ x2 < s.r2 := by
  simp only [amountsRemoved, Option.bind_eq_bind, Option.bind_eq_some_iff, req_eq_some,
    Option.pure_def, Option.some.injEq, Prod.mk.injEq] at h
  obtain ⟨_, h1, _, h2, _, h3, _, h4, _, h5, _, h6, _, h7, rfl, rfl⟩ := h
  exact ⟨h1, rfl, rfl, h2, h3, h4, h5, h6, h7⟩

theorem removeLiq_spec {s s' : St} {lp m1 m2 : Nat} {o : Out}
    (h : removeLiq s lp m1 m2 = some (s', o)) :
    0 < m1 ∧ 0 < m2 ∧ (s.status = .active ∨ s.status = .partialActive) ∧ 0 < lp ∧
    lp + MINLIQ ≤ s.S ∧ o = ⟨lp * s.r1 / s.S, lp * s.r2 / s.S, 0, false⟩ ∧
    0 < o.v1 ∧ m1 ≤ o.v1 ∧ o.v1 < s.r1 ∧ 0 < o.v2 ∧ m2 ≤ o.v2 ∧ o.v2 < s.r2 ∧
    lp ≤ s.lpCirc ∧ o.v1 ≤ s.bal1 ∧ o.v2 ≤ s.bal2 ∧
    s' = { s.touch with S := s.S - lp, r1 := s.r1 - o.v1, r2 := s.r2 - o.v2,
                        lpCirc := s.lpCirc - lp, bal1 := s.bal1 - o.v1, bal2 := s.bal2 - o.v2 } := by
  simp only [removeLiq, Option.bind_eq_bind, Option.bind_eq_some_iff, req_eq_some, sub?_eq_some,
    Option.pure_def, Option.some.injEq, Prod.mk.injEq] at h
  obtain ⟨_, ⟨h1, h2⟩, _, h3, _, h4, ⟨x1, x2⟩, hx, _, _, c, ⟨h5, rfl⟩, b1, ⟨h6, rfl⟩, b2,
    ⟨h7, rfl⟩, rfl, rfl⟩ := h
  obtain ⟨g1, rfl, rfl, g2, g3, g4, g5, g6, g7⟩ := amountsRemoved_spec hx
  exact ⟨h1, h2, h3, h4, g1, rfl, g2, g3, g4, g5, g6, g7, h5, h6, h7, rfl⟩

theorem swapNoFee_spec {s s' : St} {c : Nat} {d : Dir} {a : Nat} {o : Out}
    (h : swapNoFee s c d a = some (s', o)) :
    c ∈ s.wl ∧ 0 < a ∧ s.status = .active ∧ s.rin d ≠ 0 ∧
    o = ⟨amountOutNoFee a (s.rin d) (s.rout d), 0, 0, false⟩ ∧ o.v1 < s.rout d ∧ o.v1 ≠ 0 ∧
    o.v1 ≤ s.balOut d ∧
    s' = (((s.touch.setR d (s.rin d + a) (s.rout d - o.v1)).setBal d (s.balIn d + a)
            (s.balOut d - o.v1))).addBurnOut d o.v1 := by
  simp only [swapNoFee, Option.bind_eq_bind, Option.bind_eq_some_iff, req_eq_some, sub?_eq_some,
    St.debitOut, Option.pure_def, Option.some.injEq, Prod.mk.injEq] at h
  obtain ⟨_, h1, _, h2, _, h3, ⟨s1, out⟩, hl, _, _, s3, ⟨b, ⟨h5, rfl⟩, rfl⟩, rfl, rfl⟩ := h
  obtain ⟨ho, hlt, hne, rfl⟩ := localSwap_spec hl
  have hr : s.touch.rin d = s.rin d ∧ s.touch.rout d = s.rout d := by
    cases d <;> simp [St.touch, St.rin, St.rout]
  simp only [hr.1, hr.2] at ho hlt hne h5 ⊢
  have hrin : s.rin d ≠ 0 := by
    simp only [St.localSwap, Option.bind_eq_bind, Option.bind_eq_some_iff, req_eq_some] at hl
    obtain ⟨_, h, _⟩ := hl
    simpa [hr.1] using h
  subst ho
  refine ⟨h1, h2, h3, hrin, rfl, hlt, hne, ?_, ?_⟩
  · cases d <;> simpa [St.touch, St.setR, St.setBal, St.balOut, St.balIn] using h5
  · cases d <;> simp [St.touch, St.setR, St.setBal, St.balOut, St.balIn, St.rin, St.rout]

theorem buyback_spec {s s' : St} {c lp : Nat} {w : Want} {o : Out}
    (h : buyback s c lp w = some (s', o)) :
    ∃ s2,
      c ∈ s.wl ∧ 0 < lp ∧ lp + MINLIQ ≤ s.S ∧ o = ⟨lp * s.r1 / s.S, lp * s.r2 / s.S, 0, false⟩ ∧
      0 < o.v1 ∧ o.v1 < s.r1 ∧ 0 < o.v2 ∧ o.v2 < s.r2 ∧ lp ≤ s.lpCirc ∧
      FeeRel .ab { s.touch with S := s.S - lp, r1 := s.r1 - o.v1, r2 := s.r2 - o.v2,
                                lpCirc := s.lpCirc - lp } s2 o.v1 ∧
      FeeRel .ba s2 s' o.v2 := by
  simp only [buyback, Option.bind_eq_bind, Option.bind_eq_some_iff, req_eq_some, sub?_eq_some,
    Option.pure_def, Option.some.injEq, Prod.mk.injEq] at h
  obtain ⟨_, h1, _, h2, ⟨x1, x2⟩, hx, cc, ⟨h3, rfl⟩, s2, hf1, s3, hf2, rfl, rfl⟩ := h
  obtain ⟨g1, rfl, rfl, g2, _, g4, g5, _, g7⟩ := amountsRemoved_spec hx
  exact ⟨s2, h1, h2, g1, rfl, g2, g4, g5, g7, h3, feeSlice_spec hf1, feeSlice_spec hf2⟩

end Mx.Pair

namespace Mx.Pair

/-- the fee-routing step of a fixed-input swap, kept as an equation (used when the fee is 0) -/
theorem swapIn_sendFee {s s' : St} {d : Dir} {a minOut : Nat} {o : Out}
    (h : swapIn s d a minOut = some (s', o)) :
    ∃ s3, (swapMid s d a (swapFee s a) o.v1).sendFee d (swapFee s a) = some s3 ∧
      s' = (s3.addSlkOut d o.lockedAmt).setBal d (s3.balIn d) (s3.balOut d - o.v1) := by
  simp only [swapIn, Option.bind_eq_bind, Option.bind_eq_some_iff, req_eq_some, sub?_eq_some,
    St.debitOut, Option.pure_def, Option.some.injEq, Prod.mk.injEq] at h
  obtain ⟨_, h1, _, h2, _, h3, _, h4, _, h5, _, h6, _, h7, aAfter, ⟨h8, rfl⟩, _, h9, s3, h10,
    ⟨s4, lk⟩, hlk, s5, ⟨b, ⟨h11, rfl⟩, rfl⟩, rfl, rfl⟩ := h
  obtain ⟨_, _, rfl⟩ := lockOut_spec hlk
  refine ⟨s3, h10, ?_⟩
  rw [addSlkOut_balIn, addSlkOut_balOut]
  rfl

end Mx.Pair

namespace Mx.Pair

/-! ### what a swap does to the locking side: the guard and simple-lock's holdings -/

theorem setBal_slkOut (s : St) (d : Dir) (a b : Nat) : (s.setBal d a b).slkOut d = s.slkOut d := by
  cases d <;> rfl
theorem setBal_slkIn (s : St) (d : Dir) (a b : Nat) : (s.setBal d a b).slkIn d = s.slkIn d := by
  cases d <;> rfl
theorem SameSlk.slkOut {s s' : St} (h : SameSlk s s') (d : Dir) : s'.slkOut d = s.slkOut d := by
  cases d
  · exact h.2
  · exact h.1
theorem SameSlk.slkIn {s s' : St} (h : SameSlk s s') (d : Dir) : s'.slkIn d = s.slkIn d := by
  cases d
  · exact h.1
  · exact h.2

/-- fixed input: while locking is on the locking address must be simple-lock; simple-lock's
    holdings of the output token grow by exactly the LOCKED amount delivered, its holdings of
    the input token do not move -/
theorem swapIn_lock_spec {s s' : St} {d : Dir} {a minOut : Nat} {o : Out}
    (h : swapIn s d a minOut = some (s', o)) :
    (s.lockOn = true → s.lockSc = .simpleLock) ∧
    s'.slkOut d = s.slkOut d + o.lockedAmt ∧ s'.slkIn d = s.slkIn d := by
  simp only [swapIn, Option.bind_eq_bind, Option.bind_eq_some_iff, req_eq_some, sub?_eq_some,
    St.debitOut, Option.pure_def, Option.some.injEq, Prod.mk.injEq] at h
  obtain ⟨_, h1, _, h2, _, h3, _, h4, _, h5, _, h6, _, h7, aAfter, ⟨h8, rfl⟩, _, h9, s3, h10,
    ⟨s4, lk⟩, hlk, s5, ⟨b, ⟨h11, rfl⟩, rfl⟩, rfl, rfl⟩ := h
  obtain ⟨_, hs, hrel⟩ := sendFee_spec h10
  have hslk := (swapMid_slk s d a (swapFee s a) (amountOut s.total a (s.rin d) (s.rout d))).trans
    (sendFee_slk h10)
  obtain ⟨_, hsc, rfl⟩ := lockOut_spec hlk
  refine ⟨fun hon => ?_, ?_, ?_⟩
  · have := hsc ((hrel.same.lockOn.trans (swapMid_lockOn s d a (swapFee s a) _)).trans hon)
    exact (hrel.same.lockSc.trans (swapMid_lockSc s d a (swapFee s a) _)).symm.trans this
  · rw [setBal_slkOut, addSlkOut_slkOut, hslk.slkOut]; rfl
  · rw [setBal_slkIn, addSlkOut_slkIn, hslk.slkIn]

/-- fixed output: same statement -/
theorem swapOut_lock_spec {s s' : St} {d : Dir} {maxIn out : Nat} {o : Out}
    (h : swapOut s d maxIn out = some (s', o)) :
    (s.lockOn = true → s.lockSc = .simpleLock) ∧
    s'.slkOut d = s.slkOut d + o.lockedAmt ∧ s'.slkIn d = s.slkIn d := by
  simp only [swapOut, Option.bind_eq_bind, Option.bind_eq_some_iff, req_eq_some, sub?_eq_some,
    St.debitOut, Option.pure_def, Option.some.injEq, Prod.mk.injEq] at h
  obtain ⟨_, h1, _, h2, _, h3, _, h4, _, h5, _, h6, _, h7, aAfter, ⟨h8, rfl⟩, _, h9, s3, h10,
    ⟨s4, lk⟩, hlk, s5, ⟨b, ⟨h11, rfl⟩, rfl⟩, rfl, rfl⟩ := h
  obtain ⟨_, hs, hrel⟩ := sendFee_spec h10
  have hslk := (swapMid_slk s d (amountIn s.total out (s.rin d) (s.rout d))
    (swapFee s (amountIn s.total out (s.rin d) (s.rout d))) out).trans (sendFee_slk h10)
  obtain ⟨_, hsc, rfl⟩ := lockOut_spec hlk
  refine ⟨fun hon => ?_, ?_, ?_⟩
  · have := hsc ((hrel.same.lockOn.trans (swapMid_lockOn s d (amountIn s.total out (s.rin d) (s.rout d))
      (swapFee s (amountIn s.total out (s.rin d) (s.rout d))) out)).trans hon)
    exact (hrel.same.lockSc.trans (swapMid_lockSc s d (amountIn s.total out (s.rin d) (s.rout d))
      (swapFee s (amountIn s.total out (s.rin d) (s.rout d))) out)).symm.trans this
  · rw [setBal_slkOut, addSlkOut_slkOut, hslk.slkOut]; rfl
  · rw [setBal_slkIn, addSlkOut_slkIn, hslk.slkIn]

end Mx.Pair

namespace Mx.Pair

/-! projections of the intermediate swap state and of the final payout, direction-generic -/
theorem swapMid_rin (s : St) (d : Dir) (c f o : Nat) : (swapMid s d c f o).rin d = s.rin d + (c - f) := by
  cases d <;> rfl
theorem swapMid_rout (s : St) (d : Dir) (c f o : Nat) : (swapMid s d c f o).rout d = s.rout d - o := by
  cases d <;> rfl
theorem swapMid_balIn (s : St) (d : Dir) (c f o : Nat) : (swapMid s d c f o).balIn d = s.balIn d + c := by
  cases d <;> rfl
theorem swapMid_balOut (s : St) (d : Dir) (c f o : Nat) : (swapMid s d c f o).balOut d = s.balOut d := by
  cases d <;> rfl
theorem setBal_rin (s : St) (d : Dir) (a b : Nat) : (s.setBal d a b).rin d = s.rin d := by
  cases d <;> rfl
theorem setBal_rout (s : St) (d : Dir) (a b : Nat) : (s.setBal d a b).rout d = s.rout d := by
  cases d <;> rfl
theorem setBal_balIn (s : St) (d : Dir) (a b : Nat) : (s.setBal d a b).balIn d = a := by
  cases d <;> rfl
theorem setBal_balOut (s : St) (d : Dir) (a b : Nat) : (s.setBal d a b).balOut d = b := by
  cases d <;> rfl

end Mx.Pair

namespace Mx.Pair

/-- the owner-only locking setters change the locking configuration and nothing else -/
theorem lockCfg_spec {s s' : St} {ow : Bool} {o : LockOp} (h : lockCfg s ow o = some s') :
    ow = true ∧ ∃ dl ul sc,
      s' = { s with lockDeadline := dl, lockUnlockEpoch := ul, lockSc := sc } := by
  cases o <;>
    simp only [lockCfg, Option.bind_eq_bind, Option.bind_eq_some_iff, req_eq_some,
      Option.pure_def, Option.some.injEq] at h
  case setDeadline e => obtain ⟨_, h1, rfl⟩ := h; exact ⟨h1, e, _, _, rfl⟩
  case setUnlock e => obtain ⟨_, h1, rfl⟩ := h; exact ⟨h1, _, e, _, rfl⟩
  case setSc a => obtain ⟨_, h1, _, _, rfl⟩ := h; exact ⟨h1, _, _, _, rfl⟩

/-- `step` on a locking setter or on the epoch clock: only the locking configuration / the
    epoch can differ afterwards -/
theorem step_lock_spec {s s' : St} {ow : Bool} {o : LockOp} {out : Out}
    (h : step s (.lock ow o) = some (s', out)) :
    ∃ dl ul sc, s' = { s with lockDeadline := dl, lockUnlockEpoch := ul, lockSc := sc } := by
  simp only [step, Option.map_eq_some_iff, Prod.mk.injEq] at h
  obtain ⟨s1, h1, rfl, _⟩ := h
  exact (lockCfg_spec h1).2

theorem step_epoch_spec {s s' : St} {e : Nat} {out : Out}
    (h : step s (.epoch e) = some (s', out)) : s.epoch ≤ e ∧ s' = { s with epoch := e } := by
  simp only [step] at h
  split at h
  · rename_i hle
    simp only [Option.some.injEq, Prod.mk.injEq] at h
    exact ⟨hle, h.1.symm⟩
  · simp at h

end Mx.Pair
