/-
  Characterisation ("spec") lemmas of the pair endpoints: what a successful call implies.
  Property theorems (Props/C01..C04, C20) are proved from these, never by unfolding `step`.
-/
import MxModel.Lemmas.PairFee

namespace Mx.Pair

theorem collectorCut_spec {s s' : St} {d : Dir} {fee rem : Nat}
    (h : s.collectorCut d fee = some (s', rem)) :
    rem ≤ fee ∧ FeeRel d s s' (fee - rem) := by
  unfold St.collectorCut at h
  split at h
  · rename_i pct hc
    generalize fee * pct / M = cutAmt at h
    simp only [Option.bind_eq_bind, Option.bind_eq_some_iff, sub?_eq_some] at h
    obtain ⟨r, ⟨hle, rfl⟩, h⟩ := h
    split at h
    · simp only [St.debitIn, Option.bind_eq_bind, Option.bind_eq_some_iff, sub?_eq_some,
        Option.pure_def, Option.some.injEq, Prod.mk.injEq] at h
      obtain ⟨s1, ⟨b, ⟨hb, rfl⟩, rfl⟩, rfl, rfl⟩ := h
      refine ⟨by omega, ?_⟩
      cases d <;>
        refine ⟨?_, ?_, ?_, ?_, ?_, ?_, ?_, ?_, ?_⟩ <;>
        simp [St.balIn, St.balOut, St.rin, St.rout, St.setBal, St.addCollIn, SameCfg] at * <;>
        omega
    · simp only [Option.pure_def, Option.some.injEq, Prod.mk.injEq] at h
      obtain ⟨rfl, rfl⟩ := h
      have : cutAmt = 0 := by omega
      subst this
      refine ⟨by omega, ?_⟩
      simpa using FeeRel.refl d s
  · simp only [Option.pure_def, Option.some.injEq, Prod.mk.injEq] at h
    obtain ⟨rfl, rfl⟩ := h
    exact ⟨Nat.le_refl _, by simpa using FeeRel.refl d s⟩

/-- `send_fee` routes at most `fee` away and otherwise only moves value into the reserves. -/
theorem sendFee_spec {s s' : St} {d : Dir} {fee : Nat} (h : s.sendFee d fee = some s') :
    ∃ spent, spent ≤ fee ∧ FeeRel d s s' spent := by
  unfold St.sendFee at h
  split at h
  · simp only [Option.some.injEq] at h
    subst h
    exact ⟨0, Nat.zero_le _, FeeRel.refl d s⟩
  · simp only [Option.bind_eq_bind, Option.bind_eq_some_iff] at h
    obtain ⟨⟨s1, rem⟩, hc, h⟩ := h
    obtain ⟨hrem, hrel⟩ := collectorCut_spec hc
    simp only at h
    split at h
    · simp only [Option.pure_def, Option.some.injEq] at h
      subst h
      exact ⟨fee - rem, by omega, hrel⟩
    · split at h
      · simp only [Option.pure_def, Option.some.injEq] at h
        subst h
        exact ⟨fee - rem, by omega, hrel⟩
      · have h2 := feeSlices_spec _ h
        refine ⟨(fee - rem) + rem / s1.dests.length * s1.dests.length, ?_, hrel.trans h2⟩
        have := Nat.div_mul_le_self rem s1.dests.length
        omega

/-- with the fee switch off nothing is routed at all -/
theorem sendFee_zero (s : St) (d : Dir) : s.sendFee d 0 = some s := by
  simp [St.sendFee]

/-! ### the state between "reserves updated" and "fee routed" in a swap -/

/-- reserves updated with the net input, payment received on the balance -/
def swapMid (s : St) (d : Dir) (charged fee out : Nat) : St :=
  let s1 := s.touch.setR d (s.rin d + (charged - fee)) (s.rout d - out)
  s1.setBal d (s1.balIn d + charged) (s1.balOut d)

/-- the fee a swap of `charged` takes out of the input before it enters the reserve -/
def swapFee (s : St) (charged : Nat) : Nat := if s.feeOn then specialFee s.special charged else 0

theorem swapIn_spec {s s' : St} {d : Dir} {a minOut : Nat} {o : Out}
    (h : swapIn s d a minOut = some (s', o)) :
    ∃ s3 spent,
      0 < minOut ∧ 0 < a ∧ s.status = .active ∧ minOut < s.rout d ∧
      o = ⟨amountOut s.total a (s.rin d) (s.rout d), 0, 0⟩ ∧
      minOut ≤ o.v1 ∧ o.v1 < s.rout d ∧ o.v1 ≠ 0 ∧
      swapFee s a ≤ a ∧
      s.r1 * s.r2 ≤ (swapMid s d a (swapFee s a) o.v1).r1 * (swapMid s d a (swapFee s a) o.v1).r2 ∧
      spent ≤ swapFee s a ∧
      FeeRel d (swapMid s d a (swapFee s a) o.v1) s3 spent ∧
      o.v1 ≤ s3.balOut d ∧
      s' = s3.setBal d (s3.balIn d) (s3.balOut d - o.v1) := by
  simp only [swapIn, Option.bind_eq_bind, Option.bind_eq_some_iff, req_eq_some, sub?_eq_some,
    St.debitOut, Option.pure_def, Option.some.injEq, Prod.mk.injEq] at h
  obtain ⟨_, h1, _, h2, _, h3, _, h4, _, h5, _, h6, _, h7, aAfter, ⟨h8, rfl⟩, _, h9, s3, h10,
    s4, ⟨b, ⟨h11, rfl⟩, rfl⟩, rfl, rfl⟩ := h
  obtain ⟨spent, hs, hrel⟩ := sendFee_spec h10
  refine ⟨s3, spent, h1, h2, h3, h4, rfl, h5, h6, h7, h8, ?_, hs, hrel, h11, rfl⟩
  cases d <;> simpa [swapMid, swapFee, St.setR, St.setBal, St.touch] using h9

theorem swapOut_spec {s s' : St} {d : Dir} {maxIn out : Nat} {o : Out}
    (h : swapOut s d maxIn out = some (s', o)) :
    ∃ s3 spent,
      0 < out ∧ 0 < maxIn ∧ s.status = .active ∧ out < s.rout d ∧
      (s.rout d - out) * (M - s.total) ≠ 0 ∧
      o = ⟨out, amountIn s.total out (s.rin d) (s.rout d), maxIn - amountIn s.total out (s.rin d) (s.rout d)⟩ ∧
      o.v2 ≤ maxIn ∧ o.v2 ≠ 0 ∧
      swapFee s o.v2 ≤ o.v2 ∧
      s.r1 * s.r2 ≤ (swapMid s d o.v2 (swapFee s o.v2) out).r1 * (swapMid s d o.v2 (swapFee s o.v2) out).r2 ∧
      spent ≤ swapFee s o.v2 ∧
      FeeRel d (swapMid s d o.v2 (swapFee s o.v2) out) s3 spent ∧
      out ≤ s3.balOut d ∧
      s' = s3.setBal d (s3.balIn d) (s3.balOut d - out) := by
  simp only [swapOut, Option.bind_eq_bind, Option.bind_eq_some_iff, req_eq_some, sub?_eq_some,
    St.debitOut, Option.pure_def, Option.some.injEq, Prod.mk.injEq] at h
  obtain ⟨_, h1, _, h2, _, h3, _, h4, _, h5, _, h6, _, h7, aAfter, ⟨h8, rfl⟩, _, h9, s3, h10,
    s4, ⟨b, ⟨h11, rfl⟩, rfl⟩, rfl, rfl⟩ := h
  obtain ⟨spent, hs, hrel⟩ := sendFee_spec h10
  refine ⟨s3, spent, h1, h2, h3, h4, h5, rfl, h6, h7, h8, ?_, hs, hrel, h11, rfl⟩
  cases d <;> simpa [swapMid, swapFee, St.setR, St.setBal, St.touch] using h9

end Mx.Pair

namespace Mx.Pair

theorem firstMint_spec {s s' : St} {a1 a2 lp : Nat} (h : s.firstMint a1 a2 = some (s', lp)) :
    MINLIQ < min a1 a2 ∧ lp = min a1 a2 - MINLIQ ∧
    s' = { s with S := min a1 a2, r1 := s.r1 + a1, r2 := s.r2 + a2,
                  lpCirc := s.lpCirc + min a1 a2, lpOwn := s.lpOwn + MINLIQ,
                  bal1 := s.bal1 + a1, bal2 := s.bal2 + a2 } := by
  simp only [St.firstMint, Option.bind_eq_bind, Option.bind_eq_some_iff, req_eq_some,
    Option.pure_def, Option.some.injEq, Prod.mk.injEq] at h
  obtain ⟨_, h1, rfl, rfl⟩ := h
  exact ⟨h1, rfl, rfl⟩

set_option maxRecDepth 8000 in
theorem addInitial_spec {s s' : St} {c a1 a2 : Nat} {o : Out}
    (h : addInitial s c a1 a2 = some (s', o)) :
    (s.adder = none ∨ s.adder = some c) ∧ 0 < a1 ∧ 0 < a2 ∧ s.status = .inactive ∧ s.S = 0 ∧
    MINLIQ < min a1 a2 ∧ o = ⟨min a1 a2 - MINLIQ, a1, a2⟩ ∧
    s' = { ({ s with S := min a1 a2, r1 := s.r1 + a1, r2 := s.r2 + a2,
                     lpCirc := s.lpCirc + min a1 a2, lpOwn := s.lpOwn + MINLIQ,
                     bal1 := s.bal1 + a1, bal2 := s.bal2 + a2 } : St) with
            status := .partialActive } := by
  simp only [addInitial, Option.bind_eq_bind, Option.bind_eq_some_iff, req_eq_some,
    Option.pure_def, Option.some.injEq, Prod.mk.injEq] at h
  obtain ⟨_, h1, _, ⟨h2, h3⟩, _, h4, _, h5, ⟨s1, lp⟩, hm, rfl, rfl⟩ := h
  obtain ⟨h6, rfl, rfl⟩ := firstMint_spec hm
  exact ⟨h1, h2, h3, h4, h5, h6, rfl, rfl⟩

theorem optimal_spec {s : St} {a1 a2 m1 m2 o1 o2 : Nat}
    (h : optimal s a1 a2 m1 m2 = some (o1, o2)) :
    ((quote a1 s.r1 s.r2 ≤ a2 ∧ o1 = a1 ∧ o2 = quote a1 s.r1 s.r2) ∨
     (a2 < quote a1 s.r1 s.r2 ∧ quote a2 s.r2 s.r1 ≤ a1 ∧ o1 = quote a2 s.r2 s.r1 ∧ o2 = a2)) ∧
    m1 ≤ o1 ∧ m2 ≤ o2 := by
  simp only [optimal, Option.bind_eq_bind, Option.bind_eq_some_iff, req_eq_some,
    Option.pure_def, Option.some.injEq, Prod.mk.injEq] at h
  obtain ⟨⟨p1, p2⟩, hp, _, h1, _, h2, rfl, rfl⟩ := h
  refine ⟨?_, h1, h2⟩
  split at hp
  · simp only [Option.some.injEq, Prod.mk.injEq] at hp
    obtain ⟨rfl, rfl⟩ := hp
    exact Or.inl ⟨by assumption, rfl, rfl⟩
  · simp only [Option.bind_eq_bind, Option.bind_eq_some_iff, req_eq_some, Option.pure_def,
      Option.some.injEq, Prod.mk.injEq] at hp
    obtain ⟨_, hq, rfl, rfl⟩ := hp
    exact Or.inr ⟨by omega, hq, rfl, rfl⟩

/-- `addLiquidity` on an existing pool -/
theorem addLiq_spec {s s' : St} {a1 a2 m1 m2 : Nat} {o : Out} (hS : s.S ≠ 0)
    (h : addLiq s a1 a2 m1 m2 = some (s', o)) :
    ∃ o1 o2,
      0 < m1 ∧ 0 < m2 ∧ 0 < a1 ∧ 0 < a2 ∧ (s.status = .active ∨ s.status = .partialActive) ∧
      s.r1 ≠ 0 ∧ s.r2 ≠ 0 ∧ optimal s a1 a2 m1 m2 = some (o1, o2) ∧
      o = ⟨min (o1 * s.S / s.r1) (o2 * s.S / s.r2), o1, o2⟩ ∧ 0 < o.v1 ∧
      s.r1 * s.r2 ≤ (s.r1 + o1) * (s.r2 + o2) ∧
      s' = { s.touch with S := s.S + o.v1, r1 := s.r1 + o1, r2 := s.r2 + o2,
                          lpCirc := s.lpCirc + o.v1, bal1 := s.bal1 + o1, bal2 := s.bal2 + o2 } := by
  simp only [addLiq, Option.bind_eq_bind, Option.bind_eq_some_iff, req_eq_some] at h
  obtain ⟨_, ⟨h1, h2⟩, _, ⟨h3, h4⟩, _, h5, _, h6, h⟩ := h
  rw [if_neg hS] at h
  simp only [Option.bind_eq_bind, Option.bind_eq_some_iff, req_eq_some, Option.pure_def,
    Option.some.injEq, Prod.mk.injEq] at h
  obtain ⟨_, ⟨h7, h8⟩, ⟨o1, o2⟩, hopt, _, h9, _, h10, rfl, rfl⟩ := h
  exact ⟨o1, o2, h1, h2, h3, h4, h5, h7, h8, hopt, rfl, h9, h10, rfl⟩

set_option maxRecDepth 8000 in
/-- `addLiquidity` as the first deposit (no initial-liquidity adder configured) -/
theorem addLiq_first_spec {s s' : St} {a1 a2 m1 m2 : Nat} {o : Out} (hS : s.S = 0)
    (h : addLiq s a1 a2 m1 m2 = some (s', o)) :
    0 < a1 ∧ 0 < a2 ∧ (s.status = .active ∨ s.status = .partialActive) ∧ s.adder = none ∧
    MINLIQ < min a1 a2 ∧ o = ⟨min a1 a2 - MINLIQ, a1, a2⟩ ∧
    s' = { s.touch with
            S := min a1 a2, r1 := s.r1 + a1, r2 := s.r2 + a2,
            lpCirc := s.lpCirc + min a1 a2, lpOwn := s.lpOwn + MINLIQ,
            bal1 := s.bal1 + a1, bal2 := s.bal2 + a2 } := by
  simp only [addLiq, Option.bind_eq_bind, Option.bind_eq_some_iff, req_eq_some] at h
  obtain ⟨_, ⟨h1, h2⟩, _, ⟨h3, h4⟩, _, h5, _, h6, h⟩ := h
  rw [if_pos hS] at h
  simp only [Option.bind_eq_bind, Option.bind_eq_some_iff, req_eq_some, Option.pure_def,
    Option.some.injEq, Prod.mk.injEq] at h
  obtain ⟨⟨s1, lp⟩, hm, _, _, rfl, rfl⟩ := h
  obtain ⟨h7, rfl, rfl⟩ := firstMint_spec hm
  refine ⟨h3, h4, h5, ?_, h7, rfl, rfl⟩
  cases h6 with
  | inl h => exact h
  | inr h => exact absurd hS h

theorem amountsRemoved_spec {s : St} {lp m1 m2 x1 x2 : Nat}
    (h : amountsRemoved s lp m1 m2 = some (x1, x2)) :
    lp + MINLIQ ≤ s.S ∧ x1 = lp * s.r1 / s.S ∧ x2 = lp * s.r2 / s.S ∧
    0 < x1 ∧ m1 ≤ x1 ∧ x1 < s.r1 ∧ 0 < x2 ∧ m2 ≤ x2 ∧ x2 < s.r2 := by
  simp only [amountsRemoved, Option.bind_eq_bind, Option.bind_eq_some_iff, req_eq_some,
    Option.pure_def, Option.some.injEq, Prod.mk.injEq] at h
  obtain ⟨_, h1, _, h2, _, h3, _, h4, _, h5, _, h6, _, h7, rfl, rfl⟩ := h
  exact ⟨h1, rfl, rfl, h2, h3, h4, h5, h6, h7⟩

theorem removeLiq_spec {s s' : St} {lp m1 m2 : Nat} {o : Out}
    (h : removeLiq s lp m1 m2 = some (s', o)) :
    0 < m1 ∧ 0 < m2 ∧ (s.status = .active ∨ s.status = .partialActive) ∧ 0 < lp ∧
    lp + MINLIQ ≤ s.S ∧ o = ⟨lp * s.r1 / s.S, lp * s.r2 / s.S, 0⟩ ∧
    0 < o.v1 ∧ m1 ≤ o.v1 ∧ o.v1 < s.r1 ∧ 0 < o.v2 ∧ m2 ≤ o.v2 ∧ o.v2 < s.r2 ∧
    lp ≤ s.lpCirc ∧ o.v1 ≤ s.bal1 ∧ o.v2 ≤ s.bal2 ∧
    s' = { s.touch with S := s.S - lp, r1 := s.r1 - o.v1, r2 := s.r2 - o.v2,
                        lpCirc := s.lpCirc - lp, bal1 := s.bal1 - o.v1, bal2 := s.bal2 - o.v2 } := by
  simp only [removeLiq, Option.bind_eq_bind, Option.bind_eq_some_iff, req_eq_some, sub?_eq_some,
    Option.pure_def, Option.some.injEq, Prod.mk.injEq] at h
  obtain ⟨_, ⟨h1, h2⟩, _, h3, _, h4, ⟨x1, x2⟩, hx, _, _, c, ⟨h5, rfl⟩, b1, ⟨h6, rfl⟩, b2,
    ⟨h7, rfl⟩, rfl, rfl⟩ := h
  obtain ⟨g1, rfl, rfl, g2, g3, g4, g5, g6, g7⟩ := amountsRemoved_spec hx
  exact ⟨h1, h2, h3, h4, g1, rfl, g2, g3, g4, g5, g6, g7, h5, h6, h7, rfl⟩

theorem swapNoFee_spec {s s' : St} {c : Nat} {d : Dir} {a : Nat} {o : Out}
    (h : swapNoFee s c d a = some (s', o)) :
    c ∈ s.wl ∧ 0 < a ∧ s.status = .active ∧ s.rin d ≠ 0 ∧
    o = ⟨amountOutNoFee a (s.rin d) (s.rout d), 0, 0⟩ ∧ o.v1 < s.rout d ∧ o.v1 ≠ 0 ∧
    o.v1 ≤ s.balOut d ∧
    s' = (((s.touch.setR d (s.rin d + a) (s.rout d - o.v1)).setBal d (s.balIn d + a)
            (s.balOut d - o.v1))).addBurnOut d o.v1 := by
  simp only [swapNoFee, Option.bind_eq_bind, Option.bind_eq_some_iff, req_eq_some, sub?_eq_some,
    St.debitOut, Option.pure_def, Option.some.injEq, Prod.mk.injEq] at h
  obtain ⟨_, h1, _, h2, _, h3, ⟨s1, out⟩, hl, _, _, s3, ⟨b, ⟨h5, rfl⟩, rfl⟩, rfl, rfl⟩ := h
  obtain ⟨ho, hlt, hne, rfl⟩ := localSwap_spec hl
  have hr : s.touch.rin d = s.rin d ∧ s.touch.rout d = s.rout d := by
    cases d <;> simp [St.touch, St.rin, St.rout]
  simp only [hr.1, hr.2] at ho hlt hne h5 ⊢
  have hrin : s.rin d ≠ 0 := by
    simp only [St.localSwap, Option.bind_eq_bind, Option.bind_eq_some_iff, req_eq_some] at hl
    obtain ⟨_, h, _⟩ := hl
    simpa [hr.1] using h
  subst ho
  refine ⟨h1, h2, h3, hrin, rfl, hlt, hne, ?_, ?_⟩
  · cases d <;> simpa [St.touch, St.setR, St.setBal, St.balOut, St.balIn] using h5
  · cases d <;> simp [St.touch, St.setR, St.setBal, St.balOut, St.balIn, St.rin, St.rout]

theorem buyback_spec {s s' : St} {c lp : Nat} {w : Want} {o : Out}
    (h : buyback s c lp w = some (s', o)) :
    ∃ s2,
      c ∈ s.wl ∧ 0 < lp ∧ lp + MINLIQ ≤ s.S ∧ o = ⟨lp * s.r1 / s.S, lp * s.r2 / s.S, 0⟩ ∧
      0 < o.v1 ∧ o.v1 < s.r1 ∧ 0 < o.v2 ∧ o.v2 < s.r2 ∧ lp ≤ s.lpCirc ∧
      FeeRel .ab { s.touch with S := s.S - lp, r1 := s.r1 - o.v1, r2 := s.r2 - o.v2,
                                lpCirc := s.lpCirc - lp } s2 o.v1 ∧
      FeeRel .ba s2 s' o.v2 := by
  simp only [buyback, Option.bind_eq_bind, Option.bind_eq_some_iff, req_eq_some, sub?_eq_some,
    Option.pure_def, Option.some.injEq, Prod.mk.injEq] at h
  obtain ⟨_, h1, _, h2, ⟨x1, x2⟩, hx, cc, ⟨h3, rfl⟩, s2, hf1, s3, hf2, rfl, rfl⟩ := h
  obtain ⟨g1, rfl, rfl, g2, _, g4, g5, _, g7⟩ := amountsRemoved_spec hx
  exact ⟨s2, h1, h2, g1, rfl, g2, g4, g5, g7, h3, feeSlice_spec hf1, feeSlice_spec hf2⟩

end Mx.Pair

namespace Mx.Pair

/-- the fee-routing step of a fixed-input swap, kept as an equation (used when the fee is 0) -/
theorem swapIn_sendFee {s s' : St} {d : Dir} {a minOut : Nat} {o : Out}
    (h : swapIn s d a minOut = some (s', o)) :
    ∃ s3, (swapMid s d a (swapFee s a) o.v1).sendFee d (swapFee s a) = some s3 ∧
      s' = s3.setBal d (s3.balIn d) (s3.balOut d - o.v1) := by
  simp only [swapIn, Option.bind_eq_bind, Option.bind_eq_some_iff, req_eq_some, sub?_eq_some,
    St.debitOut, Option.pure_def, Option.some.injEq, Prod.mk.injEq] at h
  obtain ⟨_, h1, _, h2, _, h3, _, h4, _, h5, _, h6, _, h7, aAfter, ⟨h8, rfl⟩, _, h9, s3, h10,
    s4, ⟨b, ⟨h11, rfl⟩, rfl⟩, rfl, rfl⟩ := h
  exact ⟨s3, h10, rfl⟩

end Mx.Pair

namespace Mx.Pair

/-! projections of the intermediate swap state and of the final payout, direction-generic -/
theorem swapMid_rin (s : St) (d : Dir) (c f o : Nat) : (swapMid s d c f o).rin d = s.rin d + (c - f) := by
  cases d <;> rfl
theorem swapMid_rout (s : St) (d : Dir) (c f o : Nat) : (swapMid s d c f o).rout d = s.rout d - o := by
  cases d <;> rfl
theorem swapMid_balIn (s : St) (d : Dir) (c f o : Nat) : (swapMid s d c f o).balIn d = s.balIn d + c := by
  cases d <;> rfl
theorem swapMid_balOut (s : St) (d : Dir) (c f o : Nat) : (swapMid s d c f o).balOut d = s.balOut d := by
  cases d <;> rfl
theorem setBal_rin (s : St) (d : Dir) (a b : Nat) : (s.setBal d a b).rin d = s.rin d := by
  cases d <;> rfl
theorem setBal_rout (s : St) (d : Dir) (a b : Nat) : (s.setBal d a b).rout d = s.rout d := by
  cases d <;> rfl
theorem setBal_balIn (s : St) (d : Dir) (a b : Nat) : (s.setBal d a b).balIn d = a := by
  cases d <;> rfl
theorem setBal_balOut (s : St) (d : Dir) (a b : Nat) : (s.setBal d a b).balOut d = b := by
  cases d <;> rfl

end Mx.Pair
