/-
  `sameTok` (farming token = reward token, the deployment constant `compoundRewards` checks) never changes:
  `run_sameTok`.  Mechanical copy of the `kind` section of Lemmas/FarmAcct.lean.
-/
import MxModel.Lemmas.FarmAcct
namespace Mx.Farm
open Mx.Weekly (upd Energy)

theorem takePayments_sameTok {l : List (Nat × Nat)} {s s' : St} {c : Nat} (h : takePayments s c l = some s') :
    s'.sameTok = s.sameTok := by obtain ⟨_, rfl⟩ := takePayments_spec l h; rfl
theorem checkAndUpdate_sameTok {l : List (Nat × Nat)} {s s' : St} {c : Nat} (h : checkAndUpdate s c l = some s') :
    s'.sameTok = s.sameTok := by obtain ⟨_, rfl⟩ := checkAndUpdate_spec l h; rfl
theorem claimBoostedYields_sameTok {s s' : St} {u r : Nat} (h : claimBoostedYields s u = some (s', r)) :
    s'.sameTok = s.sameTok := by obtain ⟨_, _, rfl⟩ := claimBoostedYields_struct h; rfl
theorem setFarmSupplyWeek_sameTok {s s' : St} {v : Nat} (h : setFarmSupplyWeek s v = some s') :
    s'.sameTok = s.sameTok := by obtain ⟨_, _, rfl⟩ := setFarmSupplyWeek_spec h; rfl
theorem updateEnergyAndProgress_sameTok {s s' : St} {u : Nat} (h : updateEnergyAndProgress s u = some s') :
    s'.sameTok = s.sameTok := by obtain ⟨_, rfl⟩ := updateEnergyAndProgress_spec h; rfl
theorem createToken_sameTok {s s' : St} {d n : Nat} {a : Attr} (h : createToken s d a = some (s', n)) :
    s'.sameTok = s.sameTok := by obtain ⟨_, _, rfl⟩ := createToken_spec h; rfl
theorem generate_sameTok {s s' : St} {c c' : Cache} (h : generate s c = some (s', c')) :
    s'.sameTok = s.sameTok := by obtain ⟨_, rfl, _⟩ := generate_spec h; rfl
theorem payReward_sameTok {s s' : St} {u b bo : Nat} (h : payReward s u b bo = some s') :
    s'.sameTok = s.sameTok := by obtain ⟨_, _, rfl, _⟩ := payReward_spec h; rfl
theorem payRewardIf_sameTok {s s' : St} {k : Kind} {u b bo : Nat} (h : payRewardIf s k u b bo = some s') :
    s'.sameTok = s.sameTok := by
  unfold payRewardIf at h
  split at h
  · exact payReward_sameTok h
  · simp only [Option.some.injEq] at h; rw [← h]
theorem claimOnlyBoostedPayment_sameTok {s s' : St} {u r : Nat} (h : claimOnlyBoostedPayment s u = some (s', r)) :
    s'.sameTok = s.sameTok := by
  simp only [claimOnlyBoostedPayment, Option.bind_eq_bind, Option.bind_eq_some_iff, Option.pure_def] at h
  obtain ⟨⟨s1, r1⟩, h1, h⟩ := h
  have k1 := claimBoostedYields_sameTok h1
  split at h
  · simp only [Option.some.injEq, Prod.mk.injEq] at h
    obtain ⟨rfl, _⟩ := h; exact k1
  · simp only [Option.bind_eq_some_iff, sub?_eq_some, Option.some.injEq, Prod.mk.injEq] at h
    obtain ⟨_, _, rfl, _⟩ := h; exact k1
theorem removeFarming_sameTok {s s' : St} {a p : Nat} (h : removeFarming s a p = some s') : s'.sameTok = s.sameTok := by
  simp only [removeFarming, Option.bind_eq_bind, Option.bind_eq_some_iff, sub?_eq_some, Option.pure_def,
    Option.some.injEq] at h
  obtain ⟨_, _, rfl⟩ := h; rfl
theorem compoundMove_sameTok {s s' : St} {b bo : Nat} (h : compoundMove s b bo = some s') : s'.sameTok = s.sameTok := by
  simp only [compoundMove, Option.bind_eq_bind, Option.bind_eq_some_iff, sub?_eq_some, Option.pure_def,
    Option.some.injEq] at h
  obtain ⟨_, _, rfl⟩ := h; rfl
theorem clearUserEnergyIfNeeded_sameTok {s s' : St} {u : Nat} (h : clearUserEnergyIfNeeded s u = some s') :
    s'.sameTok = s.sameTok := by
  unfold clearUserEnergyIfNeeded at h
  split at h
  · simp only [Option.some.injEq] at h; rw [← h]
  · simp only [Option.bind_eq_bind, Option.bind_eq_some_iff, Option.pure_def, Option.some.injEq] at h
    obtain ⟨_, _, _, _, _, _, rfl⟩ := h
    rfl

/-! ### endpoints -/


theorem claimTail_sameTok {s s' : St} {c : Bool} {u b bo : Nat} (h : claimTail s c u b bo = some s') :
    s'.sameTok = s.sameTok := by
  unfold claimTail at h
  split at h
  · simp only [Option.bind_eq_some_iff] at h
    obtain ⟨s1, h1, h2⟩ := h
    exact (updateEnergyAndProgress_sameTok h2).trans (compoundMove_sameTok h1)
  · exact payReward_sameTok h

theorem enterCore_sameTok {s s' : St} {caller orig tokenTo amt : Nat} {extra : List (Nat × Nat)} {o : Out}
    (h : enterCore s caller orig tokenTo amt extra = some (s', o)) : s'.sameTok = s.sameTok := by
  simp only [enterCore, Option.bind_eq_bind, Option.bind_eq_some_iff, req_eq_some, Option.pure_def,
    Option.some.injEq, Prod.mk.injEq] at h
  obtain ⟨_, _, s0, h0, ⟨s1, boosted⟩, h1, s1', h1', _, hact, s2, h2, ⟨s4, c1⟩, h4, merged, hm,
    ⟨s5, n⟩, h5, s6, h6, s8, h8, s9, h9, rfl, rfl⟩ := h
  have k0 : s0.sameTok = s.sameTok := takePayments_sameTok h0
  have k1 : s1.sameTok = s.sameTok := (claimOnlyBoostedPayment_sameTok h1).trans k0
  have k1' : s1'.sameTok = s.sameTok := (payRewardIf_sameTok h1').trans k1
  have k2 : s2.sameTok = s.sameTok := (checkAndUpdate_sameTok h2).trans k1'
  have k4 : s4.sameTok = s.sameTok := (generate_sameTok h4).trans k2
  have k5 : s5.sameTok = s.sameTok := (createToken_sameTok h5).trans k4
  have k6 : s6.sameTok = s.sameTok := (setFarmSupplyWeek_sameTok h6).trans k5
  have k8 : s8.sameTok = s.sameTok := (payRewardIf_sameTok h8).trans k6
  exact (updateEnergyAndProgress_sameTok h9).trans k8

theorem claimCore_sameTok {s s' : St} {caller orig : Nat} {pays : List (Nat × Nat)} {cmp : Bool} {o : Out}
    (h : claimCore s caller orig pays cmp = some (s', o)) : s'.sameTok = s.sameTok := by
  simp only [claimCore, Option.bind_eq_bind, Option.bind_eq_some_iff, req_eq_some, Option.pure_def,
    Option.some.injEq, Prod.mk.injEq, sub?_eq_some] at h
  obtain ⟨⟨n1, a1⟩, _, s0, h0, _, hact, _, hsame, at1, hat, ⟨s1, c1⟩, h1, part, hpart, ⟨s2, boosted⟩, h2,
    res, ⟨hle, rfl⟩, s3, h3, merged, hm, ⟨s5, n⟩, h5, s6, h6, s8, h8, rfl, rfl⟩ := h
  have k0 : s0.sameTok = s.sameTok := takePayments_sameTok h0
  have k1 : s1.sameTok = s.sameTok := (generate_sameTok h1).trans k0
  have k2 : s2.sameTok = s.sameTok := (claimBoostedYields_sameTok h2).trans k1
  have k3 : s3.sameTok = s.sameTok := (checkAndUpdate_sameTok h3).trans k2
  have k5 : s5.sameTok = s.sameTok := (createToken_sameTok h5).trans (by cases cmp <;> exact k3)
  have k6 : s6.sameTok = s.sameTok := (setFarmSupplyWeek_sameTok h6).trans k5
  exact (claimTail_sameTok h8).trans k6

set_option maxHeartbeats 1000000 in
theorem exitFarm_sameTok {s s' : St} {caller : Nat} {opt : Option Nat} {n a : Nat} {o : Out}
    (h : exitFarm s caller opt n a = some (s', o)) : s'.sameTok = s.sameTok := by
  simp (config := { maxSteps := 1000000 }) only [exitFarm, Option.bind_eq_bind, Option.bind_eq_some_iff,
    req_eq_some, Option.pure_def, Option.some.injEq, Prod.mk.injEq, sub?_eq_some] at h
  obtain ⟨orig, _, s0, h0, _, hact, att, hat, ⟨s1, c1⟩, h1, part, hpart, ⟨s2, boosted⟩, h2,
    res, ⟨hle, rfl⟩, sup, ⟨hsup, rfl⟩, s4, h4, pen, hpen, out, _, s6, h6, s7, h7, s8, h8, rfl, rfl⟩ := h
  have k0 : s0.sameTok = s.sameTok := takePayments_sameTok h0
  have k1 : s1.sameTok = s.sameTok := (generate_sameTok h1).trans k0
  have k2 : s2.sameTok = s.sameTok := (claimBoostedYields_sameTok h2).trans k1
  have k4 : s4.sameTok = s.sameTok := (setFarmSupplyWeek_sameTok h4).trans k2
  have k6 : s6.sameTok = s.sameTok := (removeFarming_sameTok h6).trans k4
  have k7 : s7.sameTok = s.sameTok := (payReward_sameTok h7).trans k6
  exact (clearUserEnergyIfNeeded_sameTok h8).trans k7

theorem mergeFarmTokens_sameTok {s s' : St} {caller : Nat} {opt : Option Nat} {pays : List (Nat × Nat)} {o : Out}
    (h : mergeFarmTokens s caller opt pays = some (s', o)) : s'.sameTok = s.sameTok := by
  simp only [mergeFarmTokens, Option.bind_eq_bind, Option.bind_eq_some_iff, req_eq_some, Option.pure_def,
    Option.some.injEq, Prod.mk.injEq] at h
  obtain ⟨_, hact, orig, _, _, _, s0, h0, ⟨s1, boosted⟩, h1, s2, h2, merged, hm, ⟨s3, n⟩, h3, s4, h4, rfl, rfl⟩ := h
  exact (payReward_sameTok h4).trans ((createToken_sameTok h3).trans ((checkAndUpdate_sameTok h2).trans
    ((claimOnlyBoostedPayment_sameTok h1).trans (takePayments_sameTok h0))))

theorem claimBoostedRewards_sameTok {s s' : St} {caller : Nat} {optUser : Option Nat} {o : Out}
    (h : claimBoostedRewards s caller optUser = some (s', o)) : s'.sameTok = s.sameTok := by
  simp only [claimBoostedRewards, Option.bind_eq_bind, Option.bind_eq_some_iff, req_eq_some, Option.pure_def,
    Option.some.injEq, Prod.mk.injEq, sub?_eq_some] at h
  obtain ⟨_, _, _, _, _, hact, ⟨s1, c1⟩, h1, ⟨s2, boosted⟩, h2, res, ⟨hle, rfl⟩, s3, h3, s4, h4, rfl, rfl⟩ := h
  exact (payReward_sameTok h4).trans ((setFarmSupplyWeek_sameTok h3).trans ((claimBoostedYields_sameTok h2).trans
    (generate_sameTok h1)))

theorem settle_sameTok {s s' : St} (h : settle s = some s') : s'.sameTok = s.sameTok := by
  simp only [settle, Option.bind_eq_bind, Option.bind_eq_some_iff, Option.pure_def, Option.some.injEq] at h
  obtain ⟨⟨s1, c1⟩, h1, rfl⟩ := h
  exact (generate_sameTok h1 : s1.sameTok = s.sameTok)

/-- whether the farming token is the reward token is fixed at deployment -/
theorem step_sameTok {s s' : St} {op : Op} {o : Out} (h : step s op = some (s', o)) : s'.sameTok = s.sameTok := by
  cases op <;> simp only [step, known] at h
  case enter c oo a e =>
    split at h <;> [skip; exact absurd h (by simp)]
    simp only [enterFarm, Option.bind_eq_bind, Option.bind_eq_some_iff] at h
    obtain ⟨_, _, h⟩ := h
    exact enterCore_sameTok h
  case enterOB c u a e =>
    split at h <;> [skip; exact absurd h (by simp)]
    simp only [enterFarmOnBehalf, Option.bind_eq_bind, Option.bind_eq_some_iff] at h
    obtain ⟨_, _, _, _, h⟩ := h
    exact enterCore_sameTok h
  case claim c oo p =>
    split at h <;> [skip; exact absurd h (by simp)]
    simp only [claimRewards, Option.bind_eq_bind, Option.bind_eq_some_iff] at h
    obtain ⟨_, _, h⟩ := h
    exact claimCore_sameTok h
  case claimOB c p =>
    split at h <;> [skip; exact absurd h (by simp)]
    simp only [claimRewardsOnBehalf, Option.bind_eq_bind, Option.bind_eq_some_iff] at h
    obtain ⟨_, _, _, _, _, _, h⟩ := h
    exact claimCore_sameTok h
  case compound c oo p =>
    split at h <;> [skip; exact absurd h (by simp)]
    simp only [compoundRewards, Option.bind_eq_bind, Option.bind_eq_some_iff, req_eq_some] at h
    obtain ⟨_, hk, _, _, h⟩ := h
    exact claimCore_sameTok h
  case exit c oo n a =>
    split at h <;> [skip; exact absurd h (by simp)]
    exact exitFarm_sameTok h
  case merge c oo p =>
    split at h <;> [skip; exact absurd h (by simp)]
    exact mergeFarmTokens_sameTok h
  case claimBoosted c u =>
    split at h <;> [skip; exact absurd h (by simp)]
    exact claimBoostedRewards_sameTok h
  case transfer a b n x =>
    split at h <;> [skip; exact absurd h (by simp)]
    split at h <;> [skip; exact absurd h (by simp)]
    simp only [noOut, Option.map_eq_some_iff, Prod.mk.injEq] at h
    obtain ⟨s1, h1, rfl, _⟩ := h
    simp only [transfer, Option.bind_eq_bind, Option.bind_eq_some_iff, req_eq_some, sub?_eq_some,
      Option.pure_def, Option.some.injEq] at h1
    obtain ⟨_, _, _, _, _, _, _, _, rfl⟩ := h1
    rfl
  case setEnergy u a l t =>
    simp only [Option.some.injEq, Prod.mk.injEq] at h
    obtain ⟨rfl, _⟩ := h
    rfl
  case updateEnergy u =>
    simp only [noOut, Option.map_eq_some_iff, Prod.mk.injEq] at h
    obtain ⟨s1, h1, rfl, _⟩ := h
    simp only [updateEnergyForUser, Option.bind_eq_bind, Option.bind_eq_some_iff, Option.pure_def,
      Option.some.injEq] at h1
    obtain ⟨_, _, _, _, rfl⟩ := h1
    rfl
  case setPerBlock c x =>
    simp only [noOut, Option.map_eq_some_iff, Prod.mk.injEq] at h
    obtain ⟨s1, h1, rfl, _⟩ := h
    simp only [setPerBlock, Option.bind_eq_bind, Option.bind_eq_some_iff, Option.pure_def,
      Option.some.injEq] at h1
    obtain ⟨_, _, _, _, s2, h2, rfl⟩ := h1
    exact (settle_sameTok h2 : s2.sameTok = s.sameTok)
  case startProduce c =>
    simp only [noOut, Option.map_eq_some_iff, Prod.mk.injEq] at h
    obtain ⟨s1, h1, rfl, _⟩ := h
    simp only [startProduce, Option.bind_eq_bind, Option.bind_eq_some_iff, Option.pure_def,
      Option.some.injEq] at h1
    obtain ⟨_, _, _, _, _, _, rfl⟩ := h1
    rfl
  case endProduce c =>
    simp only [noOut, Option.map_eq_some_iff, Prod.mk.injEq] at h
    obtain ⟨s1, h1, rfl, _⟩ := h
    simp only [endProduce, Option.bind_eq_bind, Option.bind_eq_some_iff, Option.pure_def,
      Option.some.injEq] at h1
    obtain ⟨_, _, s2, h2, rfl⟩ := h1
    exact (settle_sameTok h2 : s2.sameTok = s.sameTok)
  case setPct c p =>
    simp only [noOut, Option.map_eq_some_iff, Prod.mk.injEq] at h
    obtain ⟨s1, h1, rfl, _⟩ := h
    simp only [setPct, Option.bind_eq_bind, Option.bind_eq_some_iff, Option.pure_def,
      Option.some.injEq] at h1
    obtain ⟨_, _, _, _, s2, h2, rfl⟩ := h1
    exact (settle_sameTok h2 : s2.sameTok = s.sameTok)
  case setFactors c f =>
    simp only [noOut, Option.map_eq_some_iff, Prod.mk.injEq] at h
    obtain ⟨s1, h1, rfl, _⟩ := h
    simp only [setFactors, Option.bind_eq_bind, Option.bind_eq_some_iff, Option.pure_def] at h1
    obtain ⟨_, _, _, _, _, _, W, _, h1⟩ := h1
    split at h1
    · simp only [Option.bind_eq_some_iff, Option.some.injEq] at h1
      obtain ⟨_, _, rfl⟩ := h1
      rfl
    · simp only [Option.some.injEq] at h1
      subst h1
      rfl
  case collect c =>
    simp only [noOut, Option.map_eq_some_iff, Prod.mk.injEq] at h
    obtain ⟨s1, h1, rfl, _⟩ := h
    simp only [collectUndistributed, Option.bind_eq_bind, Option.bind_eq_some_iff, Option.pure_def,
      req_eq_some] at h1
    obtain ⟨_, _, W, _, _, _, h1⟩ := h1
    split at h1 <;> simp only [Option.some.injEq] at h1 <;> subst h1 <;> rfl
  case pause c =>
    simp only [noOut, Option.map_eq_some_iff, Prod.mk.injEq] at h
    obtain ⟨s1, h1, rfl, _⟩ := h
    simp only [setActive, Option.bind_eq_bind, Option.bind_eq_some_iff, Option.pure_def,
      Option.some.injEq] at h1
    obtain ⟨_, _, rfl⟩ := h1
    rfl
  case resume c =>
    simp only [noOut, Option.map_eq_some_iff, Prod.mk.injEq] at h
    obtain ⟨s1, h1, rfl, _⟩ := h
    simp only [setActive, Option.bind_eq_bind, Option.bind_eq_some_iff, Option.pure_def,
      Option.some.injEq] at h1
    obtain ⟨_, _, rfl⟩ := h1
    rfl
  case setPenalty c p =>
    simp only [noOut, Option.map_eq_some_iff, Prod.mk.injEq] at h
    obtain ⟨s1, h1, rfl, _⟩ := h
    simp only [setPenalty, Option.bind_eq_bind, Option.bind_eq_some_iff, Option.pure_def,
      Option.some.injEq] at h1
    obtain ⟨_, _, _, _, rfl⟩ := h1
    rfl
  case setMinEpochs c n =>
    simp only [noOut, Option.map_eq_some_iff, Prod.mk.injEq] at h
    obtain ⟨s1, h1, rfl, _⟩ := h
    simp only [setMinEpochs, Option.bind_eq_bind, Option.bind_eq_some_iff, Option.pure_def,
      Option.some.injEq] at h1
    obtain ⟨_, _, _, _, rfl⟩ := h1
    rfl
  case hubWhitelist u a =>
    split at h
    · cases h
    · simp only [Option.some.injEq, Prod.mk.injEq] at h; obtain ⟨rfl, _⟩ := h; rfl
  case hubRemove u a =>
    split at h
    · simp only [Option.some.injEq, Prod.mk.injEq] at h; obtain ⟨rfl, _⟩ := h; rfl
    · cases h
  case hubBlacklist a =>
    simp only [Option.some.injEq, Prod.mk.injEq] at h; obtain ⟨rfl, _⟩ := h; rfl
  case scWhitelist a =>
    split at h
    · cases h
    · simp only [Option.some.injEq, Prod.mk.injEq] at h; obtain ⟨rfl, _⟩ := h; rfl
  case scUnwhitelist a =>
    split at h
    · simp only [Option.some.injEq, Prod.mk.injEq] at h; obtain ⟨rfl, _⟩ := h; rfl
    · cases h
  case advance b e =>
    split at h
    · simp only [Option.some.injEq, Prod.mk.injEq] at h; obtain ⟨rfl, _⟩ := h; rfl
    · cases h
  case bad => cases h

theorem run_sameTok (ops : List Op) (s : St) : (run s ops).sameTok = s.sameTok := by
  induction ops generalizing s with
  | nil => rfl
  | cons op rest ih =>
    simp only [run, List.foldl_cons]
    cases hs : step s op with
    | none => exact ih s
    | some r => exact (ih r.1).trans (step_sameTok (show step s op = some (r.1, r.2) from hs))


end Mx.Farm
