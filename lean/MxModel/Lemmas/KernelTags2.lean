/-
  Variant indices of further Rust enums the translator reads as numbers (session 4: `match`, enum
  values as operands), as functions on the models' inductive types.  Used only to STATE the
  Props/K*.lean theorems.  (`Lemmas/KernelTags.lean` has the governance proposal status.)
-/
import MxModel.Core.Pair
import MxModel.Core.Governance

namespace Mx.Pair

/-- index of the `pausable::State` variant (`Inactive, Active, PartialActive`) -/
def Status.tag : Status → Nat
  | .inactive => 0
  | .active => 1
  | .partialActive => 2

/-- index of the `SwapTokensOrder` variant (`PoolOrder, ReverseOrder`) -/
def Dir.tag : Dir → Nat
  | .ab => 0
  | .ba => 1

theorem Status.tag_injective {a b : Status} (h : a.tag = b.tag) : a = b := by
  cases a <;> cases b <;> first | rfl | (simp [Status.tag] at h)

end Mx.Pair

namespace Mx

/-- tag of an `Option` read as the pair (tag, payload): `None` = 0, `Some _` = 1 -/
def optTag {α : Type} : Option α → Nat
  | none => 0
  | some _ => 1

/-- payload of an `Option Nat` read as the pair (tag, payload) (anything for `None`) -/
def optVal : Option Nat → Nat
  | none => 0
  | some x => x

end Mx

namespace Mx.Gov

/-- index of the `VoteType` variant (`UpVote, DownVote, DownVetoVote, AbstainVote`) -/
def Vote.tag : Vote → Nat
  | .up => 0
  | .down => 1
  | .veto => 2
  | .abstain => 3

end Mx.Gov
