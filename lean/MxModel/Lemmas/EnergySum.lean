/-
  The two sums of C08 — Σ amount·(unlock − now) and Σ amount over the nonces of one balance row —
  and how every primitive of energy.rs moves an entry that tracks them.
-/
import MxModel.Core.Energy
import Mathlib.Tactic.Linarith
import Mathlib.Tactic.Ring

namespace Mx.Energy

/-- Σ_{i} f(k+i) over the nonces `k, k+1, …` whose unlock epochs are listed -/
def sumT (f : Nat → Nat) : Nat → List Nat → Nat
  | _, [] => 0
  | k, _ :: es => f k + sumT f (k + 1) es

/-- Σ_{i} f(k+i)·(unlock_i − now), in `Int` (expired tokens count negatively) -/
def sumE (f : Nat → Nat) (now : Nat) : Nat → List Nat → Int
  | _, [] => 0
  | k, e :: es => (f k : Int) * ((e : Int) - (now : Int)) + sumE f now (k + 1) es

theorem upd_same (f : Nat → Nat) (k v : Nat) : upd f k v k = v := by simp [upd]
theorem upd_other (f : Nat → Nat) {k x : Nat} (v : Nat) (h : x ≠ k) : upd f k v x = f x := by
  simp [upd, h]

theorem sumT_upd_out (f : Nat → Nat) (n v k : Nat) (ns : List Nat) (h : n < k) :
    sumT (upd f n v) k ns = sumT f k ns := by
  induction ns generalizing k with
  | nil => rfl
  | cons e es ih =>
    simp only [sumT]
    rw [upd_other f v (by omega), ih (k + 1) (by omega)]

theorem sumE_upd_out (f : Nat → Nat) (now n v k : Nat) (ns : List Nat) (h : n < k) :
    sumE (upd f n v) now k ns = sumE f now k ns := by
  induction ns generalizing k with
  | nil => rfl
  | cons e es ih =>
    simp only [sumE]
    rw [upd_other f v (by omega), ih (k + 1) (by omega)]

theorem sumT_upd_in (f : Nat → Nat) (n v k e : Nat) (ns : List Nat) (hk : k ≤ n)
    (h : ns[n - k]? = some e) : sumT (upd f n v) k ns + f n = sumT f k ns + v := by
  induction ns generalizing k with
  | nil => simp at h
  | cons x xs ih =>
    simp only [sumT]
    rcases Nat.eq_or_lt_of_le hk with heq | hlt
    · subst heq
      rw [upd_same, sumT_upd_out f k v (k + 1) xs (by omega)]
      omega
    · rw [upd_other f v (by omega)]
      have h' : xs[n - (k + 1)]? = some e := by
        have : n - k = (n - (k + 1)) + 1 := by omega
        rw [this] at h
        simpa using h
      have := ih (k + 1) (by omega) h'
      omega

theorem sumE_upd_in (f : Nat → Nat) (now n v k e : Nat) (ns : List Nat) (hk : k ≤ n)
    (h : ns[n - k]? = some e) :
    sumE (upd f n v) now k ns = sumE f now k ns + ((v : Int) - (f n : Int)) * ((e : Int) - (now : Int)) := by
  induction ns generalizing k with
  | nil => simp at h
  | cons x xs ih =>
    simp only [sumE]
    rcases Nat.eq_or_lt_of_le hk with heq | hlt
    · subst heq
      rw [upd_same, sumE_upd_out f now k v (k + 1) xs (by omega)]
      have : x = e := by simpa using h
      subst this
      ring
    · rw [upd_other f v (by omega)]
      have h' : xs[n - (k + 1)]? = some e := by
        have : n - k = (n - (k + 1)) + 1 := by omega
        rw [this] at h
        simpa using h
      rw [ih (k + 1) (by omega) h']
      ring

theorem sumT_append (f : Nat → Nat) (k e : Nat) (ns : List Nat) :
    sumT f k (ns ++ [e]) = sumT f k ns + f (k + ns.length) := by
  induction ns generalizing k with
  | nil => simp [sumT]
  | cons x xs ih =>
    simp only [List.cons_append, sumT, ih (k + 1), List.length_cons]
    have : k + 1 + xs.length = k + (xs.length + 1) := by omega
    rw [this]; omega

theorem sumE_append (f : Nat → Nat) (now k e : Nat) (ns : List Nat) :
    sumE f now k (ns ++ [e]) =
      sumE f now k ns + (f (k + ns.length) : Int) * ((e : Int) - (now : Int)) := by
  induction ns generalizing k with
  | nil => simp [sumE]
  | cons x xs ih =>
    simp only [List.cons_append, sumE, ih (k + 1), List.length_cons]
    have : k + 1 + xs.length = k + (xs.length + 1) := by omega
    rw [this]; ring

/-- linear decay: moving `now` forward by `d` lowers the energy sum by `d·Σ amount` -/
theorem sumE_shift (f : Nat → Nat) (now d k : Nat) (ns : List Nat) :
    sumE f (now + d) k ns = sumE f now k ns - (d : Int) * (sumT f k ns : Int) := by
  induction ns generalizing k with
  | nil => simp [sumE, sumT]
  | cons x xs ih =>
    simp only [sumE, sumT, ih (k + 1)]
    push_cast
    ring

/-! ### an entry that tracks a balance row -/

/-- `e` (already depleted to `now`) is exactly the pair of sums of the row `f` -/
def Tracks (e : Entry) (f : Nat → Nat) (ns : List Nat) (now : Nat) : Prop :=
  e.E = sumE f now 1 ns ∧ e.T = sumT f 1 ns ∧ e.last = now

theorem cast_mul_sub (amt a b : Nat) (h : b ≤ a) :
    ((amt * (a - b) : Nat) : Int) = (amt : Int) * ((a : Int) - (b : Int)) := by
  obtain ⟨d, rfl⟩ := Nat.exists_eq_add_of_le h
  have : b + d - b = d := by omega
  rw [this]
  push_cast
  ring

/-- `deplete_linear`: depleting a tracking entry to a later epoch keeps it tracking -/
theorem Tracks.deplete {e : Entry} {f : Nat → Nat} {ns : List Nat} {now now' : Nat}
    (h : Tracks e f ns now) (hle : now ≤ now') : Tracks (e.deplete now') f ns now' := by
  obtain ⟨hE, hT, hl⟩ := h
  obtain ⟨d, rfl⟩ := Nat.exists_eq_add_of_le hle
  unfold Entry.deplete
  split
  · rename_i heq
    have : d = 0 := by omega
    subst this
    exact ⟨hE, hT, hl⟩
  · rename_i hne
    refine ⟨?_, ?_, rfl⟩
    · rw [sumE_shift]
      split
      · rename_i hpos
        simp only [Entry.subtract, hl]
        have : ¬ now + d ≤ now := by omega
        simp only [this, if_false]
        rw [cast_mul_sub e.T (now + d) now (by omega), hE, hT]
        push_cast
        ring
      · rename_i hz
        have : e.T = 0 := by omega
        simp only
        rw [hE, ← hT, this]
        simp
    · split <;> simp [Entry.subtract, hT] <;> split <;> simp [hT]

/-- `n` is a valid nonce whose unlock epoch is `u` -/
def IsNonce (ns : List Nat) (n u : Nat) : Prop := 1 ≤ n ∧ ns[n - 1]? = some u

theorem Tracks.addAfterLock {e : Entry} {f : Nat → Nat} {ns : List Nat} {now n u : Nat}
    (h : Tracks e f ns now) (hn : IsNonce ns n u) (hu : now ≤ u) (amt : Nat) :
    Tracks (e.addAfterLock amt u now) (upd f n (f n + amt)) ns now := by
  obtain ⟨hE, hT, hl⟩ := h
  obtain ⟨h1, hget⟩ := hn
  refine ⟨?_, ?_, ?_⟩
  · rw [sumE_upd_in f now n (f n + amt) 1 u ns h1 hget, ← hE]
    simp only [Entry.addAfterLock, Entry.add]
    split
    · have : u = now := by omega
      subst this
      simp
    · rw [cast_mul_sub amt u now hu]
      push_cast
      ring
  · have := sumT_upd_in f n (f n + amt) 1 u ns h1 hget
    simp only [Entry.addAfterLock]
    omega
  · simp only [Entry.addAfterLock, Entry.add]
    split <;> exact hl

theorem Tracks.addExpired {e : Entry} {f : Nat → Nat} {ns : List Nat} {now n u : Nat}
    (h : Tracks e f ns now) (hn : IsNonce ns n u) (hu : u ≤ now) (amt : Nat) :
    Tracks (e.addExpired amt u now) (upd f n (f n + amt)) ns now := by
  obtain ⟨hE, hT, hl⟩ := h
  obtain ⟨h1, hget⟩ := hn
  refine ⟨?_, ?_, hl⟩
  · rw [sumE_upd_in f now n (f n + amt) 1 u ns h1 hget, ← hE]
    simp only [Entry.addExpired]
    rw [cast_mul_sub amt now u hu]
    push_cast
    ring
  · have := sumT_upd_in f n (f n + amt) 1 u ns h1 hget
    simp only [Entry.addExpired]
    omega

theorem Tracks.restoreCancel {e : Entry} {f : Nat → Nat} {ns : List Nat} {now n u : Nat}
    (h : Tracks e f ns now) (hn : IsNonce ns n u) (amt : Nat) :
    Tracks (e.restoreCancel amt u now) (upd f n (f n + amt)) ns now := by
  unfold Entry.restoreCancel
  split
  · rename_i hle; exact h.addAfterLock hn hle amt
  · rename_i hgt; exact h.addExpired hn (by omega) amt

theorem Tracks.addDest {e : Entry} {f : Nat → Nat} {ns : List Nat} {now n u : Nat}
    (h : Tracks e f ns now) (hn : IsNonce ns n u) (amt : Nat) :
    Tracks (e.addDest amt u now) (upd f n (f n + amt)) ns now := by
  unfold Entry.addDest
  split
  · rename_i hlt; exact h.addAfterLock hn (by omega) amt
  · rename_i hge; exact h.addExpired hn (by omega) amt

theorem Tracks.refund {e e' : Entry} {f : Nat → Nat} {ns : List Nat} {now n u amt : Nat}
    (h : Tracks e f ns now) (hn : IsNonce ns n u) (hu : u ≤ now) (ha : amt ≤ f n)
    (hr : e.refundAfterUnlock amt u now = some e') :
    Tracks e' (upd f n (f n - amt)) ns now := by
  obtain ⟨hE, hT, hl⟩ := h
  obtain ⟨h1, hget⟩ := hn
  simp only [Entry.refundAfterUnlock, Option.bind_eq_bind, Option.bind_eq_some_iff, sub?_eq_some,
    Option.pure_def, Option.some.injEq] at hr
  obtain ⟨t, ⟨hle, rfl⟩, rfl⟩ := hr
  refine ⟨?_, ?_, ?_⟩
  · rw [sumE_upd_in f now n (f n - amt) 1 u ns h1 hget, ← hE]
    simp only [Entry.add]
    split
    · have : u = now := by omega
      subst this
      simp
    · rw [cast_mul_sub amt now u hu, Int.ofNat_sub ha]
      push_cast
      ring
  · have := sumT_upd_in f n (f n - amt) 1 u ns h1 hget
    simp only []
    omega
  · simp only [Entry.add]
    split <;> exact hl

theorem Tracks.early {e e' : Entry} {f : Nat → Nat} {ns : List Nat} {now n u amt : Nat}
    (h : Tracks e f ns now) (hn : IsNonce ns n u) (hu : now ≤ u) (ha : amt ≤ f n)
    (hr : e.depleteAfterEarly amt u now = some e') :
    Tracks e' (upd f n (f n - amt)) ns now := by
  obtain ⟨hE, hT, hl⟩ := h
  obtain ⟨h1, hget⟩ := hn
  simp only [Entry.depleteAfterEarly, Option.bind_eq_bind, Option.bind_eq_some_iff, sub?_eq_some,
    Option.pure_def, Option.some.injEq] at hr
  obtain ⟨t, ⟨hle, rfl⟩, rfl⟩ := hr
  refine ⟨?_, ?_, ?_⟩
  · rw [sumE_upd_in f now n (f n - amt) 1 u ns h1 hget, ← hE]
    simp only [Entry.subtract]
    split
    · have : u = now := by omega
      subst this
      simp
    · rw [cast_mul_sub amt u now hu, Int.ofNat_sub ha]
      push_cast
      ring
  · have := sumT_upd_in f n (f n - amt) 1 u ns h1 hget
    simp only []
    omega
  · simp only [Entry.subtract]
    split <;> exact hl

theorem Tracks.unlockAny {e e' : Entry} {f : Nat → Nat} {ns : List Nat} {now n u amt : Nat}
    (h : Tracks e f ns now) (hn : IsNonce ns n u) (ha : amt ≤ f n)
    (hr : e.afterUnlockAny amt u now = some e') :
    Tracks e' (upd f n (f n - amt)) ns now := by
  unfold Entry.afterUnlockAny at hr
  split at hr
  · rename_i hlt; exact h.refund hn (by omega) ha hr
  · rename_i hge; exact h.early hn (by omega) ha hr

/-- a new nonce on which the row holds nothing changes neither sum -/
theorem Tracks.append {e : Entry} {f : Nat → Nat} {ns : List Nat} {now : Nat}
    (h : Tracks e f ns now) (u : Nat) (h0 : f (ns.length + 1) = 0) :
    Tracks e f (ns ++ [u]) now := by
  obtain ⟨hE, hT, hl⟩ := h
  refine ⟨?_, ?_, hl⟩
  · rw [sumE_append, Nat.add_comm 1, h0, hE]; simp
  · rw [sumT_append, Nat.add_comm 1, h0, hT]; simp

end Mx.Energy
