/-
  C08 with an explicit attribution ledger — attribution versus holding.

  * `div_effect`: the divergence `attributed − held` of an ordinary account changes only by the
    holder's row change, booked `+` on the energy address and `−` on the holder; so it moves only
    when the two differ.
  * `Agree`: attribution = holding on every ordinary account, nothing attributed to the escrow
    contracts — preserved by every operation whose energy address is its holder (`Op.Plain`).
  * `Cons`: nonce by nonce, the total attributed to all accounts = the total held outside the four
    escrow contracts — preserved by EVERY operation (escrowed tokens are attributed to nobody).
-/
import MxModel.Lemmas.EnergyAttrStep

namespace Mx.Energy

theorem div_effect {s s' : St} {A : Nat → Nat → Int} {h ea : Nat} (eff : Effect s s' h ea)
    (a n : Nat) (ha : ¬ IsEsc a) :
    (if a = ea then A a n + dRow s s' h n else A a n) - (s'.bal a n : Int) =
      (A a n - (s.bal a n : Int)) + (if a = ea then dRow s s' h n else 0)
        - (if a = h then dRow s s' h n else 0) := by
  by_cases hah : a = h
  · subst hah
    have hd : dRow s s' a n = (s'.bal a n : Int) - (s.bal a n : Int) := rfl
    by_cases hae : a = ea
    · subst hae; simp only [if_true]; rw [hd]; ring
    · simp only [if_neg hae, if_true]; rw [hd]; ring
  · rw [eff.other a hah ha]
    by_cases hae : a = ea
    · subst hae; simp only [if_true, if_neg hah]; ring
    · simp only [if_neg hae, if_neg hah]; ring

/-- attribution = holding: every ordinary account is attributed exactly what it holds and the
    escrow contracts are attributed nothing -/
structure Agree (s : St) (A : Nat → Nat → Int) : Prop where
  user : ∀ a, ¬ IsEsc a → ∀ n, A a n = (s.bal a n : Int)
  esc : ∀ a, IsEsc a → ∀ n, A a n = 0

/-- the energy address of the operation is the account whose tokens move — true of every
    operation except `mergeTokens` with a foreign original caller and `lockVirtual` with an energy
    address other than the destination (both reserved to whitelisted contracts) -/
def Op.Plain (op : Op) : Prop :=
  match op.parties with
  | some (h, ea) => ea = h
  | none => True

instance (op : Op) : Decidable op.Plain := by
  unfold Op.Plain; split <;> exact inferInstance

theorem agree_effect {s s' : St} {A : Nat → Nat → Int} {h : Nat} (hg : Agree s A)
    (eff : Effect s s' h h) (hh : ¬ IsEsc h) :
    Agree s' (fun a n => if a = h then A a n + dRow s s' h n else A a n) := by
  refine ⟨?_, ?_⟩
  · intro a ha n
    have := div_effect (A := A) eff a n ha
    rw [hg.user a ha n] at this ⊢
    by_cases hah : a = h
    · simp only [hah, if_true] at this ⊢; linarith
    · simp only [hah, if_false] at this ⊢; linarith
  · intro a ha n
    have : a ≠ h := fun hx => hh (hx ▸ ha)
    simp only [this, if_false]
    exact hg.esc a ha n

theorem agree_quiet {s s' : St} {A : Nat → Nat → Int} (hg : Agree s A) (q : Quiet s s') :
    Agree s' A :=
  ⟨fun a ha n => by rw [q.other a ha]; exact hg.user a ha n, hg.esc⟩

theorem step_agree {s s' : St} {A : Nat → Nat → Int} {op : Op} {o : Out} (hg : Agree s A)
    (hw : op.NoEsc) (hp : op.Plain) (h : step s op = some (s', o)) :
    Agree s' (attrStep A s s' op) := by
  rcases step_kind hw h with ⟨hh, ea, hpar, eff⟩ | ⟨hpar, q⟩ | ⟨e, hpar, hle, rfl⟩
  · simp only [Op.Plain, hpar] at hp
    simp only [Op.NoEsc, hpar] at hw
    subst hp
    simp only [attrStep, hpar]; exact agree_effect hg eff hw
  · simp only [attrStep, hpar]; exact agree_quiet hg q
  · simp only [attrStep, hpar]; exact ⟨hg.user, hg.esc⟩

theorem init_agree (c : Cfg) : Agree (init c) (fun _ _ => 0) :=
  ⟨fun _ _ _ => rfl, fun _ _ _ => rfl⟩

theorem runA_agree (ops : List Op) {s : St} {A : Nat → Nat → Int} (hg : Agree s A)
    (hw : ∀ op ∈ ops, op.NoEsc) (hp : ∀ op ∈ ops, op.Plain) :
    Agree (runA s A ops).1 (runA s A ops).2 := by
  induction ops generalizing s A with
  | nil => exact hg
  | cons op ops ih =>
    have hw' : ∀ o ∈ ops, o.NoEsc := fun o ho => hw o (by simp [ho])
    have hp' : ∀ o ∈ ops, o.Plain := fun o ho => hp o (by simp [ho])
    simp only [runA]
    cases hst : step s op with
    | none => exact ih hg hw' hp'
    | some r =>
      obtain ⟨s1, o⟩ := r
      exact ih (step_agree hg (hw op (by simp)) (hp op (by simp)) hst) hw' hp'

/-! ### sums over the accounts `0 … N−1` -/

def sumAcc (f : Nat → Int) : Nat → Int
  | 0 => 0
  | N + 1 => sumAcc f N + f N

theorem sumAcc_congr {f f' : Nat → Int} (N : Nat) (h : ∀ a, a < N → f' a = f a) :
    sumAcc f' N = sumAcc f N := by
  induction N with
  | zero => rfl
  | succ N ih =>
    simp only [sumAcc]
    rw [ih (fun a ha => h a (by omega)), h N (by omega)]

theorem sumAcc_point {f f' : Nat → Int} {k N : Nat} {d : Int} (hk : k < N)
    (hat : f' k = f k + d) (hoth : ∀ a, a ≠ k → f' a = f a) :
    sumAcc f' N = sumAcc f N + d := by
  induction N with
  | zero => omega
  | succ N ih =>
    simp only [sumAcc]
    rcases Nat.eq_or_lt_of_le (Nat.le_of_lt_succ hk) with heq | hlt
    · subst heq
      rw [sumAcc_congr k (fun a ha => hoth a (by omega)), hat]; ring
    · rw [ih hlt, hoth N (by omega)]; ring

/-- nonce `n`: total attributed (over the accounts below `N`) = total held outside escrow -/
def Cons (s : St) (A : Nat → Nat → Int) (N n : Nat) : Prop :=
  sumAcc (fun a => A a n) N = sumAcc (fun a => if IsEsc a then 0 else (s.bal a n : Int)) N

/-- every account an operation names as holder / energy address is below `N` -/
def Op.Below (N : Nat) (op : Op) : Prop :=
  match op.parties with
  | some (h, ea) => h < N ∧ ea < N
  | none => True

instance (N : Nat) (op : Op) : Decidable (op.Below N) := by
  unfold Op.Below; split <;> exact inferInstance

theorem cons_effect {s s' : St} {A : Nat → Nat → Int} {h ea N n : Nat} (hc : Cons s A N n)
    (eff : Effect s s' h ea) (hh : ¬ IsEsc h) (hN : h < N) (heN : ea < N) :
    Cons s' (fun a n => if a = ea then A a n + dRow s s' h n else A a n) N n := by
  unfold Cons at hc ⊢
  have l : sumAcc (fun a => if a = ea then A a n + dRow s s' h n else A a n) N =
      sumAcc (fun a => A a n) N + dRow s s' h n :=
    sumAcc_point heN (by simp) (fun a ha => by simp [ha])
  have r : sumAcc (fun a => if IsEsc a then 0 else (s'.bal a n : Int)) N =
      sumAcc (fun a => if IsEsc a then 0 else (s.bal a n : Int)) N + dRow s s' h n := by
    refine sumAcc_point hN ?_ ?_
    · simp only [hh, if_false, dRow]; ring
    · intro a ha
      by_cases hae : IsEsc a
      · simp [hae]
      · simp only [hae, if_false]; rw [eff.other a ha hae]
  rw [l, r, hc]

theorem cons_quiet {s s' : St} {A : Nat → Nat → Int} {N n : Nat} (hc : Cons s A N n)
    (q : Quiet s s') : Cons s' A N n := by
  unfold Cons at hc ⊢
  rw [hc]
  refine (sumAcc_congr N (fun a _ => ?_)).symm
  by_cases hae : IsEsc a
  · simp [hae]
  · simp only [hae, if_false]; rw [q.other a hae]

theorem step_cons {s s' : St} {A : Nat → Nat → Int} {op : Op} {o : Out} {N n : Nat}
    (hc : Cons s A N n) (hw : op.NoEsc) (hb : op.Below N) (h : step s op = some (s', o)) :
    Cons s' (attrStep A s s' op) N n := by
  rcases step_kind hw h with ⟨hh, ea, hpar, eff⟩ | ⟨hpar, q⟩ | ⟨e, hpar, hle, rfl⟩
  · simp only [Op.Below, hpar] at hb
    simp only [Op.NoEsc, hpar] at hw
    simp only [attrStep, hpar]; exact cons_effect hc eff hw hb.1 hb.2
  · simp only [attrStep, hpar]; exact cons_quiet hc q
  · simp only [attrStep, hpar]; exact hc

theorem init_cons (c : Cfg) (N n : Nat) : Cons (init c) (fun _ _ => 0) N n := by
  unfold Cons
  refine sumAcc_congr N (fun a _ => ?_)
  by_cases hae : IsEsc a
  · simp [hae]
  · simp [hae, init]

theorem runA_cons (ops : List Op) {s : St} {A : Nat → Nat → Int} {N n : Nat} (hc : Cons s A N n)
    (hw : ∀ op ∈ ops, op.NoEsc) (hb : ∀ op ∈ ops, op.Below N) :
    Cons (runA s A ops).1 (runA s A ops).2 N n := by
  induction ops generalizing s A with
  | nil => exact hc
  | cons op ops ih =>
    have hw' : ∀ o ∈ ops, o.NoEsc := fun o ho => hw o (by simp [ho])
    have hb' : ∀ o ∈ ops, o.Below N := fun o ho => hb o (by simp [ho])
    simp only [runA]
    cases hst : step s op with
    | none => exact ih hc hw' hb'
    | some r =>
      obtain ⟨s1, o⟩ := r
      exact ih (step_cons hc (hw op (by simp)) (hb op (by simp)) hst) hw' hb'

/-- the old scope hypothesis implies the two new ones -/
theorem WF_noEsc {op : Op} (h : op.WF) : op.NoEsc := by
  have hS : SCBASE = 200 := rfl
  have u : ∀ x, x < SCBASE → ¬ IsEsc x := by
    intro x hx he
    have f1 : FACTORY = 200 := rfl
    have f2 : UNSTAKE = 201 := rfl
    have f3 : TRANSFER = 202 := rfl
    have f4 : WRAPPER = 203 := rfl
    rcases he with h1 | h1 | h1 | h1 <;> omega
  cases op <;> simp only [Op.NoEsc, Op.parties] <;> simp only [Op.WF] at h
  case lock c amt ep d => split <;> [exact u _ h.1; exact u _ h.2]
  case extend => exact u _ h
  case unlock => exact u _ h
  case merge => exact u _ h.1
  case unlockEarly => exact u _ h
  case reduce => exact u _ h
  case lockVirtual => exact u _ h.1
  case cancel => exact u _ h
  case lockFunds => exact u _ h
  case withdraw => exact u _ h
  case cancelTransfer => exact u _ h
  case wrap => exact u _ h
  case unwrap => exact u _ h

theorem WF_plain {op : Op} (h : op.WF) : op.Plain := by
  cases op <;> simp only [Op.Plain, Op.parties] <;> simp only [Op.WF] at h
  case merge c orig ps =>
    rcases h.2 with h0 | h0
    · simp [h0]
    · simp [h0]
  case lockVirtual => exact h.2

/-- for an operation whose energy address is its holder the divergence `attributed − held` of
    every ordinary account stays what it was -/
theorem step_div {s s' : St} {A : Nat → Nat → Int} {op : Op} {o : Out} (hw : op.NoEsc)
    (hp : op.Plain) (h : step s op = some (s', o)) (a n : Nat) (ha : ¬ IsEsc a) :
    attrStep A s s' op a n - (s'.bal a n : Int) = A a n - (s.bal a n : Int) := by
  rcases step_kind hw h with ⟨hh, ea, hpar, eff⟩ | ⟨hpar, q⟩ | ⟨e, hpar, hle, rfl⟩
  · simp only [Op.Plain, hpar] at hp
    subst hp
    simp only [attrStep, hpar]
    rw [div_effect eff a n ha]; ring
  · simp only [attrStep, hpar]; rw [q.other a ha]
  · simp only [attrStep, hpar]

/-- precisely which operations can separate attribution from holding -/
theorem plain_iff (op : Op) :
    op.Plain ↔ (match op with
      | .merge c orig _ => orig = 0 ∨ orig = c
      | .lockVirtual _ _ _ d ea => ea = d
      | _ => True) := by
  cases op <;> simp only [Op.Plain, Op.parties]
  case merge c orig ps =>
    constructor
    · intro h
      by_cases h0 : orig = 0
      · exact Or.inl h0
      · simp only [h0, if_false] at h; exact Or.inr h
    · rintro (h0 | h0) <;> simp [h0]

/-! ### exchanging the sum over accounts with the sums over nonces -/

theorem sumAcc_zero (N : Nat) : sumAcc (fun _ => 0) N = 0 := by
  induction N with
  | zero => rfl
  | succ N ih => simp [sumAcc, ih]

theorem sumAcc_add (f g : Nat → Int) (N : Nat) :
    sumAcc (fun a => f a + g a) N = sumAcc f N + sumAcc g N := by
  induction N with
  | zero => simp [sumAcc]
  | succ N ih => simp only [sumAcc, ih]; ring

theorem sumAcc_mul (f : Nat → Int) (c : Int) (N : Nat) :
    sumAcc (fun a => f a * c) N = sumAcc f N * c := by
  induction N with
  | zero => simp [sumAcc]
  | succ N ih => simp only [sumAcc, ih]; ring

theorem sumAcc_sumTZ (g : Nat → Nat → Int) (N k : Nat) (ns : List Nat) :
    sumAcc (fun a => sumTZ (g a) k ns) N = sumTZ (fun n => sumAcc (fun a => g a n) N) k ns := by
  induction ns generalizing k with
  | nil => simp only [sumTZ]; exact sumAcc_zero N
  | cons x xs ih => simp only [sumTZ]; rw [sumAcc_add, ih (k + 1)]

theorem sumAcc_sumEZ (g : Nat → Nat → Int) (now N k : Nat) (ns : List Nat) :
    sumAcc (fun a => sumEZ (g a) now k ns) N =
      sumEZ (fun n => sumAcc (fun a => g a n) N) now k ns := by
  induction ns generalizing k with
  | nil => simp only [sumEZ]; exact sumAcc_zero N
  | cons x xs ih => simp only [sumEZ]; rw [sumAcc_add, ih (k + 1), sumAcc_mul]

/-- the attribution ledger after a history from a freshly deployed world -/
def attr (c : Cfg) (ops : List Op) : Nat → Nat → Int := (runA (init c) (fun _ _ => 0) ops).2

theorem runA_init_fst (c : Cfg) (ops : List Op) :
    (runA (init c) (fun _ _ => 0) ops).1 = run (init c) ops := runA_fst ops _ _

end Mx.Energy
