/-
  Farm (dex/farm, farm-with-locked-rewards): the PAID LOG of boosted rewards as a function of the
  history — one entry `(user, week, amount)` per week pool a successful operation paid out of
  (`amount` = growth of the ghost `paidW week`), the user being the operation's claim user
  (original caller / recorded owner / `claimBoostedRewards` user).

  Per operation (`step_eff`): the boosted ledger moves only for weeks `W−4 ≤ w < W` not before the
  claim user's stored progress, and the claim user's progress ends at the current week (or is cleared);
  no other operation moves it.  The log itself and the history-level facts (`paidLog_once_from`,
  `paidLog_sum_from`: no (user, week) twice, `paidW w` = Σ of the log) are in Lemmas/FarmLogRun.lean.
-/
import MxModel.Lemmas.FarmWeekPaid

namespace Mx.Farm

open Mx.Weekly

/-! ### the view -/

/-- the cells the log talks about -/
structure LV where
  progress : Nat → Option ClaimProgress
  paid : Nat → Nat
  epoch : Nat
  fws : Nat

def lv (s : St) : LV := ⟨s.w.progress, s.b.paidW, s.epoch, s.firstWeekStart⟩

theorem lv_of_pmv {s s' : St} (e : pmv s' = pmv s) : lv s' = lv s := by
  have h1 : s'.w.progress = s.w.progress := congrArg PMV.progress e
  have h2 : s'.b.paidW = s.b.paidW := congrArg PMV.paid e
  have h3 : s'.epoch = s.epoch := congrArg PMV.epoch e
  have h4 : s'.firstWeekStart = s.firstWeekStart := congrArg PMV.fws e
  unfold lv; rw [h1, h2, h3, h4]

/-- a progress entry that is absent or at week `W` -/
def SettledAt (o : Option ClaimProgress) (W : Nat) : Prop := ∀ p, o = some p → p.week = W

/-- effect of (a part of) an operation that claims boosted rewards for `u` in week `W` -/
structure OpEff (v v' : LV) (W u : Nat) : Prop where
  epoch : v'.epoch = v.epoch
  fws : v'.fws = v.fws
  /-- the ledger moves only for the last four completed weeks, not before `u`'s stored progress -/
  paid : ∀ w, v'.paid w ≠ v.paid w → W ≤ w + 4 ∧ w < W ∧ ∃ p, v.progress u = some p ∧ p.week ≤ w
  mono : ∀ w, v.paid w ≤ v'.paid w
  /-- `u`'s progress entry is replaced by one at week `W` (or cleared); nobody else's moves -/
  prog : ∃ o, SettledAt o W ∧ v'.progress = upd v.progress u o

theorem upd_upd {α : Type} (f : Nat → α) (k : Nat) (a b : α) : upd (upd f k a) k b = upd f k b := by
  funext x; unfold upd; split <;> rfl

/-- followed by a part that leaves the view alone -/
theorem OpEff.frame {v v1 v2 : LV} {W u : Nat} (h : OpEff v v1 W u) (e : v2 = v1) : OpEff v v2 W u := e ▸ h

/-- preceded by a part that leaves the view alone -/
theorem OpEff.frame_left {v v0 v1 : LV} {W u : Nat} (h : OpEff v0 v1 W u) (e : v0 = v) : OpEff v v1 W u := e ▸ h

/-- followed by a non-claiming touch of the same user (`update_energy_and_progress`, `clear_user_energy`) -/
theorem OpEff.move {v v1 v2 : LV} {W u : Nat} (h : OpEff v v1 W u) {o : Option ClaimProgress}
    (ho : SettledAt o W) (hp : v2.progress = upd v1.progress u o) (hpaid : v2.paid = v1.paid)
    (he : v2.epoch = v1.epoch) (hf : v2.fws = v1.fws) : OpEff v v2 W u := by
  obtain ⟨o1, _, h1⟩ := h.prog
  refine ⟨he.trans h.epoch, hf.trans h.fws, by rw [hpaid]; exact h.paid, by rw [hpaid]; exact h.mono,
    o, ho, ?_⟩
  rw [hp, h1, upd_upd]

/-- a touch alone (no payment) -/
theorem OpEff.of_move {v v2 : LV} {W u : Nat} {o : Option ClaimProgress}
    (ho : SettledAt o W) (hp : v2.progress = upd v.progress u o) (hpaid : v2.paid = v.paid)
    (he : v2.epoch = v.epoch) (hf : v2.fws = v.fws) : OpEff v v2 W u :=
  ⟨he, hf, fun w hne => absurd (by rw [hpaid]) hne, fun w => by rw [hpaid], o, ho, hp⟩

theorem newOf_settled (cur : Energy) (W : Nat) : SettledAt (newOf cur W) W := fun _ hp => newOf_week _ hp

theorem week_of_lv {s s' : St} (e : lv s' = lv s) : s'.week = s.week := by
  have h3 : s'.epoch = s.epoch := congrArg LV.epoch e
  have h4 : s'.firstWeekStart = s.firstWeekStart := congrArg LV.fws e
  unfold St.week; rw [h3, h4]

/-! ### the sub-operations -/

theorem updateEnergyAndProgress_lv {s s' : St} {u : Nat} (h : updateEnergyAndProgress s u = some s') :
    ∃ W o, s.week = some W ∧ SettledAt o W ∧ (lv s').progress = upd (lv s).progress u o ∧
      (lv s').paid = (lv s).paid ∧ (lv s').epoch = (lv s).epoch ∧ (lv s').fws = (lv s).fws := by
  simp only [updateEnergyAndProgress, Option.bind_eq_bind, Option.bind_eq_some_iff, Option.pure_def,
    Option.some.injEq] at h
  obtain ⟨W, hW, g, hg, rfl⟩ := h
  obtain ⟨hp, _⟩ := weekly_updateEnergyAndProgress_move hg
  exact ⟨W, _, hW, newOf_settled _ W, hp, rfl, rfl, rfl⟩

theorem updateEnergyForUser_lv {s s' : St} {u : Nat} (h : updateEnergyForUser s u = some s') :
    ∃ W o, s.week = some W ∧ SettledAt o W ∧ (lv s').progress = upd (lv s).progress u o ∧
      (lv s').paid = (lv s).paid ∧ (lv s').epoch = (lv s).epoch ∧ (lv s').fws = (lv s).fws := by
  simp only [updateEnergyForUser, Option.bind_eq_bind, Option.bind_eq_some_iff, Option.pure_def,
    Option.some.injEq] at h
  obtain ⟨W, hW, g, hg, rfl⟩ := h
  have hg2 : Weekly.updateEnergyAndProgress s.w u W (Energy.queried (s.energy u) s.epoch) = some g := by
    unfold Weekly.updateEnergyForUser at hg
    cases hq : s.w.progress u with
    | none =>
      simp only [hq, Option.bind_eq_bind, Option.pure_def, Option.bind_some] at hg
      exact hg
    | some p =>
      simp only [hq, Option.bind_eq_bind, Option.bind_eq_some_iff] at hg
      obtain ⟨_, _, h2⟩ := hg
      exact h2
  obtain ⟨hp, _⟩ := weekly_updateEnergyAndProgress_move hg2
  exact ⟨W, _, hW, newOf_settled _ W, hp, rfl, rfl, rfl⟩

theorem clearUserEnergyIfNeeded_lv {s s' : St} {u : Nat} (h : clearUserEnergyIfNeeded s u = some s') :
    lv s' = lv s ∨ ((lv s').progress = upd (lv s).progress u none ∧
      (lv s').paid = (lv s).paid ∧ (lv s').epoch = (lv s).epoch ∧ (lv s').fws = (lv s).fws) := by
  unfold clearUserEnergyIfNeeded at h
  split at h
  · simp only [Option.some.injEq] at h; subst h; exact Or.inl rfl
  · simp only [Option.bind_eq_bind, Option.bind_eq_some_iff, Option.pure_def, Option.some.injEq] at h
    obtain ⟨W, hW, mem, _, g, hg, rfl⟩ := h
    rcases weekly_clearUserEnergy_move hg with ⟨hp, _⟩ | ⟨hp, _⟩
    · left; unfold lv; rw [hp]
    · right; exact ⟨hp, rfl, rfl, rfl⟩

/-- **the boosted claim**: pays only for weeks `W−4 ≤ w < W` at or after the user's stored progress,
    and moves the user's progress to week `W` (or clears it) -/
theorem claimBoostedYields_eff {s s' : St} {u r : Nat} (h : claimBoostedYields s u = some (s', r)) :
    ∃ W, s.week = some W ∧ OpEff (lv s) (lv s') W u := by
  have h0 := h
  unfold claimBoostedYields at h
  split at h
  · rename_i hc
    obtain ⟨_, hu⟩ := claimBoostedYields_none_spec hc h0
    obtain ⟨W, o, hW, ho, hp, hpaid, he, hf⟩ := updateEnergyAndProgress_lv hu
    exact ⟨W, hW, OpEff.of_move ho hp hpaid he hf⟩
  · simp only [Option.bind_eq_bind, Option.bind_eq_some_iff, Option.pure_def, Option.some.injEq,
      Prod.mk.injEq] at h
    obtain ⟨W, hW, mem, _, ⟨g', c', rl⟩, hx, hs', _⟩ := h
    obtain ⟨hp, _⟩ := weekly_claimMulti_move (boostedRewards_frame _ _) hx
    obtain ⟨g1, a, h1, hle, ha, _, hca, _⟩ := Weekly.claimMulti_spec hx
    obtain ⟨hw1, hw2, hw3⟩ := Weekly.loop_window _ W hle
    have hL := claimLoop_pool _ ha
    subst hs'
    refine ⟨W, hW, rfl, rfl, ?_, ?_, _, newOf_settled _ W, hp⟩
    · intro w hne
      have hne' : a.c.paidW w ≠ s.b.paidW w := by rw [← hca]; exact hne
      have hin : ¬ (w < (Weekly.loopStart (Weekly.startProgress (s.w.progress u)
          (Energy.queried (s.energy u) s.epoch) W) W).week ∨
          (Weekly.loopStart (Weekly.startProgress (s.w.progress u)
          (Energy.queried (s.energy u) s.epoch) W) W).week +
          Weekly.loopLen (Weekly.startProgress (s.w.progress u)
          (Energy.queried (s.energy u) s.epoch) W) W ≤ w) := by
        intro hout
        exact hne' (hL.outside w hout).2.2.2
      cases hst : s.w.progress u with
      | none =>
        exfalso
        rw [hst] at hw1 hw2 hw3 hin
        simp only [Weekly.startProgress] at hw1 hw2 hw3 hin
        omega
      | some p =>
        rw [hst] at hw1 hw2 hw3 hin
        simp only [Weekly.startProgress] at hw1 hw2 hw3 hin
        exact ⟨by omega, by omega, p, hst, by omega⟩
    · intro w
      show s.b.paidW w ≤ c'.paidW w
      rw [hca]
      exact hL.mono w

theorem claimOnlyBoostedPayment_eff {s s' : St} {u r : Nat}
    (h : claimOnlyBoostedPayment s u = some (s', r)) :
    ∃ W, s.week = some W ∧ OpEff (lv s) (lv s') W u := by
  simp only [claimOnlyBoostedPayment, Option.bind_eq_bind, Option.bind_eq_some_iff, Option.pure_def] at h
  obtain ⟨⟨s1, r1⟩, h1, h⟩ := h
  obtain ⟨W, hW, e⟩ := claimBoostedYields_eff h1
  refine ⟨W, hW, ?_⟩
  split at h
  · simp only [Option.some.injEq, Prod.mk.injEq] at h
    obtain ⟨rfl, _⟩ := h; exact e
  · simp only [Option.bind_eq_some_iff, sub?_eq_some, Option.some.injEq, Prod.mk.injEq] at h
    obtain ⟨_, _, rfl, _⟩ := h; exact e

theorem setFarmSupplyWeek_lv {s s' : St} {x : Nat} (h : setFarmSupplyWeek s x = some s') : lv s' = lv s := by
  obtain ⟨_, _, rfl⟩ := setFarmSupplyWeek_spec h; rfl

theorem checkAndUpdate_lv {l : List (Nat × Nat)} {s s' : St} {u : Nat}
    (h : checkAndUpdate s u l = some s') : lv s' = lv s := by
  obtain ⟨_, rfl⟩ := checkAndUpdate_spec l h; rfl

theorem claimTail_eff {s s' : St} {c : Bool} {u b bo : Nat} (h : claimTail s c u b bo = some s') :
    lv s' = lv s ∨ ∃ W o, s.week = some W ∧ SettledAt o W ∧ (lv s').progress = upd (lv s).progress u o ∧
      (lv s').paid = (lv s).paid ∧ (lv s').epoch = (lv s).epoch ∧ (lv s').fws = (lv s).fws := by
  unfold claimTail at h
  split at h
  · simp only [Option.bind_eq_some_iff] at h
    obtain ⟨s1, h1, h2⟩ := h
    obtain ⟨W, o, hW, ho, hp, hpaid, he, hf⟩ := updateEnergyAndProgress_lv h2
    have e1 := lv_of_pmv (compoundMove_pmv h1)
    right
    refine ⟨W, o, by rw [← week_of_lv e1]; exact hW, ho, ?_⟩
    rw [← e1]; exact ⟨hp, hpaid, he, hf⟩
  · exact Or.inl (lv_of_pmv (payReward_pmv h))

theorem OpEff.week {s s' : St} {W u : Nat} (h : OpEff (lv s) (lv s') W u) : s'.week = s.week := by
  have h3 : s'.epoch = s.epoch := h.epoch
  have h4 : s'.firstWeekStart = s.firstWeekStart := h.fws
  unfold St.week; rw [h3, h4]

/-- append a touch whose week is read from the state reached so far -/
theorem OpEff.move' {s s1 s2 : St} {W W2 u : Nat} (h : OpEff (lv s) (lv s1) W u) (hW : s.week = some W)
    (hW2 : s1.week = some W2) {o : Option ClaimProgress} (ho : SettledAt o W2)
    (hp : (lv s2).progress = upd (lv s1).progress u o) (hpaid : (lv s2).paid = (lv s1).paid)
    (he : (lv s2).epoch = (lv s1).epoch) (hf : (lv s2).fws = (lv s1).fws) : OpEff (lv s) (lv s2) W u := by
  have : W2 = W := by
    rw [h.week, hW] at hW2
    simp only [Option.some.injEq] at hW2
    exact hW2.symm
  subst this
  exact h.move ho hp hpaid he hf

/-! ### the endpoints -/

theorem enterCore_eff {s s' : St} {caller orig tokenTo amt : Nat} {extra : List (Nat × Nat)} {o : Out}
    (h : enterCore s caller orig tokenTo amt extra = some (s', o)) :
    ∃ W, s.week = some W ∧ OpEff (lv s) (lv s') W orig := by
  simp only [enterCore, Option.bind_eq_bind, Option.bind_eq_some_iff, req_eq_some, Option.pure_def,
    Option.some.injEq, Prod.mk.injEq] at h
  obtain ⟨_, _, s0, h0, ⟨s1, boosted⟩, h1, s1', h1', _, hact, s2, h2, ⟨s4, c1⟩, h4, merged, hm,
    ⟨s5, n⟩, h5, s6, h6, s8, h8, s9, h9, rfl, rfl⟩ := h
  have e0 : lv (addFarming s0 amt) = lv s := (lv_of_pmv (takePayments_pmv h0) : lv s0 = lv s)
  obtain ⟨W, hW, eff⟩ := claimOnlyBoostedPayment_eff (s := addFarming s0 amt) h1
  have hW0 : s.week = some W := by rw [← week_of_lv e0]; exact hW
  have eff1 : OpEff (lv s) (lv s1) W orig := eff.frame_left e0
  have e1' := lv_of_pmv (payRewardIf_pmv h1')
  have e2 := checkAndUpdate_lv h2
  have e4 : lv s4 = lv (increaseUser s2 orig amt) := lv_of_pmv (generate_pmv h4)
  have e5 := lv_of_pmv (createToken_pmv h5)
  have e6 := setFarmSupplyWeek_lv h6
  have e8 : lv s8 = lv (Cache.drop s6 { c1 with supply := c1.supply + amt }) :=
    lv_of_pmv (payRewardIf_pmv h8)
  have e38 : lv s8 = lv s1 := by
    rw [e8]; show lv s6 = _
    rw [e6, e5, e4]; show lv s2 = _
    rw [e2, e1']
  have eff8 : OpEff (lv s) (lv s8) W orig := eff1.frame e38
  obtain ⟨W9, o9, hW9, ho9, hp, hpaid, he, hf⟩ := updateEnergyAndProgress_lv h9
  exact ⟨W, hW0, eff8.move' hW0 hW9 ho9 hp hpaid he hf⟩

theorem claimCore_eff {s s' : St} {caller orig : Nat} {pays : List (Nat × Nat)} {cmp : Bool} {o : Out}
    (h : claimCore s caller orig pays cmp = some (s', o)) :
    ∃ W, s.week = some W ∧ OpEff (lv s) (lv s') W orig := by
  unfold claimCore at h
  replace h := bpeel h; obtain ⟨⟨n1, a1⟩, hhead, h⟩ := h
  replace h := bpeel h; obtain ⟨s0, h0, h⟩ := h
  replace h := bpeel h; obtain ⟨_, _, h⟩ := h
  replace h := bpeel h; obtain ⟨_, _, h⟩ := h
  replace h := bpeel h; obtain ⟨at1, hat, h⟩ := h
  replace h := bpeel h; obtain ⟨⟨s1, c1⟩, h1, h⟩ := h
  replace h := bpeel h; obtain ⟨part, hpart, h⟩ := h
  replace h := bpeel h; obtain ⟨⟨s2, boosted⟩, h2, h⟩ := h
  replace h := bpeel h; obtain ⟨res, _, h⟩ := h
  replace h := bpeel h; obtain ⟨s3, h3, h⟩ := h
  replace h := bpeel h; obtain ⟨merged, hm, h⟩ := h
  replace h := bpeel h; obtain ⟨⟨s5, n⟩, h5, h⟩ := h
  replace h := bpeel h; obtain ⟨s6, h6, h⟩ := h
  replace h := bpeel h; obtain ⟨s8, h8, h⟩ := h
  simp only [Option.pure_def, Option.some.injEq, Prod.mk.injEq] at h
  obtain ⟨rfl, _⟩ := h
  have e0 := lv_of_pmv (takePayments_pmv h0)
  have e1 := lv_of_pmv (generate_pmv h1)
  obtain ⟨W, hW, eff⟩ := claimBoostedYields_eff h2
  have e01 : lv s1 = lv s := e1.trans e0
  have hW0 : s.week = some W := by rw [← week_of_lv e01]; exact hW
  have eff2 : OpEff (lv s) (lv s2) W orig := eff.frame_left e01
  have e3 := checkAndUpdate_lv h3
  have e5 := lv_of_pmv (createToken_pmv h5)
  have e6 := setFarmSupplyWeek_lv h6
  have e7 : lv s6 = lv s2 := by
    rw [e6, e5]
    cases cmp
    · exact e3
    · show lv s3 = _; exact e3
  have eff7 : OpEff (lv s) (lv s6) W orig := eff2.frame e7
  rcases claimTail_eff h8 with e8 | ⟨W8, o8, hW8, ho8, hp, hpaid, he, hf⟩
  · exact ⟨W, hW0, eff7.frame e8⟩
  · refine ⟨W, hW0, OpEff.move' (s1 := Cache.drop s6 _) eff7 hW0 hW8 ho8 hp hpaid he hf⟩

theorem exitFarm_eff {s s' : St} {caller : Nat} {opt : Option Nat} {n a : Nat} {o : Out}
    (h : exitFarm s caller opt n a = some (s', o)) :
    ∃ orig W, origCaller s caller opt = some orig ∧ s.week = some W ∧ OpEff (lv s) (lv s') W orig := by
  unfold exitFarm at h
  replace h := bpeel h; obtain ⟨orig, horig, h⟩ := h
  replace h := bpeel h; obtain ⟨s0, h0, h⟩ := h
  replace h := bpeel h; obtain ⟨_, _, h⟩ := h
  replace h := bpeel h; obtain ⟨att, hat, h⟩ := h
  replace h := bpeel h; obtain ⟨⟨s1, c1⟩, h1, h⟩ := h
  replace h := bpeel h; obtain ⟨part, hpart, h⟩ := h
  replace h := bpeel h; obtain ⟨⟨s2, boosted⟩, h2, h⟩ := h
  replace h := bpeel h; obtain ⟨res, _, h⟩ := h
  replace h := bpeel h; obtain ⟨sup, hsup, h⟩ := h
  replace h := bpeel h; obtain ⟨s4, h4, h⟩ := h
  replace h := bpeel h; obtain ⟨pen, hpen, h⟩ := h
  replace h := bpeel h; obtain ⟨out, _, h⟩ := h
  replace h := bpeel h; obtain ⟨s6, h6, h⟩ := h
  replace h := bpeel h; obtain ⟨s7, h7, h⟩ := h
  replace h := bpeel h; obtain ⟨s8, h8, h⟩ := h
  simp only [Option.pure_def, Option.some.injEq, Prod.mk.injEq] at h
  obtain ⟨rfl, _⟩ := h
  have e0 := lv_of_pmv (takePayments_pmv h0)
  have e1 := lv_of_pmv (generate_pmv h1)
  obtain ⟨W, hW, eff⟩ := claimBoostedYields_eff h2
  have e01 : lv s1 = lv s := e1.trans e0
  have hW0 : s.week = some W := by rw [← week_of_lv e01]; exact hW
  have eff2 : OpEff (lv s) (lv s2) W orig := eff.frame_left e01
  have e4 : lv s4 = lv (decreaseOwner s2 att.owner a) := setFarmSupplyWeek_lv h4
  have e6 : lv s6 = lv (Cache.drop s4 { c1 with reserve := res, supply := sup }) :=
    lv_of_pmv (removeFarming_pmv h6)
  have e7 := lv_of_pmv (payReward_pmv h7)
  have e27 : lv s7 = lv s2 := by
    rw [e7, e6]; show lv s4 = _
    rw [e4]; rfl
  have eff7 : OpEff (lv s) (lv s7) W orig := eff2.frame e27
  refine ⟨orig, W, horig, hW0, ?_⟩
  rcases clearUserEnergyIfNeeded_lv h8 with e8 | ⟨hp, hpaid, he, hf⟩
  · exact eff7.frame e8
  · exact eff7.move (fun p hp => by cases hp) hp hpaid he hf

theorem mergeFarmTokens_eff {s s' : St} {caller : Nat} {opt : Option Nat} {pays : List (Nat × Nat)}
    {o : Out} (h : mergeFarmTokens s caller opt pays = some (s', o)) :
    ∃ orig W, origCaller s caller opt = some orig ∧ s.week = some W ∧ OpEff (lv s) (lv s') W orig := by
  simp only [mergeFarmTokens, Option.bind_eq_bind, Option.bind_eq_some_iff, req_eq_some, Option.pure_def,
    Option.some.injEq, Prod.mk.injEq] at h
  obtain ⟨_, hact, orig, horig, _, _, s0, h0, ⟨s1, boosted⟩, h1, s2, h2, merged, hm, ⟨s3, n⟩, h3, s4, h4, rfl, rfl⟩ := h
  have e0 := lv_of_pmv (takePayments_pmv h0)
  obtain ⟨W, hW, eff⟩ := claimOnlyBoostedPayment_eff h1
  have hW0 : s.week = some W := by rw [← week_of_lv e0]; exact hW
  have eff1 : OpEff (lv s) (lv s1) W orig := eff.frame_left e0
  have e2 := checkAndUpdate_lv h2
  have e3 := lv_of_pmv (createToken_pmv h3)
  have e4 := lv_of_pmv (payReward_pmv h4)
  exact ⟨orig, W, horig, hW0, eff1.frame (by rw [e4, e3, e2])⟩

theorem claimBoostedRewards_eff {s s' : St} {caller : Nat} {optUser : Option Nat} {o : Out}
    (h : claimBoostedRewards s caller optUser = some (s', o)) :
    ∃ W, s.week = some W ∧ OpEff (lv s) (lv s') W (optUser.getD caller) := by
  simp only [claimBoostedRewards, Option.bind_eq_bind, Option.bind_eq_some_iff, req_eq_some, Option.pure_def,
    Option.some.injEq, Prod.mk.injEq, sub?_eq_some] at h
  obtain ⟨_, _, _, _, _, hact, ⟨s1, c1⟩, h1, ⟨s2, boosted⟩, h2, res, ⟨hle, rfl⟩, s3, h3, s4, h4, rfl, rfl⟩ := h
  have e1 := lv_of_pmv (generate_pmv h1)
  obtain ⟨W, hW, eff⟩ := claimBoostedYields_eff h2
  have hW0 : s.week = some W := by rw [← week_of_lv e1]; exact hW
  have eff2 : OpEff (lv s) (lv s2) W (optUser.getD caller) := eff.frame_left e1
  have e3 := setFarmSupplyWeek_lv h3
  have e4 := lv_of_pmv (payReward_pmv h4)
  refine ⟨W, hW0, eff2.frame ?_⟩
  show lv s4 = _
  rw [e4, e3]

/-! ### one operation -/

/-- the user whose boosted rewards an operation claims: the original caller of enter / claim /
    compound / exit / merge, the on-behalf user, the recorded owner of the payments of
    `claimRewardsOnBehalf`, the user of `claimBoostedRewards`; `none` for every other operation -/
def claimUser (s : St) : Op → Option Nat
  | .enter c o _ _ => origCaller s c o
  | .enterOB _ u _ _ => some u
  | .claim c o _ => origCaller s c o
  | .claimOB _ p => claimOwner s p
  | .compound c o _ => origCaller s c o
  | .exit c o _ _ => origCaller s c o
  | .merge c o _ => origCaller s c o
  | .claimBoosted c u => some (u.getD c)
  | _ => none

/-- what one successful operation does to the log view: time moves forward; either the boosted
    ledger and all progress entries are untouched, or the operation touches ONE user `u` in the
    current week `W` (`OpEff`) — and if the ledger moved at all, `u` is the operation's claim user -/
def LogEff (s s' : St) (cu : Option Nat) : Prop :=
  s'.firstWeekStart = s.firstWeekStart ∧ s.epoch ≤ s'.epoch ∧
  ((s'.b.paidW = s.b.paidW ∧ s'.w.progress = s.w.progress) ∨
   ∃ u W, s.week = some W ∧ OpEff (lv s) (lv s') W u ∧
     (∀ w, s'.b.paidW w ≠ s.b.paidW w → cu = some u))

theorem LogEff.of_claim {s s' : St} {cu : Option Nat} {u W : Nat} (hcu : cu = some u)
    (hW : s.week = some W) (eff : OpEff (lv s) (lv s') W u) : LogEff s s' cu :=
  ⟨eff.fws, Nat.le_of_eq eff.epoch.symm, Or.inr ⟨u, W, hW, eff, fun _ _ => hcu⟩⟩

theorem LogEff.quiet {s s' : St} {cu : Option Nat} (e : lv s' = lv s) : LogEff s s' cu :=
  ⟨congrArg LV.fws e, Nat.le_of_eq (congrArg LV.epoch e).symm,
    Or.inl ⟨congrArg LV.paid e, congrArg LV.progress e⟩⟩

theorem step_eff {s s' : St} {op : Op} {o : Out} (h : step s op = some (s', o)) :
    LogEff s s' (claimUser s op) := by
  cases op <;> simp only [step, known] at h
  case enter c oo a e =>
    split at h <;> [skip; exact absurd h (by simp)]
    simp only [enterFarm, Option.bind_eq_bind, Option.bind_eq_some_iff] at h
    obtain ⟨orig, horig, h⟩ := h
    obtain ⟨W, hW, eff⟩ := enterCore_eff h
    exact LogEff.of_claim horig hW eff
  case enterOB c u a e =>
    split at h <;> [skip; exact absurd h (by simp)]
    simp only [enterFarmOnBehalf, Option.bind_eq_bind, Option.bind_eq_some_iff] at h
    obtain ⟨_, _, _, _, h⟩ := h
    obtain ⟨W, hW, eff⟩ := enterCore_eff h
    exact LogEff.of_claim rfl hW eff
  case claim c oo p =>
    split at h <;> [skip; exact absurd h (by simp)]
    simp only [claimRewards, Option.bind_eq_bind, Option.bind_eq_some_iff] at h
    obtain ⟨orig, horig, h⟩ := h
    obtain ⟨W, hW, eff⟩ := claimCore_eff h
    exact LogEff.of_claim horig hW eff
  case claimOB c p =>
    split at h <;> [skip; exact absurd h (by simp)]
    simp only [claimRewardsOnBehalf, Option.bind_eq_bind, Option.bind_eq_some_iff] at h
    obtain ⟨_, _, user, huser, _, _, h⟩ := h
    obtain ⟨W, hW, eff⟩ := claimCore_eff h
    exact LogEff.of_claim huser hW eff
  case compound c oo p =>
    split at h <;> [skip; exact absurd h (by simp)]
    simp only [compoundRewards, Option.bind_eq_bind, Option.bind_eq_some_iff, req_eq_some] at h
    obtain ⟨_, hk, orig, horig, h⟩ := h
    obtain ⟨W, hW, eff⟩ := claimCore_eff h
    exact LogEff.of_claim horig hW eff
  case exit c oo n a =>
    split at h <;> [skip; exact absurd h (by simp)]
    obtain ⟨orig, W, horig, hW, eff⟩ := exitFarm_eff h
    exact LogEff.of_claim horig hW eff
  case merge c oo p =>
    split at h <;> [skip; exact absurd h (by simp)]
    obtain ⟨orig, W, horig, hW, eff⟩ := mergeFarmTokens_eff h
    exact LogEff.of_claim horig hW eff
  case claimBoosted c u =>
    split at h <;> [skip; exact absurd h (by simp)]
    obtain ⟨W, hW, eff⟩ := claimBoostedRewards_eff h
    exact LogEff.of_claim rfl hW eff
  case transfer a b n x =>
    split at h <;> [skip; exact absurd h (by simp)]
    split at h <;> [skip; exact absurd h (by simp)]
    simp only [noOut, Option.map_eq_some_iff, Prod.mk.injEq] at h
    obtain ⟨s1, h1, rfl, _⟩ := h
    simp only [transfer, Option.bind_eq_bind, Option.bind_eq_some_iff, req_eq_some, sub?_eq_some,
      Option.pure_def, Option.some.injEq] at h1
    obtain ⟨_, _, _, _, _, _, _, _, rfl⟩ := h1
    exact LogEff.quiet rfl
  case setEnergy u a l t =>
    simp only [Option.some.injEq, Prod.mk.injEq] at h
    obtain ⟨rfl, _⟩ := h
    exact LogEff.quiet rfl
  case updateEnergy u =>
    simp only [noOut, Option.map_eq_some_iff, Prod.mk.injEq] at h
    obtain ⟨s1, h1, rfl, _⟩ := h
    obtain ⟨W, o1, hW, ho1, hp, hpaid, he, hf⟩ := updateEnergyForUser_lv h1
    have eff : OpEff (lv s) (lv s1) W u := OpEff.of_move ho1 hp hpaid he hf
    exact ⟨hf, Nat.le_of_eq he.symm, Or.inr ⟨u, W, hW, eff,
      fun w hne => absurd (congrFun hpaid w) hne⟩⟩
  case setPerBlock c x =>
    simp only [noOut, Option.map_eq_some_iff, Prod.mk.injEq] at h
    obtain ⟨s1, h1, rfl, _⟩ := h
    simp only [setPerBlock, Option.bind_eq_bind, Option.bind_eq_some_iff, Option.pure_def,
      Option.some.injEq] at h1
    obtain ⟨_, _, _, _, s2, h2, rfl⟩ := h1
    exact LogEff.quiet (lv_of_pmv (settle_pmv h2) : lv s2 = lv s)
  case startProduce c =>
    simp only [noOut, Option.map_eq_some_iff, Prod.mk.injEq] at h
    obtain ⟨s1, h1, rfl, _⟩ := h
    simp only [startProduce, Option.bind_eq_bind, Option.bind_eq_some_iff, Option.pure_def,
      Option.some.injEq] at h1
    obtain ⟨_, _, _, _, _, _, rfl⟩ := h1
    exact LogEff.quiet rfl
  case endProduce c =>
    simp only [noOut, Option.map_eq_some_iff, Prod.mk.injEq] at h
    obtain ⟨s1, h1, rfl, _⟩ := h
    simp only [endProduce, Option.bind_eq_bind, Option.bind_eq_some_iff, Option.pure_def,
      Option.some.injEq] at h1
    obtain ⟨_, _, s2, h2, rfl⟩ := h1
    exact LogEff.quiet (lv_of_pmv (settle_pmv h2) : lv s2 = lv s)
  case setPct c p =>
    simp only [noOut, Option.map_eq_some_iff, Prod.mk.injEq] at h
    obtain ⟨s1, h1, rfl, _⟩ := h
    simp only [setPct, Option.bind_eq_bind, Option.bind_eq_some_iff, Option.pure_def,
      Option.some.injEq] at h1
    obtain ⟨_, _, _, _, s2, h2, rfl⟩ := h1
    exact LogEff.quiet (lv_of_pmv (settle_pmv h2) : lv s2 = lv s)
  case setFactors c f =>
    simp only [noOut, Option.map_eq_some_iff, Prod.mk.injEq] at h
    obtain ⟨s1, h1, rfl, _⟩ := h
    simp only [setFactors, Option.bind_eq_bind, Option.bind_eq_some_iff, Option.pure_def] at h1
    obtain ⟨_, _, _, _, _, _, W, _, h1⟩ := h1
    split at h1
    · simp only [Option.bind_eq_some_iff, Option.some.injEq] at h1
      obtain ⟨_, _, rfl⟩ := h1
      exact LogEff.quiet rfl
    · simp only [Option.some.injEq] at h1
      subst h1
      exact LogEff.quiet rfl
  case collect c =>
    simp only [noOut, Option.map_eq_some_iff, Prod.mk.injEq] at h
    obtain ⟨s1, h1, rfl, _⟩ := h
    simp only [collectUndistributed, Option.bind_eq_bind, Option.bind_eq_some_iff, Option.pure_def,
      req_eq_some] at h1
    obtain ⟨_, _, W, _, _, _, h1⟩ := h1
    split at h1 <;> simp only [Option.some.injEq] at h1 <;> subst h1
    · exact LogEff.quiet rfl
    · refine LogEff.quiet ?_
      have := (collectWeeks_spec (W - (Weekly.USER_MAX_CLAIM_WEEKS + 1) + 1 - (s.lastCollect + 1))
        s.b s.undist (s.lastCollect + 1)).2.2.2.2.2.2.1
      show (⟨s.w.progress, _, s.epoch, s.firstWeekStart⟩ : LV) = _
      rw [this]; rfl
  case pause c =>
    simp only [noOut, Option.map_eq_some_iff, Prod.mk.injEq] at h
    obtain ⟨s1, h1, rfl, _⟩ := h
    simp only [setActive, Option.bind_eq_bind, Option.bind_eq_some_iff, Option.pure_def,
      Option.some.injEq] at h1
    obtain ⟨_, _, rfl⟩ := h1
    exact LogEff.quiet rfl
  case resume c =>
    simp only [noOut, Option.map_eq_some_iff, Prod.mk.injEq] at h
    obtain ⟨s1, h1, rfl, _⟩ := h
    simp only [setActive, Option.bind_eq_bind, Option.bind_eq_some_iff, Option.pure_def,
      Option.some.injEq] at h1
    obtain ⟨_, _, rfl⟩ := h1
    exact LogEff.quiet rfl
  case setPenalty c p =>
    simp only [noOut, Option.map_eq_some_iff, Prod.mk.injEq] at h
    obtain ⟨s1, h1, rfl, _⟩ := h
    simp only [setPenalty, Option.bind_eq_bind, Option.bind_eq_some_iff, Option.pure_def,
      Option.some.injEq] at h1
    obtain ⟨_, _, _, _, rfl⟩ := h1
    exact LogEff.quiet rfl
  case setMinEpochs c n =>
    simp only [noOut, Option.map_eq_some_iff, Prod.mk.injEq] at h
    obtain ⟨s1, h1, rfl, _⟩ := h
    simp only [setMinEpochs, Option.bind_eq_bind, Option.bind_eq_some_iff, Option.pure_def,
      Option.some.injEq] at h1
    obtain ⟨_, _, _, _, rfl⟩ := h1
    exact LogEff.quiet rfl
  case hubWhitelist u a =>
    split at h
    · cases h
    · simp only [Option.some.injEq, Prod.mk.injEq] at h; obtain ⟨rfl, _⟩ := h; exact LogEff.quiet rfl
  case hubRemove u a =>
    split at h
    · simp only [Option.some.injEq, Prod.mk.injEq] at h; obtain ⟨rfl, _⟩ := h; exact LogEff.quiet rfl
    · cases h
  case hubBlacklist a =>
    simp only [Option.some.injEq, Prod.mk.injEq] at h; obtain ⟨rfl, _⟩ := h; exact LogEff.quiet rfl
  case scWhitelist a =>
    split at h
    · cases h
    · simp only [Option.some.injEq, Prod.mk.injEq] at h; obtain ⟨rfl, _⟩ := h; exact LogEff.quiet rfl
  case scUnwhitelist a =>
    split at h
    · simp only [Option.some.injEq, Prod.mk.injEq] at h; obtain ⟨rfl, _⟩ := h; exact LogEff.quiet rfl
    · cases h
  case advance b e =>
    split at h
    · rename_i hc
      simp only [Option.some.injEq, Prod.mk.injEq] at h; obtain ⟨rfl, _⟩ := h
      exact ⟨rfl, hc.2, Or.inl ⟨rfl, rfl⟩⟩
    · cases h
  case bad => cases h

end Mx.Farm
