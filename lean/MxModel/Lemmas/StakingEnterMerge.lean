/-
  The position created by `stakeFarm` WITH farm tokens sent along (stake-and-merge): the fresh stake
  enters at the index settled to the entering block; the merged position can claim, at every future
  index, no more than the fresh stake from NOW on plus what the merged-in positions already could.
-/
import MxModel.Lemmas.StakingReward
import MxModel.Lemmas.StakingPos

namespace Mx.Staking.EnterMerge
open Mx Mx.Staking

theorem stakeCore_position_merge {s s' : St} {c orig amount : Nat} {v : Bool} {adds : List Pay} {o : Out}
    (h : stakeCore s c orig amount v adds = some (s', o)) :
    ∃ merged : Attrs, s'.md o.a = some (.pos merged) ∧ o.b = merged.amount ∧
      mergeParts s.md ⟨s'.rps, 0, amount, orig⟩ adds = some merged := by
  cases v <;>
  · simp only [stakeCore, Option.bind_eq_bind, Option.bind_eq_some_iff, req_eq_some,
      sub?_eq_some, Option.pure_def, Option.some.injEq, Prod.mk.injEq] at h
    obtain ⟨_, _, hold0, _, r, _, res1, _, _, _, ut1, _, ⟨s3, c3⟩, hg, merged, hm, w2, _,
      bal1, _, rfl, rfl⟩ := h
    obtain ⟨ha, hc, rfl, rfl⟩ := generate_spec hg
    exact ⟨merged, by simp [Weekly.upd], rfl, hm⟩

theorem stakeCore_merge_no_retro {s s' : St} {c orig amount : Nat} {v : Bool} {adds : List Pay} {o : Out}
    (h : stakeCore s c orig amount v adds = some (s', o)) :
    ∃ merged : Attrs, s'.md o.a = some (.pos merged) ∧ o.b = merged.amount ∧
      merged.amount = amount + payTot adds ∧
      ∀ R, merged.amount * (R - merged.rps) ≤ amount * (R - s'.rps) + payW (potW s.md R) adds := by
  obtain ⟨merged, h1, h2, hm⟩ := stakeCore_position_merge h
  refine ⟨merged, h1, h2, (mergeParts_amount hm).1, fun R => ?_⟩
  exact mergeParts_pot s.md R adds _ merged hm

end Mx.Staking.EnterMerge
