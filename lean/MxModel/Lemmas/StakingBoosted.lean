/-
  Boosted rewards of the staking model (C11, staking side): what the weekly reward hook pays, the
  per-week pool bound carried through `claim_multi`, the undistributed-rewards collection, the
  factor ring.
-/
import MxModel.Lemmas.StakingMerge
import MxModel.Lemmas.WeeklyInv

namespace Mx.Staking

open Mx.Weekly

/-- per-week pool bound: what is still distributable plus what was paid never exceeds what was
    moved into the week's pool -/
def PoolOK (b : B) : Prop := ∀ k, b.remaining k + b.paid k ≤ b.collected k

theorem PoolOK.init : PoolOK B.init := by intro k; simp [B.init]

/-- the reward hook, case by case: either nothing is paid (and at most the week's pool is
    frozen), or exactly `boostedAmount` of the week's frozen pool `R` is paid under the listed
    conditions and taken out of `remaining(week)` -/
theorem boostedRewards_spec {c' : BCfg} {userFarm : Nat} {g g' : Weekly.St} {b b' : B}
    {week e E : Nat} {r : List (Tok × Nat)}
    (h : boostedRewards c' userFarm g b week e E = some (g', b', r)) :
    b'.farmSupply = b.farmSupply ∧
    ((r = [] ∧ b'.paid = b.paid ∧ (∀ k, k ≠ week → b'.remaining k = b.remaining k ∧ b'.collected k = b.collected k) ∧
        ((b'.remaining = b.remaining ∧ b'.collected = b.collected) ∨
         (b'.remaining week = b.accumulated week ∧ b'.collected week = b.collected week + b.accumulated week))) ∨
     (∃ x R fac, r = [(0, x)] ∧ 0 < x ∧ E ≠ 0 ∧ b.farmSupply week ≠ 0 ∧
        c'.factorsForWeek week = some fac ∧ fac.minE ≤ e ∧ fac.minF ≤ userFarm ∧ R ≠ 0 ∧
        fac.cE + fac.cF ≠ 0 ∧
        x = boostedAmount fac R userFarm (b.farmSupply week) e E ∧
        (∃ t, (collectAndGet (collectBoosted c') g b week).2.2 = [(t, R)]) ∧
        x ≤ (collectAndGet (collectBoosted c') g b week).2.1.remaining week ∧
        b'.remaining = upd (collectAndGet (collectBoosted c') g b week).2.1.remaining week
          ((collectAndGet (collectBoosted c') g b week).2.1.remaining week - x) ∧
        b'.paid = upd b.paid week (b.paid week + x) ∧
        b'.collected = (collectAndGet (collectBoosted c') g b week).2.1.collected)) := by
  unfold boostedRewards at h
  simp only at h
  split at h
  · simp only [Option.some.injEq, Prod.mk.injEq] at h
    obtain ⟨_, rfl, rfl⟩ := h
    exact ⟨rfl, Or.inl ⟨rfl, rfl, fun _ _ => ⟨rfl, rfl⟩, Or.inl ⟨rfl, rfl⟩⟩⟩
  · rename_i hEF
    simp only [Option.bind_eq_bind, Option.bind_eq_some_iff] at h
    obtain ⟨fac, hfac, h⟩ := h
    split at h
    · simp only [Option.pure_def, Option.some.injEq, Prod.mk.injEq] at h
      obtain ⟨_, rfl, rfl⟩ := h
      exact ⟨rfl, Or.inl ⟨rfl, rfl, fun _ _ => ⟨rfl, rfl⟩, Or.inl ⟨rfl, rfl⟩⟩⟩
    · rename_i hmin
      -- the frozen pool of the week
      have hcoll : (collectAndGet (collectBoosted c') g b week).2.1.farmSupply = b.farmSupply ∧
          (collectAndGet (collectBoosted c') g b week).2.1.paid = b.paid ∧
          (∀ k, k ≠ week → (collectAndGet (collectBoosted c') g b week).2.1.remaining k = b.remaining k ∧
              (collectAndGet (collectBoosted c') g b week).2.1.collected k = b.collected k) ∧
          (((collectAndGet (collectBoosted c') g b week).2.1.remaining = b.remaining ∧
            (collectAndGet (collectBoosted c') g b week).2.1.collected = b.collected) ∨
           ((collectAndGet (collectBoosted c') g b week).2.1.remaining week = b.accumulated week ∧
            (collectAndGet (collectBoosted c') g b week).2.1.collected week =
              b.collected week + b.accumulated week)) := by
        unfold collectAndGet
        split
        · refine ⟨rfl, rfl, ?_, Or.inr ⟨?_, ?_⟩⟩
          · intro k hk
            simp only [collectBoosted]
            exact ⟨upd_other _ _ hk, upd_other _ _ hk⟩
          · simp only [collectBoosted]; exact upd_same _ _ _
          · simp only [collectBoosted]; exact upd_same _ _ _
        · exact ⟨rfl, rfl, fun _ _ => ⟨rfl, rfl⟩, Or.inl ⟨rfl, rfl⟩⟩
      generalize hcg : collectAndGet (collectBoosted c') g b week = cg at h hcoll
      obtain ⟨g1, b1, lst⟩ := cg
      simp only at h hcoll
      obtain ⟨hfs, hpd, hoth, hcase⟩ := hcoll
      match lst, h with
      | [], h =>
        simp only [Option.pure_def, Option.some.injEq, Prod.mk.injEq] at h
        obtain ⟨_, rfl, rfl⟩ := h
        exact ⟨hfs, Or.inl ⟨rfl, hpd, hoth, hcase⟩⟩
      | [p], h =>
        simp only at h
        split at h
        · simp only [Option.pure_def, Option.some.injEq, Prod.mk.injEq] at h
          obtain ⟨_, rfl, rfl⟩ := h
          exact ⟨hfs, Or.inl ⟨rfl, hpd, hoth, hcase⟩⟩
        · rename_i hR
          simp only [Option.bind_eq_bind, Option.bind_eq_some_iff, req_eq_some] at h
          obtain ⟨_, hc, h⟩ := h
          split at h
          · simp only [Option.pure_def, Option.some.injEq, Prod.mk.injEq] at h
            obtain ⟨_, rfl, rfl⟩ := h
            exact ⟨hfs, Or.inl ⟨rfl, hpd, hoth, hcase⟩⟩
          · rename_i hx
            simp only [Option.bind_eq_bind, Option.bind_eq_some_iff, sub?_eq_some, Option.pure_def,
              Option.some.injEq, Prod.mk.injEq] at h
            obtain ⟨rem, ⟨hle, rfl⟩, _, rfl, rfl⟩ := h
            refine ⟨hfs, Or.inr ⟨_, p.2, fac, rfl, by omega, ?_, ?_, hfac, ?_, ?_, hR, hc, rfl, ?_, hle, rfl, ?_, rfl⟩⟩
            · intro h0; exact hEF (Or.inl h0)
            · intro h0; exact hEF (Or.inr h0)
            · omega
            · omega
            · exact ⟨p.1, rfl⟩
            · simp only [hpd]
      | _ :: _ :: _, h => simp at h

theorem PoolOK.of_eq {b b' : B} (h : PoolOK b) (h1 : b'.remaining = b.remaining) (h2 : b'.paid = b.paid)
    (h3 : b'.collected = b.collected) : PoolOK b' := by
  intro k; rw [h1, h2, h3]; exact h k

/-- freezing a week's pool keeps the bound -/
theorem collect_pool {c' : BCfg} {g : Weekly.St} {b : B} {week : Nat} (h : PoolOK b) :
    PoolOK (collectAndGet (collectBoosted c') g b week).2.1 ∧
    (collectAndGet (collectBoosted c') g b week).2.1.paid = b.paid := by
  unfold collectAndGet
  split
  · refine ⟨?_, rfl⟩
    intro k
    simp only [collectBoosted]
    by_cases hk : k = week
    · subst hk
      rw [upd_same, upd_same]
      have := h k
      omega
    · rw [upd_other _ _ hk, upd_other _ _ hk]; exact h k
  · exact ⟨h, rfl⟩

/-- the reward hook keeps the per-week pool bound -/
theorem boostedRewards_pool {c' : BCfg} {userFarm : Nat} {g g' : Weekly.St} {b b' : B}
    {week e E : Nat} {r : List (Tok × Nat)} (hb : PoolOK b)
    (h : boostedRewards c' userFarm g b week e E = some (g', b', r)) : PoolOK b' := by
  obtain ⟨_, hcase⟩ := boostedRewards_spec h
  rcases hcase with ⟨_, hp, hoth, hc⟩ | ⟨x, R, fac, _, _, _, _, _, _, _, _, _, _, _, hle, hrem, hpaid, hcoll⟩
  · intro k
    rw [hp]
    rcases hc with ⟨h1, h2⟩ | ⟨h1, h2⟩
    · rw [h1, h2]; exact hb k
    · by_cases hk : k = week
      · subst hk; rw [h1, h2]; have := hb k; omega
      · obtain ⟨e1, e2⟩ := hoth k hk; rw [e1, e2]; exact hb k
  · obtain ⟨hb1, hp1⟩ := collect_pool (c' := c') (g := g) (week := week) hb
    intro k
    rw [hrem, hpaid, hcoll]
    by_cases hk : k = week
    · subst hk
      rw [upd_same, upd_same]
      have := hb1 k
      rw [hp1] at this
      omega
    · rw [upd_other _ _ hk, upd_other _ _ hk]
      have := hb1 k
      rw [hp1] at this
      exact this

/-- a predicate on the contract-side state that the reward hook preserves is preserved by the
    whole claim loop … -/
theorem claimLoop_pres {σ : Type} {rw : RewardFn σ} (P : σ → Prop)
    (hP : ∀ g c w e E g' c' r, rw g c w e E = some (g', c', r) → P c → P c') :
    ∀ (n : Nat) {a a' : ClaimAcc σ}, claimLoop rw n a = some a' → P a.c → P a'.c := by
  intro n
  induction n with
  | zero =>
    intro a a' h hp
    simp only [claimLoop, Option.some.injEq] at h
    subst h; exact hp
  | succ n ih =>
    intro a a' h hp
    simp only [claimLoop, Option.bind_eq_some_iff] at h
    obtain ⟨a1, h1, h2⟩ := h
    obtain ⟨r, hr, _, _⟩ := claimSingle_spec h1
    exact ih h2 (hP _ _ _ _ _ _ _ _ hr hp)

/-- … and by `claim_multi` -/
theorem claimMulti_pres {σ : Type} {rw : RewardFn σ} (P : σ → Prop)
    (hP : ∀ g c w e E g' c' r, rw g c w e E = some (g', c', r) → P c → P c')
    {g g' : Weekly.St} {c c' : σ} {user W : Nat} {cur : Energy} {r : List (Tok × Nat)}
    (h : claimMulti rw g c user W cur = some (g', c', r)) (hp : P c) : P c' := by
  obtain ⟨g1, a, _, _, ha, _, rfl, _⟩ := claimMulti_spec h
  exact claimLoop_pres P hP _ ha hp

/-- the boosted claim of a user keeps the per-week pool bound -/
theorem claimBoostedYields_pool {s : St} {user farmAmt : Nat} {r : Weekly.St × B × Nat}
    (hb : PoolOK s.b) (h : claimBoostedYields s user farmAmt = some r) : PoolOK r.2.1 := by
  have h0 := h
  unfold claimBoostedYields at h
  split at h
  · rename_i hc
    rw [(claimBoostedYields_none_spec hc h0).1]; exact hb
  · simp only [Option.bind_eq_bind, Option.bind_eq_some_iff, Option.pure_def, Option.some.injEq] at h
    obtain ⟨c', _, r', hr, rfl⟩ := h
    exact claimMulti_pres PoolOK (fun _ _ _ _ _ _ _ _ h' hp => boostedRewards_pool hp h') hr hb

/-- `generate` does not touch the pools' `remaining / paid / collected` -/
theorem genSt_pool {s : St} (hb : PoolOK s.b) : PoolOK (genSt s).b :=
  hb.of_eq rfl rfl rfl

/-- the loop of `collectUndistributedBoostedRewards`: `remaining` only shrinks, and what it loses
    is added to the undistributed total -/
theorem collectWeeks_spec : ∀ (n week : Nat) (rem : Nat → Nat) (und : Nat),
    (∀ k, (collectWeeks n week rem und).1 k = if week ≤ k ∧ k < week + n then 0 else rem k) ∧
    (collectWeeks n week rem und).2 = und + ((List.range n).map fun i => rem (week + i)).sum
  | 0, week, rem, und => by
      refine ⟨fun k => ?_, by simp [collectWeeks]⟩
      simp only [collectWeeks]
      have : ¬(week ≤ k ∧ k < week + 0) := by omega
      rw [if_neg this]
  | n + 1, week, rem, und => by
      obtain ⟨ih1, ih2⟩ := collectWeeks_spec n (week + 1) (upd rem week 0) (und + rem week)
      refine ⟨fun k => ?_, ?_⟩
      · simp only [collectWeeks]
        rw [ih1 k]
        by_cases hk : k = week
        · subst hk
          have h1 : ¬(k + 1 ≤ k ∧ k < k + 1 + n) := by omega
          have h2 : k ≤ k ∧ k < k + (n + 1) := by omega
          rw [if_neg h1, if_pos h2, upd_same]
        · rw [upd_other _ _ hk]
          by_cases hin : week + 1 ≤ k ∧ k < week + 1 + n
          · have : week ≤ k ∧ k < week + (n + 1) := by omega
            rw [if_pos hin, if_pos this]
          · have : ¬(week ≤ k ∧ k < week + (n + 1)) := by omega
            rw [if_neg hin, if_neg this]
      · simp only [collectWeeks]
        rw [ih2, List.range_succ_eq_map, List.map_cons, List.sum_cons, List.map_map]
        have : ((List.range n).map fun i => upd rem week 0 (week + 1 + i)).sum =
            ((List.range n).map ((fun i => rem (week + i)) ∘ Nat.succ)).sum := by
          congr 1
          apply List.map_congr_left
          intro i _
          have : week + 1 + i ≠ week := by omega
          simp only [Function.comp, upd_other _ _ this]
          congr 1; omega
        rw [this]
        simp only [Nat.add_zero]
        omega

end Mx.Staking
