/-
  Price discovery: what the views promise about the next deposit / withdraw in the same state
  (ready-made lemmas for the price-discovery clause of C20; the property file of C20 belongs
  to its owner — these only live next to the model they talk about).
-/
import MxModel.Lemmas.PdSpec

set_option linter.unusedSimpArgs false

namespace Mx.PD

/-- views are plain functions of the state: evaluating one cannot change anything -/
theorem view_pure (s : St) : (viewPhase s, viewPrice s, viewSupply s .launched, viewSupply s .accepted).1 = s.phase := rfl

/-- a deposit only succeeds in a phase `getCurrentPhase` reports as open for deposits -/
theorem quote_phase_deposit {s s' : St} {c : Nat} {t : Tok} {amt : Nat} {o : Out}
    (h : deposit s c t amt = some (s', o)) : (viewPhase s).depositAllowed = true := by
  obtain ⟨_, _, _, hp, _⟩ := deposit_spec h
  exact hp

/-- a withdrawal only succeeds in a phase `getCurrentPhase` reports as open for withdrawals,
    and pays exactly `amt − ⌊amt·pct/10^13⌋` with the percentage that view reported -/
theorem quote_phase_withdraw {s s' : St} {c : Nat} {t : Tok} {amt : Nat} {o : Out}
    (h : withdraw s c t amt = some (s', o)) :
    (viewPhase s).withdrawAllowed = true ∧
    o.v1 = amt - amt * (viewPhase s).pct / MAXP ∧ o.v2 = amt * (viewPhase s).pct / MAXP := by
  obtain ⟨_, pen, _, _, hp, hpen, _, _, _, _, _, _, _, rfl, _⟩ := withdraw_spec h
  subst hpen
  exact ⟨hp, rfl, rfl⟩

/-- after a successful deposit or withdrawal `getCurrentPrice` succeeds and reports the
    price the operation itself checked against the minimum -/
theorem quote_price_after_deposit {s s' : St} {c : Nat} {t : Tok} {amt : Nat} {o : Out}
    (h : deposit s c t amt = some (s', o)) :
    ∃ p, viewPrice s' = some p ∧ (p = 0 ∨ s.cfg.minPrice ≤ p ∨ t = .accepted) := by
  obtain ⟨p, _, _, _, _, hp, hm, _⟩ := deposit_spec h
  exact ⟨p, hp, hm⟩

theorem quote_price_after_withdraw {s s' : St} {c : Nat} {t : Tok} {amt : Nat} {o : Out}
    (h : withdraw s c t amt = some (s', o)) :
    ∃ p, viewPrice s' = some p ∧ s.cfg.minPrice ≤ p := by
  obtain ⟨p, _, _, _, _, _, _, _, _, _, _, hp, hm, _⟩ := withdraw_spec h
  exact ⟨p, hp, hm⟩

/-- the exact acceptance condition of a deposit, in terms of what the views show before it
    (phase, tracked balances) and the caller's wallet -/
theorem deposit_ok_iff (s : St) (c : Nat) (t : Tok) (amt : Nat) :
    (deposit s c t amt).isSome = true ↔
      s.isUser c ∧ 0 < amt ∧ (viewPhase s).depositAllowed = true ∧ amt ≤ (s.side t).w c ∧
      ∃ p, priceOf s.cfg (if t = .launched then s.L.bal + amt else s.L.bal)
              (if t = .accepted then s.A.bal + amt else s.A.bal) = some p ∧
           (p = 0 ∨ s.cfg.minPrice ≤ p ∨ t = .accepted) := by
  constructor
  · intro h
    obtain ⟨⟨s', o⟩, hd⟩ := Option.isSome_iff_exists.1 h
    obtain ⟨p, h1, h2, h3, h4, h5, h6, _, rfl⟩ := deposit_spec hd
    refine ⟨h1, h2, h3, h4, p, ?_, h6⟩
    cases t <;> simpa [St.price, St.setSide, St.side, depSide] using h5
  · rintro ⟨h1, h2, h3, h4, p, h5, h6⟩
    have h3' : s.phase.depositAllowed = true := h3
    cases t
    · have h6' : p = 0 ∨ s.cfg.minPrice ≤ p := by simpa using h6
      simp [deposit, req, sub?, h1, h2, h3', St.price, St.setSide, St.side] at h5 h4 ⊢
      simp [h4, h5, h6']
    · simp [deposit, req, sub?, h1, h2, h3', St.price, St.setSide, St.side] at h5 h4 ⊢
      simp [h4, h5]

end Mx.PD
