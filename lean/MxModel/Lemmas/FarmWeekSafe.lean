/-
  The per-week subtraction `remainingBoostedRewardsToDistribute(week) −= user_reward` of
  `FarmBoostedYieldsWrapper::get_user_rewards_for_week` (`boostedRewards` in Core/Farm.lean).

  * `boostedRewards_none_iff`: exactly when one week's reward computation aborts the transaction.
  * `boostedAmount_le`: a user whose farm position and energy are within the week's recorded
    supply / total energy (`f ≤ F`, `e ≤ E`) is never paid more than the week's whole pool `R`.
  * `boostedAmount_cross`: the cross-multiplied share bound
        u · ((cE+cF)·E·F) ≤ R · (cE·F·e + cF·E·f).
  * `WeekBudget`: THE hypothesis under which the subtraction is safe — "what was paid for the week
    plus the shares of everybody who can still claim it fits into the week's pool" —
    `WeekBudget.sub_ok` (the subtraction succeeds) and `WeekBudget.pay` (the budget is inductive
    under a payment); `WeekBudget.init`: at freeze time it follows from `Σ e ≤ E` and `Σ f ≤ F`.

  `Σ f ≤ F`: the user's CURRENT total position is used against the PAST week's supply.  Before the
  repair of finding F6 a position could reach a user without the user's claim progress advancing
  (no boosted config yet ⇒ early return), so the farm did NOT keep `Σ f ≤ F`; the repaired
  `claim_boosted_yields_rewards` always advances the progress and `Σ f ≤ F` is an invariant of
  every reachable state (Lemmas/FarmWeekPos.lean, Props/C05Budget.lean).
-/
import MxModel.Lemmas.FarmBoost
import Mathlib.Tactic.Linarith

namespace Mx.Farm

open Mx.Weekly (upd Energy)

/-! ### arithmetic of the boosted formula -/

theorem mulDiv_le_of_le (a x y : Nat) (h : x ≤ y) : a * x / y ≤ a := by
  by_cases hy : y = 0
  · subst hy; simp
  · apply Nat.div_le_of_le_mul
    rw [Nat.mul_comm y a]
    exact Nat.mul_le_mul_left _ h

/-- within the week's supply and energy, one user's boosted reward is at most the week's pool -/
theorem boostedAmount_le (fa : Factors) (R f F e E : Nat) (_hc : fa.cE + fa.cF ≠ 0)
    (hf : f ≤ F) (he : e ≤ E) : boostedAmount fa R f F e E ≤ R := by
  unfold boostedAmount
  refine Nat.le_trans (Nat.min_le_right _ _) ?_
  have h1 : R * fa.cE * e / E ≤ R * fa.cE := mulDiv_le_of_le _ _ _ he
  have h2 : R * fa.cF * f / F ≤ R * fa.cF := mulDiv_le_of_le _ _ _ hf
  apply Nat.div_le_of_le_mul
  have : R * fa.cE + R * fa.cF = (fa.cE + fa.cF) * R := by
    rw [Nat.add_mul, Nat.mul_comm fa.cE, Nat.mul_comm fa.cF]
  omega

/-- the share bound, cross-multiplied (no division) -/
theorem boostedAmount_cross (fa : Factors) (R f F e E : Nat) :
    boostedAmount fa R f F e E * ((fa.cE + fa.cF) * E * F) ≤ R * (fa.cE * F * e + fa.cF * E * f) := by
  unfold boostedAmount
  generalize hx : R * fa.cE * e / E = x
  generalize hy : R * fa.cF * f / F = y
  have h1 : x * E ≤ R * fa.cE * e := by rw [← hx]; exact Nat.div_mul_le_self _ _
  have h2 : y * F ≤ R * fa.cF * f := by rw [← hy]; exact Nat.div_mul_le_self _ _
  have h3 : (x + y) / (fa.cE + fa.cF) * (fa.cE + fa.cF) ≤ x + y := Nat.div_mul_le_self _ _
  generalize (x + y) / (fa.cE + fa.cF) = z at *
  have h4 : min (fa.maxF * R * f / F) z ≤ z := Nat.min_le_right _ _
  generalize min (fa.maxF * R * f / F) z = u at *
  have h5 : u * ((fa.cE + fa.cF) * E * F) ≤ z * (fa.cE + fa.cF) * (E * F) := by
    have : u * ((fa.cE + fa.cF) * E * F) = u * (fa.cE + fa.cF) * (E * F) := by ring
    rw [this]
    exact Nat.mul_le_mul_right _ (Nat.mul_le_mul_right _ h4)
  have h6 : z * (fa.cE + fa.cF) * (E * F) ≤ (x + y) * (E * F) := Nat.mul_le_mul_right _ h3
  have h7 : (x + y) * (E * F) = x * E * F + y * F * E := by ring
  have h8 : x * E * F ≤ R * fa.cE * e * F := Nat.mul_le_mul_right _ h1
  have h9 : y * F * E ≤ R * fa.cF * f * E := Nat.mul_le_mul_right _ h2
  have h10 : R * (fa.cE * F * e + fa.cF * E * f) = R * fa.cE * e * F + R * fa.cF * f * E := by ring
  omega

/-! ### the hypothesis under which the weekly subtraction is safe -/

/-- **the week budget**: for a week with factors `fa`, frozen pool `R`, recorded farm supply `F` and
    total energy `E`: what has been `paid` out of the pool so far, plus the (un-floored) shares
    `R·(cE·e/E + cF·f/F)/(cE+cF)` of everybody who can still claim the week — `sumE`, `sumF` are the
    sums of their energies (decayed to the week) and of their total farm positions — fits into `R`.
    Cross-multiplied by `(cE+cF)·E·F`. -/
def WeekBudget (fa : Factors) (R F E paid sumE sumF : Nat) : Prop :=
  paid * ((fa.cE + fa.cF) * E * F) + R * (fa.cE * F * sumE + fa.cF * E * sumF)
    ≤ R * ((fa.cE + fa.cF) * E * F)

/-- at freeze time (nothing paid yet) the budget holds as soon as the claimers' energies are within
    the week's total energy and their farm positions within the week's recorded supply -/
theorem WeekBudget.init (fa : Factors) (R F E sumE sumF : Nat) (hE : sumE ≤ E) (hF : sumF ≤ F) :
    WeekBudget fa R F E 0 sumE sumF := by
  unfold WeekBudget
  rw [Nat.zero_mul, Nat.zero_add]
  apply Nat.mul_le_mul_left
  have h1 : fa.cE * F * sumE ≤ fa.cE * F * E := Nat.mul_le_mul_left _ hE
  have h2 : fa.cF * E * sumF ≤ fa.cF * E * F := Nat.mul_le_mul_left _ hF
  have h3 : (fa.cE + fa.cF) * E * F = fa.cE * F * E + fa.cF * E * F := by ring
  omega

/-- the budget only gets easier when claimers drop out (their progress moves past the week) or
    shrink (exit) -/
theorem WeekBudget.mono {fa : Factors} {R F E paid sumE sumF sumE' sumF' : Nat}
    (h : WeekBudget fa R F E paid sumE sumF) (hE : sumE' ≤ sumE) (hF : sumF' ≤ sumF) :
    WeekBudget fa R F E paid sumE' sumF' := by
  unfold WeekBudget at h ⊢
  have h1 : fa.cE * F * sumE' ≤ fa.cE * F * sumE := Nat.mul_le_mul_left _ hE
  have h2 : fa.cF * E * sumF' ≤ fa.cF * E * sumF := Nat.mul_le_mul_left _ hF
  have h3 : R * (fa.cE * F * sumE' + fa.cF * E * sumF') ≤ R * (fa.cE * F * sumE + fa.cF * E * sumF) :=
    Nat.mul_le_mul_left _ (by omega)
  omega

/-- a claimer with energy `e` and position `f` (one of those counted in `sumE`, `sumF`) is paid
    `u = boostedAmount …`: the budget holds again with `u` booked as paid and the claimer removed -/
theorem WeekBudget.pay {fa : Factors} {R F E paid sumE sumF e f : Nat}
    (h : WeekBudget fa R F E paid sumE sumF) (he : e ≤ sumE) (hf : f ≤ sumF) :
    WeekBudget fa R F E (paid + boostedAmount fa R f F e E) (sumE - e) (sumF - f) := by
  unfold WeekBudget at h ⊢
  have hc := boostedAmount_cross fa R f F e E
  generalize boostedAmount fa R f F e E = u at *
  generalize hK : (fa.cE + fa.cF) * E * F = K at *
  have h1 : fa.cE * F * sumE = fa.cE * F * (sumE - e) + fa.cE * F * e := by
    rw [← Nat.mul_add, Nat.sub_add_cancel he]
  have h2 : fa.cF * E * sumF = fa.cF * E * (sumF - f) + fa.cF * E * f := by
    rw [← Nat.mul_add, Nat.sub_add_cancel hf]
  rw [h1, h2] at h
  rw [Nat.add_mul]
  have h3 : R * (fa.cE * F * (sumE - e) + fa.cE * F * e + (fa.cF * E * (sumF - f) + fa.cF * E * f)) =
      R * (fa.cE * F * (sumE - e) + fa.cF * E * (sumF - f)) + R * (fa.cE * F * e + fa.cF * E * f) := by
    ring
  omega

/-- **under the week budget the subtraction is safe**: with `remaining = R − paid` (frozen-pool
    accounting), a claimer counted in the budget never asks for more than `remaining` -/
theorem WeekBudget.sub_ok {fa : Factors} {R F E paid sumE sumF e f remaining : Nat}
    (h : WeekBudget fa R F E paid sumE sumF) (he : e ≤ sumE) (hf : f ≤ sumF)
    (hc : fa.cE + fa.cF ≠ 0) (hE : E ≠ 0) (hF : F ≠ 0) (hrem : remaining + paid = R) :
    boostedAmount fa R f F e E ≤ remaining := by
  have h1 := h.pay he hf
  unfold WeekBudget at h1
  generalize boostedAmount fa R f F e E = u at *
  have hK : 0 < (fa.cE + fa.cF) * E * F :=
    Nat.mul_pos (Nat.mul_pos (Nat.pos_of_ne_zero hc) (Nat.pos_of_ne_zero hE)) (Nat.pos_of_ne_zero hF)
  have h2 : (paid + u) * ((fa.cE + fa.cF) * E * F) ≤ R * ((fa.cE + fa.cF) * E * F) :=
    Nat.le_trans (Nat.le_add_right _ _) h1
  have h3 := Nat.le_of_mul_le_mul_right h2 hK
  omega

/-! ### exactly when one week's reward computation aborts -/

/-- `get_user_rewards_for_week` aborts the transaction iff the week is live (`E ≠ 0`, `F ≠ 0`) and
    either the factors of the week are out of the ring's reach, or the user passes the minima and
    the frozen list is malformed (never, see `collectAndGet_boosted`), or the pool is non-empty and
    `cE + cF = 0`, or — the only arithmetic cause — the computed reward exceeds `remaining`. -/
theorem boostedRewards_none_iff (mem : BCfg) (f : Nat) (g : Weekly.St) (c : BSt) (week e E : Nat) :
    boostedRewards mem f g c week e E = none ↔
      (E ≠ 0 ∧ c.farmSupplyWeek week ≠ 0 ∧
        (mem.factorsForWeek week = none ∨
         ∃ fa, mem.factorsForWeek week = some fa ∧ fa.minE ≤ e ∧ fa.minF ≤ f ∧
           let r := Weekly.collectAndGet (collectBoosted mem) g c week
           ((∃ p q l, r.2.2 = p :: q :: l) ∨
            ∃ tok R, r.2.2 = [(tok, R)] ∧ R ≠ 0 ∧
              (fa.cE + fa.cF = 0 ∨
               (boostedAmount fa R f (c.farmSupplyWeek week) e E ≠ 0 ∧
                r.2.1.remaining week < boostedAmount fa R f (c.farmSupplyWeek week) e E))))) := by
  unfold boostedRewards
  simp only
  by_cases h0 : E = 0 ∨ c.farmSupplyWeek week = 0
  · rw [if_pos h0]
    constructor
    · intro h; cases h
    · rintro ⟨h1, h2, _⟩
      rcases h0 with h0 | h0
      · exact absurd h0 h1
      · exact absurd h0 h2
  · rw [if_neg h0]
    have hE : E ≠ 0 := fun h => h0 (Or.inl h)
    have hF : c.farmSupplyWeek week ≠ 0 := fun h => h0 (Or.inr h)
    cases hfa : mem.factorsForWeek week with
    | none =>
      simp only [Option.bind_eq_bind, Option.bind_none, true_iff]
      exact ⟨hE, hF, Or.inl trivial⟩
    | some fa =>
      simp only [Option.bind_eq_bind, Option.bind_some]
      by_cases h1 : e < fa.minE ∨ f < fa.minF
      · rw [if_pos h1]
        constructor
        · intro h; cases h
        · rintro ⟨_, _, h | ⟨fa', hfa', hme, hmf, _⟩⟩
          · cases h
          · simp only [Option.some.injEq] at hfa'
            subst hfa'
            omega
      · rw [if_neg h1]
        have hme : fa.minE ≤ e := Nat.le_of_not_lt fun h => h1 (Or.inl h)
        have hmf : fa.minF ≤ f := Nat.le_of_not_lt fun h => h1 (Or.inr h)
        generalize Weekly.collectAndGet (collectBoosted mem) g c week = r
        obtain ⟨g1, c1, l⟩ := r
        simp only
        have key : ∀ (P : Prop),
            (P ↔ ((∃ p q l', l = p :: q :: l') ∨
              ∃ tok R, l = [(tok, R)] ∧ R ≠ 0 ∧
                (fa.cE + fa.cF = 0 ∨
                 (boostedAmount fa R f (c.farmSupplyWeek week) e E ≠ 0 ∧
                  c1.remaining week < boostedAmount fa R f (c.farmSupplyWeek week) e E)))) →
            (P ↔ (E ≠ 0 ∧ c.farmSupplyWeek week ≠ 0 ∧
              (some fa = none ∨ ∃ fa', some fa = some fa' ∧ fa'.minE ≤ e ∧ fa'.minF ≤ f ∧
                ((∃ p q l', l = p :: q :: l') ∨
                 ∃ tok R, l = [(tok, R)] ∧ R ≠ 0 ∧
                   (fa'.cE + fa'.cF = 0 ∨
                    (boostedAmount fa' R f (c.farmSupplyWeek week) e E ≠ 0 ∧
                     c1.remaining week < boostedAmount fa' R f (c.farmSupplyWeek week) e E)))))) := by
          intro P hP
          rw [hP]
          constructor
          · intro h
            exact ⟨hE, hF, Or.inr ⟨fa, rfl, hme, hmf, h⟩⟩
          · rintro ⟨_, _, h | ⟨fa', hfa', _, _, h⟩⟩
            · cases h
            · simp only [Option.some.injEq] at hfa'
              subst hfa'
              exact h
        apply key
        match l with
        | [] =>
          simp only [Option.pure_def, reduceCtorEq, false_iff]
          rintro (⟨_, _, _, h⟩ | ⟨_, _, h, _⟩) <;> cases h
        | [(tok, R)] =>
          simp only
          by_cases hR : R = 0
          · rw [if_pos hR]
            simp only [Option.pure_def, reduceCtorEq, false_iff]
            rintro (⟨_, _, _, h⟩ | ⟨tok', R', h, hR', _⟩)
            · cases h
            · simp only [List.cons.injEq, Prod.mk.injEq, and_true] at h
              exact hR' (h.2 ▸ hR)
          · rw [if_neg hR]
            by_cases hc : fa.cE + fa.cF ≠ 0
            · have hreq : req (fa.cE + fa.cF ≠ 0) = some () := (req_eq_some ()).mpr hc
              simp only [hreq, Option.bind_some]
              by_cases hu : boostedAmount fa R f (c.farmSupplyWeek week) e E = 0
              · rw [if_pos hu]
                simp only [Option.pure_def, reduceCtorEq, false_iff]
                rintro (⟨_, _, _, h⟩ | ⟨tok', R', h, _, h2⟩)
                · cases h
                · simp only [List.cons.injEq, Prod.mk.injEq, and_true] at h
                  obtain ⟨_, rfl⟩ := h
                  rcases h2 with h2 | ⟨h2, _⟩
                  · exact hc h2
                  · exact h2 hu
              · rw [if_neg hu]
                by_cases hle : boostedAmount fa R f (c.farmSupplyWeek week) e E ≤ c1.remaining week
                · have hs : sub? (c1.remaining week) (boostedAmount fa R f (c.farmSupplyWeek week) e E) =
                      some (c1.remaining week - boostedAmount fa R f (c.farmSupplyWeek week) e E) := by
                    simp [sub?, hle]
                  simp only [hs, Option.bind_some, Option.pure_def, reduceCtorEq, false_iff]
                  rintro (⟨_, _, _, h⟩ | ⟨tok', R', h, _, h2⟩)
                  · cases h
                  · simp only [List.cons.injEq, Prod.mk.injEq, and_true] at h
                    obtain ⟨_, rfl⟩ := h
                    rcases h2 with h2 | ⟨_, h2⟩
                    · exact hc h2
                    · omega
                · have hs : sub? (c1.remaining week) (boostedAmount fa R f (c.farmSupplyWeek week) e E) =
                      none := by simp [sub?, hle]
                  simp only [hs, Option.bind_none, true_iff]
                  exact Or.inr ⟨tok, R, rfl, hR, Or.inr ⟨hu, by omega⟩⟩
            · have hc' : fa.cE + fa.cF = 0 := by omega
              have hreq : req (fa.cE + fa.cF ≠ 0) = none := req_eq_none.mpr (fun h => h hc')
              simp only [hreq, Option.bind_none, true_iff]
              exact Or.inr ⟨tok, R, rfl, hR, Or.inl hc'⟩
        | p :: q :: l' =>
          simp only [true_iff]
          exact Or.inl ⟨p, q, l', rfl⟩

end Mx.Farm
