/-
  Weekly module: precise frame of the global update on `totalEnergyForWeek` — the only entry other
  than the current week's that can change is week `W − 5`, which is cleared; the last globally
  updated week only moves forward.  Used for "the denominator of a closed week is frozen".
-/
import MxModel.Lemmas.WeeklyHist

namespace Mx.Weekly

/-- the weekly update writes the current week's total and clears week `W − 5`; nothing else -/
theorem performWeeklyUpdate_energy_exact {g g1 : St} {W : Nat}
    (h : performWeeklyUpdate g W = some g1) :
    ∀ w, w ≠ W → g1.totalEnergy w = g.totalEnergy w ∨ (g1.totalEnergy w = 0 ∧ w + 5 = W) := by
  intro w hw
  unfold performWeeklyUpdate at h
  split at h
  · simp only [Option.some.injEq] at h; subst h; exact Or.inl rfl
  split at h
  · simp only [Option.some.injEq] at h; subst h; exact Or.inl rfl
  · simp only [Option.bind_eq_bind, Option.bind_eq_some_iff, req_eq_some] at h
    obtain ⟨_, _, ⟨g2, t2⟩, hs, h⟩ := h
    obtain ⟨e, _⟩ := shiftN_totalEnergy _ hs
    simp only at e
    split at h
    · rename_i hbig
      simp only [Option.pure_def, Option.some.injEq] at h
      subst h
      simp only [USER_MAX_CLAIM_WEEKS] at hbig ⊢
      by_cases h5 : w = W - 4 - 1
      · right; exact ⟨by simp [h5], by omega⟩
      · left; simp only [upd_other _ _ h5, upd_other _ _ hw, e]
    · simp only [Option.pure_def, Option.some.injEq] at h
      subst h
      left; simp only [upd_other _ _ hw, e]

theorem updateGlobal_energy_exact {g g' : St} {W la : Nat} {prev cur : Energy}
    (h : updateGlobal g W la prev cur = some g') :
    ∀ w, w ≠ W → g'.totalEnergy w = g.totalEnergy w ∨ (g'.totalEnergy w = 0 ∧ w + 5 = W) := by
  simp only [updateGlobal, Option.bind_eq_bind, Option.bind_eq_some_iff, req_eq_some] at h
  obtain ⟨g1, h1, _, _, ⟨g2, bp⟩, hre, g3, htk, hen⟩ := h
  dsimp only at htk hen
  intro w hw
  have e1 := (updateTotalEnergy_spec hen).2.2.2.2.2.2.2.1 w hw
  have e2 := (updateTotalTokens_spec htk).2.2.2.1
  have e3 := (reallocate_spec hre).2.2.1.totalEnergy
  rw [e1, e2, e3]
  exact performWeeklyUpdate_energy_exact h1 w hw

/-- the user update (first part of every entry point) leaves the totals of the four most recent
    completed weeks — the claimable ones — exactly as they were -/
theorem updateUser_energy_window {g g' : St} {W : Nat} {cur : Energy} {o : Option ClaimProgress}
    (h : updateUserEnergyForCurrentWeek g W cur o = some g') :
    ∀ w, w ≠ W → W ≤ w + 4 → g'.totalEnergy w = g.totalEnergy w := by
  rw [updateUserEnergyForCurrentWeek_eq] at h
  intro w hw hwin
  rcases updateGlobal_energy_exact h w hw with e | ⟨_, e⟩
  · exact e
  · omega

theorem updateUser_energy_exact {g g' : St} {W : Nat} {cur : Energy} {o : Option ClaimProgress}
    (h : updateUserEnergyForCurrentWeek g W cur o = some g') :
    ∀ w, w ≠ W → g'.totalEnergy w = g.totalEnergy w ∨ (g'.totalEnergy w = 0 ∧ w + 5 = W) := by
  rw [updateUserEnergyForCurrentWeek_eq] at h
  exact updateGlobal_energy_exact h

/-- the global update never moves `lastGlobalUpdateWeek` backwards -/
theorem updateUser_lgw_le {g g' : St} {W : Nat} {cur : Energy} {o : Option ClaimProgress}
    (h : updateUserEnergyForCurrentWeek g W cur o = some g') : g.lastGlobalUpdateWeek ≤ W := by
  rw [updateUserEnergyForCurrentWeek_eq] at h
  simp only [updateGlobal, Option.bind_eq_bind, Option.bind_eq_some_iff, req_eq_some] at h
  obtain ⟨g1, h1, _⟩ := h
  unfold performWeeklyUpdate at h1
  split at h1
  · rename_i hs; omega
  split at h1
  · rename_i hs; omega
  · simp only [Option.bind_eq_bind, Option.bind_eq_some_iff, req_eq_some] at h1
    obtain ⟨_, hle, _⟩ := h1
    exact hle

/-- how one transaction may change the per-week energy totals: the last updated week only moves
    forward, and any week other than the (new) last updated week keeps its total — or is week
    `lastGlobalUpdateWeek − 5`, which is cleared -/
structure EStep (g g' : St) : Prop where
  mono : g.lastGlobalUpdateWeek ≤ g'.lastGlobalUpdateWeek
  frame : ∀ w, w ≠ g'.lastGlobalUpdateWeek →
    g'.totalEnergy w = g.totalEnergy w ∨ (g'.totalEnergy w = 0 ∧ w + 5 = g'.lastGlobalUpdateWeek)

theorem EStep.refl (g : St) : EStep g g := ⟨Nat.le_refl _, fun _ _ => Or.inl rfl⟩

theorem EStep.of_eq {g g' g'' : St} (h : EStep g g') (e1 : g''.lastGlobalUpdateWeek = g'.lastGlobalUpdateWeek)
    (e2 : g''.totalEnergy = g'.totalEnergy) : EStep g g'' :=
  ⟨by rw [e1]; exact h.mono, fun w hw => by rw [e1] at hw ⊢; rw [e2]; exact h.frame w hw⟩

theorem updateUser_EStep {g g' : St} {W u0 : Nat} {cur : Energy} (hW : 1 ≤ W) (hI : GInv g)
    (h : updateUserEnergyForCurrentWeek g W cur (g.progress u0) = some g') : EStep g g' := by
  obtain ⟨_, hlgw, _, _⟩ := updateUser_GRel hW hI h
  refine ⟨by rw [hlgw]; exact updateUser_lgw_le h, fun w hw => ?_⟩
  rw [hlgw] at hw ⊢
  exact updateUser_energy_exact h w hw

theorem updateEnergyAndProgress_EStep {g g' : St} {user W : Nat} {cur : Energy} (hW : 1 ≤ W)
    (hI : GInv g) (h : updateEnergyAndProgress g user W cur = some g') : EStep g g' := by
  simp only [updateEnergyAndProgress, Option.bind_eq_bind, Option.bind_eq_some_iff, Option.pure_def,
    Option.some.injEq] at h
  obtain ⟨g1, h1, rfl⟩ := h
  exact (updateUser_EStep hW hI h1).of_eq rfl rfl

theorem updateEnergyForUser_EStep {g g' : St} {user W : Nat} {cur : Energy} (hW : 1 ≤ W)
    (hI : GInv g) (h : updateEnergyForUser g user W cur = some g') : EStep g g' := by
  unfold updateEnergyForUser at h
  cases hq : g.progress user with
  | none =>
    simp only [hq, Option.bind_eq_bind, Option.pure_def, Option.bind_some] at h
    exact updateEnergyAndProgress_EStep hW hI h
  | some p =>
    simp only [hq, Option.bind_eq_bind, Option.bind_eq_some_iff] at h
    obtain ⟨_, _, h2⟩ := h
    exact updateEnergyAndProgress_EStep hW hI h2

theorem clearUserEnergy_EStep {g g' : St} {user W epoch remaining minFarm : Nat} (hW : 1 ≤ W)
    (hI : GInv g) (h : clearUserEnergy g user W epoch remaining minFarm = some g') : EStep g g' := by
  unfold clearUserEnergy at h
  split at h
  · simp only [Option.some.injEq] at h; subst h; exact EStep.refl _
  · simp only [Option.bind_eq_bind, Option.bind_eq_some_iff, Option.pure_def,
      Option.some.injEq] at h
    obtain ⟨g1, h1, rfl⟩ := h
    exact (updateUser_EStep hW hI h1).of_eq rfl rfl

theorem claimMulti_EStep {σ : Type} {rw : RewardFn σ} (hrw : RwFrame rw) {g g' : St} {c c' : σ}
    {user W : Nat} {cur : Energy} {r : List (Tok × Nat)} (hW : 1 ≤ W) (hI : GInv g)
    (h : claimMulti rw g c user W cur = some (g', c', r)) : EStep g g' := by
  obtain ⟨g1, a, h1, _, ha, rfl, _, _⟩ := claimMulti_spec h
  obtain ⟨fr, _⟩ := claimLoop_frame hrw _ ha
  simp only at fr
  exact (updateUser_EStep hW hI h1).of_eq fr.lgw fr.totalEnergy

/-- Σ over the participants of their recorded energies decayed to week `w` -/
def recordedEnergy (g : St) (u w : Nat) : Nat :=
  match g.progress u with
  | some p => (p.energy.after (w - p.week)).getEnergyAmount
  | none => 0

def recordedSum (g : St) (w : Nat) : Nat := usum g.users (fun u => recordedEnergy g u w)

/-- `GInv`: the total of the last updated week IS the sum of the recorded energies decayed to it -/
theorem GInv.energy_eq {g : St} (hI : GInv g) :
    g.totalEnergy g.lastGlobalUpdateWeek = recordedSum g g.lastGlobalUpdateWeek := by
  unfold recordedSum
  rcases hI with hp | ⟨o, hr⟩
  · rw [hp.energy, hp.noUsers]; rfl
  · rw [hr.l.energy]
    apply usum_congr
    intro u _
    unfold recordedEnergy lotAt
    cases hpu : g.progress u with
    | none => simp [Lot.contrib]
    | some p =>
      simp only [Lot.contrib]
      rw [Energy.after_getEnergyAmount, toNat_sub_nat]
      rfl

/-- `GInv`: weeks after the last updated one have no total yet -/
theorem GInv.future_zero {g : St} (hI : GInv g) {w : Nat} (hw : g.lastGlobalUpdateWeek < w) :
    g.totalEnergy w = 0 := by
  rcases hI with hp | ⟨o, hr⟩
  · exact hp.energy w
  · exact (hr.fut w hw).1

/-- invariant tying a week's stored total to the value `acc` it had when it was last the running
    week: before the week is reached nothing is stored and `acc = 0`; once the global week has
    moved past it the total is `acc` — or was cleared (only possible 5 weeks later) -/
def CloseInv (g : St) (acc w : Nat) : Prop :=
  (g.lastGlobalUpdateWeek < w → acc = 0) ∧
  (w < g.lastGlobalUpdateWeek →
    g.totalEnergy w = acc ∨ (g.totalEnergy w = 0 ∧ w + 4 < g.lastGlobalUpdateWeek))

/-- the value to remember for week `w` when leaving state `g` -/
def closeAcc (g : St) (acc w : Nat) : Nat :=
  if g.lastGlobalUpdateWeek = w then recordedSum g w else acc

theorem CloseInv.step {g g' : St} {acc w : Nat} (hI : GInv g) (hC : CloseInv g acc w)
    (hE : EStep g g') : CloseInv g' (closeAcc g acc w) w := by
  unfold closeAcc
  constructor
  · intro hlt
    have : g.lastGlobalUpdateWeek < w := Nat.lt_of_le_of_lt hE.mono hlt
    rw [if_neg (by omega)]
    exact hC.1 this
  · intro hlt
    have hfr := hE.frame w (by omega)
    rcases Nat.lt_trichotomy g.lastGlobalUpdateWeek w with h1 | h1 | h1
    · rw [if_neg (by omega), hC.1 h1]
      have hz := hI.future_zero h1
      rcases hfr with e | ⟨e, _⟩
      · left; rw [e, hz]
      · left; exact e
    · rw [if_pos h1]
      have he := hI.energy_eq
      rw [h1] at he
      rcases hfr with e | ⟨e, e5⟩
      · left; rw [e, he]
      · right; exact ⟨e, by omega⟩
    · rw [if_neg (by omega)]
      rcases hfr with e | ⟨e, e5⟩
      · rcases hC.2 h1 with hc | ⟨hc, hc4⟩
        · left; rw [e, hc]
        · right; exact ⟨by rw [e, hc], Nat.lt_of_lt_of_le hc4 hE.mono⟩
      · right; exact ⟨e, by omega⟩

/-- reading the invariant off: the stored total of week `w` is the remembered value, unless it
    was cleared -/
theorem CloseInv.read {g : St} {acc w : Nat} (hI : GInv g) (hC : CloseInv g acc w) :
    g.totalEnergy w = closeAcc g acc w ∨
      (g.totalEnergy w = 0 ∧ w + 4 < g.lastGlobalUpdateWeek) := by
  unfold closeAcc
  rcases Nat.lt_trichotomy g.lastGlobalUpdateWeek w with h1 | h1 | h1
  · left; rw [if_neg (by omega), hC.1 h1]; exact hI.future_zero h1
  · left; rw [if_pos h1]
    have he := hI.energy_eq
    rw [h1] at he
    exact he
  · rw [if_neg (by omega)]; exact hC.2 h1

end Mx.Weekly
