/-
  The farm-staking reward view `calculateRewardsForGivenPosition(amount, attributes)` spelled out,
  and what `claimRewards` (all variants) / `unstakeFarm` / `compoundRewards` pay, all in terms of
  the SAME settled cache `genCache s s.cache` and the same formula
  `baseReward + boosted(user)` — for an arbitrary user `orig` whose boosted rewards are claimed.
  The Rust view has no `user` argument: it always evaluates the boosted part for
  `attributes.original_owner` (lib.rs, commit da24d8b).
-/
import MxModel.Lemmas.StakingFactors

namespace Mx.Staking

open Mx.Weekly

/-- the base reward depends on the attributes only through the reward index -/
theorem baseReward_rps {c : Cache} {dsc amt : Nat} {t t' : Attrs} (h : t.rps = t'.rps) :
    baseReward c dsc amt t = baseReward c dsc amt t' := by
  unfold baseReward; rw [h]

/-- the state a committed query would leave -/
def viewSt (s : St) (r : Weekly.St × B × Nat) : St :=
  ({ genSt s with w := r.1, b := r.2.1 } : St).flush (genCache s s.cache)

/-- the view, spelled out -/
theorem calcRewards_eq_some {s st : St} {amt : Nat} {t : Attrs} {q : Nat} :
    calcRewards s true amt t = some (st, q) ↔
      s.accumulated ≤ s.capacity ∧ genCut s (genTot s) ≤ genTot s ∧
      ∃ r, claimBoostedYields (genSt s) t.owner (s.userTotal t.owner) = some r ∧
        q = baseReward (genCache s s.cache) s.dsc amt t + r.2.2 ∧ st = viewSt s r := by
  constructor
  · intro h
    simp only [calcRewards, Option.bind_eq_bind, Option.bind_eq_some_iff, req_eq_some,
      Option.pure_def, Option.some.injEq, Prod.mk.injEq] at h
    obtain ⟨_, _, ⟨s1, c1⟩, hg, r, hr, rfl, rfl⟩ := h
    obtain ⟨h1, h2, rfl, rfl⟩ := generate_spec hg
    exact ⟨h1, h2, r, hr, rfl, rfl⟩
  · rintro ⟨h1, h2, r, hr, rfl, rfl⟩
    have hg : generate s s.cache = some (genSt s, genCache s s.cache) := by
      simp only [generate, req_true h1, req_true h2, Option.bind_eq_bind, Option.bind_some,
        Option.pure_def]
      rfl
    have hr' : claimBoostedYields (genSt s) t.owner ((genSt s).userTotal t.owner) = some r := hr
    simp only [calcRewards, Option.bind_eq_bind, hg, Option.bind_some, hr', Option.pure_def]
    rw [req_true trivial]
    rfl

/-- `claimRewards` in all variants (`claimCore`: own claim, through a whitelisted contract,
    on behalf, with a new value): the reward is the base reward of the first payment at the settled
    cache plus the boosted claim of `orig`; the settlement cells of the result -/
theorem claimCore_pays {s s' : St} {c orig : Nat} {pays : List Pay} {nv : Option Nat} {o : Out}
    (h : claimCore s c orig pays nv = some (s', o)) :
    ∃ p first r, pays.head? = some p ∧ posOf s.md p.1 = some first ∧
      s.accumulated ≤ s.capacity ∧ genCut s (genTot s) ≤ genTot s ∧
      claimBoostedYields (genSt s) orig (s.userTotal orig) = some r ∧
      o.c = baseReward (genCache s s.cache) s.dsc p.2 first + r.2.2 ∧
      s'.rps = (genCache s s.cache).rps ∧ s'.lastBlock = (genSt s).lastBlock ∧
      s'.accumulated = (genSt s).accumulated ∧ s'.reserve + o.c = (genCache s s.cache).reserve ∧
      s'.baseBudget = (genSt s).baseBudget ∧ s'.boostedBudget = (genSt s).boostedBudget := by
  simp only [claimCore, Option.bind_eq_bind, Option.bind_eq_some_iff] at h
  obtain ⟨m, hm, h⟩ := h
  obtain ⟨p, first, tok, r, hp, hf, ht, hr, hbo, _, _, hb, _, e1, e2⟩ := claimBase_reward hm
  obtain ⟨h1, h2, _⟩ := claimBase_spec hm
  simp only [claimFinish, Option.bind_eq_bind, Option.bind_eq_some_iff, req_eq_some,
    sub?_eq_some, Option.pure_def, Option.some.injEq, Prod.mk.injEq] at h
  obtain ⟨res1, ⟨hres, rfl⟩, sup1, _, ut2, _, _, _, w2, _, bal1, _, rfl, rfl⟩ := h
  have hbase : m.base = baseReward (genCache s s.cache) s.dsc p.2 first := by
    rw [hb]; exact baseReward_rps (intoPart_spec ht).1
  refine ⟨p, first, r, hp, hf, h1, h2, hr, ?_, ?_, ?_, ?_, ?_, ?_, ?_⟩
  · show m.base + m.boosted = _
    rw [hbase, hbo]
  · show m.c1.rps = _
    rw [e2]
  · show m.s1.lastBlock = _
    rw [e1]
  · show m.s1.accumulated = _
    rw [e1]
  · show m.c1.reserve - (m.base + m.boosted) + (m.base + m.boosted) = _
    rw [← e2]
    exact Nat.sub_add_cancel hres
  · show m.s1.baseBudget = _
    rw [e1]
  · show m.s1.boostedBudget = _
    rw [e1]

/-- `unstakeFarm` / `unstakeFarmThroughProxy`: same reward on the part taken out -/
theorem unstakeCore_pays {s s' : St} {c orig : Nat} {pay : Pay} {x : Option Nat} {o : Out}
    (h : unstakeCore s c orig pay x = some (s', o)) :
    ∃ first r, posOf s.md pay.1 = some first ∧
      s.accumulated ≤ s.capacity ∧ genCut s (genTot s) ≤ genTot s ∧
      claimBoostedYields (genSt s) orig (s.userTotal orig) = some r ∧
      o.c = baseReward (genCache s s.cache) s.dsc pay.2 first + r.2.2 := by
  cases x <;>
  · simp only [unstakeCore, Option.bind_eq_bind, Option.bind_eq_some_iff, req_eq_some,
      sub?_eq_some, Option.pure_def, Option.some.injEq, Prod.mk.injEq] at h
    obtain ⟨_, _, hold0, _, _, _, attrs, ha', ⟨s1, c1⟩, hg, tok, htok, r, hr, res1, _,
      sup1, _, w2, _, bal1, _, rfl, rfl⟩ := h
    obtain ⟨ha, hc, rfl, rfl⟩ := generate_spec hg
    refine ⟨attrs, r, ha', ha, hc, hr, ?_⟩
    show baseReward (genCache s s.cache) s.dsc pay.2 tok + r.2.2 = _
    rw [baseReward_rps (intoPart_spec htok).1]

/-- `compoundRewards`: the same reward (for the caller), added to the position -/
theorem compound_pays {s s' : St} {c : Nat} {pays : List Pay} {o : Out}
    (h : compound s c pays = some (s', o)) :
    ∃ p first r, pays.head? = some p ∧ posOf s.md p.1 = some first ∧
      s.accumulated ≤ s.capacity ∧ genCut s (genTot s) ≤ genTot s ∧
      claimBoostedYields (genSt s) c (s.userTotal c) = some r ∧
      o.c = baseReward (genCache s s.cache) s.dsc p.2 first + r.2.2 := by
  simp only [compound, Option.bind_eq_bind, Option.bind_eq_some_iff, req_eq_some,
    sub?_eq_some, Option.pure_def, Option.some.injEq, Prod.mk.injEq] at h
  obtain ⟨hold0, _, _, _, p, hp, first, hf, ⟨s1, c1⟩, hg, tok, ht, r, hr, res1, _, ut1, _,
    merged, _, rfl, rfl⟩ := h
  obtain ⟨ha, hc, rfl, rfl⟩ := generate_spec hg
  refine ⟨p, first, r, hp, hf, ha, hc, hr, ?_⟩
  show baseReward (genCache s s.cache) s.dsc p.2 tok + r.2.2 = _
  rw [baseReward_rps (intoPart_spec ht).1]

end Mx.Staking
