/-
  Access / pause facts about the EXECUTABLE pair model (Core/Pair.lean), proved from the
  per-endpoint spec lemmas of Lemmas/PairSpec.lean (helper lemmas for Props/C19Models.lean).
-/
import MxModel.Lemmas.PairSpec

namespace Mx.Pair

/-! ### what a successful endpoint says about the pair's state -/

theorem swapIn_active {s : St} {d : Dir} {a m : Nat} {r : St × Out}
    (h : swapIn s d a m = some r) : s.status = .active := by
  obtain ⟨s', o⟩ := r
  obtain ⟨_, _, _, _, h3, _⟩ := swapIn_spec h
  exact h3

theorem swapOut_active {s : St} {d : Dir} {mx o : Nat} {r : St × Out}
    (h : swapOut s d mx o = some r) : s.status = .active := by
  obtain ⟨s', o'⟩ := r
  obtain ⟨_, _, _, _, h3, _⟩ := swapOut_spec h
  exact h3

theorem swapNoFee_active {s : St} {c : Nat} {d : Dir} {a : Nat} {r : St × Out}
    (h : swapNoFee s c d a = some r) : s.status = .active ∧ c ∈ s.wl := by
  obtain ⟨s', o'⟩ := r
  obtain ⟨h1, _, h3, _⟩ := swapNoFee_spec h
  exact ⟨h3, h1⟩

theorem addLiq_state {s : St} {a1 a2 m1 m2 : Nat} {r : St × Out}
    (h : addLiq s a1 a2 m1 m2 = some r) : s.status = .active ∨ s.status = .partialActive := by
  obtain ⟨s', o'⟩ := r
  by_cases hS : s.S = 0
  · exact (addLiq_first_spec hS h).2.2.1
  · obtain ⟨_, _, _, _, _, _, h5, _⟩ := addLiq_spec hS h
    exact h5

theorem removeLiq_state {s : St} {lp m1 m2 : Nat} {r : St × Out}
    (h : removeLiq s lp m1 m2 = some r) : s.status = .active ∨ s.status = .partialActive := by
  obtain ⟨s', o'⟩ := r
  exact (removeLiq_spec h).2.2.1

theorem addInitial_state {s : St} {c a1 a2 : Nat} {r : St × Out}
    (h : addInitial s c a1 a2 = some r) :
    s.status = .inactive ∧ s.S = 0 ∧ (s.adder = none ∨ s.adder = some c) := by
  obtain ⟨s', o'⟩ := r
  obtain ⟨h1, _, _, h4, h5, _⟩ := addInitial_spec h
  exact ⟨h4, h5, h1⟩

theorem buyback_wl {s : St} {c lp : Nat} {w : Want} {r : St × Out}
    (h : buyback s c lp w = some r) : c ∈ s.wl := by
  obtain ⟨s', o'⟩ := r
  obtain ⟨_, h1, _⟩ := buyback_spec h
  exact h1

/-! ### status after each operation -/

theorem FeeRel.status {d : Dir} {a b : St} {x : Nat} (h : FeeRel d a b x) : b.status = a.status :=
  h.same.2.2.2.1

theorem FeeRel.sameS {d : Dir} {a b : St} {x : Nat} (h : FeeRel d a b x) : b.S = a.S :=
  h.same.1


/-- the three state-setting configuration calls (`pause`, `resume`, `setStateActiveNoSwaps`) -/
def isSetState : Op → Bool
  | .cfg (.setState _) => true
  | _ => false

/-- "paused with liquidity": the state a pair is in after `pause` once a first deposit happened -/
def PausedLiq (s : St) : Prop := s.status = .inactive ∧ s.S ≠ 0

theorem cfg_keeps_paused {s s' : St} {o : CfgOp} (hp : PausedLiq s) (h : cfg s o = some s')
    (ho : isSetState (.cfg o) = false) : PausedLiq s' := by
  obtain ⟨hst, hS⟩ := hp
  cases o with
  | setState st => simp [isSetState] at ho
  | setFee t sp =>
    simp only [cfg, Option.bind_eq_bind, Option.bind_eq_some_iff, req_eq_some, Option.pure_def,
      Option.some.injEq] at h
    obtain ⟨_, _, rfl⟩ := h; exact ⟨hst, hS⟩
  | addDest w =>
    simp only [cfg, Option.pure_def, Option.some.injEq] at h
    subst h; exact ⟨hst, hS⟩
  | removeDest i =>
    simp only [cfg, Option.bind_eq_bind, Option.bind_eq_some_iff, req_eq_some, Option.pure_def,
      Option.some.injEq] at h
    obtain ⟨_, _, rfl⟩ := h; exact ⟨hst, hS⟩
  | setCollector c =>
    simp only [cfg, Option.bind_eq_bind, Option.bind_eq_some_iff, req_eq_some, Option.pure_def,
      Option.some.injEq] at h
    obtain ⟨_, _, rfl⟩ := h; exact ⟨hst, hS⟩
  | whitelist c =>
    simp only [cfg, Option.bind_eq_bind, Option.bind_eq_some_iff, req_eq_some, Option.pure_def,
      Option.some.injEq] at h
    obtain ⟨_, _, rfl⟩ := h; exact ⟨hst, hS⟩
  | removeWhitelist c =>
    simp only [cfg, Option.bind_eq_bind, Option.bind_eq_some_iff, req_eq_some, Option.pure_def,
      Option.some.injEq] at h
    obtain ⟨_, _, rfl⟩ := h; exact ⟨hst, hS⟩
  | setTrusted f x =>
    cases f <;>
    · simp only [cfg, Option.pure_def, Option.some.injEq] at h
      subst h; exact ⟨hst, hS⟩

/-- a pair that is Inactive and holds liquidity stays so under every successful operation other
    than a state-setting configuration call -/
theorem step_keeps_paused {s s' : St} {op : Op} {o : Out} (hp : PausedLiq s)
    (h : step s op = some (s', o)) (hop : isSetState op = false) : PausedLiq s' := by
  have hst := hp.1
  have hS := hp.2
  cases op with
  | addInitial c a1 a2 => exact absurd (addInitial_state h).2.1 hS
  | addLiq a1 a2 m1 m2 =>
    have := addLiq_state h
    rw [hst] at this; rcases this with h | h <;> cases h
  | removeLiq lp m1 m2 =>
    have := removeLiq_state h
    rw [hst] at this; rcases this with h | h <;> cases h
  | swapIn d a m => have := swapIn_active h; rw [hst] at this; cases this
  | swapOut d mx out => have := swapOut_active h; rw [hst] at this; cases this
  | swapNoFee c d a => have := (swapNoFee_active h).1; rw [hst] at this; cases this
  | buyback c lp w =>
    obtain ⟨s2, _, _, hle, _, _, _, _, _, _, f1, f2⟩ := buyback_spec h
    refine ⟨?_, ?_⟩
    · rw [f2.status, f1.status]; exact hst
    · rw [f2.sameS, f1.sameS]
      have hM : MINLIQ = 1000 := rfl
      show s.S - lp ≠ 0
      omega
  | cfg c =>
    simp only [step, Option.map_eq_some_iff, Prod.mk.injEq] at h
    obtain ⟨s1, h1, rfl, _⟩ := h
    exact cfg_keeps_paused hp h1 hop
  | advance r =>
    simp only [step] at h
    split at h
    · simp only [Option.some.injEq, Prod.mk.injEq] at h
      obtain ⟨rfl, _⟩ := h; exact ⟨hst, hS⟩
    · cases h
  | lock ow l =>
    simp only [step, Option.map_eq_some_iff, Prod.mk.injEq] at h
    obtain ⟨s1, h1, rfl, _⟩ := h
    cases l <;>
    · simp only [lockCfg, Option.bind_eq_bind, Option.bind_eq_some_iff, req_eq_some, Option.pure_def,
        Option.some.injEq] at h1
      obtain ⟨_, _, _, _, rfl⟩ := h1; exact ⟨hst, hS⟩
  | epoch e =>
    simp only [step] at h
    split at h
    · simp only [Option.some.injEq, Prod.mk.injEq] at h
      obtain ⟨rfl, _⟩ := h; exact ⟨hst, hS⟩
    · cases h

theorem run_keeps_paused (ops : List Op) {s : St} (hp : PausedLiq s)
    (hno : ∀ op ∈ ops, isSetState op = false) : PausedLiq (run s ops) := by
  induction ops generalizing s with
  | nil => exact hp
  | cons op rest ih =>
    simp only [run, List.foldl_cons]
    have hrest : ∀ x ∈ rest, isSetState x = false := fun x hx => hno x (List.mem_cons_of_mem _ hx)
    cases hs : step s op with
    | none => exact ih hp hrest
    | some r =>
      obtain ⟨s', o⟩ := r
      exact ih (step_keeps_paused hp hs (hno op List.mem_cons_self)) hrest

end Mx.Pair
