/-
  The backing invariant of the metastaking proxy and its preservation by every operation.

  `Inv s`:
    * per dual-yield nonce: released ≤ whole, outstanding ≤ minted, and the LP-farm amount not yet
      released covers the outstanding share  `lpA·out ≤ (lpA − rel)·stA`;
    * per LP-farm nonce the proxy holds exactly  Σ (lpA − rel)  over the dual-yield nonces that
      record it; per staking-farm nonce exactly  Σ out;
    * every pass-through balance is 0.
-/
import MxModel.Lemmas.DualYieldSpec

namespace Mx.DualYield

/-! ### sums over the token table -/

theorem sum_map_append_single (f : Tok → Nat) (l : List Tok) (a : Tok) :
    ((l ++ [a]).map f).sum = (l.map f).sum + f a := by
  simp

theorem sum_map_set (f : Tok → Nat) : ∀ {l : List Tok} {i : Nat} {t : Tok} (t' : Tok),
    l[i]? = some t → ((l.set i t').map f).sum + f t = (l.map f).sum + f t'
  | [], i, t, t', h => by simp at h
  | a :: l, 0, t, t', h => by
      simp only [List.getElem?_cons_zero, Option.some.injEq] at h
      subst h
      simp only [List.set_cons_zero, List.map_cons, List.sum_cons]
      omega
  | a :: l, i + 1, t, t', h => by
      simp only [List.getElem?_cons_succ] at h
      have := sum_map_set f (l := l) t' h
      simp only [List.set_cons_succ, List.map_cons, List.sum_cons]
      omega

theorem term_le_sum (f : Tok → Nat) : ∀ {l : List Tok} {i : Nat} {t : Tok},
    l[i]? = some t → f t ≤ (l.map f).sum
  | [], i, t, h => by simp at h
  | a :: l, 0, t, h => by
      simp only [List.getElem?_cons_zero, Option.some.injEq] at h
      subst h
      simp only [List.map_cons, List.sum_cons]
      omega
  | a :: l, i + 1, t, h => by
      simp only [List.getElem?_cons_succ] at h
      have := term_le_sum f (l := l) h
      simp only [List.map_cons, List.sum_cons]
      omega

theorem mem_set_of {l : List Tok} {i : Nat} {t' a : Tok} (h : a ∈ l.set i t') : a ∈ l ∨ a = t' := by
  rcases List.mem_or_eq_of_mem_set h with h | h
  · exact Or.inl h
  · exact Or.inr h

/-! ### the invariant -/

/-- what one dual-yield nonce still claims of LP-farm nonce `n` -/
def lpTerm (n : Nat) (t : Tok) : Nat := if t.lpN = n then t.lpA - t.rel else 0
/-- what one dual-yield nonce still claims of staking-farm nonce `n` -/
def stTerm (n : Nat) (t : Tok) : Nat := if t.stN = n then t.out else 0

/-- LP-farm tokens of nonce `n` not yet released, over all dual-yield nonces -/
def owedLp (ts : List Tok) (n : Nat) : Nat := (ts.map (lpTerm n)).sum
/-- staking-farm tokens of nonce `n` recorded by outstanding dual-yield tokens -/
def owedSt (ts : List Tok) (n : Nat) : Nat := (ts.map (stTerm n)).sum

structure TokOk (t : Tok) : Prop where
  /-- the parts released so far never exceed the whole -/
  rel_le : t.rel ≤ t.lpA
  out_le : t.out ≤ t.stA
  /-- what is left covers the outstanding share (cross-multiplied `(lpA−rel)/lpA ≥ out/stA`) -/
  share : t.lpA * t.out ≤ (t.lpA - t.rel) * t.stA

structure Inv (s : St) : Prop where
  toks : ∀ t ∈ s.toks, TokOk t
  lp : ∀ n, s.holdLp n = owedLp s.toks n
  st : ∀ n, s.holdSt n = owedSt s.toks n
  pass : s.pass = ⟨0, 0, 0, 0, 0⟩

theorem inv_init : Inv init :=
  ⟨(by intro t h; simp [init] at h), fun _ => rfl, fun _ => rfl, rfl⟩

theorem tokOk_new (lpN lpA stN stA : Nat) : TokOk (newTok lpN lpA stN stA) :=
  ⟨Nat.zero_le _, Nat.le_refl _, by simp [newTok]⟩

/-- a released part fits into what is left, and what is left afterwards still covers the rest -/
theorem tokOk_rel {t : Tok} {x p : Nat} (hk : TokOk t) (hx : x ≠ 0) (hp : part t x = some p)
    (ho : x ≤ t.out) : p ≤ t.lpA - t.rel ∧ TokOk (relTok t x p) := by
  obtain ⟨h1, h2, h3⟩ := hk
  rcases part_eq_some.1 hp with ⟨rfl, rfl⟩ | ⟨hne, hs, rfl, hp0⟩
  · -- the whole supply is paid: nothing was released before
    have hout : t.out = t.stA := Nat.le_antisymm h2 ho
    rw [hout] at h3
    have h4 : t.lpA ≤ t.lpA - t.rel := Nat.le_of_mul_le_mul_right h3 (Nat.pos_of_ne_zero hx)
    refine ⟨h4, ?_, ?_, ?_⟩
    · show t.rel + t.lpA ≤ t.lpA
      omega
    · show t.out - t.stA ≤ t.stA
      omega
    · show t.lpA * (t.out - t.stA) ≤ (t.lpA - (t.rel + t.lpA)) * t.stA
      rw [hout, Nat.sub_self, Nat.mul_zero]
      exact Nat.zero_le _
  · have hq : t.lpA * x / t.stA * t.stA ≤ t.lpA * x := Nat.div_mul_le_self _ _
    have hxo : t.lpA * x ≤ t.lpA * t.out := Nat.mul_le_mul_left _ ho
    have hpl : t.lpA * x / t.stA ≤ t.lpA - t.rel :=
      Nat.le_of_mul_le_mul_right (Nat.le_trans hq (Nat.le_trans hxo h3)) (Nat.pos_of_ne_zero hs)
    refine ⟨hpl, ?_, ?_, ?_⟩
    · show t.rel + t.lpA * x / t.stA ≤ t.lpA
      omega
    · show t.out - x ≤ t.stA
      omega
    · show t.lpA * (t.out - x) ≤ (t.lpA - (t.rel + t.lpA * x / t.stA)) * t.stA
      rw [Nat.mul_sub, Nat.sub_add_eq, Nat.sub_mul]
      generalize t.lpA * x / t.stA * t.stA = e at hq ⊢
      generalize t.lpA * x = b at hq hxo ⊢
      generalize t.lpA * t.out = a at hxo h3 ⊢
      generalize (t.lpA - t.rel) * t.stA = c at h3 ⊢
      omega

theorem lpTerm_rel (n : Nat) (t : Tok) (x p : Nat) :
    lpTerm n (relTok t x p) = if t.lpN = n then t.lpA - (t.rel + p) else 0 := rfl
theorem stTerm_rel (n : Nat) (t : Tok) (x p : Nat) :
    stTerm n (relTok t x p) = if t.stN = n then t.out - x else 0 := rfl

theorem release_inv {s s' : St} {u d x p : Nat} (hi : Inv s) (h : release s u d x = some (s', p)) :
    Inv s' := by
  obtain ⟨t, hd, ht, hx, hu, hp, ho, hl, hs, rfl⟩ := release_spec h
  have hk : TokOk t := hi.toks t (List.mem_of_getElem? ht)
  obtain ⟨hpl, hk'⟩ := tokOk_rel hk hx hp ho
  refine ⟨?_, ?_, ?_, hi.pass⟩
  · intro a ha
    rcases mem_set_of ha with ha | rfl
    · exact hi.toks a ha
    · exact hk'
  · intro n
    have e := sum_map_set (lpTerm n) (relTok t x p) ht
    have hn := hi.lp n
    show upd s.holdLp t.lpN (s.holdLp t.lpN - p) n = owedLp (s.toks.set (d - 1) (relTok t x p)) n
    unfold owedLp at *
    have e2 : lpTerm n t = if t.lpN = n then t.lpA - t.rel else 0 := rfl
    rw [lpTerm_rel, e2] at e
    rw [upd_apply]
    by_cases hnn : t.lpN = n
    · subst hnn
      rw [if_pos rfl, if_pos rfl] at e
      rw [if_pos rfl]
      omega
    · have hnn' : ¬ n = t.lpN := fun h => hnn h.symm
      rw [if_neg hnn, if_neg hnn] at e
      rw [if_neg hnn']
      omega
  · intro n
    have e := sum_map_set (stTerm n) (relTok t x p) ht
    have hn := hi.st n
    show upd s.holdSt t.stN (s.holdSt t.stN - x) n = owedSt (s.toks.set (d - 1) (relTok t x p)) n
    unfold owedSt at *
    have e2 : stTerm n t = if t.stN = n then t.out else 0 := rfl
    rw [stTerm_rel, e2] at e
    rw [upd_apply]
    by_cases hnn : t.stN = n
    · subst hnn
      rw [if_pos rfl, if_pos rfl] at e
      rw [if_pos rfl]
      omega
    · have hnn' : ¬ n = t.stN := fun h => hnn h.symm
      rw [if_neg hnn, if_neg hnn] at e
      rw [if_neg hnn']
      omega

theorem releaseAll_inv {s : St} {u : Nat} {ms : List (Nat × Nat)} {q : St × Nat × Nat}
    (hi : Inv s) (h : releaseAll s u ms = some q) : Inv q.1 :=
  releaseAll_induct (P := Inv) (fun _ _ _ _ _ _ hs hr => release_inv hs hr) hi h

theorem mint_inv {s : St} (hi : Inv s) (u lpN lpA stN stA : Nat) :
    Inv (mint s u lpN lpA stN stA).1 := by
  rw [mint_fst]
  refine ⟨?_, ?_, ?_, hi.pass⟩
  · intro a ha
    rcases List.mem_append.1 ha with ha | ha
    · exact hi.toks a ha
    · simp only [List.mem_singleton] at ha
      subst ha
      exact tokOk_new _ _ _ _
  · intro n
    have hn := hi.lp n
    show upd s.holdLp lpN (s.holdLp lpN + lpA) n = owedLp (s.toks ++ [newTok lpN lpA stN stA]) n
    unfold owedLp at *
    have e2 : lpTerm n (newTok lpN lpA stN stA) = if lpN = n then lpA - 0 else 0 := rfl
    rw [sum_map_append_single, upd_apply, e2]
    by_cases hnn : lpN = n
    · subst hnn
      rw [if_pos rfl, if_pos rfl]
      omega
    · have hnn' : ¬ n = lpN := fun h => hnn h.symm
      rw [if_neg hnn, if_neg hnn']
      omega
  · intro n
    have hn := hi.st n
    show upd s.holdSt stN (s.holdSt stN + stA) n = owedSt (s.toks ++ [newTok lpN lpA stN stA]) n
    unfold owedSt at *
    have e2 : stTerm n (newTok lpN lpA stN stA) = if stN = n then stA else 0 := rfl
    rw [sum_map_append_single, upd_apply, e2]
    by_cases hnn : stN = n
    · subst hnn
      rw [if_pos rfl, if_pos rfl]
      omega
    · have hnn' : ¬ n = stN := fun h => hnn h.symm
      rw [if_neg hnn, if_neg hnn']
      omega

theorem step_inv {s s' : St} {op : Op} {o : Out} (hi : Inv s) (h : step s op = some (s', o)) :
    Inv s' := by
  cases op with
  | stake c auth lpN a ms r =>
      obtain ⟨q, _, _, hq, _, rfl, _⟩ := stake_spec h
      exact mint_inv (releaseAll_inv hi hq) _ _ _ _ _
  | claim c auth d x r =>
      obtain ⟨s1, p, _, hq, _, rfl, _⟩ := claim_spec h
      exact mint_inv (release_inv hi hq) _ _ _ _ _
  | unstake c d x r =>
      obtain ⟨s1, p, hq, rfl, _⟩ := unstake_spec h
      exact release_inv hi hq
  | xfer u v d x =>
      obtain ⟨_, _, _, _, rfl⟩ := xfer_spec h
      exact ⟨hi.toks, hi.lp, hi.st, hi.pass⟩
  | env =>
      simp only [step, Option.some.injEq, Prod.mk.injEq] at h
      obtain ⟨rfl, _⟩ := h
      exact hi
  | bad => simp [step] at h

theorem run_inv {s : St} (ops : List Op) (hi : Inv s) : Inv (run s ops) := by
  induction ops generalizing s with
  | nil => exact hi
  | cons op ops ih =>
      simp only [run, List.foldl_cons]
      cases h : step s op with
      | none => exact ih hi
      | some r => exact ih (step_inv hi (by rw [h]))

theorem run_append (s : St) (a b : List Op) : run s (a ++ b) = run (run s a) b := by
  simp [run, List.foldl_append]

/-! ### consequences -/

/-- the share of the LP-farm amount that the outstanding supply of one nonce is entitled to,
    rounded UP (what the proxy must at least hold for it) -/
def shareCeil (t : Tok) : Nat := if t.stA = 0 then 0 else (t.lpA * t.out + t.stA - 1) / t.stA

theorem shareCeil_le {t : Tok} (hk : TokOk t) : shareCeil t ≤ t.lpA - t.rel := by
  unfold shareCeil
  split
  · exact Nat.zero_le _
  · rename_i hs
    have hpos : 0 < t.stA := Nat.pos_of_ne_zero hs
    have h3 := hk.share
    apply Nat.le_of_lt_succ
    rw [Nat.div_lt_iff_lt_mul hpos, Nat.succ_mul]
    omega

/-- Σ of the rounded-up shares recorded against LP-farm nonce `n` -/
def needLp (ts : List Tok) (n : Nat) : Nat :=
  (ts.map fun t => if t.lpN = n then shareCeil t else 0).sum

theorem needLp_le_owedLp : ∀ {ts : List Tok} (n : Nat), (∀ t ∈ ts, TokOk t) → needLp ts n ≤ owedLp ts n
  | [], n, _ => Nat.le_refl _
  | a :: ts, n, h => by
      have ih := needLp_le_owedLp (ts := ts) n (fun t ht => h t (List.mem_cons_of_mem _ ht))
      have ha := shareCeil_le (h a (List.mem_cons_self ..))
      unfold needLp owedLp at *
      simp only [List.map_cons, List.sum_cons, lpTerm]
      split <;> omega

/-- In a state satisfying the invariant the proxy's holdings never block a release: whenever
    the caller holds `x ≤ out` units and `into_part` succeeds, the whole release succeeds. -/
theorem release_ok {s : St} {u d x p : Nat} {t : Tok} (hi : Inv s) (hd : d ≠ 0)
    (ht : s.toks[d - 1]? = some t) (hx : x ≠ 0) (hu : x ≤ s.user u d) (ho : x ≤ t.out)
    (hp : part t x = some p) : ∃ s', release s u d x = some (s', p) := by
  have hk : TokOk t := hi.toks t (List.mem_of_getElem? ht)
  obtain ⟨hpl, _⟩ := tokOk_rel hk hx hp ho
  have h1 : p ≤ s.holdLp t.lpN := by
    rw [hi.lp]
    have := term_le_sum (lpTerm t.lpN) ht
    simp only [lpTerm, if_true] at this
    exact Nat.le_trans hpl this
  have h2 : x ≤ s.holdSt t.stN := by
    rw [hi.st]
    have := term_le_sum (stTerm t.stN) ht
    simp only [stTerm, if_true] at this
    exact Nat.le_trans ho this
  refine ⟨{ s with toks := s.toks.set (d - 1) (relTok t x p),
                    holdLp := upd s.holdLp t.lpN (s.holdLp t.lpN - p),
                    holdSt := upd s.holdSt t.stN (s.holdSt t.stN - x),
                    user := upd2 s.user u d (s.user u d - x) }, ?_⟩
  simp only [release, Option.bind_eq_bind, req, hd, ne_eq, not_false_eq_true, if_true, ht, hx, sub?,
    hu, hp, ho, h1, h2, Option.bind_some, Option.pure_def]
  rfl

end Mx.DualYield
