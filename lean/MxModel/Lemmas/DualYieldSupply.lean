/-
  Supply invariant of the dual-yield token: for every nonce the outstanding supply (minted −
  burned) is the sum of what the accounts hold — the proxy itself keeps none.
  Accounts are natural numbers; `B` bounds the accounts that ever held a token.
-/
import MxModel.Lemmas.DualYieldInv

namespace Mx.DualYield

/-- outstanding supply of dual-yield nonce `d` (0 for a nonce that does not exist) -/
def outOf (ts : List Tok) (d : Nat) : Nat :=
  if d = 0 then 0 else match ts[d - 1]? with
    | some t => t.out
    | none => 0

/-- what the accounts `0 … B-1` hold of nonce `d` -/
def held (f : Nat → Nat → Nat) (B d : Nat) : Nat := ((List.range B).map fun u => f u d).sum

theorem held_succ (f : Nat → Nat → Nat) (B d : Nat) : held f (B + 1) d = held f B d + f B d := by
  simp [held, List.range_succ]

theorem held_extend {f : Nat → Nat → Nat} {B : Nat} (hz : ∀ u d, B ≤ u → f u d = 0) (d : Nat) :
    ∀ k, held f (B + k) d = held f B d
  | 0 => rfl
  | k + 1 => by
      rw [← Nat.add_assoc, held_succ, held_extend hz d k, hz (B + k) d (Nat.le_add_right _ _)]
      rfl

/-- updating account `u`'s holding of nonce `d` -/
theorem held_upd2_same (f : Nat → Nat → Nat) (u d v : Nat) :
    ∀ B, u < B → held (upd2 f u d v) B d + f u d = held f B d + v
  | 0, h => by omega
  | B + 1, h => by
      rw [held_succ, held_succ]
      by_cases hu : u = B
      · subst hu
        have hsame : held (upd2 f u d v) u d = held f u d := by
          unfold held
          apply congrArg
          apply List.map_congr_left
          intro a ha
          have : a ≠ u := Nat.ne_of_lt (List.mem_range.1 ha)
          simp [upd2, this]
        rw [hsame, upd2_same]
        omega
      · have hlt : u < B := by omega
        have ih := held_upd2_same f u d v B hlt
        have hB : upd2 f u d v B d = f B d := by
          have : ¬ B = u := fun h => hu h.symm
          simp [upd2, this]
        rw [hB]
        omega

theorem held_upd2_other (f : Nat → Nat → Nat) (u d v B : Nat) {d' : Nat} (h : d' ≠ d) :
    held (upd2 f u d v) B d' = held f B d' := by
  unfold held
  apply congrArg
  apply List.map_congr_left
  intro a _
  have : ¬ (a = u ∧ d' = d) := fun hh => h hh.2
  simp [upd2, this]

structure Supply (s : St) (B : Nat) : Prop where
  bound : ∀ u d, B ≤ u → s.user u d = 0
  sum : ∀ d, held s.user B d = outOf s.toks d

theorem supply_init : Supply init 0 :=
  ⟨fun _ _ _ => rfl, fun d => by simp [held, outOf, init]⟩

theorem Supply.extend {s : St} {B : Nat} (h : Supply s B) {B' : Nat} (hb : B ≤ B') : Supply s B' := by
  obtain ⟨k, rfl⟩ := Nat.exists_eq_add_of_le hb
  exact ⟨fun u d hu => h.bound u d (by omega), fun d => by rw [held_extend h.bound d k, h.sum d]⟩

/-- an account's holding never exceeds the outstanding supply -/
theorem holding_le_out {s : St} (h : ∃ B, Supply s B) {u d o : Nat} (ho : outOf s.toks d = o) :
    s.user u d ≤ o := by
  obtain ⟨B, hB⟩ := h
  by_cases hu : B ≤ u
  · rw [hB.bound u d hu]
    exact Nat.zero_le _
  · have hlt : u < B := by omega
    have := held_upd2_same s.user u d 0 B hlt
    rw [← ho, ← hB.sum d]
    omega

theorem outOf_set_same {ts : List Tok} {d : Nat} {t t' : Tok} (hd : d ≠ 0)
    (ht : ts[d - 1]? = some t) : outOf (ts.set (d - 1) t') d = t'.out := by
  have hlt : d - 1 < ts.length := by
    rcases Nat.lt_or_ge (d - 1) ts.length with h | h
    · exact h
    · rw [List.getElem?_eq_none h] at ht
      cases ht
  simp [outOf, hd, hlt]

theorem outOf_set_other {ts : List Tok} {d d' : Nat} (t' : Tok) (hd : d ≠ 0) (h : d' ≠ d) :
    outOf (ts.set (d - 1) t') d' = outOf ts d' := by
  unfold outOf
  split
  · rfl
  · rename_i hd'
    have : d - 1 ≠ d' - 1 := by omega
    rw [List.getElem?_set_ne this]

theorem outOf_append (ts : List Tok) (a : Tok) (d : Nat) :
    outOf (ts ++ [a]) d = if d = ts.length + 1 then a.out else outOf ts d := by
  unfold outOf
  by_cases hd : d = 0
  · subst hd
    simp
  · simp only [hd, if_false]
    by_cases h1 : d = ts.length + 1
    · subst h1
      simp
    · simp only [h1, if_false]
      by_cases h2 : d - 1 < ts.length
      · rw [List.getElem?_append_left h2]
      · have h3 : ts.length ≤ d - 1 := by omega
        have h4 : (ts ++ [a]).length ≤ d - 1 := by simp; omega
        rw [List.getElem?_eq_none h3, List.getElem?_eq_none h4]

theorem release_supply {s s' : St} {u d x p : Nat} {B : Nat} (hs : Supply s B)
    (h : release s u d x = some (s', p)) : Supply s' B := by
  obtain ⟨t, hd, ht, hx, hu, hp, ho, hl, hst, rfl⟩ := release_spec h
  have hlt : u < B := by
    rcases Nat.lt_or_ge u B with h | h
    · exact h
    · have := hs.bound u d h
      omega
  refine ⟨?_, ?_⟩
  · intro u' d' hu'
    show upd2 s.user u d (s.user u d - x) u' d' = 0
    have : ¬ (u' = u ∧ d' = d) := fun hh => by omega
    simp only [upd2, this, if_false]
    exact hs.bound u' d' hu'
  · intro d'
    show held (upd2 s.user u d (s.user u d - x)) B d' = outOf (s.toks.set (d - 1) (relTok t x p)) d'
    by_cases hdd : d' = d
    · subst hdd
      rw [outOf_set_same hd ht]
      have e := held_upd2_same s.user u d' (s.user u d' - x) B hlt
      have hsum := hs.sum d'
      have hout : outOf s.toks d' = t.out := by simp [outOf, hd, ht]
      show _ = t.out - x
      omega
    · rw [held_upd2_other _ _ _ _ _ hdd, outOf_set_other _ hd hdd]
      exact hs.sum d'

theorem releaseAll_supply {s : St} {u : Nat} {ms : List (Nat × Nat)} {q : St × Nat × Nat} {B : Nat}
    (hs : Supply s B) (h : releaseAll s u ms = some q) : Supply q.1 B :=
  releaseAll_induct (P := fun s' => Supply s' B) (fun _ _ _ _ _ _ hs hr => release_supply hs hr) hs h

theorem mint_supply {s : St} {B : Nat} (hs : Supply s B) (u lpN lpA stN stA : Nat) :
    Supply (mint s u lpN lpA stN stA).1 (max B (u + 1)) := by
  have hs' : Supply s (max B (u + 1)) := hs.extend (Nat.le_max_left _ _)
  have hlt : u < max B (u + 1) := by omega
  rw [mint_fst]
  refine ⟨?_, ?_⟩
  · intro u' d' hu'
    show upd2 s.user u (s.toks.length + 1) (s.user u (s.toks.length + 1) + stA) u' d' = 0
    have : ¬ (u' = u ∧ d' = s.toks.length + 1) := fun hh => by omega
    simp only [upd2, this, if_false]
    exact hs'.bound u' d' hu'
  · intro d'
    show held (upd2 s.user u (s.toks.length + 1) (s.user u (s.toks.length + 1) + stA)) _ d' =
      outOf (s.toks ++ [newTok lpN lpA stN stA]) d'
    rw [outOf_append]
    by_cases hdd : d' = s.toks.length + 1
    · subst hdd
      rw [if_pos rfl]
      have e := held_upd2_same s.user u (s.toks.length + 1) (s.user u (s.toks.length + 1) + stA) _ hlt
      have hsum := hs'.sum (s.toks.length + 1)
      have hout : outOf s.toks (s.toks.length + 1) = 0 := by simp [outOf]
      show _ = stA
      omega
    · rw [if_neg hdd, held_upd2_other _ _ _ _ _ hdd]
      exact hs'.sum d'

theorem step_supply {s s' : St} {op : Op} {o : Out} (hs : ∃ B, Supply s B)
    (h : step s op = some (s', o)) : ∃ B, Supply s' B := by
  obtain ⟨B, hs⟩ := hs
  cases op with
  | stake c auth lpN a ms r =>
      obtain ⟨q, _, _, hq, _, rfl, _⟩ := stake_spec h
      exact ⟨_, mint_supply (releaseAll_supply hs hq) _ _ _ _ _⟩
  | claim c auth d x r =>
      obtain ⟨s1, p, _, hq, _, rfl, _⟩ := claim_spec h
      exact ⟨_, mint_supply (release_supply hs hq) _ _ _ _ _⟩
  | unstake c d x r =>
      obtain ⟨s1, p, hq, rfl, _⟩ := unstake_spec h
      exact ⟨B, release_supply hs hq⟩
  | xfer u v d x =>
      obtain ⟨huv, hx, hu, _, rfl⟩ := xfer_spec h
      have hs' : Supply s (max B (v + 1)) := hs.extend (Nat.le_max_left _ _)
      have hlt : u < max B (v + 1) := by
        rcases Nat.lt_or_ge u B with h | h
        · omega
        · have := hs.bound u d h
          omega
      have hvlt : v < max B (v + 1) := by omega
      refine ⟨max B (v + 1), ?_, ?_⟩
      · intro u' d' hu'
        show upd2 (upd2 s.user u d (s.user u d - x)) v d (s.user v d + x) u' d' = 0
        have h1 : ¬ (u' = v ∧ d' = d) := fun hh => by omega
        have h2 : ¬ (u' = u ∧ d' = d) := fun hh => by omega
        simp only [upd2, h1, h2, if_false]
        exact hs'.bound u' d' hu'
      · intro d'
        show held (upd2 (upd2 s.user u d (s.user u d - x)) v d (s.user v d + x)) _ d' = outOf s.toks d'
        by_cases hdd : d' = d
        · subst hdd
          have e1 := held_upd2_same s.user u d' (s.user u d' - x) _ hlt
          have e2 := held_upd2_same (upd2 s.user u d' (s.user u d' - x)) v d' (s.user v d' + x) _ hvlt
          have hv : upd2 s.user u d' (s.user u d' - x) v d' = s.user v d' := by
            have : ¬ v = u := fun hh => huv hh.symm
            simp [upd2, this]
          rw [hv] at e2
          have hsum := hs'.sum d'
          omega
        · rw [held_upd2_other _ _ _ _ _ hdd, held_upd2_other _ _ _ _ _ hdd]
          exact hs'.sum d'
  | env =>
      simp only [step, Option.some.injEq, Prod.mk.injEq] at h
      obtain ⟨rfl, _⟩ := h
      exact ⟨B, hs⟩
  | bad => simp [step] at h

theorem run_supply {s : St} (ops : List Op) (hs : ∃ B, Supply s B) : ∃ B, Supply (run s ops) B := by
  induction ops generalizing s with
  | nil => exact hs
  | cons op ops ih =>
      simp only [run, List.foldl_cons]
      cases h : step s op with
      | none => exact ih hs
      | some r => exact ih (step_supply (o := r.2) hs (by rw [h]))

theorem supply_run (ops : List Op) : ∃ B, Supply (run init ops) B :=
  run_supply ops ⟨0, supply_init⟩

/-! ### the merge loop only touches existing nonces -/

theorem release_user_fresh {s s' : St} {u d x p : Nat} (h : release s u d x = some (s', p))
    (c : Nat) : s'.user c (s.toks.length + 1) = s.user c (s.toks.length + 1) := by
  obtain ⟨t, hd, ht, _, _, _, _, _, _, rfl⟩ := release_spec h
  have hlt : d - 1 < s.toks.length := by
    rcases Nat.lt_or_ge (d - 1) s.toks.length with h | h
    · exact h
    · rw [List.getElem?_eq_none h] at ht
      cases ht
  show upd2 s.user u d (s.user u d - x) c (s.toks.length + 1) = _
  have : ¬ (c = u ∧ s.toks.length + 1 = d) := fun hh => by omega
  simp [upd2, this]

theorem releaseAll_user_fresh {s : St} {u : Nat} {ms : List (Nat × Nat)} {q : St × Nat × Nat}
    (h : releaseAll s u ms = some q) {c : Nat} :
    q.1.user c (q.1.toks.length + 1) = s.user c (q.1.toks.length + 1) := by
  have := releaseAll_induct
    (P := fun s' => s'.toks.length = s.toks.length ∧
      ∀ c, s'.user c (s.toks.length + 1) = s.user c (s.toks.length + 1))
    (fun s1 s2 u d x p hs hr =>
      ⟨(release_length hr).trans hs.1, fun c => by
        have := release_user_fresh hr c
        rw [hs.1] at this
        exact this.trans (hs.2 c)⟩)
    ⟨rfl, fun _ => rfl⟩ h
  rw [this.1]
  exact this.2 c

end Mx.DualYield
