/-
  Tactics for the "model computes what the translated source computes" theorems (Props/K*.lean).

  The generated definitions (Gen/K*.lean) change shape under harmless rewrites of the Rust source
  (operands reordered, `min a b` ↔ `min b a`, a local renamed or introduced, two `require!`s or two
  independent assignments swapped).  The K theorems must keep checking under such rewrites and stop
  checking when the arithmetic really changes, so their proofs avoid matching on term shapes:

  * `k_unfold`  — the Option-monad plumbing (`sub?`, `div?`, `mod?`, `req`, bind / pure);
  * `k_ac`      — associativity / commutativity normal form of `+`, `*`, `min`, `max` on ℕ
                  (both sides of an equation reach the same normal form iff they are AC-equal);
  * `k_close`   — closes a leaf goal: reflexivity, AC-normalisation, linear arithmetic over the
                  (normalised) nonlinear atoms, or contradiction between the branch conditions;
  * `k_defs [d₁, d₂, h, …]` — unfolds the listed definitions (translated source functions, their
                  translated callees, model operations) and rewrites with the listed equations
                  together with the monad plumbing.  Unlike `unfold d₁ d₂` it does not fail when one of
                  them does not occur (a callee that a refactor inlined, a constant that is no longer used).
-/
import MxModel.Gen.Prelude
import Mathlib.Tactic.SplitIfs

namespace Mx

theorem ite_some_none_bind {α β : Type} {c : Prop} [Decidable c] (a : α) (f : α → Option β) :
    (if c then some a else none).bind f = if c then f a else none := by split <;> rfl

theorem ite_none_some_bind {α β : Type} {c : Prop} [Decidable c] (a : α) (f : α → Option β) :
    (if c then none else some a).bind f = if c then none else f a := by split <;> rfl

macro "k_unfold" : tactic => `(tactic|
  simp only [sub?, div?, mod?, req, Option.bind_eq_bind, Option.pure_def, Option.bind_some,
    Option.bind_none, Option.map_some, Option.map_none, ite_some_none_bind, ite_none_some_bind,
    gt_iff_lt, ge_iff_le, decide_eq_true_eq, Bool.false_eq_true, if_false, if_true, Bool.not_eq_true,
    true_and, and_true, false_and, and_false, true_or, or_true, false_or, or_false, not_true_eq_false,
    not_false_eq_true])

syntax "k_defs" "[" Lean.Parser.Tactic.simpLemma,* "]" : tactic
macro_rules
  | `(tactic| k_defs [$ls,*]) => `(tactic|
      simp only [$ls,*, sub?, div?, mod?, req, Option.bind_eq_bind, Option.pure_def, Option.bind_some,
        Option.bind_none, Option.map_some, Option.map_none, ite_some_none_bind, ite_none_some_bind,
        gt_iff_lt, ge_iff_le, decide_eq_true_eq, Bool.false_eq_true, if_false, if_true,
        Bool.not_eq_true, true_and, and_true, false_and, and_false, true_or, or_true, false_or,
        or_false, not_true_eq_false, not_false_eq_true])

macro "k_ac" : tactic => `(tactic|
  simp only [Nat.mul_comm, Nat.mul_left_comm, Nat.mul_assoc, Nat.add_comm, Nat.add_left_comm,
    Nat.add_assoc, Nat.min_comm, Nat.max_comm])

macro "k_ac_all" : tactic => `(tactic|
  simp only [Nat.mul_comm, Nat.mul_left_comm, Nat.mul_assoc, Nat.add_comm, Nat.add_left_comm,
    Nat.add_assoc, Nat.min_comm, Nat.max_comm] at *)

-- `rfl` is tried with reducible transparency only: a full definitional-equality check of two AC-different products
-- with a large literal (`out * rIn * 100000 =?= rIn * out * 100000`) unfolds `Nat.mul` on the literal until the
-- recursion limit is hit, and that runtime exception is NOT caught by `first` (it aborted the whole proof on the
-- harmless rewrite harmless/h33).  The default-transparency `rfl` is kept as the LAST resort.
macro "k_close" : tactic => `(tactic| first
  | (with_reducible rfl)
  | omega
  | (k_ac; done)
  | (k_ac_all <;> first | (with_reducible rfl) | omega | (simp_all; done))
  | (simp_all; done)
  | (exfalso; simp_all; omega)
  | (simp_all; omega)
  | (k_ac_all; simp_all; done)
  | (k_ac_all; exfalso; simp_all; omega)
  | (k_ac_all; simp_all; omega)
  | rfl)

/-- unfold, split every `if`, close every leaf -/
macro "k_solve" : tactic => `(tactic| (
  repeat' (first | k_unfold | split)
  all_goals k_close))

end Mx
