/-
  C08 with an explicit attribution ledger — every operation, any caller, any arguments.

  `Effect s s' h ea`: the transaction changed the balance row of the holder `h` (and rows of the
  escrow contracts), wrote the entry of the energy address `ea`, and that entry is the old view of
  `ea` moved by exactly the time-weighted sum of the change of `h`'s row.  Every operation that
  touches energy is such an effect (`step_effect`) with the parties `Op.parties`; all it needs is
  that the holder is not one of the four escrow contracts (`Op.NoEsc`).

  The attribution ledger `A : account → nonce → Int` books the change of the holder's row on the
  energy address (`attrStep`); `AInv` — every account's reported entry is the pair of sums of its
  attribution row — is preserved by every operation (`step_ainv`) and so holds after every history.
-/
import MxModel.Lemmas.EnergyAttrLink
import MxModel.Lemmas.EnergyStep

namespace Mx.Energy

theorem esc_ne {x c : Nat} (hx : IsEsc x) (hc : ¬ IsEsc c) : x ≠ c := fun h => hc (h ▸ hx)

theorem esc_FACTORY : IsEsc FACTORY := Or.inl rfl
theorem esc_UNSTAKE : IsEsc UNSTAKE := Or.inr (Or.inl rfl)
theorem esc_TRANSFER : IsEsc TRANSFER := Or.inr (Or.inr (Or.inl rfl))
theorem esc_WRAPPER : IsEsc WRAPPER := Or.inr (Or.inr (Or.inr rfl))

theorem unlockOf_of_nonces {s s1 : St} {n u : Nat} (hns : s1.nonces = s.nonces)
    (hu : s.unlockOf n = some u) : s1.unlockOf n = some u := by
  unfold St.unlockOf at hu ⊢; rw [hns]; exact hu

theorem ensureNonce_bal_ne (s : St) (u : Nat) {a : Nat} (ha : a ≠ FACTORY) :
    (s.ensureNonce u).bal a = s.bal a := by
  unfold St.ensureNonce; split
  · rfl
  · exact upd2_other _ _ _ ha

theorem ensureNonce_domAll (s : St) (u : Nat) (hd : DomAll s) : DomAll (s.ensureNonce u) := by
  unfold St.ensureNonce; split
  · exact hd
  · intro a m hm
    simp only [List.length_append, List.length_cons, List.length_nil] at hm
    show upd2 s.bal FACTORY (s.nonces.length + 1) 1 a m = 0
    by_cases ha : a = FACTORY
    · subst ha
      rw [upd2_same, upd_other _ _ (by omega)]
      exact hd _ m (by omega)
    · rw [upd2_other _ _ _ ha]; exact hd a m (by omega)

structure Effect (s s' : St) (h ea : Nat) : Prop where
  epoch : s'.epoch = s.epoch
  nonces : s'.nonces = s.nonces ∨ ∃ u, s'.nonces = s.nonces ++ [u]
  energy : ∀ x, x ≠ ea → s'.energy x = s.energy x
  other : ∀ x, x ≠ h → ¬ IsEsc x → s'.bal x = s.bal x
  dom : DomAll s → DomAll s'
  entry : DomAll s → ∃ e', s'.energy ea = some e' ∧ e'.last = s.epoch ∧
    e'.E = (s.view ea).E + sumEZ (dRow s s' h) s.epoch 1 s'.nonces ∧
    (e'.T : Int) = ((s.view ea).T : Int) + sumTZ (dRow s s' h) 1 s'.nonces

/-- closing lemma: the operation moved existing tokens and then stored the entry -/
theorem effect_set {s s1 s' : St} {h ea : Nat} {e1 : Entry} (l : Link s s1 h (s.view ea) e1)
    (hep : s'.epoch = s1.epoch) (hn : s'.nonces = s1.nonces)
    (hen : s'.energy = updO s1.energy ea (some e1)) (hb : s'.bal = s1.bal) : Effect s s' h ea := by
  have hrow : dRow s s' h = dRow s s1 h := by unfold dRow; rw [hb]
  refine ⟨hep.trans l.epoch, Or.inl (hn.trans l.nonces), ?_, ?_, ?_, ?_⟩
  · intro x hx; rw [hen, updO_other _ _ hx, l.energy]
  · intro x hx he; rw [hb]; exact l.other x hx he
  · intro hd x m hm
    rw [hb]; rw [hn] at hm
    exact l.dom hd x m hm
  · intro _
    refine ⟨e1, by rw [hen, updO_same], l.last.trans (view_last s ea), ?_, ?_⟩
    · rw [hrow, hn, l.nonces]; exact l.E
    · rw [hrow, hn, l.nonces]; exact l.T

/-- closing lemma: the operation finally minted `amt` at unlock epoch `u` to the holder -/
theorem effect_mint {s s1 s' : St} {h ea : Nat} {e1 : Entry} (l : Link s s1 h (s.view ea) e1)
    (hF : h ≠ FACTORY) (u amt : Nat) (hu : s.epoch ≤ u)
    (hep : s'.epoch = s.epoch) (hn : s'.nonces = (s1.ensureNonce u).nonces)
    (hen : s'.energy = updO s1.energy ea (some (e1.addAfterLock amt u s.epoch)))
    (hb : s'.bal = upd2 (s1.ensureNonce u).bal h (s1.nonceFor u)
            ((s1.ensureNonce u).bal h (s1.nonceFor u) + amt)) : Effect s s' h ea := by
  have hN : IsNonce s'.nonces (s1.nonceFor u) u := by rw [hn]; exact ensureNonce_isNonce s1 u
  have hns := ensureNonce_nonces s1 u
  rw [l.nonces] at hns
  have hns' : s'.nonces = s.nonces ∨ ∃ x, s'.nonces = s.nonces ++ [x] := by
    rw [hn]
    rcases hns with h1 | h1
    · exact Or.inl h1
    · exact Or.inr ⟨_, h1⟩
  have hlen : s.nonces.length ≤ s'.nonces.length := by
    rcases hns' with h1 | ⟨x, h1⟩ <;> (rw [h1]; try simp)
  have hba := ensureNonce_bal_ne s1 u hF
  have hrowb : s'.bal h = upd (s1.bal h) (s1.nonceFor u) (s1.bal h (s1.nonceFor u) + amt) := by
    rw [hb, upd2_same, hba]
  have hdomE : DomAll s → DomAll s' := by
    intro hd x m hm
    have hd3 := ensureNonce_domAll s1 u (l.dom hd)
    rw [hb]
    by_cases hx : x = h
    · subst hx
      rw [upd2_same, upd_other _ _ (hN.in_range hm)]
      rw [hn] at hm; exact hd3 x m hm
    · rw [upd2_other _ _ _ hx]
      rw [hn] at hm; exact hd3 x m hm
  refine ⟨hep, hns', ?_, ?_, hdomE, ?_⟩
  · intro x hx; rw [hen, updO_other _ _ hx, l.energy]
  · intro x hx he
    rw [hb, upd2_other _ _ _ hx, ensureNonce_bal_ne s1 u (fun hf => he (Or.inl hf))]
    exact l.other x hx he
  · intro hd
    obtain ⟨m1, m2, m3⟩ := moves_addAfterLock e1 (amt := amt) hu
    -- the row change = the change up to `s1` + the mint
    have hrow : dRow s s' h = fun m => dRow s s1 h m +
        (if m = s1.nonceFor u then (amt : Int) else 0) := by
      funext m
      simp only [dRow, hrowb]
      by_cases hm : m = s1.nonceFor u
      · subst hm; rw [upd_same]; simp only [if_true]; push_cast; ring
      · rw [upd_other _ _ hm]; simp only [hm, if_false]; ring
    have h0 : dRow s s1 h (s.nonces.length + 1) = 0 := by
      have a1 := hd h (s.nonces.length + 1) (Or.inr (by omega))
      have a2 := l.dom hd h (s.nonces.length + 1) (Or.inr (by rw [l.nonces]; omega))
      simp [dRow, a1, a2]
    obtain ⟨g1, g2⟩ := sums_grow (dRow s s1 h) s.epoch hns' h0
    obtain ⟨k1, kget⟩ := hN
    have s1E := sumEZ_single (fun m => if m = s1.nonceFor u then (amt : Int) else 0) s.epoch
      (s1.nonceFor u) 1 u s'.nonces k1 kget (fun m hm => by simp [hm])
    have s1T := sumTZ_single (fun m => if m = s1.nonceFor u then (amt : Int) else 0)
      (s1.nonceFor u) 1 u s'.nonces k1 kget (fun m hm => by simp [hm])
    simp only [if_true] at s1E s1T
    refine ⟨_, by rw [hen, updO_same], ?_, ?_, ?_⟩
    · rw [m3]; exact l.last.trans (view_last s ea)
    · rw [hrow, sumEZ_add, g1, s1E, m1, l.E]; ring
    · rw [hrow, sumTZ_add, g2, s1T, m2, l.T]; ring

/-! ### the operations that touch energy -/

theorem lockTokens_eff {s s' : St} {c amt epochs dest : Nat} {o : Out}
    (hd : ¬ IsEsc (if dest = 0 then c else dest))
    (h : lockTokens s c amt epochs dest = some (s', o)) :
    Effect s s' (if dest = 0 then c else dest) (if dest = 0 then c else dest) := by
  obtain ⟨_, _, _, hlt, _, _, _, _, rfl⟩ := lockTokens_spec h
  generalize (if dest = 0 then c else dest) = d at *
  exact effect_mint (Link.refl s d (s.view d)) (fun hf => hd (Or.inl hf)) (lockUnlock s epochs) amt
    (Nat.le_of_lt hlt) (by simp) rfl (by simp) rfl

theorem extendLock_eff {s s' : St} {c n amt epochs dest : Nat} {o : Out} (hc : ¬ IsEsc c)
    (h : extendLock s c n amt epochs dest = some (s', o)) : Effect s s' c c := by
  simp only [extendLock, Option.bind_eq_bind, Option.bind_eq_some_iff, req_eq_some,
    Option.pure_def, Option.some.injEq, Prod.mk.injEq] at h
  obtain ⟨_, _, _, _, _, _, _, hlt, _, _, old, hu, s0, hdeb, _, _, e0, hr, _, _, rfl, _⟩ := h
  have l := link_debit hdeb hu (moves_unlockAny hr)
  exact effect_mint l (fun hf => hc (Or.inl hf)) (startOfMonth (s.epoch + epochs)) amt
    (Nat.le_of_lt hlt) (by simp [l.epoch]) rfl (by simp) rfl

theorem unlockTokens_eff {s s' : St} {c : Nat} {ps : List (Nat × Nat)} {o : Out}
    (h : unlockTokens s c ps = some (s', o)) : Effect s s' c c := by
  simp only [unlockTokens, Option.bind_eq_bind, Option.bind_eq_some_iff, req_eq_some, sub?_eq_some,
    Option.pure_def, Option.some.injEq, Prod.mk.injEq] at h
  obtain ⟨_, _, _, _, ⟨s1, e, tot⟩, hp, circ, _, rfl, _⟩ := h
  exact effect_set (unlockPays_link ps hp) rfl rfl rfl rfl

theorem mergeTokens_eff {s s' : St} {c orig : Nat} {ps : List (Nat × Nat)} {o : Out}
    (hc : ¬ IsEsc c) (h : mergeTokens s c orig ps = some (s', o)) :
    Effect s s' c (if orig = 0 then c else orig) := by
  cases ps with
  | nil => simp [mergeTokens] at h
  | cons p rest =>
    obtain ⟨n1, a1⟩ := p
    simp only [mergeTokens, Option.bind_eq_bind, Option.bind_eq_some_iff, req_eq_some,
      Option.pure_def, Option.some.injEq, Prod.mk.injEq] at h
    obtain ⟨_, _, _, _, _, _, u1, hu, s1, hdeb, _, _, e1, hr, ⟨s2, e2, accE, accW⟩, hp, _, _, _, hlt,
      rfl, _⟩ := h
    have l := (link_debit hdeb hu (moves_unlockAny hr)).trans (mergePays_link rest hp)
    exact effect_mint l (fun hf => hc (Or.inl hf)) (upperEstimate s.opts s.epoch accE) accW
      (Nat.le_of_lt hlt) (by simp [l.epoch]) rfl (by simp) rfl

theorem unlockEarly_eff {s s' : St} {c n amt : Nat} {o : Out} (hc : ¬ IsEsc c)
    (h : unlockEarly s c n amt = some (s', o)) : Effect s s' c c := by
  simp only [unlockEarly, Option.bind_eq_bind, Option.bind_eq_some_iff, req_eq_some, sub?_eq_some,
    Option.pure_def, Option.some.injEq, Prod.mk.injEq] at h
  obtain ⟨_, _, u, hu, s1, hdeb, _, hlt, e, hr, pen, _, _, _, _, _, circ, _, rfl, _⟩ := h
  have l1 := link_debit hdeb hu (moves_early (Nat.le_of_lt hlt) hr)
  have l2 : Link s1 (s1.credit UNSTAKE n amt) c e e :=
    link_credit_other e rfl rfl rfl rfl (unlockOf_of_nonces l1.nonces hu) (esc_ne esc_UNSTAKE hc)
      esc_UNSTAKE
  exact effect_set (l1.trans l2) rfl rfl rfl rfl

theorem reduceLock_eff {s s' : St} {c n amt epochs : Nat} {o : Out} (hc : ¬ IsEsc c)
    (h : reduceLock s c n amt epochs = some (s', o)) : Effect s s' c c := by
  simp only [reduceLock, Option.bind_eq_bind, Option.bind_eq_some_iff, req_eq_some, sub?_eq_some,
    Option.pure_def, Option.some.injEq, Prod.mk.injEq] at h
  obtain ⟨_, _, _, _, _, _, u, hu, s1, hdeb, _, hlt, newEp, _, _, _, e, hr, pen, _, _, _, _, _, _, hnew,
    circ, _, rfl, _⟩ := h
  have l := link_debit hdeb hu (moves_early (Nat.le_of_lt hlt) hr)
  exact effect_mint l (fun hf => hc (Or.inl hf)) (s.epoch + newEp) (amt - pen) (Nat.le_of_lt hnew)
    (by simp [l.epoch]) rfl (by simp) rfl

theorem lockVirtual_eff {s s' : St} {c amt epochs d ea : Nat} {o : Out} (hd : ¬ IsEsc d)
    (h : lockVirtual s c amt epochs d ea = some (s', o)) : Effect s s' d ea := by
  simp only [lockVirtual, Option.bind_eq_bind, Option.bind_eq_some_iff, req_eq_some,
    Option.pure_def, Option.some.injEq, Prod.mk.injEq] at h
  obtain ⟨_, _, _, _, _, _, _, _, _, _, _, hlt, rfl, _⟩ := h
  exact effect_mint (Link.refl s d (s.view ea)) (fun hf => hd (Or.inl hf))
    (startOfMonth (s.epoch + epochs)) amt (Nat.le_of_lt hlt) (by simp) rfl (by simp) rfl

theorem cancelUnbond_eff {s s' : St} {c : Nat} {o : Out} (hc : ¬ IsEsc c)
    (h : cancelUnbond s c = some (s', o)) : Effect s s' c c := by
  simp only [cancelUnbond, Option.bind_eq_bind, Option.bind_eq_some_iff, req_eq_some,
    Option.pure_def, Option.some.injEq, Prod.mk.injEq] at h
  obtain ⟨_, _, ⟨s1, e⟩, hp, _, _, rfl, _⟩ := h
  exact effect_set (cancelEntries_link (esc_ne esc_UNSTAKE hc) _ hp) rfl rfl rfl rfl

theorem lockFunds_eff {s s' : St} {c recv : Nat} {ps : List (Nat × Nat)} {o : Out} (hc : ¬ IsEsc c)
    (h : lockFunds s c recv ps = some (s', o)) : Effect s s' c c := by
  simp only [lockFunds, Option.bind_eq_bind, Option.bind_eq_some_iff, req_eq_some,
    Option.pure_def, Option.some.injEq, Prod.mk.injEq] at h
  obtain ⟨_, _, _, _, ⟨s1, e⟩, hp, _, _, rfl, _⟩ := h
  exact effect_set (deductPays_link esc_TRANSFER (esc_ne esc_TRANSFER hc) ps hp) rfl rfl rfl rfl

theorem withdraw_eff {s s' : St} {c sender : Nat} {o : Out} (hc : ¬ IsEsc c)
    (h : withdraw s c sender = some (s', o)) : Effect s s' c c := by
  simp only [withdraw, Option.bind_eq_bind, Option.bind_eq_some_iff, req_eq_some,
    Option.pure_def, Option.some.injEq, Prod.mk.injEq] at h
  obtain ⟨_, _, x, _, _, _, ⟨s1, e⟩, hp, _, _, rfl, _⟩ := h
  exact effect_set (addPays_link esc_TRANSFER (esc_ne esc_TRANSFER hc) x.funds hp) rfl rfl rfl rfl

theorem cancelTransfer_eff {s s' : St} {sender recv : Nat} {o : Out} (hc : ¬ IsEsc sender)
    (h : cancelTransfer s sender recv = some (s', o)) : Effect s s' sender sender := by
  simp only [cancelTransfer, Option.bind_eq_bind, Option.bind_eq_some_iff, req_eq_some,
    Option.pure_def, Option.some.injEq, Prod.mk.injEq] at h
  obtain ⟨x, _, ⟨s1, e⟩, hp, _, _, rfl, _⟩ := h
  exact effect_set (addPays_link esc_TRANSFER (esc_ne esc_TRANSFER hc) x.funds hp) rfl rfl rfl rfl

theorem wrap_eff {s s' : St} {c n amt : Nat} {o : Out} (hc : ¬ IsEsc c)
    (h : wrap s c n amt = some (s', o)) : Effect s s' c c := by
  simp only [wrap, Option.bind_eq_bind, Option.bind_eq_some_iff, req_eq_some,
    Option.pure_def, Option.some.injEq, Prod.mk.injEq] at h
  obtain ⟨⟨s1, e⟩, hp, _, _, rfl, _⟩ := h
  obtain ⟨w1, w2, w3, w4⟩ := ensureWNonce_frame s1 n
  exact effect_set (deductPays_link esc_WRAPPER (esc_ne esc_WRAPPER hc) _ hp)
    (by simp [w1]) (by simp [w2]) (by simp [w3]) (by simp [w4])

theorem unwrap_eff {s s' : St} {c wn amt : Nat} {o : Out} (hc : ¬ IsEsc c)
    (h : unwrap s c wn amt = some (s', o)) : Effect s s' c c := by
  simp only [unwrap, Option.bind_eq_bind, Option.bind_eq_some_iff, req_eq_some, sub?_eq_some,
    Option.pure_def, Option.some.injEq, Prod.mk.injEq] at h
  obtain ⟨n, _, wb, _, ⟨s1, e⟩, hp, _, _, rfl, _⟩ := h
  exact effect_set (addPays_link esc_WRAPPER (esc_ne esc_WRAPPER hc) _ hp) rfl rfl rfl rfl

/-! ### operations that touch no entry and no ordinary account's locked tokens -/

/-- nothing C08 talks about changed (only escrow rows may have shrunk) -/
structure Quiet (s s' : St) : Prop where
  epoch : s'.epoch = s.epoch
  nonces : s'.nonces = s.nonces
  energy : s'.energy = s.energy
  other : ∀ x, ¬ IsEsc x → s'.bal x = s.bal x
  dom : DomAll s → DomAll s'

theorem claimUnlocked_quiet {s s' : St} {c : Nat} {o : Out}
    (h : claimUnlocked s c = some (s', o)) : Quiet s s' := by
  simp only [claimUnlocked, Option.bind_eq_bind, Option.bind_eq_some_iff, req_eq_some,
    Option.pure_def, Option.some.injEq, Prod.mk.injEq] at h
  obtain ⟨_, _, ⟨s1, paid⟩, hp, rfl, _⟩ := h
  obtain ⟨a1, a2, a3, a4, a5⟩ := claimEntries_frameZ _ hp
  exact ⟨a1, a2, a3, fun x hx => a4 x (fun hxu => hx (hxu ▸ esc_UNSTAKE)), fun hd => a5 hd⟩

theorem xferWrapped_quiet {s s' : St} {c dst wn amt : Nat} {o : Out}
    (h : xferWrapped s c dst wn amt = some (s', o)) : Quiet s s' := by
  simp only [xferWrapped, Option.bind_eq_bind, Option.bind_eq_some_iff, req_eq_some, sub?_eq_some,
    Option.pure_def, Option.some.injEq, Prod.mk.injEq] at h
  obtain ⟨_, _, _, _, wb, _, rfl, _⟩ := h
  exact ⟨rfl, rfl, rfl, fun _ _ => rfl, fun hd => hd⟩

theorem cfg_quiet {s s' : St} {o : CfgOp} (h : cfg s o = some s') : Quiet s s' := by
  obtain ⟨a1, a2, a3, a4⟩ := cfg_frame h
  refine ⟨a1, a2, a3, fun x _ => by rw [a4], ?_⟩
  intro hd x m hm
  rw [a4]; rw [a2] at hm
  exact hd x m hm

/-! ### the attribution ledger -/

/-- (holder, energy address) of an operation: the account whose locked-token row the operation
    changes, and the account whose energy entry it writes.  They differ only for `mergeTokens` with
    an original caller and for `lockVirtual` with an energy address other than the destination —
    the two arguments reserved to whitelisted contracts. -/
def Op.parties : Op → Option (Nat × Nat)
  | .lock c _ _ d => some (if d = 0 then c else d, if d = 0 then c else d)
  | .extend c _ _ _ _ => some (c, c)
  | .unlock c _ => some (c, c)
  | .merge c orig _ => some (c, if orig = 0 then c else orig)
  | .unlockEarly c _ _ => some (c, c)
  | .reduce c _ _ _ => some (c, c)
  | .lockVirtual _ _ _ d ea => some (d, ea)
  | .cancel c => some (c, c)
  | .lockFunds c _ _ => some (c, c)
  | .withdraw c _ => some (c, c)
  | .cancelTransfer sd _ => some (sd, sd)
  | .wrap c _ _ => some (c, c)
  | .unwrap c _ _ => some (c, c)
  | .claim _ => none
  | .xferWrapped _ _ _ _ => none
  | .cfg _ => none
  | .advance _ => none

/-- the only scope condition left: the account whose tokens move is not one of the four escrow
    contracts (their code never calls these endpoints; what they do is part of the operations) -/
def Op.NoEsc (op : Op) : Prop :=
  match op.parties with
  | some (h, _) => ¬ IsEsc h
  | none => True

instance (op : Op) : Decidable op.NoEsc := by
  unfold Op.NoEsc; split <;> exact inferInstance

/-- the ledger rule: the change of the holder's balance row is booked on the energy address -/
def attrStep (A : Nat → Nat → Int) (s s' : St) (op : Op) : Nat → Nat → Int :=
  match op.parties with
  | some (h, ea) => fun a n => if a = ea then A a n + dRow s s' h n else A a n
  | none => A

structure AInv (s : St) (A : Nat → Nat → Int) : Prop where
  track : ∀ a, TracksZ (s.view a) (A a) s.nonces s.epoch
  last : ∀ a e, s.energy a = some e → e.last ≤ s.epoch
  dom : DomAll s
  adom : ∀ a n, (n = 0 ∨ s.nonces.length < n) → A a n = 0

theorem tracksZ_grow {e : Entry} {g : Nat → Int} {ns ns' : List Nat} {now : Nat}
    (h : TracksZ e g ns now) (hn : ns' = ns ∨ ∃ u, ns' = ns ++ [u]) (h0 : g (ns.length + 1) = 0) :
    TracksZ e g ns' now := by
  obtain ⟨g1, g2⟩ := sums_grow g now hn h0
  exact ⟨h.1.trans g1.symm, h.2.1.trans g2.symm, h.2.2⟩

theorem ainv_effect {s s' : St} {A : Nat → Nat → Int} {h ea : Nat} (hi : AInv s A)
    (eff : Effect s s' h ea) :
    AInv s' (fun a n => if a = ea then A a n + dRow s s' h n else A a n) := by
  obtain ⟨e', he', hl', hE', hT'⟩ := eff.entry hi.dom
  have hlen : s.nonces.length ≤ s'.nonces.length := by
    rcases eff.nonces with h1 | ⟨x, h1⟩ <;> (rw [h1]; try simp)
  refine ⟨?_, ?_, eff.dom hi.dom, ?_⟩
  · intro a
    by_cases hae : a = ea
    · subst hae
      have hf : (fun n => if a = a then A a n + dRow s s' h n else A a n) =
          fun n => A a n + dRow s s' h n := by funext n; simp
      rw [hf, view_of_some he' (by rw [eff.epoch]; exact hl'), eff.epoch]
      obtain ⟨g1, g2⟩ := sums_grow (A a) s.epoch eff.nonces (hi.adom a _ (Or.inr (by omega)))
      refine ⟨?_, ?_, hl'⟩
      · rw [sumEZ_add, g1, hE', (hi.track a).1]
      · rw [sumTZ_add, g2, hT', (hi.track a).2.1]
    · have hf : (fun n => if a = ea then A a n + dRow s s' h n else A a n) = A a := by
        funext n; simp [hae]
      rw [hf, view_congr (eff.energy a hae) eff.epoch, eff.epoch]
      exact tracksZ_grow (hi.track a) eff.nonces (hi.adom a _ (Or.inr (by omega)))
  · intro x e hx
    by_cases hxe : x = ea
    · subst hxe
      rw [he'] at hx
      simp only [Option.some.injEq] at hx
      subst hx
      rw [eff.epoch, hl']
    · rw [eff.energy x hxe] at hx
      rw [eff.epoch]; exact hi.last x e hx
  · intro a n hn
    have hn' : n = 0 ∨ s.nonces.length < n := by omega
    show (if a = ea then A a n + dRow s s' h n else A a n) = 0
    split
    · have a1 := hi.dom h n hn'
      have a2 := eff.dom hi.dom h n hn
      rw [hi.adom a n hn']
      simp [dRow, a1, a2]
    · exact hi.adom a n hn'

theorem ainv_quiet {s s' : St} {A : Nat → Nat → Int} (hi : AInv s A) (q : Quiet s s') :
    AInv s' A := by
  refine ⟨?_, ?_, q.dom hi.dom, ?_⟩
  · intro a
    rw [view_congr (by rw [q.energy]) q.epoch, q.nonces, q.epoch]
    exact hi.track a
  · intro x e hx
    rw [q.energy] at hx
    rw [q.epoch]; exact hi.last x e hx
  · intro a n hn
    rw [q.nonces] at hn
    exact hi.adom a n hn

/-- `epoch advance`: every entry decays linearly, exactly as the sums do -/
theorem ainv_advance {s : St} {A : Nat → Nat → Int} {e : Nat} (hi : AInv s A) (hle : s.epoch ≤ e) :
    AInv { s with epoch := e } A := by
  refine ⟨?_, ?_, hi.dom, hi.adom⟩
  · intro a
    have ht := hi.track a
    show TracksZ (St.view { s with epoch := e } a) (A a) s.nonces e
    unfold St.view
    show TracksZ (match s.energy a with | some x => x.deplete e | none => Entry.zero e) _ _ _
    cases hea : s.energy a with
    | none =>
      simp only
      have hv : s.view a = Entry.zero s.epoch := by simp [St.view, hea]
      rw [hv] at ht
      have := ht.deplete hle
      have hz : (Entry.zero s.epoch).deplete e = Entry.zero e := by
        unfold Entry.deplete Entry.zero
        by_cases h : s.epoch = e <;> simp [h]
      rw [hz] at this
      exact this
    | some x =>
      simp only
      have hv : s.view a = x.deplete s.epoch := by simp [St.view, hea]
      rw [hv] at ht
      have hl := hi.last a x hea
      have h2 := ht.deplete hle
      have : (x.deplete s.epoch).deplete e = x.deplete e := deplete_deplete x hl hle
      rw [this] at h2
      exact h2
  · intro a x hx
    exact Nat.le_trans (hi.last a x hx) hle

/-- what one successful transaction is, as far as C08 is concerned -/
inductive StepKind (s s' : St) (op : Op) : Prop
  | effect (h ea : Nat) (hp : op.parties = some (h, ea)) (eff : Effect s s' h ea)
  | quiet (hp : op.parties = none) (q : Quiet s s')
  | advance (e : Nat) (hp : op.parties = none) (hle : s.epoch ≤ e) (hs : s' = { s with epoch := e })

theorem step_kind {s s' : St} {op : Op} {o : Out} (hw : op.NoEsc)
    (h : step s op = some (s', o)) : StepKind s s' op := by
  cases op <;> simp only [step] at h
  case lock c amt ep d => exact .effect _ _ rfl (lockTokens_eff hw h)
  case extend => exact .effect _ _ rfl (extendLock_eff hw h)
  case unlock => exact .effect _ _ rfl (unlockTokens_eff h)
  case merge => exact .effect _ _ rfl (mergeTokens_eff hw h)
  case unlockEarly => exact .effect _ _ rfl (unlockEarly_eff hw h)
  case reduce => exact .effect _ _ rfl (reduceLock_eff hw h)
  case lockVirtual => exact .effect _ _ rfl (lockVirtual_eff hw h)
  case claim => exact .quiet rfl (claimUnlocked_quiet h)
  case cancel => exact .effect _ _ rfl (cancelUnbond_eff hw h)
  case lockFunds => exact .effect _ _ rfl (lockFunds_eff hw h)
  case withdraw => exact .effect _ _ rfl (withdraw_eff hw h)
  case cancelTransfer => exact .effect _ _ rfl (cancelTransfer_eff hw h)
  case wrap => exact .effect _ _ rfl (wrap_eff hw h)
  case unwrap => exact .effect _ _ rfl (unwrap_eff hw h)
  case xferWrapped => exact .quiet rfl (xferWrapped_quiet h)
  case cfg op =>
    simp only [Option.map_eq_some_iff, Prod.mk.injEq] at h
    obtain ⟨s1, h1, rfl, _⟩ := h
    exact .quiet rfl (cfg_quiet h1)
  case advance e =>
    split at h
    · rename_i hle
      simp only [Option.some.injEq, Prod.mk.injEq] at h
      obtain ⟨rfl, _⟩ := h
      exact .advance e rfl hle rfl
    · simp at h

theorem step_ainv {s s' : St} {A : Nat → Nat → Int} {op : Op} {o : Out} (hi : AInv s A)
    (hw : op.NoEsc) (h : step s op = some (s', o)) : AInv s' (attrStep A s s' op) := by
  rcases step_kind hw h with ⟨hh, ea, hp, eff⟩ | ⟨hp, q⟩ | ⟨e, hp, hle, rfl⟩
  · simp only [attrStep, hp]; exact ainv_effect hi eff
  · simp only [attrStep, hp]; exact ainv_quiet hi q
  · simp only [attrStep, hp]; exact ainv_advance hi hle

/-! ### histories -/

/-- the state and the attribution ledger after a history (failed transactions change neither) -/
def runA : St → (Nat → Nat → Int) → List Op → St × (Nat → Nat → Int)
  | s, A, [] => (s, A)
  | s, A, op :: ops =>
      match step s op with
      | some (s', _) => runA s' (attrStep A s s' op) ops
      | none => runA s A ops

theorem runA_fst (ops : List Op) (s : St) (A : Nat → Nat → Int) : (runA s A ops).1 = run s ops := by
  induction ops generalizing s A with
  | nil => rfl
  | cons op ops ih =>
    simp only [runA, run, List.foldl_cons]
    cases hst : step s op with
    | none => exact ih s A
    | some r => obtain ⟨s1, o⟩ := r; exact ih s1 _

theorem init_ainv (c : Cfg) : AInv (init c) (fun _ _ => 0) := by
  refine ⟨?_, ?_, ?_, ?_⟩
  · intro a
    refine ⟨?_, ?_, rfl⟩
    · show (0 : Int) = sumEZ (fun _ => 0) c.epoch 1 []
      rfl
    · show ((0 : Nat) : Int) = sumTZ (fun _ => 0) 1 []
      rfl
  · intro a e he; simp [init] at he
  · intro a n _; rfl
  · intro a n _; rfl

theorem runA_ainv (ops : List Op) {s : St} {A : Nat → Nat → Int} (hi : AInv s A)
    (hw : ∀ op ∈ ops, op.NoEsc) : AInv (runA s A ops).1 (runA s A ops).2 := by
  induction ops generalizing s A with
  | nil => exact hi
  | cons op ops ih =>
    have hw' : ∀ o ∈ ops, o.NoEsc := fun o ho => hw o (by simp [ho])
    simp only [runA]
    cases hst : step s op with
    | none => exact ih hi hw'
    | some r =>
      obtain ⟨s1, o⟩ := r
      exact ih (step_ainv hi (hw op (by simp)) hst) hw'

end Mx.Energy
