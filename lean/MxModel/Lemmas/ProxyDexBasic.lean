/-
  Basic facts for the proxy-dex model: the rule of three (`part`), bags, sums over the token
  tables and how `List.set` / append change them.
-/
import MxModel.Core.ProxyDex
import Mathlib.Tactic.Linarith

namespace Mx.ProxyDex

/-! ### rule of three -/

theorem part_eq_some {full total x p : Nat} :
    part full total x = some p ↔
      p ≠ 0 ∧ p = (if x = total then full else full * x / total) := by
  unfold part
  simp only
  generalize (if x = total then full else full * x / total) = r
  by_cases h : r = 0
  · simp only [h, if_true]
    constructor
    · intro h'; cases h'
    · rintro ⟨h1, h2⟩; exact absurd h2 h1
  · simp only [h, if_false, Option.some.injEq]
    constructor
    · intro h'; subst h'; exact ⟨h, rfl⟩
    · rintro ⟨_, h2⟩; exact h2.symm

/-- the part never exceeds the pro-rata share: `p * total ≤ full * x` -/
theorem part_mul_le {full total x p : Nat} (h : part full total x = some p) :
    p * total ≤ full * x := by
  obtain ⟨_, hp⟩ := part_eq_some.mp h
  split at hp
  · rename_i hx; subst hx; subst hp; exact Nat.le_refl _
  · subst hp; exact Nat.div_mul_le_self _ _

theorem part_full {full total : Nat} (h : full ≠ 0) : part full total total = some full := by
  unfold part; simp [h]

/-- when the recorded amount does not exceed the supply, a part does not exceed the amount paid -/
theorem part_le_of_le {full total x p : Nat} (h : part full total x = some p) (hle : full ≤ total) :
    p ≤ x := by
  obtain ⟨_, hp⟩ := part_eq_some.mp h
  split at hp
  · rename_i hx; subst hx; omega
  · subst hp
    by_cases ht : total = 0
    · subst ht; simp
    · calc full * x / total ≤ total * x / total := Nat.div_le_div_right (Nat.mul_le_mul_right _ hle)
        _ = x := Nat.mul_div_cancel_left _ (Nat.pos_of_ne_zero ht)

theorem part_le_full {full total x p : Nat} (h : part full total x = some p) (hx : x ≤ total) :
    p ≤ full := by
  obtain ⟨_, hp⟩ := part_eq_some.mp h
  split at hp
  · omega
  · subst hp
    by_cases ht : total = 0
    · subst ht; simp
    · calc full * x / total ≤ full * total / total := Nat.div_le_div_right (Nat.mul_le_mul_left _ hx)
        _ = full := Nat.mul_div_cancel _ (Nat.pos_of_ne_zero ht)

/-! ### bags -/

theorem Bag.sub?_eq_some {b b' : Bag} {k a : Nat} :
    b.sub? k a = some b' ↔ a ≤ b k ∧ b' = fun i => if i = k then b i - a else b i := by
  unfold Bag.sub?
  split <;> simp [*, eq_comm]

@[simp] theorem Bag.add_apply (b : Bag) (k a i : Nat) :
    b.add k a i = if i = k then b i + a else b i := rfl

@[simp] theorem Bag.set_apply (b : Bag) (k v i : Nat) :
    b.set k v i = if i = k then v else b i := rfl

/-! ### sums over the token tables -/

def sumOf {α : Type} (f : α → Nat) (l : List α) : Nat := (l.map f).sum

@[simp] theorem sumOf_nil {α : Type} (f : α → Nat) : sumOf f [] = 0 := rfl

@[simp] theorem sumOf_cons {α : Type} (f : α → Nat) (a : α) (l : List α) :
    sumOf f (a :: l) = f a + sumOf f l := by
  simp [sumOf]

@[simp] theorem sumOf_append {α : Type} (f : α → Nat) (l m : List α) :
    sumOf f (l ++ m) = sumOf f l + sumOf f m := by
  simp [sumOf]

/-- replacing element `i` moves the sum by the difference (additive form, no subtraction) -/
theorem sumOf_set {α : Type} (f : α → Nat) (l : List α) (i : Nat) (a b : α)
    (h : l[i]? = some a) : sumOf f (l.set i b) + f a = sumOf f l + f b := by
  induction l generalizing i with
  | nil => simp at h
  | cons c l ih =>
    cases i with
    | zero =>
      simp only [List.getElem?_cons_zero, Option.some.injEq] at h
      subst h
      simp only [List.set_cons_zero, sumOf_cons]; omega
    | succ i =>
      simp only [List.getElem?_cons_succ] at h
      have := ih i h
      simp only [List.set_cons_succ, sumOf_cons]; omega

theorem sumOf_le_of_mem {α : Type} (f : α → Nat) (l : List α) (i : Nat) (a : α)
    (h : l[i]? = some a) : f a ≤ sumOf f l := by
  induction l generalizing i with
  | nil => simp at h
  | cons c l ih =>
    cases i with
    | zero =>
      simp only [List.getElem?_cons_zero, Option.some.injEq] at h
      subst h; simp
    | succ i =>
      simp only [List.getElem?_cons_succ] at h
      have := ih i h
      simp only [sumOf_cons]; omega

theorem mem_set_cases {α : Type} {l : List α} {i : Nat} {b x : α} (h : x ∈ l.set i b) :
    x = b ∨ x ∈ l := by
  rcases List.mem_or_eq_of_mem_set h with h | h
  · exact Or.inr h
  · exact Or.inl h

end Mx.ProxyDex
