/-
  The C08 invariant of the `energy` world and the generic "one account changes" preservation
  lemmas; the per-endpoint proofs are in EnergyStep*.lean.
-/
import MxModel.Lemmas.EnergySum

namespace Mx.Energy

/-- C08 as a state invariant.  For every user account (addresses below `SCBASE`):
    the entry the factory reports (`getEnergyEntryForUser`) is exactly
    (Σ amount·(unlock − now), Σ amount) over the locked tokens the account holds;
    escrow contracts have no entry at all. -/
structure Inv (s : St) : Prop where
  track : ∀ a, a < SCBASE → Tracks (s.view a) (s.bal a) s.nonces s.epoch
  last : ∀ a e, s.energy a = some e → e.last ≤ s.epoch
  dom : ∀ a n, a < SCBASE → (n = 0 ∨ s.nonces.length < n) → s.bal a n = 0
  sc : ∀ a, SCBASE ≤ a → s.energy a = none

/-! ### small facts about the map helpers and nonces -/

theorem upd2_same (f : Nat → Nat → Nat) (a k v : Nat) : upd2 f a k v a = upd (f a) k v := by
  simp [upd2]

theorem upd2_other (f : Nat → Nat → Nat) {a x : Nat} (k v : Nat) (h : x ≠ a) :
    upd2 f a k v x = f x := by
  simp [upd2, h]

theorem updO_same {α : Type} (f : Nat → α) (k : Nat) (v : α) : updO f k v k = v := by simp [updO]

theorem updO_other {α : Type} (f : Nat → α) {k x : Nat} (v : α) (h : x ≠ k) : updO f k v x = f x := by
  simp [updO, h]

theorem unlockOf_isNonce {s : St} {n u : Nat} (h : s.unlockOf n = some u) : IsNonce s.nonces n u := by
  unfold St.unlockOf at h
  split at h
  · simp at h
  · exact ⟨by omega, h⟩

theorem IsNonce.le_length {ns : List Nat} {n u : Nat} (h : IsNonce ns n u) : n ≤ ns.length := by
  obtain ⟨h1, h2⟩ := h
  have := (List.getElem?_eq_some_iff.mp h2).1
  omega

theorem IsNonce.append {ns : List Nat} {n u : Nat} (h : IsNonce ns n u) (x : Nat) :
    IsNonce (ns ++ [x]) n u := by
  obtain ⟨h1, h2⟩ := h
  refine ⟨h1, ?_⟩
  have hlt := (List.getElem?_eq_some_iff.mp h2).1
  rw [List.getElem?_append_left hlt]
  exact h2

theorem idxOf_le (e : Nat) (ns : List Nat) : idxOf e ns ≤ ns.length := by
  induction ns with
  | nil => simp [idxOf]
  | cons x xs ih => unfold idxOf; split <;> (simp; try omega)

theorem idxOf_mem {e : Nat} {ns : List Nat} (h : e ∈ ns) : ns[idxOf e ns]? = some e := by
  induction ns with
  | nil => simp at h
  | cons x xs ih =>
    unfold idxOf
    split
    · rename_i heq; simp [heq]
    · rename_i hne
      have : e ∈ xs := by
        rcases List.mem_cons.mp h with h1 | h1
        · exact (hne h1.symm).elim
        · exact h1
      simpa using ih this

theorem idxOf_not_mem {e : Nat} {ns : List Nat} (h : e ∉ ns) : idxOf e ns = ns.length := by
  induction ns with
  | nil => rfl
  | cons x xs ih =>
    unfold idxOf
    have hx : x ≠ e := fun h1 => h (by simp [h1])
    have : e ∉ xs := fun h1 => h (by simp [h1])
    simp [hx, ih this]

theorem ensureNonce_nonces (s : St) (u : Nat) :
    (s.ensureNonce u).nonces = s.nonces ∨ (s.ensureNonce u).nonces = s.nonces ++ [u] := by
  unfold St.ensureNonce; split
  · exact Or.inl rfl
  · exact Or.inr rfl

theorem ensureNonce_isNonce (s : St) (u : Nat) :
    IsNonce (s.ensureNonce u).nonces (s.nonceFor u) u := by
  unfold St.ensureNonce St.nonceFor
  split
  · rename_i hm
    exact ⟨by omega, by simpa using idxOf_mem hm⟩
  · rename_i hm
    refine ⟨by omega, ?_⟩
    rw [idxOf_not_mem hm]
    simp

theorem ensureNonce_bal (s : St) (u : Nat) {a : Nat} (ha : a < SCBASE) :
    (s.ensureNonce u).bal a = s.bal a := by
  unfold St.ensureNonce; split
  · rfl
  · have : a ≠ FACTORY := by
      have : FACTORY = 200 := rfl
      have : SCBASE = 200 := rfl
      omega
    exact upd2_other _ _ _ this

@[simp] theorem ensureNonce_epoch (s : St) (u : Nat) : (s.ensureNonce u).epoch = s.epoch := by
  unfold St.ensureNonce; split <;> rfl

@[simp] theorem ensureNonce_energy (s : St) (u : Nat) : (s.ensureNonce u).energy = s.energy := by
  unfold St.ensureNonce; split <;> rfl

theorem debit_spec {s s1 : St} {a n amt : Nat} (h : s.debit a n amt = some s1) :
    amt ≤ s.bal a n ∧ s1 = { s with bal := upd2 s.bal a n (s.bal a n - amt) } := by
  simp only [St.debit, Option.bind_eq_bind, Option.bind_eq_some_iff, sub?_eq_some, Option.pure_def,
    Option.some.injEq] at h
  obtain ⟨b, ⟨hle, rfl⟩, rfl⟩ := h
  exact ⟨hle, rfl⟩

/-- the view of an account whose stored entry was just written at the current epoch -/
theorem view_of_some {s : St} {a : Nat} {e : Entry} (h : s.energy a = some e) (hl : e.last = s.epoch) :
    s.view a = e := by
  simp [St.view, h, Entry.deplete, hl]

theorem view_congr {s s' : St} {a : Nat} (he : s'.energy a = s.energy a) (hp : s'.epoch = s.epoch) :
    s'.view a = s.view a := by
  simp [St.view, he, hp]

/-- the view is already depleted to the current epoch -/
theorem view_last (s : St) (a : Nat) : (s.view a).last = s.epoch := by
  unfold St.view
  split
  · unfold Entry.deplete; split
    · rename_i h; exact h
    · rfl
  · rfl

/-! ### generic preservation: at most one user account changes -/

theorem tracks_of_nonces {e : Entry} {f : Nat → Nat} {ns ns' : List Nat} {now : Nat}
    (h : Tracks e f ns now) (hn : ns' = ns ∨ ∃ u, ns' = ns ++ [u]) (h0 : f (ns.length + 1) = 0) :
    Tracks e f ns' now := by
  rcases hn with rfl | ⟨u, rfl⟩
  · exact h
  · exact h.append u h0

/-- nothing a user holds or is credited with changed (the nonce list may have grown) -/
theorem inv_frame {s s' : St} (hi : Inv s) (hep : s'.epoch = s.epoch)
    (hn : s'.nonces = s.nonces ∨ ∃ u, s'.nonces = s.nonces ++ [u])
    (hen : s'.energy = s.energy)
    (hbal : ∀ x, x < SCBASE → s'.bal x = s.bal x) : Inv s' := by
  have hlen : s.nonces.length ≤ s'.nonces.length := by
    rcases hn with h | ⟨u, h⟩ <;> (rw [h]; try simp)
  refine ⟨?_, ?_, ?_, ?_⟩
  · intro a ha
    rw [view_congr (by rw [hen]) hep, hbal a ha, hep]
    exact tracks_of_nonces (hi.track a ha) hn (hi.dom a _ ha (Or.inr (by omega)))
  · intro a e he
    rw [hen] at he
    rw [hep]; exact hi.last a e he
  · intro a n ha hnn
    rw [hbal a ha]
    exact hi.dom a n ha (by omega)
  · intro a ha
    rw [hen]; exact hi.sc a ha

/-- exactly one user account `a` got a new entry and a new balance row which track each other -/
theorem inv_user_update {s s' : St} (hi : Inv s) {a : Nat} (ha : a < SCBASE)
    (hep : s'.epoch = s.epoch)
    (hn : s'.nonces = s.nonces ∨ ∃ u, s'.nonces = s.nonces ++ [u])
    (hen : ∀ x, x ≠ a → s'.energy x = s.energy x)
    (hbal : ∀ x, x < SCBASE → x ≠ a → s'.bal x = s.bal x)
    {e' : Entry} (hea : s'.energy a = some e')
    (ht : Tracks e' (s'.bal a) s'.nonces s.epoch)
    (hdom : ∀ n, (n = 0 ∨ s'.nonces.length < n) → s'.bal a n = 0) : Inv s' := by
  have hlen : s.nonces.length ≤ s'.nonces.length := by
    rcases hn with h | ⟨u, h⟩ <;> (rw [h]; try simp)
  refine ⟨?_, ?_, ?_, ?_⟩
  · intro x hx
    by_cases hxa : x = a
    · subst hxa
      rw [view_of_some hea (by rw [hep]; exact ht.2.2), hep]
      exact ht
    · rw [view_congr (hen x hxa) hep, hbal x hx hxa, hep]
      exact tracks_of_nonces (hi.track x hx) hn (hi.dom x _ hx (Or.inr (by omega)))
  · intro x e he
    by_cases hxa : x = a
    · subst hxa
      rw [hea] at he
      simp only [Option.some.injEq] at he
      subst he
      rw [hep, ht.2.2]
    · rw [hen x hxa] at he
      rw [hep]; exact hi.last x e he
  · intro x n hx hnn
    by_cases hxa : x = a
    · subst hxa; exact hdom n hnn
    · rw [hbal x hx hxa]
      exact hi.dom x n hx (by omega)
  · intro x hx
    have : x ≠ a := by omega
    rw [hen x this]; exact hi.sc x hx

/-- a row updated at a valid nonce is still zero outside the nonce range -/
theorem dom_upd {f : Nat → Nat} {ns : List Nat} {n u v : Nat} (hn : IsNonce ns n u)
    (h : ∀ m, (m = 0 ∨ ns.length < m) → f m = 0) :
    ∀ m, (m = 0 ∨ ns.length < m) → upd f n v m = 0 := by
  intro m hm
  have := hn.le_length
  have h1 := hn.1
  rw [upd_other f v (by omega)]
  exact h m hm

end Mx.Energy
