/-
  C13 helpers, part 4: the binary search of `price_observation_by_binary_search` on a segment
  of the (physical) observation vector whose rounds are strictly increasing.
-/
import MxModel.Lemmas.SafePriceRing

namespace Mx.SafePrice
open Mx Mx.Pair

/-- element at 1-based physical index `i` (total; `Obs.zero` outside the vector) -/
def nth (p : SP) (i : Nat) : Obs := p.obs.getD (i - 1) Obs.zero

theorem get?_some {p : SP} {i : Nat} (h1 : 1 ≤ i) (h2 : i ≤ p.obs.length) :
    get? p i = some (nth p i) := by
  unfold get? nth
  rw [if_pos ⟨h1, h2⟩, List.getD_eq_getElem?_getD, List.getElem?_eq_getElem (by omega)]
  rfl

theorem get?_none {p : SP} {i : Nat} (h : ¬ (1 ≤ i ∧ i ≤ p.obs.length)) : get? p i = none := by
  unfold get?
  rw [if_neg h]

/-- rounds strictly increase with the physical index on `[lo, hi]` -/
def SortedSeg (p : SP) (lo hi : Nat) : Prop :=
  ∀ i j, lo ≤ i → i < j → j ≤ hi → (nth p i).round < (nth p j).round

/-- result of the search loop on a miss: `m` is the partition point of the segment `[l, r]`
    (everything before it is older than `q`, everything from it on is newer) and the index
    returned is the last probed one: `m` itself or its left neighbour -/
def Miss (p : SP) (q l r si si' : Nat) : Prop :=
  ∃ m, l ≤ m ∧ m ≤ r + 1 ∧
    (∀ i, l ≤ i → i < m → (nth p i).round < q) ∧
    (∀ i, m ≤ i → i ≤ r → q < (nth p i).round) ∧
    ((r < l ∧ si' = si) ∨ (l ≤ r ∧ ((si' = m ∧ m ≤ r) ∨ (si' + 1 = m ∧ l ≤ si'))))

/-- the loop is a correct binary search on any sorted segment `[l, r] ⊆ [1, len]` -/
theorem bsLoop_spec (p : SP) (q : Nat) :
    ∀ (fuel l r si : Nat), 1 ≤ l → r ≤ p.obs.length → l ≤ r + 1 → r + 1 - l ≤ fuel →
      SortedSeg p l r →
      ∃ o si', bsLoop p q fuel l r si = some (o, si') ∧
        ((o = nth p si' ∧ o.round = q ∧ l ≤ si' ∧ si' ≤ r) ∨ (o = Obs.zero ∧ Miss p q l r si si')) := by
  intro fuel
  induction fuel with
  | zero =>
    intro l r si h1 h2 h3 h4 _
    have hlr : ¬ l ≤ r := by omega
    refine ⟨Obs.zero, si, by simp only [bsLoop, hlr, if_false], Or.inr ⟨rfl, l, Nat.le_refl _, by omega,
      fun i a b => by omega, fun i a b => by omega, Or.inl ⟨by omega, rfl⟩⟩⟩
  | succ fuel ih =>
    intro l r si h1 h2 h3 h4 hsort
    by_cases hlr : l ≤ r
    · have hmid1 : l ≤ (l + r) / 2 := by omega
      have hmid2 : (l + r) / 2 ≤ r := by omega
      generalize hmid : (l + r) / 2 = mid at hmid1 hmid2
      have hget : get? p mid = some (nth p mid) := get?_some (by omega) (by omega)
      simp only [bsLoop, hlr, if_true, hmid, hget, Option.bind_eq_bind, Option.bind_some,
        Option.pure_def]
      by_cases heq : (nth p mid).round = q
      · rw [if_pos heq]
        exact ⟨_, _, rfl, Or.inl ⟨rfl, heq, hmid1, hmid2⟩⟩
      · rw [if_neg heq]
        by_cases hlt : (nth p mid).round < q
        · rw [if_pos hlt]
          obtain ⟨o, si', he, hres⟩ := ih (mid + 1) r mid (by omega) h2 (by omega) (by omega)
            (fun i j a b c => hsort i j (by omega) b c)
          refine ⟨o, si', he, ?_⟩
          rcases hres with ⟨e1, e2, e3, e4⟩ | ⟨e1, m, m1, m2, m3, m4, m5⟩
          · exact Or.inl ⟨e1, e2, by omega, e4⟩
          · refine Or.inr ⟨e1, m, by omega, m2, fun i a b => ?_, m4, Or.inr ⟨hlr, ?_⟩⟩
            · by_cases hi : i ≤ mid
              · by_cases hi2 : i = mid
                · subst hi2; exact hlt
                · have := hsort i mid a (by omega) hmid2
                  omega
              · exact m3 i (by omega) b
            · rcases m5 with ⟨a, b⟩ | ⟨_, ⟨a, b⟩ | ⟨a, b⟩⟩
              · exact Or.inr ⟨by omega, by omega⟩
              · exact Or.inl ⟨a, b⟩
              · exact Or.inr ⟨a, by omega⟩
        · rw [if_neg hlt]
          have hgt : q < (nth p mid).round := by omega
          obtain ⟨o, si', he, hres⟩ := ih l (mid - 1) mid h1 (by omega) (by omega) (by omega)
            (fun i j a b c => hsort i j a b (by omega))
          refine ⟨o, si', he, ?_⟩
          rcases hres with ⟨e1, e2, e3, e4⟩ | ⟨e1, m, m1, m2, m3, m4, m5⟩
          · exact Or.inl ⟨e1, e2, e3, by omega⟩
          · refine Or.inr ⟨e1, m, m1, by omega, m3, fun i a b => ?_, Or.inr ⟨hlr, ?_⟩⟩
            · by_cases hi : mid ≤ i
              · by_cases hi2 : i = mid
                · subst hi2; exact hgt
                · have := hsort mid i hmid1 (by omega) b
                  omega
              · exact m4 i a (by omega)
            · rcases m5 with ⟨a, b⟩ | ⟨_, ⟨a, b⟩ | ⟨a, b⟩⟩
              · exact Or.inl ⟨by omega, by omega⟩
              · exact Or.inl ⟨a, by omega⟩
              · exact Or.inr ⟨a, b⟩
    · refine ⟨Obs.zero, si, by simp only [bsLoop, hlr, if_false], Or.inr ⟨rfl, l, Nat.le_refl _,
        by omega, fun i a b => by omega, fun i a b => by omega, Or.inl ⟨by omega, rfl⟩⟩⟩

end Mx.SafePrice
