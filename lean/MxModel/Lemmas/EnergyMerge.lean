/-
  What the energy factory MODEL (Core/Energy.lean) answers to the two calls the proxy-dex makes:
  `mergeTokens(original_caller)` (token_merging.rs) and the period extension
  (`extend_new_token_period` of extend_lock.rs, reached in the model through `extendLock`).
  Amount of the answer, unlock epoch of the answer (the pairwise rounded-up weighted average, then
  `unlock_epoch_to_start_of_month_upper_estimate`), and the token the caller ends up holding.
  Used by Props/C16Compose.lean to discharge `FactoryMergeOK` (Lemmas/ProxyDexNetOps.lean).
-/
import MxModel.Lemmas.EnergyC09

namespace Mx.Energy

/-! ### arithmetic: the rounded-up weighted average lies between its two arguments -/

theorem weightedAvgRoundUp_between (v1 w1 v2 w2 lo hi : Nat) (hw : w1 + w2 ≠ 0)
    (h1 : lo ≤ v1 ∧ v1 ≤ hi) (h2 : lo ≤ v2 ∧ v2 ≤ hi) :
    lo ≤ weightedAvgRoundUp v1 w1 v2 w2 ∧ weightedAvgRoundUp v1 w1 v2 w2 ≤ hi := by
  have hW : 0 < w1 + w2 := Nat.pos_of_ne_zero hw
  have hlo : lo * (w1 + w2) ≤ v1 * w1 + v2 * w2 := by
    rw [Nat.mul_add]
    exact Nat.add_le_add (Nat.mul_le_mul_right _ h1.1) (Nat.mul_le_mul_right _ h2.1)
  have hhi : v1 * w1 + v2 * w2 ≤ hi * (w1 + w2) := by
    rw [Nat.mul_add]
    exact Nat.add_le_add (Nat.mul_le_mul_right _ h1.2) (Nat.mul_le_mul_right _ h2.2)
  unfold weightedAvgRoundUp ceilDiv
  generalize v1 * w1 + v2 * w2 = S at hlo hhi
  generalize w1 + w2 = W at hW hlo hhi
  constructor
  · rw [Nat.le_div_iff_mul_le hW]; omega
  · have : (S + W - 1) / W < hi + 1 := by
      rw [Nat.div_lt_iff_lt_mul hW, Nat.add_mul]; omega
    omega

/-- a month start is a multiple of `MONTH`, not after its argument, less than a month before it -/
theorem startOfMonth_facts (e : Nat) :
    startOfMonth e % MONTH = 0 ∧ startOfMonth e ≤ e ∧ e < startOfMonth e + MONTH := by
  have hM : MONTH = 30 := rfl
  unfold startOfMonth
  rw [hM]
  omega

/-- `unlock_epoch_to_start_of_month_upper_estimate`: the result is the month start at or below
    the argument or the next one, and it is a month start -/
theorem upperEstimate_cases (opts : List Opt) (now u : Nat) :
    (upperEstimate opts now u = startOfMonth u ∨ upperEstimate opts now u = startOfMonth u + MONTH) ∧
    (u % MONTH = 0 → upperEstimate opts now u = u) ∧ upperEstimate opts now u % MONTH = 0 := by
  have hM : MONTH = 30 := rfl
  have hs := startOfMonth_facts u
  refine ⟨?_, ?_, ?_⟩
  · unfold upperEstimate
    simp only []
    split
    · exact Or.inl rfl
    · split
      · exact Or.inr rfl
      · split
        · exact Or.inr rfl
        · exact Or.inl rfl
  · intro hu
    have : startOfMonth u = u := by unfold startOfMonth; omega
    unfold upperEstimate
    simp only [this, if_true]
  · unfold upperEstimate
    simp only []
    split
    · exact hs.1
    · split
      · rw [hM] at hs ⊢; omega
      · split
        · rw [hM] at hs ⊢; omega
        · exact hs.1

/-- if all merged unlock epochs lie in `[lo, hi]` and both bounds are month starts, so does the
    normalised merged epoch -/
theorem upperEstimate_between (opts : List Opt) (now u lo hi : Nat) (hlo : lo % MONTH = 0)
    (hhi : hi % MONTH = 0) (h : lo ≤ u ∧ u ≤ hi) :
    lo ≤ upperEstimate opts now u ∧ upperEstimate opts now u ≤ hi := by
  have hM : MONTH = 30 := rfl
  obtain ⟨hc, hal, _⟩ := upperEstimate_cases opts now u
  have hs := startOfMonth_facts u
  by_cases hu : u % MONTH = 0
  · rw [hal hu]; exact h
  · rw [hM] at hlo hhi hu hs
    have hlt : u < hi := by
      rcases Nat.lt_or_ge u hi with h1 | h1
      · exact h1
      · have : u = hi := by omega
        subst this; exact (hu hhi).elim
    rcases hc with hc | hc <;> rw [hc] <;> (try rw [hM]) <;> omega

/-! ### state facts of the building blocks -/

theorem debit_nonces {s s1 : St} {a n amt : Nat} (h : s.debit a n amt = some s1) :
    s1.nonces = s.nonces ∧ s1.epoch = s.epoch := by
  obtain ⟨_, rfl⟩ := debit_spec h
  exact ⟨rfl, rfl⟩

theorem unlockOf_congr {s s1 : St} (h : s1.nonces = s.nonces) (n : Nat) :
    s1.unlockOf n = s.unlockOf n := by
  unfold St.unlockOf; rw [h]

/-- the nonce `lock_and_send` hands out carries the requested unlock epoch -/
theorem ensureNonce_unlockOf (s : St) (u : Nat) :
    (s.ensureNonce u).unlockOf (s.nonceFor u) = some u := by
  obtain ⟨h1, h2⟩ := ensureNonce_isNonce s u
  unfold St.unlockOf
  rw [if_neg (by omega)]
  exact h2

/-- existing nonces keep their unlock epoch when a nonce is created -/
theorem ensureNonce_unlockOf_old (s : St) (u : Nat) {n v : Nat} (h : s.unlockOf n = some v) :
    (s.ensureNonce u).unlockOf n = some v := by
  have hN := unlockOf_isNonce h
  unfold St.unlockOf
  rw [if_neg (by have := hN.1; omega)]
  rcases ensureNonce_nonces s u with e | e <;> rw [e]
  · exact hN.2
  · exact (hN.append u).2

/-! ### `mergeTokens`: the payments after the first -/

/-- the loop adds every amount to the merged amount, and keeps the merged epoch inside any
    interval that contains the epochs of all tokens merged so far -/
theorem mergePays_answer (ps : List (Nat × Nat)) {s s2 : St} {c : Nat} {e e2 : Entry}
    {accE accW accE' accW' : Nat}
    (h : mergePays s c e accE accW ps = some (s2, e2, accE', accW')) :
    accW' = accW + paySum ps ∧ s2.nonces = s.nonces ∧ s2.epoch = s.epoch ∧
    (∀ p ∈ ps, ∃ u, s.unlockOf p.1 = some u ∧ s.epoch < u) ∧
    (∀ lo hi, lo ≤ accE ∧ accE ≤ hi →
      (∀ p ∈ ps, ∀ u, s.unlockOf p.1 = some u → lo ≤ u ∧ u ≤ hi) → lo ≤ accE' ∧ accE' ≤ hi) := by
  induction ps generalizing s e accE accW with
  | nil =>
    simp only [mergePays, Option.some.injEq, Prod.mk.injEq] at h
    obtain ⟨rfl, _, rfl, rfl⟩ := h
    refine ⟨by simp [paySum], rfl, rfl, ?_, fun lo hi hb _ => hb⟩
    intro p hp; cases hp
  | cons p ps ih =>
    obtain ⟨n, amt⟩ := p
    simp only [mergePays, Option.bind_eq_bind, Option.bind_eq_some_iff, req_eq_some] at h
    obtain ⟨u, hu, s1, hdeb, _, hlt, e1, _, _, hne, hrec⟩ := h
    obtain ⟨hn1, he1⟩ := debit_nonces hdeb
    obtain ⟨hW, hN, hE, hall, hB⟩ := ih hrec
    refine ⟨?_, hN.trans hn1, hE.trans he1, ?_, ?_⟩
    · rw [hW]; simp only [paySum, List.map_cons, List.sum_cons]; omega
    · intro p hp
      rcases List.mem_cons.mp hp with rfl | hp
      · exact ⟨u, hu, hlt⟩
      · obtain ⟨v, hv, hvl⟩ := hall p hp
        rw [unlockOf_congr hn1] at hv
        rw [he1] at hvl
        exact ⟨v, hv, hvl⟩
    · intro lo hi hb hps
      refine hB lo hi ?_ ?_
      · exact weightedAvgRoundUp_between accE accW u amt lo hi hne hb
          (hps (n, amt) (List.mem_cons_self ..) u hu)
      · intro p hp v hv
        rw [unlockOf_congr hn1] at hv
        exact hps p (List.mem_cons_of_mem _ hp) v hv

/-! ### `mergeTokens` -/

/-- **the factory's answer to `mergeTokens`.**  Whoever calls (a user for himself, `orig = 0`, or a
    whitelisted contract on behalf of `orig`), with any list of locked-token payments:
    * the answer is ONE locked token whose amount is the SUM of the merged amounts;
    * every merged token was still locked (`now < unlock`), and so is the answer;
    * its nonce carries the unlock epoch `upperEstimate opts now accE`, a month start, where `accE`
      lies in every interval `[lo, hi]` that contains the unlock epochs of all merged tokens; if
      `lo` and `hi` are month starts, the normalised epoch lies in `[lo, hi]` too;
    * the nonces that existed keep their unlock epoch;
    * naming an original caller needs the whitelist. -/
theorem mergeTokens_answer {s s' : St} {c orig : Nat} {ps : List (Nat × Nat)} {o : Out}
    (h : mergeTokens s c orig ps = some (s', o)) :
    o.v2 = paySum ps ∧ 0 < o.v2 ∧ (orig = 0 ∨ c ∈ s.wl) ∧
    (∀ p ∈ ps, ∃ u, s.unlockOf p.1 = some u ∧ s.epoch < u) ∧
    (∃ unl, s'.unlockOf o.v1 = some unl ∧ s.epoch < unl ∧ unl % MONTH = 0 ∧
      (∀ lo hi, (∀ p ∈ ps, ∀ u, s.unlockOf p.1 = some u → lo ≤ u ∧ u ≤ hi) →
        startOfMonth lo ≤ unl ∧ unl ≤ startOfMonth hi + MONTH ∧
        (lo % MONTH = 0 → hi % MONTH = 0 → lo ≤ unl ∧ unl ≤ hi))) ∧
    (∀ n v, s.unlockOf n = some v → s'.unlockOf n = some v) ∧ s'.epoch = s.epoch := by
  have hM : MONTH = 30 := rfl
  cases ps with
  | nil => simp [mergeTokens] at h
  | cons p rest =>
    obtain ⟨n1, a1⟩ := p
    simp only [mergeTokens, Option.bind_eq_bind, Option.bind_eq_some_iff, req_eq_some,
      Option.pure_def, Option.some.injEq, Prod.mk.injEq] at h
    obtain ⟨_, _, _, _, _, hwl, u1, hu1, s1, hdeb, _, hlt1, e1, _, ⟨s2, e2, accE, accW⟩, hp, _,
      hpos, _, hlock, rfl, rfl⟩ := h
    obtain ⟨hn1, he1⟩ := debit_nonces hdeb
    obtain ⟨hW, hN, hE, hall, hB⟩ := mergePays_answer rest hp
    have hn2 : s2.nonces = s.nonces := hN.trans hn1
    refine ⟨?_, hpos, hwl, ?_, ?_, ?_, ?_⟩
    · show accW = _
      rw [hW]; simp only [paySum, List.map_cons, List.sum_cons]
    · intro p hp'
      rcases List.mem_cons.mp hp' with rfl | hp'
      · exact ⟨u1, hu1, hlt1⟩
      · obtain ⟨v, hv, hvl⟩ := hall p hp'
        rw [unlockOf_congr hn1] at hv
        rw [he1] at hvl
        exact ⟨v, hv, hvl⟩
    · refine ⟨upperEstimate s.opts s.epoch accE, ?_, hlock, (upperEstimate_cases _ _ _).2.2, ?_⟩
      · show ((s2.ensureNonce _).credit c _ accW |>.setEnergy _ _).unlockOf (s2.nonceFor _) = _
        exact ensureNonce_unlockOf s2 _
      · intro lo hi hps
        have hacc : lo ≤ accE ∧ accE ≤ hi := by
          refine hB lo hi (hps (n1, a1) (List.mem_cons_self ..) u1 hu1) ?_
          intro p hp' v hv
          rw [unlockOf_congr hn1] at hv
          exact hps p (List.mem_cons_of_mem _ hp') v hv
        obtain ⟨hc, _, _⟩ := upperEstimate_cases s.opts s.epoch accE
        have f1 := startOfMonth_facts accE
        have f2 := startOfMonth_facts lo
        have f3 := startOfMonth_facts hi
        refine ⟨?_, ?_, fun hlo hhi => upperEstimate_between _ _ _ _ _ hlo hhi hacc⟩
        · rw [hM] at f1 f2 f3
          rcases hc with hc | hc <;> rw [hc] <;> omega
        · rw [hM] at f1 f2 f3 ⊢
          rcases hc with hc | hc <;> rw [hc] <;> omega
    · intro n v hv
      rw [← unlockOf_congr hn2] at hv
      exact ensureNonce_unlockOf_old s2 _ hv
    · show (s2.ensureNonce _).epoch = _
      rw [ensureNonce_epoch, hE, he1]

/-- **the merged token reaches the caller**: after `mergeTokens` the caller (the proxy) holds the
    answered amount of the answered nonce on top of what it held of that nonce after paying -/
theorem mergeTokens_credited {s s' : St} {c orig : Nat} {ps : List (Nat × Nat)} {o : Out}
    (h : mergeTokens s c orig ps = some (s', o)) : o.v2 ≤ s'.bal c o.v1 := by
  cases ps with
  | nil => simp [mergeTokens] at h
  | cons p rest =>
    obtain ⟨n1, a1⟩ := p
    simp only [mergeTokens, Option.bind_eq_bind, Option.bind_eq_some_iff, req_eq_some,
      Option.pure_def, Option.some.injEq, Prod.mk.injEq] at h
    obtain ⟨_, _, _, _, _, _, u1, _, s1, _, _, _, e1, _, ⟨s2, e2, accE, accW⟩, _, _,
      _, _, _, rfl, rfl⟩ := h
    show accW ≤ ((s2.ensureNonce _).credit c _ accW |>.setEnergy _ _).bal c _
    simp only [setEnergy_bal, St.credit, upd2_same, upd]
    rw [if_pos trivial]
    omega

/-! ### period extension (`extend_new_token_period`) -/

/-- `extendLockPeriod(lock_epochs, user)` of energy-factory/src/lib.rs — the endpoint proxy-dex calls
    for `increaseProxy…TokenEnergy` — transcribed here, OUTSIDE the tied model: Core/Energy.lean has
    no such operation, so no correspondence run exercises this definition.  It is the model's
    `extendLock` (= `lockTokens` paid with a locked token; both run `extend_new_token_period`) with
    the energy entry of `user` instead of the caller's (`extendLock_eq`).  The endpoint's caller
    check (`token_transfer_whitelist`, not part of the model state) only restricts who may call and
    is left out: it cannot change the answer of a successful call. -/
def extendPeriodFor (s : St) (c user n amt epochs : Nat) : Option (St × Out) := do
  req (s.paused = false)
  req (s.opts ≠ [])
  req (isListed s.opts epochs = true)
  let unlock := startOfMonth (s.epoch + epochs)
  req (s.epoch < unlock)
  let old ← s.unlockOf n
  let s0 ← s.debit c n amt
  req (old < unlock)
  let e0 ← (s.view user).afterUnlockAny amt old s.epoch
  let e := e0.addAfterLock amt unlock s.epoch
  req (0 < amt)
  let s1 := s0.ensureNonce unlock
  let nn := s0.nonceFor unlock
  pure ((s1.credit c nn amt).setEnergy user e, ⟨nn, amt, 0⟩)

/-- for `user = caller` this IS the tied model operation -/
theorem extendLock_eq (s : St) (c n amt epochs dest : Nat) (hd : dest = 0 ∨ dest = c) :
    extendLock s c n amt epochs dest = extendPeriodFor s c c n amt epochs := by
  unfold extendLock extendPeriodFor
  simp only [req, hd, if_true]
  rfl

/-- **the factory's answer to a period extension**, whoever's energy is updated: the same amount
    comes back, under a nonce whose unlock epoch is the requested month start
    `startOfMonth (now + epochs)`, STRICTLY later than the old unlock epoch and later than now; the
    caller is credited; old nonces keep their epoch -/
theorem extendPeriodFor_answer {s s' : St} {c user n amt epochs : Nat} {o : Out}
    (h : extendPeriodFor s c user n amt epochs = some (s', o)) :
    o.v2 = amt ∧ 0 < amt ∧ isListed s.opts epochs = true ∧ amt ≤ s'.bal c o.v1 ∧
    ∃ old, s.unlockOf n = some old ∧ old < startOfMonth (s.epoch + epochs) ∧
      s.epoch < startOfMonth (s.epoch + epochs) ∧
      s'.unlockOf o.v1 = some (startOfMonth (s.epoch + epochs)) ∧
      (∀ m v, s.unlockOf m = some v → s'.unlockOf m = some v) := by
  simp only [extendPeriodFor, Option.bind_eq_bind, Option.bind_eq_some_iff, req_eq_some,
    Option.pure_def, Option.some.injEq, Prod.mk.injEq] at h
  obtain ⟨_, _, _, _, _, hl, _, hnow, old, hold, s0, hdeb, _, hlt, e0, _, _, hpos, rfl, rfl⟩ := h
  obtain ⟨hn0, _⟩ := debit_nonces hdeb
  refine ⟨rfl, hpos, hl, ?_, old, hold, hlt, hnow, ?_, ?_⟩
  · show amt ≤ ((s0.ensureNonce _).credit c _ amt |>.setEnergy _ _).bal c _
    simp only [setEnergy_bal, St.credit, upd2_same, upd]
    rw [if_pos trivial]
    omega
  · show ((s0.ensureNonce _).credit c _ amt |>.setEnergy _ _).unlockOf (s0.nonceFor _) = _
    exact ensureNonce_unlockOf s0 _
  · intro m v hv
    rw [← unlockOf_congr hn0] at hv
    exact ensureNonce_unlockOf_old s0 _ hv

end Mx.Energy
