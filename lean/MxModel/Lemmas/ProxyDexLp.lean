/-
  LP-token backing of the proxy-dex model: the proxy's LP balance covers every wrapped LP token
  in user hands (each is a claim on as many LP tokens).  Unlike `Backed` this needs one fact about
  the farms: a farm never mints fewer farm tokens than farming tokens entered (`FarmOK`).
-/
import MxModel.Lemmas.ProxyDexOut

namespace Mx.ProxyDex

/-- total amount of a payment list -/
def sumX (l : List (Nat × Nat)) : Nat := sumOf (·.2) l

/-- the callee fact needed: farm tokens created ≥ farming tokens entered / merged / claimed -/
def FarmOK : Op → Prop
  | .enterW farm _ a merge ft _ m _ =>
      farmIsBase farm = false ∧
      (merge = [] → a ≤ ft.2) ∧ (∀ mf t, m = some (mf, t) → a + sumX merge ≤ mf.2)
  | .claim _ _ x ft _ => x ≤ ft.2
  | .mergeFarm _ l mf _ _ _ => sumX l ≤ mf.2
  | _ => True

/-- wrapped farm tokens over wrapped LP never record more wrapped LP than farm tokens, and they
    belong to an LP farm (not to the base-asset farm) -/
def FLe (s : St) : Prop := ∀ q ∈ s.wf, q.kind = .wlp → q.pa ≤ q.fa ∧ farmIsBase q.farm = false

structure LpInv (s : St) : Prop where
  c : C s ≤ s.lp
  fle : FLe s

theorem lpinv_init (now : Nat) : LpInv (init now) := by
  refine ⟨by simp [C, init, WLp.dummy], ?_⟩
  intro q hq; simp [init] at hq; subst hq; intro h; simp [WFarm.dummy] at h

theorem FLe.congr {s s' : St} (h : s'.wf = s.wf) (hf : FLe s) : FLe s' := by
  unfold FLe; rw [h]; exact hf

theorem learn_C (s : St) (t : LkTok) : C (learn s t) = C s := rfl
theorem learnOpt_C (s : St) (t : Option LkTok) : C (learnOpt s t) = C s := by cases t <;> rfl
theorem learnOpt_lp (s : St) (t : Option LkTok) : (learnOpt s t).lp = s.lp := by cases t <;> rfl
theorem learnOpt_wf (s : St) (t : Option LkTok) : (learnOpt s t).wf = s.wf := by cases t <;> rfl

theorem addStray_C (s : St) (l : List LkTok) :
    C (addStray s l) = C s ∧ (addStray s l).lp = s.lp ∧ (addStray s l).wf = s.wf := by
  induction l generalizing s with
  | nil => exact ⟨rfl, rfl, rfl⟩
  | cons t ts ih =>
    obtain ⟨h1, h2, h3⟩ := ih { learn s t with lk := s.lk.add t.k t.amt }
    exact ⟨h1, h2, h3⟩

theorem takeWs_lp {s s' : St} {l : List (Nat × Nat)} {t : Nat} (h : takeWs s l = some (s', t)) :
    C s' + t = C s ∧ s'.lp = s.lp ∧ s'.wf = s.wf ∧ t = sumX l := by
  induction l generalizing s t with
  | nil =>
    simp only [takeWs, Option.some.injEq, Prod.mk.injEq] at h
    obtain ⟨rfl, rfl⟩ := h; exact ⟨rfl, rfl, rfl, rfl⟩
  | cons a l ih =>
    obtain ⟨w, x⟩ := a
    simp only [takeWs, Option.bind_eq_bind, Option.bind_eq_some_iff, Option.pure_def,
      Option.some.injEq, Prod.mk.injEq] at h
    obtain ⟨⟨s1, r, p⟩, h1, ⟨s2, t2⟩, h2, rfl, rfl⟩ := h
    obtain ⟨hc, _, _, _, _, _, hwf, _, hlp, _⟩ := takeW_delta h1
    obtain ⟨hc2, hlp2, hwf2, ht⟩ := ih h2
    dsimp only at *
    refine ⟨by omega, by rw [hlp2, hlp], by rw [hwf2, hwf], ?_⟩
    simp only [sumX, sumOf_cons] at *; omega

theorem takeF0_lp {s s1 : St} {f x p : Nat} {r : WFarm} (h : takeF0 s f x = some (s1, r, p))
    (hf : FLe s) :
    C s1 = C s ∧ s1.lp = s.lp ∧ FLe s1 ∧ r ∈ s.wf ∧ (r.kind = .wlp → p ≤ x) := by
  obtain ⟨hr, hx, hc, hp, _, _, _, rfl⟩ := takeF0_spec h
  have hm : r ∈ s.wf := List.mem_of_getElem? hr
  refine ⟨rfl, rfl, ?_, hm, fun hk => part_le_of_le hp (hf r hm hk).1⟩
  intro q hq hk
  rcases mem_set_cases hq with rfl | hq'
  · exact hf r hm hk
  · exact hf q hq' hk

/-- redeeming a wrapped farm token: the LP-side effect is at most `x` more wrapped LP in user
    hands (only when the part is handed out), nothing else -/
theorem takeF_lp {s s' : St} {f x : Nat} {mode : Mode} {t : Taken} (hf : FLe s)
    (h : takeF s f x mode = some (s', t)) :
    s'.lp = s.lp ∧ FLe s' ∧ t.r ∈ s.wf ∧ (t.r.kind = .wlp → t.p ≤ x) ∧
    (mode ≠ .out → C s' = C s) ∧ C s' ≤ C s + (if t.r.kind = .wlp then t.p else 0) := by
  simp only [takeF, Option.bind_eq_bind, Option.bind_eq_some_iff, Option.pure_def,
    Option.some.injEq, Prod.mk.injEq] at h
  obtain ⟨⟨s1, r, p⟩, h0, ⟨s2, k, q⟩, hs, rfl, rfl⟩ := h
  dsimp only at hs
  obtain ⟨hC, hlp, hfle, hm, hpx⟩ := takeF0_lp h0 hf
  by_cases hmk : mode = .keep
  · subst hmk
    obtain ⟨rfl, _, _⟩ := settle_keep hs
    exact ⟨hlp, hfle, hm, hpx, fun _ => hC, by dsimp only; omega⟩
  · cases hk : r.kind with
    | locked =>
      obtain ⟨_, _, _, rfl⟩ := settle_locked hmk hk hs
      refine ⟨hlp, hfle, hm, ?_, fun _ => hC, ?_⟩
      · intro h'; cases h'
      · show C s1 ≤ _; dsimp only; omega
    | wlp =>
      cases mode with
      | keep => exact absurd rfl hmk
      | out =>
        obtain ⟨rw, hrw, _, _, _, rfl⟩ := settle_wlp_out hk hs
        obtain ⟨hc2, _, _, _⟩ := setW_delta s1 r.pn rw
          { rw with held := rw.held - p, circ := rw.circ + p } hrw rfl
        refine ⟨hlp, hfle, hm, fun _ => hpx hk, fun h' => absurd rfl h', ?_⟩
        dsimp only at hc2 ⊢
        simp only [if_true]; omega
      | dissolve o =>
        obtain ⟨rw, hrw, _, _, _, _, _, rfl⟩ := settle_wlp_dissolve hk hs
        obtain ⟨hc2, _, _, _⟩ := setW_delta s1 r.pn rw
          ⟨rw.total, rw.k, rw.locked, rw.circ, rw.held - p, if o then rw.orph + p else rw.orph,
            rw.rem - q⟩ hrw rfl
        have e : C (setW s1 r.pn ⟨rw.total, rw.k, rw.locked, rw.circ, rw.held - p,
            if o then rw.orph + p else rw.orph, rw.rem - q⟩) = C s1 := by
          dsimp only at hc2; omega
        refine ⟨hlp, hfle, hm, fun _ => hpx hk, fun _ => ?_, ?_⟩
        · show C (setW s1 r.pn _) = C s; rw [← hC]; exact e
        · show C (setW s1 r.pn ⟨rw.total, rw.k, rw.locked, rw.circ, rw.held - p,
            if o then rw.orph + p else rw.orph, rw.rem - q⟩) ≤ _
          rw [e]; dsimp only; omega

theorem takeFs_lp {s s' : St} {farm : Nat} {kind : Kind} {l : List (Nat × Nat)} {t : Nat}
    (hf : FLe s) (h : takeFs s farm kind l = some (s', t)) :
    C s' = C s ∧ s'.lp = s.lp ∧ FLe s' ∧ (kind = .wlp → t ≤ sumX l) := by
  induction l generalizing s t with
  | nil =>
    simp only [takeFs, Option.some.injEq, Prod.mk.injEq] at h
    obtain ⟨rfl, rfl⟩ := h; exact ⟨rfl, rfl, hf, fun _ => Nat.le_refl _⟩
  | cons a l ih =>
    obtain ⟨f, x⟩ := a
    simp only [takeFs, Option.bind_eq_bind, Option.bind_eq_some_iff, Option.pure_def,
      Option.some.injEq, Prod.mk.injEq, req_eq_some] at h
    obtain ⟨⟨s1, tk⟩, h1, _, ⟨_, hkind⟩, ⟨s2, t2⟩, h2, rfl, rfl⟩ := h
    obtain ⟨hlp, hfle, _, hpx, hC, _⟩ := takeF_lp hf h1
    obtain ⟨hC2, hlp2, hfle2, ht⟩ := ih hfle h2
    dsimp only at *
    refine ⟨by rw [hC2]; exact hC (by simp), by rw [hlp2, hlp], hfle2, ?_⟩
    intro hk
    have := ht hk
    have := hpx (hkind.trans hk)
    simp only [sumX, sumOf_cons] at *; omega

theorem newF_fle {s : St} (farm fn fa : Nat) (kind : Kind) (pn pa : Nat) (hf : FLe s)
    (h : kind = .wlp → pa ≤ fa ∧ farmIsBase farm = false) :
    FLe (newF s farm fn fa kind pn pa).1 := by
  intro q hq hk
  simp only [newF, List.mem_append, List.mem_singleton] at hq
  rcases hq with hq | rfl
  · exact hf q hq hk
  · exact h hk

theorem newF_C (s : St) (farm fn fa : Nat) (kind : Kind) (pn pa : Nat) :
    C (newF s farm fn fa kind pn pa).1 = C s ∧ (newF s farm fn fa kind pn pa).1.lp = s.lp :=
  ⟨rfl, rfl⟩

theorem newW_C (s : St) (total k locked : Nat) (u : Bool) :
    C (newW s total k locked u).1 = C s + (if u then total else 0) ∧
    (newW s total k locked u).1.lp = s.lp ∧ (newW s total k locked u).1.wf = s.wf := by
  obtain ⟨_, h, _, _, _, hwf, _, hlp, _⟩ := newW_delta s total k locked u
  exact ⟨h, hlp, hwf⟩

end Mx.ProxyDex
