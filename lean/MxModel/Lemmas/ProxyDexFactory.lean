/-
  The locked-token payments the proxy-dex MODEL sends to the energy factory when it merges wrapped
  tokens: for every wrapped LP payment `(w, x)` the locked nonce of the record and the part
  `into_part` assigns to `x` (`lockedA`), for every wrapped farm payment the locked tokens behind
  it (`lockedFA`).  `takeWs_sends`: these are exactly the locked tokens that leave the proxy's
  balance `lk`, nonce by nonce.  Used by Props/C16Compose.lean.
-/
import MxModel.Lemmas.ProxyDexNetOps

namespace Mx.ProxyDex

/-- locked-token nonce recorded by wrapped LP nonce `w` -/
def kOfW (aw : List (Nat × Nat × Nat)) (w : Nat) : Nat :=
  match aw[w]? with
  | some (_, k, _) => k
  | none => 0

/-- locked-token nonce behind wrapped farm nonce `f` -/
def kOfF (aw : List (Nat × Nat × Nat)) (af : List (Nat × Nat × Nat × Kind × Nat × Nat)) (f : Nat) :
    Nat :=
  match af[f]? with
  | some (_, _, _, kind, pn, _) => (match kind with | .locked => pn | .wlp => kOfW aw pn)
  | none => 0

/-- the locked-token payments behind a list of wrapped LP payments, in the state they are paid in -/
def sentW (s : St) (l : List (Nat × Nat)) : List (Nat × Nat) :=
  l.map fun wx => (kOfW s.aw wx.1, lockedA s.aw wx.1 wx.2)

/-- the locked-token payments behind a list of wrapped farm payments -/
def sentF (s : St) (l : List (Nat × Nat)) : List (Nat × Nat) :=
  l.map fun fx => (kOfF s.aw s.af fx.1, lockedFA s.aw s.af fx.1 fx.2)

/-- amount of nonce `κ` in a payment list -/
def amtOf (κ : Nat) (ps : List (Nat × Nat)) : Nat := sumOf (fun p => if p.1 = κ then p.2 else 0) ps

theorem sentW_sum (s : St) (l : List (Nat × Nat)) : ((sentW s l).map (·.2)).sum = lockedWs s l := by
  simp only [sentW, lockedWs, List.map_map]; rfl

theorem sentF_sum (s : St) (l : List (Nat × Nat)) : ((sentF s l).map (·.2)).sum = lockedFs s l := by
  simp only [sentF, lockedFs, List.map_map]; rfl

theorem sentW_congr {s s' : St} (h : SameAttr s s') (l : List (Nat × Nat)) : sentW s' l = sentW s l := by
  unfold sentW; rw [h.1]

theorem kOfW_of {s : St} {w : Nat} {r : WLp} (h : s.wl[w]? = some r) : kOfW s.aw w = r.k := by
  unfold kOfW; rw [aw_get h]; rfl

/-- **what the proxy model sends**: taking a list of wrapped LP payments apart removes from the
    proxy's locked-token balance, nonce by nonce, exactly the payments `sentW s l` -/
theorem takeWs_sends {s s' : St} {l : List (Nat × Nat)} {sx : Nat} (h : takeWs s l = some (s', sx)) :
    ∀ κ, s'.lk κ + amtOf κ (sentW s l) = s.lk κ := by
  induction l generalizing s sx with
  | nil =>
    simp only [takeWs, Option.some.injEq, Prod.mk.injEq] at h
    obtain ⟨rfl, rfl⟩ := h
    intro κ; simp [sentW, amtOf]
  | cons a l ih =>
    obtain ⟨w, x⟩ := a
    simp only [takeWs, Option.bind_eq_bind, Option.bind_eq_some_iff, Option.pure_def,
      Option.some.injEq, Prod.mk.injEq] at h
    obtain ⟨⟨s1, r, p⟩, h1, ⟨s2, t2⟩, h2, rfl, rfl⟩ := h
    obtain ⟨_, _, hp, hA, _⟩ := takeW_net h1
    obtain ⟨hr, _⟩ := takeW_spec h1
    obtain ⟨_, _, hlk, _⟩ := takeW_delta h1
    have ih' := ih h2
    intro κ
    have e1 := hlk κ
    have e2 := ih' κ
    rw [sentW_congr hA l] at e2
    have hk : kOfW s.aw w = r.k := kOfW_of hr
    simp only [sentW, List.map_cons, amtOf, sumOf_cons] at e2 ⊢
    rw [hk, ← hp]
    omega

end Mx.ProxyDex
